/-
  Proofs/C04ModInputs2.lean — `input_types.py`, continued: what the annotation and the default of a generated field
  mention, what the dependency closure keeps, and the module theorem `inputs_residual`.
-/
import AriadneModel.Proofs.C04ModInputs

set_option linter.unusedSimpArgs false
set_option linter.unusedVariables false

namespace Ariadne.C04Proofs
open Ariadne Ariadne.Gql Ariadne.Util Ariadne.Package Ariadne.PackageTriggers Ariadne.PackageValid Ariadne.Spec.PyScope
open Ariadne.InputField (annOf wrapNullable)

/-! ### annotations -/

/-- what the leaf of the annotation of a field of named type `n` mentions -/
def LeafUse (kinds : String → InputField.Kind) (n u : String) : Prop :=
  match kinds n with
  | .builtin py => u = py
  | .custom ty ser => u = ty ∨ ser = some u
  | .any => u = "Any"
  | .enum => u = n
  | _ => False

theorem inAnnUses_wrap (b : Bool) (a : InputField.Ann) {u : String} (h : u ∈ inAnnUses (wrapNullable b a)) :
    u = "Optional" ∨ u ∈ inAnnUses a := by
  cases b with
  | false => exact Or.inr h
  | true =>
    simp only [wrapNullable, if_true, inAnnUses, List.mem_cons] at h
    exact h

theorem inAnnFwd_wrap (b : Bool) (a : InputField.Ann) : inAnnFwd (wrapNullable b a) = inAnnFwd a := by
  cases b <;> rfl

def wrappers : List String := ["Optional", "List", "Annotated", "PlainSerializer"]

theorem annOf_spec (kinds : String → InputField.Kind) : ∀ (t : InputGen.TypeRef) (nullable : Bool) (a : InputField.Ann) (ft : String),
    annOf kinds t nullable = some (a, ft) →
    (∀ u ∈ inAnnUses a, u ∈ wrappers ∨ LeafUse kinds t.base u) ∧
    (∀ x ∈ inAnnFwd a, x = t.base ∧ kinds t.base = .input) ∧
    (kinds t.base = .enum → ft = t.base)
  | .named n, nullable, a, ft, h => by
    simp only [annOf] at h
    simp only [InputGen.TypeRef.base]
    cases hk : kinds n with
    | builtin py =>
      rw [hk] at h
      simp only [Option.some.injEq, Prod.mk.injEq] at h
      obtain ⟨rfl, rfl⟩ := h
      refine ⟨?_, ?_, by simp⟩
      · intro u hu
        rcases inAnnUses_wrap _ _ hu with rfl | hu
        · exact Or.inl (by simp [wrappers])
        · have : u = py := by simpa [inAnnUses] using hu
          exact Or.inr (by simp [LeafUse, hk, this])
      · intro x hx
        rw [inAnnFwd_wrap] at hx
        simp [inAnnFwd] at hx
    | custom ty ser =>
      rw [hk] at h
      cases ser with
      | none =>
        simp only [Option.some.injEq, Prod.mk.injEq] at h
        obtain ⟨rfl, rfl⟩ := h
        refine ⟨?_, ?_, by simp⟩
        · intro u hu
          rcases inAnnUses_wrap _ _ hu with rfl | hu
          · exact Or.inl (by simp [wrappers])
          · have : u = ty := by simpa [inAnnUses] using hu
            exact Or.inr (by simp [LeafUse, hk, this])
        · intro x hx
          rw [inAnnFwd_wrap] at hx
          simp [inAnnFwd] at hx
      | some s =>
        simp only [Option.some.injEq, Prod.mk.injEq] at h
        obtain ⟨rfl, rfl⟩ := h
        refine ⟨?_, ?_, by simp⟩
        · intro u hu
          rcases inAnnUses_wrap _ _ hu with rfl | hu
          · exact Or.inl (by simp [wrappers])
          · simp only [inAnnUses, List.mem_cons, List.mem_nil_iff, or_false] at hu
            rcases hu with rfl | rfl | rfl | rfl
            · exact Or.inl (by simp [wrappers])
            · exact Or.inl (by simp [wrappers])
            · exact Or.inr (by simp [LeafUse, hk])
            · exact Or.inr (by simp [LeafUse, hk])
        · intro x hx
          rw [inAnnFwd_wrap] at hx
          simp [inAnnFwd] at hx
    | any =>
      rw [hk] at h
      simp only [Option.some.injEq, Prod.mk.injEq] at h
      obtain ⟨rfl, rfl⟩ := h
      refine ⟨?_, ?_, by simp⟩
      · intro u hu
        rcases inAnnUses_wrap _ _ hu with rfl | hu
        · exact Or.inl (by simp [wrappers])
        · have : u = "Any" := by simpa [inAnnUses] using hu
          exact Or.inr (by simp [LeafUse, hk, this])
      · intro x hx
        rw [inAnnFwd_wrap] at hx
        simp [inAnnFwd] at hx
    | enum =>
      rw [hk] at h
      simp only [Option.some.injEq, Prod.mk.injEq] at h
      obtain ⟨rfl, rfl⟩ := h
      refine ⟨?_, ?_, fun _ => rfl⟩
      · intro u hu
        rcases inAnnUses_wrap _ _ hu with rfl | hu
        · exact Or.inl (by simp [wrappers])
        · have : u = n := by simpa [inAnnUses] using hu
          exact Or.inr (by simp [LeafUse, hk, this])
      · intro x hx
        rw [inAnnFwd_wrap] at hx
        simp [inAnnFwd] at hx
    | input =>
      rw [hk] at h
      simp only [Option.some.injEq, Prod.mk.injEq] at h
      obtain ⟨rfl, rfl⟩ := h
      refine ⟨?_, ?_, by simp⟩
      · intro u hu
        rcases inAnnUses_wrap _ _ hu with rfl | hu
        · exact Or.inl (by simp [wrappers])
        · simp [inAnnUses] at hu
      · intro x hx
        rw [inAnnFwd_wrap] at hx
        have : x = n := by simpa [inAnnFwd] using hx
        exact ⟨this, rfl⟩
    | composite => rw [hk] at h; simp at h
    | unknown => rw [hk] at h; simp at h
  | .list t, nullable, a, ft, h => by
    simp only [annOf] at h
    simp only [InputGen.TypeRef.base]
    cases hr : annOf kinds t nullable with
    | none => rw [hr] at h; simp at h
    | some r =>
      obtain ⟨a0, ft0⟩ := r
      rw [hr] at h
      simp only [Option.some.injEq, Prod.mk.injEq] at h
      obtain ⟨rfl, rfl⟩ := h
      obtain ⟨i1, i2, i3⟩ := annOf_spec kinds t nullable a0 ft0 hr
      refine ⟨?_, ?_, i3⟩
      · intro u hu
        rcases inAnnUses_wrap _ _ hu with rfl | hu
        · exact Or.inl (by simp [wrappers])
        · simp only [inAnnUses, List.mem_cons] at hu
          rcases hu with rfl | hu
          · exact Or.inl (by simp [wrappers])
          · exact i1 u hu
      · intro x hx
        rw [inAnnFwd_wrap] at hx
        exact i2 x (by simpa [inAnnFwd] using hx)
  | .nonNull t, _, a, ft, h => by
    simp only [annOf] at h
    simp only [InputGen.TypeRef.base]
    exact annOf_spec kinds t false a ft h

/-! ### default values: what is evaluated when the class statement runs -/

theorem constValue_top_eager (ft : String) (lit : InputGen.Lit) {u : String}
    (h : u ∈ exprEager (InputGen.constValue ft lit false false)) :
    u = "Field" ∨ ∃ v, lit = .enum v ∧ u = dottedHead (ft ++ "." ++ v) := by
  cases lit with
  | int v => simp [InputGen.constValue, exprEager] at h
  | float x => simp [InputGen.constValue, exprEager] at h
  | str s => simp [InputGen.constValue, exprEager] at h
  | bool b => simp [InputGen.constValue, exprEager] at h
  | null => simp [InputGen.constValue, exprEager] at h
  | «enum» v =>
    simp only [InputGen.constValue, exprEager, List.mem_singleton] at h
    exact Or.inr ⟨v, rfl, h⟩
  | list xs =>
    simp only [InputGen.constValue, Bool.false_eq_true, if_false, exprEager, List.mem_singleton] at h
    exact Or.inl h
  | obj kvs =>
    simp only [InputGen.constValue, Bool.false_eq_true, if_false, exprEager, List.mem_singleton] at h
    exact Or.inl h

theorem processFieldValue_eager (al : String) (e : InputGen.PyExpr) {u : String}
    (h : u ∈ valueUses (InputField.processFieldValue al (some e))) : u = "Field" ∨ u ∈ exprEager e := by
  cases e <;> simp only [InputField.processFieldValue, valueUses, List.mem_cons, List.mem_singleton, exprEager] at h ⊢ <;>
    first | exact h | exact Or.inl h | (rcases h with h | h <;> simp_all)

/-- what the value of a generated field evaluates eagerly: `Field`, or the class of an enum literal that IS the default -/
theorem genField_value_eager (cfg : InputField.Cfg) (kinds : String → InputField.Kind) (f0 : InputGen.InputField) (fd : InputField.FieldDecl)
    (a : InputField.Ann) (ft : String) (ha : annOf kinds f0.type true = some (a, ft))
    (h : InputField.genField cfg kinds f0 = some fd) {u : String} (hu : u ∈ valueUses fd.value) :
    u = "Field" ∨ ∃ v, f0.default = some (.enum v) ∧ u = dottedHead (ft ++ "." ++ v) := by
  simp only [InputField.genField, ha, Option.some.injEq] at h
  subst h
  simp only at hu
  -- the default expression, if any
  have hdef : ∀ e, InputGen.fieldDefault .sdl ft f0 = some e → ∀ u ∈ exprEager e,
      u = "Field" ∨ ∃ v, f0.default = some (.enum v) ∧ u = dottedHead (ft ++ "." ++ v) := by
    intro e he u hu
    simp only [InputGen.fieldDefault] at he
    cases hd : f0.default with
    | some lit =>
      rw [hd] at he
      simp only [Option.some.injEq] at he
      subst he
      rcases constValue_top_eager ft lit hu with h | ⟨v, rfl, h⟩
      · exact Or.inl h
      · exact Or.inr ⟨v, rfl, h⟩
    | none =>
      rw [hd] at he
      simp only at he
      split at he
      · simp only [Option.some.injEq] at he
        subst he
        simp [exprEager] at hu
      · cases he
  split at hu
  · -- aliased: Field(alias=…, …)
    cases hv : InputGen.fieldDefault .sdl ft f0 with
    | none =>
      rw [hv] at hu
      simp only [InputField.processFieldValue, valueUses, List.mem_singleton] at hu
      exact Or.inl hu
    | some e =>
      rw [hv] at hu
      rcases processFieldValue_eager _ e hu with h | h
      · exact Or.inl h
      · exact hdef e hv u h
  · cases hv : InputGen.fieldDefault .sdl ft f0 with
    | none => rw [hv] at hu; simp [valueUses] at hu
    | some e =>
      rw [hv] at hu
      simp only [valueUses] at hu
      exact hdef e hv u hu

/-! ### the classes and the dependency table -/

theorem mem_classes {cfg : InputField.Cfg} {defs : List InputGen.TypeDef} {cd : InputField.ClassDecl}
    (h : cd ∈ InputField.classes cfg defs) :
    ∃ n fs, InputGen.TypeDef.input n fs ∈ defs ∧ cd = InputField.genClass cfg (InputField.kindOf cfg defs) n fs := by
  unfold InputField.classes at h
  obtain ⟨d, hd, hc⟩ := List.mem_filterMap.mp h
  cases d with
  | input n fs =>
    simp only [InputField.classOf, Option.some.injEq] at hc
    exact ⟨n, fs, hd, hc.symm⟩
  | enum n vs => simp [InputField.classOf] at hc
  | scalar n => simp [InputField.classOf] at hc
  | composite n => simp [InputField.classOf] at hc

theorem class_of_input {cfg : InputField.Cfg} {defs : List InputGen.TypeDef} {n : String} {fs : List InputGen.InputField}
    (h : InputGen.TypeDef.input n fs ∈ defs) : InputField.genClass cfg (InputField.kindOf cfg defs) n fs ∈ InputField.classes cfg defs := by
  unfold InputField.classes
  exact List.mem_filterMap.mpr ⟨_, h, rfl⟩

theorem mem_pruneTable {cfg : Config} {defs : List InputGen.TypeDef} {d : Prune.InputDef} (h : d ∈ pruneTable cfg defs) :
    ∃ n fs, InputGen.TypeDef.input n fs ∈ defs ∧ d = { name := n, fields := fs.filterMap fun f => pruneRef cfg defs f.type } := by
  unfold pruneTable at h
  obtain ⟨x, hx, hc⟩ := List.mem_filterMap.mp h
  cases x with
  | input n fs =>
    simp only [Option.some.injEq] at hc
    exact ⟨n, fs, hx, hc.symm⟩
  | enum n vs => simp at hc
  | scalar n => simp at hc
  | composite n => simp at hc

theorem pruneTable_of_input {cfg : Config} {defs : List InputGen.TypeDef} {n : String} {fs : List InputGen.InputField}
    (h : InputGen.TypeDef.input n fs ∈ defs) :
    ({ name := n, fields := fs.filterMap fun f => pruneRef cfg defs f.type } : Prune.InputDef) ∈ pruneTable cfg defs := by
  unfold pruneTable
  exact List.mem_filterMap.mpr ⟨_, h, rfl⟩

theorem specified_in_map : ∀ n ∈ InputGen.specifiedScalars, (Tables.inputScalarsMap.lookup n).isSome = true := by decide

/-- how `_save_dependencies` classifies what `parse_input_field_type` classified -/
theorem pruneRef_of_kind (cfg : Config) (defs : List InputGen.TypeDef) (t : InputGen.TypeRef) :
    (InputField.kindOf (inputCfg cfg) defs t.base = .input → pruneRef cfg defs t = some (.input t.base)) ∧
    (InputField.kindOf (inputCfg cfg) defs t.base = .enum → pruneRef cfg defs t = some (.enum t.base)) ∧
    (∀ ty ser, InputField.kindOf (inputCfg cfg) defs t.base = .custom ty ser → pruneRef cfg defs t = some (.scalar t.base)) := by
  unfold InputField.kindOf pruneRef
  simp only
  cases hd : InputGen.findDef defs t.base with
  | none =>
    simp only
    split
    · rename_i hs
      have hin : t.base ∈ InputGen.specifiedScalars := by simpa using hs
      have hl := specified_in_map _ hin
      unfold InputField.scalarKind
      cases hlk : Tables.inputScalarsMap.lookup t.base with
      | none => rw [hlk] at hl; simp at hl
      | some py => simp
    · simp
  | some d =>
    cases d with
    | input n fs => simp
    | enum n vs => simp
    | composite n => simp
    | scalar n =>
      simp only
      unfold InputField.scalarKind
      cases hlk : Tables.inputScalarsMap.lookup t.base with
      | some py => simp
      | none =>
        simp only
        cases hsc : (inputCfg cfg).scalar? t.base with
        | none => simp
        | some sc =>
          obtain ⟨d, hd', _⟩ := inputCfg_scalar hsc
          simp [hd']

/-- what `_filter_class_defs` keeps: a sub-list of the table, closed under the dependency edges, containing the roots -/
theorem filterInputDefs_spec {tbl kept : List Prune.InputDef} {opt : Option (List String)}
    (h : Prune.filterInputDefs tbl opt = some kept) :
    (∀ c ∈ kept, c ∈ tbl) ∧
    (∀ c ∈ kept, ∀ n ∈ Prune.depsOf tbl c.name, ∀ d ∈ tbl, d.name = n → d ∈ kept) ∧
    (∀ roots, opt = some roots → ∀ r ∈ roots, ∀ d ∈ tbl, d.name = r → d ∈ kept) ∧
    (opt = none → kept = tbl) := by
  cases opt with
  | none =>
    simp only [Prune.filterInputDefs, Option.some.injEq] at h
    subst h
    exact ⟨fun c hc => hc, fun c _ n _ d hd _ => hd, fun roots hr => (nomatch hr), fun _ => rfl⟩
  | some roots =>
    obtain ⟨ns, hns, hx⟩ := Prune.typesNames_spec tbl roots
    simp only [Prune.filterInputDefs, hns, Option.map_some, Option.some.injEq] at h
    subst h
    refine ⟨fun c hc => (List.mem_filter.mp hc).1, ?_, ?_, fun h => by cases h⟩
    · intro c hc n hn d hd hdn
      have hcn : c.name ∈ ns := by simpa using (List.mem_filter.mp hc).2
      obtain ⟨r, hr, hreach⟩ := (hx c.name).mp hcn
      have : n ∈ ns := (hx n).mpr ⟨r, hr, .tail hreach hn⟩
      exact List.mem_filter.mpr ⟨hd, by simpa [hdn] using this⟩
    · intro roots' hr r hrm d hd hdn
      simp only [Option.some.injEq] at hr
      subst hr
      have : r ∈ ns := (hx r).mpr ⟨r, hrm, .refl r⟩
      exact List.mem_filter.mpr ⟨hd, by simpa [hdn] using this⟩

/-- inversion of `inputsModule` -/
theorem inputsModule_inv {cfg : Config} {defs : List InputGen.TypeDef} {used : List String} {io : InputsOut}
    (h : inputsModule cfg defs used = .ok io) :
    ∃ kept, Prune.filterInputDefs (pruneTable cfg defs) (if cfg.allInputs then none else some used) = some kept ∧
      io = inputsOut cfg (pruneTable cfg defs) (InputField.classes (inputCfg cfg) defs) kept := by
  unfold inputsModule at h
  split at h
  · simp at h
  · cases hf : Prune.filterInputDefs (pruneTable cfg defs) (if cfg.allInputs then none else some used) with
    | none => rw [hf] at h; simp at h
    | some kept =>
      rw [hf] at h
      simp only [Except.ok.injEq] at h
      exact ⟨kept, rfl, h.symm⟩

end Ariadne.C04Proofs
