/-
  C15: the whole-pipeline statement for plugin lists made of ShorterResults, NoReimports and the identity plugin.

  `shorter_lists_whole`: for every input whose unplugged generation is valid (`validB`) and has the form the
  generator produces (`genShapedS`, decidable), and every such plugin list in which ShorterResults occurs once and
  freshly constructed: the generation does not raise, the package loads, every method is projected on exactly
  the single top-level field of its result class (inherited fragment fields included) or left alone, sends the
  same request and handles every response as the unplugged method does, up to that projection.
-/
import AriadneModel.Proofs.C15ShorterMain
import AriadneModel.Proofs.C15Quiet

set_option linter.unusedSimpArgs false
set_option linter.unusedVariables false

namespace Ariadne.C15
open Ariadne Ariadne.Py Ariadne.Plugins Ariadne.ClientSem

/-! ### the decidable pieces, as propositions -/

theorem splitAt_spec : ∀ (evs pre : List Event) (cm : Event) (post : List Event),
    splitAtClientModule evs = some (pre, cm, post) →
    evs = pre ++ cm :: post ∧ cm.call.hook = "generate_client_module" ∧
      ∀ e ∈ pre, e.call.hook ≠ "generate_client_module" := by
  intro evs
  induction evs with
  | nil => intro pre cm post h; simp [splitAtClientModule] at h
  | cons e rest ih =>
    intro pre cm post h
    unfold splitAtClientModule at h
    by_cases hk : (e.call.hook == "generate_client_module") = true
    · simp only [hk, ↓reduceIte, Option.some.injEq, Prod.mk.injEq] at h
      obtain ⟨rfl, rfl, rfl⟩ := h
      exact ⟨rfl, by simpa using hk, fun e' he' => by simp at he'⟩
    · simp only [hk, Bool.false_eq_true, ↓reduceIte] at h
      cases hs : splitAtClientModule rest with
      | none => simp [hs] at h
      | some t =>
        obtain ⟨pre', cm', post'⟩ := t
        simp only [hs, Option.some.injEq, Prod.mk.injEq] at h
        obtain ⟨rfl, rfl, rfl⟩ := h
        obtain ⟨h1, h2, h3⟩ := ih pre' cm' post' hs
        refine ⟨by rw [h1]; rfl, h2, ?_⟩
        intro e' he'
        rcases List.mem_cons.mp he' with rfl | he''
        · simpa using hk
        · exact h3 e' he''

theorem splitClient_spec (M : Module) (pre : List Top) (g : Method) (c : ClassDef) (h : splitClient M = some (pre, g, c)) :
    M.body = pre ++ [.funcDef g, .classDef c] ∧ NoClass pre := by
  unfold splitClient at h
  split at h
  · rename_i c' g' preRev hrev
    split at h
    · rename_i hall
      simp only [Option.some.injEq, Prod.mk.injEq] at h
      obtain ⟨rfl, rfl, rfl⟩ := h
      constructor
      · have := congrArg List.reverse hrev
        simp only [List.reverse_reverse, List.reverse_cons, List.append_assoc, List.singleton_append] at this
        exact this
      · intro t ht
        rw [List.all_eq_true] at hall
        have := hall t (by simpa using ht)
        cases hcd : t.classDef? with
        | none => rfl
        | some _ => rw [hcd] at this; cases this
    · cases h
  · cases h

theorem kindOKB_sound (md : Method) (h : kindOKB md = true) : KindOK md := by
  unfold kindOKB at h
  cases hs : shapeOf md with
  | none => simp [hs] at h
  | some s =>
    simp only [hs, Bool.and_eq_true, List.isEmpty_iff] at h
    obtain ⟨hp, hk⟩ := h
    refine ⟨s, hs, hp, ?_⟩
    split at hk
    · rename_i aw r d cls ht hr; exact .inl ⟨aw, r, d, cls, ht, hr⟩
    · rename_i d o a cls ht hr; exact .inr ⟨d, o, a, cls, ht, hr⟩
    · cases hk

theorem isOkB_sound {α : Type} (r : Except Err α) (h : isOkB r = true) : ∃ a, r = .ok a := by
  cases r with
  | ok a => exact ⟨a, rfl⟩
  | error e => cases h

/-! ### ShorterResults' recording hooks never touch `extended_imports` -/

theorem shorterStep_ext (c : Call) (hc : c.hook ≠ "generate_client_module") (st : ShorterState) (x : Payload)
    (r : ShorterState × Payload) (h : shorterStep c st x = .ok r) : r.1.extendedImports = st.extendedImports := by
  unfold shorterStep at h
  split at h
  · simp only [pure_eq_ok, Except.ok.injEq] at h
    rw [← h]
    show (shorterResultTypesModule st _).extendedImports = st.extendedImports
    unfold shorterResultTypesModule
    apply foldl_keeps (g := fun (s : ShorterState) => s.extendedImports)
    intro b a
    split
    · split
      · apply foldl_keeps (g := fun (s : ShorterState) => s.extendedImports)
        intro b' a'; rfl
      · rfl
    · rfl
  · simp only [pure_eq_ok, Except.ok.injEq] at h
    rw [← h]
  · simp only [pure_eq_ok, Except.ok.injEq] at h
    rw [← h]
    show (shorterFragmentsModule st _).extendedImports = st.extendedImports
    unfold shorterFragmentsModule
    apply foldl_keeps (g := fun (s : ShorterState) => s.extendedImports)
    intro b a; rfl
  · exfalso; simp_all
  · simp only [pure_eq_ok, Except.ok.injEq] at h
    rw [← h]

theorem bookStep_ext (st : ShorterState) (e : Event) : (bookStep st e).extendedImports = st.extendedImports := by
  unfold bookStep
  by_cases hk : (e.call.hook == "generate_client_module") = true
  · simp only [hk, ↓reduceIte]
  · simp only [hk, Bool.false_eq_true, ↓reduceIte]
    cases hs : shorterStep e.call st e.payload with
    | error err => rfl
    | ok r => exact shorterStep_ext e.call (by simpa using hk) st e.payload r hs

theorem foldl_bookStep_ext (evs : List Event) : ∀ st : ShorterState,
    (evs.foldl bookStep st).extendedImports = st.extendedImports := by
  induction evs with
  | nil => intro st; rfl
  | cons e rest ih => intro st; simp only [List.foldl_cons]; rw [ih, bookStep_ext]

theorem bookStep_noop (st : ShorterState) (e : Event)
    (h : (e.call.hook != "generate_client_module" && !recordingHooks.contains e.call.hook) = true) : bookStep st e = st := by
  simp only [Bool.and_eq_true, bne_iff_ne, ne_eq, Bool.not_eq_true', recordingHooks] at h
  obtain ⟨h4, hrec⟩ := h
  have h1 : e.call.hook ≠ "generate_result_types_module" := by intro hc; rw [hc] at hrec; simp at hrec
  have h2 : e.call.hook ≠ "generate_result_class" := by intro hc; rw [hc] at hrec; simp at hrec
  have h3 : e.call.hook ≠ "generate_fragments_module" := by intro hc; rw [hc] at hrec; simp at hrec
  unfold bookStep
  have : (e.call.hook == "generate_client_module") = false := by simpa using h4
  simp only [this, Bool.false_eq_true, ↓reduceIte, shorterStep_other e.call st _ h1 h2 h3 h4]

theorem foldl_bookStep_noop (evs : List Event)
    (h : ∀ e ∈ evs, (e.call.hook != "generate_client_module" && !recordingHooks.contains e.call.hook) = true) :
    ∀ st : ShorterState, evs.foldl bookStep st = st := by
  induction evs with
  | nil => intro st; rfl
  | cons e rest ih =>
    intro st
    simp only [List.foldl_cons]
    rw [bookStep_noop st e (h e (by simp))]
    exact ih (fun e' he' => h e' (by simp [he'])) st

theorem bookStep_cm (st : ShorterState) (e : Event) (h : e.call.hook = "generate_client_module") : bookStep st e = st := by
  unfold bookStep
  simp [h]

/-! ### the plugin list -/

theorem fragmentsModuleNameOf_quiet (a b : List PState) (ha : Inert a) (st : ShorterState) :
    fragmentsModuleNameOf (a ++ .shorter st :: b) = st.fragmentsModuleName := by
  induction a with
  | nil => rfl
  | cons p rest ih =>
    have hp := ha p (by simp)
    have hrest : Inert rest := fun q hq => ha q (by simp [hq])
    have := ih hrest
    unfold fragmentsModuleNameOf at this ⊢
    rcases hp with rfl | rfl
    · simpa [List.findSome?_cons] using this
    · simpa [List.findSome?_cons] using this

theorem fresh_shorter (st : ShorterState) (h : PState.isFresh (.shorter st) = true) :
    st = { fragmentsModuleName := st.fragmentsModuleName } := by
  cases st
  simp only [PState.isFresh, Bool.and_eq_true, List.isEmpty_iff] at h
  obtain ⟨⟨h1, h2⟩, h3⟩ := h
  subst h1; subst h2; subst h3
  rfl

theorem quiet_no_shorter_clash (a b : List PState) (ha : Inert a) (hb : Inert b) (st : ShorterState) (x : Input)
    (hps : x.plugins = a ++ .shorter st :: b) : trigOpsModuleClash x = false := by
  unfold trigOpsModuleClash
  rw [List.any_eq_false]
  intro p hp
  rw [hps] at hp
  simp only [List.mem_append, List.mem_cons] at hp
  rcases hp with hp | rfl | hp
  · rcases ha p hp with rfl | rfl <;> simp
  · simp
  · rcases hb p hp with rfl | rfl <;> simp

theorem quiet_any_shorter (a b : List PState) (st : ShorterState) : (a ++ PState.shorter st :: b).any PState.isShorter = true := by
  simp [PState.isShorter]

theorem inputFor_cm_module (P : PipeState) (cm : Event) (hc : cm.call.hook = "generate_client_module") (mp : Module)
    (hp : cm.payload = .module mp) : ∃ M, inputFor P cm = .module M := by
  unfold inputFor
  rw [hc, hp]
  simp only
  split <;> exact ⟨_, rfl⟩

theorem singleFieldOf_congr (st : ShorterState) (m m' : Method) (h : returnClassOf m = returnClassOf m') :
    singleFieldOf st m = singleFieldOf st m' := by
  unfold singleFieldOf; rw [h]

/-! ### requests and responses do not see the added imports -/

theorem request_mono (M0 M1 : Module) (s : Shape) (hg0 : "gql" ∈ moduleNames M0) (hmono : ∀ n ∈ moduleNames M0, n ∈ moduleNames M1) :
    request { client := M1, ops := none } s = request { client := M0, ops := none } s := by
  unfold request
  cases hop : s.op with
  | inline q ls =>
    simp [hg0, hmono _ hg0]
  | const c =>
    have hcv : ∀ M : Module, constValue { client := M, ops := none } s c = none := by
      intro M; unfold constValue; cases resolveRuntime { client := M, ops := none } s c <;> rfl
    simp [hcv]

theorem respond_same {PyV : Type} (validate : String × String → J → Except String PyV) (getattr : String → PyV → PyV)
    (M0 M1 : Module) (s : Shape) (d : J)
    (hb : alookup s.retClass (importBindings (topImports M1)) = alookup s.retClass (importBindings (topImports M0))) :
    respond validate getattr { client := M1, ops := none } s d = respond validate getattr { client := M0, ops := none } s d := by
  unfold respond resolveRuntime
  simp only [hb]

/-! ### the theorem -/

theorem shorter_lists_whole (x : Input) (a b : List PState) (st0 : ShorterState) (hps : x.plugins = a ++ .shorter st0 :: b)
    (ha : Inert a) (hb : Inert b) (hfresh : PState.isFresh (.shorter st0) = true)
    (hv : validB x = true) (hg : genShapedS x = true) :
    loadsB x.plugins x = true ∧ projOKB x.plugins x = true ∧ SameBehaviour x.plugins x := by
  -- the pieces of `genShapedS`
  unfold genShapedS at hg
  split at hg
  rotate_left
  · cases hg
  rename_i pre cm post M0 hsplit hM0
  simp only [Bool.and_eq_true] at hg
  obtain ⟨⟨⟨hpayload, hpost⟩, hgql⟩, hrest⟩ := hg
  obtain ⟨hevs, hcm, hpre⟩ := splitAt_spec x.events pre cm post hsplit
  rw [List.all_eq_true] at hpost
  have hpostcm : ∀ e ∈ post, e.call.hook ≠ "generate_client_module" := by
    intro e he
    have := hpost e he
    simp only [Bool.and_eq_true, bne_iff_ne, ne_eq] at this
    exact this.1
  split at hrest
  rotate_left
  · cases hrest
  rename_i pre0 g C0 hsc
  obtain ⟨hbody0, hnc0⟩ := splitClient_spec M0 pre0 g C0 hsc
  simp only [Bool.and_eq_true, List.all_eq_true] at hrest
  obtain ⟨⟨⟨hdict, hmethods⟩, hpool⟩, htwin⟩ := hrest
  -- the module handed to `generate_client_module`
  obtain ⟨mp, hmp⟩ : ∃ mp, cm.payload = .module mp := by
    split at hpayload
    · exact ⟨_, by assumption⟩
    · cases hpayload
  obtain ⟨M, hM⟩ := inputFor_cm_module (runPipeline { plugins := [] } pre).1 cm hcm mp hmp
  have hqw : QuietWith st0 x.plugins := ⟨a, b, hps, ha, hb⟩
  obtain ⟨hu1, hu2, hu3, hplug⟩ := quiet_pipeline x.plugins st0 hqw pre post cm hcm hpre hpostcm M hM
  rw [← hevs] at hu1 hu2 hu3 hplug
  have hMeq : M = M0 := by
    have : (runWith [] x).1.clientModule? = some M := hu2
    rw [hM0] at this
    exact (Option.some.inj this).symm
  subst hMeq
  -- the state of ShorterResults when `generate_client_module` is reached = the facts of the trigger vocabulary
  have hst0 := fresh_shorter st0 hfresh
  have hfm : fragmentsModuleNameOf x.plugins = st0.fragmentsModuleName := by rw [hps]; exact fragmentsModuleNameOf_quiet a b ha st0
  have hfacts : shorterFacts (fragmentsModuleNameOf x.plugins) x.events = pre.foldl bookStep st0 := by
    rw [shorterFacts_eq, hfm, ← hst0, hevs, List.foldl_append, List.foldl_cons, bookStep_cm _ cm hcm,
      foldl_bookStep_noop post hpost]
  rw [hfacts] at hdict hmethods hpool
  -- the unplugged package loads
  have hv' := hv
  simp only [validB, Bool.and_eq_true] at hv'
  obtain ⟨⟨hcfg, hloads0⟩, hproj0⟩ := hv'
  have hloads0' := hloads0
  unfold loadsB at hloads0'
  simp only [Bool.and_eq_true] at hloads0'
  obtain ⟨⟨_, hmod0⟩, _⟩ := hloads0'
  have hM0' : (runWith [] x).1.clientModule? = some M := hM0
  have hops0 : (runWith [] x).1.opsFile? = none := hu3
  rw [hM0', hops0] at hmod0
  simp only [Bool.and_eq_true] at hmod0
  obtain ⟨⟨⟨hfmt0, hann0⟩, hwell0⟩, himp0⟩ := hmod0
  -- hypotheses of the module-level theorem
  have H : ShorterHyps (knownModules x none) (pre.foldl bookStep st0) M pre0 g C0 := by
    refine ⟨hbody0, hnc0, ?_, ?_, ?_, ?_, ?_, ?_, ?_, hfmt0, hann0, hwell0, ?_⟩
    · rw [foldl_bookStep_ext, hst0]
    · intro kv hkv
      exact isOkB_sound _ (hdict kv hkv)
    · intro md hmd hsome
      obtain ⟨⟨h1, _⟩, _⟩ := hmethods md hmd
      cases hsf : singleFieldOf (pre.foldl bookStep st0) md with
      | none => rw [hsf] at hsome; cases hsome
      | some fa =>
        rw [hsf] at h1
        simp only [Bool.and_eq_true] at h1
        exact kindOKB_sound md h1.1
    · intro md hmd f ann hsf n hn
      obtain ⟨⟨h1, _⟩, _⟩ := hmethods md hmd
      rw [hsf] at h1
      simp only [Bool.and_eq_true, List.all_eq_true] at h1
      have h2 := h1.2 n hn
      simp only [Bool.or_eq_true, Bool.and_eq_true, List.contains_iff_mem] at h2
      rcases h2 with (⟨h3, h4⟩ | h3) | h3
      · exact .inl ⟨h3, h4⟩
      · exact .inr (.inl h3)
      · exact .inr (.inr h3)
    · intro md hmd s hs
      obtain ⟨⟨_, h2⟩, _⟩ := hmethods md hmd
      rw [hs] at h2
      simpa using h2
    · intro md hmd
      simpa using (hmethods md hmd).2
    · intro n hn v hv hdot
      have := hpool n hn
      rw [hv] at this
      simp only [Bool.or_eq_true, Bool.not_eq_true', List.contains_iff_mem] at this
      rcases this with h | h
      · rw [hdot] at h; cases h
      · exact h
    · intro i hi q hq
      unfold importsExistB at himp0
      rw [List.all_eq_true] at himp0
      have := himp0 i hi
      rw [hq] at this
      simpa using this
  -- ShorterResults does not raise; what it returns
  obtain ⟨r, hr⟩ := shorter_no_crash _ _ M pre0 g C0 H
  rw [hr] at hplug
  simp only at hplug
  obtain ⟨hp1, hp2, hp3⟩ := hplug
  have C := shorter_concl _ _ r.1 M r.2 pre0 g C0 H (by rw [hr])
  obtain ⟨C1, hfc1, hper⟩ := C.cls
  have hfc0 : M.firstClass? = some C0 := firstClass_of_body M pre0 g C0 hbody0 hnc0
  have hrun : runWith x.plugins x = runPipeline { plugins := x.plugins } x.events := rfl
  have hpkg1 : pkgOf x.plugins x = { client := r.2, ops := none } := by
    unfold pkgOf; rw [hrun, hp2, hp3]; rfl
  have hpkg0 : pkgOf [] x = { client := M, ops := none } := by
    unfold pkgOf; rw [hM0', hops0]; rfl
  -- looking a method up by name, before and after
  have hfind : ∀ n : String, finalMethod [] x n = none ∧ finalMethod x.plugins x n = none ∨
      ∃ md md', finalMethod [] x n = some md ∧ finalMethod x.plugins x n = some md' ∧
        PerMethod (pre.foldl bookStep st0) md md' ∧ md ∈ C0.methods := by
    intro n
    unfold finalMethod
    rw [hM0', hrun, hp2]
    simp only [hfc0, hfc1, Option.map_some, Option.getD_some]
    exact ItemsRel.find (fun m m' h => h.1) n hper
  have hexp : ∀ m ∈ baseMethods x.events, ∀ md, finalMethod [] x m.name = some md →
      expectedProj x.plugins x m = (match singleFieldOf (pre.foldl bookStep st0) md with | some (f, _) => [f] | none => []) := by
    intro m hm md hmd
    have := htwin m hm
    unfold finalMethod at hmd
    rw [hM0'] at hmd
    simp only [hfc0, Option.map_some, Option.getD_some] at hmd
    rw [hmd] at this
    have hrc : returnClassOf md = returnClassOf m := by simpa using this
    unfold expectedProj
    rw [hps, quiet_any_shorter a b st0, ← hps]
    simp only [↓reduceIte, hfacts, singleFieldOf_congr _ m md hrc.symm]
    cases singleFieldOf (pre.foldl bookStep st0) md with
    | none => rfl
    | some fa => rfl
  have hexp0 : ∀ m, expectedProj [] x m = [] := by intro m; unfold expectedProj; simp
  refine ⟨?_, ?_, ?_⟩
  · -- loadsB
    unfold loadsB
    simp only [hrun, hp1, hp2, hp3]
    have hclash : trigOpsModuleClash { x with plugins := x.plugins } = false :=
      quiet_no_shorter_clash a b ha hb st0 x hps
    have himp : importsExistB x r.2 none = true := by
      unfold importsExistB
      rw [List.all_eq_true]
      intro i hi
      cases hq : relModule i with
      | none => rfl
      | some q => simpa using C.imp i hi q hq
    simp [C.fmt, C.ann, C.well, himp, hclash]
  · -- projOKB
    unfold projOKB at hproj0 ⊢
    rw [List.all_eq_true] at hproj0 ⊢
    intro m hm
    have h0 := hproj0 m hm
    unfold finalShape at h0 ⊢
    rcases hfind m.name with ⟨hn0, _⟩ | ⟨md, md', hf0, hf1, hpm, hmem⟩
    · rw [hn0] at h0; simp at h0
    · rw [hf0] at h0
      rw [hf1]
      simp only [Option.bind_some] at h0 ⊢
      cases hs0 : shapeOf md with
      | none => rw [hs0] at h0; simp at h0
      | some s0 =>
        rw [hs0, hexp0] at h0
        simp only [beq_iff_eq] at h0
        rw [hexp m hm md hf0]
        have := hpm.2.2 s0 hs0
        cases hsf : singleFieldOf (pre.foldl bookStep st0) md with
        | none =>
          rw [hsf] at this
          simp only at this
          rw [this, hs0]
          simp [h0]
        | some fa =>
          obtain ⟨f, ann⟩ := fa
          rw [hsf] at this
          simp only at this
          rw [this]
          simp [shorterShape, h0]
  · -- SameBehaviour
    intro m hm s0 hs0
    unfold finalShape at hs0 ⊢
    rcases hfind m.name with ⟨hn0, _⟩ | ⟨md, md', hf0, hf1, hpm, hmem⟩
    · rw [hn0] at hs0; simp at hs0
    · rw [hf0] at hs0
      simp only [Option.bind_some] at hs0
      rw [hf1, hpkg1, hpkg0, hexp m hm md hf0]
      have hbind := C.bindings md hmem s0 hs0
      have hgql' : "gql" ∈ moduleNames M := by simpa using hgql
      have := hpm.2.2 s0 hs0
      cases hsf : singleFieldOf (pre.foldl bookStep st0) md with
      | none =>
        rw [hsf] at this
        simp only at this
        refine ⟨s0, by rw [this]; simpa using hs0, request_mono M r.2 s0 hgql' C.names_mono, ?_⟩
        intro PyV validate getattr d
        rw [respond_same validate getattr M r.2 s0 d hbind]
        simp only [List.foldl_nil]
        exact (outcome_map_id _).symm
      | some fa =>
        obtain ⟨f, ann⟩ := fa
        rw [hsf] at this
        simp only at this
        refine ⟨shorterShape s0 f, by simpa using this, ?_, ?_⟩
        · rw [request_shorterShape]; exact request_mono M r.2 s0 hgql' C.names_mono
        · intro PyV validate getattr d
          rw [respond_shorterShape, respond_same validate getattr M r.2 s0 d hbind]
          simp only [List.foldl_cons, List.foldl_nil]

end Ariadne.C15
