/-
  Python-level lemmas of C03: the emitted signature and dict, the call binding, and the evaluation
  of the method body up to `self.execute(...)`.
-/
import AriadneModel.Model.ArgSend
import AriadneModel.Model.ArgFindings
import AriadneModel.Proofs.ArgValues

set_option linter.unusedSimpArgs false
set_option linter.unusedVariables false

namespace Ariadne.ArgProofs
open Ariadne Ariadne.Scalars Ariadne.Coerce Ariadne.ArgValues Ariadne.ArgSend Ariadne.Arguments Ariadne.ClientMethod
open Ariadne.ArgFindings Ariadne.PyCall
open Ariadne.Gql (TypeRef)
open Ariadne.BaseClient (PV)

attribute [local irreducible] Ariadne.Arguments.pyVar

/-! ### the generator on known types -/

def Known (env : Env) (n : String) : Prop :=
  env.kind n = some .input ∨ env.kind n = some .enum ∨ env.kind n = some .scalar

/-- the name `_parse_named_type_node` puts into the annotation -/
def leafNameP (env : Env) (n : String) : String :=
  match env.kind n with
  | some .scalar =>
    match lookupScalar env.scalars n with
    | none => (Util.lookupStr n Tables.inputScalarsMap).getD "Any"
    | some d => d.typeName
  | _ => n

def useP (env : Env) (n : String) : Use :=
  match env.kind n with
  | some .input => .input n
  | some .enum => .enum n
  | some .scalar =>
    match lookupScalar env.scalars n with
    | none => .plain
    | some _ => .custom n
  | _ => .plain

def annP (env : Env) : TypeRef → Bool → NAnn
  | .named n, nullable => .leaf (.name (leafNameP env n)) nullable
  | .list t, nullable => .list (annP env t nullable) nullable
  | .nonNull t, _ => annP env t false

theorem parseNamed_ok (env : Env) (n : String) (nullable : Bool) (hk : Known env n) :
    parseNamed env n nullable = .ok (.leaf (.name (leafNameP env n)) nullable, useP env n) := by
  rcases hk with h | h | h
  · simp [parseNamed, leafNameP, useP, h]
  · simp [parseNamed, leafNameP, useP, h]
  · simp only [parseNamed, leafNameP, useP, h]
    cases lookupScalar env.scalars n <;> rfl

theorem parse_ok (env : Env) (t : TypeRef) (nullable : Bool) (hk : Known env t.base) :
    parseTypeNode env t nullable = .ok (annP env t nullable, useP env t.base) := by
  induction t generalizing nullable with
  | named n => simpa [parseTypeNode, annP, TypeRef.base] using parseNamed_ok env n nullable hk
  | list t ih => simp [parseTypeNode, annP, TypeRef.base, ih nullable hk]
  | nonNull t ih => simp [parseTypeNode, annP, TypeRef.base, ih false hk]

theorem annP_false_opt (env : Env) (t : TypeRef) : (annP env t false).opt = false := by
  induction t with
  | named n => rfl
  | list t ih => rfl
  | nonNull t ih => simpa [annP] using ih

theorem annP_opt (env : Env) (t : TypeRef) : (annP env t true).opt = !isNonNull t := by
  cases t with
  | named n => rfl
  | list t => rfl
  | nonNull t => simp [annP, isNonNull, annP_false_opt]

/-- everything `generate` emits for one variable definition whose type is known -/
def itemP (env : Env) (v : VarDef) : Item :=
  ⟨v.name, ⟨pyVar env.snake v.name, annP env v.type true, !isNonNull v.type⟩,
   dictValue env (pyVar env.snake v.name) (useP env v.type.base), useP env v.type.base⟩

theorem item_ok (env : Env) (v : VarDef) (hk : Known env v.type.base) : item env v = .ok (itemP env v) := by
  simp [item, parse_ok env v.type true hk, itemP, annP_opt]

theorem items_ok (env : Env) (vds : List VarDef) (hk : ∀ v ∈ vds, Known env v.type.base) :
    items env vds = .ok (vds.map (itemP env)) := by
  induction vds with
  | nil => rfl
  | cons v vds ih =>
    have h1 := item_ok env v (hk v List.mem_cons_self)
    have h2 := ih (fun w hw => hk w (List.mem_cons_of_mem _ hw))
    simp [items, h1, h2]

end Ariadne.ArgProofs

namespace Ariadne.ArgProofs
open Ariadne Ariadne.Scalars Ariadne.Coerce Ariadne.ArgValues Ariadne.ArgSend Ariadne.Arguments Ariadne.ClientMethod
open Ariadne.ArgFindings Ariadne.PyCall
open Ariadne.Gql (TypeRef)
open Ariadne.BaseClient (PV)

/-! ### CPython: duplicate check, binding, lookups -/

theorem firstDup_none_of_nodup (l : List String) (h : l.Nodup) : firstDup l = none := by
  induction l with
  | nil => rfl
  | cons x xs ih =>
    rw [List.nodup_cons] at h
    simp [firstDup, h.1, ih h.2]

theorem hasDup_false_iff (l : List String) : hasDup l = false ↔ l.Nodup := by
  induction l with
  | nil => simp [hasDup]
  | cons x xs ih => simp [hasDup, List.nodup_cons, ih]

theorem lookup_none_of_not_mem {α} (k : String) (l : List (String × α)) (h : k ∉ l.map (·.1)) :
    PyCall.lookup k l = none := by
  induction l with
  | nil => rfl
  | cons kv l ih =>
    obtain ⟨k', v⟩ := kv
    simp only [List.map_cons, List.mem_cons, not_or] at h
    have hne : (k' == k) = false := by simpa using fun e => h.1 e.symm
    simp [PyCall.lookup, hne, ih h.2]

theorem lookup_env {α} (F : String → α) (ps : List Param) (n : String) (h : n ∈ ps.map (·.name)) :
    PyCall.lookup n (ps.map (fun p => (p.name, F p.name))) = some (F n) := by
  induction ps with
  | nil => cases h
  | cons p ps ih =>
    simp only [List.map_cons, PyCall.lookup]
    by_cases e : p.name = n
    · simp [e]
    · have hne : (p.name == n) = false := by simpa using e
      simp only [hne]
      simp only [List.map_cons, List.mem_cons] at h
      rcases h with h | h
      · exact absurd h.symm e
      · simpa using ih h

theorem lookup_env_none {α} (F : String → α) (ps : List Param) (n : String) (h : n ∉ ps.map (·.name)) :
    PyCall.lookup n (ps.map (fun p => (p.name, F p.name))) = none := by
  apply lookup_none_of_not_mem
  simpa [List.map_map] using h

theorem bindParams_ok {α} (dflt : α) (given : List (String × α)) (ps : List Param)
    (h : ∀ p ∈ ps, p.hasDefault = false → (PyCall.lookup p.name given).isSome = true) :
    bindParams dflt given ps = .ok (ps.map (fun p => (p.name, (PyCall.lookup p.name given).getD dflt))) := by
  induction ps with
  | nil => rfl
  | cons p ps ih =>
    have ih' := ih (fun q hq => h q (List.mem_cons_of_mem _ hq))
    cases hl : PyCall.lookup p.name given with
    | some v => simp [bindParams, hl, ih']
    | none =>
      cases hd : p.hasDefault with
      | true => simp [bindParams, hl, hd, ih']
      | false => have := h p List.mem_cons_self hd; simp [hl] at this

/-- a required parameter that is not given: the call raises TypeError before anything runs -/
theorem bindParams_missing {α} (dflt : α) (given : List (String × α)) (ps : List Param) (p : Param)
    (hp : p ∈ ps) (hd : p.hasDefault = false) (hl : PyCall.lookup p.name given = none) :
    ∃ msg, bindParams dflt given ps = .error (.typeError msg) := by
  induction ps with
  | nil => cases hp
  | cons q ps ih =>
    cases hp with
    | head => exact ⟨_, by simp only [bindParams, hl, hd]; rfl⟩
    | tail _ hp' =>
      obtain ⟨msg, hm⟩ := ih hp'
      cases hq : PyCall.lookup q.name given with
      | some v => exact ⟨msg, by simp [bindParams, hq, hm]⟩
      | none =>
        cases hqd : q.hasDefault with
        | true => exact ⟨msg, by simp [bindParams, hq, hqd, hm]⟩
        | false => exact ⟨_, by simp only [bindParams, hq, hqd]; rfl⟩

/-! ### the keyword arguments of the call -/

/-- keys of `givenOf`, value by value: a given argument under its Python name -/
def kwP (fns : UserFns) (snake : Bool) : List VarDecl → List AV → List (String × PV)
  | d :: ds, v :: vs => if v.isUnset then kwP fns snake ds vs else (pyVar snake d.name, argObj fns v) :: kwP fns snake ds vs
  | _, _ => []

/-- every given argument can be turned into its Python object (dumps do not raise) -/
def objsOK (fns : UserFns) : List AV → Prop
  | [] => True
  | v :: vs => (v.isUnset = true ∨ ∃ o c, objOf fns v = .ok (o, c)) ∧ objsOK fns vs

theorem givenOf_kw (fns : UserFns) (snake : Bool) (ds : List VarDecl) (vs : List AV) (h : objsOK fns vs) :
    ∃ g, givenOf fns snake ds vs = .ok g ∧ kwOf g = kwP fns snake ds vs := by
  induction ds generalizing vs with
  | nil => exact ⟨[], by cases vs <;> simp [givenOf], by cases vs <;> simp [kwOf, kwP]⟩
  | cons d ds ih =>
    cases vs with
    | nil => exact ⟨[], by simp [givenOf], by simp [kwOf, kwP]⟩
    | cons v vs =>
      obtain ⟨g, hg, hk⟩ := ih vs h.2
      by_cases hu : v.isUnset = true
      · exact ⟨g, by simp [givenOf, hu, hg], by simp [kwP, hu, hk]⟩
      · rcases h.1 with h1 | ⟨o, c, ho⟩
        · exact absurd h1 hu
        · refine ⟨(pyVar snake d.name, o, c) :: g, by simp [givenOf, hu, ho, hg], ?_⟩
          have hk' : List.map (fun x => (x.1, x.2.1)) g = kwP fns snake ds vs := hk
          simp [kwOf, kwP, hu, argObj, ho, hk']

theorem kwP_keys (fns : UserFns) (snake : Bool) (ds : List VarDecl) (vs : List AV) :
    ∀ k ∈ (kwP fns snake ds vs).map (·.1), k ∈ ds.map (fun d => pyVar snake d.name) := by
  induction ds generalizing vs with
  | nil => intro k hk; cases vs <;> simp [kwP] at hk
  | cons d ds ih =>
    intro k hk
    cases vs with
    | nil => simp [kwP] at hk
    | cons v vs =>
      rw [List.map_cons]
      by_cases hu : v.isUnset = true
      · simp only [kwP, hu, if_true] at hk
        exact List.mem_cons_of_mem _ (ih vs k hk)
      · have hu' : v.isUnset = false := by simpa using hu
        rw [kwP, hu'] at hk
        simp only [Bool.false_eq_true, if_false, List.map_cons, List.mem_cons] at hk
        rcases hk with hk | hk
        · simp [hk]
        · exact List.mem_cons_of_mem _ (ih vs k hk)

/-- with pairwise distinct Python names, the keyword lookup finds the caller's own object -/
theorem lookup_kwP (fns : UserFns) (snake : Bool) (ds : List VarDecl) (vs : List AV)
    (hnd : (ds.map (fun d => pyVar snake d.name)).Nodup) (hlen : ds.length = vs.length) :
    ∀ dv ∈ ds.zip vs, PyCall.lookup (pyVar snake dv.1.name) (kwP fns snake ds vs)
      = if dv.2.isUnset then none else some (argObj fns dv.2) := by
  induction ds generalizing vs with
  | nil => intro dv h; simp at h
  | cons d ds ih =>
    cases vs with
    | nil => simp at hlen
    | cons v vs =>
      simp only [List.map_cons, List.nodup_cons] at hnd
      intro dv h
      simp only [List.zip_cons_cons, List.mem_cons] at h
      rcases h with h | h
      · subst h
        by_cases hu : v.isUnset = true
        · simp only [kwP, hu, if_true]
          apply lookup_none_of_not_mem
          intro hm; exact hnd.1 (kwP_keys fns snake ds vs _ hm)
        · simp [kwP, hu, PyCall.lookup]
      · have hmem : pyVar snake dv.1.name ∈ ds.map (fun d => pyVar snake d.name) := by
          have := List.of_mem_zip h
          exact List.mem_map_of_mem this.1
        have hne : pyVar snake d.name ≠ pyVar snake dv.1.name := fun e => hnd.1 (e ▸ hmem)
        have hrec := ih vs hnd.2 (by simpa using hlen) dv h
        by_cases hu : v.isUnset = true
        · simpa [kwP, hu] using hrec
        · have : (pyVar snake d.name == pyVar snake dv.1.name) = false := by simpa using hne
          simpa [kwP, hu, PyCall.lookup, this] using hrec

end Ariadne.ArgProofs

namespace Ariadne.ArgProofs
open Ariadne Ariadne.Scalars Ariadne.Coerce Ariadne.ArgValues Ariadne.ArgSend Ariadne.Arguments Ariadne.ClientMethod
open Ariadne.ArgFindings Ariadne.PyCall
open Ariadne.Gql (TypeRef)
open Ariadne.BaseClient (PV)

attribute [local irreducible] Ariadne.Arguments.pyVar

/-! ### the two views of a type / of the configuration agree -/

theorem ofTypeRefAux_base (t : TypeRef) (nn : Bool) : (ofTypeRefAux nn t).base = t.base := by
  induction t generalizing nn with
  | named n => rfl
  | list t ih => simp [ofTypeRefAux, GT.base, TypeRef.base, ih]
  | nonNull t ih => simp [ofTypeRefAux, TypeRef.base, ih]

theorem ofTypeRef_base (t : TypeRef) : (ofTypeRef t).base = t.base := ofTypeRefAux_base t false

theorem ofTypeRefAux_nonNull_true (t : TypeRef) : (ofTypeRefAux true t).nonNull = true := by
  induction t with
  | named n => rfl
  | list t ih => rfl
  | nonNull t ih => simpa [ofTypeRefAux] using ih

theorem ofTypeRef_nonNull (t : TypeRef) : (ofTypeRef t).nonNull = isNonNull t := by
  cases t with
  | named n => rfl
  | list t => rfl
  | nonNull t => simp [ofTypeRef, ofTypeRefAux, isNonNull, ofTypeRefAux_nonNull_true]

theorem ofTypeRefAux_isList (t : TypeRef) (nn : Bool) : (ofTypeRefAux nn t).isList = isListType t := by
  induction t generalizing nn with
  | named n => rfl
  | list t ih => rfl
  | nonNull t ih => simpa [ofTypeRefAux, isListType] using ih true

theorem ofTypeRef_isList (t : TypeRef) : (ofTypeRef t).isList = isListType t := ofTypeRefAux_isList t false

theorem known_of_isInputType (cfg : Cfg) (n : String) (h : isInputType cfg.schema n = true) : Known (envOf cfg) n := by
  simp only [isInputType] at h
  simp only [Known, envOf, gqlKind]
  cases hg : cfg.schema.get? n with
  | none => simp [hg] at h ⊢; simp [h]
  | some ty => cases ty <;> simp [hg] at h ⊢

theorem builtin_in_map (n : String) (h : builtinScalars.contains n = true) :
    Util.lookupStr n Tables.inputScalarsMap ≠ none := by
  simp only [builtinScalars, List.contains_cons, List.contains_nil, Bool.or_false, Bool.or_eq_true, beq_iff_eq] at h
  rcases h with h | h | h | h | h <;> subst h <;> decide

/-- `_get_dict_value` in terms of the configuration: `serialize(py)` exactly when the base scalar of
    the type is a configured scalar with `serialize` -/
theorem dictValue_eq (cfg : Cfg) (fns : UserFns) (hy : Hyp cfg fns) (py n : String) :
    dictValue (envOf cfg) py (useP (envOf cfg) n)
      = match (if cfg.isScalar n then cfg.serializeOf n else none) with
        | some f => .call f py
        | none => .name py := by
  cases hg : cfg.schema.get? n with
  | none =>
    have hs : cfg.isScalar n = false := by simp [Cfg.isScalar, hg]
    by_cases hb : builtinScalars.contains n = true
    · have hl : lookupScalar cfg.scalars n = none := by
        cases hl : lookupScalar cfg.scalars n with
        | none => rfl
        | some d => exact absurd (hy.scalarsSane n d hl) (builtin_in_map n hb)
      have hk : gqlKind cfg.schema n = some .scalar := by simp only [gqlKind, hg, hb, if_true]
      simp [envOf, useP, hk, hl, hs, dictValue]
    · have hk : gqlKind cfg.schema n = none := by simp only [gqlKind, hg, hb]; rfl
      simp [envOf, useP, hk, hs, dictValue]
  | some ty =>
    cases ty with
    | scalar =>
      have hs : cfg.isScalar n = true := by simp [Cfg.isScalar, hg]
      have hk : gqlKind cfg.schema n = some .scalar := by simp [gqlKind, hg]
      cases hl : lookupScalar cfg.scalars n with
      | none => simp [envOf, useP, hk, hl, hs, dictValue, Cfg.serializeOf]
      | some d => cases hsn : d.serializeName <;> simp [envOf, useP, hk, hl, hs, dictValue, Cfg.serializeOf, hsn]
    | enum vals =>
      have hs : cfg.isScalar n = false := by simp [Cfg.isScalar, hg]
      have hk : gqlKind cfg.schema n = some .enum := by simp [gqlKind, hg]
      simp [envOf, useP, hk, hs, dictValue]
    | input fs =>
      have hs : cfg.isScalar n = false := by simp [Cfg.isScalar, hg]
      have hk : gqlKind cfg.schema n = some .input := by simp [gqlKind, hg]
      simp [envOf, useP, hk, hs, dictValue]
    | output =>
      have hs : cfg.isScalar n = false := by simp [Cfg.isScalar, hg]
      have hk : gqlKind cfg.schema n = some .object := by simp [gqlKind, hg]
      simp [envOf, useP, hk, hs, dictValue]

theorem serializedBase_eq (cfg : Cfg) (fns : UserFns) (hy : Hyp cfg fns) (t : TypeRef) :
    serializedBase (envOf cfg) t = cfg.serOfType (ofTypeRef t) := by
  simp only [Cfg.serOfType, ofTypeRef_base]
  cases hg : cfg.schema.get? t.base with
  | none =>
    have hs : cfg.isScalar t.base = false := by simp [Cfg.isScalar, hg]
    by_cases hb : builtinScalars.contains t.base = true
    · have hl : lookupScalar cfg.scalars t.base = none := by
        cases hl : lookupScalar cfg.scalars t.base with
        | none => rfl
        | some d => exact absurd (hy.scalarsSane _ d hl) (builtin_in_map _ hb)
      have hk : gqlKind cfg.schema t.base = some .scalar := by simp only [gqlKind, hg, hb, if_true]
      simp [serializedBase, envOf, hk, hl, hs]
    · have hk : gqlKind cfg.schema t.base = none := by simp only [gqlKind, hg, hb]; rfl
      simp [serializedBase, envOf, hk, hs]
  | some ty =>
    cases ty with
    | scalar =>
      have hs : cfg.isScalar t.base = true := by simp [Cfg.isScalar, hg]
      have hk : gqlKind cfg.schema t.base = some .scalar := by simp [gqlKind, hg]
      cases hl : lookupScalar cfg.scalars t.base <;> simp [serializedBase, envOf, hk, hs, Cfg.serializeOf, hl]
    | enum vals =>
      have hs : cfg.isScalar t.base = false := by simp [Cfg.isScalar, hg]
      have hk : gqlKind cfg.schema t.base = some .enum := by simp [gqlKind, hg]
      simp [serializedBase, envOf, hk, hs]
    | input fs =>
      have hs : cfg.isScalar t.base = false := by simp [Cfg.isScalar, hg]
      have hk : gqlKind cfg.schema t.base = some .input := by simp [gqlKind, hg]
      simp [serializedBase, envOf, hk, hs]
    | output =>
      have hs : cfg.isScalar t.base = false := by simp [Cfg.isScalar, hg]
      have hk : gqlKind cfg.schema t.base = some .object := by simp [gqlKind, hg]
      simp [serializedBase, envOf, hk, hs]

/-! ### evaluating the dict literal -/

/-- the dict entry the generator emits for a variable -/
def dvP (cfg : Cfg) (d : VarDecl) : DictVal :=
  match cfg.serOfType (ofTypeRef d.type) with
  | some f => .call f (pyVar cfg.snake d.name)
  | none => .name (pyVar cfg.snake d.name)

theorem itemP_value (cfg : Cfg) (fns : UserFns) (hy : Hyp cfg fns) (d : VarDecl) :
    (itemP (envOf cfg) d.toVarDef).value = dvP cfg d := by
  simp only [itemP, VarDecl.toVarDef, dvP, Cfg.serOfType, ofTypeRef_base]
  rw [dictValue_eq cfg fns hy]
  rfl

theorem evalDict_ok (cfg : Cfg) (fns : UserFns) (env1 : List (String × PV)) (ds : List VarDecl) (vs : List AV)
    (hlen : ds.length = vs.length)
    (hl : ∀ dv ∈ ds.zip vs, PyCall.lookup (pyVar cfg.snake dv.1.name) env1
            = some (if dv.2.isUnset then PV.unset else argObj fns dv.2))
    (hf : ∀ d ∈ ds, ∀ f, cfg.serOfType (ofTypeRef d.type) = some f → PyCall.lookup f env1 = none)
    (hc : ∀ dv ∈ ds.zip vs, ∀ f, cfg.serOfType (ofTypeRef dv.1.type) = some f → ∃ sc j, dv.2 = .custom sc j) :
    evalDict fns env1 (ds.map (fun d => (d.name, dvP cfg d)))
      = .ok (dictOf cfg fns (ds.map (·.toIField)) vs, dictCalls cfg (ds.map (·.toIField)) vs) := by
  induction ds generalizing vs with
  | nil => cases vs <;> rfl
  | cons d ds ih =>
    cases vs with
    | nil => simp at hlen
    | cons v vs =>
      have h2 := ih vs (by simpa using hlen)
        (fun dv h => hl dv (by simp [List.zip_cons_cons, h]))
        (fun e he => hf e (List.mem_cons_of_mem _ he))
        (fun dv h => hc dv (by simp [List.zip_cons_cons, h]))
      have hl0 := hl (d, v) (by simp [List.zip_cons_cons])
      simp only at hl0
      cases hser : cfg.serOfType (ofTypeRef d.type) with
      | none =>
        have he : entryOf cfg fns d.toIField v = (if v.isUnset then PV.unset else argObj fns v) := by
          cases v <;> simp [entryOf, VarDecl.toIField, hser, AV.isUnset]
        have hd : dvP cfg d = .name (pyVar cfg.snake d.name) := by simp [dvP, hser]
        have hc0 : dictCalls cfg (d.toIField :: ds.map (·.toIField)) (v :: vs) = [] ++ dictCalls cfg (ds.map (·.toIField)) vs := by
          have : cfg.serOfType d.toIField.type = none := hser
          cases v <;> simp [dictCalls, dictPart, this]
        simp only [List.map_cons, evalDict, hd, hl0, h2, dictOf, he, hc0]
        rfl
      | some f =>
        obtain ⟨sc, j, hv⟩ := hc (d, v) (by simp [List.zip_cons_cons]) f hser
        simp only at hv
        subst hv
        have hfn := hf d List.mem_cons_self f hser
        have he : entryOf cfg fns d.toIField (.custom sc j) = .leaf (some (fns.ser f j)) := by
          simp [entryOf, VarDecl.toIField, hser, AV.isUnset]
        simp only [AV.isUnset, Bool.false_eq_true, if_false, argObj, objOf] at hl0
        have hd : dvP cfg d = .call f (pyVar cfg.snake d.name) := by simp [dvP, hser]
        have hc0 : dictCalls cfg (d.toIField :: ds.map (·.toIField)) (.custom sc j :: vs)
            = [⟨f, .leaf (some j)⟩] ++ dictCalls cfg (ds.map (·.toIField)) vs := by
          have : cfg.serOfType d.toIField.type = some f := hser
          simp [dictCalls, dictPart, this]
        simp only [List.map_cons, evalDict, hd, hfn, hl0, UserFns.apply, h2, dictOf, he, hc0]
        rfl

end Ariadne.ArgProofs
