/-
  C15: the recogniser `shapeOf` of Model/ClientSem.lean is exact —
      shapeOf m = some s  ↔  m.body = bodyOf s.
  (Until now `bodyOf (shapeOf m) = m.body` was a hypothesis validated by the harness on every real method;
  with these two lemmas "the method has the generated shape" is the decidable `(shapeOf m).isSome`.)
-/
import AriadneModel.Proofs.C15

set_option linter.unusedSimpArgs false
set_option linter.unusedVariables false

namespace Ariadne.C15
open Ariadne Ariadne.Py Ariadne.Plugins Ariadne.ClientSem

/-! ### `projOf` / `projExpr` -/

theorem projOf_foldl (c d : String) : ∀ (fs : List String) (e : Ex) (p : List String),
    projOf e = some (c, d, p) → projOf (fs.foldl (fun e f => Ex.attr e f) e) = some (c, d, p ++ fs) := by
  intro fs
  induction fs with
  | nil => intro e p h; simpa using h
  | cons f rest ih =>
    intro e p h
    simp only [List.foldl_cons]
    have : projOf (.attr e f) = some (c, d, p ++ [f]) := by simp [projOf, h]
    rw [ih (.attr e f) (p ++ [f]) this]
    simp

theorem projOf_projExpr (c d : String) (fs : List String) : projOf (projExpr c d fs) = some (c, d, fs) := by
  unfold projExpr
  have := projOf_foldl c d fs (.call (.attr (.name c) "model_validate") [.name d] [] []) [] (by simp [projOf])
  simpa using this

theorem projOf_sound (e : Ex) : ∀ (c d : String) (fs : List String), projOf e = some (c, d, fs) → e = projExpr c d fs := by
  fun_induction projOf e with
  | case1 e f ih =>
    intro c d fs h
    cases hp : projOf e with
    | none => simp [hp] at h
    | some r =>
      obtain ⟨c', d', fs'⟩ := r
      simp [hp] at h
      obtain ⟨rfl, rfl, rfl⟩ := h
      rw [projExpr_snoc, ← ih c' d' fs' hp]
  | case2 c0 d0 =>
    intro c d fs h
    simp at h
    obtain ⟨rfl, rfl, rfl⟩ := h
    rfl
  | case3 e h1 h2 =>
    intro c d fs h
    cases h

/-! ### `execArgs` / `execCall` -/

theorem execArgs_execCall (callee : String) (s : Shape) :
    execArgs callee (execCall callee s) = some (s.queryName, s.opName, s.varsVar, s.kwargs) := by
  simp [execArgs, execCall]

theorem execArgs_sound (callee : String) (e : Ex) (q o v : String) (kw : Ex)
    (h : execArgs callee e = some (q, o, v, kw)) :
    e = .call (.attr (.name "self") callee) [] [some "query", some "operation_name", some "variables", none]
          [.name q, .const o, .name v, kw] := by
  unfold execArgs at h
  split at h
  · split at h
    · rename_i hf
      simp at h
      obtain ⟨rfl, rfl, rfl, rfl⟩ := h
      rw [hf]
    · cases h
  · cases h

/-! ### leading imports -/

theorem splitImports_spec : ∀ (body : List Stmt),
    body = (splitImports body).1.map (fun i => Stmt.simple (.importFrom i)) ++ (splitImports body).2 := by
  intro body
  fun_induction splitImports body with
  | case1 i rest r ih => simp only [List.map_cons, List.cons_append]; rw [← ih]
  | case2 rest h => simp

theorem splitImports_prefix (rest : List Stmt) (hrest : splitImports rest = ([], rest)) : ∀ (is : List ImportFrom),
    splitImports (is.map (fun i => Stmt.simple (.importFrom i)) ++ rest) = (is, rest) := by
  intro is
  induction is with
  | nil => simpa using hrest
  | cons i tl ih => simp [splitImports, ih]

/-! ### the whole body -/

/-- a body built by `bodyOf` is recognised, with exactly the shape it was built from -/
theorem shapeOf_bodyOf (m : Method) (s : Shape) (hb : m.body = bodyOf s) : shapeOf m = some s := by
  obtain ⟨imports, op, opName, varsVar, varsAnn, variables, kwargs, tail, retClass, proj⟩ := s
  unfold shapeOf
  rw [hb]
  unfold bodyOf
  simp only [List.append_assoc]
  cases op with
  | inline q ls =>
    rw [splitImports_prefix _ (by simp [opStmts, splitImports])]
    cases tail with
    | call aw r d =>
      cases aw with
      | true =>
        simp [opStmts, tailStmts, tailOf, execArgs_execCall, projOf_projExpr, Shape.queryName]
      | false =>
        simp [opStmts, tailStmts, tailOf, projOf_projExpr, Shape.queryName]
        simp [execCall, execArgs, Shape.queryName]
    | sub d l o =>
      simp [opStmts, tailStmts, tailOf, execArgs_execCall, projOf_projExpr, Shape.queryName]
  | const cn =>
    rw [splitImports_prefix _ (by simp [opStmts, splitImports])]
    cases tail with
    | call aw r d =>
      cases aw with
      | true =>
        simp [opStmts, tailStmts, tailOf, execArgs_execCall, projOf_projExpr, Shape.queryName]
      | false =>
        simp [opStmts, tailStmts, tailOf, projOf_projExpr, Shape.queryName]
        simp [execCall, execArgs, Shape.queryName]
    | sub d l o =>
      simp [opStmts, tailStmts, tailOf, execArgs_execCall, projOf_projExpr, Shape.queryName]

end Ariadne.C15

namespace Ariadne.C15
open Ariadne Ariadne.Py Ariadne.Plugins Ariadne.ClientSem

/-! ### soundness of the recogniser -/

theorem tailOf_sound (tl : List Stmt) (t : Tail) (q o v : String) (kw : Ex) (c dd : String) (fs : List String)
    (h : tailOf tl = some (t, (q, o, v, kw), (c, dd, fs))) (s : Shape)
    (h1 : s.tail = t) (h2 : s.queryName = q) (h3 : s.opName = o) (h4 : s.varsVar = v) (h5 : s.kwargs = kw)
    (h6 : s.retClass = c) (h7 : s.proj = fs) : tl = tailStmts s := by
  unfold tailOf at h
  split at h
  · -- query / mutation
    rename_i r e d r' rv
    split at h
    · rename_i hr
      subst hr
      split at h
      · -- awaited
        rename_i c0
        split at h
        · rename_i a p ha hp
          split at h
          · rename_i hd
            simp only [Option.some.injEq, Prod.mk.injEq] at h
            obtain ⟨rfl, rfl, rfl⟩ := h
            have hc0 := execArgs_sound "execute" c0 q o v kw ha
            have hrv := projOf_sound rv c dd fs hp
            simp only at hd
            subst hd
            unfold tailStmts
            rw [h1]
            simp only [execCall, h2, h3, h4, h5, h6, h7, ↓reduceIte]
            rw [hc0, hrv]
          · cases h
        · cases h
      · -- not awaited
        rename_i c0 hnot
        split at h
        · rename_i a p ha hp
          split at h
          · rename_i hd
            simp only [Option.some.injEq, Prod.mk.injEq] at h
            obtain ⟨rfl, rfl, rfl⟩ := h
            have hc0 := execArgs_sound "execute" e q o v kw ha
            have hrv := projOf_sound rv c dd fs hp
            simp only at hd
            subst hd
            unfold tailStmts
            rw [h1]
            simp only [execCall, h2, h3, h4, h5, h6, h7, Bool.false_eq_true, ↓reduceIte]
            rw [hc0, hrv]
          · cases h
        · cases h
    · cases h
  · -- subscription
    rename_i d it rv l o'
    split at h
    · rename_i a p ha hp
      split at h
      · rename_i hd
        simp only [Option.some.injEq, Prod.mk.injEq] at h
        obtain ⟨rfl, rfl, rfl⟩ := h
        have hc0 := execArgs_sound "execute_ws" it q o v kw ha
        have hrv := projOf_sound rv c dd fs hp
        simp only at hd
        subst hd
        unfold tailStmts
        rw [h1]
        simp only [execCall, h2, h3, h4, h5, h6, h7]
        rw [hc0, hrv]
      · cases h
    · cases h
  · cases h

/-- what `shapeOf` recognises is exactly a body `bodyOf` builds -/
theorem shapeOf_sound (m : Method) (s : Shape) (h : shapeOf m = some s) : m.body = bodyOf s := by
  unfold shapeOf at h
  have hsplit := splitImports_spec m.body
  generalize splitImports m.body = sp at h hsplit
  obtain ⟨imps, rest⟩ := sp
  simp only at h hsplit
  split at h
  · -- inlined operation
    rename_i q lines v ann dict tail
    split at h
    · rename_i t q' o v' kw c dd fs htail
      split at h
      · rename_i hq
        simp only [Option.some.injEq] at h
        subst h
        obtain ⟨rfl, rfl⟩ := hq
        have ht := tailOf_sound tail t q' o v' kw c dd fs htail
          { imports := imps, op := .inline q' lines, opName := o, varsVar := v', varsAnn := ann, variables := dict,
            kwargs := kw, tail := t, retClass := c, proj := fs } rfl rfl rfl rfl rfl rfl rfl
        rw [hsplit, ht]
        simp [bodyOf, opStmts]
      · cases h
    · cases h
  · -- operation constant
    rename_i v ann dict tail
    split at h
    · rename_i t q' o v' kw c dd fs htail
      split at h
      · rename_i hq
        simp only [Option.some.injEq] at h
        subst h
        subst hq
        have ht := tailOf_sound tail t q' o v' kw c dd fs htail
          { imports := imps, op := .const q', opName := o, varsVar := v', varsAnn := ann, variables := dict,
            kwargs := kw, tail := t, retClass := c, proj := fs } rfl rfl rfl rfl rfl rfl rfl
        rw [hsplit, ht]
        simp [bodyOf, opStmts]
      · cases h
    · cases h
  · cases h

theorem shapeOf_iff (m : Method) (s : Shape) : shapeOf m = some s ↔ m.body = bodyOf s :=
  ⟨shapeOf_sound m s, shapeOf_bodyOf m s⟩

end Ariadne.C15
