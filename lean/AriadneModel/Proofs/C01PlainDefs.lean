/-
  Proofs/C01PlainDefs.lean — property C01, "plain selections" tier: definitions.

  * `plainClasses env cn tn sel`: a structural ("clean") description of the classes the result-type
    generator emits for a selection set consisting of FIELDS only, evaluated on type `tn`, root class `cn`.
  * `PlainOK env cn tn sid sel st : Bool`: the decidable hypothesis of the tier.
  * `gfuel`, `vneed`: generator / validation fuel that suffices.
  * the named loop bodies of the model (`resolveBody`, `fieldBody`, …; equal to the model by `rfl`).
  Core Lean only.
-/
import AriadneModel.Proofs.ResultLeaf
import AriadneModel.Proofs.C08Monad

set_option linter.unusedSimpArgs false
set_option linter.unusedVariables false

namespace Ariadne.C01Plain
open Ariadne Ariadne.Gql Ariadne.ResultTypes Ariadne.Util

/-! ### annotations -/

/-- the annotation of a type whose named base is annotated `base`: `Optional[..]` where nullable,
    `List[..]` where list -/
def wrapAnn (base : Ann) : Bool → TypeRef → Ann
  | _, .nonNull t => wrapAnn base false t
  | nullable, .list t => optionalIf nullable (.list (wrapAnn base true t))
  | nullable, .named _ => optionalIf nullable base

/-- `parse_directives`: `@skip` / `@include` make the annotation Optional -/
def condAnn (a : Ann) (dirs : List Directive) : Ann :=
  if hasConditionalDirective dirs then (if isNullableAnn a then a else .optional a) else a

/-- decidable form of `ResultLeaf.LeafName`: scalar (not configured as custom scalar) or enum -/
def isLeafName (env : Env) (n : String) : Bool :=
  (match env.schema.kindOf? n with
   | none => true
   | some .scalar => true
   | some .enum => true
   | _ => false) && (scalarCfg? env n).isNone

/-- declared type of field `name` of type `tn` (dummy if there is no such field) -/
def fieldT (env : Env) (tn name : String) : TypeRef :=
  match env.schema.fieldOf? tn name with
  | some fd => fd.type
  | none => .named ""

def subType (env : Env) (tn name : String) : String := (fieldT env tn name).base

def subClass (env : Env) (cn : String) (alias : Option String) (name : String) : String :=
  cn ++ pascal (pyFieldName env (alias.getD name))

/-- the field declaration emitted for one field node -/
def fieldDecl (env : Env) (cn tn : String) (alias : Option String) (name : String) (dirs : List Directive)
    (sub : List Selection) : FieldDecl :=
  let key := alias.getD name
  let py := pyFieldName env key
  let T := fieldT env tn name
  let base : Ann := if sub.isEmpty then ResultLeaf.leafBase env T.base else .cls (subClass env cn alias name)
  { py := py, ann := condAnn (wrapAnn base true T) dirs, alias := if py != key then some key else none,
    discriminator := false, defaultNone := hasConditionalDirective dirs }

def plainDecl1 (env : Env) (cn tn : String) : Selection → List FieldDecl
  | .field alias name dirs _ sub => [fieldDecl env cn tn alias name dirs sub]
  | _ => []

def plainDecls (env : Env) (cn tn : String) (sel : List Selection) : List FieldDecl :=
  sel.flatMap (plainDecl1 env cn tn)

mutual
  /-- the classes of the sub-selections, in generation order -/
  def plainExtra (env : Env) : String → String → List Selection → List ClassDecl
    | _, _, [] => []
    | cn, tn, s :: rest => plainExtra1 env cn tn s ++ plainExtra env cn tn rest
  def plainExtra1 (env : Env) : String → String → Selection → List ClassDecl
    | cn, tn, .field alias name _ _ sub =>
      if sub.isEmpty then []
      else
        { name := subClass env cn alias name, bases := ["BaseModel"],
          fields := plainDecls env (subClass env cn alias name) (subType env tn name) sub }
          :: plainExtra env (subClass env cn alias name) (subType env tn name) sub
    | _, _, _ => []
end

/-- **the clean generator** for plain selections -/
def plainClasses (env : Env) (cn tn : String) (sel : List Selection) : List ClassDecl :=
  { name := cn, bases := ["BaseModel"], fields := plainDecls env cn tn sel } :: plainExtra env cn tn sel

/-! ### the hypothesis -/

def isField : Selection → Bool
  | .field .. => true
  | _ => false

def keyOf : Selection → String
  | .field alias name _ _ _ => alias.getD name
  | _ => ""

def nodupB : List String → Bool
  | [] => true
  | x :: xs => !xs.contains x && nodupB xs

/-- conditions on ONE selection set: pairwise distinct response keys, pairwise distinct Python names, and
    (pydantic `populate_by_name`: a field that has an alias is also looked up under its Python name when
    the alias is absent) the Python name of an aliased field is not the response key of another field -/
def setOK (env : Env) (sel : List Selection) : Bool :=
  let keys := sel.map keyOf
  nodupB keys && nodupB (keys.map (pyFieldName env)) &&
  keys.all fun k => pyFieldName env k == k || !keys.contains (pyFieldName env k)

mutual
  /-- structural conditions, by recursion on the selection tree (`marks` = `st.marks`) -/
  def plainLocal (env : Env) (marks : List Nat) : String → String → List Selection → Bool
    | _, _, [] => true
    | cn, tn, s :: rest => plainLocal1 env marks cn tn s && plainLocal env marks cn tn rest
  def plainLocal1 (env : Env) (marks : List Nat) : String → String → Selection → Bool
    | cn, tn, .field alias name dirs sid sub =>
      -- `__typename` is treated specially by generator and executor alike: outside this tier
      name != typenameField
      -- no `@mixin` on the field
      && !(dirs.any (·.name == Tables.mixinName))
      -- the field exists on the type
      && (env.schema.fieldOf? tn name).isSome
      && (if sub.isEmpty then
            -- leaf: scalar / enum under any wrappers
            isLeafName env (subType env tn name)
          else
            -- object under any wrappers, plain sub-selection; the sub-selection-set object has not been
            -- given an automatic `__typename` by an earlier generation (`st.marks`, finding C01-F4)
            env.schema.kindOf? (subType env tn name) == some .object
            && !marks.contains sid
            && setOK env sub
            && plainLocal env marks (subClass env cn alias name) (subType env tn name) sub)
    | _, _, _ => false     -- fragment spreads / inline fragments: outside this tier
end

/-- **`PlainOK`**: the decidable hypothesis of the plain-selections tier.  `sid` = identity of the
    top-level selection set, `st` = generator state in which `_parse_type_definition` is called. -/
def PlainOK (env : Env) (cn tn : String) (sid : Nat) (sel : List Selection) (st : St) : Bool :=
  !st.marks.contains sid && setOK env sel && plainLocal env st.marks cn tn sel
  && nodupB ((plainClasses env cn tn sel).map (·.name))
  && ((plainClasses env cn tn sel).map (·.name)).all (fun n => !st.publicNames.contains n)

/-! ### fuel -/

mutual
  /-- generator fuel that suffices -/
  def gfuel : List Selection → Nat
    | [] => 2
    | s :: rest => max (gfuel1 s) (gfuel rest)
  def gfuel1 : Selection → Nat
    | .field _ _ _ _ sub => gfuel sub + 2
    | _ => 0
end

/-- validation fuel spent in the wrappers of a type -/
def wneed : TypeRef → Nat
  | .named _ => 1
  | .list t => wneed t + 2
  | .nonNull t => wneed t

mutual
  /-- validation fuel that suffices for the fields of a selection set on type `tn` -/
  def vneed (env : Env) : String → List Selection → Nat
    | _, [] => 0
    | tn, s :: rest => max (vneed1 env tn s) (vneed env tn rest)
  def vneed1 (env : Env) : String → Selection → Nat
    | tn, .field _ name _ _ sub =>
      wneed (fieldT env tn name) + 2 + (if sub.isEmpty then 0 else vneed env (subType env tn name) sub + 1)
    | _, _ => 0
end

/-! ### JSON objects without duplicate keys (hereditarily) -/

mutual
  def nodupKeys : J → Bool
    | .arr xs => nodupKeysList xs
    | .obj kvs => nodupKvs kvs
    | _ => true
  def nodupKeysList : List J → Bool
    | [] => true
    | x :: xs => nodupKeys x && nodupKeysList xs
  def nodupKvs : List (String × J) → Bool
    | [] => true
    | (k, v) :: rest => !(J.hasKey k rest) && nodupKeys v && nodupKvs rest
end

/-! ### the loop bodies of the model, named (after Proofs/C08Resolve.lean, C08Classes.lean) -/

abbrev Acc := List RField × List String

def resolveBody (env : Env) (fuel : Nat) (root : String) (s : Selection) (acc : Acc) : M (ForInStep Acc) :=
  match s with
  | .field alias name dirs sid sub => pure (.yield (acc.1 ++ [⟨alias, name, dirs, sid, sub⟩], acc.2))
  | .spread n _ =>
    match findFragment? env.frags n with
    | none => err (.internal "KeyError")
    | some f =>
      if (env.schema.get? root).isNone then err (.internal "KeyError")
      else if (env.schema.get? f.on).isNone then err (.internal "KeyError")
      else if !unpackFragment env f (some root) then pure (.yield (acc.1, setAdd acc.2 n))
      else if f.on == root || (env.schema.isAbstract f.on && env.schema.isSubType f.on root) then do
        modify fun st => { st with unpacked := setAdd st.unpacked n }
        let x ← resolve env fuel f.sel root
        pure (.yield (acc.1 ++ x.1, setUnion acc.2 x.2))
      else do
        modify fun st => { st with dropped := st.dropped ++ [(f.on, root)] }
        pure (.yield (acc.1, acc.2))
  | .inline on _ _ sub =>
    match on with
    | none => err (.internal "AttributeError")
    | some cond =>
      match inlineFragmentRootType env cond root with
      | some rt => do
        let x ← resolve env fuel sub rt
        pure (.yield (acc.1 ++ x.1, setUnion acc.2 x.2))
      | none => do
        modify fun st => { st with dropped := st.dropped ++ [(cond, root)] }
        pure (.yield (acc.1, acc.2))

theorem resolve_succ (env : Env) (fuel : Nat) (sels : List Selection) (root : String) :
    resolve env (fuel + 1) sels root =
      (forIn sels (([], []) : Acc) (resolveBody env fuel root) >>= fun acc => do
        modify fun st => { st with mixins := setUnion st.mixins acc.2 }
        pure (acc.1, acc.2)) := rfl

def mixinGet (d : Directive) (k : String) : Option String := (d.args.reverse.find? (·.1 == k)).bind (·.2)

def mixinBody (d : Directive) (bases : List String) : M (ForInStep (List String)) :=
  if d.name == Tables.mixinName then
    if d.args.any (·.2.isNone) then err (.parsing "Arguments passed to mixin have to be strings.")
    else
      match mixinGet d Tables.mixinFromName, mixinGet d Tables.mixinImportName with
      | some fr, some im => do
        modify fun st => { st with mixinImports := st.mixinImports ++ [(fr, im)] }
        pure (.yield (bases ++ [im]))
      | _, _ => err (.parsing "Required arguments (from, import) not found.")
  else pure (.yield bases)

theorem mixinBases_eq (dirs : List Directive) : mixinBases dirs = (forIn dirs [] mixinBody >>= fun s => pure s) := by
  rfl

abbrev FAcc := List FieldDecl × List ClassDecl

def typenameRField : RField := ⟨none, typenameField, [], 0, []⟩

def fieldBody (env : Env) (fuel : Nat) (cn tn : String) (tv : List String) (f : RField) (acc : FAcc) : M (ForInStep FAcc) := do
  let t ← ResultTypes.liftExcept (fieldTypeFromSchema env tn f.name)
  let x ← ResultTypes.liftExcept (parseOperationField env (fuel + 1) f.name f.dirs f.sub t (cn ++ pascal (pyFieldName env f.key)) tv)
  let fieldBases ← mixinBases f.dirs
  let more ← parseFieldSelectionSetTypes env fuel f.sid f.sub x.2.2 fieldBases
  modify fun st => { st with usedEnums := st.usedEnums ++ x.2.2.enums, usedScalars := st.usedScalars ++ x.2.2.customScalars }
  pure (.yield (acc.1 ++ [{ py := pyFieldName env f.key, ann := x.1,
                            alias := if pyFieldName env f.key != f.key then some f.key else none,
                            discriminator := isUnionAnn x.1, defaultNone := x.2.1 }], acc.2 ++ more))

def classTail (env : Env) (fuel : Nat) (cn tn : String) (tv eb frs : List String) (resolved : List RField) : M (List ClassDecl) := do
  let s ← forIn resolved (([], []) : FAcc) (fieldBody env fuel cn tn tv)
  pure ({ name := cn, bases := (if frs.isEmpty then ["BaseModel"] else (sortStr frs).map pascal) ++ eb, fields := s.1 } :: s.2)

theorem parseTypeDefinition_succ (env : Env) (fuel : Nat) (cn tn : String) (sid : Nat) (sel : List Selection) (a : Bool)
    (eb tv : List String) :
    parseTypeDefinition env (fuel + 1) cn tn sid sel a eb tv = (do
      let st0 ← get
      if st0.publicNames.contains cn then pure []
      else do
        modify fun st => { st with publicNames := st.publicNames ++ [cn] }
        let x ← resolve env (fuel + 1) sel tn
        let st1 ← get
        let resolved0 := if st1.marks.contains sid then typenameRField :: x.1 else x.1
        if a && !(resolved0.any (·.name == typenameField)) then do
          modify fun st => { st with marks := if st.marks.contains sid then st.marks else st.marks ++ [sid] }
          classTail env fuel cn tn tv eb x.2 (typenameRField :: resolved0)
        else classTail env fuel cn tn tv eb x.2 resolved0) := by
  rfl

def relatedBody (env : Env) (fuel : Nat) (sid : Nat) (sel : List Selection) (ctx : Ctx) (eb : List String)
    (x : String × String) (acc : List ClassDecl) : M (ForInStep (List ClassDecl)) := do
  let cs ← parseTypeDefinition env fuel x.1 x.2 sid sel ctx.abstract eb
    (((typenameValues env ctx.related).find? (·.1 == x.2)).map (·.2) |>.getD [])
  pure (.yield (acc ++ cs))

theorem parseFieldSelectionSetTypes_succ (env : Env) (fuel : Nat) (sid : Nat) (sel : List Selection) (ctx : Ctx) (eb : List String) :
    parseFieldSelectionSetTypes env (fuel + 1) sid sel ctx eb =
      (if sel.isEmpty then pure []
       else forIn ctx.related [] (relatedBody env fuel sid sel ctx eb) >>= fun s => pure s) := by
  rfl

end Ariadne.C01Plain
