/-
  Proofs/C08Acyclic.lean — the dependency dict of the fragments module is acyclic whenever the document's
  fragment spreads are (GraphQL validation rule NoFragmentCycles): a fragment's generator only ever records
  fragments that are spread, directly or through other fragments, from the fragment's own selection set.
  Core Lean only.
-/
import AriadneModel.Proofs.C08Package

set_option linter.unusedSimpArgs false
set_option linter.unusedVariables false

open Ariadne Ariadne.Gql Ariadne.Util

namespace Ariadne.ResultTypes

mutual
  /-- names of the fragment spreads written inside a selection (through fields and inline fragments) -/
  def selSpreads : Selection → List String
    | .field _ _ _ _ sub => selsSpreads sub
    | .spread n _ => [n]
    | .inline _ _ _ sub => selsSpreads sub
  def selsSpreads : List Selection → List String
    | [] => []
    | s :: rest => selSpreads s ++ selsSpreads rest
end

/-- every fragment spread written inside `sels` satisfies `P` -/
def Low (P : String → Prop) (sels : List Selection) : Prop := ∀ n ∈ selsSpreads sels, P n

theorem low_of_mem {P : String → Prop} : ∀ {sels : List Selection} {s : Selection}, Low P sels → s ∈ sels → ∀ n ∈ selSpreads s, P n
  | [], _, _, hs, _, _ => by cases hs
  | x :: rest, s, h, hs, n, hn => by
    rcases List.mem_cons.mp hs with rfl | hs
    · exact h n (by simp only [selsSpreads]; exact List.mem_append_left _ hn)
    · exact low_of_mem (sels := rest) (fun m hm => h m (by simp only [selsSpreads]; exact List.mem_append_right _ hm)) hs n hn

theorem low_field {P : String → Prop} {sels : List Selection} {a : Option String} {nm : String} {d : List Directive} {sid : Nat}
    {sub : List Selection} (h : Low P sels) (hs : Selection.field a nm d sid sub ∈ sels) : Low P sub :=
  fun n hn => low_of_mem h hs n (by simpa only [selSpreads] using hn)

theorem low_inline {P : String → Prop} {sels : List Selection} {on : Option String} {d : List Directive} {sid : Nat}
    {sub : List Selection} (h : Low P sels) (hs : Selection.inline on d sid sub ∈ sels) : Low P sub :=
  fun n hn => low_of_mem h hs n (by simpa only [selSpreads] using hn)

theorem low_spread {P : String → Prop} {sels : List Selection} {n : String} {d : List Directive}
    (h : Low P sels) (hs : Selection.spread n d ∈ sels) : P n :=
  low_of_mem h hs n (by simp [selSpreads])

section
variable (env : Env) (P : String → Prop)
  (hclosed : ∀ n f, P n → findFragment? env.frags n = some f → Low P f.sel)

/-- what `resolve` returns from a selection set whose spreads all satisfy `P` -/
def LowOut (x : Acc) : Prop := (∀ m ∈ x.2, P m) ∧ (∀ fld ∈ x.1, Low P fld.sub)

include hclosed in
theorem resolve_low : ∀ (fuel : Nat) (sels : List Selection) (root : String) (st : St) (r : Acc) (st' : St),
    Low P sels → resolve env fuel sels root st = .ok (r, st') → LowOut P r
  | 0, sels, root, st, r, st', _, h => by
    rw [resolve_zero] at h
    exact ((ok_err _ _ _).mp h).elim
  | fuel + 1, sels, root, st, r, st', hlow, h => by
    rw [resolve_succ] at h
    obtain ⟨acc, s1, h1, h2⟩ := (ok_bind _ _ _ _ _).mp h
    obtain ⟨u, s2, h3, h4⟩ := (ok_bind _ _ _ _ _).mp h2
    obtain ⟨e1, _⟩ := (ok_pure _ _ _ _).mp h4
    subst e1
    refine forIn_ok_inv (fun (b : Acc) (_ : St) => LowOut P b) (resolveBody env fuel root) sels ([], []) st acc s1 ?_
      ⟨fun m hm => absurd hm List.not_mem_nil, fun f hf => absurd hf List.not_mem_nil⟩ h1
    intro a ha b s r s' ⟨hb2, hb1⟩ hr
    cases a with
    | field alias name dirs sid sub =>
      simp only [resolveBody] at hr
      obtain ⟨e, _⟩ := (ok_pure _ _ _ _).mp hr
      subst e
      refine ⟨hb2, ?_⟩
      intro fld hfld
      rcases List.mem_append.mp hfld with hfld | hfld
      · exact hb1 fld hfld
      · have : fld = ⟨alias, name, dirs, sid, sub⟩ := by simpa using hfld
        subst this
        exact low_field hlow ha
    | spread n d =>
      have hPn : P n := low_spread hlow ha
      cases hf : findFragment? env.frags n with
      | none =>
        simp only [resolveBody, hf] at hr
        exact ((ok_err _ _ _).mp hr).elim
      | some f =>
        simp only [resolveBody, hf] at hr
        split at hr
        · exact ((ok_err _ _ _).mp hr).elim
        split at hr
        · exact ((ok_err _ _ _).mp hr).elim
        split at hr
        · obtain ⟨e, _⟩ := (ok_pure _ _ _ _).mp hr
          subst e
          refine ⟨?_, hb1⟩
          intro m hm
          rcases (mem_setAdd _ _ _).mp hm with hm | rfl
          · exact hb2 m hm
          · exact hPn
        split at hr
        · obtain ⟨u, s1', h1', h2'⟩ := (ok_bind _ _ _ _ _).mp hr
          obtain ⟨x, s2', h3', h4'⟩ := (ok_bind _ _ _ _ _).mp h2'
          obtain ⟨e, _⟩ := (ok_pure _ _ _ _).mp h4'
          subst e
          obtain ⟨hx2, hx1⟩ := resolve_low fuel f.sel root _ x s2' (hclosed n f hPn hf) h3'
          refine ⟨?_, ?_⟩
          · intro m hm
            rcases (mem_setUnion _ _ _).mp hm with hm | hm
            · exact hb2 m hm
            · exact hx2 m hm
          · intro fld hfld
            rcases List.mem_append.mp hfld with hfld | hfld
            · exact hb1 fld hfld
            · exact hx1 fld hfld
        · obtain ⟨u, s1', h1', h2'⟩ := (ok_bind _ _ _ _ _).mp hr
          obtain ⟨e, _⟩ := (ok_pure _ _ _ _).mp h2'
          subst e
          exact ⟨hb2, hb1⟩
    | inline on d sid sub =>
      cases on with
      | none =>
        simp only [resolveBody] at hr
        exact ((ok_err _ _ _).mp hr).elim
      | some cond =>
        cases hrt : inlineFragmentRootType env cond root with
        | some rt =>
          simp only [resolveBody, hrt] at hr
          obtain ⟨x, s2', h3', h4'⟩ := (ok_bind _ _ _ _ _).mp hr
          obtain ⟨e, _⟩ := (ok_pure _ _ _ _).mp h4'
          subst e
          obtain ⟨hx2, hx1⟩ := resolve_low fuel sub rt _ x s2' (low_inline hlow ha) h3'
          refine ⟨?_, ?_⟩
          · intro m hm
            rcases (mem_setUnion _ _ _).mp hm with hm | hm
            · exact hb2 m hm
            · exact hx2 m hm
          · intro fld hfld
            rcases List.mem_append.mp hfld with hfld | hfld
            · exact hb1 fld hfld
            · exact hx1 fld hfld
        | none =>
          simp only [resolveBody, hrt] at hr
          obtain ⟨u, s1', h1', h2'⟩ := (ok_bind _ _ _ _ _).mp hr
          obtain ⟨e, _⟩ := (ok_pure _ _ _ _).mp h2'
          subst e
          exact ⟨hb2, hb1⟩

/-- the recorded mixins all satisfy `P` -/
def MixinsLow (st : St) : Prop := ∀ m ∈ st.mixins, P m

include hclosed in
theorem parse_low : ∀ fuel : Nat,
    (∀ cn tn sid sel a eb tv st cs st', Low P sel → MixinsLow P st →
      parseTypeDefinition env fuel cn tn sid sel a eb tv st = .ok (cs, st') → MixinsLow P st') ∧
    (∀ sid sel ctx eb st cs st', Low P sel → MixinsLow P st →
      parseFieldSelectionSetTypes env fuel sid sel ctx eb st = .ok (cs, st') → MixinsLow P st')
  | 0 => by
    constructor
    · intro cn tn sid sel a eb tv st cs st' _ _ h
      rw [parseTypeDefinition_zero] at h
      exact ((ok_err _ _ _).mp h).elim
    · intro sid sel ctx eb st cs st' _ _ h
      rw [parseFieldSelectionSetTypes_zero] at h
      exact ((ok_err _ _ _).mp h).elim
  | fuel + 1 => by
    obtain ⟨ihP, ihQ⟩ := parse_low fuel
    constructor
    · intro cn tn sid sel a eb tv st cs st' hlow hJ h
      cases hseen : st.publicNames.contains cn with
      | true =>
        obtain ⟨_, e⟩ := parseTypeDefinition_seen _ _ _ _ _ _ _ _ _ _ _ _ h hseen
        rw [e]; exact hJ
      | false =>
        obtain ⟨x, st1, resolved, acc, fuel', hfu, hres, hloop, hcs, hresmem⟩ := parseTypeDefinition_unfold _ _ _ _ _ _ _ _ _ _ _ _ h hseen
        have hfu' : fuel' = fuel := by omega
        subst hfu'
        have sp := resolve_spec env _ _ _ _ _ _ hres
        obtain ⟨hx2, hx1⟩ := resolve_low env P hclosed _ _ _ _ _ _ hlow hres
        have hJ1 : MixinsLow P st1 := by
          intro m hm
          rcases (sp.mixins m).mp hm with hm | hm
          · exact hJ m hm
          · exact hx2 m hm
        have hat := afterTypename_mixins a sid (if st1.marks.contains sid then typenameRField :: x.1 else x.1) st1
        have hJ2 : MixinsLow P (afterTypename a sid (if st1.marks.contains sid then typenameRField :: x.1 else x.1) st1) := by
          intro m hm; rw [hat.1] at hm; exact hJ1 m hm
        -- which field nodes the loop runs over: those returned by `resolve`, possibly preceded by `__typename`
        have hresolved : ∀ f ∈ resolved, Low P f.sub := by
          intro f hf
          rcases hresmem f hf with rfl | hf
          · intro n hn; simp [typenameRField, selsSpreads] at hn
          · exact hx1 f hf
        exact forIn_ok_inv (fun (_ : FAcc) (s : St) => MixinsLow P s) (fieldBody env fuel' cn tn tv) resolved ([], []) _ acc st'
          (by
            intro f hf b s r s' hb hr
            unfold fieldBody at hr
            obtain ⟨t, s1, h1, hA⟩ := (ok_bind _ _ _ _ _).mp hr
            obtain ⟨_, e1⟩ := (ok_liftExcept _ _ _ _).mp h1
            subst e1
            obtain ⟨xx, s2, h2, hB⟩ := (ok_bind _ _ _ _ _).mp hA
            obtain ⟨_, e2⟩ := (ok_liftExcept _ _ _ _).mp h2
            subst e2
            obtain ⟨fb, s3, h3, hC⟩ := (ok_bind _ _ _ _ _).mp hB
            obtain ⟨_, hs3⟩ := mixinBases_spec _ _ _ _ h3
            obtain ⟨more, s4, h4, hD⟩ := (ok_bind _ _ _ _ _).mp hC
            obtain ⟨u, s5, h5, hE⟩ := (ok_bind _ _ _ _ _).mp hD
            have hs5 := (ok_modify _ _ _ _).mp h5
            obtain ⟨_, e4⟩ := (ok_pure _ _ _ _).mp hE
            have hJ3 : MixinsLow P s3 := by rw [hs3]; exact hb
            have hJ4 := ihQ _ _ _ _ _ _ _ (hresolved f hf) hJ3 h4
            rw [← e4, hs5]; exact hJ4)
          hJ2 hloop
    · intro sid sel ctx eb st cs st' hlow hJ h
      rw [parseFieldSelectionSetTypes_succ] at h
      by_cases hemp : sel.isEmpty = true
      · rw [if_pos hemp] at h
        obtain ⟨_, e2⟩ := (ok_pure _ _ _ _).mp h
        rw [← e2]; exact hJ
      · rw [if_neg hemp] at h
        obtain ⟨acc, s1, h1, h2⟩ := (ok_bind _ _ _ _ _).mp h
        obtain ⟨_, e2⟩ := (ok_pure _ _ _ _).mp h2
        subst e2
        exact forIn_ok_inv (fun (_ : List ClassDecl) (s : St) => MixinsLow P s)
          (relatedBody env fuel sid sel ctx eb) ctx.related [] st acc s1
          (by
            intro rc _ b s r s' hb hr
            unfold relatedBody at hr
            obtain ⟨cs1, s2, h3, h4⟩ := (ok_bind _ _ _ _ _).mp hr
            obtain ⟨_, e4⟩ := (ok_pure _ _ _ _).mp h4
            subst e4
            exact ihP _ _ _ _ _ _ _ _ _ _ hlow hb h3)
          hJ h1
end

end Ariadne.ResultTypes

namespace Ariadne.Fragments
open Ariadne.ResultTypes

/-- the document's fragment spreads admit a rank that strictly decreases from a fragment to every fragment spread
    inside its selection set — what graphql-core's NoFragmentCycles rule guarantees -/
def SpreadRank (env : Env) (rk : String → Nat) : Prop :=
  ∀ n f, findFragment? env.frags n = some f → ∀ m ∈ selsSpreads f.sel, rk m < rk n

/-- a fragment's generator records only fragments of strictly smaller rank -/
theorem frag_mixins_low (env : Env) (rk : String → Nat) (hrk : SpreadRank env rk) (fuel : Nat) (f : Fragment)
    (hf : findFragment? env.frags f.name = some f) (marks : List Nat) (out : ModuleOut)
    (h : generate env fuel (.frag f) marks = .ok out) : ∀ m ∈ out.st.mixins, rk m < rk f.name := by
  obtain ⟨cs, st, hr, _, hs⟩ := generate_ok env fuel _ marks out h
  rw [hs]
  have hclosed : ∀ n f', rk n < rk f.name → findFragment? env.frags n = some f' → Low (fun m => rk m < rk f.name) f'.sel :=
    fun n f' hn hf' m hm => Nat.lt_trans (hrk n f' hf' m hm) hn
  cases hu : unpackFragment env f none with
  | true =>
    obtain ⟨_, e⟩ := genRun_frag_unpacked env fuel f _ cs st hr hu
    rw [e]; intro m hm; cases hm
  | false =>
    have hp := genRun_frag env fuel f _ cs st hr hu
    exact (parse_low env (fun m => rk m < rk f.name) hclosed fuel).1 _ _ _ _ _ _ _ _ _ _
      (fun m hm => hrk f.name f hf m hm) (fun m hm => by cases hm) hp

/-- **the dependency dict of the emitted fragments module is acyclic** whenever the document's spreads are -/
theorem deps_acyclic (e : Order.EnumOracle) (env : Env) (rk : String → Nat) (hrk : SpreadRank env rk) (fuel : Nat)
    (names : List String) (marks : List Nat) (fo : FragmentsOut) (h : generateFragments e env fuel names marks = .ok fo) :
    ∀ n ds m, Order.lookup fo.deps n = some ds → m ∈ ds → rk m < rk n := by
  obtain ⟨gens, hg, hd, _, _, _⟩ := generateFragments_unfold e env fuel names marks fo h
  obtain ⟨_, hfrom⟩ := genFragments_spec env fuel names marks gens hg
  intro n ds m hl hm
  rw [hd, lookup_deps] at hl
  cases hlg : lookupGen gens n with
  | none => rw [hlg] at hl; cases hl
  | some g =>
    rw [hlg] at hl
    have hds : g.out.st.mixins = ds := by simpa using hl
    obtain ⟨hgm, hgn⟩ := lookupGen_some hlg
    obtain ⟨f, marks', hf, hgen⟩ := hfrom g hgm
    have hfn : f.name = g.name := findFragment_name hf
    have := frag_mixins_low env rk hrk fuel f (by rw [hfn]; exact hf) marks' g.out hgen m (by rw [hds]; exact hm)
    rw [hfn, hgn] at this
    exact this

end Ariadne.Fragments
