/-
  Proofs/C01BridgeUnp.lean — property C01: the unpacked-fragments tier (Proofs/C01Unp.lean) carried to the pipeline statement
  `claimB`:   ValidInput inp → UnpInput inp → nodupKeys j → claimB inp k j = true.

  `UnpInput inp` (decidable, Proofs/C01RegionsUnp.lean).  In this region no operation inserts an automatic `__typename` (the marks
  stay empty: the document is sent as written, spreads and fragment definitions included), every fragment definition is
  unpacked by some operation, hence `package.py` leaves its classes out of the fragments module: the pydantic environment of an
  operation consists of the operation's own classes.
-/
import AriadneModel.Proofs.C01Unp
import AriadneModel.Proofs.C01RegionsUnp
import AriadneModel.Proofs.C01BridgeMix

set_option linter.unusedSimpArgs false
set_option linter.unusedVariables false

namespace Ariadne.C01
open Ariadne Ariadne.Gql Ariadne.ResultTypes Ariadne.Util Ariadne.Pyd Ariadne.Triggers01 Ariadne.C01Plain Ariadne.C01Unp

theorem generate_unp (env : ResultTypes.Env) (K : Nat) (o : Operation) (n tn : String)
    (hn : o.name = some n) (hroot : Validate.rootOf env.schema o = some tn)
    (hmix : (o.dirs.any (·.name == Tables.mixinName)) = false)
    (hok : UnpOK env K (pascal n) tn o.sid o.sel {} = true) (fuel : Nat) (hf : 2 * K + 2 ≤ fuel) :
    ∃ out, generate env fuel (.op o) [] = .ok out ∧ out.st.marks = [] ∧
      out.classes = plainClasses env (pascal n) tn (inl env K o.sel) ∧ (∀ g ∈ reach env K o.sel, g ∈ out.st.unpacked) := by
  obtain ⟨st', hgen, _, hmk, _, hre⟩ := unp_generation env K (pascal n) tn o.sid o.sel {} hok [] fuel hf
  refine ⟨{ classes := plainClasses env (pascal n) tn (inl env K o.sel),
            rebuild := ((plainClasses env (pascal n) tn (inl env K o.sel)).filter classHasForwardRefs).map (·.name), st := st' },
    ?_, hmk, rfl, hre⟩
  rw [generate_op env fuel o n [] hn]
  have hrun : ((ResultTypes.liftExcept (operationTypeName env (.op o)) >>= fun tn =>
              mixinBases o.dirs >>= fun bases =>
              parseTypeDefinition env fuel (pascal n) tn o.sid o.sel false bases []) : M (List ClassDecl))
            { marks := [] } = .ok (plainClasses env (pascal n) tn (inl env K o.sel), st') := by
    refine run_bind (a := tn) (s' := { marks := [] }) (by rw [operationTypeName_rootOf env o tn hroot]; rfl) ?_
    refine run_bind (mixinBases_none o.dirs _ hmix) ?_
    exact hgen
  rw [hrun]

theorem unpOpOK_spec {env : ResultTypes.Env} {o : Operation} (h : unpOpOK env o = true) :
    ∃ n tn, o.name = some n ∧ Validate.rootOf env.schema o = some tn ∧
      (o.dirs.any (·.name == Tables.mixinName)) = false ∧
      UnpOK env (unpK env) (pascal n) tn o.sid o.sel {} = true ∧
      "BaseModel" ∉ (plainClasses env (pascal n) tn (inl env (unpK env) o.sel)).map (·.name) ∧
      vneed env tn (inl env (unpK env) o.sel) + 1 ≤ execFuel := by
  unfold unpOpOK at h
  cases hn : o.name with
  | none => simp [hn] at h
  | some n =>
    cases hr : Validate.rootOf env.schema o with
    | none => simp [hn, hr] at h
    | some tn =>
      simp only [hn, hr, Bool.and_eq_true, Bool.not_eq_true', decide_eq_true_eq] at h
      obtain ⟨⟨⟨h1, h2⟩, h3⟩, h4⟩ := h
      exact ⟨n, tn, rfl, rfl, h1, h2, NoShadowedImport_baseModel h3, h4⟩

theorem mem_unpacked_fold (n : String) : ∀ (outs : List ModuleOut) (acc : List String),
    n ∈ outs.foldl (fun acc o => setUnion acc o.st.unpacked) acc ↔ n ∈ acc ∨ ∃ o ∈ outs, n ∈ o.st.unpacked
  | [], acc => by simp
  | o :: rest, acc => by
    rw [List.foldl_cons, mem_unpacked_fold n rest]
    have hu : n ∈ setUnion acc o.st.unpacked ↔ n ∈ acc ∨ n ∈ o.st.unpacked := by
      unfold setUnion
      exact C01Mix.mem_setAdd_foldl n _ _
    rw [hu]
    constructor
    · rintro ((h | h) | ⟨o', ho', h⟩)
      · exact Or.inl h
      · exact Or.inr ⟨o, List.mem_cons_self, h⟩
      · exact Or.inr ⟨o', List.mem_cons_of_mem _ ho', h⟩
    · rintro (h | ⟨o', ho', h⟩)
      · exact Or.inl (Or.inl h)
      · rcases List.mem_cons.mp ho' with rfl | ho'
        · exact Or.inl (Or.inr h)
        · exact Or.inr ⟨o', ho', h⟩

/-- the fragments module is empty when every fragment definition was unpacked by some operation -/
theorem fragFold_unpacked (unpacked : List String) : ∀ (entries : List (String × Except GenErr ModuleOut)) (acc : List ClassDecl),
    (∀ p ∈ entries, unpacked.contains p.1 = true) → entries.foldl (fragStep unpacked) acc = acc
  | [], _, _ => rfl
  | p :: rest, acc, h => by
    have hp := h p List.mem_cons_self
    obtain ⟨n, x⟩ := p
    have hstep : fragStep unpacked acc (n, x) = acc := by
      unfold fragStep
      cases x with
      | error e => rfl
      | ok o => simp only at hp ⊢; simp only [hp, if_true]
    rw [List.foldl_cons, hstep]
    exact fragFold_unpacked unpacked rest acc (fun q hq => h q (List.mem_cons_of_mem _ hq))

/-- **the unpacked-fragments tier on the pipeline** -/
theorem claimB_unp (inp : Input) (k : Nat) (j : J) (hp : UnpInput inp) (hj : nodupKeys j = true) :
    claimB inp k j = true := by
  simp only [UnpInput, Bool.and_eq_true, List.all_eq_true] at hp
  obtain ⟨⟨hschema, hops⟩, hfrs⟩ := hp
  have hKf : 2 * unpK inp.env + 2 ≤ Triggers01.fuel := by simp [unpK, Triggers01.fuel]
  have hKe : unpK inp.env ≤ execFuel := by simp [unpK, execFuel]
  -- every operation generates, marks stay empty, the fragments it reaches are unpacked
  have hgenAll : ∀ o ∈ inp.ops, ∃ out, generate inp.env Triggers01.fuel (.op o) [] = .ok out ∧ out.st.marks = [] ∧
      (∀ g ∈ reach inp.env (unpK inp.env) o.sel, g ∈ out.st.unpacked) := by
    intro o ho
    obtain ⟨n, tn, hn, hr, hmix, hok, _, _⟩ := unpOpOK_spec (hops o ho)
    obtain ⟨out, h1, h2, _, h4⟩ := generate_unp inp.env _ o n tn hn hr hmix hok _ hKf
    exact ⟨out, h1, h2, h4⟩
  have hrunops : (run inp).ops = inp.ops.map fun o => generate inp.env Triggers01.fuel (.op o) [] := by
    show runOps inp.env inp.ops [] = _
    exact runOps_nil inp.env inp.ops (fun o ho => by
      obtain ⟨out, h1, h2, _⟩ := hgenAll o ho
      exact ⟨out, h1, h2⟩)
  -- every fragment definition is unpacked by some operation
  have hunpAll : ∀ p ∈ (run inp).frags,
      ((okOuts (run inp).ops).foldl (fun acc o => setUnion acc o.st.unpacked) []).contains p.1 = true := by
    intro p hp'
    have hpn : p.1 ∈ inp.env.frags.map (·.name) := by
      have : p ∈ (sortStr (inp.env.frags.map (·.name))).filterMap fun n =>
          (findFragment? inp.env.frags n).map fun f => (n, generate inp.env Triggers01.fuel (.frag f) (marksAfter (run inp).ops)) := hp'
      obtain ⟨n, hn, he⟩ := List.mem_filterMap.mp this
      cases hf : findFragment? inp.env.frags n with
      | none => simp [hf] at he
      | some f =>
        simp only [hf, Option.map_some, Option.some.injEq] at he
        rw [← he]
        exact (C01Mix.mem_sortStr' n _).mp hn
    obtain ⟨f, hf, hfn⟩ := List.mem_map.mp hpn
    have := hfrs f hf
    simp only [List.contains_eq_mem, List.mem_flatMap, decide_eq_true_eq] at this
    obtain ⟨o, ho, hg⟩ := this
    obtain ⟨out, h1, _, h3⟩ := hgenAll o ho
    simp only [List.contains_eq_mem, decide_eq_true_eq]
    rw [mem_unpacked_fold]
    right
    refine ⟨out, ?_, by rw [← hfn]; exact h3 _ hg⟩
    unfold okOuts
    refine List.mem_filterMap.mpr ⟨.ok out, ?_, rfl⟩
    rw [hrunops]
    exact List.mem_map.mpr ⟨o, ho, h1⟩
  unfold claimB
  simp only []
  cases hk : inp.ops[k]? with
  | none =>
    have : (run inp).ops[k]? = none := by rw [hrunops]; simp [hk]
    simp only [this]
  | some o =>
    have ho : o ∈ inp.ops := List.mem_of_getElem? hk
    obtain ⟨n, tn, hn, hr, hmix, hok, hbm, hvf⟩ := unpOpOK_spec (hops o ho)
    obtain ⟨out, hgen, hmk, hcls, _⟩ := generate_unp inp.env _ o n tn hn hr hmix hok _ hKf
    have hk' : (run inp).ops[k]? = some (.ok out) := by rw [hrunops]; simp [hk, hgen]
    have hmarks : marksAfter ((run inp).ops.take (k + 1)) = [] := by
      apply marksAfter_nil
      intro r hr' out' he
      have hr'' : r ∈ (run inp).ops := List.mem_of_mem_take hr'
      rw [hrunops] at hr''
      obtain ⟨o', ho', rfl⟩ := List.mem_map.mp hr''
      obtain ⟨out'', h1, h2, _⟩ := hgenAll o' ho'
      rw [h1] at he
      cases he
      exact h2
    have hfrsent : inp.env.frags.map (Marks.applyFrag []) = inp.env.frags := by
      rw [List.map_congr_left (g := id) (fun f _ => applyFrag_nil f)]; simp
    simp only [hk', hcls, plainClasses, List.head?_cons, hr, hmarks, applyOp_nil, hfrsent]
    cases hresp : Exec.respOK inp.env.schema inp.env.frags execFuel tn o.sel j with
    | false => simp
    | true =>
      have hpenvcls : (pydEnvOf inp (run inp) out).classes = plainClasses inp.env (pascal n) tn (inl inp.env (unpK inp.env) o.sel) := by
        rw [pydEnvOf_classes, fragFold_unpacked _ _ _ hunpAll, hcls]
        simp
      have hnd := (PlainOK_spec (UnpOK_spec hok).2).2.2.2.1
      have hpenv : PenvOK inp.env (pydEnvOf inp (run inp) out) (plainClasses inp.env (pascal n) tn (inl inp.env (unpK inp.env) o.sel)) := by
        refine PenvOK.of_nodup _ _ _ (envAgrees_of_schemaOK inp.env _ hschema rfl) ?_ ?_ ?_
        · apply class?_none_of_not_mem
          rw [hpenvcls]; exact hbm
        · intro c hc; rw [hpenvcls]; exact hc
        · rw [hpenvcls]; exact hnd
      obtain ⟨v, hv, he⟩ := unp_roundtrip inp.env _ (pascal n) tn o.sid o.sel {} hok _ hpenv execFuel hKe j hresp hj
        execFuel hvf
      simp only [Bool.not_true, Bool.false_or]
      have : Pyd.validate (pydEnvOf inp (run inp) out) execFuel (.cls (pascal n)) j = .ok v := hv
      rw [this]
      exact he

/-! ### a concrete input in the region

    query Q { me { ...NF name bestFriend { ...NM ...NG } } }      query R { again: me { ...NM } }
    fragment NF on Node { id ...NG }      fragment NG on Node { rev }      fragment NM on Named { nick }
-/

def uxInp : Input :=
  { env := C01Unp.uxEnv,
    ops := [{ kind := .query, name := some "Q", sid := 1, sel := C01Unp.uxSel },
            { kind := .query, name := some "R", sid := 20, sel := [.field (some "again") "me" [] 21 [.spread "NM" []]] }] }

def uxResp : J :=
  .obj [("me", .obj [("id", .str "1"), ("rev", .num 3 0), ("name", .str "n"),
                     ("bestFriend", .obj [("nick", .str "b"), ("rev", .null)])])]

/-- non-vacuity: an interface fragment spreading another interface fragment, unpacked at two object positions of two operations;
    no fragment class reaches the pydantic environment; the answer carries the unpacked fields -/
theorem uxInp_nonvacuous : ValidInput uxInp ∧ UnpInput uxInp ∧ Supported_01 uxInp ∧ nodupKeys uxResp = true
    ∧ ((run uxInp).ops.map fun r => match r with
        | .ok out => (out.classes.map (fun c => (c.name, c.bases)), out.st.unpacked)
        | .error _ => ([], [])) =
      [([("Q", ["BaseModel"]), ("QMe", ["BaseModel"]), ("QMeBestFriend", ["BaseModel"])], ["NF", "NG", "NM"]),
       ([("R", ["BaseModel"]), ("RAgain", ["BaseModel"])], ["NM"])]
    ∧ Exec.respOK uxInp.env.schema uxInp.env.frags execFuel "Query" C01Unp.uxSel uxResp = true
    ∧ claimB uxInp 0 uxResp = true := by decide +kernel

end Ariadne.C01
