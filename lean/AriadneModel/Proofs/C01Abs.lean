/-
  Proofs/C01Abs.lean — property C01, "abstract positions" tier: the main theorems.

  For a selection set built from
    * fields of leaf type (scalar / enum), of OBJECT type, of INTERFACE type or of UNION type, under any list / non-null
      wrappers, with aliases and `@skip` / `@include` (one combination excepted, see below),
    * typed inline fragments `... on C { fields }` without `@skip` / `@include`, in any selection set,
    * `__typename` (un-aliased, unconditional) in any selection set below the root,
    * spreads of NAMED FRAGMENTS USED AS MIXINS (fragment definitions of the mixin tier: `C01Mix.FragsOK`) at classes on
      exactly the object type of the fragment — in an object-typed selection set or inside `... on T { ...G }` with `G` on `T`,
  nested to any depth (plain-in-abstract-in-plain …), and satisfying the decidable predicate `AbsOK`
  (Proofs/C01AbsDefs.lean):

    (1) `abs_generation`: `_parse_type_definition` succeeds for every fuel `≥ agfuel sel` and returns exactly the
        structurally defined `aClass env cn tn [] false sel`: at every composite position one class per VARIANT
        (`relatedOf`: the object type itself; the interface + one class per inline-fragment type condition; every union
        member), each with a `typename__: Literal[..]` field iff the position is abstract or `__typename` is selected;
        the generator marks EXACTLY the selection sets `needSids` (abstract positions without explicit `__typename`)
        for the automatic `__typename`;
    (2) `abs_roundtrip`: every JSON value a conformant executor can return for the selection set AS SENT
        (`Marks.applySels M sel`, `M` = the marks after generation) — with enough executor fuel and no duplicate object
        keys — is accepted by the root model and dumped back up to member order; at an abstract position the value is
        validated by the FIRST variant class whose `typename__` literal contains the runtime type;
    (3) `C01_abs`: both together.

  What `AbsOK env cn tn sid sel st` demands (each forced by the proof; see C01AbsDefs.lean):
    * per class (one per variant!), over ALL its field nodes — automatic `__typename`, direct fields, fields of the merged
      inline fragments, fields inherited from mixin fragments (`cnodes`) — `dupOK`: a response key reached MORE THAN ONCE is
      reached by LEAF selections of the same field only (`node { id ... on User { id } }`, `{ ...F id }` with `id` in `F`: the
      generator emits / inherits the field several times, Python and pydantic keep ONE declaration — `Pyd.mergeDup`, the
      override along the bases —, the executor MERGES the selections; Proofs/C01Fold.lean characterises the three folds); a
      composite field or `__typename` owns its key (finding C01-F2); distinct keys have distinct Python names; the class's
      typename literal is non-empty and contains every runtime type the class stands for;
    * `__typename`: no alias (finding C01-F8), no `@skip/@include` (NEW finding: the class requires the field), no
      sub-selection; not inside an inline fragment; directly at the operation root (where the class has no typename values
      and the field is an ordinary `str`) only if the root type has no field of that name and `String` is the built-in scalar;
    * inline fragment: type condition present (C01-F7), no `@skip/@include` (C01-F3), content = fields only; for every
      runtime type `rt` of the class: the generator merges the fragment into the class IFF the executor applies it to `rt`
      (`incl … == Exec.applies …`; violated by C01-F5 — a fragment on another overlapping interface or on a union);
    * field: exists on the class's type AND has the same declared type on every runtime type of the class (a class on an
      interface reads the interface's field type; covariant overriding in an implementing object is outside the tier);
      no `@mixin`; leaf ⇔ empty sub-selection, leaf = scalar not configured as custom scalar, or enum; composite = object /
      interface / union with ≥ 1 variant; every runtime type of the position is in the literal of some variant;
    * (a `Union[..]` annotation with no `Optional`/`List` wrapper made Optional by `@skip/@include`,
      `f: U! @include(..) { ... on A {..} }`, is covered: pydantic then uses a smart-mode union, and the first member
      whose literal contains the runtime type is the first that validates);
    * marks: the set of marked selection sets (`st.marks ++ needSids`) contains the id of a composite position iff that
      position gets the automatic `__typename` — i.e. no position that must stay unmarked (object position, explicit
      `__typename`) shares its id with a marked one or was marked by an earlier generation (finding C01-F4 region);
    * class names pairwise distinct and fresh (as in the plain tier);
    * a spread: no `@skip/@include` (C01-F3); the class is on an OBJECT type, stands for that type only, and the fragment is
      defined on exactly it (a fragment on an interface would be unpacked; a fragment on the object type met below an inline
      fragment on one of its interfaces is DROPPED by the generator — finding C01-F12, found by this hypothesis); per class
      WITHIN one fragment definition the response keys are pairwise distinct (`C01Mix.fragOK`).
  Hypotheses on the environment for part (2) (`GH`, Proofs/C01AbsVal.lean): the fragment definitions are fit to be mixins
  (`FragsOK env K`), the pydantic environment agrees with the schema on enums, has no class `BaseModel`, holds the classes of
  every fragment definition, its inheritance fuel covers the fragment nesting, `F` bounds the validation fuel of the fragment
  classes; the executor fuel is at least `agfuel sel + K`, the validation fuel at least `avneed … + 4 + F`.
-/
import AriadneModel.Proofs.C01AbsVal
import AriadneModel.Proofs.C01Plain
import AriadneModel.Proofs.C01Bridge

set_option linter.unusedSimpArgs false
set_option linter.unusedVariables false

namespace Ariadne.C01Abs
open Ariadne Ariadne.Gql Ariadne.ResultTypes Ariadne.Util Ariadne.Pyd Ariadne.C01Plain

theorem AbsOK_spec {env : ResultTypes.Env} {cn tn : String} {sid : Nat} {sel : List Selection} {st : St}
    (h : AbsOK env cn tn sid sel st = true) :
    (st.marks ++ needSids env cn tn sel).contains sid = false ∧ classHead env tn [tn] [] false sel = true ∧
    aSels env (st.marks ++ needSids env cn tn sel).contains cn tn [tn] sel = true ∧
    ((aClass env cn tn [] false sel).map (·.name)).Nodup ∧
    (∀ n ∈ (aClass env cn tn [] false sel).map (·.name), n ∉ st.publicNames) := by
  simp only [AbsOK, Bool.and_eq_true, Bool.not_eq_true', nodupB_iff, List.all_eq_true,
    List.contains_eq_mem, decide_eq_false_iff_not] at h
  obtain ⟨⟨⟨⟨h1, h2⟩, h3⟩, h4⟩, h5⟩ := h
  exact ⟨by simpa using h1, h2, by simpa using h3, h4, h5⟩

/-- the marks of the document as sent -/
def sentMarks (env : ResultTypes.Env) (cn tn : String) (sel : List Selection) (st : St) : List Nat :=
  st.marks ++ needSids env cn tn sel

/-- **(1) generation succeeds, is the clean generator, and marks exactly `needSids`**; nothing is unpacked -/
theorem abs_generation (env : ResultTypes.Env) (K : Nat) (hfr : C01Mix.FragsOK env K) (cn tn : String) (sid : Nat)
    (sel : List Selection) (st : St)
    (h : AbsOK env cn tn sid sel st = true) (fuel : Nat) (hfuel : agfuel sel ≤ fuel) :
    ∃ st', parseTypeDefinition env fuel cn tn sid sel false [] [] st = .ok (aClass env cn tn [] false sel, st') ∧
      st'.publicNames = st.publicNames ++ (aClass env cn tn [] false sel).map (·.name) ∧
      (∀ m, m ∈ st'.marks ↔ m ∈ sentMarks env cn tn sel st) ∧ st'.unpacked = st.unpacked := by
  obtain ⟨h1, h2, h3, h4, h5⟩ := AbsOK_spec h
  have htv : (rflat false env tn sel).any isTnSel = true → ([] : List String).isEmpty = true → rootTnOK env tn = true :=
    fun hany hte => ((classHead_spec h2).2 hany).1 hte
  obtain ⟨st', hrun, hpn, hB, hmono, _, hneed, hup⟩ := gen_spec env K hfr (st.marks ++ needSids env cn tn sel) fuel cn tn [tn] sid sel false []
    st hfuel h3 htv (by simpa [autoTn] using h1) (fun m hm => List.mem_append_left _ hm) h4 h5
  refine ⟨st', hrun, hpn, fun m => ⟨hB m, fun hm => ?_⟩, hup⟩
  rcases List.mem_append.mp hm with h | h
  · exact hmono m h
  · exact hneed m h

/-- **(2) every conformant response to the document as sent is accepted and dumped back** (`GH`: the global hypotheses on
    the fragment definitions and the pydantic environment, Proofs/C01AbsVal.lean) -/
theorem abs_roundtrip (env : ResultTypes.Env) (K F : Nat) (cn tn : String) (sid : Nat) (sel : List Selection) (st : St)
    (h : AbsOK env cn tn sid sel st = true)
    (penv : Pyd.Env) (G : GH env penv K F) (hcls : ∀ c ∈ aClass env cn tn [] false sel, penv.class? c.name = some c)
    (M : List Nat) (hM : ∀ m, m ∈ M ↔ m ∈ sentMarks env cn tn sel st)
    (efuel : Nat) (hef : agfuel sel + K ≤ efuel) (j : J)
    (hresp : Exec.respOK env.schema env.frags efuel tn (Marks.applySels M sel) j = true) (hj : nodupKeys j = true)
    (vfuel : Nat) (hv : avneed env cn tn sel + 4 + F ≤ vfuel) :
    ∃ v, Pyd.validate penv vfuel (.cls cn) j = .ok v ∧ J.eqv (Pyd.dump v) j = true := by
  obtain ⟨_, h2, h3, _, _⟩ := AbsOK_spec h
  have hfun : (st.marks ++ needSids env cn tn sel).contains = M.contains := by
    funext m
    have := hM m
    unfold sentMarks at this
    cases hc : M.contains m with
    | true => simpa using this.mp (by simpa using hc)
    | false =>
      have hn : m ∉ M := by simpa using hc
      simpa using fun hm => hn (this.mpr hm)
  rw [hfun] at h3
  exact val_spec env penv M K F G efuel cn tn tn [tn] sel [] false j (by simp) h2 h3 hcls hef
    (by simpa [sent, autoTn] using hresp) hj vfuel hv

/-- the global hypotheses when there are no fragment definitions -/
theorem GH.of_nofrags (env : ResultTypes.Env) (penv : Pyd.Env) (hfr : env.frags = []) (ha : ResultLeaf.EnvAgrees env penv)
    (hbm : penv.class? "BaseModel" = none) (hne : penv.classes ≠ []) : GH env penv 0 0 := by
  refine ⟨?_, ha, hbm, ?_, ?_, ?_⟩
  · intro f hf; rw [hfr] at hf; cases hf
  · intro f hf; rw [hfr] at hf; cases hf
  · show env.frags.length + 1 + 1 ≤ penv.classes.length + 1
    rw [hfr]
    cases hc : penv.classes with
    | nil => exact absurd hc hne
    | cons c cs => simp
  · intro f hf; rw [hfr] at hf; cases hf

/-- **C01, abstract-positions tier** (extended by named fragments used as mixins at object-typed classes) -/
theorem C01_abs (env : ResultTypes.Env) (K F : Nat) (hfr : C01Mix.FragsOK env K) (cn tn : String) (sid : Nat)
    (sel : List Selection) (st : St)
    (h : AbsOK env cn tn sid sel st = true) :
    ∃ classes : List ClassDecl,
      -- (1) generation succeeds for every sufficiently large fuel, the root class comes first, and the selection sets that
      --     receive an automatic `__typename` are exactly `sentMarks`
      (∀ fuel, agfuel sel ≤ fuel →
        ∃ st', parseTypeDefinition env fuel cn tn sid sel false [] [] st = .ok (classes, st') ∧
          ∀ m, m ∈ st'.marks ↔ m ∈ sentMarks env cn tn sel st) ∧
      classes.head?.map (·.name) = some cn ∧
      -- (2) every answer of a conformant server to the document as sent is accepted and preserved
      (∀ (penv : Pyd.Env), GH env penv K F → (∀ c ∈ classes, penv.class? c.name = some c) →
        ∀ (efuel : Nat), agfuel sel + K ≤ efuel →
        ∀ (j : J), Exec.respOK env.schema env.frags efuel tn (Marks.applySels (sentMarks env cn tn sel st) sel) j = true →
        nodupKeys j = true →
        ∀ vfuel, avneed env cn tn sel + 4 + F ≤ vfuel →
          ∃ v, Pyd.validate penv vfuel (.cls cn) j = .ok v ∧ J.eqv (Pyd.dump v) j = true) := by
  refine ⟨aClass env cn tn [] false sel, ?_, rfl, ?_⟩
  · intro fuel hfuel
    obtain ⟨st', hst, _, hm, _⟩ := abs_generation env K hfr cn tn sid sel st h fuel hfuel
    exact ⟨st', hst, hm⟩
  · intro penv G hcls efuel hef j hresp hj vfuel hv
    exact abs_roundtrip env K F cn tn sid sel st h penv G hcls _ (fun m => Iff.rfl) efuel hef j hresp hj vfuel hv

/-! ### a concrete input satisfying `AbsOK`

    query Q {
      node { id ... on User { name friends { id } } ... on Post { title author { pet { id } } } }   # interface, 2 fragments
      search { __typename ... on User { name } ... on Post { title } }                              # list of union, explicit __typename
      me { id pet { __typename id } }                                                               # object, then interface without fragments
    }
-/

def axSchema : Schema :=
  { types := [
      { name := "Query", kind := .object,
        fields := [{ name := "node", type := .named "Node" },
                   { name := "search", type := .nonNull (.list (.nonNull (.named "SearchResult"))) },
                   { name := "me", type := .named "User" }] },
      { name := "Node", kind := .interface, fields := [{ name := "id", type := .nonNull (.named "ID") }] },
      { name := "User", kind := .object, interfaces := ["Node"],
        fields := [{ name := "id", type := .nonNull (.named "ID") }, { name := "name", type := .named "String" },
                   { name := "friends", type := .nonNull (.list (.nonNull (.named "User"))) },
                   { name := "pet", type := .named "Node" }] },
      { name := "Post", kind := .object, interfaces := ["Node"],
        fields := [{ name := "id", type := .nonNull (.named "ID") }, { name := "title", type := .nonNull (.named "String") },
                   { name := "author", type := .nonNull (.named "User") }] },
      { name := "SearchResult", kind := .union, members := ["User", "Post"] }],
    query := some "Query" }

def axEnv : ResultTypes.Env := { schema := axSchema, frags := [] }

def fl (name : String) (sid : Nat := 0) (sub : List Selection := []) : Selection := .field none name [] sid sub

def axSel : List Selection :=
  [ fl "node" 2 [fl "id", .inline (some "User") [] 3 [fl "name", fl "friends" 4 [fl "id"]],
                          .inline (some "Post") [] 5 [fl "title", fl "author" 6 [fl "pet" 7 [fl "id"]]]],
    fl "search" 8 [fl "__typename", .inline (some "User") [] 9 [fl "name"], .inline (some "Post") [] 10 [fl "title"]],
    fl "me" 11 [fl "id", fl "pet" 12 [fl "__typename", fl "id"]] ]

/-- plain-in-abstract-in-plain: `node` (interface, Post variant) → `author` (object) → `pet` (interface) -/
example : AbsOK axEnv "Q" "Query" 1 axSel {} = true := by decide +kernel

/-- the automatic `__typename` goes into `node { .. }` and `node.author.pet { .. }`; `search` and `me.pet` select it explicitly -/
example : sentMarks axEnv "Q" "Query" axSel {} = [2, 7] := by decide +kernel

example : (aClass axEnv "Q" "Query" [] false axSel).map (·.name) =
    ["Q", "QNodeNode", "QNodePost", "QNodePostAuthor", "QNodePostAuthorPet", "QNodeUser", "QNodeUserFriends",
     "QSearchUser", "QSearchPost", "QMe", "QMePet"] := by decide +kernel

def axResp : J :=
  .obj [("node", .obj [("__typename", .str "Post"), ("id", .str "1"), ("title", .str "t"),
                       ("author", .obj [("pet", .obj [("__typename", .str "User"), ("id", .str "3")])])]),
        ("search", .arr [.obj [("__typename", .str "User"), ("name", .null)],
                         .obj [("__typename", .str "Post"), ("title", .str "x")]]),
        ("me", .obj [("id", .str "9"), ("pet", .null)])]

example : Exec.respOK axSchema [] 10 "Query" (Marks.applySels (sentMarks axEnv "Q" "Query" axSel {}) axSel) axResp = true
    ∧ nodupKeys axResp = true ∧ agfuel axSel ≤ 10 ∧ avneed axEnv "Q" "Query" axSel + 4 ≤ 40 := by decide +kernel

def axPenv : Pyd.Env := { classes := aClass axEnv "Q" "Query" [] false axSel, enums := [] }

theorem axPenvOK : PenvOK axEnv axPenv (aClass axEnv "Q" "Query" [] false axSel) :=
  PenvOK.of_nodup axEnv axPenv _ (C01.envAgrees_of_schemaOK axEnv axPenv (by decide +kernel) (by decide +kernel))
    (by decide +kernel) (fun c hc => hc) ((nodupB_iff _).mp (by decide +kernel))

/-- the theorem applies to the example (non-vacuity) … -/
example : ∃ v, Pyd.validate axPenv 40 (.cls "Q") axResp = .ok v ∧ J.eqv (Pyd.dump v) axResp = true :=
  abs_roundtrip axEnv 0 0 "Q" "Query" 1 axSel {} (by decide +kernel) axPenv
    (GH.of_nofrags axEnv axPenv rfl axPenvOK.agrees axPenvOK.noBaseModel (by decide +kernel)) axPenvOK.has
    _ (fun m => Iff.rfl) 10
    (by decide +kernel) axResp (by decide +kernel) (by decide +kernel) 40 (by decide +kernel)

/-- … and the conclusion, computed: the model of the generator produces these very classes, and the `Post` answer at the
    interface position `node` is validated by `QNodePost`, the `User` answer below it by `QNodePostAuthorPet` -/
example :
    (match parseTypeDefinition axEnv 10 "Q" "Query" 1 axSel false [] [] {} with
     | .ok (cs, st) => (cs.map (·.name)) == axPenv.classes.map (·.name) && st.marks == [2, 7]
     | .error _ => false) = true
    ∧ (match Pyd.validate axPenv 40 (.cls "Q") axResp with
       | .ok v => J.eqv (Pyd.dump v) axResp
       | .error _ => false) = true := by decide +kernel

end Ariadne.C01Abs
