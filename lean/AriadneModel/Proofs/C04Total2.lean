/-
  Proofs/C04Total2.lean — the model's run ends in a package or in a documented refusal as soon as the result-type
  generator refuses the document's operations and fragments only with documented refusals: the fragments step, the input
  types step and the package-level code add no failure of their own (valid input, outside the finding region
  `unpackedAndInherited`).  This reduces the two hypotheses of `generate_total_partial` to one, for the model's own run.
-/
import AriadneModel.Proofs.C04Total
import AriadneModel.Proofs.C04Errors

set_option linter.unusedSimpArgs false
set_option linter.unusedVariables false

namespace Ariadne.C04Proofs
open Ariadne Ariadne.Gql Ariadne.Util Ariadne.Package Ariadne.PackageTriggers Ariadne.PackageValid Ariadne.Spec.PyScope
open Ariadne.ResultTypes (GenErr pascal)

/-- an accepting formatter never makes `emit` fail -/
theorem emit_true_no_error {m : ModuleIR} {g g' : GenSt} {err : GenErr} (h : emit (fun _ => true) m g = .error (g', err)) : False := by
  unfold emit at h
  simp at h

theorem emitThen_true_no_error {m : ModuleIR} {f : GenSt → GenSt} {g g' : GenSt} {err : GenErr}
    (h : emitThen (fun _ => true) m f g = .error (g', err)) : False := by
  unfold emitThen at h
  cases hem : emit (fun _ => true) m g with
  | error x => exact emit_true_no_error (g' := x.1) (err := x.2) (by rw [hem])
  | ok g1 => rw [hem] at h; simp at h

theorem emitAll_true_no_error : ∀ (ms : List ModuleIR) (g g' : GenSt) (err : GenErr), emitAll (fun _ => true) ms g = .error (g', err) → False
  | [], g, g', err, h => by simp [emitAll] at h
  | m :: rest, g, g', err, h => by
    simp only [emitAll] at h
    rcases andThen_error h with h | ⟨g1, _, h⟩
    · exact emit_true_no_error h
    · exact emitAll_true_no_error rest g1 g' err h

/-- with an accepting formatter, the only steps of `generate()` that can raise are `_generate_input_types` and
    `_generate_fragments`, the latter on exactly the fragments that no operation unpacked -/
theorem generateSteps_true_error {cfg : Config} {inp : Input} {fl : Nat} {st : St} {g g' : GenSt} {err : GenErr}
    (h : generateSteps (fun _ => true) id cfg inp fl st g = .error (g', err)) :
    inputsModule cfg inp.defs st.argSt.usedInputs = .error err ∨
    ∃ ferr, err = ofFragErr ferr ∧
      (Fragments.genFragments (rtEnv cfg inp) fl (Fragments.remaining (rtEnv cfg inp) st.unpacked) st.marks = .error ferr ∨
       Fragments.generateFragments id (rtEnv cfg inp) fl (Fragments.remaining (rtEnv cfg inp) st.unpacked) st.marks = .error ferr) := by
  unfold generateSteps at h
  rcases andThen_error h with h | ⟨g1, _, h⟩
  · left
    unfold stepInputs at h
    cases hio : inputsModule cfg inp.defs st.argSt.usedInputs with
    | error e1 =>
      rw [hio] at h
      simp only [Except.error.injEq, Prod.mk.injEq] at h
      rw [← h.2]
    | ok io =>
      rw [hio] at h
      exact (emitThen_true_no_error h).elim
  rcases andThen_error h with h | ⟨g2, _, h⟩
  · exact (emitAll_true_no_error _ _ _ _ h).elim
  rcases andThen_error h with h | ⟨g3, _, h⟩
  · right
    unfold stepFragments at h
    simp only [id] at h
    split at h
    · simp at h
    · cases hg1 : Fragments.genFragments (rtEnv cfg inp) fl (Fragments.remaining (rtEnv cfg inp) st.unpacked) st.marks with
      | error err1 =>
        rw [hg1] at h
        simp only [Except.error.injEq, Prod.mk.injEq] at h
        exact ⟨err1, h.2.symm, Or.inl rfl⟩
      | ok gens =>
        rw [hg1] at h
        cases hg2 : Fragments.generateFragments id (rtEnv cfg inp) fl (Fragments.remaining (rtEnv cfg inp) st.unpacked) st.marks with
        | error err2 =>
          rw [hg2] at h
          simp only [Except.error.injEq, Prod.mk.injEq] at h
          exact ⟨err2, h.2.symm, Or.inr rfl⟩
        | ok fo =>
          rw [hg2] at h
          exact (emitThen_true_no_error h).elim
  rcases andThen_error h with h | ⟨g4, _, h⟩
  · simp [stepCopy] at h
  rcases andThen_error h with h | ⟨g5, _, h⟩
  · simp [stepCustom] at h
  rcases andThen_error h with h | ⟨g6, _, h⟩
  · unfold stepClient at h
    exact (emitThen_true_no_error h).elim
  rcases andThen_error h with h | ⟨g7, _, h⟩
  · unfold stepEnums at h
    exact (emitThen_true_no_error h).elim
  · unfold stepInit at h
    exact (emit_true_no_error h).elim

/-- **the fragments step is total relative to the result-type generator**: valid document (no fragment cycles), outside
    the finding region `unpackedAndInherited` -/
theorem fragments_step_total {cfg : Config} {inp : Input} {st : St} (hac : fragsAcyclic inp = true)
    (hF1 : Fragments.trigUnpackedAndInherited id (rtEnv cfg inp) Package.fuel (inp.ops.map (·.op)) = false)
    (hst : addOperations cfg inp Package.fuel {} inp.ops = .ok st)
    (hr : ∀ f ∈ inp.frags, ∀ mk e, ResultTypes.generate (rtEnv cfg inp) Package.fuel (.frag f) mk = .error e → documentedRefusal e = true)
    (ferr : Fragments.Err)
    (h : Fragments.genFragments (rtEnv cfg inp) Package.fuel (Fragments.remaining (rtEnv cfg inp) st.unpacked) st.marks = .error ferr ∨
         Fragments.generateFragments id (rtEnv cfg inp) Package.fuel (Fragments.remaining (rtEnv cfg inp) st.unpacked) st.marks = .error ferr) :
    documentedRefusal (ofFragErr ferr) = true := by
  obtain ⟨rk, hrk⟩ := spreadRank_of_acyclic (cfg := cfg) hac
  obtain ⟨acc, hacc, a1, a2, a3⟩ := addOperations_bridge inp.ops {} st {} rfl rfl rfl hst
  have hacc' : Fragments.addOperations (rtEnv cfg inp) Package.fuel (inp.ops.map (·.op)) = .ok acc := hacc
  have hnames : ∀ n ∈ Fragments.remaining (rtEnv cfg inp) st.unpacked, n ∈ (rtEnv cfg inp).frags.map (·.name) := by
    intro n hn
    unfold Fragments.remaining at hn
    exact (Fragments.mem_dedup n _).mp (List.mem_filter.mp hn).1
  have hnd : (Fragments.remaining (rtEnv cfg inp) st.unpacked).Nodup := by
    unfold Fragments.remaining
    exact (nodup_dedup _).filter _
  have hdeps : ∀ gens, Fragments.genFragments (rtEnv cfg inp) Package.fuel (Fragments.remaining (rtEnv cfg inp) st.unpacked) st.marks = .ok gens →
      ∀ g ∈ gens, ∀ m ∈ g.out.st.mixins, m ∈ Fragments.remaining (rtEnv cfg inp) st.unpacked := by
    intro gens hg g hgm m hm
    obtain ⟨_, hfrom⟩ := Fragments.genFragments_spec _ _ _ _ gens hg
    obtain ⟨f, marks, _, hgen⟩ := hfrom g hgm
    have hgood := (ResultTypes.generate_spec _ _ _ marks _ hgen).1 m hm
    have hnotex : st.unpacked.contains m = false := by
      unfold Fragments.trigUnpackedAndInherited at hF1
      simp only [hacc'] at hF1
      cases hc : st.unpacked.contains m with
      | false => rfl
      | true =>
        have hmem : m ∈ acc.unpacked := by rw [a2]; simpa using hc
        have : (acc.unpacked.any fun n => (Fragments.inheritedByOps acc).contains n ||
            (Fragments.inheritedByFragments id (rtEnv cfg inp) Package.fuel acc).contains n) = true := by
          refine List.any_eq_true.mpr ⟨m, hmem, ?_⟩
          have : m ∈ Fragments.inheritedByFragments id (rtEnv cfg inp) Package.fuel acc := by
            unfold Fragments.inheritedByFragments
            simp only [id, a2, a3, hg]
            exact List.mem_flatMap.mpr ⟨g, hgm, hm⟩
          simp [this]
        rw [this] at hF1
        cases hF1
    unfold Fragments.remaining
    exact List.mem_filter.mpr ⟨(Fragments.mem_dedup m _).mpr (Fragments.goodMixin_mem_frags hgood), by rw [hnotex]; rfl⟩
  obtain ⟨f, mk, e, hf, hgen, rfl⟩ := Fragments.generateFragments_error _ _ _ st.marks hnames hnd hdeps rk hrk ferr h
  exact hr f hf mk e hgen

end Ariadne.C04Proofs
