/-
  Proofs/C04Scope.lean — `Spec.PyScope.WellScoped` of the model's package, part by part:
    * the parts that ARE finding triggers (identifiers, duplicate parameters, enum members, names bound twice, the
      missing `model_rebuild()`) hold exactly when the trigger is off;
    * `allOK` (`__all__` of `__init__`) holds for every input (an invariant of the steps);
    * the remaining parts are `Spec.PyScope.residualParts` (the explicit `Proved_04` conjunct).
-/
import AriadneModel.Model.Package
import AriadneModel.Model.PackageTriggers
import AriadneModel.Spec.PyScope
import AriadneModel.Proofs.C04Steps

set_option linter.unusedSimpArgs false
set_option linter.unusedVariables false

namespace Ariadne.C04Proofs
open Ariadne Ariadne.Util Ariadne.Package Ariadne.PackageTriggers Ariadne.Spec.PyScope

/-! ### Bool plumbing -/

theorem of_any_false {α : Type} {l : List α} {f : α → Bool} (h : l.any f = false) {x : α} (hx : x ∈ l) : f x = false := by
  cases hf : f x with
  | false => rfl
  | true =>
    have : l.any f = true := List.any_eq_true.mpr ⟨x, hx, hf⟩
    rw [h] at this
    cases this

theorem all_not_of_any_false {α : Type} {l : List α} {f : α → Bool} (h : l.any f = false) : l.all (fun x => !f x) = true := by
  refine List.all_eq_true.mpr ?_
  intro x hx
  simp [of_any_false h hx]

/-! ### `triggers = []` -/

theorem triggers_nil_iff (cfg : Config) (inp : Input) :
    triggers cfg inp = [] ↔ ∀ nb ∈ triggerTable cfg inp, nb.2 = false := by
  unfold triggers
  generalize triggerTable cfg inp = tbl
  induction tbl with
  | nil => simp
  | cons a rest ih =>
    obtain ⟨n, b⟩ := a
    cases b with
    | true => simp [List.filterMap_cons]
    | false =>
      simp only [List.filterMap_cons, List.mem_cons, forall_eq_or_imp, true_and]
      simpa using ih

theorem trigger_off {cfg : Config} {inp : Input} (h : triggers cfg inp = []) {n : String} {b : Bool}
    (hm : (n, b) ∈ triggerTable cfg inp) : b = false :=
  (triggers_nil_iff cfg inp).mp h (n, b) hm

theorem onIR_off {cfg : Config} {inp : Input} {p : PackageIR} (hp : modelIR cfg inp = some p) {f : PackageIR → Bool}
    (h : onIR cfg inp f = false) : f p = false := by
  unfold onIR at h
  rw [hp] at h
  exact h

/-! ### the trigger parts -/

section parts
variable {p : PackageIR} {m : ModuleIR} (hm : m ∈ p.modules) (hg : generated m = true)
include hm hg

theorem identsOK_of_off (h1 : trigIdentNotPython p = false) (h2 : trigIdentKeyword p = false) : identsOK m = true := by
  unfold identsOK
  refine List.all_eq_true.mpr ?_
  intro s hs
  rw [identOK_eq]
  have a1 := of_any_false h1 hm
  have a2 := of_any_false h2 hm
  simp only [hg, Bool.true_and] at a1 a2
  have b1 := of_any_false a1 hs
  have b2 := of_any_false a2 hs
  simp only [Bool.not_eq_false'] at b1
  simp [b1, b2]

theorem bindingsUnique_of_off (h : trigNameBoundTwice p = false) : bindingsUnique m = true := by
  unfold bindingsUnique
  have a := of_any_false h hm
  simp only [hg, Bool.true_and] at a
  rw [a]
  rfl

omit hg in
theorem paramsDistinct_of_off (h : trigDuplicateParam p = false) : paramsDistinct m = true := by
  unfold paramsDistinct
  exact all_not_of_any_false (of_any_false h hm)

omit hg in
theorem enumMembersOK_of_off (h1 : trigEnumMemberReserved p = false) (h2 : trigEnumMemberDuplicate p = false) :
    enumMembersOK m = true := by
  unfold enumMembersOK
  have a1 := of_any_false h1 hm
  have a2 := of_any_false h2 hm
  cases hk : m.kind == .enums with
  | false => simp [bne, hk]
  | true =>
    simp only [hk, Bool.true_and] at a1 a2
    simp only [bne, hk, Bool.not_true, Bool.false_or]
    refine List.all_eq_true.mpr ?_
    intro c hc
    have b1 := of_any_false a1 hc
    have b2 := of_any_false a2 hc
    simp only [b2, Bool.not_false, Bool.true_and]
    exact all_not_of_any_false b1

omit hg in
theorem rebuilt_of_off (h : trigMissingRebuild p = false) :
    (m.classes.all fun c => c.fwd.isEmpty || m.rebuilds.contains c.name) = true := by
  refine List.all_eq_true.mpr ?_
  intro c hc
  have a := of_any_false (of_any_false h hm) hc
  cases h1 : c.fwd.isEmpty with
  | true => rfl
  | false =>
    simp only [h1, Bool.not_false, Bool.true_and, Bool.not_eq_false'] at a
    simp only [Bool.false_or]
    exact a

end parts

/-! ### `__all__` of `__init__`: for every input -/

theorem allOK_closed : Closed (fun m => allOK m = true) (fun g => ∀ m ∈ g.modules, allOK m = true) where
  put := by
    intro g m hq hgm x hx
    rcases mem_putModule hx with rfl | hx
    · exact hq
    · exact hgm x hx
  other := by
    intro g ue is hgm
    exact hgm

theorem allOK_of_kind {m : ModuleIR} (h : m.kind ≠ .init) : allOK m = true := by
  unfold allOK
  cases hk : m.kind <;> simp_all

/-- what `add_operation` stores in `_result_types_files`: result modules -/
theorem addOperations_files_kind {cfg : Config} {inp : Input} {fl : Nat} :
    ∀ (ops : List OpIn) (st st' : St), (∀ fm ∈ st.files, fm.2.kind = .result) → addOperations cfg inp fl st ops = .ok st' →
      ∀ fm ∈ st'.files, fm.2.kind = .result
  | [], st, st', h0, h => by simp [addOperations] at h; subst h; exact h0
  | o :: rest, st, st', h0, h => by
    simp only [addOperations] at h
    cases ha : addOperation cfg inp fl st o with
    | error e1 => rw [ha] at h; simp at h
    | ok st1 =>
      rw [ha] at h
      refine addOperations_files_kind rest st1 st' ?_ h
      unfold addOperation at ha
      cases hn : o.op.name with
      | none => rw [hn] at ha; simp at ha
      | some n =>
        rw [hn] at ha
        simp only at ha
        cases hgen : ResultTypes.generate (rtEnv cfg inp) fl (.op o.op) st.marks with
        | error e1 => rw [hgen] at ha; simp at ha
        | ok out =>
          rw [hgen] at ha
          simp only at ha
          cases hmth : ClientMethod.addMethod (argEnv cfg inp) (opType o.op.kind) (some n) o.vars (methodName n) (ResultTypes.pascal n) o.text cfg.async st.argSt with
          | error e2 => rw [hmth] at ha; simp at ha
          | ok r =>
            rw [hmth] at ha
            obtain ⟨mm, a⟩ := r
            simp only [Except.ok.injEq] at ha
            subst ha
            intro fm hfm
            rcases mem_dictSet hfm with rfl | hfm
            · rfl
            · exact h0 fm hfm

theorem writes_allOK (fmt : FmtOracle) (e : Order.EnumOracle) (cfg : Config) (inp : Input) (fl : Nat) (st : St)
    (hst : addOperations cfg inp fl {} inp.ops = .ok st) : Writes (fun m => allOK m = true) fmt e cfg inp fl st where
  inputs := by
    intro io hio
    unfold inputsModule at hio
    split at hio
    · simp at hio
    · split at hio
      · simp at hio
      · simp only [Except.ok.injEq] at hio
        subst hio
        exact allOK_of_kind (by simp [inputsOut])
  results := by
    intro fm hfm
    have := addOperations_files_kind inp.ops {} st (by intro fm h; cases h) hst fm hfm
    exact allOK_of_kind (by rw [this]; simp)
  fragments := fun fo gens => allOK_of_kind (by simp [fragmentsModuleIR])
  copied := fun f => allOK_of_kind (by simp [copiedModule])
  custom := fun f => allOK_of_kind (by simp [customModule])
  client := allOK_of_kind (by simp [clientModule])
  enums := fun ue => allOK_of_kind (by simp [enumsModule])
  init := fun is => by simp [allOK, initModule]

/-- every module on disk passes `allOK`, whatever the input -/
theorem generateSteps_allOK {fmt : FmtOracle} {e : Order.EnumOracle} {cfg : Config} {inp : Input} {fl : Nat} {st : St} {g : GenSt}
    (hst : addOperations cfg inp fl {} inp.ops = .ok st)
    (h : generateSteps fmt e cfg inp fl st (genSt0 cfg st) = .ok g) : ∀ m ∈ g.modules, allOK m = true :=
  (generateSteps_keeps allOK_closed (writes_allOK fmt e cfg inp fl st hst) (genSt0 cfg st) (by intro m hm; simp [genSt0] at hm)).1 g h

/-! ### assembling `moduleOK` -/

theorem moduleOK_of_parts {p : PackageIR} {m : ModuleIR}
    (h : generated m = true → residualParts p m = true ∧ rebuildsComplete m = true ∧ paramsDistinct m = true ∧
      enumMembersOK m = true ∧ identsOK m = true ∧ bindingsUnique m = true ∧ allOK m = true) : moduleOK p m = true := by
  unfold moduleOK
  cases hg : generated m with
  | false => rfl
  | true =>
    obtain ⟨h1, h2, h3, h4, h5, h6, h7⟩ := h hg
    unfold residualParts at h1
    simp only [Bool.and_eq_true] at h1
    obtain ⟨⟨⟨a1, a2⟩, a3⟩, _⟩ := h1
    simp [parts, a1, a2, a3, h2, h3, h4, h5, h6, h7]

theorem rebuildsComplete_of {m : ModuleIR} (h1 : (m.classes.all fun c => c.fwd.isEmpty || m.rebuilds.contains c.name) = true)
    (h2 : m.rebuilds.all (m.classes.map (·.name)).contains = true) : rebuildsComplete m = true := by
  unfold rebuildsComplete
  rw [h1, h2]
  rfl

end Ariadne.C04Proofs
