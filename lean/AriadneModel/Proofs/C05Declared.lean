/-
  Proofs/C05Declared.lean — property C05: what a generated class DECLARES, for EVERY selection set.

  Everything here is about an arbitrary call of `_parse_type_definition` (any document: named fragments — inherited,
  unpacked or dropped —, inline fragments, abstract types, aliases, directives; any generator state; any fuel) that
  succeeds.  No `PlainOK`-style region predicate.

    * `flatFields`            : the field nodes `_resolve_selection_set` returns, as a function of the document alone
                                (no generator state: a fragment spread twice, or in two operations, resolves to the same nodes).
    * `resolve_fields_eq`     : a successful `resolve` returns exactly `flatFields`.
    * `fieldLoop_decls`       : the field loop appends ONE declaration per resolved node, keyed by its RESPONSE KEY
                                (alias-aware), required unless the node carries `@skip` / `@include`.
    * `class_declares_exactly`: the head class of a successful `_parse_type_definition` call declares exactly
                                (automatic `__typename`s) ++ `flatFields`, in this order, nothing dropped, nothing merged.
    * `inlineConds_complete`  : `get_inline_fragments_from_selection_set` returns the type condition of every inline
                                fragment reachable through the spreads at the top level — for every spread, however often
                                the fragment is used.
  Core Lean only.
-/
import AriadneModel.Proofs.C08Classes
import AriadneModel.Proofs.ResultLeaf

set_option linter.unusedSimpArgs false
set_option linter.unusedVariables false

namespace Ariadne.C05Decl
open Ariadne Ariadne.Gql Ariadne.ResultTypes Ariadne.Util

/-! ### the resolved field nodes, as a pure function of the document -/

/-- what ONE selection contributes to the field list of a class on type `root` -/
def flat1 (env : Env) (rec : List Selection → String → List RField) (root : String) : Selection → List RField
  | .field alias name dirs sid sub => [⟨alias, name, dirs, sid, sub⟩]
  | .spread n _ =>
    match findFragment? env.frags n with
    | none => []
    | some f =>
      if !unpackFragment env f (some root) then []            -- inherited (base class), not copied
      else if f.on == root || (env.schema.isAbstract f.on && env.schema.isSubType f.on root) then rec f.sel root
      else []                                                -- silently dropped by the generator (finding C01-F6 region)
  | .inline on _ _ sub =>
    match on with
    | none => []
    | some cond =>
      match inlineFragmentRootType env cond root with
      | some rt => rec sub rt
      | none => []                                           -- silently dropped (finding C01-F5 region)

/-- the field nodes of the class generated for `sels` on type `root` -/
def flatFields (env : Env) : Nat → List Selection → String → List RField
  | 0, _, _ => []
  | fuel + 1, sels, root => sels.flatMap (flat1 env (flatFields env fuel) root)

/-- a field written directly in the selection set is one of the class's field nodes -/
theorem direct_field_mem_flat (env : Env) (fuel : Nat) (sels : List Selection) (root : String)
    (alias : Option String) (name : String) (dirs : List Directive) (sid : Nat) (sub : List Selection)
    (h : Selection.field alias name dirs sid sub ∈ sels) :
    (⟨alias, name, dirs, sid, sub⟩ : RField) ∈ flatFields env (fuel + 1) sels root := by
  simp only [flatFields, List.mem_flatMap]
  exact ⟨_, h, by simp [flat1]⟩

/-- a field inside an inline fragment on the class's own type (or on an interface the object type implements) is one too -/
theorem inline_field_mem_flat (env : Env) (fuel : Nat) (sels : List Selection) (root cond rt : String)
    (idirs : List Directive) (isid : Nat) (isub : List Selection)
    (alias : Option String) (name : String) (dirs : List Directive) (sid : Nat) (sub : List Selection)
    (hin : Selection.inline (some cond) idirs isid isub ∈ sels)
    (hrt : inlineFragmentRootType env cond root = some rt)
    (h : Selection.field alias name dirs sid sub ∈ isub) :
    (⟨alias, name, dirs, sid, sub⟩ : RField) ∈ flatFields env (fuel + 2) sels root := by
  simp only [flatFields, List.mem_flatMap]
  refine ⟨_, hin, ?_⟩
  simp only [flat1, hrt, List.mem_flatMap]
  exact ⟨_, h, by simp [flat1]⟩

/-- one iteration of the loop of `resolve` appends exactly `flat1` of the selection -/
theorem resolveBody_fields (env : Env) (fuel : Nat)
    (ih : ∀ sels root st r st', resolve env fuel sels root st = .ok (r, st') → r.1 = flatFields env fuel sels root)
    (root : String) (a : Selection) (b : Acc) (s : St) (r : ForInStep Acc) (s' : St)
    (h : resolveBody env fuel root a b s = .ok (r, s')) :
    ∃ b1, r = .yield b1 ∧ b1.1 = b.1 ++ flat1 env (flatFields env fuel) root a := by
  cases a with
  | field alias name dirs sid sub =>
    simp only [resolveBody] at h
    obtain ⟨rfl, rfl⟩ := (ok_pure _ _ _ _).mp h
    exact ⟨_, rfl, rfl⟩
  | spread n d =>
    cases hf : findFragment? env.frags n with
    | none =>
      simp only [resolveBody, hf] at h
      exact ((ok_err _ _ _).mp h).elim
    | some f =>
      simp only [resolveBody, hf] at h
      by_cases h1 : (env.schema.get? root).isNone = true
      · rw [if_pos h1] at h; exact ((ok_err _ _ _).mp h).elim
      rw [if_neg h1] at h
      by_cases h2 : (env.schema.get? f.on).isNone = true
      · rw [if_pos h2] at h; exact ((ok_err _ _ _).mp h).elim
      rw [if_neg h2] at h
      by_cases h3 : (!unpackFragment env f (some root)) = true
      · rw [if_pos h3] at h
        obtain ⟨rfl, rfl⟩ := (ok_pure _ _ _ _).mp h
        refine ⟨_, rfl, ?_⟩
        simp only [flat1, hf, if_pos h3, List.append_nil]
      rw [if_neg h3] at h
      by_cases h4 : (f.on == root || (env.schema.isAbstract f.on && env.schema.isSubType f.on root)) = true
      · rw [if_pos h4] at h
        obtain ⟨u, s1, _, hB⟩ := (ok_bind _ _ _ _ _).mp h
        obtain ⟨x, s2, hx, hC⟩ := (ok_bind _ _ _ _ _).mp hB
        obtain ⟨rfl, rfl⟩ := (ok_pure _ _ _ _).mp hC
        refine ⟨_, rfl, ?_⟩
        simp only [flat1, hf, if_neg h3, if_pos h4]
        rw [ih _ _ _ _ _ hx]
      · rw [if_neg h4] at h
        obtain ⟨u, s1, _, hB⟩ := (ok_bind _ _ _ _ _).mp h
        obtain ⟨rfl, rfl⟩ := (ok_pure _ _ _ _).mp hB
        refine ⟨_, rfl, ?_⟩
        simp only [flat1, hf, if_neg h3, if_neg h4, List.append_nil]
  | inline on d sid sub =>
    cases on with
    | none =>
      simp only [resolveBody] at h
      exact ((ok_err _ _ _).mp h).elim
    | some cond =>
      cases hrt : inlineFragmentRootType env cond root with
      | some rt =>
        simp only [resolveBody, hrt] at h
        obtain ⟨x, s2, hx, hC⟩ := (ok_bind _ _ _ _ _).mp h
        obtain ⟨rfl, rfl⟩ := (ok_pure _ _ _ _).mp hC
        refine ⟨_, rfl, ?_⟩
        simp only [flat1, hrt]
        rw [ih _ _ _ _ _ hx]
      | none =>
        simp only [resolveBody, hrt] at h
        obtain ⟨u, s1, _, hB⟩ := (ok_bind _ _ _ _ _).mp h
        obtain ⟨rfl, rfl⟩ := (ok_pure _ _ _ _).mp hB
        refine ⟨_, rfl, ?_⟩
        simp only [flat1, hrt, List.append_nil]

theorem resolveLoop_fields (env : Env) (fuel : Nat)
    (ih : ∀ sels root st r st', resolve env fuel sels root st = .ok (r, st') → r.1 = flatFields env fuel sels root)
    (root : String) :
    ∀ (sels : List Selection) (b : Acc) (s : St) (b' : Acc) (s' : St),
      forIn sels b (resolveBody env fuel root) s = .ok (b', s') →
      b'.1 = b.1 ++ sels.flatMap (flat1 env (flatFields env fuel) root)
  | [], b, s, b', s', h => by
    rw [List.forIn_nil] at h
    obtain ⟨rfl, _⟩ := (ok_pure _ _ _ _).mp h
    simp
  | a :: l, b, s, b', s', h => by
    rw [List.forIn_cons] at h
    obtain ⟨r, s1, h1, h2⟩ := (ok_bind _ _ _ _ _).mp h
    obtain ⟨b1, rfl, hb1⟩ := resolveBody_fields env fuel ih root a b s r s1 h1
    have := resolveLoop_fields env fuel ih root l b1 s1 b' s' h2
    rw [this, hb1, List.flatMap_cons, List.append_assoc]

/-- **`_resolve_selection_set` returns exactly `flatFields`** (any fuel, any state, any document) -/
theorem resolve_fields_eq (env : Env) : ∀ (fuel : Nat) (sels : List Selection) (root : String) (st : St) (r : Acc) (st' : St),
    resolve env fuel sels root st = .ok (r, st') → r.1 = flatFields env fuel sels root
  | 0, sels, root, st, r, st', h => by
    rw [resolve_zero] at h
    exact ((ok_err _ _ _).mp h).elim
  | fuel + 1, sels, root, st, r, st', h => by
    rw [resolve_succ] at h
    obtain ⟨acc, s1, h1, h2⟩ := (ok_bind _ _ _ _ _).mp h
    obtain ⟨u, s2, _, h4⟩ := (ok_bind _ _ _ _ _).mp h2
    obtain ⟨rfl, _⟩ := (ok_pure _ _ _ _).mp h4
    have := resolveLoop_fields env fuel (resolve_fields_eq env fuel) root sels ([], []) st acc s1 h1
    simpa [flatFields] using this

/-! ### one declaration per resolved node, keyed by the response key -/

/-- the key under which pydantic looks the declared field up in the payload -/
def declKey (d : FieldDecl) : String := d.alias.getD d.py

/-- is the field node required in the payload?  (`tv` = the typename values of the class: a `__typename` node of a
    class with typename values becomes a required `Literal[...]`, whatever directives it carries — finding C01-F10) -/
def nodeRequired (tv : List String) (f : RField) : Bool :=
  if f.name == typenameField && !tv.isEmpty then true else !hasConditionalDirective f.dirs

/-- what is compared: response key, python name, `= None` default -/
def declSig (d : FieldDecl) : String × String × Bool := (declKey d, d.py, d.defaultNone)
def nodeSig (env : Env) (tv : List String) (f : RField) : String × String × Bool :=
  (f.key, pyFieldName env f.key, !nodeRequired tv f)

theorem parseOperationField_default (env : Env) (fuel : Nat) (name : String) (dirs : List Directive) (sub : List Selection)
    (t : TypeRef) (cn : String) (tv : List String) (x : Ann × Bool × Ctx)
    (h : parseOperationField env fuel name dirs sub t cn tv = .ok x) :
    x.2.1 = (if name == typenameField && !tv.isEmpty then false else hasConditionalDirective dirs) := by
  unfold parseOperationField at h
  by_cases hc : (name == typenameField && !tv.isEmpty) = true
  · rw [if_pos hc] at h
    simp only [pure, Except.pure, Except.ok.injEq] at h
    rw [← h, if_pos hc]
  · rw [if_neg hc] at h
    rw [if_neg hc]
    cases hp : parseType env fuel sub t true cn false {} with
    | error e => simp [hp, bind, Except.bind] at h
    | ok p =>
      obtain ⟨a, ctx⟩ := p
      simp only [hp, bind, Except.bind, pure, Except.pure, Except.ok.injEq] at h
      rw [← h]
      unfold parseDirectives
      split <;> simp_all

/-! ### leaf annotations are left alone by `annotate_nested_unions` -/

theorem annotateNested_leafAnn (env : Env) (T : TypeRef) : ∀ b : Bool,
    annotateNested (ResultLeaf.leafAnn env b T) = ResultLeaf.leafAnn env b T := by
  induction T with
  | named n =>
    intro b
    simp only [ResultLeaf.leafAnn, ResultLeaf.leafBase_eq]
    cases b <;> simp [optionalIf, annotateNested]
  | list t ih =>
    intro b
    simp only [ResultLeaf.leafAnn]
    cases b <;> simp [optionalIf, annotateNested, ih]
  | nonNull t ih => intro b; simp only [ResultLeaf.leafAnn]; exact ih false

theorem annotateTop_leafAnn (env : Env) (T : TypeRef) : ∀ b : Bool,
    annotateTop (ResultLeaf.leafAnn env b T) = ResultLeaf.leafAnn env b T := by
  induction T with
  | named n =>
    intro b
    simp only [ResultLeaf.leafAnn, ResultLeaf.leafBase_eq]
    cases b <;> simp [optionalIf, annotateTop, annotateNested]
  | list t ih =>
    intro b
    simp only [ResultLeaf.leafAnn]
    cases b <;> simp [optionalIf, annotateTop, annotateNested, annotateNested_leafAnn]
  | nonNull t ih => intro b; simp only [ResultLeaf.leafAnn]; exact ih false

theorem isUnionAnn_leafAnn (env : Env) (T : TypeRef) : ∀ b : Bool, isUnionAnn (ResultLeaf.leafAnn env b T) = false := by
  induction T with
  | named n =>
    intro b
    simp only [ResultLeaf.leafAnn, ResultLeaf.leafBase_eq]
    cases b <;> simp [optionalIf, isUnionAnn]
  | list t ih => intro b; simp only [ResultLeaf.leafAnn]; cases b <;> simp [optionalIf, isUnionAnn]
  | nonNull t ih => intro b; simp only [ResultLeaf.leafAnn]; exact ih false

/-- the annotation of a leaf-typed node: `Optional` / `List` image of its GraphQL type, plus one `Optional` when conditional -/
def leafNodeAnn (env : Env) (t : TypeRef) (dirs : List Directive) : Ann := (parseDirectives (ResultLeaf.leafAnn env true t) dirs).1

theorem isUnionAnn_leafNodeAnn (env : Env) (t : TypeRef) (dirs : List Directive) : isUnionAnn (leafNodeAnn env t dirs) = false := by
  unfold leafNodeAnn parseDirectives
  split
  · split
    · exact isUnionAnn_leafAnn env t true
    · rfl
  · exact isUnionAnn_leafAnn env t true

theorem parseOperationField_leaf (env : Env) (fuel : Nat) (name : String) (dirs : List Directive) (sub : List Selection)
    (t : TypeRef) (cn : String) (tv : List String) (x : Ann × Bool × Ctx)
    (h : parseOperationField env fuel name dirs sub t cn tv = .ok x)
    (hl : ResultLeaf.LeafName env t.base) (hs : (name == typenameField && !tv.isEmpty) = false) :
    x.1 = leafNodeAnn env t dirs := by
  unfold parseOperationField at h
  rw [if_neg (by rw [hs]; exact Bool.false_ne_true)] at h
  obtain ⟨ctx', hp⟩ := ResultLeaf.parseType_leaf env fuel sub t hl true cn false {}
  simp only [hp, bind, Except.bind, pure, Except.pure, Except.ok.injEq] at h
  rw [← h, annotateTop_leafAnn]
  rfl

theorem parseOperationField_typename (env : Env) (fuel : Nat) (name : String) (dirs : List Directive) (sub : List Selection)
    (t : TypeRef) (cn : String) (tv : List String) (x : Ann × Bool × Ctx)
    (h : parseOperationField env fuel name dirs sub t cn tv = .ok x)
    (hs : (name == typenameField && !tv.isEmpty) = true) : x.1 = .literal (sortStr tv) := by
  unfold parseOperationField at h
  rw [if_pos hs] at h
  simp only [pure, Except.pure, Except.ok.injEq] at h
  rw [← h]

/-- what the declaration `fd` emitted for the node `f` (of a class on type `tn` with typename values `tv`) looks like -/
def DeclOf (env : Env) (tn : String) (tv : List String) (fd : FieldDecl) (f : RField) : Prop :=
  declSig fd = nodeSig env tv f ∧
  (∀ t, fieldTypeFromSchema env tn f.name = .ok t → ResultLeaf.LeafName env t.base → (f.name == typenameField && !tv.isEmpty) = false →
    fd.ann = leafNodeAnn env t f.dirs ∧ fd.discriminator = false) ∧
  -- `__typename` in a class that was given typename values: `Literal[...]` of exactly these values
  ((f.name == typenameField && !tv.isEmpty) = true → fd.ann = .literal (sortStr tv) ∧ fd.discriminator = false)

/-- element-wise relation between the declarations and the nodes -/
def Zip (R : FieldDecl → RField → Prop) : List FieldDecl → List RField → Prop
  | [], [] => True
  | d :: ds, f :: fs => R d f ∧ Zip R ds fs
  | _, _ => False

theorem Zip.append {R : FieldDecl → RField → Prop} : ∀ {a : List FieldDecl} {b : List RField} {c : List FieldDecl} {d : List RField},
    Zip R a b → Zip R c d → Zip R (a ++ c) (b ++ d)
  | [], [], _, _, _, h => by simpa using h
  | x :: a, y :: b, _, _, h1, h2 => by
    simp only [List.cons_append, Zip]
    exact ⟨h1.1, Zip.append h1.2 h2⟩
  | [], _ :: _, _, _, h, _ => by simp [Zip] at h
  | _ :: _, [], _, _, h, _ => by simp [Zip] at h

theorem Zip.mem_right {R : FieldDecl → RField → Prop} : ∀ {ds : List FieldDecl} {fs : List RField}, Zip R ds fs →
    ∀ f ∈ fs, ∃ d ∈ ds, R d f
  | [], [], _, f, hf => by cases hf
  | d :: ds, g :: fs, h, f, hf => by
    rcases List.mem_cons.mp hf with rfl | hf
    · exact ⟨d, List.mem_cons_self, h.1⟩
    · obtain ⟨d', hd', hr⟩ := Zip.mem_right h.2 f hf
      exact ⟨d', List.mem_cons_of_mem _ hd', hr⟩
  | [], _ :: _, h, _, _ => by simp [Zip] at h
  | _ :: _, [], h, _, _ => by simp [Zip] at h

theorem Zip.map_eq {R : FieldDecl → RField → Prop} {β : Type} (φ : FieldDecl → β) (ψ : RField → β)
    (hR : ∀ d f, R d f → φ d = ψ f) : ∀ {ds : List FieldDecl} {fs : List RField}, Zip R ds fs → ds.map φ = fs.map ψ
  | [], [], _ => rfl
  | d :: ds, f :: fs, h => by
    simp only [List.map_cons]
    rw [hR d f h.1, Zip.map_eq φ ψ hR h.2]
  | [], _ :: _, h => by simp [Zip] at h
  | _ :: _, [], h => by simp [Zip] at h

/-- one iteration of the field loop -/
theorem fieldBody_decl (env : Env) (fuel : Nat) (cn tn : String) (tv : List String) (f : RField) (acc : FAcc) (s : St)
    (r : ForInStep FAcc) (s' : St) (h : fieldBody env fuel cn tn tv f acc s = .ok (r, s')) :
    ∃ (fd : FieldDecl) (more : List ClassDecl), r = .yield (acc.1 ++ [fd], acc.2 ++ more) ∧ DeclOf env tn tv fd f := by
  unfold fieldBody at h
  obtain ⟨t, s1, h1, hA⟩ := (ok_bind _ _ _ _ _).mp h
  obtain ⟨ht, _⟩ := (ok_liftExcept _ _ _ _).mp h1
  obtain ⟨x, s2, h2, hB⟩ := (ok_bind _ _ _ _ _).mp hA
  obtain ⟨hx, _⟩ := (ok_liftExcept _ _ _ _).mp h2
  obtain ⟨fb, s3, _, hC⟩ := (ok_bind _ _ _ _ _).mp hB
  obtain ⟨more, s4, _, hD⟩ := (ok_bind _ _ _ _ _).mp hC
  obtain ⟨u, s5, _, hE⟩ := (ok_bind _ _ _ _ _).mp hD
  obtain ⟨e3, _⟩ := (ok_pure _ _ _ _).mp hE
  refine ⟨_, more, e3.symm, ?_, ?_, ?_⟩
  · have hd := parseOperationField_default _ _ _ _ _ _ _ _ _ hx
    simp only [declSig, nodeSig, declKey, Prod.mk.injEq]
    refine ⟨?_, trivial, ?_⟩
    · by_cases hk : pyFieldName env f.key = f.key
      · simp [hk]
      · simp [hk]
    · rw [hd]
      unfold nodeRequired
      split <;> simp
  · intro t' ht' hl hs
    rw [ht] at ht'
    have : t = t' := by injection ht'
    subst this
    have ha := parseOperationField_leaf _ _ _ _ _ _ _ _ _ hx hl hs
    exact ⟨ha, by show isUnionAnn x.1 = false; rw [ha]; exact isUnionAnn_leafNodeAnn env t f.dirs⟩
  · intro hs
    have ha := parseOperationField_typename _ _ _ _ _ _ _ _ _ hx hs
    exact ⟨ha, by show isUnionAnn x.1 = false; rw [ha]; rfl⟩

/-- **the field loop**: one declaration per node, in order -/
theorem fieldLoop_decls (env : Env) (fuel : Nat) (cn tn : String) (tv : List String) :
    ∀ (fs : List RField) (acc : FAcc) (s : St) (acc' : FAcc) (s' : St),
      forIn fs acc (fieldBody env fuel cn tn tv) s = .ok (acc', s') →
      ∃ ds, acc'.1 = acc.1 ++ ds ∧ Zip (DeclOf env tn tv) ds fs
  | [], acc, s, acc', s', h => by
    rw [List.forIn_nil] at h
    obtain ⟨rfl, _⟩ := (ok_pure _ _ _ _).mp h
    exact ⟨[], by simp, trivial⟩
  | f :: fs, acc, s, acc', s', h => by
    rw [List.forIn_cons] at h
    obtain ⟨r, s1, h1, h2⟩ := (ok_bind _ _ _ _ _).mp h
    obtain ⟨fd, more, rfl, hdecl⟩ := fieldBody_decl env fuel cn tn tv f acc s r s1 h1
    obtain ⟨ds, hds, hz⟩ := fieldLoop_decls env fuel cn tn tv fs _ s1 acc' s' h2
    exact ⟨fd :: ds, by rw [hds]; simp, ⟨hdecl, hz⟩⟩

/-- **`_parse_type_definition`, any input**: the class a successful call creates (class name not generated before) is
    named `cn` and declares, in this order and with nothing dropped or merged: zero, one or two automatic `__typename`
    nodes, then exactly the nodes `flatFields` — each under its own response key, required unless conditional, and
    (leaf-typed nodes) annotated with the image of the node's GraphQL type. -/
theorem class_declares_exactly (env : Env) (fuel : Nat) (cn tn : String) (sid : Nat) (sel : List Selection) (a : Bool)
    (eb tv : List String) (st : St) (cs : List ClassDecl) (st' : St)
    (h : parseTypeDefinition env fuel cn tn sid sel a eb tv st = .ok (cs, st'))
    (hfresh : st.publicNames.contains cn = false) :
    ∃ (c : ClassDecl) (rest : List ClassDecl) (pre : List RField),
      cs = c :: rest ∧ c.name = cn ∧ (∀ f ∈ pre, f = typenameRField) ∧
      Zip (DeclOf env tn tv) c.fields (pre ++ flatFields env fuel sel tn) ∧
      -- a class generated with `add_typename` has a `__typename` node (selected, or automatic)
      (a = true → ∃ f ∈ pre ++ flatFields env fuel sel tn, f.name = typenameField) := by
  cases fuel with
  | zero =>
    rw [parseTypeDefinition_zero] at h
    exact ((ok_err _ _ _).mp h).elim
  | succ fuel =>
    rw [parseTypeDefinition_succ] at h
    obtain ⟨st0, s0, h0, hA⟩ := (ok_bind _ _ _ _ _).mp h
    obtain ⟨e1, e2⟩ := (ok_get _ _ _).mp h0
    subst e1 e2
    rw [if_neg (by rw [hfresh]; exact Bool.false_ne_true)] at hA
    obtain ⟨u, s1, _, hB⟩ := (ok_bind _ _ _ _ _).mp hA
    obtain ⟨x, s2, h2, hC⟩ := (ok_bind _ _ _ _ _).mp hB
    obtain ⟨st1, s3, h3, hD⟩ := (ok_bind _ _ _ _ _).mp hC
    obtain ⟨e3, e4⟩ := (ok_get _ _ _).mp h3
    subst e3 e4
    have hx := resolve_fields_eq env (fuel + 1) sel tn _ x _ h2
    by_cases hc : (a && !((if s3.marks.contains sid then typenameRField :: x.1 else x.1).any (·.name == typenameField))) = true
    · simp only [hc, if_true] at hD
      obtain ⟨u2, s4, _, hE⟩ := (ok_bind _ _ _ _ _).mp hD
      obtain ⟨acc, hl, hcs⟩ := classTail_ok _ _ _ _ _ _ _ _ _ _ _ hE
      obtain ⟨ds, hds, hz⟩ := fieldLoop_decls env fuel cn tn tv _ _ _ _ _ hl
      simp only [List.nil_append] at hds
      by_cases hm0 : s3.marks.contains sid = true
      · have hm : sid ∈ s3.marks := by simpa using hm0
        refine ⟨_, acc.2, [typenameRField, typenameRField], hcs, rfl, by simp, ?_, fun _ => ⟨typenameRField, by simp, rfl⟩⟩
        show Zip _ acc.1 _
        rw [hds]
        simpa [hm, hx] using hz
      · have hm : sid ∉ s3.marks := by simpa using hm0
        refine ⟨_, acc.2, [typenameRField], hcs, rfl, by simp, ?_, fun _ => ⟨typenameRField, by simp, rfl⟩⟩
        show Zip _ acc.1 _
        rw [hds]
        simpa [hm, hx] using hz
    · simp only [hc] at hD
      obtain ⟨acc, hl, hcs⟩ := classTail_ok _ _ _ _ _ _ _ _ _ _ _ hD
      obtain ⟨ds, hds, hz⟩ := fieldLoop_decls env fuel cn tn tv _ _ _ _ _ hl
      simp only [List.nil_append] at hds
      by_cases hm0 : s3.marks.contains sid = true
      · have hm : sid ∈ s3.marks := by simpa using hm0
        refine ⟨_, acc.2, [typenameRField], hcs, rfl, by simp, ?_, fun _ => ⟨typenameRField, by simp, rfl⟩⟩
        show Zip _ acc.1 _
        rw [hds]
        simpa [hm, hx] using hz
      · have hm : sid ∉ s3.marks := by simpa using hm0
        refine ⟨_, acc.2, [], hcs, rfl, by simp, ?_, ?_⟩
        · show Zip _ acc.1 _
          rw [hds]
          simpa [hm, hx] using hz
        · intro ha
          subst ha
          simp only [Bool.true_and, Bool.not_eq_true', Bool.not_eq_false] at hc
          have hany : x.1.any (·.name == typenameField) = true := by simpa [hm] using hc
          obtain ⟨f, hf, hn⟩ := List.any_eq_true.mp hany
          exact ⟨f, by simpa [hx] using hf, by simpa using hn⟩

/-- the declared (response key, python name, default) triples are those of the nodes, in order -/
theorem class_sigs_exact {env : Env} {tn : String} {tv : List String} {c : ClassDecl} {nodes : List RField}
    (hz : Zip (DeclOf env tn tv) c.fields nodes) : c.fields.map declSig = nodes.map (nodeSig env tv) :=
  Zip.map_eq declSig (nodeSig env tv) (fun _ _ h => h.1) hz

/-- every resolved node has its own declaration in the class -/
theorem node_declared {env : Env} {tn : String} {tv : List String} {c : ClassDecl} {nodes : List RField}
    (hz : Zip (DeclOf env tn tv) c.fields nodes) (f : RField) (hf : f ∈ nodes) :
    ∃ d ∈ c.fields, declKey d = f.key ∧ d.py = pyFieldName env f.key ∧ d.defaultNone = !nodeRequired tv f ∧
      DeclOf env tn tv d f := by
  obtain ⟨d, hd, hR⟩ := Zip.mem_right hz f hf
  have hsig := hR.1
  simp only [declSig, nodeSig, Prod.mk.injEq] at hsig
  exact ⟨d, hd, hsig.1, hsig.2.1, hsig.2.2, hR⟩

/-! ### `_get_typename_values`: what can be in a `Literal[...]` -/

theorem mem_dedup' (a : String) : ∀ l : List String, a ∈ dedup l ↔ a ∈ l
  | [] => by simp [dedup]
  | x :: xs => by
    have ih := mem_dedup' a xs
    simp only [dedup, List.mem_cons, List.mem_filter, ih]
    constructor
    · rintro (h | h)
      · exact Or.inl h
      · exact Or.inr h.1
    · rintro (h | h)
      · exact Or.inl h
      · by_cases e : a = x
        · exact Or.inl e
        · exact Or.inr ⟨h, by simpa using e⟩

/-- every value of every typename literal is the class's own type name or a possible type of an abstract type among the
    related types: a `__typename` that is neither is in NO literal of the position -/
theorem typenameValues_sound (env : Env) (related : List (String × String)) (n : String) (vs : List String)
    (h : (n, vs) ∈ typenameValues env related) (v : String) (hv : v ∈ vs) :
    v = n ∨ ∃ a ∈ related.map (·.2), env.schema.isAbstract a = true ∧ v ∈ env.schema.possibleTypes a := by
  unfold typenameValues at h
  simp only [] at h
  cases hf : (related.map (·.2)).find? env.schema.isAbstract with
  | none =>
    simp only [hf] at h
    obtain ⟨m, _, hm⟩ := List.mem_map.mp h
    simp only [Prod.mk.injEq] at hm
    obtain ⟨rfl, rfl⟩ := hm
    left; simpa using hv
  | some abs =>
    simp only [hf] at h
    obtain ⟨p, hp, hpe⟩ := List.mem_map.mp h
    obtain ⟨m, _, hm⟩ := List.mem_map.mp hp
    subst hm
    by_cases hc : (m == abs) = true
    · simp only [hc, if_true, Prod.mk.injEq] at hpe
      obtain ⟨rfl, rfl⟩ := hpe
      rcases List.mem_append.mp hv with h1 | h1
      · left; simpa using h1
      · right
        refine ⟨abs, List.mem_of_find?_eq_some hf, List.find?_some hf, ?_⟩
        rw [mem_dedup'] at h1
        exact (List.mem_filter.mp h1).1
    · simp only [hc, Bool.false_eq_true, if_false, Prod.mk.injEq] at hpe
      obtain ⟨rfl, rfl⟩ := hpe
      left; simpa using hv

/-! ### pydantic: own declarations are fields of the model -/

theorem addDecl_fresh (acc : List FieldDecl) (g : FieldDecl) (h : ∀ f ∈ acc, f.py ≠ g.py) : Pyd.addDecl acc g = acc ++ [g] := by
  unfold Pyd.addDecl
  have : acc.any (·.py == g.py) = false := by
    rw [List.any_eq_false]
    intro f hf
    simpa using h f hf
  simp [this]

theorem mergeDup_foldl : ∀ (fs acc : List FieldDecl), ((acc ++ fs).map (·.py)).Nodup → fs.foldl Pyd.addDecl acc = acc ++ fs
  | [], acc, _ => by simp
  | g :: fs, acc, h => by
    have hfresh : ∀ f ∈ acc, f.py ≠ g.py := by
      intro f hf e
      simp only [List.map_append, List.map_cons] at h
      have := (List.nodup_append.mp h).2.2 f.py (List.mem_map.mpr ⟨f, hf, rfl⟩) g.py (by simp)
      exact this e
    rw [List.foldl_cons, addDecl_fresh acc g hfresh, mergeDup_foldl fs (acc ++ [g]) (by simpa using h)]
    simp

theorem mergeDup_nodup (fs : List FieldDecl) (h : (fs.map (·.py)).Nodup) : Pyd.mergeDup fs = fs := by
  unfold Pyd.mergeDup
  simpa using mergeDup_foldl fs [] (by simpa using h)

/-- a class whose own declarations have pairwise distinct python names: every own declaration is a field of the model
    (own declarations override inherited ones) -/
theorem own_mem_allFields (penv : Pyd.Env) (k : Nat) (c : ClassDecl) (hc : penv.class? c.name = some c)
    (hnd : (c.fields.map (·.py)).Nodup) (d : FieldDecl) (hd : d ∈ c.fields) : d ∈ Pyd.allFields penv (k + 1) c.name := by
  unfold Pyd.allFields
  simp only [hc, mergeDup_nodup c.fields hnd]
  exact List.mem_append_right _ hd

/-! ### `get_inline_fragments_from_selection_set` is complete -/

theorem foldlM_except_mem {α β : Type} (f : List β → α → Except GenErr (List β))
    (hmono : ∀ acc a r, f acc a = .ok r → ∀ x ∈ acc, x ∈ r) :
    ∀ (l : List α) (acc r : List β), l.foldlM f acc = .ok r → ∀ x ∈ acc, x ∈ r
  | [], acc, r, h, x, hx => by
    simp only [List.foldlM_nil, pure, Except.pure, Except.ok.injEq] at h
    rw [← h]; exact hx
  | a :: l, acc, r, h, x, hx => by
    simp only [List.foldlM_cons, bind, Except.bind] at h
    cases hf : f acc a with
    | error e => simp [hf] at h
    | ok r1 =>
      simp only [hf] at h
      exact foldlM_except_mem f hmono l r1 r h x (hmono acc a r1 hf x hx)

/-- the step function of `inlineFragmentConds` -/
def condStep (frags : List Fragment) (fuel : Nat) (acc : List (Option String)) (s : Selection) : Except GenErr (List (Option String)) :=
  match s with
  | .inline on _ _ _ => pure (acc ++ [on])
  | .spread n _ =>
    match findFragment? frags n with
    | none => .error (.internal "KeyError")
    | some f => do
      let inner ← inlineFragmentConds frags fuel f.sel
      pure (acc ++ inner)
  | .field .. => pure acc

theorem inlineFragmentConds_succ (frags : List Fragment) (fuel : Nat) (sels : List Selection) :
    inlineFragmentConds frags (fuel + 1) sels = sels.foldlM (condStep frags fuel) [] := by
  unfold inlineFragmentConds condStep
  rfl

theorem condStep_mono (frags : List Fragment) (fuel : Nat) (acc : List (Option String)) (s : Selection) (r : List (Option String))
    (h : condStep frags fuel acc s = .ok r) : ∀ x ∈ acc, x ∈ r := by
  intro x hx
  cases s with
  | field a n d sid sub =>
    simp only [condStep, pure, Except.pure, Except.ok.injEq] at h
    rw [← h]; exact hx
  | inline on d sid sub =>
    simp only [condStep, pure, Except.pure, Except.ok.injEq] at h
    rw [← h]; exact List.mem_append_left _ hx
  | spread n d =>
    simp only [condStep] at h
    cases hf : findFragment? frags n with
    | none => simp [hf] at h
    | some f =>
      simp only [hf, bind, Except.bind] at h
      cases hi : inlineFragmentConds frags fuel f.sel with
      | error e => simp [hi] at h
      | ok inner =>
        simp only [hi, pure, Except.pure, Except.ok.injEq] at h
        rw [← h]; exact List.mem_append_left _ hx

theorem foldlM_condStep_est (frags : List Fragment) (fuel : Nat) (x : Option String) (s₀ : Selection)
    (hest : ∀ acc r, condStep frags fuel acc s₀ = .ok r → x ∈ r) :
    ∀ (l : List Selection) (acc r : List (Option String)), s₀ ∈ l → l.foldlM (condStep frags fuel) acc = .ok r → x ∈ r
  | [], _, _, hm, _ => by cases hm
  | a :: l, acc, r, hm, h => by
    simp only [List.foldlM_cons, bind, Except.bind] at h
    cases hf : condStep frags fuel acc a with
    | error e => simp [hf] at h
    | ok r1 =>
      simp only [hf] at h
      rcases List.mem_cons.mp hm with rfl | hm'
      · exact foldlM_except_mem (condStep frags fuel) (condStep_mono frags fuel) l r1 r h x (hest acc r1 hf)
      · exact foldlM_condStep_est frags fuel x s₀ hest l r1 r hm' h

/-- an inline fragment written at the top level of the selection set is reported -/
theorem inlineConds_direct (frags : List Fragment) (fuel : Nat) (sels : List Selection) (r : List (Option String))
    (h : inlineFragmentConds frags (fuel + 1) sels = .ok r)
    (on : Option String) (d : List Directive) (sid : Nat) (sub : List Selection)
    (hm : Selection.inline on d sid sub ∈ sels) : on ∈ r := by
  rw [inlineFragmentConds_succ] at h
  refine foldlM_condStep_est frags fuel on _ ?_ sels [] r hm h
  intro acc r1 hr
  simp only [condStep, pure, Except.pure, Except.ok.injEq] at hr
  rw [← hr]; simp

/-- **every use of a fragment is expanded**: for EVERY spread `...F` at the top level of the field's selection set — the
    first, the second, in whatever operation — every inline fragment at the top level of `F` is reported (the function has
    no memory: its result depends on the selection set and the fragment table only) -/
theorem inlineConds_complete (frags : List Fragment) (fuel : Nat) (sels : List Selection) (r : List (Option String))
    (h : inlineFragmentConds frags (fuel + 2) sels = .ok r)
    (n : String) (sd : List Directive) (f : Fragment) (hspread : Selection.spread n sd ∈ sels)
    (hf : findFragment? frags n = some f)
    (on : Option String) (d : List Directive) (sid : Nat) (sub : List Selection)
    (hm : Selection.inline on d sid sub ∈ f.sel) : on ∈ r := by
  rw [inlineFragmentConds_succ] at h
  refine foldlM_condStep_est frags (fuel + 1) on _ ?_ sels [] r hspread h
  intro acc r1 hr
  simp only [condStep, hf, bind, Except.bind] at hr
  cases hi : inlineFragmentConds frags (fuel + 1) f.sel with
  | error e => simp [hi] at hr
  | ok inner =>
    simp only [hi, pure, Except.pure, Except.ok.injEq] at hr
    rw [← hr]
    exact List.mem_append_right _ (inlineConds_direct frags fuel f.sel inner hi on d sid sub hm)

/-! ### an interface-typed field: one variant class per reported type condition -/

theorem mem_dedup (a : String) : ∀ l : List String, a ∈ dedup l ↔ a ∈ l
  | [] => by simp [dedup]
  | x :: xs => by
    have ih := mem_dedup a xs
    simp only [dedup, List.mem_cons, List.mem_filter, ih]
    constructor
    · rintro (h | h)
      · exact Or.inl h
      · exact Or.inr h.1
    · rintro (h | h)
      · exact Or.inl h
      · by_cases e : a = x
        · exact Or.inl e
        · exact Or.inr ⟨h, by simpa using e⟩

theorem mem_sortedSet (a : String) (l : List String) : a ∈ sortedSet l ↔ a ∈ l := by
  unfold sortedSet
  rw [ResultTypes.mem_sortStr, mem_dedup]

/-- `parse_interface_type`: every type condition that `get_inline_fragments_from_selection_set` reports becomes a member
    `"<ClassName><T>"` of the field's `Union[...]` and a class to generate (`related`) -/
theorem parseType_interface_variant (env : Env) (fuel : Nat) (fieldSel : List Selection) (n : String) (nullable : Bool)
    (cn : String) (add : Bool) (ctx : Ctx) (a : Ann) (ctx' : Ctx)
    (hk : env.schema.kindOf? n = some .interface)
    (h : parseType env fuel fieldSel (.named n) nullable cn add ctx = .ok (a, ctx'))
    (inl : List (Option String)) (hinl : inlineFragmentConds env.frags fuel fieldSel = .ok inl)
    (T : String) (hT : some T ∈ inl) :
    (cn ++ T, T) ∈ ctx'.related ∧ ∃ as, a = optionalIf nullable (.union as) ∧ Ann.cls (cn ++ T) ∈ as := by
  unfold parseType at h
  simp only [hk, hinl, bind, Except.bind] at h
  cases hsubs : fragmentsOnSubtype env fieldSel n with
  | error e => simp [hsubs] at h
  | ok subs =>
    simp only [hsubs] at h
    have hne : (!inl.isEmpty || !subs.isEmpty) = true := by
      cases inl with
      | nil => cases hT
      | cons x xs => simp
    rw [if_pos hne] at h
    by_cases hnone : inl.any (·.isNone) = true
    · rw [if_pos hnone] at h; cases h
    · rw [if_neg hnone] at h
      simp only [pure, Except.pure, Except.ok.injEq, Prod.mk.injEq] at h
      obtain ⟨ha, hctx⟩ := h
      have hmem : T ∈ sortedSet (inl.filterMap id ++ subs) := by
        rw [mem_sortedSet]
        exact List.mem_append_left _ (List.mem_filterMap.mpr ⟨some T, hT, rfl⟩)
      constructor
      · rw [← hctx]
        simp only [List.mem_append, List.mem_cons, List.mem_map]
        exact Or.inr (Or.inr ⟨T, hmem, rfl⟩)
      · refine ⟨_, ha.symm, ?_⟩
        simp only [List.map_cons, List.mem_cons, List.mem_map]
        exact Or.inr ⟨cn ++ T, ⟨T, hmem, rfl⟩, rfl⟩

/-- **every use of a fragment on an interface gets its variant classes**: an interface-typed field whose selection set
    spreads `F`, where `F` has `... on T {…}` at its top level, gets the class `<ClassName><T>` — at every position and in
    every operation that spreads `F`, independently of what was generated before -/
theorem interface_spread_variant (env : Env) (fuel : Nat) (fieldSel : List Selection) (n : String) (nullable : Bool)
    (cn : String) (add : Bool) (ctx : Ctx) (a : Ann) (ctx' : Ctx)
    (hk : env.schema.kindOf? n = some .interface)
    (h : parseType env (fuel + 2) fieldSel (.named n) nullable cn add ctx = .ok (a, ctx'))
    (fn : String) (sd : List Directive) (f : Fragment) (hspread : Selection.spread fn sd ∈ fieldSel)
    (hf : findFragment? env.frags fn = some f)
    (T : String) (d : List Directive) (sid : Nat) (sub : List Selection)
    (hm : Selection.inline (some T) d sid sub ∈ f.sel) :
    (cn ++ T, T) ∈ ctx'.related ∧ ∃ as, a = optionalIf nullable (.union as) ∧ Ann.cls (cn ++ T) ∈ as := by
  cases hinl : inlineFragmentConds env.frags (fuel + 2) fieldSel with
  | error e =>
    unfold parseType at h
    simp [hk, hinl, bind, Except.bind] at h
  | ok inl =>
    exact parseType_interface_variant env (fuel + 2) fieldSel n nullable cn add ctx a ctx' hk h inl hinl T
      (inlineConds_complete env.frags fuel fieldSel inl hinl fn sd f hspread hf (some T) d sid sub hm)

end Ariadne.C05Decl
