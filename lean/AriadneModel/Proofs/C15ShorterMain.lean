/-
  C15: ShorterResults on a client module of the generated form, under the (decidable) well-formedness of what
  the generator hands to the plugin — the package still loads, every method is projected on exactly its single
  field (or left alone), and every other name resolves as before.
-/
import AriadneModel.Proofs.C15ShorterWhole
import AriadneModel.Model.PluginWhole

set_option linter.unusedSimpArgs false
set_option linter.unusedVariables false

namespace Ariadne.C15
open Ariadne Ariadne.Py Ariadne.Plugins Ariadne.ClientSem

/-! ### `singleFieldOf` (the trigger vocabulary) and `nodeAndClass` (the plugin) -/

theorem singleFieldOf_some (st : ShorterState) (m : Method) (f : String) (ann : Ex)
    (h : singleFieldOf st m = some (f, ann)) : ∃ cls, returnClassOf m = some cls ∧ SingleField st.classDict cls f ann := by
  unfold singleFieldOf at h
  cases hr : returnClassOf m with
  | none => simp [hr] at h
  | some rc =>
    simp only [hr] at h
    cases hl : alookup rc st.classDict with
    | none => simp [hl] at h
    | some cd =>
      simp only [hl] at h
      split at h
      · rename_i f' ann' hg
        simp only [Option.some.injEq, Prod.mk.injEq] at h
        obtain ⟨rfl, rfl⟩ := h
        exact ⟨rc, rfl, cd, hl, hg⟩
      · cases h

theorem singleFieldOf_of_single (st : ShorterState) (m : Method) (cls f : String) (ann : Ex)
    (hr : returnClassOf m = some cls) (h : SingleField st.classDict cls f ann) : singleFieldOf st m = some (f, ann) := by
  obtain ⟨cd, hl, hg⟩ := h
  unfold singleFieldOf
  simp only [hr, hl, hg]

theorem nodeAndClass_single (st : ShorterState) (m : Method) (cls f : String) (node : Ex) (classes : List String)
    (hr : returnClassOf m = some cls) (h : nodeAndClass st.classDict cls = .ok (some (node, classes, f))) :
    ∃ ann, singleFieldOf st m = some (f, ann) ∧ node = unwrapped ann ∧ classes = leavesOf ann := by
  obtain ⟨cd, ann, h1, h2, h3⟩ := (nodeAndClass_some st.classDict cls node classes f).mp h
  exact ⟨ann, singleFieldOf_of_single st m cls f ann hr ⟨cd, h1, h2⟩, by simp [unwrapped, h3], by simp [leavesOf, h3]⟩

/-! ### the hypotheses: what the generator hands to the plugin -/

/-- a method ShorterResults will rewrite has the generated shape, no projection yet, and a return annotation
    of the kind its last statement calls for -/
def KindOK (md : Method) : Prop :=
  ∃ s, shapeOf md = some s ∧ s.proj = [] ∧
    ((∃ aw r d cls, s.tail = .call aw r d ∧ md.returns = some (.name cls)) ∨
     (∃ d o a cls, s.tail = .sub d true o ∧ md.returns = some (.sub a (.name cls))))

structure ShorterHyps (known : List String) (st : ShorterState) (M0 : Module) (pre0 : List Top) (g : Method) (C0 : ClassDef) : Prop where
  body : M0.body = pre0 ++ [.funcDef g, .classDef C0]
  noclass : NoClass pre0
  extEmpty : st.extendedImports = []
  dictOK : ∀ kv ∈ st.classDict, ∃ r, nodeAndClass st.classDict kv.1 = .ok r
  kind : ∀ md ∈ C0.methods, (singleFieldOf st md).isSome = true → KindOK md
  ann : ∀ md ∈ C0.methods, ∀ f ann, singleFieldOf st md = some (f, ann) → ∀ n ∈ exNames (newReturns md ann),
    (n ∈ leavesOf ann ∧ (ahas n st.importedTypes = true ∨ ahas n st.classDict = true)) ∨
      n ∈ moduleNames M0 ∨ n ∈ builtinNames
  ret : ∀ md ∈ C0.methods, ∀ s, shapeOf md = some s → s.retClass ∉ leafPool st C0.methods
  names : ∀ md ∈ C0.methods, startsWithDot md.name = false
  srcs : ∀ n ∈ leafPool st C0.methods, ∀ v, alookup n st.importedTypes = some v → startsWithDot v = true → v ∈ known
  fmt0 : formatOkB M0 = true
  ann0 : annScopedB M0 = true
  well0 : wellScopedB { client := M0, ops := none } = true
  imp0 : ∀ i ∈ topImports M0, ∀ q, relModule i = some q → q ∈ known

/-! ### no exception -/

theorem nodeAndClass_ok (st : ShorterState) (hd : ∀ kv ∈ st.classDict, ∃ r, nodeAndClass st.classDict kv.1 = .ok r) (cls : String) :
    ∃ r, nodeAndClass st.classDict cls = .ok r := by
  cases hl : alookup cls st.classDict with
  | none => exact ⟨none, by unfold nodeAndClass; rw [hl]; rfl⟩
  | some cd => exact hd (cls, cd) (mem_of_alookup cls cd _ hl)

theorem shorter_no_crash_method (st : ShorterState) (md : Method)
    (hd : ∀ kv ∈ st.classDict, ∃ r, nodeAndClass st.classDict kv.1 = .ok r)
    (hk : (singleFieldOf st md).isSome = true → KindOK md) : ∃ r, shorterModifyMethod st md = .ok r := by
  unfold shorterModifyMethod
  split
  · unfold shorterQueryMutation
    split
    · rename_i value id _ hret
      obtain ⟨r, hr⟩ := nodeAndClass_ok st hd id
      rw [hr]
      cases r with
      | none => exact ⟨_, rfl⟩
      | some t => obtain ⟨node, classes, f⟩ := t; exact ⟨_, rfl⟩
    · exact ⟨_, rfl⟩
  · rename_i target iter body isList orelse hlast
    unfold shorterSubscription
    split
    · rename_i a id hret
      obtain ⟨r, hr⟩ := nodeAndClass_ok st hd id
      rw [hr]
      cases r with
      | none => exact ⟨_, rfl⟩
      | some t =>
        obtain ⟨node, classes, f⟩ := t
        have hrc : returnClassOf md = some id := by simp [returnClassOf, hret]
        obtain ⟨ann, hs, _, _⟩ := nodeAndClass_single st md id f node classes hrc hr
        obtain ⟨s, hsh, _, hkind⟩ := hk (by rw [hs]; rfl)
        have hb := shapeOf_sound md s hsh
        rw [hb, bodyOf_getLast] at hlast
        rcases hkind with ⟨aw, r, d, cls, ht, hret'⟩ | ⟨d, o, a', cls, ht, hret'⟩
        · rw [hret] at hret'; cases hret'
        · simp only [lastStmt, ht, Option.some.injEq, Stmt.asyncFor.injEq] at hlast
          obtain ⟨_, _, hbody, hl, _⟩ := hlast
          subst hbody; subst hl
          exact ⟨_, rfl⟩
    · exact ⟨_, rfl⟩
  · exact ⟨_, rfl⟩

theorem shorter_no_crash_methods (dict : List (String × ClassDef)) : ∀ (items : List ClassItem) (st : ShorterState),
    st.classDict = dict →
    (∀ kv ∈ dict, ∃ r, nodeAndClass dict kv.1 = .ok r) →
    (∀ md ∈ items.filterMap ClassItem.method?, (singleFieldOf st md).isSome = true → KindOK md) →
    ∃ r, mapMethodsM shorterModifyMethod st items = .ok r := by
  intro items
  induction items with
  | nil => intro st _ _ _; exact ⟨_, rfl⟩
  | cons it0 rest ih =>
    intro st hst hd hk
    cases it0 with
    | method m =>
      obtain ⟨r, hr⟩ := shorter_no_crash_method st m (by rw [hst]; exact hd) (hk m (by simp [ClassItem.method?]))
      have hro := shorterModifyMethod_readOnly st r.1 m r.2 (by rw [hr])
      have hcd : r.1.classDict = st.classDict := congrArg (fun t => t.2.1) hro
      have hsf : ∀ md, singleFieldOf r.1 md = singleFieldOf st md := by intro md; unfold singleFieldOf; rw [hcd]
      obtain ⟨r2, hr2⟩ := ih r.1 (hcd.trans hst) hd
        (fun md hmd hs => hk md (by simp [ClassItem.method?, hmd]) (by rw [← hsf md]; exact hs))
      exact ⟨_, by simp only [mapMethodsM, hr, bind_ok, hr2]; rfl⟩
    | stmt s =>
      obtain ⟨r2, hr2⟩ := ih st hst hd (fun md hmd hs => hk md (by simpa [ClassItem.method?] using hmd) hs)
      exact ⟨_, by simp only [mapMethodsM, hr2, bind_ok]; rfl⟩

theorem firstClass_of_body (M : Module) (pre : List Top) (g : Method) (c : ClassDef)
    (hb : M.body = pre ++ [.funcDef g, .classDef c]) (hn : NoClass pre) : M.firstClass? = some c := by
  have := firstClass_pre g c pre hn
  cases M; simp only at hb; subst hb; exact this

theorem shorter_no_crash (known : List String) (st : ShorterState) (M0 : Module) (pre0 : List Top) (g : Method) (C0 : ClassDef)
    (H : ShorterHyps known st M0 pre0 g C0) : ∃ r, shorterClientModule st M0 = .ok r := by
  obtain ⟨r, hr⟩ := shorter_no_crash_methods st.classDict C0.body st rfl H.dictOK H.kind
  unfold shorterClientModule
  rw [firstClass_of_body M0 pre0 g C0 H.body H.noclass]
  simp only
  rw [H.body, mapFirstClassM_pre _ g C0 pre0 st H.noclass, hr]
  simp only [bind_ok, pure_eq_ok]
  split
  · exact ⟨_, rfl⟩
  · exact ⟨_, rfl⟩

/-! ### what comes out -/

/-- one method of the class, before and after -/
def PerMethod (st : ShorterState) (md md' : Method) : Prop :=
  md'.name = md.name ∧ md'.args = md.args ∧
  ∀ s0, shapeOf md = some s0 →
    match singleFieldOf st md with
    | some (f, _) => shapeOf md' = some (shorterShape s0 f)
    | none => md' = md

structure ShorterConcl (known : List String) (st : ShorterState) (M0 M1 : Module) (C0 : ClassDef) : Prop where
  fmt : formatOkB M1 = true
  ann : annScopedB M1 = true
  well : wellScopedB { client := M1, ops := none } = true
  imp : ∀ i ∈ topImports M1, ∀ q, relModule i = some q → q ∈ known
  names_mono : ∀ n ∈ moduleNames M0, n ∈ moduleNames M1
  cls : ∃ C1, M1.firstClass? = some C1 ∧ ItemsRel (PerMethod st) C0.body C1.body
  bindings : ∀ md ∈ C0.methods, ∀ s, shapeOf md = some s →
    alookup s.retClass (importBindings (topImports M1)) = alookup s.retClass (importBindings (topImports M0))

theorem relModule_congr (i i' : ImportFrom) (hm : i'.module = i.module) (hl : i'.level = i.level) : relModule i' = relModule i := by
  unfold relModule; rw [hm, hl]

theorem dotted_zero (m : String) : dotted 0 m = m := by
  simp [dotted]

theorem leafPool_mem (st : ShorterState) (methods : List Method) (md : Method) (hmd : md ∈ methods) (f : String) (ann : Ex)
    (hs : singleFieldOf st md = some (f, ann)) (n : String) (hn : n ∈ leavesOf ann) : n ∈ leafPool st methods := by
  unfold leafPool
  rw [List.mem_flatMap]
  exact ⟨md, hmd, by rw [hs]; exact hn⟩

theorem runtimeUnresolved_mono (M0 M1 : Module) (md : Method) (hmono : ∀ n ∈ moduleNames M0, n ∈ moduleNames M1)
    (h : runtimeUnresolved { client := M0, ops := none } md = []) :
    runtimeUnresolved { client := M1, ops := none } md = [] := by
  unfold runtimeUnresolved at h ⊢
  cases hs : shapeOf md with
  | none => rfl
  | some v =>
    simp only [hs] at h ⊢
    have hcv : ∀ (M : Module) (c : String), constValue { client := M, ops := none } v c = none := by
      intro M c; unfold constValue; cases resolveRuntime { client := M, ops := none } v c <;> rfl
    rw [List.append_eq_nil_iff] at h ⊢
    obtain ⟨h1, h2⟩ := h
    have hm1 : ∀ need : List String,
        need.filter (fun n => !((importBindings v.imports).map (·.1) ++ moduleNames M0 ++ builtinNames ++ md.args.map (·.1) ++ ["kwargs"]).contains n) = [] →
        need.filter (fun n => !((importBindings v.imports).map (·.1) ++ moduleNames M1 ++ builtinNames ++ md.args.map (·.1) ++ ["kwargs"]).contains n) = [] := by
      intro need hneed
      rw [List.filter_eq_nil_iff] at hneed ⊢
      intro a ha
      have h0 := hneed a ha
      have hc0 : ((importBindings v.imports).map (·.1) ++ moduleNames M0 ++ builtinNames ++ md.args.map (·.1) ++ ["kwargs"]).contains a = true := by
        cases hc : ((importBindings v.imports).map (·.1) ++ moduleNames M0 ++ builtinNames ++ md.args.map (·.1) ++ ["kwargs"]).contains a with
        | true => rfl
        | false => rw [hc] at h0; exact absurd rfl h0
      have hc1 : ((importBindings v.imports).map (·.1) ++ moduleNames M1 ++ builtinNames ++ md.args.map (·.1) ++ ["kwargs"]).contains a = true := by
        rw [List.contains_iff_mem] at hc0 ⊢
        simp only [List.mem_append] at hc0 ⊢
        rcases hc0 with (((h | h) | h) | h) | h
        · exact .inl (.inl (.inl (.inl h)))
        · exact .inl (.inl (.inl (.inr (hmono a h))))
        · exact .inl (.inl (.inr h))
        · exact .inl (.inr h)
        · exact .inr h
      rw [hc1]
      simp
    refine ⟨hm1 _ h1, ?_⟩
    rw [hm1 _ h1]
    rw [h1] at h2
    cases hop : v.op with
    | inline q ls => simp [hop]
    | const c =>
      simp only [hop, hcv] at h2 ⊢
      exact h2

theorem shorter_concl (known : List String) (st st' : ShorterState) (M0 M1 : Module) (pre0 : List Top) (g : Method) (C0 : ClassDef)
    (H : ShorterHyps known st M0 pre0 g C0) (h : shorterClientModule st M0 = .ok (st', M1)) :
    ShorterConcl known st M0 M1 C0 := by
  obtain ⟨st1, items1, hmm, hbody1⟩ := shorterClientModule_form st st' M0 M1 pre0 g C0 H.body H.noclass h
  have F := module_facts st1.extendedImports M0 M1 pre0 g C0 { C0 with body := items1 } H.body H.noclass rfl hbody1
  obtain ⟨hro, _, hout, hwithin⟩ := shorter_methods_spec C0.body st st1 items1 hmm
  obtain ⟨_, halone⟩ := shorter_methods_history_free C0.body st st1 items1 hmm
  have hfc0 : M0.firstClass? = some C0 := firstClass_of_body M0 pre0 g C0 H.body H.noclass
  -- the imports collected: keys are method names or recorded sources of pool classes, names are pool classes
  have hE : ExtWithin (C0.methods.map (·.name) ++ (leafPool st C0.methods).filterMap (fun n => alookup n st.importedTypes))
      (leafPool st C0.methods) st1.extendedImports := by
    apply hwithin
    · intro m hm; exact List.mem_append_left _ (List.mem_map.mpr ⟨m, hm, rfl⟩)
    · intro c hc v hv
      apply List.mem_append_right
      rw [List.mem_filterMap]
      exact ⟨c, hc, hv⟩
    · intro m hm cls node classes f hr hn cl hcl
      obtain ⟨ann, hs, _, rfl⟩ := nodeAndClass_single st m cls f node classes hr hn
      exact leafPool_mem st C0.methods m hm f ann hs cl hcl
    · rw [H.extEmpty]; intro x hx; simp at hx
  have hadded : ∀ n ∈ addedNames st1.extendedImports, n ∈ leafPool st C0.methods := by
    intro n hn
    unfold addedNames at hn
    rw [List.mem_flatMap] at hn
    obtain ⟨x, hx, hnx⟩ := hn
    exact (hE x hx).2 n hnx
  -- per method
  have hboth := ItemsRel.and hout halone
  have hper : ItemsRel (PerMethod st) C0.body items1 := by
    refine ItemsRel.imp ?_ (ItemsRel.and hboth (ItemsRel.with_mem hboth))
    rintro md md' ⟨⟨hmo, hal⟩, hmem⟩
    have hname : md'.name = md.name := by
      rcases hmo with rfl | ⟨_, _, _, _, _, _, hrw, _⟩
      · rfl
      · exact hrw.name
    have hargs : md'.args = md.args := by
      rcases hmo with rfl | ⟨_, _, _, _, _, _, hrw, _⟩
      · rfl
      · exact hrw.args
    refine ⟨hname, hargs, ?_⟩
    intro s0 hs0
    cases hsf : singleFieldOf st md with
    | none =>
      simp only
      rcases hmo with hmo | ⟨cls, node, classes, f, hr, hn, _, _⟩
      · exact hmo
      · obtain ⟨ann, hs, _, _⟩ := nodeAndClass_single st md cls f node classes hr hn
        rw [hsf] at hs; cases hs
    | some fa =>
      obtain ⟨f, ann⟩ := fa
      simp only
      rcases hmo with hmo | ⟨cls, node, classes, f', hr, hn, hrw, _⟩
      · -- "untouched" is impossible: alone, the plugin rewrites this method
        exfalso
        obtain ⟨s, hsh, _, hkind⟩ := H.kind md hmem (by rw [hsf]; rfl)
        have hb := shapeOf_sound md s hsh
        obtain ⟨cls, hrc, hsingle⟩ := singleFieldOf_some st md f ann hsf
        have h0 := hal st rfl
        cases hsm : shorterModifyMethod st md with
        | error e => rw [hsm] at h0; cases h0
        | ok r0 =>
          rw [hsm] at h0
          have hr0 : r0.2 = md := by rw [← hmo]; simpa [Except.map] using h0
          rcases hkind with ⟨aw, r, d, cls', ht, hret'⟩ | ⟨d, o, a', cls', ht, hret'⟩
          · have hcls : cls' = cls := by simp [returnClassOf, hret'] at hrc; exact hrc
            subst hcls
            have := (shorter_call_iff st r0.1 md r0.2 s aw r d cls' hb ht hret' (by rw [hsm])).2
            rw [hr0] at this
            exact (this.mp rfl) f ann hsingle
          · have hcls : cls' = cls := by simp [returnClassOf, hret'] at hrc; exact hrc
            subst hcls
            have := (shorter_sub_iff st r0.1 md r0.2 s d cls' o a' hb ht hret' (by rw [hsm])).2
            rw [hr0] at this
            exact (this.mp rfl) f ann hsingle
      · obtain ⟨ann', hs', _, _⟩ := nodeAndClass_single st md cls f' node classes hr hn
        rw [hsf] at hs'
        simp only [Option.some.injEq, Prod.mk.injEq] at hs'
        obtain ⟨rfl, _⟩ := hs'
        exact shapeOf_bodyOf md' _ (hrw.body s0 (shapeOf_sound md s0 hs0))
  have hC1methods : ∀ md' ∈ ({ C0 with body := items1 } : ClassDef).methods, ∃ md ∈ C0.methods,
      MethodOutcome st.classDict st.importedTypes st1.extendedImports md md' :=
    fun md' hmd' => ItemsRel.mem_right hout md' hmd'
  refine ⟨?_, ?_, ?_, ?_, F.names_mono, ⟨_, F.firstClass, hper⟩, ?_⟩
  · -- formatOkB
    have h0 := H.fmt0
    unfold formatOkB at h0 ⊢
    rw [List.all_eq_true] at h0 ⊢
    intro t' ht'
    rcases F.tops t' ht' with ⟨i, rfl⟩ | h | rfl
    · rfl
    · exact h0 t' h
    · rfl
  · -- annScopedB
    have h0 := H.ann0
    unfold annScopedB at h0 ⊢
    rw [hfc0] at h0
    rw [F.firstClass]
    simp only [List.all_eq_true, Bool.or_eq_true, List.contains_iff_mem] at h0 ⊢
    intro md' hmd' n hn
    obtain ⟨md, hmd, hmo⟩ := hC1methods md' hmd'
    rcases hmo with rfl | ⟨cls, node, classes, f, hr, hnc, hrw, hcov⟩
    · rcases h0 md' hmd n hn with h | h
      · exact .inl (F.names_mono n h)
      · exact .inr h
    · obtain ⟨ann, hs, hnode, hclasses⟩ := nodeAndClass_single st md cls f node classes hr hnc
      unfold defTimeNames at hn
      rw [hrw.args, hrw.rest] at hn
      simp only [List.mem_append] at hn
      rcases hn with (hn | hn) | hn
      · rcases h0 md hmd n (by unfold defTimeNames; simp only [List.mem_append]; exact .inl (.inl hn)) with h | h
        · exact .inl (F.names_mono n h)
        · exact .inr h
      · rcases h0 md hmd n (by unfold defTimeNames; simp only [List.mem_append]; exact .inl (.inr hn)) with h | h
        · exact .inl (F.names_mono n h)
        · exact .inr h
      · have hnew : n ∈ exNames (newReturns md ann) := by
          unfold newReturns
          rcases hrw.returns with ⟨c0, hm0, hm1⟩ | ⟨a, c0, hm0, hm1⟩
          · rw [hm1] at hn; rw [hm0]; simp only; rw [← hnode]; exact hn
          · rw [hm1] at hn; rw [hm0]; simp only; rw [← hnode]; exact hn
        rcases H.ann md hmd f ann hs n hnew with ⟨hleaf, hah⟩ | h | h
        · exact .inl (F.covered n (hcov n (by rw [hclasses]; exact hleaf) hah))
        · exact .inl (F.names_mono n h)
        · exact .inr h
  · -- wellScopedB
    have h0 := H.well0
    unfold wellScopedB unresolvedNames at h0 ⊢
    simp only [hfc0] at h0
    simp only [F.firstClass]
    rw [List.isEmpty_iff, List.flatMap_eq_nil_iff] at h0 ⊢
    intro md' hmd'
    obtain ⟨md, hmd, hmo⟩ := hC1methods md' hmd'
    have hmd0 := h0 md hmd
    rcases hmo with rfl | ⟨cls, node, classes, f, hr, hnc, hrw, hcov⟩
    · exact runtimeUnresolved_mono M0 M1 md' F.names_mono hmd0
    · obtain ⟨ann, hs, _, _⟩ := nodeAndClass_single st md cls f node classes hr hnc
      obtain ⟨s, hsh, _, _⟩ := H.kind md hmd (by rw [hs]; rfl)
      have hsh' : shapeOf md' = some (shorterShape s f) := shapeOf_bodyOf md' _ (hrw.body s (shapeOf_sound md s hsh))
      have h1 := runtimeUnresolved_mono M0 M1 md F.names_mono hmd0
      unfold runtimeUnresolved at h1 ⊢
      simp only [hsh] at h1
      simp only [hsh', hrw.args]
      have e1 : (shorterShape s f).imports = s.imports := rfl
      have e2 : (shorterShape s f).op = s.op := rfl
      have e3 : (shorterShape s f).retClass = s.retClass := rfl
      have e4 : (shorterShape s f).variables = s.variables := rfl
      have e5 : ∀ c, constValue { client := M1, ops := none } (shorterShape s f) c = constValue { client := M1, ops := none } s c := by
        intro c; rfl
      simp only [e1, e2, e3, e4, e5]
      exact h1
  · -- every relative import finds its module
    intro i' hi' q hq
    rcases F.provenance i' hi' with ⟨i, hi, hm, hl⟩ | ⟨x, hx, rfl⟩
    · rw [relModule_congr i i' hm hl] at hq
      exact H.imp0 i hi q hq
    · unfold relModule at hq
      simp only [bne_self_eq_false, Bool.false_or] at hq
      split at hq
      · rename_i hdot
        simp only [Option.some.injEq] at hq
        rw [dotted_zero] at hq
        subst hq
        have hkey := (hE x hx).1
        rcases List.mem_append.mp hkey with hk | hk
        · obtain ⟨m, hm, hmn⟩ := List.mem_map.mp hk
          have := H.names m hm
          rw [hmn] at this
          rw [this] at hdot
          cases hdot
        · rw [List.mem_filterMap] at hk
          obtain ⟨n, hn, hv⟩ := hk
          exact H.srcs n hn x.1 hv hdot
      · cases hq
  · -- the validated classes resolve as before
    intro md hmd s hs
    apply F.bindings
    intro hc
    exact H.ret md hmd s hs (hadded _ hc)

end Ariadne.C15
