/-
  C14 helper lemmas, part 6: an expression without mutators on class-level objects evaluates, in the
  state right after import, to the tree `evalFresh` describes — up to replacing every reference to a
  class-level object by a copy of that (pristine) object.
-/
import AriadneModel.Proofs.C14Eval

set_option linter.unusedSimpArgs false
set_option linter.unusedVariables false

namespace Ariadne.C14
open Ariadne Ariadne.Builder Ariadne.CustomGen Ariadne.BuilderDoc

mutual
  /-- replace references to class-level objects by copies of the objects -/
  def deref (st : Store) : Node → Node
    | .obj r subs frags => .obj r (derefList st subs) (derefFrags st frags)
    | .ref id => (st[id]?).getD (.ref id)
  def derefList (st : Store) : List Node → List Node
    | [] => []
    | n :: ns => deref st n :: derefList st ns
  def derefFrags (st : Store) : List Frag → List Frag
    | [] => []
    | .mk ty ns :: fs => .mk ty (derefList st ns) :: derefFrags st fs
end

theorem derefList_append (st : Store) : ∀ (a b : List Node), derefList st (a ++ b) = derefList st a ++ derefList st b
  | [], b => by simp [derefList]
  | n :: a, b => by simp [derefList, derefList_append st a b]

theorem derefList_isEmpty (st : Store) : ∀ (a : List Node), (derefList st a).isEmpty = a.isEmpty
  | [] => by simp [derefList]
  | n :: a => by simp [derefList]

theorem derefFrags_isEmpty (st : Store) : ∀ (a : List Frag), (derefFrags st a).isEmpty = a.isEmpty
  | [] => by simp [derefFrags]
  | .mk _ _ :: a => by simp [derefFrags]

theorem derefFrags_set (st : Store) (ty : String) (cs : List Node) : ∀ (fs : List Frag),
    derefFrags st (setFragList ty cs fs) = setFragList ty (derefList st cs) (derefFrags st fs)
  | [] => by simp [setFragList, derefFrags]
  | .mk t ns :: fs => by
    simp only [setFragList, derefFrags]
    split
    · simp [derefFrags]
    · simp [derefFrags, derefFrags_set st ty cs fs]

mutual
  theorem intendedExact_deref {st : Store} (hp : Pristine st) : ∀ (n : Node),
      intendedExact st n = intendedExact [] (deref st n)
    | .obj r subs frags => by
      simp only [deref, intendedExact, intendedExactList_deref hp subs, intendedExactFrags_deref hp frags,
        derefList_isEmpty, derefFrags_isEmpty]
    | .ref id => by
      simp only [deref, intendedExact, intendedRefExact]
      cases hn : st[id]? with
      | none => simp [intendedExact, intendedRefExact]
      | some n =>
        obtain ⟨r, rfl, hv, -⟩ := hp id n hn
        simp [intendedExact, intendedExactList, intendedExactFrags, hv]
  theorem intendedExactList_deref {st : Store} (hp : Pristine st) : ∀ (ns : List Node),
      intendedExactList st ns = intendedExactList [] (derefList st ns)
    | [] => by simp [derefList, intendedExactList]
    | n :: ns => by
      simp only [derefList, intendedExactList, intendedExact_deref hp n, intendedExactList_deref hp ns]
  theorem intendedExactFrags_deref {st : Store} (hp : Pristine st) : ∀ (fs : List Frag),
      intendedExactFrags st fs = intendedExactFrags [] (derefFrags st fs)
    | [] => by simp [derefFrags, intendedExactFrags]
    | .mk ty ns :: fs => by
      simp only [derefFrags, intendedExactFrags, intendedExactList_deref hp ns, intendedExactFrags_deref hp fs]
end

theorem sharedId_get (p : Package) (cls a : String) (id : Nat) (h : p.sharedId cls a = some id) :
    ∃ n, p.initStore[id]? = some n := by
  unfold Package.sharedId at h
  simp only [] at h
  split at h
  · rename_i hlt
    simp at h
    subst h
    have : List.findIdx (fun ca => ca.1 == cls && ca.2.attr == a) p.sharedList < p.initStore.length := by
      simpa [Package.initStore] using hlt
    exact ⟨p.initStore[_]'this, List.getElem?_eq_getElem this⟩
  · simp at h

mutual
  theorem evalExpr_fresh (p : Package) : ∀ (e : Expr) (st' : Store) (n : Node), mutatesShared e = false →
      evalExpr p e p.initStore = (.ok n, st') → evalFresh p e = .ok (deref p.initStore n)
    | .attr cls a, st', n, _, h => by
      simp only [evalExpr] at h
      simp only [evalFresh]
      split at h <;> try (simp at h)
      rename_i c hc
      split at h <;> try (simp at h)
      rename_i acc ha
      split at h <;> try (simp at h)
      rename_i hk
      split at h <;> try (simp at h)
      rename_i id hid
      obtain ⟨rfl, -⟩ := h
      obtain ⟨n0, hn0⟩ := sharedId_get p cls a id hid
      simp [hc, ha, hk, freshOfShared, hid, hn0, deref]
    | .call cls a kw, st', n, _, h => by
      obtain ⟨c, acc, vars, hc, ha, hv, rfl⟩ := evalCall_inv h
      simp only [evalExpr, hc, ha, hv] at h
      simp only [evalFresh, hc, ha, hv]
      split at h <;> try (simp at h)
      rename_i hk
      simp [hk, mkNode, deref, derefList, derefFrags]
    | .alias e al, st', n, hm, h => by
      simp only [mutatesShared, Bool.or_eq_false_iff] at hm
      simp only [evalExpr] at h
      rcases hh : evalExpr p e p.initStore with ⟨r, st1⟩
      rw [hh] at h
      cases r with
      | error x => simp at h
      | ok n0 =>
        obtain ⟨r0, s0, f0, rfl⟩ := (evalExpr_noMut p e _ hm.2).2 hm.1 n0 (by rw [hh])
        have ih := evalExpr_fresh p e st1 _ hm.2 hh
        simp only [mutate_obj, nodeCls] at h
        simp only [evalFresh, ih, deref, ownCls]
        by_cases hc : classHas p (·.hasAlias) (some r0.cls) = true
        · simp [hc] at h
          rw [← h.1]
          simp [hc, setAlias, deref]
        · simp [hc] at h
    | .fields e cs, st', n, hm, h => by
      simp only [mutatesShared, Bool.or_eq_false_iff] at hm
      simp only [evalExpr] at h
      rcases hh : evalExpr p e p.initStore with ⟨r, st1⟩
      rw [hh] at h
      cases r with
      | error x => simp at h
      | ok n0 =>
        obtain ⟨r0, s0, f0, rfl⟩ := (evalExpr_noMut p e _ hm.1.2).2 hm.1.1 n0 (by rw [hh])
        have hst : st1 = p.initStore := by
          have := (evalExpr_noMut p e p.initStore hm.1.2).1
          rw [hh] at this
          exact this
        subst hst
        have ih := evalExpr_fresh p e _ _ hm.1.2 hh
        simp only [nodeCls] at h
        simp only [evalFresh, ih, deref, ownCls]
        by_cases hc : classHas p (·.hasFields) (some r0.cls) = true
        · rcases hl2 : evalList p cs p.initStore with ⟨rl, st2⟩
          rw [hl2] at h
          cases rl with
          | error x => simp [hc] at h
          | ok ns =>
            have ihc := evalList_fresh p cs st2 ns hm.2 hl2
            simp [hc, mutate_obj] at h
            rw [← h.1]
            simp [hc, ihc, extendSubs, deref, derefList_append]
        · simp [hc] at h
    | .on e ty cs, st', n, hm, h => by
      simp only [mutatesShared, Bool.or_eq_false_iff] at hm
      simp only [evalExpr] at h
      rcases hh : evalExpr p e p.initStore with ⟨r, st1⟩
      rw [hh] at h
      cases r with
      | error x => simp at h
      | ok n0 =>
        obtain ⟨r0, s0, f0, rfl⟩ := (evalExpr_noMut p e _ hm.1.2).2 hm.1.1 n0 (by rw [hh])
        have hst : st1 = p.initStore := by
          have := (evalExpr_noMut p e p.initStore hm.1.2).1
          rw [hh] at this
          exact this
        subst hst
        have ih := evalExpr_fresh p e _ _ hm.1.2 hh
        simp only [nodeCls] at h
        simp only [evalFresh, ih, deref, ownCls]
        by_cases hc : classHas p (·.hasOn) (some r0.cls) = true
        · rcases hl2 : evalList p cs p.initStore with ⟨rl, st2⟩
          rw [hl2] at h
          cases rl with
          | error x => simp [hc] at h
          | ok ns =>
            have ihc := evalList_fresh p cs st2 ns hm.2 hl2
            simp [hc, mutate_obj] at h
            rw [← h.1]
            simp [hc, ihc, setFrag, deref, derefFrags_set]
        · simp [hc] at h
  theorem evalList_fresh (p : Package) : ∀ (es : List Expr) (st' : Store) (ns : List Node),
      mutatesSharedList es = false → evalList p es p.initStore = (.ok ns, st') →
      evalFreshList p es = .ok (derefList p.initStore ns)
    | [], st', ns, _, h => by
      simp [evalList] at h
      rw [h.1]
      simp [evalFreshList, derefList]
    | e :: es, st', ns, hm, h => by
      simp only [mutatesSharedList, Bool.or_eq_false_iff] at hm
      simp only [evalList] at h
      rcases hh : evalExpr p e p.initStore with ⟨r, st1⟩
      rw [hh] at h
      cases r with
      | error x => simp at h
      | ok n0 =>
        have hst : st1 = p.initStore := by
          have := (evalExpr_noMut p e p.initStore hm.1).1
          rw [hh] at this
          exact this
        subst hst
        have i1 := evalExpr_fresh p e _ n0 hm.1 hh
        simp only [] at h
        rcases hl2 : evalList p es p.initStore with ⟨rl, st2⟩
        rw [hl2] at h
        cases rl with
        | error x => simp at h
        | ok ns0 =>
          have i2 := evalList_fresh p es st2 ns0 hm.2 hl2
          simp at h
          rw [← h.1]
          simp [evalFreshList, i1, i2, derefList]
end

end Ariadne.C14
