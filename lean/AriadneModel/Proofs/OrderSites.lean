/-
  Proofs/OrderSites.lean — the trigger of finding C10-F2 per CALL SITE: in an operation module only the
  `from .fragments import …` statement receives names from a set; every other import list (enums, scalars,
  typing) is a deterministic list, and a key tie inside one of those does not make the module depend on the
  enumeration.  Core Lean only.
-/
import AriadneModel.Proofs.OrderPkg

set_option linter.unusedSimpArgs false
set_option linter.unusedVariables false

namespace Ariadne.Order
open List Ariadne.Isort

/-- spelling of the fragments module in an import block -/
def fragModStr (fm : String) : String := modStr ⟨1, fm, []⟩

/-- two distinct names tie on isort's key among the names an operation module imports from the fragments module -/
def opSetFedTie (pascal : Name → Name) (fm : String) (g : DefGen) : Bool :=
  nameTie (namesOf (fragModStr fm) (opImports id pascal fm g))

theorem namesOf_append (m : String) (s₁ s₂ : List ImportFrom) : namesOf m (s₁ ++ s₂) = namesOf m s₁ ++ namesOf m s₂ := by
  simp [namesOf, List.filter_append, List.flatMap_append]

theorem opImports_summary_eq (e₁ e₂ : EnumOracle) (he₁ : EnumOK e₁) (he₂ : EnumOK e₂) (pascal : Name → Name) (fm : String)
    (g : DefGen) (keep : Name → Bool) (ht : opSetFedTie pascal fm g = false) :
    summary keep (opImports e₁ pascal fm g) = summary keep (opImports e₂ pascal fm g) := by
  unfold opSetFedTie at ht
  unfold opImports at ht ⊢
  by_cases hmx : g.mixins.isEmpty = true
  · simp only [hmx, if_true]
  · simp only [hmx, if_false, Bool.false_eq_true] at ht ⊢
    have nt := noTie_of_nameTie_false ht
    unfold summary
    have hmods : ∀ e : EnumOracle, (g.imports ++ [(⟨1, fm, (e g.mixins).map pascal⟩ : ImportFrom)]).map modStr
        = g.imports.map modStr ++ [fragModStr fm] := by
      intro e; simp [modStr, fragModStr]
    simp only [hmods]
    apply List.map_congr_left
    intro m _
    congr 1
    simp only [namesOf_append]
    by_cases hm : m = fragModStr fm
    · subst hm
      have hlast : ∀ e : EnumOracle, namesOf (fragModStr fm) [(⟨1, fm, (e g.mixins).map pascal⟩ : ImportFrom)] = (e g.mixins).map pascal := by
        intro e; simp [namesOf, modStr, fragModStr]
      have nt' : NoTie (namesOf (fragModStr fm) g.imports ++ g.mixins.map pascal) := by
        have h0 := hlast id
        simp only [id] at h0 nt
        rw [namesOf_append, h0] at nt
        exact nt
      simp only [hlast]
      have p : (namesOf (fragModStr fm) g.imports ++ (e₁ g.mixins).map pascal).Perm
          (namesOf (fragModStr fm) g.imports ++ (e₂ g.mixins).map pascal) :=
        Perm.append_left _ (((he₁ g.mixins).trans (he₂ g.mixins).symm).map pascal)
      apply isortNames_eq_of_perm _ (p.filter keep)
      apply nt'.subset
      intro a ha
      have ha' := (List.mem_filter.mp ha).1
      exact (Perm.append_left _ ((he₁ g.mixins).map pascal)).mem_iff.mp ha'
    · have hlast : ∀ e : EnumOracle, namesOf m [(⟨1, fm, (e g.mixins).map pascal⟩ : ImportFrom)] = [] := by
        intro e
        have : (modStr (⟨1, fm, (e g.mixins).map pascal⟩ : ImportFrom) == m) = false := by
          simp only [beq_eq_false_iff_ne]
          intro h; exact hm (by rw [← h]; rfl)
        simp [namesOf, this]
      simp only [hlast]

end Ariadne.Order
