/-
  Proofs/C04Ops.lean — invariants of `main.client`'s loop `for query in queries: add_operation(query)`
  (`Package.addOperations`): what is in `_result_types_files`, in the init imports, in the client generator, and in the
  lists the later steps read, after any number of operations.
-/
import AriadneModel.Model.Package
import AriadneModel.Model.PackageTriggers
import AriadneModel.Proofs.C04Steps
import AriadneModel.Proofs.C08Package
import AriadneModel.Proofs.Names

set_option linter.unusedSimpArgs false
set_option linter.unusedVariables false

namespace Ariadne.C04Proofs
open Ariadne Ariadne.Gql Ariadne.Util Ariadne.Package Ariadne.PackageTriggers
open Ariadne.ResultTypes (GenErr pascal)

/-! ### inversion and induction -/

theorem addOperation_ok {cfg : Config} {inp : Input} {fl : Nat} {st st' : St} {o : OpIn} (h : addOperation cfg inp fl st o = .ok st') :
    ∃ n out m argSt, o.op.name = some n ∧ ResultTypes.generate (rtEnv cfg inp) fl (.op o.op) st.marks = .ok out ∧
      ClientMethod.addMethod (argEnv cfg inp) (opType o.op.kind) (some n) o.vars (methodName n) (pascal n) o.text cfg.async st.argSt = .ok (m, argSt) ∧
      st' = { marks := out.st.marks, unpacked := setUnion st.unpacked out.st.unpacked, usedEnums := st.usedEnums ++ out.st.usedEnums,
              files := dictSet st.files (pyFile (methodName n)) (resultModule cfg (pyFile (methodName n)) out),
              init := initAdd st.init out.st.publicNames (methodName n), entries := st.entries ++ [⟨m, methodName n⟩],
              argSt := argSt, outs := st.outs ++ [⟨n, out⟩] } := by
  unfold addOperation at h
  cases hn : o.op.name with
  | none => rw [hn] at h; simp at h
  | some n =>
    rw [hn] at h
    simp only at h
    cases hg : ResultTypes.generate (rtEnv cfg inp) fl (.op o.op) st.marks with
    | error e1 => rw [hg] at h; simp at h
    | ok out =>
      rw [hg] at h
      simp only at h
      cases hm : ClientMethod.addMethod (argEnv cfg inp) (opType o.op.kind) (some n) o.vars (methodName n) (pascal n) o.text cfg.async st.argSt with
      | error e2 => rw [hm] at h; simp at h
      | ok r =>
        rw [hm] at h
        obtain ⟨m, a⟩ := r
        simp only [Except.ok.injEq] at h
        exact ⟨n, out, m, a, rfl, rfl, by rw [hm], h.symm⟩

/-- an invariant of the loop: holds before, kept by every `add_operation` that returns -/
theorem addOperations_inv {cfg : Config} {inp : Input} {fl : Nat} (P : St → Prop)
    (hstep : ∀ st o st', o ∈ inp.ops → P st → addOperation cfg inp fl st o = .ok st' → P st') :
    ∀ (ops : List OpIn), (∀ o ∈ ops, o ∈ inp.ops) → ∀ st st', P st → addOperations cfg inp fl st ops = .ok st' → P st'
  | [], _, st, st', h0, h => by simp [addOperations] at h; subst h; exact h0
  | o :: rest, hsub, st, st', h0, h => by
    simp only [addOperations] at h
    cases ha : addOperation cfg inp fl st o with
    | error e1 => rw [ha] at h; simp at h
    | ok st1 =>
      rw [ha] at h
      exact addOperations_inv P hstep rest (fun x hx => hsub x (List.mem_cons_of_mem _ hx)) st1 st'
        (hstep st o st1 (hsub o List.mem_cons_self) h0 ha) h

/-! ### the module names of operations are never written with a leading dot -/

theorem word_methodName (n : Names.Name) : Names.Word (Names.processName Names.operationCfg n) := by
  unfold Names.processName Names.processNameH
  simp only [Names.operationCfg, if_true, Bool.false_eq_true, if_false, Names.suffixRes, false_and, id]
  split
  · decide
  · unfold Names.suffixKw
    split
    · exact (Names.word_append_underscore _).mpr (Names.word_snake n)
    · exact Names.word_snake n

theorem methodName_head (n : String) : ((methodName n).toList.head? == some '.') = false := by
  unfold methodName
  have hw : Names.Word (Names.pyName true .operation n.toList) := word_methodName n.toList
  generalize Names.pyName true .operation n.toList = w at hw
  cases w with
  | nil => simp
  | cons c cs =>
    have hc := hw c List.mem_cons_self
    have : c ≠ '.' := by
      intro e
      subst e
      revert hc
      decide
    simp [this]

/-! ### what `add_operation` leaves behind -/

/-- the package generator's state, described through the generators that ran (`outs`) -/
structure OpsInv (cfg : Config) (inp : Input) (fl : Nat) (st : St) : Prop where
  /-- every stored module is the module of some operation, under its own file name -/
  files : ∀ fm ∈ st.files, ∃ g ∈ st.outs, fm.1 = pyFile (methodName g.name) ∧ fm.2 = resultModule cfg fm.1 g.out
  /-- every operation has a key in the dict -/
  keys : ∀ g ∈ st.outs, ∃ fm ∈ st.files, fm.1 = pyFile (methodName g.name)
  /-- what `__init__` was told: one import per operation with public names -/
  init : ∀ i ∈ st.init, ∃ g ∈ st.outs, i = ⟨1, methodName g.name, g.out.st.publicNames⟩
  initHas : ∀ g ∈ st.outs, g.out.st.publicNames ≠ [] → (⟨1, methodName g.name, g.out.st.publicNames⟩ : Import) ∈ st.init
  /-- every generator ran on an operation of the input -/
  gens : ∀ g ∈ st.outs, ∃ o ∈ inp.ops, ∃ marks, o.op.name = some g.name ∧
    ResultTypes.generate (rtEnv cfg inp) fl (.op o.op) marks = .ok g.out
  usedEnums : st.usedEnums = st.outs.flatMap (·.out.st.usedEnums)
  /-- the client generator's entries: module and return type of the operation they came from -/
  entries : ∀ e ∈ st.entries, ∃ g ∈ st.outs, e.module = methodName g.name ∧ e.method.returnType = pascal g.name

theorem opsInv_nil (cfg : Config) (inp : Input) (fl : Nat) : OpsInv cfg inp fl {} :=
  ⟨fun _ h => (by cases h), fun _ h => (by cases h), fun _ h => (by cases h), fun _ h => (by cases h), fun _ h => (by cases h), rfl,
   fun _ h => (by cases h)⟩

theorem addMethod_returnType {env : Arguments.Env} {ot : ClientMethod.OpType} {on : Option String} {defs : List Arguments.VarDef}
    {name rt text : String} {async : Bool} {st st' : Arguments.St} {m : ClientMethod.Method}
    (h : ClientMethod.addMethod env ot on defs name rt text async st = .ok (m, st')) : m.returnType = rt ∧ m.name = name := by
  unfold ClientMethod.addMethod at h
  cases hg : Arguments.generate env defs st with
  | error e => rw [hg] at h; simp at h
  | ok r =>
    obtain ⟨out, s1⟩ := r
    rw [hg] at h
    simp only at h
    cases ot with
    | subscription =>
      simp only at h
      split at h
      · simp only [Except.ok.injEq, Prod.mk.injEq] at h
        rw [← h.1]; exact ⟨rfl, rfl⟩
      · cases h
    | query =>
      simp only [Except.ok.injEq, Prod.mk.injEq] at h
      rw [← h.1]; exact ⟨rfl, rfl⟩
    | mutation =>
      simp only [Except.ok.injEq, Prod.mk.injEq] at h
      rw [← h.1]; exact ⟨rfl, rfl⟩

theorem opsInv_step {cfg : Config} {inp : Input} {fl : Nat} {st st' : St} {o : OpIn} (ho : o ∈ inp.ops)
    (hI : OpsInv cfg inp fl st) (h : addOperation cfg inp fl st o = .ok st') : OpsInv cfg inp fl st' := by
  obtain ⟨n, out, m, argSt, hn, hg, hm, rfl⟩ := addOperation_ok h
  have hnew : (⟨n, out⟩ : Fragments.DefGen) ∈ st.outs ++ [⟨n, out⟩] := by simp
  refine ⟨?_, ?_, ?_, ?_, ?_, ?_, ?_⟩
  · intro fm hfm
    rcases mem_dictSet hfm with rfl | hfm
    · exact ⟨⟨n, out⟩, hnew, rfl, rfl⟩
    · obtain ⟨g, hg', h1, h2⟩ := hI.files fm hfm
      exact ⟨g, List.mem_append_left _ hg', h1, h2⟩
  · intro g hgm
    have hkeys : ∀ (d : List (String × ModuleIR)) (k : String) (v : ModuleIR), ∃ fm ∈ dictSet d k v, fm.1 = k := by
      intro d k v
      induction d with
      | nil => exact ⟨(k, v), by simp [dictSet], rfl⟩
      | cons a d ih =>
        obtain ⟨k', v'⟩ := a
        simp only [dictSet]
        split
        · exact ⟨(k, v), by simp, rfl⟩
        · obtain ⟨fm, hfm, e⟩ := ih
          exact ⟨fm, List.mem_cons_of_mem _ hfm, e⟩
    have hkeep : ∀ (d : List (String × ModuleIR)) (k : String) (v : ModuleIR) (k0 : String), (∃ fm ∈ d, fm.1 = k0) → ∃ fm ∈ dictSet d k v, fm.1 = k0 := by
      intro d k v k0
      induction d with
      | nil => rintro ⟨fm, hfm, _⟩; cases hfm
      | cons a d ih =>
        obtain ⟨k', v'⟩ := a
        rintro ⟨fm, hfm, e⟩
        simp only [dictSet]
        split
        · rename_i hk
          rcases List.mem_cons.mp hfm with rfl | hfm
          · have : k' = k := by simpa using hk
            exact ⟨(k, v), by simp, by rw [← e]; exact this.symm⟩
          · exact ⟨fm, List.mem_cons_of_mem _ hfm, e⟩
        · rcases List.mem_cons.mp hfm with rfl | hfm
          · exact ⟨(k', v'), by simp, e⟩
          · obtain ⟨fm', hfm', e'⟩ := ih ⟨fm, hfm, e⟩
            exact ⟨fm', List.mem_cons_of_mem _ hfm', e'⟩
    rcases List.mem_append.mp hgm with hgm | hgm
    · exact hkeep _ _ _ _ (hI.keys g hgm)
    · have : g = ⟨n, out⟩ := by simpa using hgm
      subst this
      exact hkeys _ _ _
  · intro i hi
    unfold initAdd at hi
    split at hi
    · obtain ⟨g, hg', e⟩ := hI.init i hi
      exact ⟨g, List.mem_append_left _ hg', e⟩
    · rcases List.mem_append.mp hi with hi | hi
      · obtain ⟨g, hg', e⟩ := hI.init i hi
        exact ⟨g, List.mem_append_left _ hg', e⟩
      · have : i = ⟨1, methodName n, out.st.publicNames⟩ := by simpa using hi
        exact ⟨⟨n, out⟩, hnew, this⟩
  · intro g hgm hne
    unfold initAdd
    rcases List.mem_append.mp hgm with hgm | hgm
    · have := hI.initHas g hgm hne
      split
      · exact this
      · exact List.mem_append_left _ this
    · have : g = ⟨n, out⟩ := by simpa using hgm
      subst this
      have : out.st.publicNames.isEmpty = false := by
        cases hp : out.st.publicNames with
        | nil => exact absurd hp hne
        | cons _ _ => rfl
      simp [this]
  · intro g hgm
    rcases List.mem_append.mp hgm with hgm | hgm
    · exact hI.gens g hgm
    · have : g = ⟨n, out⟩ := by simpa using hgm
      subst this
      exact ⟨o, ho, st.marks, hn, hg⟩
  · simp [hI.usedEnums]
  · intro e he
    rcases List.mem_append.mp he with he | he
    · obtain ⟨g, hg', h1, h2⟩ := hI.entries e he
      exact ⟨g, List.mem_append_left _ hg', h1, h2⟩
    · have : e = ⟨m, methodName n⟩ := by simpa using he
      subst this
      exact ⟨⟨n, out⟩, hnew, rfl, (addMethod_returnType hm).1⟩

theorem opsInv_of {cfg : Config} {inp : Input} {fl : Nat} {st : St} (h : addOperations cfg inp fl {} inp.ops = .ok st) :
    OpsInv cfg inp fl st :=
  addOperations_inv (OpsInv cfg inp fl) (fun st o st' ho hI hs => opsInv_step ho hI hs) inp.ops (fun _ h => h) {} st
    (opsInv_nil cfg inp fl) h

/-! ### the bridge to C08's view of the same loop -/

theorem addOperations_bridge {cfg : Config} {inp : Input} {fl : Nat} :
    ∀ (ops : List OpIn) (st st' : St) (acc : Fragments.OpsOut), acc.ops = st.outs → acc.unpacked = st.unpacked → acc.marks = st.marks →
      addOperations cfg inp fl st ops = .ok st' →
      ∃ acc', Fragments.addOperationsFrom (rtEnv cfg inp) fl acc (ops.map (·.op)) = .ok acc' ∧
        acc'.ops = st'.outs ∧ acc'.unpacked = st'.unpacked ∧ acc'.marks = st'.marks
  | [], st, st', acc, h1, h2, h3, h => by
    simp [addOperations] at h
    subst h
    exact ⟨acc, rfl, h1, h2, h3⟩
  | o :: rest, st, st', acc, h1, h2, h3, h => by
    simp only [addOperations] at h
    cases ha : addOperation cfg inp fl st o with
    | error e1 => rw [ha] at h; simp at h
    | ok st1 =>
      rw [ha] at h
      obtain ⟨n, out, m, argSt, hn, hg, hm, rfl⟩ := addOperation_ok ha
      have hstep : Fragments.addOperation (rtEnv cfg inp) fl acc o.op =
          .ok { ops := acc.ops ++ [⟨n, out⟩], unpacked := setUnion acc.unpacked out.st.unpacked, marks := out.st.marks } := by
        unfold Fragments.addOperation
        rw [hn]
        simp only
        rw [h3, hg]
      have h' : addOperations cfg inp fl
          { marks := out.st.marks, unpacked := setUnion st.unpacked out.st.unpacked, usedEnums := st.usedEnums ++ out.st.usedEnums,
            files := dictSet st.files (pyFile (methodName n)) (resultModule cfg (pyFile (methodName n)) out),
            init := initAdd st.init out.st.publicNames (methodName n), entries := st.entries ++ [⟨m, methodName n⟩],
            argSt := argSt, outs := st.outs ++ [⟨n, out⟩] } rest = .ok st' := h
      obtain ⟨acc', hacc', r1, r2, r3⟩ := addOperations_bridge rest _ st'
        { ops := acc.ops ++ [⟨n, out⟩], unpacked := setUnion acc.unpacked out.st.unpacked, marks := out.st.marks }
        (by simp [h1]) (by simp [h2]) rfl h'
      refine ⟨acc', ?_, r1, r2, r3⟩
      simp only [List.map_cons, Fragments.addOperationsFrom, hstep]
      exact hacc'

end Ariadne.C04Proofs
