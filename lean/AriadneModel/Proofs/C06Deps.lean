/-
  Lemmas for C06 about the module around the classes (`Model/InputDeps.lean`): `generate` is total,
  every enum an emitted class is typed with is imported, every input class an emitted class refers
  to is emitted, and a default expression mentions only `<field_type>.<enum literal of the default>`.
  The DFS facts are C09's (`Proofs/Prune.lean`), instantiated with the table computed from the
  definitions.
-/
import AriadneModel.Model.InputDeps
import AriadneModel.Proofs.Prune
import AriadneModel.Proofs.C06Source

set_option linter.unusedSimpArgs false
set_option linter.unusedVariables false

namespace Ariadne.C06Deps
open Ariadne
open Ariadne.InputGen (TypeRef Lit PyExpr InputField TypeDef Mode constValue constValues constFields)
open Ariadne.InputField Ariadne.InputSource Ariadne.InputDeps

/-! ### `field_type` -/

/-- the second component of `parse_input_field_type`, by what the named type is -/
def ftOf (kinds : String → Kind) (n : String) : Option String :=
  match kinds n with
  | .builtin _ => some ""
  | .any => some ""
  | .custom _ _ => some n
  | .input => some n
  | .enum => some n
  | .composite => none
  | .unknown => none

theorem annOf_ft (kinds : String → Kind) : ∀ (t : TypeRef) (nl : Bool) (a : Ann) (ft : String),
    annOf kinds t nl = some (a, ft) → ftOf kinds t.base = some ft
  | .named n, nl, a, ft, h => by
    unfold annOf at h
    unfold ftOf
    simp only [TypeRef.base]
    split at h <;> simp_all
  | .list t, nl, a, ft, h => by
    unfold annOf at h
    cases hr : annOf kinds t nl with
    | none => simp [hr] at h
    | some p =>
      obtain ⟨a', ft'⟩ := p
      simp only [hr, Option.some.injEq, Prod.mk.injEq] at h
      obtain ⟨_, rfl⟩ := h
      exact annOf_ft kinds t nl a' ft' hr
  | .nonNull t, nl, a, ft, h => by
    unfold annOf at h
    exact annOf_ft kinds t false a ft h

/-- `parse_input_field_type` raises only for a type that is not an input type -/
theorem annOf_total (kinds : String → Kind) : ∀ (t : TypeRef) (nl : Bool) (ft : String),
    ftOf kinds t.base = some ft → ∃ a, annOf kinds t nl = some (a, ft)
  | .named n, nl, ft, h => by
    unfold ftOf at h
    simp only [TypeRef.base] at h
    unfold annOf
    cases hk : kinds n with
    | builtin py => simp [hk] at h; subst h; exact ⟨_, rfl⟩
    | any => simp [hk] at h; subst h; exact ⟨_, rfl⟩
    | custom ty ser => simp [hk] at h; subst h; cases ser <;> exact ⟨_, rfl⟩
    | input => simp [hk] at h; subst h; exact ⟨_, rfl⟩
    | enum => simp [hk] at h; subst h; exact ⟨_, rfl⟩
    | composite => simp [hk] at h
    | unknown => simp [hk] at h
  | .list t, nl, ft, h => by
    obtain ⟨a, ha⟩ := annOf_total kinds t nl ft h
    exact ⟨_, by unfold annOf; rw [ha]⟩
  | .nonNull t, nl, ft, h => by
    obtain ⟨a, ha⟩ := annOf_total kinds t false ft h
    exact ⟨a, by unfold annOf; exact ha⟩

/-- the annotation below its `Optional[...]` / `List[...]` wrappers -/
def annLeaf : Ann → Ann
  | .optional a => annLeaf a
  | .list a => annLeaf a
  | a => a

theorem annLeaf_wrap (nl : Bool) (a : Ann) : annLeaf (wrapNullable nl a) = annLeaf a := by
  cases nl <;> rfl

/-- the class body names an enum / an input class exactly by the GraphQL name of the field's named type -/
theorem annOf_leaf (kinds : String → Kind) : ∀ (t : TypeRef) (nl : Bool) (a : Ann) (ft : String),
    annOf kinds t nl = some (a, ft) →
      (kinds t.base = .enum → annLeaf a = .name t.base) ∧ (kinds t.base = .input → annLeaf a = .fwd t.base)
  | .named n, nl, a, ft, h => by
    unfold annOf at h
    simp only [TypeRef.base]
    split at h <;> simp only [Option.some.injEq, Prod.mk.injEq, reduceCtorEq] at h <;>
      (try obtain ⟨rfl, rfl⟩ := h) <;> simp_all [annLeaf_wrap, annLeaf]
  | .list t, nl, a, ft, h => by
    unfold annOf at h
    cases hr : annOf kinds t nl with
    | none => simp [hr] at h
    | some p =>
      obtain ⟨a', ft'⟩ := p
      simp only [hr, Option.some.injEq, Prod.mk.injEq] at h
      obtain ⟨rfl, rfl⟩ := h
      have := annOf_leaf kinds t nl a' ft' hr
      simpa [annLeaf_wrap, annLeaf, TypeRef.base] using this
  | .nonNull t, nl, a, ft, h => by
    unfold annOf at h
    exact annOf_leaf kinds t false a ft h

/-! ### what one field records -/

theorem fieldRef_enum (kinds : String → Kind) (f : InputField) (hk : kinds f.type.base = .enum) (hne : f.type.base ≠ "") :
    fieldRef kinds f = some (.enum f.type.base) := by
  have hft : ftOf kinds f.type.base = some f.type.base := by simp [ftOf, hk]
  obtain ⟨a, ha⟩ := annOf_total kinds f.type true _ hft
  simp [fieldRef, ha, refOf, hne, hk]

theorem fieldRef_input (kinds : String → Kind) (f : InputField) (hk : kinds f.type.base = .input) (hne : f.type.base ≠ "") :
    fieldRef kinds f = some (.input f.type.base) := by
  have hft : ftOf kinds f.type.base = some f.type.base := by simp [ftOf, hk]
  obtain ⟨a, ha⟩ := annOf_total kinds f.type true _ hft
  simp [fieldRef, ha, refOf, hne, hk]

/-! ### the table -/

theorem mem_tableOf (m : Mode) (cfg : Cfg) (defs : List TypeDef) (n : String) (fs : List InputField)
    (hd : TypeDef.input n fs ∈ defs) :
    ({ name := n, fields := (InputGen.visibleFields m fs).filterMap (fieldRef (kindOf cfg defs)) } : Prune.InputDef)
      ∈ tableOf m cfg defs := by
  unfold tableOf
  exact List.mem_filterMap.mpr ⟨_, hd, rfl⟩

theorem mem_classesSrc (m : Mode) (cfg : Cfg) (defs : List TypeDef) (n : String) (fs : List InputField)
    (hd : TypeDef.input n fs ∈ defs) :
    genClassSrc m cfg (kindOf cfg defs) n fs ∈ classesSrc m cfg defs := by
  unfold classesSrc
  exact List.mem_filterMap.mpr ⟨_, hd, rfl⟩

/-- a name `parse_input_field_type` treats as an input object is an input type of the schema -/
theorem kindOf_input (cfg : Cfg) (defs : List TypeDef) (n : String) (h : kindOf cfg defs n = .input) :
    ∃ fs, TypeDef.input n fs ∈ defs := by
  unfold kindOf at h
  cases hf : InputGen.findDef defs n with
  | none =>
    simp only [hf] at h
    split at h
    · unfold scalarKind at h
      split at h
      · simp at h
      · split at h <;> simp at h
    · simp at h
  | some d =>
    simp only [hf] at h
    unfold InputGen.findDef at hf
    have hmem := List.mem_of_find?_eq_some hf
    have hname := List.find?_some hf
    cases d with
    | input n' fs =>
      have : n' = n := by simpa [TypeDef.name] using hname
      subst this
      exact ⟨fs, hmem⟩
    | enum n' vs => simp at h
    | composite n' => simp at h
    | scalar n' =>
      simp only at h
      unfold scalarKind at h
      split at h
      · simp at h
      · split at h <;> simp at h

/-! ### `generate` -/

theorem generate_some (m : Mode) (cfg : Cfg) (defs : List TypeDef) (roots : Option (List String)) (mod : Module)
    (h : generate m cfg defs roots = some mod) :
    ∃ cds, Prune.filterInputDefs (tableOf m cfg defs) roots = some cds ∧
      mod.classes = (classesSrc m cfg defs).filter (fun c => (cds.map (·.name)).contains c.name) ∧
      mod.enumImport = Prune.inputsUsedEnums (tableOf m cfg defs) (cds.map (·.name)) := by
  unfold generate at h
  cases hf : Prune.filterInputDefs (tableOf m cfg defs) roots with
  | none => simp [hf] at h
  | some cds =>
    simp only [hf, Option.some.injEq] at h
    subst h
    exact ⟨cds, rfl, rfl, rfl⟩

theorem filterInputDefs_total (tbl : List Prune.InputDef) (roots : Option (List String)) :
    ∃ cds, Prune.filterInputDefs tbl roots = some cds := by
  cases roots with
  | none => exact ⟨tbl, rfl⟩
  | some rs =>
    obtain ⟨l, hl, _⟩ := Prune.typesNames_spec tbl rs
    exact ⟨tbl.filter (fun c => decide (c.name ∈ l)), by simp [Prune.filterInputDefs, hl]⟩

/-- the fuelled DFS never runs dry: `generate(types_to_include)` answers for every schema, source and list of roots -/
theorem generate_total (m : Mode) (cfg : Cfg) (defs : List TypeDef) (roots : Option (List String)) :
    ∃ mod, generate m cfg defs roots = some mod := by
  obtain ⟨cds, h⟩ := filterInputDefs_total (tableOf m cfg defs) roots
  exact ⟨⟨(classesSrc m cfg defs).filter (fun c => (cds.map (·.name)).contains c.name),
    Prune.inputsUsedEnums (tableOf m cfg defs) (cds.map (·.name))⟩, by simp only [generate, h]⟩

theorem emitted_name_kept {m : Mode} {cfg : Cfg} {defs : List TypeDef} {cds : List Prune.InputDef} {mod : Module}
    (hc : mod.classes = (classesSrc m cfg defs).filter (fun c => (cds.map (·.name)).contains c.name))
    (n : String) (hn : n ∈ mod.classes.map (·.name)) : n ∈ cds.map (·.name) := by
  rw [hc] at hn
  obtain ⟨c, hcm, rfl⟩ := List.mem_map.mp hn
  have := (List.mem_filter.mp hcm).2
  simpa using this

theorem kept_name_emitted {m : Mode} {cfg : Cfg} {defs : List TypeDef} {cds : List Prune.InputDef} {mod : Module}
    (hc : mod.classes = (classesSrc m cfg defs).filter (fun c => (cds.map (·.name)).contains c.name))
    (n : String) (fs : List InputField) (hd : TypeDef.input n fs ∈ defs) (hn : n ∈ cds.map (·.name)) :
    n ∈ mod.classes.map (·.name) := by
  rw [hc]
  refine List.mem_map.mpr ⟨genClassSrc m cfg (kindOf cfg defs) n fs, List.mem_filter.mpr ⟨mem_classesSrc m cfg defs n fs hd, ?_⟩, rfl⟩
  simpa [genClassSrc] using hn

/-- every enum an emitted class is typed with is in `from .enums import …` -/
theorem used_enum_imported (m : Mode) (cfg : Cfg) (defs : List TypeDef) (roots : Option (List String)) (mod : Module)
    (h : generate m cfg defs roots = some mod)
    (n : String) (fs : List InputField) (hd : TypeDef.input n fs ∈ defs) (hn : n ∈ mod.classes.map (·.name))
    (f : InputField) (hf : f ∈ InputGen.visibleFields m fs)
    (hk : kindOf cfg defs f.type.base = .enum) (hne : f.type.base ≠ "") :
    f.type.base ∈ mod.enumImport := by
  obtain ⟨cds, _, hc, he⟩ := generate_some m cfg defs roots mod h
  have hkept := emitted_name_kept hc n hn
  rw [he]
  unfold Prune.inputsUsedEnums
  refine List.mem_flatMap.mpr ⟨n, hkept, ?_⟩
  rw [Prune.mem_usedEnumsOf]
  refine ⟨_, mem_tableOf m cfg defs n fs hd, rfl, ?_⟩
  unfold Prune.enumRefs
  refine List.mem_filterMap.mpr ⟨.enum f.type.base, ?_, rfl⟩
  exact List.mem_filterMap.mpr ⟨f, hf, fieldRef_enum _ f hk hne⟩

/-- every input class an emitted class refers to is emitted (the selection is closed under the
    references of the class bodies) -/
theorem dependency_emitted (m : Mode) (cfg : Cfg) (defs : List TypeDef) (roots : Option (List String)) (mod : Module)
    (h : generate m cfg defs roots = some mod)
    (n : String) (fs : List InputField) (hd : TypeDef.input n fs ∈ defs) (hn : n ∈ mod.classes.map (·.name))
    (f : InputField) (hf : f ∈ InputGen.visibleFields m fs)
    (hk : kindOf cfg defs f.type.base = .input) (hne : f.type.base ≠ "") :
    f.type.base ∈ mod.classes.map (·.name) := by
  obtain ⟨cds, hfil, hc, _⟩ := generate_some m cfg defs roots mod h
  have hkept := emitted_name_kept hc n hn
  obtain ⟨fs', hd'⟩ := kindOf_input cfg defs _ hk
  refine kept_name_emitted hc _ fs' hd' ?_
  have hbt := mem_tableOf m cfg defs _ fs' hd'
  cases roots with
  | none =>
    simp only [Prune.filterInputDefs, Option.some.injEq] at hfil
    subst hfil
    exact List.mem_map.mpr ⟨_, hbt, rfl⟩
  | some rs =>
    obtain ⟨ns, hns, hspec⟩ := Prune.typesNames_spec (tableOf m cfg defs) rs
    simp only [Prune.filterInputDefs, hns, Option.map_some, Option.some.injEq] at hfil
    subst hfil
    obtain ⟨c, hcm, hcn⟩ := List.mem_map.mp hkept
    have hnin : n ∈ ns := by
      have := (List.mem_filter.mp hcm).2
      rw [← hcn]
      simpa using this
    obtain ⟨r, hr, hreach⟩ := (hspec n).mp hnin
    have hdep : f.type.base ∈ Prune.depsOf (tableOf m cfg defs) n := by
      rw [Prune.mem_depsOf]
      refine ⟨_, mem_tableOf m cfg defs n fs hd, rfl, ?_⟩
      unfold Prune.inputRefs
      refine List.mem_filterMap.mpr ⟨.input f.type.base, ?_, rfl⟩
      exact List.mem_filterMap.mpr ⟨f, hf, fieldRef_input _ f hk hne⟩
    have hbin : f.type.base ∈ ns := (hspec _).mpr ⟨r, hr, .tail hreach hdep⟩
    refine List.mem_map.mpr ⟨_, List.mem_filter.mpr ⟨hbt, ?_⟩, rfl⟩
    simpa using hbin

/-! ### the names a default expression mentions -/

mutual
  theorem exprNames_constValue (ft : String) : ∀ (l : Lit) (nl no : Bool),
      exprNames (constValue ft l nl no) = (litEnums l).map (fun v => ft ++ "." ++ v)
    | .int _, _, _ => by simp [constValue, exprNames, litEnums]
    | .float _, _, _ => by simp [constValue, exprNames, litEnums]
    | .str _, _, _ => by simp [constValue, exprNames, litEnums]
    | .bool _, _, _ => by simp [constValue, exprNames, litEnums]
    | .null, _, _ => by simp [constValue, exprNames, litEnums]
    | .enum v, _, _ => by simp [constValue, exprNames, litEnums]
    | .list xs, nl, no => by
      have := exprNames_constValues ft xs no
      cases nl <;> simp [constValue, exprNames, litEnums, this]
    | .obj kvs, nl, no => by
      have := exprNames_constFields ft kvs
      cases no <;> simp [constValue, exprNames, litEnums, this]
  theorem exprNames_constValues (ft : String) : ∀ (xs : List Lit) (no : Bool),
      exprNamesL (constValues ft xs no) = (litEnumsL xs).map (fun v => ft ++ "." ++ v)
    | [], _ => by simp [constValues, exprNamesL, litEnumsL]
    | x :: xs, no => by
      simp [constValues, exprNamesL, litEnumsL, exprNames_constValue ft x true no, exprNames_constValues ft xs no]
  theorem exprNames_constFields (ft : String) : ∀ (kvs : List (String × Lit)),
      exprNamesKv (constFields ft kvs) = (litEnumsKv kvs).map (fun v => ft ++ "." ++ v)
    | [] => by simp [constFields, exprNamesKv, litEnumsKv]
    | (k, v) :: rest => by
      simp [constFields, exprNamesKv, litEnumsKv, exprNames_constValue ft v true true, exprNames_constFields ft rest]
end

/-- the names in the default of a generated field: `<field_type>.<v>` for the enum literals `v` of
    the schema default, nothing else (and none at all on the introspection path) -/
theorem fieldDefault_names (m : Mode) (ft : String) (f : InputField) (e : PyExpr)
    (h : InputGen.fieldDefault m ft f = some e) (s : String) (hs : s ∈ exprNames e) :
    m = .sdl ∧ ∃ lit, f.default = some lit ∧ ∃ v ∈ litEnums lit, s = ft ++ "." ++ v := by
  cases m with
  | intro b =>
    rw [C06Source.fieldDefault_intro] at h
    split at h
    · simp at h
    · simp only [Option.some.injEq] at h; subst h; simp [exprNames] at hs
  | sdl =>
    unfold InputGen.fieldDefault at h
    cases hd : f.default with
    | none =>
      simp only [hd] at h
      split at h
      · simp only [Option.some.injEq] at h; subst h; simp [exprNames] at hs
      · simp at h
    | some lit =>
      simp only [hd, Option.some.injEq] at h
      subst h
      rw [exprNames_constValue] at hs
      obtain ⟨v, hv, rfl⟩ := List.mem_map.mp hs
      exact ⟨rfl, lit, rfl, v, hv, rfl⟩

/-! ### a valid default of an enum-typed field mentions values of that enum only -/

open Ariadne.CoerceInput in
theorem litBuiltin_nonscalar (n : String) (l : Lit) (r : Except CErr J) (h : litBuiltin n l = some r)
    (hl : (∃ x, l = .enum x) ∨ (∃ xs, l = .list xs) ∨ (∃ kvs, l = .obj kvs)) : ∃ e, r = .error e := by
  rcases hl with ⟨x, rfl⟩ | ⟨xs, rfl⟩ | ⟨kvs, rfl⟩ <;>
    (simp only [litBuiltin] at h; repeat' split at h) <;> simp at h <;> exact ⟨_, h.symm⟩

open Ariadne.CoerceInput in
/-- a literal accepted at an enum-typed leaf is a value of that enum -/
theorem litLeaf_enum (s : CSchema) (n : String) (vals : List String) (hs : s.find? n = some (.enum n vals))
    (l : Lit) (d : J) (h : litLeaf s n l = .ok d) : ∀ v ∈ litEnums l, v ∈ vals := by
  intro v hv
  unfold litLeaf at h
  cases l with
  | enum x =>
    simp only [litEnums, List.mem_singleton] at hv
    subst hv
    cases hb : litBuiltin n (.enum v) with
    | some r =>
      obtain ⟨e, rfl⟩ := litBuiltin_nonscalar n _ r hb (.inl ⟨v, rfl⟩)
      simp [hb] at h
    | none =>
      simp only [hb, hs] at h
      split at h
      · next hc => simpa using hc
      · simp at h
  | list xs =>
    cases hb : litBuiltin n (.list xs) with
    | some r =>
      obtain ⟨e, rfl⟩ := litBuiltin_nonscalar n _ r hb (.inr (.inl ⟨xs, rfl⟩))
      simp [hb] at h
    | none => simp [hb, hs] at h
  | obj kvs =>
    cases hb : litBuiltin n (.obj kvs) with
    | some r =>
      obtain ⟨e, rfl⟩ := litBuiltin_nonscalar n _ r hb (.inr (.inr ⟨kvs, rfl⟩))
      simp [hb] at h
    | none => simp [hb, hs] at h
  | int _ => simp [litEnums] at hv
  | float _ => simp [litEnums] at hv
  | str _ => simp [litEnums] at hv
  | bool _ => simp [litEnums] at hv
  | null => simp [litEnums] at hv

open Ariadne.CoerceInput in
theorem nestE_ok (k : Nat) (r : Except CErr J) (d : J) (h : nestE k r = .ok d) : ∃ d', r = .ok d' := by
  cases r with
  | ok d' => exact ⟨d', rfl⟩
  | error e => simp [nestE] at h

theorem unNN_base (t : TypeRef) : (CoerceInput.unNN t).base = t.base := by
  induction t with
  | named n => rfl
  | list t _ => rfl
  | nonNull t ih => simpa [CoerceInput.unNN, TypeRef.base] using ih

open Ariadne.CoerceInput in
mutual
  /-- `value_from_ast` accepts at an enum type only literals whose enum names are values of that enum -/
  theorem coerceLit_enums (s : CSchema) (n : String) (vals : List String) (hs : s.find? n = some (.enum n vals)) :
      ∀ (l : Lit) (t : TypeRef) (d : J), t.base = n → coerceLit s t l = .ok d → ∀ v ∈ litEnums l, v ∈ vals
    | .null, _, _, _, _ => by simp [litEnums]
    | .int _, _, _, _, _ => by simp [litEnums]
    | .float _, _, _, _, _ => by simp [litEnums]
    | .str _, _, _, _, _ => by simp [litEnums]
    | .bool _, _, _, _, _ => by simp [litEnums]
    | .enum x, t, d, hb, h => by
      unfold coerceLit at h
      obtain ⟨d', hd'⟩ := nestE_ok _ _ _ h
      rw [hb] at hd'
      exact litLeaf_enum s n vals hs _ d' hd'
    | .obj kvs, t, d, hb, h => by
      unfold coerceLit at h
      obtain ⟨d', hd'⟩ := nestE_ok _ _ _ h
      rw [hb, hs] at hd'
      exact litLeaf_enum s n vals hs _ d' hd'
    | .list xs, t, d, hb, h => by
      unfold coerceLit at h
      have hub := unNN_base t
      cases hu : CoerceInput.unNN t with
      | list it =>
        simp only [hu] at h
        cases hr : coerceLits s it xs with
        | error e => simp [hr] at h
        | ok ys =>
          have hib : it.base = n := by rw [hu] at hub; simpa [TypeRef.base, hb] using hub
          simpa [litEnums] using coerceLits_enums s n vals hs xs it ys hib hr
      | named m =>
        simp only [hu] at h
        have hm : m = n := by rw [hu] at hub; simpa [TypeRef.base, hb] using hub
        subst hm
        exact litLeaf_enum s m vals hs _ d h
      | nonNull t' => simp [hu] at h
  theorem coerceLits_enums (s : CSchema) (n : String) (vals : List String) (hs : s.find? n = some (.enum n vals)) :
      ∀ (xs : List Lit) (t : TypeRef) (ds : List J), t.base = n → coerceLits s t xs = .ok ds → ∀ v ∈ litEnumsL xs, v ∈ vals
    | [], _, _, _, _ => by simp [litEnumsL]
    | x :: xs, t, ds, hb, h => by
      unfold coerceLits at h
      cases hx : coerceLit s t x with
      | error e => simp [hx] at h
      | ok y =>
        simp only [hx] at h
        cases hr : coerceLits s t xs with
        | error e => simp [hr] at h
        | ok ys =>
          intro v hv
          simp only [litEnumsL, List.mem_append] at hv
          rcases hv with hv | hv
          · exact coerceLit_enums s n vals hs x t y hb hx v hv
          · exact coerceLits_enums s n vals hs xs t ys hb hr v hv
end

end Ariadne.C06Deps
