/-
  Lemmas for the heap-level model of the connection side of `execute_ws` (Model/WsClientHeap.lean):
  the header statements write only to the object they allocated, a call on references is the
  value-level call on the contents, sequences and schedules of calls keep every object that existed.
-/
import AriadneModel.Model.WsClientHeap
import AriadneModel.Proofs.WsClient

set_option linter.unusedSimpArgs false
set_option linter.unusedVariables false

namespace Ariadne.WsHeapProofs
open Ariadne Ariadne.WsClient Ariadne.WsHeap Ariadne.WsProofs

/-! ### The header statements in closed form -/

theorem mergeHeadersS_some (s : Store) (w a : Nat) (d x : Obj) (hw : s[w]? = some d) (ha : s[a]? = some x) :
    mergeHeadersS s w (some a) = some (s ++ [dictUpdate d x], s.length) := by
  have hlt : a < s.length := (List.getElem?_eq_some_iff.mp ha).1
  have h1 : (s ++ [d])[s.length]? = some d := by simp
  have h2 : (s ++ [d])[a]? = some x := by rw [List.getElem?_append_left hlt]; exact ha
  simp only [mergeHeadersS, hw, hlt, if_true, updateAt, h1, h2, Option.map_some]
  simp

theorem mergeHeadersS_none (s : Store) (w : Nat) (d : Obj) (hw : s[w]? = some d) :
    mergeHeadersS s w none = some (s ++ [d, []], s.length) := by
  have h1 : (s ++ [d] ++ [[]])[s.length]? = some d := by simp
  have h2 : (s ++ [d] ++ [[]])[s.length + 1]? = some [] := by simp
  simp only [mergeHeadersS, hw, updateAt, h1, h2, Option.map_some, dictUpdate]
  simp

theorem mergeHeadersOtS_eq : mergeHeadersOtS = mergeHeadersS := rfl
theorem mergeHeadersTelS_eq : mergeHeadersTelS = mergeHeadersS := rfl

theorem variant_merge_eq (v : Variant) : v.merge = mergeHeadersS := by
  cases v with
  | plain => rfl
  | ot t => cases t <;> rfl

/-- Every copy of the header statements, on every store: with valid references the result is the
    old store with NEW objects appended, the first of which - `headers` - holds the configured
    headers updated by the call's `extra_headers`. -/
theorem merge_closed (v : Variant) (s : Store) (w : Nat) (e : Option Nat) (d : Obj) (x : Option Obj)
    (hw : s[w]? = some d) (he : extraAt s e = some x) :
    ∃ tail, v.merge s w e = some (s ++ dictUpdate d (x.getD []) :: tail, s.length) := by
  rw [variant_merge_eq]
  cases e with
  | none =>
    simp only [extraAt, Option.some.injEq] at he
    subst he
    exact ⟨[[]], by rw [mergeHeadersS_none s w d hw]; rfl⟩
  | some a =>
    simp only [extraAt] at he
    cases ha : s[a]? with
    | none => simp [ha] at he
    | some x' =>
      simp only [ha, Option.map_some, Option.some.injEq] at he
      subst he
      exact ⟨[], by rw [mergeHeadersS_some s w a d x' hw ha]; rfl⟩

/-! ### Dereferencing is stable under allocation -/

theorem getElem?_append_some (s g : Store) (i : Nat) (o : Obj) (h : s[i]? = some o) : (s ++ g)[i]? = some o := by
  have hlt : i < s.length := (List.getElem?_eq_some_iff.mp h).1
  rw [List.getElem?_append_left hlt]; exact h

theorem extraAt_append (s g : Store) (e : Option Nat) (x : Option Obj) (h : extraAt s e = some x) :
    extraAt (s ++ g) e = some x := by
  cases e with
  | none => exact h
  | some a =>
    simp only [extraAt] at h ⊢
    cases ha : s[a]? with
    | none => simp [ha] at h
    | some o => rw [getElem?_append_some s g a o ha]; simpa [ha] using h

theorem initAt_append (s g : Store) (p : Option Nat) (x : Option J) (h : initAt s p = some x) :
    initAt (s ++ g) p = some x := by
  cases p with
  | none => exact h
  | some a =>
    simp only [initAt] at h ⊢
    cases ha : s[a]? with
    | none => simp [ha] at h
    | some o => rw [getElem?_append_some s g a o ha]; simpa [ha] using h

theorem cfgAt_some (s : Store) (cl : ClientObj) (c : HCall) (cfg : Cfg) (h : cfgAt s cl c = some cfg) :
    ∃ hd e i, s[cl.wsHeaders]? = some hd ∧ extraAt s c.extraHeaders = some e ∧ initAt s cl.initPayload = some i ∧
      cfg = { url := cl.url, headers := hd, origin := cl.origin, initPayload := i, query := c.query,
              opName := c.opName, extraHeaders := e, kwargs := c.kwargs, opId := c.opId } := by
  unfold cfgAt at h
  cases hw : s[cl.wsHeaders]? with
  | none => simp [hw] at h
  | some d =>
    cases he : extraAt s c.extraHeaders with
    | none => simp [hw, he] at h
    | some e =>
      cases hi : initAt s cl.initPayload with
      | none => simp [hw, he, hi] at h
      | some i =>
        simp only [hw, he, hi, Option.some.injEq] at h
        exact ⟨d, e, i, rfl, rfl, rfl, h.symm⟩

theorem cfgAt_append (s g : Store) (cl : ClientObj) (c : HCall) (cfg : Cfg) (h : cfgAt s cl c = some cfg) :
    cfgAt (s ++ g) cl c = some cfg := by
  obtain ⟨hd, e, i, hw, he, hi, rfl⟩ := cfgAt_some s cl c cfg h
  simp only [cfgAt, getElem?_append_some s g _ hd hw, extraAt_append s g _ e he, initAt_append s g _ i hi]

theorem cfgAt_parts (s : Store) (cl : ClientObj) (c : HCall) (cfg : Cfg) (h : cfgAt s cl c = some cfg) :
    s[cl.wsHeaders]? = some cfg.headers ∧ extraAt s c.extraHeaders = some cfg.extraHeaders ∧
    initAt s cl.initPayload = some cfg.initPayload ∧
    cfg.kwargs = c.kwargs ∧ cfg.url = cl.url ∧ cfg.origin = cl.origin ∧ cfg.query = c.query ∧
    cfg.opName = c.opName ∧ cfg.opId = c.opId := by
  obtain ⟨hd, e, i, hw, he, hi, rfl⟩ := cfgAt_some s cl c cfg h
  exact ⟨hw, he, hi, rfl, rfl, rfl, rfl, rfl, rfl⟩

/-! ### The merged dict is all the callee sees of the headers -/

/-- the configuration in which the merge has already happened -/
def mergedCfg (cfg : Cfg) : Cfg :=
  { cfg with headers := dictUpdate cfg.headers (cfg.extraHeaders.getD []), extraHeaders := none }

theorem connectArgs_merged (sp : String) (cfg : Cfg) : connectArgs sp (mergedCfg cfg) = connectArgs sp cfg := by
  simp [connectArgs, mergedCfg, originOf, dictUpdate]

theorem runT_merged (t : Types) (sp : String) (cfg : Cfg) (vars : Vars) (fs : List Frame) :
    runT t sp (mergedCfg cfg) vars fs = runT t sp cfg vars fs := by
  unfold runT
  rw [connectArgs_merged]
  rfl

/-- an executor that looks at `headers` / `extra_headers` only through the merged dict -/
def HeadersViaMerge (exec : Cfg → Vars → List Frame → Trace) : Prop :=
  ∀ cfg vars fs, exec (mergedCfg cfg) vars fs = exec cfg vars fs

theorem run_viaMerge (tbl : List (String × String)) (sp : String) : HeadersViaMerge (WsClient.run tbl sp) := by
  intro cfg vars fs
  unfold WsClient.run
  cases Types.ofTable tbl with
  | none => rfl
  | some t => exact runT_merged t sp cfg vars fs

theorem runOT_viaMerge (tracer : Bool) (tbl : List (String × String)) (sp : String) :
    HeadersViaMerge (WsClientOT.run tracer tbl sp) := by
  intro cfg vars fs
  unfold WsClientOT.run
  cases Types.ofTable tbl with
  | none => rfl
  | some t =>
    cases tracer with
    | false => exact runT_merged t sp cfg vars fs
    | true => simp only [if_true, runTel_eq]; exact runT_merged t sp cfg vars fs

/-! ### One call on references = the value-level call on the contents -/

theorem runH_eq (v : Variant) (exec : Cfg → Vars → List Frame → Trace) (hx : HeadersViaMerge exec)
    (s : Store) (cl : ClientObj) (c : HCall) (cfg : Cfg) (vars : Vars) (fs : List Frame)
    (h : cfgAt s cl c = some cfg) :
    ∃ tail, runH v.merge exec s cl c vars fs = some (s ++ tail, cl, exec cfg vars fs) := by
  obtain ⟨hw, he, -⟩ := cfgAt_parts s cl c cfg h
  obtain ⟨tail, hm⟩ := merge_closed v s cl.wsHeaders c.extraHeaders cfg.headers cfg.extraHeaders hw he
  refine ⟨dictUpdate cfg.headers (cfg.extraHeaders.getD []) :: tail, ?_⟩
  have hget : (s ++ dictUpdate cfg.headers (cfg.extraHeaders.getD []) :: tail)[s.length]? =
      some (dictUpdate cfg.headers (cfg.extraHeaders.getD [])) := by simp
  simp only [runH, hm, hget, cfgAt_append s _ cl c cfg h]
  have := hx cfg vars fs
  simp only [mergedCfg] at this
  rw [this]

/-! ### Sequences -/

/-- what step `st` shows when it is the only subscription ever run on the client configured as in `s` -/
def alone (v : Variant) (exec : Cfg → Vars → List Frame → Trace) (s : Store) (cl : ClientObj) (st : Step) :
    Option Obs :=
  (cfgAt s cl st.call).map fun cfg => observe v st.refuse st.take (exec cfg st.vars st.frames)

theorem runSeqH_eq (v : Variant) (exec : Cfg → Vars → List Frame → Trace) (hx : HeadersViaMerge exec)
    (s : Store) (cl : ClientObj) (steps : List Step)
    (hwf : ∀ st ∈ steps, (cfgAt s cl st.call).isSome = true) (g : Store) :
    ∃ g', runSeqH v exec (s ++ g) cl steps = (s ++ g', cl, steps.map (alone v exec s cl)) := by
  induction steps generalizing g with
  | nil => exact ⟨g, rfl⟩
  | cons st rest ih =>
    obtain ⟨cfg, hcfg⟩ := Option.isSome_iff_exists.mp (hwf st (by simp))
    obtain ⟨tail, hr⟩ := runH_eq v exec hx (s ++ g) cl st.call cfg st.vars st.frames (cfgAt_append s g cl st.call cfg hcfg)
    obtain ⟨g', hrest⟩ := ih (fun st' h' => hwf st' (by simp [h'])) (g ++ tail)
    refine ⟨g', ?_⟩
    simp only [runSeqH, hr, List.append_assoc, hrest, List.map_cons, alone, hcfg, Option.map_some]

/-! ### Sequences with the owner's edits in between -/

/-- what each subscription shows when it is run alone on a client configured as the owner's edits
    (and nothing else) left it at that moment -/
def expectedObs (v : Variant) (exec : Cfg → Vars → List Frame → Trace) : Store → ClientObj → List Action → List (Option Obs)
  | _, _, [] => []
  | s, cl, .edit e :: rest => expectedObs v exec (e.apply s cl).1 (e.apply s cl).2 rest
  | s, cl, .sub st :: rest => alone v exec s cl st :: expectedObs v exec s cl rest

/-- every subscription's references name objects at its time, every in-place mutation names an object -/
def WfActs : Store → ClientObj → List Action → Prop
  | _, _, [] => True
  | s, cl, .edit e :: rest => e.inRange s = true ∧ WfActs (e.apply s cl).1 (e.apply s cl).2 rest
  | s, cl, .sub st :: rest => (cfgAt s cl st.call).isSome = true ∧ WfActs s cl rest

theorem edit_apply_append (e : Edit) (s g : Store) (cl : ClientObj) (h : e.inRange s = true) :
    e.apply (s ++ g) cl = ((e.apply s cl).1 ++ g, (e.apply s cl).2) := by
  cases e with
  | write a o =>
    simp only [Edit.inRange, decide_eq_true_eq] at h
    simp [Edit.apply, List.set_append, h]
  | setInit p => rfl
  | setHeaders hd => rfl
  | setOrigin o => rfl
  | setUrl u => rfl

theorem runActs_eq (v : Variant) (exec : Cfg → Vars → List Frame → Trace) (hx : HeadersViaMerge exec)
    (acts : List Action) : ∀ (s : Store) (cl : ClientObj) (g : Store), WfActs s cl acts →
    ∃ g', runActs v exec (s ++ g) cl acts =
      ((editsOnly s cl acts).1 ++ g', (editsOnly s cl acts).2, expectedObs v exec s cl acts) := by
  induction acts with
  | nil => intro s cl g _; exact ⟨g, rfl⟩
  | cons a rest ih =>
    intro s cl g hwf
    cases a with
    | edit e =>
      obtain ⟨hr, hrest⟩ := hwf
      obtain ⟨g', hg'⟩ := ih (e.apply s cl).1 (e.apply s cl).2 g hrest
      refine ⟨g', ?_⟩
      simp only [runActs, edit_apply_append e s g cl hr, hg', editsOnly, expectedObs]
    | sub st =>
      obtain ⟨hc, hrest⟩ := hwf
      obtain ⟨cfg, hcfg⟩ := Option.isSome_iff_exists.mp hc
      obtain ⟨tail, hr⟩ := runH_eq v exec hx (s ++ g) cl st.call cfg st.vars st.frames (cfgAt_append s g cl st.call cfg hcfg)
      obtain ⟨g', hg'⟩ := ih s cl (g ++ tail) hrest
      refine ⟨g', ?_⟩
      simp only [runActs, hr, List.append_assoc, hg', editsOnly, expectedObs, alone, hcfg, Option.map_some]

/-! ### Schedules -/

/-- phase `ph` of a task is consistent with running its step alone on the untouched client and store -/
def PhaseOk (v : Variant) (exec : Cfg → Vars → List Frame → Trace) (s : Store) (cl : ClientObj) (st : Step) :
    Phase → Prop
  | .todo st' => st' = st
  | .opened o => o = alone v exec s cl st
  | .done o => o = alone v exec s cl st

def Inv (v : Variant) (exec : Cfg → Vars → List Frame → Trace) (s : Store) (cl : ClientObj) (steps : List Step)
    (w : World) : Prop :=
  (∃ g, w.store = s ++ g) ∧ w.client = cl ∧ w.tasks.length = steps.length ∧
  ∀ (i : Nat) st ph, steps[i]? = some st → w.tasks[i]? = some ph → PhaseOk v exec s cl st ph

theorem inv_start (v : Variant) (exec : Cfg → Vars → List Frame → Trace) (s : Store) (cl : ClientObj)
    (steps : List Step) : Inv v exec s cl steps (startW s cl steps) := by
  refine ⟨⟨[], by simp [startW]⟩, rfl, by simp [startW], ?_⟩
  intro i st ph hs hp
  simp only [startW, List.getElem?_map, hs, Option.map_some, Option.some.injEq] at hp
  subst hp; rfl

theorem inv_step (v : Variant) (exec : Cfg → Vars → List Frame → Trace) (hx : HeadersViaMerge exec)
    (s : Store) (cl : ClientObj) (steps : List Step)
    (hwf : ∀ st ∈ steps, (cfgAt s cl st.call).isSome = true) (w : World) (i : Nat)
    (h : Inv v exec s cl steps w) : Inv v exec s cl steps (stepW v exec w i) := by
  obtain ⟨⟨g, hg⟩, h2, h3, h4⟩ := h
  unfold stepW
  cases hp : w.tasks[i]? with
  | none => exact ⟨⟨g, hg⟩, h2, h3, h4⟩
  | some ph =>
    have hi : i < steps.length := by
      have := (List.getElem?_eq_some_iff.mp hp).1; omega
    have hlt : i < w.tasks.length := by omega
    have hc : steps[i]? = some steps[i] := List.getElem?_eq_getElem hi
    have hok := h4 i steps[i] ph hc hp
    have upd : ∀ (ph' : Phase), PhaseOk v exec s cl steps[i] ph' →
        ∀ (j : Nat) st ph'', steps[j]? = some st → (w.tasks.set i ph')[j]? = some ph'' → PhaseOk v exec s cl st ph'' := by
      intro ph' hph' j st ph'' hsj hpj
      by_cases hij : i = j
      · subst hij
        simp only [List.getElem?_set_self hlt, Option.some.injEq] at hpj
        subst hpj
        rw [hc] at hsj; cases hsj
        exact hph'
      · simp only [List.getElem?_set_ne hij] at hpj
        exact h4 j st ph'' hsj hpj
    cases ph with
    | done o => exact ⟨⟨g, hg⟩, h2, h3, h4⟩
    | opened o =>
      simp only [PhaseOk] at hok
      exact ⟨⟨g, hg⟩, h2, by simp [h3], upd (.done o) (by simpa [PhaseOk] using hok)⟩
    | todo st' =>
      simp only [PhaseOk] at hok
      subst hok
      obtain ⟨cfg, hcfg⟩ := Option.isSome_iff_exists.mp (hwf steps[i] (List.getElem_mem hi))
      obtain ⟨tail, hr⟩ := runH_eq v exec hx (s ++ g) cl steps[i].call cfg steps[i].vars steps[i].frames
        (cfgAt_append s g cl steps[i].call cfg hcfg)
      simp only [hg, h2, hr]
      refine ⟨⟨g ++ tail, by simp [List.append_assoc]⟩, rfl, by simp [h3], ?_⟩
      exact upd _ (by simp [PhaseOk, alone, hcfg])

theorem inv_schedule (v : Variant) (exec : Cfg → Vars → List Frame → Trace) (hx : HeadersViaMerge exec)
    (s : Store) (cl : ClientObj) (steps : List Step)
    (hwf : ∀ st ∈ steps, (cfgAt s cl st.call).isSome = true) (sched : List Nat) (w : World)
    (h : Inv v exec s cl steps w) : Inv v exec s cl steps (runSchedule v exec w sched) := by
  induction sched generalizing w with
  | nil => exact h
  | cons i rest ih => exact ih (stepW v exec w i) (inv_step v exec hx s cl steps hwf w i h)

/-! ### The consumer's side -/

theorem cut_prefix (n : Nat) (evs out : List Ev) (h : cut n evs = some out) : out <+: evs := by
  induction evs generalizing n out with
  | nil =>
    cases n with
    | zero => simp [cut] at h; subst h; exact List.nil_prefix
    | succ n => simp [cut] at h
  | cons e evs ih =>
    cases n with
    | zero => simp [cut] at h; subst h; exact List.nil_prefix
    | succ n =>
      cases e with
      | yield d =>
        simp only [cut, Option.map_eq_some_iff] at h
        obtain ⟨o', ho', rfl⟩ := h
        exact List.cons_prefix_cons.mpr ⟨rfl, ih n o' ho'⟩
      | connect a =>
        simp only [cut, Option.map_eq_some_iff] at h
        obtain ⟨o', ho', rfl⟩ := h
        exact List.cons_prefix_cons.mpr ⟨rfl, ih (n + 1) o' ho'⟩
      | send m =>
        simp only [cut, Option.map_eq_some_iff] at h
        obtain ⟨o', ho', rfl⟩ := h
        exact List.cons_prefix_cons.mpr ⟨rfl, ih (n + 1) o' ho'⟩
      | recv f =>
        simp only [cut, Option.map_eq_some_iff] at h
        obtain ⟨o', ho', rfl⟩ := h
        exact List.cons_prefix_cons.mpr ⟨rfl, ih (n + 1) o' ho'⟩
      | close =>
        simp only [cut, Option.map_eq_some_iff] at h
        obtain ⟨o', ho', rfl⟩ := h
        exact List.cons_prefix_cons.mpr ⟨rfl, ih (n + 1) o' ho'⟩

/-- the cut contains exactly `n` yields and, for `n > 0`, ends with one -/
theorem cut_yields (n : Nat) (evs out : List Ev) (h : cut n evs = some out) :
    (out.filterMap Ev.yielded?).length = n ∧ (0 < n → ∃ d, out.getLast? = some (.yield d)) := by
  induction evs generalizing n out with
  | nil =>
    cases n with
    | zero => simp [cut] at h; subst h; simp
    | succ n => simp [cut] at h
  | cons e evs ih =>
    cases n with
    | zero => simp [cut] at h; subst h; simp
    | succ n =>
      cases e with
      | yield d =>
        simp only [cut, Option.map_eq_some_iff] at h
        obtain ⟨o', ho', rfl⟩ := h
        obtain ⟨h1, h2⟩ := ih n o' ho'
        refine ⟨by simp [List.filterMap_cons, Ev.yielded?, h1], fun _ => ?_⟩
        cases n with
        | zero => simp [cut] at ho'; subst ho'; exact ⟨d, rfl⟩
        | succ m =>
          obtain ⟨d', hd'⟩ := h2 (Nat.succ_pos m)
          refine ⟨d', ?_⟩
          cases o' with
          | nil => simp at hd'
          | cons x xs => simpa [List.getLast?_cons_cons] using hd'
      | connect a =>
        simp only [cut, Option.map_eq_some_iff] at h
        obtain ⟨o', ho', rfl⟩ := h
        obtain ⟨h1, h2⟩ := ih (n + 1) o' ho'
        refine ⟨by simpa [List.filterMap_cons, Ev.yielded?] using h1, fun hp => ?_⟩
        obtain ⟨d', hd'⟩ := h2 hp
        cases o' with
        | nil => simp at hd'
        | cons x xs => exact ⟨d', by simpa [List.getLast?_cons_cons] using hd'⟩
      | send m =>
        simp only [cut, Option.map_eq_some_iff] at h
        obtain ⟨o', ho', rfl⟩ := h
        obtain ⟨h1, h2⟩ := ih (n + 1) o' ho'
        refine ⟨by simpa [List.filterMap_cons, Ev.yielded?] using h1, fun hp => ?_⟩
        obtain ⟨d', hd'⟩ := h2 hp
        cases o' with
        | nil => simp at hd'
        | cons x xs => exact ⟨d', by simpa [List.getLast?_cons_cons] using hd'⟩
      | recv f =>
        simp only [cut, Option.map_eq_some_iff] at h
        obtain ⟨o', ho', rfl⟩ := h
        obtain ⟨h1, h2⟩ := ih (n + 1) o' ho'
        refine ⟨by simpa [List.filterMap_cons, Ev.yielded?] using h1, fun hp => ?_⟩
        obtain ⟨d', hd'⟩ := h2 hp
        cases o' with
        | nil => simp at hd'
        | cons x xs => exact ⟨d', by simpa [List.getLast?_cons_cons] using hd'⟩
      | close =>
        simp only [cut, Option.map_eq_some_iff] at h
        obtain ⟨o', ho', rfl⟩ := h
        obtain ⟨h1, h2⟩ := ih (n + 1) o' ho'
        refine ⟨by simpa [List.filterMap_cons, Ev.yielded?] using h1, fun hp => ?_⟩
        obtain ⟨d', hd'⟩ := h2 hp
        cases o' with
        | nil => simp at hd'
        | cons x xs => exact ⟨d', by simpa [List.getLast?_cons_cons] using hd'⟩

/-- fewer than `n` yields: the iterator ends by itself before the consumer would stop -/
theorem cut_none (n : Nat) (evs : List Ev) (h : cut n evs = none) : (evs.filterMap Ev.yielded?).length < n := by
  induction evs generalizing n with
  | nil =>
    cases n with
    | zero => simp [cut] at h
    | succ n => simp
  | cons e evs ih =>
    cases n with
    | zero => simp [cut] at h
    | succ n =>
      cases e with
      | yield d =>
        simp only [cut, Option.map_eq_none_iff] at h
        have := ih n h
        simp [List.filterMap_cons, Ev.yielded?]; omega
      | connect a =>
        simp only [cut, Option.map_eq_none_iff] at h
        simpa [List.filterMap_cons, Ev.yielded?] using ih (n + 1) h
      | send m =>
        simp only [cut, Option.map_eq_none_iff] at h
        simpa [List.filterMap_cons, Ev.yielded?] using ih (n + 1) h
      | recv f =>
        simp only [cut, Option.map_eq_none_iff] at h
        simpa [List.filterMap_cons, Ev.yielded?] using ih (n + 1) h
      | close =>
        simp only [cut, Option.map_eq_none_iff] at h
        simpa [List.filterMap_cons, Ev.yielded?] using ih (n + 1) h

end Ariadne.WsHeapProofs
