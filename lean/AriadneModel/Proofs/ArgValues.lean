/-
  Value-level lemmas of C03: a schema-valid caller value, pushed through pydantic's dump / the base
  client's conversion / json.dumps, coerces at its GraphQL type to the value the caller means.
-/
import AriadneModel.Model.ArgSend
import AriadneModel.Proofs.Coerce

set_option linter.unusedSimpArgs false
set_option linter.unusedVariables false

namespace Ariadne.ArgProofs
open Ariadne Ariadne.Scalars Ariadne.Coerce Ariadne.ArgValues Ariadne.PydLog Ariadne.InputFields
open Ariadne.BaseClient (PV toJson toJsonList toJsonKvs convertValue convertList)

/-! ### trees that `_get_files_from_variables` leaves alone and `json.dumps` can write -/

mutual
  def simple : PV → Bool
    | .none => true
    | .bool _ => true
    | .num _ _ => true
    | .str _ => true
    | .leaf (some _) => true
    | .list xs => simpleList xs
    | .dict kvs => simpleKvs kvs
    | _ => false
  def simpleList : List PV → Bool
    | [] => true
    | x :: xs => simple x && simpleList xs
  def simpleKvs : List (String × PV) → Bool
    | [] => true
    | (_, x) :: rest => simple x && simpleKvs rest
end

/-- standing hypotheses about the configuration and the user functions -/
structure Hyp (cfg : Cfg) (fns : UserFns) : Prop where
  /-- GraphQL: the fields of an input type have pairwise distinct names -/
  fieldsNodup : ∀ n fs, cfg.schema.get? n = some (.input fs) → (names fs).Nodup
  /-- no configured scalar carries the name of a built-in input scalar (`INPUT_SCALARS_MAP` is
      consulted before the configuration in input_fields.py, after it in arguments.py) -/
  scalarsSane : ∀ n d, lookupScalar cfg.scalars n = some d → Util.lookupStr n Tables.inputScalarsMap = none
  /-- a serialize function does not turn a scalar value into JSON null -/
  serNonNull : ∀ f j, (fns.ser f j).isNull = false

/-- per set field: the intended value; per unset field: nothing -/
def optInt (cfg : Cfg) (fns : UserFns) : List (FieldKey × AV) → List (Option J)
  | [] => []
  | (_, v) :: rest => (if v.isUnset then none else some (intended cfg fns v)) :: optInt cfg fns rest

theorem intendedFields_eq (cfg : Cfg) (fns : UserFns) (fs : List IField) (fields : List (FieldKey × AV)) :
    intendedFields cfg fns fs fields = expected fs (optInt cfg fns fields) := by
  induction fs generalizing fields with
  | nil => cases fields <;> simp [intendedFields, expected, optInt]
  | cons f fs ih =>
    cases fields with
    | nil => simp [intendedFields, expected, optInt]
    | cons p rest =>
      obtain ⟨fk, v⟩ := p
      by_cases hu : v.isUnset = true
      · simp only [intendedFields, optInt, hu, if_true, expected]
        cases f.default <;> simp [ih rest]
      · simp only [intendedFields, optInt, hu, ih rest]
        simp [expected]

theorem integral_zero (i : Int) : integral? i 0 = some i := by
  simp [integral?, pow10]

theorem wrapN_zero (j : J) : wrapN 0 j = j := rfl

end Ariadne.ArgProofs

namespace Ariadne.ArgProofs
open Ariadne Ariadne.Scalars Ariadne.Coerce Ariadne.ArgValues Ariadne.PydLog Ariadne.InputFields
open Ariadne.BaseClient (PV toJson toJsonList toJsonKvs convertValue convertList)

/-- what has to hold of the dumped form `p` of a value `v` at type `t` -/
def Good (cfg : Cfg) (fns : UserFns) (t : GT) (v : AV) (p : PV) : Prop :=
  simple p = true ∧ ∃ w, toJson p = some w ∧ coerce cfg.schema t w = .ok (intended cfg fns v)

theorem builtin_kind (s : ISchema) (n : String) (hg : s.get? n = none) (hb : builtinScalars.contains n = true) :
    kindOf s n = .scalar := by
  simp only [kindOf, hg, hb, if_true]

/-- a leaf annotation that is not a `PlainSerializer` keeps the value -/
theorem serLeaf_plain (fns : UserFns) (l : Leaf) (v : PV) (h : ∀ t f, l ≠ .ser t f) : serLeaf fns l v = .ok (v, []) := by
  cases l with
  | ser t f => exact absurd rfl (h t f)
  | _ => rfl

theorem namedLeaf_builtin (cfg : Cfg) (n py : String) (hg : cfg.schema.get? n = none)
    (hb : builtinScalars.contains n = true) (hm : Util.lookupStr n Tables.inputScalarsMap = some py) :
    namedLeaf cfg.scalars (kindOf cfg.schema) n = .name py := by
  simp [namedLeaf, builtin_kind cfg.schema n hg hb, hm]

theorem coerce_named_bool (s : ISchema) (n : String) (nn b : Bool) :
    coerce s (.named n nn) (.bool b) = coerceLeaf s n (.bool b) := by
  simp only [coerce, GT.base, GT.depth, wrapN]
  cases coerceLeaf s n (.bool b) <;> rfl

theorem coerce_named_num (s : ISchema) (n : String) (nn : Bool) (m : Int) (e : Nat) :
    coerce s (.named n nn) (.num m e) = coerceLeaf s n (.num m e) := by
  simp only [coerce, GT.base, GT.depth, wrapN]
  cases coerceLeaf s n (.num m e) <;> rfl

theorem coerce_named_str (s : ISchema) (n : String) (nn : Bool) (x : String) :
    coerce s (.named n nn) (.str x) = coerceLeaf s n (.str x) := by
  simp only [coerce, GT.base, GT.depth, wrapN]
  cases coerceLeaf s n (.str x) <;> rfl

/-- a custom scalar's `parse_value` is the identity on every non-null JSON value -/
theorem coerce_named_scalar (s : ISchema) (n : String) (nn : Bool) (w : J) (hs : s.get? n = some .scalar)
    (hw : w.isNull = false) : coerce s (.named n nn) w = .ok w := by
  cases w with
  | null => simp [J.isNull] at hw
  | bool b => rw [coerce_named_bool]; simp [coerceLeaf, hs]
  | num m e => rw [coerce_named_num]; simp [coerceLeaf, hs]
  | str x => rw [coerce_named_str]; simp [coerceLeaf, hs]
  | arr xs => simp [coerce, coerceLeaf, hs]
  | obj kvs => simp [coerce, GT.base, GT.depth, coerceLeaf, hs, wrapN]

theorem bool_good (cfg : Cfg) (fns : UserFns) (n : String) (nn opt b : Bool) (h : leafOK cfg n (.bool b) = true) :
    ∃ p calls, dumpAnn fns (.leaf (namedLeaf cfg.scalars (kindOf cfg.schema) n) opt) (.bool b) = .ok (p, calls)
      ∧ calls = serCalls cfg (.bool b) ∧ Good cfg fns (.named n nn) (.bool b) p := by
  simp only [leafOK, Bool.and_eq_true, Option.isNone_iff_eq_none, beq_iff_eq] at h
  obtain ⟨hg, hn⟩ := h
  subst hn
  have hl := namedLeaf_builtin cfg "Boolean" "bool" hg (by decide) (by decide)
  refine ⟨.bool b, [], ?_, by simp [serCalls], ?_⟩
  · simp [dumpAnn, hl, serLeaf]
  · refine ⟨rfl, .bool b, rfl, ?_⟩
    rw [coerce_named_bool]
    simp [coerceLeaf, hg, coerceBoolean, intended]

theorem str_good (cfg : Cfg) (fns : UserFns) (n : String) (nn opt : Bool) (x : String) (h : leafOK cfg n (.str x) = true) :
    ∃ p calls, dumpAnn fns (.leaf (namedLeaf cfg.scalars (kindOf cfg.schema) n) opt) (.str x) = .ok (p, calls)
      ∧ calls = serCalls cfg (.str x) ∧ Good cfg fns (.named n nn) (.str x) p := by
  simp only [leafOK, Bool.and_eq_true, Option.isNone_iff_eq_none, Bool.or_eq_true, beq_iff_eq] at h
  obtain ⟨hg, hn⟩ := h
  rcases hn with hn | hn <;> subst hn
  · have hl := namedLeaf_builtin cfg "String" "str" hg (by decide) (by decide)
    refine ⟨.str x, [], by simp [dumpAnn, hl, serLeaf], by simp [serCalls], rfl, .str x, rfl, ?_⟩
    rw [coerce_named_str]; simp [coerceLeaf, hg, coerceString, intended]
  · have hl := namedLeaf_builtin cfg "ID" "str" hg (by decide) (by decide)
    refine ⟨.str x, [], by simp [dumpAnn, hl, serLeaf], by simp [serCalls], rfl, .str x, rfl, ?_⟩
    rw [coerce_named_str]; simp [coerceLeaf, hg, coerceID, intended]

theorem float_good (cfg : Cfg) (fns : UserFns) (n : String) (nn opt : Bool) (m : Int) (e : Nat)
    (h : leafOK cfg n (.float m e) = true) :
    ∃ p calls, dumpAnn fns (.leaf (namedLeaf cfg.scalars (kindOf cfg.schema) n) opt) (.float m e) = .ok (p, calls)
      ∧ calls = serCalls cfg (.float m e) ∧ Good cfg fns (.named n nn) (.float m e) p := by
  simp only [leafOK, Bool.and_eq_true, Option.isNone_iff_eq_none, beq_iff_eq] at h
  obtain ⟨hg, hn⟩ := h
  subst hn
  have hl := namedLeaf_builtin cfg "Float" "float" hg (by decide) (by decide)
  refine ⟨.num m e, [], by simp [dumpAnn, hl, serLeaf], by simp [serCalls], rfl, .num m e, rfl, ?_⟩
  rw [coerce_named_num]; simp [coerceLeaf, hg, coerceFloat, intended]

theorem int_good (cfg : Cfg) (fns : UserFns) (n : String) (nn opt : Bool) (i : Int)
    (h : leafOK cfg n (.int i) = true) :
    ∃ p calls, dumpAnn fns (.leaf (namedLeaf cfg.scalars (kindOf cfg.schema) n) opt) (.int i) = .ok (p, calls)
      ∧ calls = serCalls cfg (.int i) ∧ Good cfg fns (.named n nn) (.int i) p := by
  simp only [leafOK, Bool.and_eq_true, Option.isNone_iff_eq_none, Bool.or_eq_true, beq_iff_eq] at h
  obtain ⟨hg, hn⟩ := h
  rcases hn with ⟨hn, h32⟩ | hn
  · subst hn
    have hl := namedLeaf_builtin cfg "Int" "int" hg (by decide) (by decide)
    refine ⟨.num i 0, [], by simp [dumpAnn, hl, serLeaf], by simp [serCalls], rfl, .num i 0, rfl, ?_⟩
    rw [coerce_named_num]; simp [coerceLeaf, hg, coerceInt, integral_zero, h32, intended]
  · subst hn
    have hl := namedLeaf_builtin cfg "Float" "float" hg (by decide) (by decide)
    refine ⟨.num i 0, [], by simp [dumpAnn, hl, serLeaf], by simp [serCalls], rfl, .num i 0, rfl, ?_⟩
    rw [coerce_named_num]; simp [coerceLeaf, hg, coerceFloat, intended]

theorem enum_good (cfg : Cfg) (fns : UserFns) (n : String) (nn opt : Bool) (m : String)
    (h : leafOK cfg n (.enum m) = true) :
    ∃ p calls, dumpAnn fns (.leaf (namedLeaf cfg.scalars (kindOf cfg.schema) n) opt) (.enum m) = .ok (p, calls)
      ∧ calls = serCalls cfg (.enum m) ∧ Good cfg fns (.named n nn) (.enum m) p := by
  simp only [leafOK] at h
  cases hg : cfg.schema.get? n with
  | none => simp [hg] at h
  | some ty =>
    cases ty with
    | enum vals =>
      simp [hg] at h
      have hl : namedLeaf cfg.scalars (kindOf cfg.schema) n = .name n := by simp [namedLeaf, kindOf, hg]
      refine ⟨.str m, [], by simp [dumpAnn, hl, serLeaf], by simp [serCalls], rfl, .str m, rfl, ?_⟩
      rw [coerce_named_str]; simp [coerceLeaf, hg, h, intended]
    | _ => simp [hg] at h

theorem custom_good (cfg : Cfg) (fns : UserFns) (hy : Hyp cfg fns) (n : String) (nn opt : Bool) (sc : String) (j : J)
    (h : leafOK cfg n (.custom sc j) = true) :
    ∃ p calls, dumpAnn fns (.leaf (namedLeaf cfg.scalars (kindOf cfg.schema) n) opt) (.custom sc j) = .ok (p, calls)
      ∧ calls = serCalls cfg (.custom sc j) ∧ Good cfg fns (.named n nn) (.custom sc j) p := by
  simp only [leafOK, Bool.and_eq_true, beq_iff_eq, Bool.not_eq_true'] at h
  obtain ⟨⟨hsc, hj⟩, hk⟩ := h
  subst hsc
  cases hg : cfg.schema.get? sc with
  | none => simp [hg] at hk
  | some ty =>
    cases ty with
    | scalar =>
      have hkind : kindOf cfg.schema sc = .scalar := by simp [kindOf, hg]
      cases hcfg : lookupScalar cfg.scalars sc with
      | none =>
        -- not configured: the annotation is a plain name (`Any`, or the built-in map's entry), the raw value travels
        have hl : ∀ t f, namedLeaf cfg.scalars (kindOf cfg.schema) sc ≠ .ser t f := by
          intro t f; simp only [namedLeaf, hkind, hcfg]; cases Util.lookupStr sc Tables.inputScalarsMap <;> simp
        refine ⟨.leaf (some j), [], ?_, by simp [serCalls, Cfg.serializeOf, hcfg], rfl, j, rfl, ?_⟩
        · simp [dumpAnn, serLeaf_plain fns _ _ hl]
        · rw [coerce_named_scalar cfg.schema sc nn j hg hj]; simp [intended, Cfg.serializeOf, hcfg]
      | some d =>
        have hmap := hy.scalarsSane sc d hcfg
        cases hser : d.serializeName with
        | none =>
          have hl : namedLeaf cfg.scalars (kindOf cfg.schema) sc = .name d.typeName := by
            simp [namedLeaf, hkind, hmap, hcfg, inputLeaf, hser]
          refine ⟨.leaf (some j), [], by simp [dumpAnn, hl, serLeaf], by simp [serCalls, Cfg.serializeOf, hcfg, hser], rfl, j, rfl, ?_⟩
          rw [coerce_named_scalar cfg.schema sc nn j hg hj]; simp [intended, Cfg.serializeOf, hcfg, hser]
        | some f =>
          have hl : namedLeaf cfg.scalars (kindOf cfg.schema) sc = .ser d.typeName f := by
            simp [namedLeaf, hkind, hmap, hcfg, inputLeaf, hser]
          refine ⟨.leaf (some (fns.ser f j)), [⟨f, .leaf (some j)⟩], by simp [dumpAnn, hl, serLeaf, UserFns.apply],
            by simp [serCalls, Cfg.serializeOf, hcfg, hser], rfl, fns.ser f j, rfl, ?_⟩
          rw [coerce_named_scalar cfg.schema sc nn _ hg (hy.serNonNull f j)]; simp [intended, Cfg.serializeOf, hcfg, hser]
    | _ => simp [hg] at hk

end Ariadne.ArgProofs

namespace Ariadne.ArgProofs
open Ariadne Ariadne.Scalars Ariadne.Coerce Ariadne.ArgValues Ariadne.PydLog Ariadne.InputFields
open Ariadne.BaseClient (PV toJson toJsonList toJsonKvs convertValue convertList)

/-- the annotation the input-class generator emits for a field of type `t` (`inh` = the
    nullability handed down by the enclosing list) -/
abbrev PT (cfg : Cfg) (inh : Bool) (t : GT) : NAnn := parseType cfg.scalars (kindOf cfg.schema) inh t

theorem hasType_unset (cfg : Cfg) (t : GT) : hasType cfg t .unset = false := by
  cases t <;> simp [hasType]

/-- `model_dump(by_alias=True)` keys a field by its original GraphQL name -/
theorem fieldKey_key (cfg : Cfg) (f : IField) : (fieldKeyOf cfg f).key = f.name := by
  simp only [fieldKeyOf, fieldDecl]
  by_cases h : pyField cfg.snake f.name = f.name
  · simp [h]
  · simp [h]

theorem fieldKey_ann (cfg : Cfg) (f : IField) : (fieldKeyOf cfg f).ann = PT cfg true f.type := by
  simp [fieldKeyOf, fieldDecl, PT]

theorem PT_named (cfg : Cfg) (inh : Bool) (n : String) (nn : Bool) :
    PT cfg inh (.named n nn) = .leaf (namedLeaf cfg.scalars (kindOf cfg.schema) n) (if nn then false else inh) := by
  simp [PT, parseType]

theorem PT_list (cfg : Cfg) (inh : Bool) (it : GT) (nn : Bool) :
    PT cfg inh (.list it nn) = .list (PT cfg (if nn then false else inh) it) (if nn then false else inh) := by
  simp [PT, parseType]

mutual
theorem dump_good (cfg : Cfg) (fns : UserFns) (hy : Hyp cfg fns) (inh : Bool) (t : GT) (v : AV)
    (ht : hasType cfg t v = true) (hc : annConf (PT cfg inh t) v = true) :
    ∃ p calls, dumpAnn fns (PT cfg inh t) v = .ok (p, calls) ∧ calls = serCalls cfg v ∧ Good cfg fns t v p := by
  cases v with
  | none =>
    have hopt : (PT cfg inh t).opt = true := by cases t <;> simpa [annConf] using hc
    have hnn : t.nonNull = false := by cases t <;> simpa [hasType] using ht
    refine ⟨.none, [], ?_, by simp [serCalls], rfl, .null, rfl, ?_⟩
    · cases hpt : PT cfg inh t with
      | leaf l o => rw [hpt] at hopt; simp [NAnn.opt] at hopt; simp [dumpAnn, NAnn.opt, hopt]
      | list i o => rw [hpt] at hopt; simp [NAnn.opt] at hopt; simp [dumpAnn, NAnn.opt, hopt]
    · cases t <;> simp [coerce, hnn, intended]
  | unset => rw [hasType_unset] at ht; cases ht
  | bool b =>
    cases t with
    | named n nn => rw [PT_named]; exact bool_good cfg fns n nn _ b (by simpa [hasType] using ht)
    | list it nn => simp [hasType] at ht
  | int i =>
    cases t with
    | named n nn => rw [PT_named]; exact int_good cfg fns n nn _ i (by simpa [hasType] using ht)
    | list it nn => simp [hasType] at ht
  | float m e =>
    cases t with
    | named n nn => rw [PT_named]; exact float_good cfg fns n nn _ m e (by simpa [hasType] using ht)
    | list it nn => simp [hasType] at ht
  | str s =>
    cases t with
    | named n nn => rw [PT_named]; exact str_good cfg fns n nn _ s (by simpa [hasType] using ht)
    | list it nn => simp [hasType] at ht
  | enum m =>
    cases t with
    | named n nn => rw [PT_named]; exact enum_good cfg fns n nn _ m (by simpa [hasType] using ht)
    | list it nn => simp [hasType] at ht
  | custom sc j =>
    cases t with
    | named n nn => rw [PT_named]; exact custom_good cfg fns hy n nn _ sc j (by simpa [hasType] using ht)
    | list it nn => simp [hasType] at ht
  | list xs =>
    cases t with
    | named n nn => simp [hasType] at ht
    | list it nn =>
      rw [PT_list] at hc ⊢
      have ht' : hasTypeList cfg it xs = true := by simpa [hasType] using ht
      have hc' : annConfList (PT cfg (if nn then false else inh) it) xs = true := by simpa [annConf] using hc
      obtain ⟨ps, calls, hd, hcl, hs, ws, hj, hco⟩ := dumpItems_good cfg fns hy (if nn then false else inh) it xs ht' hc'
      refine ⟨.list ps, calls, by simp only [dumpAnn, hd], by simp [serCalls, hcl], by simpa [simple] using hs, .arr ws, by simp [toJson, hj], ?_⟩
      simp [coerce, hco, intended]
  | model cls fields =>
    cases t with
    | list it nn => simp [hasType] at ht
    | named n nn =>
      simp only [hasType, Bool.and_eq_true, beq_iff_eq] at ht
      obtain ⟨hcls, hm⟩ := ht
      subst hcls
      cases hg : cfg.schema.get? cls with
      | none => simp [hg] at hm
      | some ty =>
        cases ty with
        | input fs =>
          simp only [hg] at hm
          have hnd := hy.fieldsNodup cls fs hg
          obtain ⟨kvs, calls, hd, hcl, hs, wkvs, hj, hco, hab⟩ :=
            dumpFields_good cfg fns hy fs fs fields hm (fun f hf => findField_of_mem fs hnd f hf)
          have hl : namedLeaf cfg.scalars (kindOf cfg.schema) cls = .fwd cls := by simp [namedLeaf, kindOf, hg]
          refine ⟨.dict kvs, calls, ?_, by simp [serCalls, hcl], by simpa [simple] using hs, .obj wkvs, by simp [toJson, hj], ?_⟩
          · rw [PT_named, hl]; simp [dumpAnn, hd]
          · simp only [coerce, GT.base, GT.depth, hg, hco, assemble_provided fs _ hnd hab, wrapN, intended,
              Cfg.fieldsOf, intendedFields_eq]
        | _ => simp [hg] at hm
theorem dumpItems_good (cfg : Cfg) (fns : UserFns) (hy : Hyp cfg fns) (inh : Bool) (it : GT) (xs : List AV)
    (ht : hasTypeList cfg it xs = true) (hc : annConfList (PT cfg inh it) xs = true) :
    ∃ ps calls, dumpItems fns (PT cfg inh it) xs = .ok (ps, calls) ∧ calls = serCallsList cfg xs ∧ simpleList ps = true ∧
      ∃ ws, toJsonList ps = some ws ∧ coerceList cfg.schema it ws = .ok (intendedList cfg fns xs) := by
  cases xs with
  | nil => exact ⟨[], [], by simp [dumpItems], by simp [serCallsList], rfl, [], rfl, by simp [coerceList, intendedList]⟩
  | cons x xs =>
    simp only [hasTypeList, Bool.and_eq_true] at ht
    simp only [annConfList, Bool.and_eq_true] at hc
    obtain ⟨p, c1, hd1, hc1, hs1, w, hj1, hco1⟩ := dump_good cfg fns hy inh it x ht.1 hc.1
    obtain ⟨ps, c2, hd2, hc2, hs2, ws, hj2, hco2⟩ := dumpItems_good cfg fns hy inh it xs ht.2 hc.2
    refine ⟨p :: ps, c1 ++ c2, by simp [dumpItems, hd1, hd2], by simp [serCallsList, hc1, hc2], by simp [simpleList, hs1, hs2], w :: ws,
      by simp [toJsonList, hj1, hj2], by simp [coerceList, hco1, hco2, intendedList]⟩
theorem dumpFields_good (cfg : Cfg) (fns : UserFns) (hy : Hyp cfg fns) (fsFull fs' : List IField)
    (fields : List (FieldKey × AV)) (hf : hasFields cfg fs' fields = true)
    (hsub : ∀ f ∈ fs', findField fsFull f.name = some f) :
    ∃ kvs calls, dumpFields fns fields = .ok (kvs, calls) ∧ calls = serCallsFields cfg fields ∧ simpleKvs kvs = true ∧
      ∃ wkvs, toJsonKvs kvs = some wkvs ∧
        coerceKvs cfg.schema fsFull wkvs = .ok (provided fs' (optInt cfg fns fields)) ∧
        absentOK fs' (optInt cfg fns fields) = true := by
  cases fields with
  | nil =>
    cases fs' with
    | nil => exact ⟨[], [], by simp [dumpFields], by simp [serCallsFields], rfl, [], rfl, by simp [coerceKvs, provided, optInt], by simp [absentOK, optInt]⟩
    | cons f fs'' => simp [hasFields] at hf
  | cons pr rest =>
    obtain ⟨fk, v⟩ := pr
    cases fs' with
    | nil => simp [hasFields] at hf
    | cons f fs'' =>
      simp only [hasFields, Bool.and_eq_true, beq_iff_eq, Bool.or_eq_true] at hf
      obtain ⟨⟨hfk, hv⟩, hrest⟩ := hf
      obtain ⟨kvs, c2, hd2, hcl2, hs2, wkvs, hj2, hco2, hab2⟩ :=
        dumpFields_good cfg fns hy fsFull fs'' rest hrest (fun g hg => hsub g (List.mem_cons_of_mem _ hg))
      by_cases hu : v.isUnset = true
      · -- field not set: skipped by the dump; allowed because the class gives it a default
        have hopt : (f.default.isSome || !f.type.nonNull) = true := by
          rcases hv with ⟨_, h⟩ | ⟨h, _⟩
          · simpa using h
          · cases v <;> simp [AV.isUnset] at hu
            rw [hasType_unset] at h; cases h
        have hvu : serCalls cfg v = [] := by cases v <;> simp [AV.isUnset] at hu; simp [serCalls]
        refine ⟨kvs, c2, by simp [dumpFields, hu, hd2], by simp [serCallsFields, hvu, hcl2], hs2, wkvs, hj2, ?_, ?_⟩
        · simp [optInt, hu, provided, hco2]
        · simp [optInt, hu, absentOK, hab2]; simpa using hopt
      · have hv' : hasType cfg f.type v = true ∧ annConf fk.ann v = true := by
          rcases hv with ⟨h, _⟩ | h
          · exact absurd h hu
          · exact h
        have hann : fk.ann = PT cfg true f.type := by rw [hfk, fieldKey_ann]
        have hkey : fk.key = f.name := by rw [hfk, fieldKey_key]
        obtain ⟨p, c1, hd1, hcl1, hs1, w, hj1, hco1⟩ := dump_good cfg fns hy true f.type v hv'.1 (hann ▸ hv'.2)
        have hfind := hsub f (List.mem_cons_self)
        refine ⟨(f.name, p) :: kvs, c1 ++ c2, ?_, by simp [serCallsFields, hcl1, hcl2], by simp [simpleKvs, hs1, hs2], (f.name, w) :: wkvs,
          by simp [toJsonKvs, hj1, hj2], ?_, ?_⟩
        · simp [dumpFields, hu, hann, hd1, hd2, hkey]
        · simp [coerceKvs, hfind, hco1, hco2, optInt, hu, provided]
        · simp [optInt, hu, absentOK, hab2]
end

end Ariadne.ArgProofs

namespace Ariadne.ArgProofs
open Ariadne Ariadne.Scalars Ariadne.Coerce Ariadne.ArgValues Ariadne.PydLog Ariadne.InputFields Ariadne.ArgSend
open Ariadne.BaseClient (PV toJson toJsonList toJsonKvs convertValue convertList)

/-! ### top-level arguments (no annotation is consulted: the object itself travels) -/

/-- at this type no `serialize` function is configured for a scalar leaf -/
def NoSer (cfg : Cfg) (t : GT) : Prop := cfg.schema.get? t.base = some .scalar → cfg.serializeOf t.base = none

theorem leaf_Good (cfg : Cfg) (fns : UserFns) (n : String) (nn : Bool) (v : AV) (h : leafOK cfg n v = true)
    (hser : NoSer cfg (.named n nn)) : Good cfg fns (.named n nn) v (leafPV v) := by
  cases v with
  | bool b =>
    simp only [leafOK, Bool.and_eq_true, Option.isNone_iff_eq_none, beq_iff_eq] at h
    obtain ⟨hg, hn⟩ := h; subst hn
    refine ⟨rfl, .bool b, rfl, ?_⟩
    rw [coerce_named_bool]; simp [coerceLeaf, hg, coerceBoolean, intended]
  | int i =>
    simp only [leafOK, Bool.and_eq_true, Option.isNone_iff_eq_none, Bool.or_eq_true, beq_iff_eq] at h
    obtain ⟨hg, hn⟩ := h
    refine ⟨rfl, .num i 0, rfl, ?_⟩
    rw [coerce_named_num]
    rcases hn with ⟨hn, h32⟩ | hn <;> subst hn
    · simp [coerceLeaf, hg, coerceInt, integral_zero, h32, intended]
    · simp [coerceLeaf, hg, coerceFloat, intended]
  | float m e =>
    simp only [leafOK, Bool.and_eq_true, Option.isNone_iff_eq_none, beq_iff_eq] at h
    obtain ⟨hg, hn⟩ := h; subst hn
    refine ⟨rfl, .num m e, rfl, ?_⟩
    rw [coerce_named_num]; simp [coerceLeaf, hg, coerceFloat, intended]
  | str x =>
    simp only [leafOK, Bool.and_eq_true, Option.isNone_iff_eq_none, Bool.or_eq_true, beq_iff_eq] at h
    obtain ⟨hg, hn⟩ := h
    refine ⟨rfl, .str x, rfl, ?_⟩
    rw [coerce_named_str]
    rcases hn with hn | hn <;> subst hn
    · simp [coerceLeaf, hg, coerceString, intended]
    · simp [coerceLeaf, hg, coerceID, intended]
  | enum m =>
    simp only [leafOK] at h
    cases hg : cfg.schema.get? n with
    | none => simp [hg] at h
    | some ty =>
      cases ty with
      | enum vals =>
        simp [hg] at h
        refine ⟨rfl, .str m, rfl, ?_⟩
        rw [coerce_named_str]; simp [coerceLeaf, hg, h, intended]
      | _ => simp [hg] at h
  | custom sc j =>
    simp only [leafOK, Bool.and_eq_true, beq_iff_eq, Bool.not_eq_true'] at h
    obtain ⟨⟨hsc, hj⟩, hk⟩ := h
    subst hsc
    cases hg : cfg.schema.get? sc with
    | none => simp [hg] at hk
    | some ty =>
      cases ty with
      | scalar =>
        have hs : cfg.serializeOf sc = none := hser (by simpa [GT.base] using hg)
        refine ⟨rfl, j, rfl, ?_⟩
        rw [coerce_named_scalar cfg.schema sc nn j hg hj]; simp [intended, hs]
      | _ => simp [hg] at hk
  | _ => simp [leafOK] at h

/-- a model instance anywhere: its dump travels -/
theorem model_Good (cfg : Cfg) (fns : UserFns) (hy : Hyp cfg fns) (n : String) (nn : Bool) (cls : String)
    (fields : List (FieldKey × AV)) (ht : hasType cfg (.named n nn) (.model cls fields) = true) :
    ∃ kvs calls, dumpFields fns fields = .ok (kvs, calls) ∧ calls = serCallsFields cfg fields ∧
      Good cfg fns (.named n nn) (.model cls fields) (.dict kvs) := by
  simp only [hasType, Bool.and_eq_true, beq_iff_eq] at ht
  obtain ⟨hcls, hm⟩ := ht
  subst hcls
  cases hg : cfg.schema.get? cls with
  | none => simp [hg] at hm
  | some ty =>
    cases ty with
    | input fs =>
      simp only [hg] at hm
      have hnd := hy.fieldsNodup cls fs hg
      obtain ⟨kvs, calls, hd, hcl, hs, wkvs, hj, hco, hab⟩ :=
        dumpFields_good cfg fns hy fs fs fields hm (fun f hf => findField_of_mem fs hnd f hf)
      refine ⟨kvs, calls, hd, hcl, by simpa [simple] using hs, .obj wkvs, by simp [toJson, hj], ?_⟩
      simp only [coerce, GT.base, GT.depth, hg, hco, assemble_provided fs _ hnd hab, wrapN, intended,
        Cfg.fieldsOf, intendedFields_eq]
    | _ => simp [hg] at hm

mutual
theorem obj_good (cfg : Cfg) (fns : UserFns) (hy : Hyp cfg fns) (t : GT) (v : AV)
    (ht : hasType cfg t v = true) (hser : NoSer cfg t) :
    ∃ o calls, objOf fns v = .ok (o, calls) ∧ calls = serCalls cfg v ∧ Good cfg fns t v (convertValue o) := by
  cases v with
  | none =>
    have hnn : t.nonNull = false := by cases t <;> simpa [hasType] using ht
    refine ⟨.none, [], rfl, by simp [serCalls], rfl, .null, rfl, ?_⟩
    cases t <;> simp [coerce, hnn, intended]
  | unset => rw [hasType_unset] at ht; cases ht
  | bool b =>
    cases t with
    | named n nn => exact ⟨.bool b, [], rfl, by simp [serCalls], leaf_Good cfg fns n nn _ (by simpa [hasType] using ht) hser⟩
    | list it nn => simp [hasType] at ht
  | int i =>
    cases t with
    | named n nn => exact ⟨.num i 0, [], rfl, by simp [serCalls], leaf_Good cfg fns n nn _ (by simpa [hasType] using ht) hser⟩
    | list it nn => simp [hasType] at ht
  | float m e =>
    cases t with
    | named n nn => exact ⟨.num m e, [], rfl, by simp [serCalls], leaf_Good cfg fns n nn _ (by simpa [hasType] using ht) hser⟩
    | list it nn => simp [hasType] at ht
  | str s =>
    cases t with
    | named n nn => exact ⟨.str s, [], rfl, by simp [serCalls], leaf_Good cfg fns n nn _ (by simpa [hasType] using ht) hser⟩
    | list it nn => simp [hasType] at ht
  | enum m =>
    cases t with
    | named n nn => exact ⟨.str m, [], rfl, by simp [serCalls], leaf_Good cfg fns n nn _ (by simpa [hasType] using ht) hser⟩
    | list it nn => simp [hasType] at ht
  | custom sc j =>
    cases t with
    | named n nn =>
      have hl : leafOK cfg n (.custom sc j) = true := by simpa [hasType] using ht
      refine ⟨.leaf (some j), [], rfl, ?_, leaf_Good cfg fns n nn _ hl hser⟩
      -- at this type no serialize function is configured, so the scalar is entitled to no call
      simp only [leafOK, Bool.and_eq_true, beq_iff_eq] at hl
      obtain ⟨⟨hsc, _⟩, hk⟩ := hl
      subst hsc
      cases hg : cfg.schema.get? sc with
      | none => simp [hg] at hk
      | some ty =>
        cases ty with
        | scalar =>
          have hno : cfg.serializeOf sc = none := hser (by simpa [GT.base] using hg)
          simp [serCalls, hno]
        | _ => simp [hg] at hk
    | list it nn => simp [hasType] at ht
  | list xs =>
    cases t with
    | named n nn => simp [hasType] at ht
    | list it nn =>
      have ht' : hasTypeList cfg it xs = true := by simpa [hasType] using ht
      obtain ⟨os, calls, hd, hcl, hs, ws, hj, hco⟩ := objs_good cfg fns hy it xs ht' (by simpa [NoSer, GT.base] using hser)
      refine ⟨.list os, calls, by simp only [objOf, hd], by simp [serCalls, hcl], by simpa [convertValue, simple] using hs, .arr ws,
        by simp [convertValue, toJson, hj], ?_⟩
      simp [coerce, hco, intended]
  | model cls fields =>
    cases t with
    | list it nn => simp [hasType] at ht
    | named n nn =>
      obtain ⟨kvs, calls, hd, hcl, hgood⟩ := model_Good cfg fns hy n nn cls fields ht
      exact ⟨.model (.dict kvs) none, calls, by simp only [objOf, hd], by simp [serCalls, hcl], by simpa [convertValue] using hgood⟩
theorem objs_good (cfg : Cfg) (fns : UserFns) (hy : Hyp cfg fns) (it : GT) (xs : List AV)
    (ht : hasTypeList cfg it xs = true) (hser : NoSer cfg it) :
    ∃ os calls, objsOf fns xs = .ok (os, calls) ∧ calls = serCallsList cfg xs ∧ simpleList (convertList os) = true ∧
      ∃ ws, toJsonList (convertList os) = some ws ∧ coerceList cfg.schema it ws = .ok (intendedList cfg fns xs) := by
  cases xs with
  | nil => exact ⟨[], [], rfl, by simp [serCallsList], rfl, [], rfl, by simp [coerceList, intendedList]⟩
  | cons x xs =>
    simp only [hasTypeList, Bool.and_eq_true] at ht
    obtain ⟨o, c1, hd1, hc1, hs1, w, hj1, hco1⟩ := obj_good cfg fns hy it x ht.1 hser
    obtain ⟨os, c2, hd2, hc2, hs2, ws, hj2, hco2⟩ := objs_good cfg fns hy it xs ht.2 hser
    refine ⟨o :: os, c1 ++ c2, by simp [objsOf, hd1, hd2], by simp [serCallsList, hc1, hc2], by simp [convertList, simpleList, hs1, hs2], w :: ws,
      by simp [convertList, toJsonList, hj1, hj2], by simp [coerceList, hco1, hco2, intendedList]⟩
end

end Ariadne.ArgProofs

namespace Ariadne.ArgProofs
open Ariadne Ariadne.Scalars Ariadne.Coerce Ariadne.ArgValues Ariadne.PydLog Ariadne.InputFields Ariadne.ArgSend
open Ariadne.BaseClient (PV toJson toJsonList toJsonKvs convertValue convertList convertDict sep sepList sepDict Entry)

/-! ### `_get_files_from_variables` leaves an Upload-free tree alone -/

mutual
theorem sep_simple (path : String) (p : PV) (st : List Entry) (h : simple p = true) : sep path p st = (p, st) := by
  cases p with
  | list xs => simp [sep, sepList_simple path 0 xs st (by simpa [simple] using h)]
  | dict kvs => simp [sep, sepDict_simple path kvs st (by simpa [simple] using h)]
  | upload i => simp [simple] at h
  | _ => simp [sep]
theorem sepList_simple (path : String) (i : Nat) (xs : List PV) (st : List Entry) (h : simpleList xs = true) :
    sepList path i xs st = (xs, st) := by
  cases xs with
  | nil => simp [sepList]
  | cons x xs =>
    simp only [simpleList, Bool.and_eq_true] at h
    simp [sepList, sep_simple _ x st h.1, sepList_simple path (i + 1) xs st h.2]
theorem sepDict_simple (path : String) (kvs : List (String × PV)) (st : List Entry) (h : simpleKvs kvs = true) :
    sepDict path kvs st = (kvs, st) := by
  cases kvs with
  | nil => simp [sepDict]
  | cons kv rest =>
    obtain ⟨k, x⟩ := kv
    simp only [simpleKvs, Bool.and_eq_true] at h
    simp [sepDict, sep_simple _ x st h.1, sepDict_simple path rest st h.2]
end

/-- `_process_variables` + `json.dumps` on a dict whose converted values are Upload-free -/
theorem payloadOf_simple (vars : List (String × PV)) (h : simpleKvs (convertDict vars) = true) :
    payloadOf vars = toJsonKvs (convertDict vars) := by
  cases vars with
  | nil => simp [payloadOf, BaseClient.processVariables, convertDict]
  | cons kv rest => simp [payloadOf, BaseClient.processVariables, sepDict_simple _ _ _ h]

/-! ### from the `variables` dict to the coerced variables -/

/-- the object a top-level argument is bound to: the caller's object, or `UNSET` when omitted -/
def argObj (fns : UserFns) (v : AV) : PV :=
  match objOf fns v with
  | .ok (o, _) => o
  | .error _ => .none

/-- per variable: its intended value, or nothing when the argument is omitted -/
def optIntTop (cfg : Cfg) (fns : UserFns) : List AV → List (Option J)
  | [] => []
  | v :: vs => (if v.isUnset then none else some (intended cfg fns v)) :: optIntTop cfg fns vs

/-- the `variables` dict of a supported method, entry by entry: the bound object, or for a
    non-null custom scalar with `serialize` the serialized scalar -/
def entryOf (cfg : Cfg) (fns : UserFns) (d : IField) (v : AV) : PV :=
  if v.isUnset then .unset
  else
    match v, cfg.serOfType d.type with
    | .custom _ j, some f => .leaf (some (fns.ser f j))
    | _, _ => argObj fns v

def dictPart (cfg : Cfg) (d : IField) (v : AV) : List Call :=
  match v, cfg.serOfType d.type with
  | .custom _ j, some f => [⟨f, .leaf (some j)⟩]
  | _, _ => []

/-- the serialize calls made while the dict literal of a supported method is evaluated: one per
    `Scalar!` argument whose scalar has `serialize` -/
def dictCalls (cfg : Cfg) : List IField → List AV → List Call
  | d :: ds, v :: vs => dictPart cfg d v ++ dictCalls cfg ds vs
  | _, _ => []

def dictOf (cfg : Cfg) (fns : UserFns) : List IField → List AV → List (String × PV)
  | d :: ds, v :: vs => (d.name, entryOf cfg fns d v) :: dictOf cfg fns ds vs
  | _, _ => []

/-- the serialize triggers, on the coercion view: a variable whose base scalar has `serialize`
    configured is a plain non-null `Scalar!` -/
def serTopOK (cfg : Cfg) : List IField → Bool
  | [] => true
  | d :: ds =>
    (match cfg.serOfType d.type with
     | some _ => d.type.nonNull && !d.type.isList
     | none => true) && serTopOK cfg ds

theorem entry_good (cfg : Cfg) (fns : UserFns) (hy : Hyp cfg fns) (d : IField) (v : AV)
    (ht : hasType cfg d.type v = true)
    (hs : (match cfg.serOfType d.type with
           | some _ => d.type.nonNull && !d.type.isList
           | none => true) = true) :
    Good cfg fns d.type v (convertValue (entryOf cfg fns d v)) := by
  have hu : v.isUnset = false := by
    cases v <;> simp [AV.isUnset]
    rw [hasType_unset] at ht; cases ht
  cases hser : cfg.serOfType d.type with
  | none =>
    have hns : NoSer cfg d.type := by
      intro hsc; simpa [Cfg.serOfType, Cfg.isScalar, hsc] using hser
    obtain ⟨o, calls, ho, _, hg⟩ := obj_good cfg fns hy d.type v ht hns
    have : entryOf cfg fns d v = o := by
      simp only [entryOf, hu, hser, argObj, ho]
      cases v <;> simp
    rw [this]; exact hg
  | some f =>
    rw [hser] at hs
    simp only [Bool.and_eq_true, Bool.not_eq_true'] at hs
    have hsc : cfg.schema.get? d.type.base = some .scalar := by
      simp only [Cfg.serOfType, Cfg.isScalar] at hser
      cases hg : cfg.schema.get? d.type.base with
      | none => simp [hg] at hser
      | some ty => cases ty <;> simp [hg] at hser ⊢
    have hf : cfg.serializeOf d.type.base = some f := by simpa [Cfg.serOfType, Cfg.isScalar, hsc] using hser
    -- the type is `Scalar!`, so the value is a scalar value
    cases hty : d.type with
    | list it nn => rw [hty] at hs; simp [GT.isList] at hs
    | named n nn =>
      rw [hty] at ht hs hsc hf
      simp only [GT.nonNull, GT.base] at hs hsc hf
      cases v with
      | custom sc j =>
        have hl : leafOK cfg n (.custom sc j) = true := by simpa [hasType] using ht
        simp only [leafOK, Bool.and_eq_true, beq_iff_eq, Bool.not_eq_true'] at hl
        obtain ⟨⟨hscn, hj⟩, _⟩ := hl
        subst hscn
        have he : entryOf cfg fns d (.custom sc j) = .leaf (some (fns.ser f j)) := by
          simp [entryOf, AV.isUnset, hty, Cfg.serOfType, Cfg.isScalar, GT.base, hsc, hf]
        rw [he]
        refine ⟨rfl, fns.ser f j, rfl, ?_⟩
        rw [coerce_named_scalar cfg.schema sc nn _ hsc (hy.serNonNull f j)]
        simp [intended, hf]
      | none => simp [hasType, GT.nonNull, hs.1] at ht
      | unset => simp [hasType] at ht
      | bool b => simp [hasType, leafOK, hsc] at ht
      | int i => simp [hasType, leafOK, hsc] at ht
      | float m e => simp [hasType, leafOK, hsc] at ht
      | str s => simp [hasType, leafOK, hsc] at ht
      | enum m => simp [hasType, leafOK, hsc] at ht
      | list xs => simp [hasType] at ht
      | model cls fields => simp [hasType, hsc] at ht

/-- the semantic half of C03: the dict of a supported method, converted and written as JSON, is
    coerced by the server to exactly the intended values -/
theorem dict_coerces (cfg : Cfg) (fns : UserFns) (hy : Hyp cfg fns) (full : List IField) (ds : List IField) (vs : List AV)
    (hv : argsValid cfg ds vs = true) (hs : serTopOK cfg ds = true)
    (hsub : ∀ d ∈ ds, findField full d.name = some d) :
    simpleKvs (convertDict (dictOf cfg fns ds vs)) = true ∧
    ∃ ws, toJsonKvs (convertDict (dictOf cfg fns ds vs)) = some ws ∧
      coerceGiven cfg.schema full ws = .ok (provided ds (optIntTop cfg fns vs)) ∧
      absentOK ds (optIntTop cfg fns vs) = true := by
  induction ds generalizing vs with
  | nil =>
    cases vs with
    | nil => exact ⟨rfl, [], rfl, by simp [coerceGiven, provided, optIntTop], by simp [absentOK, optIntTop]⟩
    | cons v vs => simp [argsValid] at hv
  | cons d ds ih =>
    cases vs with
    | nil => simp [argsValid] at hv
    | cons v vs =>
      simp only [argsValid, Bool.and_eq_true, Bool.or_eq_true, Bool.not_eq_true'] at hv
      simp only [serTopOK, Bool.and_eq_true] at hs
      obtain ⟨hs1, ws, hj, hco, hab⟩ := ih vs hv.2 hs.2 (fun e he => hsub e (List.mem_cons_of_mem _ he))
      by_cases hu : v.isUnset = true
      · have hnn : d.type.nonNull = false := by
          rcases hv.1 with h | h
          · exact h.2
          · cases v <;> simp [AV.isUnset] at hu
            rw [hasType_unset] at h; cases h
        have he : entryOf cfg fns d v = .unset := by simp [entryOf, hu]
        refine ⟨by simpa [dictOf, convertDict, he, PV.isUnset] using hs1, ws, by simpa [dictOf, convertDict, he, PV.isUnset] using hj, ?_, ?_⟩
        · simp [optIntTop, hu, provided, hco]
        · simp [optIntTop, hu, absentOK, hab, hnn]
      · have ht : hasType cfg d.type v = true := by
          rcases hv.1 with h | h
          · exact absurd h.1 hu
          · exact h
        obtain ⟨hsi, w, hjw, hcw⟩ := entry_good cfg fns hy d v ht hs.1
        have hne : (entryOf cfg fns d v).isUnset = false := by
          cases he : entryOf cfg fns d v with
          | unset => rw [he] at hsi; simp [convertValue, simple] at hsi
          | _ => rfl
        have hfind := hsub d List.mem_cons_self
        refine ⟨by simp [dictOf, convertDict, hne, simpleKvs, hsi, hs1], (d.name, w) :: ws,
          by simp [dictOf, convertDict, hne, toJsonKvs, hjw, hj], ?_, ?_⟩
        · simp [coerceGiven, hfind, hcw, hco, optIntTop, hu, provided]
        · simp [optIntTop, hu, absentOK, hab]

end Ariadne.ArgProofs
