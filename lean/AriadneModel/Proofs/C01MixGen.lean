/-
  Proofs/C01MixGen.lean — property C01, "mixin" tier, part (1): the generator succeeds and returns exactly `mClass`;
  no marks are added (there is no abstract position in this tier).
-/
import AriadneModel.Proofs.C01MixDefs
import AriadneModel.Proofs.C01PlainGen

set_option linter.unusedSimpArgs false
set_option linter.unusedVariables false

namespace Ariadne.C01Mix
open Ariadne Ariadne.Gql Ariadne.ResultTypes Ariadne.Util Ariadne.C01Plain

/-! ### shapes -/

theorem flatMap_congr' {α β : Type} : ∀ (l : List α) (f g : α → List β), (∀ a ∈ l, f a = g a) → l.flatMap f = l.flatMap g
  | [], _, _, _ => rfl
  | a :: l, f, g, h => by
    simp only [List.flatMap_cons, h a List.mem_cons_self,
      flatMap_congr' l f g (fun b hb => h b (List.mem_cons_of_mem _ hb))]


def isSpread : Selection → Bool
  | .spread .. => true
  | _ => false

theorem mLocal_iff (env : Env) (k : Nat) (cn tn : String) (sel : List Selection) :
    mLocal env k cn tn sel = true ↔ ∀ s ∈ sel, mLocal1 env k cn tn s = true := by
  induction sel with
  | nil => simp [mLocal]
  | cons s rest ih => simp [mLocal, ih]

theorem sidFree_iff (M : List Nat) (sel : List Selection) :
    sidFree M sel = true ↔ ∀ s ∈ sel, sidFree1 M s = true := by
  induction sel with
  | nil => simp [sidFree]
  | cons s rest ih => simp [sidFree, ih]

mutual
  theorem sidFree_nil : ∀ sel : List Selection, sidFree [] sel = true
    | [] => by simp [sidFree]
    | s :: rest => by simp [sidFree, sidFree1_nil s, sidFree_nil rest]
  theorem sidFree1_nil : ∀ s : Selection, sidFree1 [] s = true
    | .field _ _ _ _ sub => by simp [sidFree1, sidFree_nil sub]
    | .spread _ _ => by simp [sidFree1]
    | .inline _ _ _ sub => by simp [sidFree1, sidFree_nil sub]
end

theorem mLocal1_shape {env : Env} {k : Nat} {cn tn : String} {s : Selection} (h : mLocal1 env k cn tn s = true) :
    isField s = true ∨ isSpread s = true := by
  cases s with
  | field a n d sid sub => exact Or.inl rfl
  | spread n d => exact Or.inr rfl
  | inline on d sid ss => simp [mLocal1] at h

theorem mLocal1_spread {env : Env} {k : Nat} {cn tn n : String} {d : List Directive}
    (h : mLocal1 env k cn tn (.spread n d) = true) :
    hasConditionalDirective d = false ∧ ∃ f, findFragment? env.frags n = some f ∧ f.on = tn := by
  simp only [mLocal1, Bool.and_eq_true, Bool.not_eq_true'] at h
  refine ⟨h.1, ?_⟩
  cases hf : findFragment? env.frags n with
  | none => simp [hf] at h
  | some f => exact ⟨f, rfl, by simpa [hf] using h.2⟩

theorem no_inline_of_mLocal {env : Env} {k : Nat} {cn tn : String} {sel : List Selection}
    (h : mLocal env k cn tn sel = true) :
    (sel.any fun s => match s with | .inline .. => true | _ => false) = false := by
  rw [List.any_eq_false]
  intro s hs
  have := mLocal1_shape ((mLocal_iff env k cn tn sel).mp h s hs)
  cases s <;> simp_all [isField, isSpread]

/-- all fragment definitions are fit to be mixins -/
def FragsOK (env : Env) (k : Nat) : Prop := ∀ f ∈ env.frags, fragOK env k f = true

theorem fragOK_spec {env : Env} {k : Nat} {f : Fragment} (h : fragOK env k f = true) :
    env.schema.kindOf? f.on = some .object ∧ (f.dirs.any (·.name == Tables.mixinName)) = false ∧
    msetOK env k (pascal f.name) f.sel = true ∧ mLocal env k (pascal f.name) f.on f.sel = true ∧
    mfull env k f.on f.sel = true ∧ mfullS env (fragDepth env) f.sel = true := by
  simp only [fragOK, Bool.and_eq_true, beq_iff_eq, Bool.not_eq_true'] at h
  exact ⟨h.1.1.1.1.1, h.1.1.1.1.2, h.1.1.1.2, h.1.1.2, h.1.2, h.2⟩

theorem find_mem {frags : List Fragment} {n : String} {f : Fragment} (h : findFragment? frags n = some f) :
    f ∈ frags ∧ f.name = n := by
  unfold findFragment? at h
  exact ⟨List.mem_of_find?_eq_some h, by simpa using List.find?_some h⟩

theorem get_of_kind {S : Schema} {n : String} {kd : Kind} (h : S.kindOf? n = some kd) : (S.get? n).isSome = true := by
  unfold Schema.kindOf? at h
  cases hg : S.get? n with
  | none => simp [hg] at h
  | some t => rfl

/-- a mixin fragment is not unpacked at a position of its own type -/
theorem not_unpacked {env : Env} {k : Nat} (hfr : FragsOK env k) {n : String} {f : Fragment}
    (hf : findFragment? env.frags n = some f) : unpackFragment env f (some f.on) = false ∧ unpackFragment env f none = false := by
  obtain ⟨hk, _, _, hloc, _⟩ := fragOK_spec (hfr f (find_mem hf).1)
  have hany : ∀ x ∈ f.sel, (match x with | Selection.inline .. => true | _ => false) = false := by
    intro x hx
    have := mLocal1_shape ((mLocal_iff _ _ _ _ _).mp hloc x hx)
    cases x <;> simp_all [isField, isSpread]
  unfold unpackFragment
  constructor
  · simp [hk]; exact hany
  · simp [hk]; exact hany

/-! ### `_resolve_selection_set` with mixin spreads -/

theorem resolveLoop_mix (env : Env) (k : Nat) (hfr : FragsOK env k) (fuel : Nat) (cn root : String)
    (hroot : env.schema.kindOf? root = some .object) :
    ∀ (sels : List Selection) (acc : Acc) (s : St), (∀ x ∈ sels, mLocal1 env k cn root x = true) →
      forIn sels acc (resolveBody env fuel root) s =
        .ok ((acc.1 ++ (sels.filter isField).map toR, (sels.filterMap spreadName?).foldl setAdd acc.2), s) := by
  intro sels
  induction sels with
  | nil => intro acc s _; simp [List.forIn_nil]; rfl
  | cons x rest ih =>
    intro acc s h
    have hx := h x List.mem_cons_self
    have hr := fun y hy => h y (List.mem_cons_of_mem _ hy)
    rw [List.forIn_cons]
    cases x with
    | field alias name dirs sid sub =>
      refine run_bind (a := .yield (acc.1 ++ [⟨alias, name, dirs, sid, sub⟩], acc.2)) (s' := s) rfl ?_
      simp only []
      rw [ih _ _ hr]
      simp [isField, toR, spreadName?, List.filter_cons, List.filterMap_cons, List.append_assoc]
    | inline on d sid ss => simp [mLocal1] at hx
    | spread n d =>
      obtain ⟨_, f, hf, hon⟩ := mLocal1_spread hx
      have hnu := (not_unpacked hfr hf).1
      rw [hon] at hnu
      refine run_bind (a := .yield (acc.1, setAdd acc.2 n)) (s' := s) ?_ ?_
      · have h1 : (env.schema.get? root).isNone = false := by
          have := get_of_kind hroot; cases hg : env.schema.get? root <;> simp_all
        have h2 : (env.schema.get? f.on).isNone = false := by rw [hon]; exact h1
        simp only [resolveBody, hf, h1, h2, hnu, Bool.false_eq_true, if_false, Bool.not_false, if_true]
        rfl
      · simp only []
        rw [ih _ _ hr]
        simp [isField, spreadName?, List.filter_cons, List.filterMap_cons]

theorem resolve_mix (env : Env) (k : Nat) (hfr : FragsOK env k) (fuel : Nat) (cn root : String)
    (hroot : env.schema.kindOf? root = some .object) (sels : List Selection) (st : St)
    (h : ∀ x ∈ sels, mLocal1 env k cn root x = true) :
    resolve env (fuel + 1) sels root st =
      .ok (((sels.filter isField).map toR, spreadNames sels), { st with mixins := setUnion st.mixins (spreadNames sels) }) := by
  rw [resolve_succ]
  refine run_bind (resolveLoop_mix env k hfr fuel cn root hroot sels ([], []) st h) ?_
  refine run_bind (run_modify _ _) ?_
  simp [run_pure, spreadNames]

/-! ### the class descriptions only see the fields -/

theorem plainDecls_filter (env : Env) (cn tn : String) (sel : List Selection) :
    plainDecls env cn tn (sel.filter isField) = plainDecls env cn tn sel := by
  unfold plainDecls
  induction sel with
  | nil => rfl
  | cons x rest ih =>
    cases x with
    | field a n d sid sub => simp [List.filter_cons, isField, ih]
    | spread n d => simp [List.filter_cons, isField, plainDecl1, ih]
    | inline on d sid ss => simp [List.filter_cons, isField, plainDecl1, ih]

theorem mExtra_eq (env : Env) (cn tn : String) : ∀ sel : List Selection,
    mExtra env cn tn sel = sel.flatMap (mExtra1 env cn tn)
  | [] => by simp [mExtra]
  | s :: rest => by simp [mExtra, mExtra_eq env cn tn rest]

theorem mExtra_filter (env : Env) (cn tn : String) (sel : List Selection) :
    (sel.filter isField).flatMap (mExtra1 env cn tn) = mExtra env cn tn sel := by
  rw [mExtra_eq]
  induction sel with
  | nil => rfl
  | cons x rest ih =>
    cases x with
    | field a n d sid sub => simp [List.filter_cons, isField, ih]
    | spread n d => simp [List.filter_cons, isField, mExtra1, ih]
    | inline on d sid ss => simp [List.filter_cons, isField, mExtra1, ih]

theorem mExtra1_sub (env : Env) (cn tn : String) (alias : Option String) (name : String) (dirs : List Directive)
    (sid : Nat) (sub : List Selection) (h : sub.isEmpty = false) :
    mExtra1 env cn tn (.field alias name dirs sid sub) =
      mClass env (subClass env cn alias name) (subType env tn name) sub := by
  simp [mExtra1, h, mClass]

theorem mExtra1_leaf (env : Env) (cn tn : String) (alias : Option String) (name : String) (dirs : List Directive)
    (sid : Nat) (sub : List Selection) (h : sub.isEmpty = true) :
    mExtra1 env cn tn (.field alias name dirs sid sub) = [] := by
  simp [mExtra1, h]

/-! ### the induction -/

def GenSpec (env : Env) (k : Nat) (f : Nat) : Prop :=
  ∀ (cn tn : String) (sid : Nat) (sel : List Selection) (tv : List String) (st : St),
    gfuel sel ≤ f → st.marks.contains sid = false → sidFree st.marks sel = true →
    env.schema.kindOf? tn = some .object → mLocal env k cn tn sel = true →
    ((mClass env cn tn sel).map (·.name)).Nodup →
    (∀ n ∈ (mClass env cn tn sel).map (·.name), n ∉ st.publicNames) →
    ∃ st', parseTypeDefinition env f cn tn sid sel false [] tv st = .ok (mClass env cn tn sel, st') ∧
      st'.publicNames = st.publicNames ++ (mClass env cn tn sel).map (·.name) ∧ st'.marks = st.marks ∧
      st'.unpacked = st.unpacked

theorem fieldBody_mix (env : Env) (k : Nat) (f : Nat) (IH : GenSpec env k f) (cn tn : String) (tv : List String)
    (alias : Option String) (name : String) (dirs : List Directive) (sid : Nat) (sub : List Selection)
    (acc : FAcc) (s : St) (hfree : sidFree1 s.marks (.field alias name dirs sid sub) = true)
    (hl : mLocal1 env k cn tn (.field alias name dirs sid sub) = true)
    (hfuel : gfuel1 (.field alias name dirs sid sub) ≤ f + 2)
    (hnd : ((mExtra1 env cn tn (.field alias name dirs sid sub)).map (·.name)).Nodup)
    (hfresh : ∀ n ∈ (mExtra1 env cn tn (.field alias name dirs sid sub)).map (·.name), n ∉ s.publicNames) :
    ∃ s', fieldBody env (f + 1) cn tn tv ⟨alias, name, dirs, sid, sub⟩ acc s =
        .ok (.yield (acc.1 ++ [fieldDecl env cn tn alias name dirs sub],
                     acc.2 ++ mExtra1 env cn tn (.field alias name dirs sid sub)), s') ∧
      s'.publicNames = s.publicNames ++ (mExtra1 env cn tn (.field alias name dirs sid sub)).map (·.name) ∧
      s'.marks = s.marks ∧ s'.unpacked = s.unpacked := by
  simp only [mLocal1, Bool.and_eq_true] at hl
  obtain ⟨⟨⟨hname, hmix⟩, hfd⟩, hcase⟩ := hl
  have hmix' : (dirs.any (·.name == Tables.mixinName)) = false := by simpa using hmix
  have hT := fieldTypeFromSchema_some env tn name hfd
  by_cases hsub : sub.isEmpty = true
  · rw [if_pos hsub] at hcase
    obtain ⟨ctx, hpo⟩ := parseOperationField_leaf env (f + 1 + 1) name dirs sub (fieldT env tn name)
      (subClass env cn alias name) tv hname hcase
    refine ⟨bump s ctx, ?_, ?_, rfl, rfl⟩
    · unfold fieldBody
      refine run_bind (a := fieldT env tn name) (s' := s) (by show ResultTypes.liftExcept (fieldTypeFromSchema env tn name) s = _; rw [hT]; rfl) ?_
      refine run_bind (s' := s) (by
        show ResultTypes.liftExcept (parseOperationField env (f + 1 + 1) name dirs sub (fieldT env tn name) (subClass env cn alias name) tv) s = _
        rw [hpo]; rfl) ?_
      refine run_bind (mixinBases_none dirs s hmix') ?_
      refine run_bind (a := []) (s' := s) (by
        show parseFieldSelectionSetTypes env (f + 1) sid sub ctx [] s = _
        rw [parseFieldSelectionSetTypes_succ, if_pos hsub]; rfl) ?_
      refine run_bind (run_modify _ _) ?_
      rw [run_pure, mExtra1_leaf _ _ _ _ _ _ _ _ hsub]
      simp only [fieldDecl, hsub, if_true, RField.key, List.append_nil]
      rw [isUnionAnn_condAnn _ _ (isUnionAnn_wrapAnn _ (by rw [ResultLeaf.leafBase_eq]; exact Or.inl ⟨_, rfl⟩) _ _)]
      rfl
    · rw [mExtra1_leaf _ _ _ _ _ _ _ _ hsub]; simp [bump]
  · have hsub' : sub.isEmpty = false := by simpa using hsub
    rw [if_neg hsub] at hcase
    simp only [Bool.and_eq_true, beq_iff_eq] at hcase
    obtain ⟨⟨⟨hkind, _⟩, _⟩, hrec⟩ := hcase
    have hpo := parseOperationField_obj env (f + 1 + 1) name dirs sub (fieldT env tn name)
      (subClass env cn alias name) tv hname hkind
    rw [mExtra1_sub _ _ _ _ _ _ _ _ hsub'] at hnd hfresh ⊢
    have hfu : gfuel sub ≤ f := by simp only [gfuel1] at hfuel; omega
    simp only [sidFree1, hsub', Bool.false_or, Bool.and_eq_true, Bool.not_eq_true'] at hfree
    obtain ⟨s1, hrun, hpn, hmk, hup⟩ := IH (subClass env cn alias name) (subType env tn name) sid sub
      (((typenameValues env [(subClass env cn alias name, subType env tn name)]).find?
        (·.1 == subType env tn name)).map (·.2) |>.getD []) s hfu hfree.1 hfree.2 hkind hrec hnd hfresh
    refine ⟨bump s1 { related := [(subClass env cn alias name, subType env tn name)] }, ?_, hpn, hmk, hup⟩
    unfold fieldBody
    refine run_bind (a := fieldT env tn name) (s' := s) (by show ResultTypes.liftExcept (fieldTypeFromSchema env tn name) s = _; rw [hT]; rfl) ?_
    refine run_bind (s' := s) (by
      show ResultTypes.liftExcept (parseOperationField env (f + 1 + 1) name dirs sub (fieldT env tn name) (subClass env cn alias name) tv) s = _
      rw [hpo]; rfl) ?_
    refine run_bind (mixinBases_none dirs s hmix') ?_
    refine run_bind (a := mClass env (subClass env cn alias name) (subType env tn name) sub) (s' := s1) (by
      show parseFieldSelectionSetTypes env (f + 1) sid sub { related := [(subClass env cn alias name, subType env tn name)] } [] s = _
      rw [parseFieldSelectionSetTypes_succ, if_neg hsub]
      refine run_bind (a := mClass env (subClass env cn alias name) (subType env tn name) sub) (s' := s1) ?_ rfl
      rw [List.forIn_cons]
      refine run_bind (a := .yield ([] ++ mClass env (subClass env cn alias name) (subType env tn name) sub)) (s' := s1) ?_ (by simp; rfl)
      unfold relatedBody
      exact run_bind hrun rfl) ?_
    refine run_bind (run_modify _ _) ?_
    rw [run_pure]
    simp only [fieldDecl, hsub', RField.key]
    rw [isUnionAnn_condAnn _ _ (isUnionAnn_wrapAnn _ (Or.inr ⟨_, rfl⟩) _ _)]
    rfl

theorem fieldLoop_mix (env : Env) (k : Nat) (f : Nat) (IH : GenSpec env k f) (cn tn : String) (tv : List String) :
    ∀ (fl : List Selection) (acc : FAcc) (s : St), (∀ x ∈ fl, sidFree1 s.marks x = true) →
      (∀ x ∈ fl, isField x = true ∧ mLocal1 env k cn tn x = true) →
      (∀ x ∈ fl, gfuel1 x ≤ f + 2) →
      ((fl.flatMap (mExtra1 env cn tn)).map (·.name)).Nodup →
      (∀ n ∈ (fl.flatMap (mExtra1 env cn tn)).map (·.name), n ∉ s.publicNames) →
      ∃ s', forIn (fl.map toR) acc (fieldBody env (f + 1) cn tn tv) s =
          .ok ((acc.1 ++ plainDecls env cn tn fl, acc.2 ++ fl.flatMap (mExtra1 env cn tn)), s') ∧
        s'.publicNames = s.publicNames ++ (fl.flatMap (mExtra1 env cn tn)).map (·.name) ∧ s'.marks = s.marks ∧
        s'.unpacked = s.unpacked := by
  intro fl
  induction fl with
  | nil =>
    intro acc s hmk _ _ _ _
    exact ⟨s, by simp [plainDecls]; rfl, by simp, rfl, rfl⟩
  | cons x rest ih =>
    intro acc s hmk hloc hfu hnd hfresh
    obtain ⟨hxf, hx⟩ := hloc x List.mem_cons_self
    cases x with
    | spread n d => simp [isField] at hxf
    | inline on d sid sub => simp [isField] at hxf
    | field alias name dirs sid sub =>
      simp only [List.flatMap_cons, List.map_append] at hnd hfresh
      obtain ⟨hnd1, hnd2, hdisj⟩ := List.nodup_append.mp hnd
      obtain ⟨s1, hstep, hpn1, hmk1, hup1⟩ := fieldBody_mix env k f IH cn tn tv alias name dirs sid sub acc s
        (hmk _ List.mem_cons_self) hx
        (hfu _ List.mem_cons_self) hnd1 (fun n hn => hfresh n (List.mem_append_left _ hn))
      obtain ⟨s2, hrest, hpn2, hmk2, hup2⟩ := ih
        (acc.1 ++ [fieldDecl env cn tn alias name dirs sub], acc.2 ++ mExtra1 env cn tn (.field alias name dirs sid sub)) s1
        (fun y hy => by rw [hmk1]; exact hmk y (List.mem_cons_of_mem _ hy))
        (fun y hy => hloc y (List.mem_cons_of_mem _ hy))
        (fun y hy => hfu y (List.mem_cons_of_mem _ hy)) hnd2
        (fun n hn => by
          rw [hpn1]
          intro hmem
          rcases List.mem_append.mp hmem with h | h
          · exact hfresh n (List.mem_append_right _ hn) h
          · exact hdisj _ h _ hn rfl)
      refine ⟨s2, ?_, ?_, by rw [hmk2, hmk1], by rw [hup2, hup1]⟩
      · simp only [List.map_cons, toR]
        rw [List.forIn_cons]
        refine run_bind hstep ?_
        simp only []
        rw [hrest, plainDecls_cons_field]
        simp [List.append_assoc]
      · rw [hpn2, hpn1]; simp [List.append_assoc]

theorem gfuel_filter (sel : List Selection) (x : Selection) (h : x ∈ sel.filter isField) : gfuel1 x ≤ gfuel sel :=
  gfuel_mem sel x (List.mem_filter.mp h).1

/-- **part (1), all fuels** -/
theorem gen_spec (env : Env) (k : Nat) (hfr : FragsOK env k) : ∀ f : Nat, GenSpec env k f
  | 0 => by
    intro cn tn sid sel tv st hfu; have := gfuel_ge sel; omega
  | 1 => by
    intro cn tn sid sel tv st hfu; have := gfuel_ge sel; omega
  | f + 2 => by
    intro cn tn sid sel tv st hfu hmark hfree hkind hloc hnd hfresh
    have IH := gen_spec env k hfr f
    have hlocs := (mLocal_iff env k cn tn sel).mp hloc
    have hfrees := (sidFree_iff st.marks sel).mp hfree
    simp only [mClass, List.map_cons, List.nodup_cons] at hnd
    have hcn : st.publicNames.contains cn = false := by
      have := hfresh cn (by simp [mClass])
      simpa using this
    have hres := resolve_mix env k hfr (f + 1) cn tn hkind sel { st with publicNames := st.publicNames ++ [cn] } hlocs
    obtain ⟨s', hloop, hpn, hmk, hup⟩ := fieldLoop_mix env k f IH cn tn tv (sel.filter isField) ([], [])
      { st with publicNames := st.publicNames ++ [cn], mixins := setUnion st.mixins (spreadNames sel) }
      (fun x hx => hfrees x (List.mem_filter.mp hx).1)
      (fun x hx => ⟨(List.mem_filter.mp hx).2, hlocs x (List.mem_filter.mp hx).1⟩)
      (fun x hx => Nat.le_trans (gfuel_filter sel x hx) hfu)
      (by rw [mExtra_filter]; exact hnd.2)
      (fun n hn => by
        rw [mExtra_filter] at hn
        intro hmem
        rcases List.mem_append.mp hmem with h | h
        · exact hfresh n (by simp only [mClass, List.map_cons]; exact List.mem_cons_of_mem _ hn) h
        · have : n = cn := by simpa using h
          exact hnd.1 (this ▸ hn))
    refine ⟨s', ?_, ?_, hmk, hup⟩
    · rw [parseTypeDefinition_succ]
      refine run_bind (run_get st) ?_
      simp only [hcn, Bool.false_eq_true, if_false]
      refine run_bind (run_modify _ _) ?_
      refine run_bind hres ?_
      refine run_bind (run_get _) ?_
      simp only [hmark, Bool.false_eq_true, if_false, Bool.false_and]
      unfold classTail
      refine run_bind hloop ?_
      simp [run_pure, mClass, basesOf, plainDecls_filter, mExtra_filter]
    · rw [hpn, mExtra_filter]; simp [mClass, List.append_assoc]

end Ariadne.C01Mix
