/-
  Helper lemmas for C07 over abstract positions (Model/ResultUnion.lean, Spec/PydUnionLog.lean):

    * `finalAnn`: the annotation in which EVERY union is a tagged union, and the proof that the
      generator's pipeline (`rawAnn`, then `annotate_nested_unions` on the slice, then the field-level
      discriminator) produces exactly it, for every shape (`top_final`, `nested_final`);
    * validation of `finalAnn` calls `parse` exactly on the occurrences (`parse_once_final`);
    * the custom-scalar imports of a result module cover every configured scalar position.
-/
import AriadneModel.Spec.PydUnionLog
import AriadneModel.Model.ResultAnn

set_option linter.unusedSimpArgs false
set_option linter.unusedVariables false

namespace Ariadne.C07Union
open Ariadne Ariadne.Scalars Ariadne.PydLog Ariadne.ResultUnion Ariadne.PydUnionLog

/-! ### every union the generator emits is a tagged union -/

mutual
  /-- the annotation of a shape with the discriminator on every union -/
  def finalAnn (cfg : ScalarCfg) : RTU → PAnn
    | .custom sc nn => optionalIf (!nn) (.leaf (scalarLeaf cfg sc))
    | .plain py nn => optionalIf (!nn) (.leaf (.name py))
    | .tag vs => .literal vs
    | .list it nn => optionalIf (!nn) (.list (finalAnn cfg it))
    | .obj fs nn => optionalIf (!nn) (.model (finalFlds cfg fs))
    | .abs ms nn => optionalIf (!nn) (.dunion (finalMems cfg ms))
  def finalFlds (cfg : ScalarCfg) : Flds → PFlds
    | .nil => .nil
    | .cons k t rest => .cons k (finalAnn cfg t) (finalFlds cfg rest)
  def finalMems (cfg : ScalarCfg) : Mems → PMems
    | .nil => .nil
    | .cons fs rest => .cons (finalFlds cfg fs) (finalMems cfg rest)
end

mutual
  /-- `annotate_nested_unions` on the raw annotation of ANY shape (any nesting of `Optional` / `List`
      above a union) yields the fully discriminated annotation -/
  theorem nested_final (cfg : ScalarCfg) (t : RTU) : annotateNested (rawAnn cfg t) = finalAnn cfg t := by
    cases t with
    | custom sc nn => cases nn <;> simp [rawAnn, finalAnn, optionalIf, annotateNested]
    | plain py nn => cases nn <;> simp [rawAnn, finalAnn, optionalIf, annotateNested]
    | tag vs => simp [rawAnn, finalAnn, annotateNested]
    | list it nn =>
      have ih := nested_final cfg it
      cases nn <;> simp [rawAnn, finalAnn, optionalIf, annotateNested, ih]
    | obj fs nn =>
      have ih := fields_final cfg fs
      cases nn <;> simp [rawAnn, finalAnn, optionalIf, annotateNested, ih]
    | abs ms nn =>
      have ih := mems_final cfg ms
      cases nn <;> simp [rawAnn, finalAnn, optionalIf, annotateNested, ih]
  /-- the whole field pipeline: `parse_operation_field` visits only the slice, the field-level
      `Field(discriminator=…)` covers a union left at the top -/
  theorem top_final (cfg : ScalarCfg) (t : RTU) : fieldDisc (annotateTop (rawAnn cfg t)) = finalAnn cfg t := by
    cases t with
    | custom sc nn => cases nn <;> simp [rawAnn, finalAnn, optionalIf, annotateTop, annotateNested, fieldDisc]
    | plain py nn => cases nn <;> simp [rawAnn, finalAnn, optionalIf, annotateTop, annotateNested, fieldDisc]
    | tag vs => simp [rawAnn, finalAnn, annotateTop, fieldDisc]
    | list it nn =>
      have ih := nested_final cfg it
      cases nn <;> simp [rawAnn, finalAnn, optionalIf, annotateTop, annotateNested, fieldDisc, ih]
    | obj fs nn =>
      have ih := fields_final cfg fs
      cases nn <;> simp [rawAnn, finalAnn, optionalIf, annotateTop, annotateNested, fieldDisc, ih]
    | abs ms nn =>
      have ih := mems_final cfg ms
      cases nn <;> simp [rawAnn, finalAnn, optionalIf, annotateTop, annotateNested, fieldDisc, ih]
  theorem fields_final (cfg : ScalarCfg) (fs : Flds) : annFields cfg fs = finalFlds cfg fs := by
    cases fs with
    | nil => simp [annFields, finalFlds]
    | cons k t rest => simp [annFields, finalFlds, top_final cfg t, fields_final cfg rest]
  theorem mems_final (cfg : ScalarCfg) (ms : Mems) : annMems cfg ms = finalMems cfg ms := by
    cases ms with
    | nil => simp [annMems, finalMems]
    | cons fs rest => simp [annMems, finalMems, fields_final cfg fs, mems_final cfg rest]
end

/-! ### validation of the fully discriminated annotation -/

theorem collect_calls (rs : List VOut) : (collect rs).calls = (rs.map (·.calls)).flatten := by
  induction rs with
  | nil => rfl
  | cons r rs ih => simp [collect, ih]

/-- the `Literal` of a member class of the annotation is the tag set of the shape's member -/
theorem findTag_final (cfg : ScalarCfg) : (fs : Flds) → findTag (finalFlds cfg fs) = tagOf fs
  | .nil => by simp [finalFlds, findTag, tagOf]
  | .cons k t rest => by
    have ih := findTag_final cfg rest
    by_cases hk : k = typenameKey
    · cases t with
      | custom sc nn => cases nn <;> simp [finalFlds, findTag, tagOf, hk, finalAnn, optionalIf]
      | plain py nn => cases nn <;> simp [finalFlds, findTag, tagOf, hk, finalAnn, optionalIf]
      | tag vs => simp [finalFlds, findTag, tagOf, hk, finalAnn]
      | list it nn => cases nn <;> simp [finalFlds, findTag, tagOf, hk, finalAnn, optionalIf]
      | obj fs nn => cases nn <;> simp [finalFlds, findTag, tagOf, hk, finalAnn, optionalIf]
      | abs ms nn => cases nn <;> simp [finalFlds, findTag, tagOf, hk, finalAnn, optionalIf]
    · simp [finalFlds, findTag, tagOf, hk, ih]

theorem validateU_optionalIf (accept : Leaf → J → Bool) (b : Bool) (a : PAnn) (j : J) :
    validateU accept (optionalIf b a) j = if (j.isNull && b) then ⟨[], true⟩ else validateU accept a j := by
  cases b <;> simp [optionalIf, validateU]

mutual
  theorem parse_once_final (accept : Leaf → J → Bool) (cfg : ScalarCfg) (t : RTU) (j : J) (h : conformsU t j = true) :
      (validateU accept (finalAnn cfg t) j).calls = occurrencesU cfg t j := by
    cases t with
    | custom sc nn =>
      simp only [finalAnn, validateU_optionalIf, occurrencesU]
      by_cases hn : j.isNull = true
      · have hnn : nn = false := by
          simp only [conformsU, hn, Bool.true_and, Bool.not_eq_true'] at h
          exact h
        simp [hn, hnn]
      · have hn' : j.isNull = false := by simpa using hn
        simp only [hn', Bool.false_and, Bool.false_eq_true, if_false]
        simp only [validateU, scalarLeaf]
        cases lookupScalar cfg sc with
        | none => simp [validateLeaf]
        | some d => cases hp : d.parseName <;> simp [validateLeaf, resultLeaf, hp]
    | plain py nn =>
      simp only [finalAnn, validateU_optionalIf, occurrencesU]
      by_cases hn : (j.isNull && !nn) = true <;> simp [hn, validateU, validateLeaf]
    | tag vs => simp [finalAnn, validateU, occurrencesU]
    | list it nn =>
      simp only [finalAnn, validateU_optionalIf, occurrencesU]
      cases j with
      | arr xs =>
        simp only [conformsU, List.all_eq_true] at h
        simp only [J.isNull, Bool.false_and, Bool.false_eq_true, if_false, validateU, collect_calls, List.map_map]
        congr 1
        apply List.map_congr_left
        intro x hx
        exact parse_once_final accept cfg it x (h x hx)
      | null => simp [J.isNull, conformsU] at h ⊢; simp [h]
      | bool b => simp [conformsU] at h
      | num m e => simp [conformsU] at h
      | str s => simp [conformsU] at h
      | obj kvs => simp [conformsU] at h
    | obj fs nn =>
      simp only [finalAnn, validateU_optionalIf, occurrencesU]
      cases j with
      | obj kvs =>
        simp only [J.isNull, Bool.false_and, Bool.false_eq_true, if_false, validateU]
        exact flds_once_final accept cfg fs kvs (by simpa [conformsU] using h)
      | null => simp [J.isNull, conformsU] at h ⊢; simp [h]
      | bool b => simp [conformsU] at h
      | num m e => simp [conformsU] at h
      | str s => simp [conformsU] at h
      | arr xs => simp [conformsU] at h
    | abs ms nn =>
      simp only [finalAnn, validateU_optionalIf, occurrencesU]
      cases j with
      | obj kvs =>
        simp only [J.isNull, Bool.false_and, Bool.false_eq_true, if_false, validateU]
        simp only [conformsU] at h
        cases hl : J.lookup typenameKey kvs with
        | none => simp [hl] at h
        | some v =>
          cases v with
          | str tag =>
            simp only [hl] at h ⊢
            exact tagged_once_final accept cfg tag ms kvs h
          | null => simp [hl] at h
          | bool b => simp [hl] at h
          | num m e => simp [hl] at h
          | arr xs => simp [hl] at h
          | obj o => simp [hl] at h
      | null => simp [J.isNull, conformsU] at h ⊢; simp [h]
      | bool b => simp [conformsU] at h
      | num m e => simp [conformsU] at h
      | str s => simp [conformsU] at h
      | arr xs => simp [conformsU] at h
  theorem flds_once_final (accept : Leaf → J → Bool) (cfg : ScalarCfg) (fs : Flds) (kvs : List (String × J))
      (h : conformsFlds fs kvs = true) :
      (validateUFlds accept (finalFlds cfg fs) kvs).calls = occurrencesFlds cfg fs kvs := by
    cases fs with
    | nil => simp [finalFlds, validateUFlds, occurrencesFlds]
    | cons k t rest =>
      simp only [conformsFlds, Bool.and_eq_true] at h
      have h2 := flds_once_final accept cfg rest kvs h.2
      cases hl : J.lookup k kvs with
      | none => simp [hl] at h
      | some v =>
        have h1 := parse_once_final accept cfg t v (by simpa [hl] using h.1)
        simp [finalFlds, validateUFlds, occurrencesFlds, hl, h1, h2]
  theorem tagged_once_final (accept : Leaf → J → Bool) (cfg : ScalarCfg) (tag : String) (ms : Mems) (kvs : List (String × J))
      (h : conformsTagged tag ms kvs = true) :
      (validateUTagged accept tag (finalMems cfg ms) kvs).calls = occurrencesTagged cfg tag ms kvs := by
    cases ms with
    | nil => simp [conformsTagged] at h
    | cons fs rest =>
      simp only [finalMems, validateUTagged, occurrencesTagged, findTag_final]
      simp only [conformsTagged] at h
      by_cases ht : tagMatches tag (tagOf fs) = true
      · simp only [ht, if_true] at h ⊢
        exact flds_once_final accept cfg fs kvs h
      · simp only [ht, Bool.false_eq_true, if_false] at h ⊢
        exact tagged_once_final accept cfg tag rest kvs h
end

/-! ### no occurrence is null -/

mutual
  theorem occurrencesU_non_null (cfg : ScalarCfg) (t : RTU) (j : J) : ∀ c ∈ occurrencesU cfg t j, c.raw.isNull = false := by
    cases t with
    | custom sc nn =>
      intro c hc
      simp only [occurrencesU] at hc
      by_cases hn : j.isNull = true
      · simp [hn] at hc
      · simp only [hn, Bool.false_eq_true, if_false] at hc
        cases hl : lookupScalar cfg sc with
        | none => simp [hl] at hc
        | some d =>
          cases hp : d.parseName with
          | none => simp [hl, hp] at hc
          | some p => simp [hl, hp] at hc; subst hc; simpa using hn
    | plain py nn => intro c hc; simp [occurrencesU] at hc
    | tag vs => intro c hc; simp [occurrencesU] at hc
    | list it nn =>
      intro c hc
      cases j with
      | arr xs =>
        simp only [occurrencesU, List.mem_flatten, List.mem_map] at hc
        obtain ⟨l, ⟨x, _, rfl⟩, hcl⟩ := hc
        exact occurrencesU_non_null cfg it x c hcl
      | _ => simp [occurrencesU] at hc
    | obj fs nn =>
      intro c hc
      cases j with
      | obj kvs => simp only [occurrencesU] at hc; exact occurrencesFlds_non_null cfg fs kvs c hc
      | _ => simp [occurrencesU] at hc
    | abs ms nn =>
      intro c hc
      cases j with
      | obj kvs =>
        simp only [occurrencesU] at hc
        cases hl : J.lookup typenameKey kvs with
        | none => simp [hl] at hc
        | some v =>
          cases v with
          | str tag => simp only [hl] at hc; exact occurrencesTagged_non_null cfg tag ms kvs c hc
          | _ => simp [hl] at hc
      | _ => simp [occurrencesU] at hc
  theorem occurrencesFlds_non_null (cfg : ScalarCfg) (fs : Flds) (kvs : List (String × J)) :
      ∀ c ∈ occurrencesFlds cfg fs kvs, c.raw.isNull = false := by
    cases fs with
    | nil => intro c hc; simp [occurrencesFlds] at hc
    | cons k t rest =>
      intro c hc
      simp only [occurrencesFlds, List.mem_append] at hc
      rcases hc with hc | hc
      · cases hl : J.lookup k kvs with
        | none => simp [hl] at hc
        | some v => rw [hl] at hc; exact occurrencesU_non_null cfg t v c hc
      · exact occurrencesFlds_non_null cfg rest kvs c hc
  theorem occurrencesTagged_non_null (cfg : ScalarCfg) (tag : String) (ms : Mems) (kvs : List (String × J)) :
      ∀ c ∈ occurrencesTagged cfg tag ms kvs, c.raw.isNull = false := by
    cases ms with
    | nil => intro c hc; simp [occurrencesTagged] at hc
    | cons fs rest =>
      intro c hc
      simp only [occurrencesTagged] at hc
      by_cases ht : tagMatches tag (tagOf fs) = true
      · simp only [ht, if_true] at hc; exact occurrencesFlds_non_null cfg fs kvs c hc
      · simp only [ht, Bool.false_eq_true, if_false] at hc; exact occurrencesTagged_non_null cfg tag rest kvs c hc
end

/-! ### the custom-scalar imports of a result module -/

mutual
  theorem usedScalarsU_configured (cfg : ScalarCfg) (t : RTU) : ∀ sc ∈ usedScalarsU cfg t, (lookupScalar cfg sc).isSome = true := by
    cases t with
    | custom s nn =>
      intro sc hsc
      simp only [usedScalarsU] at hsc
      by_cases hs : (lookupScalar cfg s).isSome = true
      · simp only [hs, if_true, List.mem_singleton] at hsc; subst hsc; exact hs
      · simp [hs] at hsc
    | plain py nn => intro sc hsc; simp [usedScalarsU] at hsc
    | tag vs => intro sc hsc; simp [usedScalarsU] at hsc
    | list it nn => intro sc hsc; simp only [usedScalarsU] at hsc; exact usedScalarsU_configured cfg it sc hsc
    | obj fs nn => intro sc hsc; simp only [usedScalarsU] at hsc; exact usedScalarsFlds_configured cfg fs sc hsc
    | abs ms nn => intro sc hsc; simp only [usedScalarsU] at hsc; exact usedScalarsMems_configured cfg ms sc hsc
  theorem usedScalarsFlds_configured (cfg : ScalarCfg) (fs : Flds) : ∀ sc ∈ usedScalarsFlds cfg fs, (lookupScalar cfg sc).isSome = true := by
    cases fs with
    | nil => intro sc hsc; simp [usedScalarsFlds] at hsc
    | cons k t rest =>
      intro sc hsc
      simp only [usedScalarsFlds, List.mem_append] at hsc
      rcases hsc with h | h
      · exact usedScalarsU_configured cfg t sc h
      · exact usedScalarsFlds_configured cfg rest sc h
  theorem usedScalarsMems_configured (cfg : ScalarCfg) (ms : Mems) : ∀ sc ∈ usedScalarsMems cfg ms, (lookupScalar cfg sc).isSome = true := by
    cases ms with
    | nil => intro sc hsc; simp [usedScalarsMems] at hsc
    | cons fs rest =>
      intro sc hsc
      simp only [usedScalarsMems, List.mem_append] at hsc
      rcases hsc with h | h
      · exact usedScalarsFlds_configured cfg fs sc h
      · exact usedScalarsMems_configured cfg rest sc h
end

theorem importsOfNames_total (cfg : ScalarCfg) :
    ∀ l : List String, (∀ sc ∈ l, (lookupScalar cfg sc).isSome = true) → ∃ is, importsOfNames cfg l = .ok is := by
  intro l
  induction l with
  | nil => intro _; exact ⟨[], rfl⟩
  | cons sc rest ih =>
    intro h
    obtain ⟨is, his⟩ := ih (fun x hx => h x (List.mem_cons_of_mem _ hx))
    have hsc := h sc List.mem_cons_self
    cases hl : lookupScalar cfg sc with
    | none => simp [hl] at hsc
    | some d => exact ⟨scalarImports d ++ is, by simp [importsOfNames, hl, his]⟩

theorem importsOfNames_mem (cfg : ScalarCfg) :
    ∀ (l : List String) (is : List Import), importsOfNames cfg l = .ok is →
      ∀ sc ∈ l, ∀ d, lookupScalar cfg sc = some d → ∀ i ∈ scalarImports d, i ∈ is := by
  intro l
  induction l with
  | nil => intro is _ sc hsc; cases hsc
  | cons a rest ih =>
    intro is h sc hsc d hd i hi
    simp only [importsOfNames] at h
    cases hl : lookupScalar cfg a with
    | none => simp [hl] at h
    | some da =>
      cases hr : importsOfNames cfg rest with
      | error e => simp [hl, hr] at h
      | ok is' =>
        simp only [hl, hr, Except.ok.injEq] at h
        subst h
        rcases List.mem_cons.mp hsc with he | he
        · subst he
          rw [hl] at hd; cases hd
          exact List.mem_append_left _ hi
        · exact List.mem_append_right _ (ih is' hr sc he d hd i hi)

theorem leavesOf_optionalIf (b : Bool) (a : PAnn) : leavesOf (optionalIf b a) = leavesOf a := by
  cases b <;> simp [optionalIf, leavesOf]

mutual
  /-- every leaf of the annotation of a shape is `generate_result_scalar_annotation(d)` of a scalar
      that `_used_scalars` holds, or `Any` (unconfigured scalar), or the name of a plain position -/
  theorem leaves_origin (cfg : ScalarCfg) (t : RTU) : ∀ l ∈ leavesOf (finalAnn cfg t),
      (∃ sc ∈ usedScalarsU cfg t, ∃ d, lookupScalar cfg sc = some d ∧ l = resultLeaf d) ∨ (∃ py, l = .name py) := by
    cases t with
    | custom s nn =>
      intro l hl
      simp only [finalAnn, leavesOf_optionalIf, leavesOf, List.mem_singleton] at hl
      subst hl
      cases hs : lookupScalar cfg s with
      | none => right; exact ⟨"Any", by simp [scalarLeaf, hs]⟩
      | some d => left; exact ⟨s, by simp [usedScalarsU, hs], d, hs, by simp [scalarLeaf, hs]⟩
    | plain py nn =>
      intro l hl
      simp only [finalAnn, leavesOf_optionalIf, leavesOf, List.mem_singleton] at hl
      right; exact ⟨py, hl⟩
    | tag vs => intro l hl; simp [finalAnn, leavesOf] at hl
    | list it nn =>
      intro l hl
      simp only [finalAnn, leavesOf_optionalIf, leavesOf] at hl
      simpa [usedScalarsU] using leaves_origin cfg it l hl
    | obj fs nn =>
      intro l hl
      simp only [finalAnn, leavesOf_optionalIf, leavesOf] at hl
      simpa [usedScalarsU] using leaves_originFlds cfg fs l hl
    | abs ms nn =>
      intro l hl
      simp only [finalAnn, leavesOf_optionalIf, leavesOf] at hl
      simpa [usedScalarsU] using leaves_originMems cfg ms l hl
  theorem leaves_originFlds (cfg : ScalarCfg) (fs : Flds) : ∀ l ∈ leavesOfFlds (finalFlds cfg fs),
      (∃ sc ∈ usedScalarsFlds cfg fs, ∃ d, lookupScalar cfg sc = some d ∧ l = resultLeaf d) ∨ (∃ py, l = .name py) := by
    cases fs with
    | nil => intro l hl; simp [finalFlds, leavesOfFlds] at hl
    | cons k t rest =>
      intro l hl
      simp only [finalFlds, leavesOfFlds, List.mem_append] at hl
      rcases hl with hl | hl
      · rcases leaves_origin cfg t l hl with ⟨sc, hsc, d, hd, he⟩ | h
        · left; exact ⟨sc, by simp [usedScalarsFlds, hsc], d, hd, he⟩
        · right; exact h
      · rcases leaves_originFlds cfg rest l hl with ⟨sc, hsc, d, hd, he⟩ | h
        · left; exact ⟨sc, by simp [usedScalarsFlds, hsc], d, hd, he⟩
        · right; exact h
  theorem leaves_originMems (cfg : ScalarCfg) (ms : Mems) : ∀ l ∈ leavesOfMems (finalMems cfg ms),
      (∃ sc ∈ usedScalarsMems cfg ms, ∃ d, lookupScalar cfg sc = some d ∧ l = resultLeaf d) ∨ (∃ py, l = .name py) := by
    cases ms with
    | nil => intro l hl; simp [finalMems, leavesOfMems] at hl
    | cons fs rest =>
      intro l hl
      simp only [finalMems, leavesOfMems, List.mem_append] at hl
      rcases hl with hl | hl
      · rcases leaves_originFlds cfg fs l hl with ⟨sc, hsc, d, hd, he⟩ | h
        · left; exact ⟨sc, by simp [usedScalarsMems, hsc], d, hd, he⟩
        · right; exact h
      · rcases leaves_originMems cfg rest l hl with ⟨sc, hsc, d, hd, he⟩ | h
        · left; exact ⟨sc, by simp [usedScalarsMems, hsc], d, hd, he⟩
        · right; exact h
end

/-! ### no plain `Union[...]` is left anywhere in an emitted field annotation -/

mutual
  def hasPlainUnion : PAnn → Bool
    | .leaf _ => false
    | .literal _ => false
    | .optional a => hasPlainUnion a
    | .list a => hasPlainUnion a
    | .model fs => hasPlainUnionFlds fs
    | .union _ => true
    | .dunion ms => hasPlainUnionMems ms
  def hasPlainUnionFlds : PFlds → Bool
    | .nil => false
    | .cons _ a rest => hasPlainUnion a || hasPlainUnionFlds rest
  def hasPlainUnionMems : PMems → Bool
    | .nil => false
    | .cons fs rest => hasPlainUnionFlds fs || hasPlainUnionMems rest
end

theorem hasPlainUnion_optionalIf (b : Bool) (a : PAnn) : hasPlainUnion (optionalIf b a) = hasPlainUnion a := by
  cases b <;> simp [optionalIf, hasPlainUnion]

mutual
  theorem final_no_plain_union (cfg : ScalarCfg) (t : RTU) : hasPlainUnion (finalAnn cfg t) = false := by
    cases t with
    | custom sc nn => simp [finalAnn, hasPlainUnion_optionalIf, hasPlainUnion]
    | plain py nn => simp [finalAnn, hasPlainUnion_optionalIf, hasPlainUnion]
    | tag vs => simp [finalAnn, hasPlainUnion]
    | list it nn => simp [finalAnn, hasPlainUnion_optionalIf, hasPlainUnion, final_no_plain_union cfg it]
    | obj fs nn => simp [finalAnn, hasPlainUnion_optionalIf, hasPlainUnion, finalFlds_no_plain_union cfg fs]
    | abs ms nn => simp [finalAnn, hasPlainUnion_optionalIf, hasPlainUnion, finalMems_no_plain_union cfg ms]
  theorem finalFlds_no_plain_union (cfg : ScalarCfg) (fs : Flds) : hasPlainUnionFlds (finalFlds cfg fs) = false := by
    cases fs with
    | nil => simp [finalFlds, hasPlainUnionFlds]
    | cons k t rest => simp [finalFlds, hasPlainUnionFlds, final_no_plain_union cfg t, finalFlds_no_plain_union cfg rest]
  theorem finalMems_no_plain_union (cfg : ScalarCfg) (ms : Mems) : hasPlainUnionMems (finalMems cfg ms) = false := by
    cases ms with
    | nil => simp [finalMems, hasPlainUnionMems]
    | cons fs rest => simp [finalMems, hasPlainUnionMems, finalFlds_no_plain_union cfg fs, finalMems_no_plain_union cfg rest]
end

/-! ### shapes without abstract positions (Model/ResultAnn.lean `RT`) are a special case -/

open Ariadne.ResultAnn in
mutual
  def ofRT : RT → RTU
    | .custom sc nn => .custom sc nn
    | .plain py nn => .plain py nn
    | .list it nn => .list (ofRT it) nn
    | .obj fs nn => .obj (ofRTFields fs) nn
  def ofRTFields : List (String × RT) → Flds
    | [] => .nil
    | (k, t) :: rest => .cons k (ofRT t) (ofRTFields rest)
end

open Ariadne.ResultAnn in
mutual
  theorem conformsU_ofRT (t : RT) (j : J) : conformsU (ofRT t) j = conforms t j := by
    cases t with
    | custom sc nn => simp [ofRT, conformsU, conforms]
    | plain py nn => simp [ofRT, conformsU, conforms]
    | list it nn =>
      cases j with
      | arr xs =>
        simp only [ofRT, conformsU, conforms]
        apply List.all_congr rfl
        intro x
        exact conformsU_ofRT it x
      | _ => simp [ofRT, conformsU, conforms]
    | obj fs nn =>
      cases j with
      | obj kvs => simp only [ofRT, conformsU, conforms]; exact conformsFlds_ofRT fs kvs
      | _ => simp [ofRT, conformsU, conforms]
  theorem conformsFlds_ofRT (fs : List (String × RT)) (kvs : List (String × J)) :
      conformsFlds (ofRTFields fs) kvs = conformsFields fs kvs := by
    cases fs with
    | nil => simp [ofRTFields, conformsFlds, conformsFields]
    | cons p rest =>
      obtain ⟨k, t⟩ := p
      simp only [ofRTFields, conformsFlds, conformsFields, conformsFlds_ofRT rest kvs]
      cases J.lookup k kvs with
      | none => rfl
      | some v => simp [conformsU_ofRT t v]
end

open Ariadne.ResultAnn in
mutual
  theorem occurrencesU_ofRT (cfg : ScalarCfg) (t : RT) (j : J) : occurrencesU cfg (ofRT t) j = occurrences cfg t j := by
    cases t with
    | custom sc nn =>
      simp only [ofRT, occurrencesU, occurrences]
      by_cases hn : j.isNull = true
      · simp [hn]
      · simp only [hn]
        cases lookupScalar cfg sc with
        | none => rfl
        | some d => cases d.parseName <;> rfl
    | plain py nn => simp [ofRT, occurrencesU, occurrences]
    | list it nn =>
      cases j with
      | arr xs =>
        simp only [ofRT, occurrencesU, occurrences]
        congr 1
        apply List.map_congr_left
        intro x hx
        exact occurrencesU_ofRT cfg it x
      | _ => simp [ofRT, occurrencesU, occurrences]
    | obj fs nn =>
      cases j with
      | obj kvs => simp only [ofRT, occurrencesU, occurrences]; exact occurrencesFlds_ofRT cfg fs kvs
      | _ => simp [ofRT, occurrencesU, occurrences]
  theorem occurrencesFlds_ofRT (cfg : ScalarCfg) (fs : List (String × RT)) (kvs : List (String × J)) :
      occurrencesFlds cfg (ofRTFields fs) kvs = occurrencesFields cfg fs kvs := by
    cases fs with
    | nil => simp [ofRTFields, occurrencesFlds, occurrencesFields]
    | cons p rest =>
      obtain ⟨k, t⟩ := p
      simp only [ofRTFields, occurrencesFlds, occurrencesFields, occurrencesFlds_ofRT cfg rest kvs]
      cases J.lookup k kvs with
      | none => rfl
      | some v => simp [occurrencesU_ofRT cfg t v]
end

end Ariadne.C07Union
