/-
  Proofs/C04Mixins.lean — where the `(from, import)` pairs a `ResultTypesGenerator` records come from: every pair is
  the pair of a `@mixin` directive written in the document — on the definition itself, or on a field somewhere inside
  its selection set or inside the selection set of a fragment of the document.  So a property that holds of every
  `@mixin` of the document (`PackageValid.mixinsOK`) holds of every recorded pair.
-/
import AriadneModel.Proofs.C08Package
import AriadneModel.Model.PackageValid

set_option linter.unusedSimpArgs false
set_option linter.unusedVariables false

namespace Ariadne.ResultTypes
open Ariadne Ariadne.Gql Ariadne.Util

section
variable (G : String × String → Prop)

def DirsGood (dirs : List Directive) : Prop := ∀ p ∈ mixinPairs dirs, G p

mutual
  /-- every `@mixin` pair on a field inside the selection satisfies `G` -/
  def SelGood : Selection → Prop
    | .field _ _ dirs _ sub => DirsGood G dirs ∧ SelsGood sub
    | .spread _ _ => True
    | .inline _ _ _ sub => SelsGood sub
  def SelsGood : List Selection → Prop
    | [] => True
    | s :: rest => SelGood s ∧ SelsGood rest
end

theorem selGood_of_mem : ∀ {sels : List Selection} {s : Selection}, SelsGood G sels → s ∈ sels → SelGood G s
  | [], _, _, h => by cases h
  | a :: rest, s, hg, h => by
    simp only [SelsGood] at hg
    rcases List.mem_cons.mp h with rfl | h
    · exact hg.1
    · exact selGood_of_mem hg.2 h

def MixOK (st : St) : Prop := ∀ p ∈ st.mixinImports, G p

variable {G}
variable {env : Env} (hfr : ∀ n f, findFragment? env.frags n = some f → SelsGood G f.sel)

include hfr in
theorem resolve_good : ∀ (fuel : Nat) (sels : List Selection) (root : String) (st : St) (r : Acc) (st' : St),
    SelsGood G sels → resolve env fuel sels root st = .ok (r, st') → ∀ fld ∈ r.1, DirsGood G fld.dirs ∧ SelsGood G fld.sub
  | 0, sels, root, st, r, st', _, h => by
    rw [resolve_zero] at h
    exact ((ok_err _ _ _).mp h).elim
  | fuel + 1, sels, root, st, r, st', hgood, h => by
    rw [resolve_succ] at h
    obtain ⟨acc, s1, h1, h2⟩ := (ok_bind _ _ _ _ _).mp h
    obtain ⟨u, s2, h3, h4⟩ := (ok_bind _ _ _ _ _).mp h2
    obtain ⟨e1, _⟩ := (ok_pure _ _ _ _).mp h4
    subst e1
    refine forIn_ok_inv (fun (b : Acc) (_ : St) => ∀ fld ∈ b.1, DirsGood G fld.dirs ∧ SelsGood G fld.sub)
      (resolveBody env fuel root) sels ([], []) st acc s1 ?_ (fun f hf => absurd hf List.not_mem_nil) h1
    intro a ha b s r s' hb hr
    have hga := selGood_of_mem G hgood ha
    cases a with
    | field alias name dirs sid sub =>
      simp only [resolveBody] at hr
      obtain ⟨e, _⟩ := (ok_pure _ _ _ _).mp hr
      subst e
      intro fld hfld
      rcases List.mem_append.mp hfld with hfld | hfld
      · exact hb fld hfld
      · have : fld = ⟨alias, name, dirs, sid, sub⟩ := by simpa using hfld
        subst this
        simpa [SelGood] using hga
    | spread n d =>
      cases hf : findFragment? env.frags n with
      | none =>
        simp only [resolveBody, hf] at hr
        exact ((ok_err _ _ _).mp hr).elim
      | some f =>
        simp only [resolveBody, hf] at hr
        split at hr
        · exact ((ok_err _ _ _).mp hr).elim
        split at hr
        · exact ((ok_err _ _ _).mp hr).elim
        split at hr
        · obtain ⟨e, _⟩ := (ok_pure _ _ _ _).mp hr
          subst e
          exact hb
        split at hr
        · obtain ⟨u, s1', h1', h2'⟩ := (ok_bind _ _ _ _ _).mp hr
          obtain ⟨x, s2', h3', h4'⟩ := (ok_bind _ _ _ _ _).mp h2'
          obtain ⟨e, _⟩ := (ok_pure _ _ _ _).mp h4'
          subst e
          have hx := resolve_good fuel f.sel root _ x s2' (hfr n f hf) h3'
          intro fld hfld
          rcases List.mem_append.mp hfld with hfld | hfld
          · exact hb fld hfld
          · exact hx fld hfld
        · obtain ⟨u, s1', h1', h2'⟩ := (ok_bind _ _ _ _ _).mp hr
          obtain ⟨e, _⟩ := (ok_pure _ _ _ _).mp h2'
          subst e
          exact hb
    | inline on d sid sub =>
      cases on with
      | none =>
        simp only [resolveBody] at hr
        exact ((ok_err _ _ _).mp hr).elim
      | some cond =>
        cases hrt : inlineFragmentRootType env cond root with
        | some rt =>
          simp only [resolveBody, hrt] at hr
          obtain ⟨x, s2', h3', h4'⟩ := (ok_bind _ _ _ _ _).mp hr
          obtain ⟨e, _⟩ := (ok_pure _ _ _ _).mp h4'
          subst e
          have hx := resolve_good fuel sub rt _ x s2' (by simpa [SelGood] using hga) h3'
          intro fld hfld
          rcases List.mem_append.mp hfld with hfld | hfld
          · exact hb fld hfld
          · exact hx fld hfld
        | none =>
          simp only [resolveBody, hrt] at hr
          obtain ⟨u, s1', h1', h2'⟩ := (ok_bind _ _ _ _ _).mp hr
          obtain ⟨e, _⟩ := (ok_pure _ _ _ _).mp h2'
          subst e
          exact hb

theorem mixOK_addImports {st : St} {ps : List (String × String)} (h : MixOK G st) (hp : ∀ p ∈ ps, G p) : MixOK G (addImports st ps) := by
  intro p hpm
  simp only [addImports, List.mem_append] at hpm
  rcases hpm with h' | h'
  · exact h p h'
  · exact hp p h'

include hfr in
/-- the recorded `(from, import)` pairs all come from `@mixin` directives of the document -/
theorem parse_good : ∀ fuel : Nat,
    (∀ cn tn sid sel a eb tv st cs st', SelsGood G sel → MixOK G st →
      parseTypeDefinition env fuel cn tn sid sel a eb tv st = .ok (cs, st') → MixOK G st') ∧
    (∀ sid sel ctx eb st cs st', SelsGood G sel → MixOK G st →
      parseFieldSelectionSetTypes env fuel sid sel ctx eb st = .ok (cs, st') → MixOK G st')
  | 0 => by
    constructor
    · intro cn tn sid sel a eb tv st cs st' _ _ h
      rw [parseTypeDefinition_zero] at h
      exact ((ok_err _ _ _).mp h).elim
    · intro sid sel ctx eb st cs st' _ _ h
      rw [parseFieldSelectionSetTypes_zero] at h
      exact ((ok_err _ _ _).mp h).elim
  | fuel + 1 => by
    obtain ⟨ihP, ihQ⟩ := parse_good fuel
    constructor
    · intro cn tn sid sel a eb tv st cs st' hsel hst h
      cases hseen : st.publicNames.contains cn with
      | true =>
        obtain ⟨_, rfl⟩ := parseTypeDefinition_seen _ _ _ _ _ _ _ _ _ _ _ _ h hseen
        exact hst
      | false =>
        obtain ⟨x, st1, resolved, acc, fuel', hfu, hres, hloop, hcs, hresd⟩ := parseTypeDefinition_unfold _ _ _ _ _ _ _ _ _ _ _ _ h hseen
        have hfu' : fuel' = fuel := by omega
        subst hfu'
        have sp := resolve_spec env _ _ _ _ _ _ hres
        have hflds := resolve_good hfr _ _ _ _ _ _ hsel hres
        have hat := afterTypename_mixins a sid (if st1.marks.contains sid then typenameRField :: x.1 else x.1) st1
        have hstart : MixOK G (afterTypename a sid (if st1.marks.contains sid then typenameRField :: x.1 else x.1) st1) := by
          intro p hp
          rw [hat.2.1, sp.frame.mixinImports] at hp
          exact hst p hp
        refine forIn_ok_inv (fun (_ : FAcc) (s : St) => MixOK G s) (fieldBody env fuel' cn tn tv) resolved ([], []) _ acc st' ?_ hstart hloop
        intro f hf b s r s' hs hr
        -- the field is the automatic `__typename` or one of the resolved fields
        have hfgood : DirsGood G f.dirs ∧ SelsGood G f.sub := by
          rcases hresd f hf with rfl | hfx
          · exact ⟨fun p hp => by simp [typenameRField, mixinPairs] at hp, by simp [typenameRField, SelsGood]⟩
          · exact hflds f hfx
        unfold fieldBody at hr
        obtain ⟨t, s1, h1, hA⟩ := (ok_bind _ _ _ _ _).mp hr
        obtain ⟨_, e1⟩ := (ok_liftExcept _ _ _ _).mp h1
        subst e1
        obtain ⟨x', s2, h2, hB⟩ := (ok_bind _ _ _ _ _).mp hA
        obtain ⟨_, e2⟩ := (ok_liftExcept _ _ _ _).mp h2
        subst e2
        obtain ⟨fb, s3, h3, hC⟩ := (ok_bind _ _ _ _ _).mp hB
        obtain ⟨_, hs3⟩ := mixinBases_spec _ _ _ _ h3
        obtain ⟨more, s4, h4, hD⟩ := (ok_bind _ _ _ _ _).mp hC
        obtain ⟨u, s5, h5, hE⟩ := (ok_bind _ _ _ _ _).mp hD
        have hs5 := (ok_modify _ _ _ _).mp h5
        obtain ⟨_, e4⟩ := (ok_pure _ _ _ _).mp hE
        subst e4
        have m3 : MixOK G s3 := hs3 ▸ mixOK_addImports hs hfgood.1
        have m4 : MixOK G s4 := ihQ _ _ _ _ _ _ _ hfgood.2 m3 h4
        intro p hp
        rw [hs5] at hp
        exact m4 p hp
    · intro sid sel ctx eb st cs st' hsel hst h
      rw [parseFieldSelectionSetTypes_succ] at h
      by_cases hemp : sel.isEmpty = true
      · rw [if_pos hemp] at h
        obtain ⟨_, e2⟩ := (ok_pure _ _ _ _).mp h
        subst e2
        exact hst
      · rw [if_neg hemp] at h
        obtain ⟨acc, s1, h1, h2⟩ := (ok_bind _ _ _ _ _).mp h
        obtain ⟨_, e2⟩ := (ok_pure _ _ _ _).mp h2
        subst e2
        refine forIn_ok_inv (fun (_ : List ClassDecl) (s : St) => MixOK G s) (relatedBody env fuel sid sel ctx eb) ctx.related [] st acc s1 ?_ hst h1
        intro rc _ b s r s' hs hr
        unfold relatedBody at hr
        obtain ⟨cs1, s2, h3, h4⟩ := (ok_bind _ _ _ _ _).mp hr
        obtain ⟨_, e4⟩ := (ok_pure _ _ _ _).mp h4
        subst e4
        exact ihP _ _ _ _ _ _ _ _ _ _ hsel hs h3

include hfr in
/-- one generator: every recorded pair satisfies `G` when the definition's own directives and selection set do -/
theorem generate_good (fuel : Nat) (d : Definition) (marks : List Nat) (o : ModuleOut)
    (hd : match d with
      | .op op => DirsGood G op.dirs ∧ SelsGood G op.sel
      | .frag f => DirsGood G f.dirs ∧ SelsGood G f.sel)
    (h : generate env fuel d marks = .ok o) : MixOK G o.st := by
  obtain ⟨cs, st, hr, _, hs⟩ := generate_ok env fuel d marks o h
  rw [hs]
  have start : ∀ ps, (∀ p ∈ ps, G p) → MixOK G (addImports { marks := marks } ps) := by
    intro ps hps
    exact mixOK_addImports (fun p hp => (by cases hp)) hps
  cases d with
  | op op =>
    obtain ⟨n, tn, _, _, hp⟩ := genRun_op env fuel op _ cs st hr
    exact (parse_good hfr fuel).1 _ _ _ _ _ _ _ _ _ _ hd.2 (start _ hd.1) hp
  | frag f =>
    cases hu : unpackFragment env f none with
    | true =>
      obtain ⟨_, rfl⟩ := genRun_frag_unpacked env fuel f _ cs st hr hu
      intro p hp
      cases hp
    | false => exact (parse_good hfr fuel).1 _ _ _ _ _ _ _ _ _ _ hd.2 (start _ hd.1) (genRun_frag env fuel f _ cs st hr hu)

end

/-! ### the decidable check of `Valid` is that property -/

open Ariadne.Package Ariadne.PackageValid

def GoodPair (cfg : Config) (p : String × String) : Prop := userImportOK cfg ⟨0, p.1, [p.2]⟩ = true

theorem mixinPairOf_eq (d : Directive) : mixinPairOf d = mixinPair d := rfl

theorem dirsGood_of_ok {cfg : Config} {dirs : List Directive} (h : dirsOK cfg dirs = true) : DirsGood (GoodPair cfg) dirs := by
  intro p hp
  unfold mixinPairs at hp
  obtain ⟨d, hd, hdp⟩ := List.mem_filterMap.mp hp
  have := List.all_eq_true.mp h d hd
  rw [mixinPairOf_eq, hdp] at this
  exact this

mutual
  theorem selGood_of_ok {cfg : Config} : ∀ (s : Selection), selDirsOK cfg s = true → SelGood (GoodPair cfg) s
    | .field _ _ dirs _ sub, h => by
      simp only [selDirsOK, Bool.and_eq_true] at h
      exact ⟨dirsGood_of_ok h.1, selsGood_of_ok sub h.2⟩
    | .spread _ _, _ => trivial
    | .inline _ _ _ sub, h => by
      simp only [selDirsOK] at h
      exact selsGood_of_ok sub h
  theorem selsGood_of_ok {cfg : Config} : ∀ (sels : List Selection), selsDirsOK cfg sels = true → SelsGood (GoodPair cfg) sels
    | [], _ => trivial
    | s :: rest, h => by
      simp only [selsDirsOK, Bool.and_eq_true] at h
      exact ⟨selGood_of_ok s h.1, selsGood_of_ok rest h.2⟩
end

end Ariadne.ResultTypes
