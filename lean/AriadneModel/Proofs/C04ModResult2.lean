/-
  Proofs/C04ModResult2.lean — the operation modules and `fragments.py`: imports resolve, class statements load,
  rebuild calls name classes of the module.  (The quoted forward references are Proofs/C04Fwd.lean's business.)
-/
import AriadneModel.Proofs.C04ModResult

set_option linter.unusedSimpArgs false
set_option linter.unusedVariables false

namespace Ariadne.C04Proofs
open Ariadne Ariadne.Gql Ariadne.Util Ariadne.Package Ariadne.PackageTriggers Ariadne.PackageValid Ariadne.Spec.PyScope
open Ariadne.ResultTypes (pascal ModuleOut GenSpec NameIn fixedNames MixOK GoodPair GoodMixin)
open Ariadne.Fragments (DefGen FragmentsOut)

/-! ### NoFragmentCycles from the decidable check -/

mutual
  theorem selSpreadNames_eq : ∀ s : Selection, selSpreadNames s = ResultTypes.selSpreads s
    | .field _ _ _ _ sub => by simp [selSpreadNames, ResultTypes.selSpreads, selsSpreadNames_eq sub]
    | .spread n _ => rfl
    | .inline _ _ _ sub => by simp [selSpreadNames, ResultTypes.selSpreads, selsSpreadNames_eq sub]
  theorem selsSpreadNames_eq : ∀ sels : List Selection, selsSpreadNames sels = ResultTypes.selsSpreads sels
    | [] => rfl
    | s :: rest => by simp [selsSpreadNames, ResultTypes.selsSpreads, selSpreadNames_eq s, selsSpreadNames_eq rest]
end

theorem spreadRank_of_acyclic {cfg : Config} {inp : Input} (h : fragsAcyclic inp = true) :
    ∃ rk, Fragments.SpreadRank (rtEnv cfg inp) rk := by
  refine ⟨fun n => (fragOrder inp.frags).idxOf n, ?_⟩
  intro n f hf m hm
  have hmem : f ∈ inp.frags := List.mem_of_find?_eq_some hf
  have hname : f.name = n := Fragments.findFragment_name hf
  unfold fragsAcyclic at h
  have h1 := List.all_eq_true.mp h f hmem
  rw [← selsSpreadNames_eq] at hm
  have h2 := List.all_eq_true.mp h1 m hm
  rw [hname] at h2
  simpa using h2

/-! ### `FragmentsGenerator.generate`, everything it returns -/

theorem generateFragments_unfold' (e : Order.EnumOracle) (env : ResultTypes.Env) (fuel : Nat) (names : List String) (marks : List Nat)
    (fo : FragmentsOut) (gens : List DefGen) (hg : Fragments.genFragments env fuel names marks = .ok gens)
    (h : Fragments.generateFragments e env fuel names marks = .ok fo) :
    Order.rebuildCalls (gens.filterMap fun g => g.out.classes.head?.map (·.name)) (fo.classes.map (·.name)) = .ok fo.rebuilds ∧
    fo.publicNames = gens.flatMap (·.out.st.publicNames) ∧ fo.usedEnums = gens.flatMap (·.out.st.usedEnums) ∧
    fo.mixinImports = gens.flatMap (·.out.st.mixinImports) := by
  unfold Fragments.generateFragments at h
  simp only [hg] at h
  cases hs : Order.sortedFragmentsNames e names (gens.map fun g => (g.name, g.out.st.mixins)) with
  | error err => simp [hs] at h
  | ok sorted =>
    simp only [hs] at h
    cases hc : Fragments.classesInOrder gens sorted with
    | error err => simp [hc] at h
    | ok classes =>
      simp only [hc] at h
      cases hr : Order.rebuildCalls (gens.filterMap fun g => g.out.classes.head?.map (·.name)) (classes.map (·.name)) with
      | error err => simp [hr] at h
      | ok rebuilds =>
        simp only [hr] at h
        injection h with h
        subst h
        exact ⟨hr, rfl, rfl, rfl⟩

theorem mem_classesOf_inv (gens : List DefGen) : ∀ (l : List String) (c : ResultTypes.ClassDecl), c ∈ Fragments.classesOf gens l →
    ∃ g ∈ gens, c ∈ g.out.classes
  | [], c, h => by simp [Fragments.classesOf] at h
  | n :: rest, c, h => by
    unfold Fragments.classesOf at h
    rcases List.mem_append.mp h with h | h
    · cases hl : Fragments.lookupGen gens n with
      | none => rw [hl] at h; cases h
      | some g =>
        rw [hl] at h
        exact ⟨g, (Fragments.lookupGen_some hl).1, h⟩
    · exact mem_classesOf_inv gens rest c h

theorem rebuildCalls_mem {top cn rebuilds : List String} (h : Order.rebuildCalls top cn = .ok rebuilds) :
    ∀ r ∈ rebuilds, r ∈ cn := by
  unfold Order.rebuildCalls at h
  cases hf : top.find? (fun t => !cn.contains t) with
  | some t => rw [hf] at h; cases h
  | none =>
    rw [hf] at h
    simp only [Except.ok.injEq] at h
    subst h
    intro r hr
    have hr' := (Order.mem_sortBy _ _ _).mp hr
    have := List.find?_eq_none.mp hf r hr'
    simpa using this

theorem enumOK_id : Order.EnumOK id := fun _ => List.Perm.refl _

/-! ### splitting a mapped list, and `LoadsFrom` at a split -/

theorem map_split {α β : Type} (f : α → β) : ∀ (l : List α) (pre : List β) (c : β) (post : List β), l.map f = pre ++ c :: post →
    ∃ l1 x l2, l = l1 ++ x :: l2 ∧ pre = l1.map f ∧ c = f x ∧ post = l2.map f
  | [], pre, c, post, h => by
    cases pre <;> simp at h
  | a :: rest, [], c, post, h => by
    simp only [List.map_cons, List.nil_append, List.cons.injEq] at h
    exact ⟨[], a, rest, rfl, rfl, h.1.symm, h.2.symm⟩
  | a :: rest, b :: pre, c, post, h => by
    simp only [List.map_cons, List.cons_append, List.cons.injEq] at h
    obtain ⟨l1, x, l2, e1, e2, e3, e4⟩ := map_split f rest pre c post h.2
    exact ⟨a :: l1, x, l2, by rw [e1]; rfl, by rw [e2, ← h.1]; rfl, e3, e4⟩

theorem loadsFrom_split (ext : String → Prop) : ∀ (t : Spec.Py.ClassTable) (seen : List String), Spec.Py.LoadsFrom ext seen t →
    ∀ pre n bs post, t = pre ++ (n, bs) :: post → ∀ b ∈ bs, ext b ∨ b ∈ seen ∨ b ∈ pre.map (·.1)
  | [], _, _, pre, n, bs, post, h, _, _ => by cases pre <;> simp at h
  | (n0, bs0) :: rest, seen, hl, [], n, bs, post, h, b, hb => by
    simp only [List.nil_append, List.cons.injEq, Prod.mk.injEq] at h
    obtain ⟨⟨rfl, rfl⟩, _⟩ := h
    rcases hl.1 b hb with h1 | h1
    · exact Or.inl h1
    · exact Or.inr (Or.inl h1)
  | (n0, bs0) :: rest, seen, hl, q :: pre, n, bs, post, h, b, hb => by
    simp only [List.cons_append, List.cons.injEq] at h
    obtain ⟨rfl, h⟩ := h
    rcases loadsFrom_split ext rest (n0 :: seen) hl.2 pre n bs post h b hb with h1 | h1 | h1
    · exact Or.inl h1
    · rcases List.mem_cons.mp h1 with rfl | h1
      · exact Or.inr (Or.inr (by simp))
      · exact Or.inr (Or.inl h1)
    · exact Or.inr (Or.inr (by simp [h1]))

/-! ### the facts about the fragments step -/

section
variable {cfg : Config} {inp : Input} {p : PackageIR} {st : St} {io : InputsOut}
  {fx : Option (Fragments.FragmentsOut × List Fragments.DefGen)}

/-- outside the trigger `unpackedAndInherited`, a fragment an operation class inherits from has its class in the
    fragments module, which is written -/
theorem mixin_class_emitted (F : Facts cfg inp p st io fx)
    (htr : Fragments.trigUnpackedAndInherited id (rtEnv cfg inp) Package.fuel (inp.ops.map (·.op)) = false)
    {g : DefGen} (hg : g ∈ st.outs) {n : String} (hn : n ∈ g.out.st.mixins) :
    ∃ fo gens, fx = some (fo, gens) ∧ pascal n ∈ fo.classes.map (·.name) := by
  have I := opsInv_of F.ops
  obtain ⟨acc, hacc, a1, a2, a3⟩ := addOperations_bridge inp.ops {} st {} rfl rfl rfl F.ops
  have hacc' : Fragments.addOperations (rtEnv cfg inp) Package.fuel (inp.ops.map (·.op)) = .ok acc := hacc
  -- the mixin is a fragment with a class of its own …
  obtain ⟨o, _, marks, _, hgen⟩ := I.gens g hg
  have hgood : GoodMixin (rtEnv cfg inp) n := (ResultTypes.generate_spec _ _ _ marks _ hgen).1 n hn
  -- … that no operation unpacked
  have hnotex : st.unpacked.contains n = false := by
    unfold Fragments.trigUnpackedAndInherited at htr
    simp only [hacc'] at htr
    cases hcn : st.unpacked.contains n with
    | false => rfl
    | true =>
      have hmem : n ∈ acc.unpacked := by rw [a2]; simpa using hcn
      have : (acc.unpacked.any fun n => (Fragments.inheritedByOps acc).contains n ||
          (Fragments.inheritedByFragments id (rtEnv cfg inp) Package.fuel acc).contains n) = true := by
        refine List.any_eq_true.mpr ⟨n, hmem, ?_⟩
        have : n ∈ Fragments.inheritedByOps acc := List.mem_flatMap.mpr ⟨g, by rw [a1]; exact hg, hn⟩
        simp [this]
      rw [this] at htr
      cases htr
  have hrem : n ∈ Fragments.remaining (rtEnv cfg inp) st.unpacked := by
    unfold Fragments.remaining
    exact List.mem_filter.mpr ⟨(Fragments.mem_dedup n _).mpr (Fragments.goodMixin_mem_frags hgood), by rw [hnotex]; rfl⟩
  rcases F.frags with ⟨hemp, _⟩ | ⟨_, fo, gens, hfx, hgens, hfo⟩
  · cases hr : Fragments.remaining (rtEnv cfg inp) st.unpacked with
    | nil => rw [hr] at hrem; cases hrem
    | cons _ _ => rw [hr] at hemp; cases hemp
  · exact ⟨fo, gens, hfx, Fragments.fragments_emitted id enumOK_id _ _ _ st.marks fo hfo n hrem hgood⟩

/-- **an operation module** (all of `residualParts` except the quoted forward references) -/
theorem result_residual_parts (F : Facts cfg inp p st io fx) (hc : cfgOK cfg = true) (hmx : mixinsOK cfg inp = true)
    (htr : Fragments.trigUnpackedAndInherited id (rtEnv cfg inp) Package.fuel (inp.ops.map (·.op)) = false)
    {fm : String × ModuleIR} (hfm : fm ∈ st.files) :
    importsResolve p fm.2 = true ∧ classesLoad fm.2 = true ∧ (fm.2.rebuilds.all (fm.2.classes.map (·.name)).contains) = true := by
  have I := opsInv_of F.ops
  obtain ⟨g, hg, hkey, hmod⟩ := I.files fm hfm
  obtain ⟨o, ho, marks, hon, hgen⟩ := I.gens g hg
  have gs := ResultTypes.generate_out _ _ _ marks _ hgen
  obtain ⟨hgoodm, hbases⟩ := ResultTypes.generate_spec _ _ _ marks _ hgen
  -- the `@mixin` pairs come from the document
  have hmix : MixOK (GoodPair cfg) g.out.st := by
    unfold mixinsOK at hmx
    simp only [Bool.and_eq_true] at hmx
    have hfr : ∀ n f, findFragment? (rtEnv cfg inp).frags n = some f → ResultTypes.SelsGood (GoodPair cfg) f.sel := by
      intro n f hf
      have := List.all_eq_true.mp hmx.2 f (List.mem_of_find?_eq_some hf)
      simp only [Bool.and_eq_true] at this
      exact ResultTypes.selsGood_of_ok _ this.2
    have hop := List.all_eq_true.mp hmx.1 o ho
    simp only [Bool.and_eq_true] at hop
    exact ResultTypes.generate_good hfr _ (.op o.op) marks _
      (show ResultTypes.DirsGood (GoodPair cfg) o.op.dirs ∧ ResultTypes.SelsGood (GoodPair cfg) o.op.sel from
        ⟨ResultTypes.dirsGood_of_ok hop.1, ResultTypes.selsGood_of_ok _ hop.2⟩) hgen
  have henum : ∀ e ∈ g.out.st.usedEnums, inp.schema.kindOf? e = some .enum ∧ e ∈ finalUsedEnums st io fx := by
    intro e he
    refine ⟨gs.enumsKind e he, ?_⟩
    unfold finalUsedEnums
    have : e ∈ st.usedEnums := by
      rw [I.usedEnums]
      exact List.mem_flatMap.mpr ⟨g, hg, he⟩
    simp [this]
  have himpEq : fm.2.imports = generatorImports cfg true g.out.st := by rw [hmod]; rfl
  have hclsEq : fm.2.classes = g.out.classes.map resultClassIR := by rw [hmod]; rfl
  have himpSub : ∀ i ∈ generatorImports cfg false g.out.st, i ∈ fm.2.imports := by
    intro i hi
    rw [himpEq]
    exact generatorImports_false_sub cfg _ i hi
  refine ⟨?_, ?_, ?_⟩
  · apply importsResolve_of
    intro i hi
    rw [himpEq] at hi
    -- either one of the common imports, or `from .fragments import …`
    have : i ∈ generatorImports cfg false g.out.st ∨
        (g.out.st.mixins.isEmpty = false ∧ i = ⟨1, cfg.fragmentsModule, g.out.st.mixins.map pascal⟩) := by
      unfold generatorImports at hi ⊢
      simp only [Bool.true_and, List.mem_append] at hi
      rcases hi with hi | hi
      · left
        simp only [Bool.false_and, Bool.false_eq_true, if_false, List.append_nil, List.mem_append]
        exact hi
      · right
        split at hi
        · rename_i hne
          exact ⟨by simpa using hne, by simpa using hi⟩
        · cases hi
    rcases this with hi | ⟨hne, rfl⟩
    · exact generatorImports_resolve F hc hmix henum i hi
    · rw [normImport_noDot _ _ _ (cfgFacts hc).fragsDot]
      -- some mixin exists: the fragments module is written
      cases hmx' : g.out.st.mixins with
      | nil => rw [hmx'] at hne; cases hne
      | cons n0 rest =>
        obtain ⟨fo, gens, hfx, _⟩ := mixin_class_emitted F htr hg (n := n0) (by rw [hmx']; simp)
        refine F.resolves (fragments_mem_written hfx) rfl rfl ?_
        intro ns hns
        have hgenm : generated (fragmentsModuleIR cfg fo gens) = true := rfl
        rw [exported_generated hgenm] at hns
        simp only [Option.some.injEq] at hns
        subst hns
        intro nm hnm
        rw [← hmx'] at hnm
        obtain ⟨n, hn, rfl⟩ := List.mem_map.mp hnm
        obtain ⟨fo', gens', hfx', hcl⟩ := mixin_class_emitted F htr hg hn
        rw [hfx] at hfx'
        simp only [Option.some.injEq, Prod.mk.injEq] at hfx'
        obtain ⟨rfl, rfl⟩ := hfx'
        refine className_mem_defines ?_
        simpa [fragmentsModuleIR, resultClassIR, Function.comp] using hcl
  · apply classesLoad_of_bound
    · intro c hcm u hu
      have hcm' := hcm
      rw [hclsEq] at hcm'
      obtain ⟨cd, hcd, rfl⟩ := List.mem_map.mp hcm'
      rcases List.mem_append.mp hu with hu | hu
      · -- a base class
        have hused : u ∈ fm.2.usedNames := mem_usedNames_class hcm (by simp [hu])
        have hb : u ∈ cd.bases := hu
        rcases hbases cd hcd u hb with h1 | ⟨n, hn, rfl⟩ | ⟨pr, hpr, rfl⟩
        · exact result_extbase_bound himpSub hused (Or.inl h1)
        · have hne : g.out.st.mixins.isEmpty = false := by
            cases hl : g.out.st.mixins with
            | nil => rw [hl] at hn; cases hn
            | cons _ _ => rfl
          refine boundIn_of_import (i := ⟨1, cfg.fragmentsModule, g.out.st.mixins.map pascal⟩) ?_ (List.mem_map.mpr ⟨n, hn, rfl⟩) hused
          rw [himpEq]
          unfold generatorImports
          simp [hne]
        · exact result_extbase_bound himpSub hused (Or.inr ⟨pr, hpr, rfl⟩)
      · exact result_uses_bound hc gs himpSub hcd hcm u hu
    · intro f hf
      rw [hmod] at hf
      simp [resultModule] at hf
  · refine List.all_eq_true.mpr ?_
    intro r hr
    rw [hmod] at hr ⊢
    simp only [resultModule, List.mem_map] at hr
    obtain ⟨c, hc', rfl⟩ := hr
    have hcm := (List.mem_filter.mp hc').1
    have : c.name ∈ (g.out.classes.map resultClassIR).map (·.name) :=
      List.mem_map.mpr ⟨resultClassIR c, List.mem_map.mpr ⟨c, hcm, rfl⟩, rfl⟩
    simpa [resultModule] using this

/-- **fragments.py** (all of `residualParts` except the quoted forward references) -/
theorem fragments_residual_parts (F : Facts cfg inp p st io fx) (hc : cfgOK cfg = true) (hmx : mixinsOK cfg inp = true)
    (hac : fragsAcyclic inp = true) {fo : FragmentsOut} {gens : List DefGen} (hfx : fx = some (fo, gens)) :
    importsResolve p (fragmentsModuleIR cfg fo gens) = true ∧ classesLoad (fragmentsModuleIR cfg fo gens) = true ∧
    ((fragmentsModuleIR cfg fo gens).rebuilds.all ((fragmentsModuleIR cfg fo gens).classes.map (·.name)).contains) = true := by
  -- what ran
  have hran : Fragments.genFragments (rtEnv cfg inp) Package.fuel (Fragments.remaining (rtEnv cfg inp) st.unpacked) st.marks = .ok gens ∧
      Fragments.generateFragments id (rtEnv cfg inp) Package.fuel (Fragments.remaining (rtEnv cfg inp) st.unpacked) st.marks = .ok fo := by
    rcases F.frags with ⟨_, hnone⟩ | ⟨_, fo', gens', hfx', hg', hf'⟩
    · rw [hfx] at hnone; cases hnone
    · rw [hfx] at hfx'
      simp only [Option.some.injEq, Prod.mk.injEq] at hfx'
      obtain ⟨rfl, rfl⟩ := hfx'
      exact ⟨hg', hf'⟩
  obtain ⟨hgens, hfo⟩ := hran
  obtain ⟨hnames, hfrom⟩ := Fragments.genFragments_spec _ _ _ _ gens hgens
  obtain ⟨hrb, hpub, hue, hmi⟩ := generateFragments_unfold' id _ _ _ _ fo gens hgens hfo
  obtain ⟨gens', hg', hd, hs, hcio, _⟩ := Fragments.generateFragments_unfold id _ _ _ _ fo hfo
  rw [hgens] at hg'
  simp only [Except.ok.injEq] at hg'
  subst hg'
  obtain ⟨hcs, hall⟩ := Fragments.classesInOrder_spec gens fo.order fo.classes hcio
  -- every class of the module comes from one of the generators
  have hclsFrom : ∀ cd ∈ fo.classes, ∃ g ∈ gens, cd ∈ g.out.classes := by
    intro cd hcd
    rw [hcs] at hcd
    exact mem_classesOf_inv gens fo.order cd hcd
  -- per generator: the facts
  have hgen : ∀ g ∈ gens, ∃ f marks, findFragment? (rtEnv cfg inp).frags g.name = some f ∧
      ResultTypes.generate (rtEnv cfg inp) Package.fuel (.frag f) marks = .ok g.out := fun g hg => hfrom g hg
  have hmixG : ∀ g ∈ gens, MixOK (GoodPair cfg) g.out.st := by
    intro g hg
    obtain ⟨f, marks, hf, hgn⟩ := hgen g hg
    unfold mixinsOK at hmx
    simp only [Bool.and_eq_true] at hmx
    have hfr : ∀ n f, findFragment? (rtEnv cfg inp).frags n = some f → ResultTypes.SelsGood (GoodPair cfg) f.sel := by
      intro n f hf
      have := List.all_eq_true.mp hmx.2 f (List.mem_of_find?_eq_some hf)
      simp only [Bool.and_eq_true] at this
      exact ResultTypes.selsGood_of_ok _ this.2
    have hfd := List.all_eq_true.mp hmx.2 f (List.mem_of_find?_eq_some hf)
    simp only [Bool.and_eq_true] at hfd
    exact ResultTypes.generate_good hfr _ (.frag f) marks _
      (show ResultTypes.DirsGood (GoodPair cfg) f.dirs ∧ ResultTypes.SelsGood (GoodPair cfg) f.sel from
        ⟨ResultTypes.dirsGood_of_ok hfd.1, ResultTypes.selsGood_of_ok _ hfd.2⟩) hgn
  have himpSub : ∀ g ∈ gens, ∀ i ∈ generatorImports cfg false g.out.st, i ∈ (fragmentsModuleIR cfg fo gens).imports := by
    intro g hg i hi
    simp only [fragmentsModuleIR]
    exact List.mem_flatMap.mpr ⟨g, hg, hi⟩
  refine ⟨?_, ?_, ?_⟩
  · apply importsResolve_of
    intro i hi
    simp only [fragmentsModuleIR] at hi
    obtain ⟨g, hg, hi⟩ := List.mem_flatMap.mp hi
    obtain ⟨f, marks, hf, hgn⟩ := hgen g hg
    have gs := ResultTypes.generate_out _ _ _ marks _ hgn
    refine generatorImports_resolve F hc (hmixG g hg) ?_ i hi
    intro e he
    refine ⟨gs.enumsKind e he, ?_⟩
    unfold finalUsedEnums
    have : e ∈ fragmentEnums (fragOut fx) := by
      rw [hfx]
      simp only [fragOut, Option.map_some, fragmentEnums, hue]
      exact List.mem_flatMap.mpr ⟨g, hg, he⟩
    simp [this]
  · -- class statements, in the emitted order
    obtain ⟨rk, hrk⟩ := spreadRank_of_acyclic (cfg := cfg) hac
    have hrank := Fragments.deps_acyclic id _ rk hrk _ _ st.marks fo hfo
    have hload := Fragments.fragments_load id enumOK_id _ _ _ st.marks fo hfo rk hrank
    apply classesLoad_of
    · intro pre c post heq u hu
      simp only [fragmentsModuleIR] at heq
      obtain ⟨l1, cd, l2, e1, e2, e3, e4⟩ := map_split resultClassIR fo.classes pre c post heq
      subst e3
      have hcdm : cd ∈ fo.classes := by rw [e1]; simp
      have hcm : resultClassIR cd ∈ (fragmentsModuleIR cfg fo gens).classes := by
        simp only [fragmentsModuleIR]
        exact List.mem_map.mpr ⟨cd, hcdm, rfl⟩
      obtain ⟨g, hg, hcdg⟩ := hclsFrom cd hcdm
      obtain ⟨f, marks, hf, hgn⟩ := hgen g hg
      have gs := ResultTypes.generate_out _ _ _ marks _ hgn
      rcases List.mem_append.mp hu with hu | hu
      · -- a base: external or defined earlier
        have hused : u ∈ (fragmentsModuleIR cfg fo gens).usedNames := mem_usedNames_class hcm (by simp [hu])
        have hb : u ∈ cd.bases := hu
        have hsplit : Fragments.classTable fo.classes = Fragments.classTable l1 ++ (cd.name, cd.bases) :: Fragments.classTable l2 := by
          rw [e1]; simp [Fragments.classTable]
        rcases loadsFrom_split (Fragments.external fo) _ [] hload _ _ _ _ hsplit u hb with hext | hseen | hpre
        · left
          rcases hext with h1 | h1
          · exact result_extbase_bound (himpSub g hg) hused (Or.inl h1)
          · rw [hmi] at h1
            obtain ⟨pr, hpr, rfl⟩ := List.mem_map.mp h1
            obtain ⟨g', hg', hpr'⟩ := List.mem_flatMap.mp hpr
            exact result_extbase_bound (himpSub g' hg') hused (Or.inr ⟨pr, hpr', rfl⟩)
        · cases hseen
        · right
          rw [e2]
          simpa [Fragments.classTable, resultClassIR, Function.comp] using hpre
      · exact Or.inl (result_uses_bound hc gs (himpSub g hg) hcdg hcm u hu)
    · intro f hf
      simp [fragmentsModuleIR] at hf
  · refine List.all_eq_true.mpr ?_
    intro r hr
    simp only [fragmentsModuleIR] at hr ⊢
    have := rebuildCalls_mem hrb r hr
    simpa [resultClassIR, Function.comp] using this

end

end Ariadne.C04Proofs
