/-
  C15, whole-pipeline statement for plugin lists made of ExtractOperations and plugins that leave the client module
  and the methods alone (identity plugin, NoReimports): the run of the generator with such a list, compared hook call
  by hook call with the unplugged run.

  ExtractOperations records every operation string (`generate_operation_str`), rewrites every client method when it is
  handed over (`generate_client_method`: the inlined string is dropped, `query=` names the constant), puts one import in
  front of the client module (`generate_client_module`) and writes the operations module when `__init__` is generated.
  The generator's own bookkeeping therefore differs from the unplugged run in exactly one respect: the methods it
  collected (and the class assembled from them) are the rewritten ones.
-/
import AriadneModel.Proofs.C15Quiet
import AriadneModel.Proofs.C15History
import AriadneModel.Proofs.C15ShorterRun
import AriadneModel.Proofs.C15Shape
import AriadneModel.Model.PluginWholeE

set_option linter.unusedSimpArgs false
set_option linter.unusedVariables false

namespace Ariadne.C15
open Ariadne Ariadne.Py Ariadne.Plugins Ariadne.ClientSem

/-! ### the plugin manager on `inert ++ [p] ++ inert` -/

theorem mid_manager (c : Call) (a b : List PState) (ha : Inert a) (p : PState) (x : Payload) :
    ∃ xa, applyAll PState.step c a x = .ok (a, xa) ∧ (c.hook ≠ "generate_init_module" → xa = x) ∧
      manager c (a ++ p :: b) x =
        (PState.step c p xa >>= fun r =>
          applyAll PState.step c b r.2 >>= fun rb => pure (a ++ r.1 :: rb.1, rb.2)) := by
  obtain ⟨xa, hxa, hxa2⟩ := inert_manager c a ha x
  refine ⟨xa, hxa, hxa2, ?_⟩
  unfold manager
  rw [applyAll_append, hxa]
  simp only [bind_ok]
  rw [applyAll_cons]
  cases PState.step c p xa with
  | error e => rfl
  | ok r =>
    simp only [bind_ok, pure_eq_ok]
    try (cases applyAll PState.step c b r.2 <;> rfl)

theorem extract_step_eq (c : Call) (est : ExtractState) (x : Payload) :
    PState.step c (.extract est) x = (extractStep c est x >>= fun r => pure (PState.extract r.1, r.2)) := by
  simp only [PState.step]

/-- a hook call on which ExtractOperations returns `(est', y)`, outside `generate_init_module` -/
theorem emanager_of_step (c : Call) (hc : c.hook ≠ "generate_init_module") (a b : List PState) (ha : Inert a) (hb : Inert b)
    (est est' : ExtractState) (x y : Payload) (hs : extractStep c est x = .ok (est', y)) :
    manager c (a ++ .extract est :: b) x = .ok (a ++ .extract est' :: b, y) := by
  obtain ⟨xa, _, hxa2, hm⟩ := mid_manager c a b ha (.extract est) x
  have := hxa2 hc
  subst this
  rw [hm, extract_step_eq, hs]
  simp only [bind_ok, pure_eq_ok]
  obtain ⟨y', hy, hy2⟩ := inert_manager c b hb y
  rw [hy, hy2 hc]
  rfl

theorem extractStep_other (c : Call) (est : ExtractState) (x : Payload)
    (h1 : c.hook ≠ "generate_operation_str") (h2 : c.hook ≠ "generate_client_method")
    (h3 : c.hook ≠ "generate_client_module") (h4 : c.hook ≠ "generate_init_module") :
    extractStep c est x = .ok (est, x) := by
  unfold extractStep
  split <;> simp_all [pure_eq_ok]

/-! ### the relation between the two runs -/

inductive PairRel (R : Method → Method → Prop) : List Method → List Method → Prop where
  | nil : PairRel R [] []
  | cons {a b : Method} {l1 l2 : List Method} : R a b → PairRel R l1 l2 → PairRel R (a :: l1) (b :: l2)

theorem PairRel.imp {R R' : Method → Method → Prop} (h : ∀ a b, R a b → R' a b) :
    ∀ {l1 l2 : List Method}, PairRel R l1 l2 → PairRel R' l1 l2 := by
  intro l1 l2 hl
  induction hl with
  | nil => exact .nil
  | cons hab _ ih => exact .cons (h _ _ hab) ih

theorem PairRel.snoc {R : Method → Method → Prop} {l1 l2 : List Method} {a b : Method} (hl : PairRel R l1 l2) (hab : R a b) :
    PairRel R (l1 ++ [a]) (l2 ++ [b]) := by
  induction hl with
  | nil => exact .cons hab .nil
  | cons h _ ih => exact .cons h ih

/-- `mP` is what ExtractOperations made of `mQ`, the method of an operation it has recorded -/
def MethE (est : ExtractState) (mQ mP : Method) : Prop :=
  ∃ op v g s q, alookup op est.vars = some v ∧ alookup op est.gqls = some g ∧
    mQ.body = bodyOf s ∧ s.imports = [] ∧ s.op = .inline q (pyLines g) ∧
    mP = { mQ with body := bodyOf { s with op := .const v } }

theorem MethE.name {est mQ mP} (h : MethE est mQ mP) : mP.name = mQ.name := by
  obtain ⟨_, _, _, _, _, _, _, _, _, _, rfl⟩ := h; rfl

def MethE' (est : ExtractState) (mQ mP : Method) : Prop := mP = mQ ∨ MethE est mQ mP

def ClassE (est : ExtractState) : Option ClassDef → Option ClassDef → Prop
  | none, none => True
  | some cQ, some cP => cP.name = cQ.name ∧ cP.bases = cQ.bases ∧ cP.keywords = cQ.keywords ∧ ItemsRel (MethE' est) cQ.body cP.body
  | _, _ => False

structure ERel (a b : List PState) (est : ExtractState) (P Q : PipeState) : Prop where
  plugins : P.plugins = a ++ .extract est :: b
  nil : Q.plugins = []
  imports : P.importsOut = Q.importsOut
  gql : P.gqlOut = Q.gqlOut
  init : P.initImports = Q.initImports
  methods : PairRel (MethE est) Q.methodsOut P.methodsOut
  cls : ClassE est Q.classOut P.classOut

/-- recording one more operation (a new name) does not disturb what was derived from the earlier ones -/
theorem MethE.mono {est est' : ExtractState} (hv : ∀ op v, alookup op est.vars = some v → alookup op est'.vars = some v)
    (hg : ∀ op g, alookup op est.gqls = some g → alookup op est'.gqls = some g) {mQ mP : Method} (h : MethE est mQ mP) :
    MethE est' mQ mP := by
  obtain ⟨op, v, g, s, q, h1, h2, h3, h4, h5, h6⟩ := h
  exact ⟨op, v, g, s, q, hv op v h1, hg op g h2, h3, h4, h5, h6⟩

theorem ClassE.mono {est est' : ExtractState} (hv : ∀ op v, alookup op est.vars = some v → alookup op est'.vars = some v)
    (hg : ∀ op g, alookup op est.gqls = some g → alookup op est'.gqls = some g) {cq cp : Option ClassDef}
    (h : ClassE est cq cp) : ClassE est' cq cp := by
  cases cq <;> cases cp <;> simp only [ClassE] at h ⊢
  obtain ⟨h1, h2, h3, h4⟩ := h
  refine ⟨h1, h2, h3, ItemsRel.imp ?_ h4⟩
  intro m m' hm
  rcases hm with hm | hm
  · exact .inl hm
  · exact .inr (hm.mono hv hg)

/-! ### `replaceMethods` on pointwise related method lists -/

theorem forall2_find {R : Method → Method → Prop} (hname : ∀ a b, R a b → b.name = a.name) (n : String) :
    ∀ {l1 l2 : List Method}, PairRel R l1 l2 →
      (l1.find? (fun o => o.name == n) = none ∧ l2.find? (fun o => o.name == n) = none) ∨
      (∃ a b, l1.find? (fun o => o.name == n) = some a ∧ l2.find? (fun o => o.name == n) = some b ∧ R a b) := by
  intro l1 l2 h
  induction h with
  | nil => exact .inl ⟨rfl, rfl⟩
  | @cons a b l1 l2 hab _ ih =>
    simp only [List.find?_cons, hname a b hab]
    cases hk : (a.name == n) with
    | true => exact .inr ⟨a, b, rfl, rfl, hab⟩
    | false => exact ih

theorem forall2_eraseP {R : Method → Method → Prop} (hname : ∀ a b, R a b → b.name = a.name) (n : String) :
    ∀ {l1 l2 : List Method}, PairRel R l1 l2 →
      PairRel R (l1.eraseP (fun o => o.name == n)) (l2.eraseP (fun o => o.name == n)) := by
  intro l1 l2 h
  induction h with
  | nil => exact .nil
  | @cons a b l1 l2 hab hrest ih =>
    simp only [List.eraseP_cons, hname a b hab]
    cases hk : (a.name == n) with
    | true => exact hrest
    | false => exact .cons hab ih

theorem replaceMethods_rel {R : Method → Method → Prop} (hname : ∀ a b, R a b → b.name = a.name) :
    ∀ (body : List ClassItem) {l1 l2 : List Method}, PairRel R l1 l2 →
      ItemsRel (fun m m' => m' = m ∨ R m m') (replaceMethods body l1) (replaceMethods body l2) := by
  intro body
  induction body with
  | nil => intro l1 l2 _; exact .nil
  | cons it rest ih =>
    intro l1 l2 h
    cases it with
    | method m =>
      simp only [replaceMethods]
      rcases forall2_find hname m.name h with ⟨h1, h2⟩ | ⟨x, y, h1, h2, hxy⟩
      · rw [h1, h2]; exact .method (.inl rfl) (ih h)
      · rw [h1, h2]; exact .method (.inr hxy) (ih (forall2_eraseP hname m.name h))
    | stmt s =>
      simp only [replaceMethods]
      exact .other (ih h)

end Ariadne.C15

namespace Ariadne.C15
open Ariadne Ariadne.Py Ariadne.Plugins Ariadne.ClientSem

/-! ### one hook call before `generate_client_module` -/

theorem ebook_other (est : ExtractState) (e : Event) (h : e.call.hook ≠ "generate_operation_str") : ebook est e = est := by
  unfold ebook
  split
  · exfalso; simp_all
  · rfl

theorem record_keep (p : PipeState) (c : Call) (y : Payload)
    (h1 : c.hook ≠ "generate_client_method") (h2 : c.hook ≠ "generate_client_import") (h3 : c.hook ≠ "generate_gql_function")
    (h4 : c.hook ≠ "generate_client_class") (h5 : c.hook ≠ "generate_init_import") : record p c y = p := by
  unfold record
  split <;> simp_all

/-- `record` on two related states and the same returned object, for a hook that is neither
    `generate_client_method` nor `generate_client_class` -/
theorem record_erel (a b : List PState) (est : ExtractState) (P Q : PipeState) (c : Call) (y : Payload)
    (h1 : c.hook ≠ "generate_client_method") (h4 : c.hook ≠ "generate_client_class") (h : ERel a b est P Q) :
    ERel a b est (record P c y) (record Q c y) := by
  obtain ⟨r1, r2, r3, r4, r5, r6, r7⟩ := h
  unfold record
  split
  · exfalso; simp_all
  · rename_i i _
    by_cases hk : keepClientImport c i = true
    · simp only [hk, ↓reduceIte]; exact ⟨r1, r2, by simp [r3], r4, r5, r6, r7⟩
    · simp only [hk]; exact ⟨r1, r2, r3, r4, r5, r6, r7⟩
  · exact ⟨r1, r2, r3, by simp, r5, r6, r7⟩
  · exfalso; simp_all
  · exact ⟨r1, r2, r3, r4, by simp [r5], r6, r7⟩
  · exact ⟨r1, r2, r3, r4, r5, r6, r7⟩

/-- a hook call on which ExtractOperations hands on what it is handed and the generator records nothing -/
theorem step_unchanged (a b : List PState) (ha : Inert a) (hb : Inert b) (est : ExtractState) (P Q : PipeState) (e : Event)
    (hc2 : e.call.hook ≠ "generate_init_module") (h : ERel a b est P Q) (x : Payload)
    (hinP : inputFor P e = x) (hinQ : inputFor Q e = x) (hstep : extractStep e.call est x = .ok (est, x))
    (hr : ∀ R : PipeState, record R e.call x = R) :
    ∃ P' Q', stepEvent P e = .ok P' ∧ stepEvent Q e = .ok Q' ∧ ERel a b est P' Q' := by
  have hQ := stepEvent_nil Q h.nil e
  have hm := emanager_of_step e.call hc2 a b ha hb est est x x hstep
  have e1 := stepEvent_of_manager P e (a ++ .extract est :: b) x (by rw [hinP, h.plugins]; exact hm)
  rw [hinQ] at hQ
  rw [hinP] at e1
  refine ⟨_, _, e1, hQ, ?_⟩
  rw [hr, hr]
  exact ⟨rfl, rfl, h.imports, h.gql, h.init, h.methods, h.cls⟩

theorem stepEvent_extract (a b : List PState) (ha : Inert a) (hb : Inert b) (est : ExtractState) (P Q : PipeState) (e : Event)
    (hc1 : e.call.hook ≠ "generate_client_module") (hc2 : e.call.hook ≠ "generate_init_module")
    (h : ERel a b est P Q) (hok : evOKE est e = true) :
    ∃ P' Q', stepEvent P e = .ok P' ∧ stepEvent Q e = .ok Q' ∧ ERel a b (ebook est e) P' Q' := by
  have hQ := stepEvent_nil Q h.nil e
  by_cases hs : e.call.hook = "generate_operation_str"
  · -- the operation string is recorded
    have hin : ∀ R : PipeState, inputFor R e = e.payload := fun R =>
      inputFor_other R e (by rw [hs]; decide) hc1 hc2
    have hrec : ∀ (R : PipeState) (y : Payload), record R e.call y = R := fun R y =>
      record_keep R e.call y (by rw [hs]; decide) (by rw [hs]; decide) (by rw [hs]; decide) (by rw [hs]; decide) (by rw [hs]; decide)
    by_cases hstr : ∃ g, e.payload = .str g
    · obtain ⟨g, hp⟩ := hstr
      rw [hin Q] at hQ
      unfold evOKE at hok
      simp only [hs, hp] at hok
      cases hon : e.call.opName with
      | none => simp [hon] at hok
      | some op =>
        cases hsn : e.call.opSnake with
        | none => simp [hon, hsn] at hok
        | some sn =>
          simp only [hon, hsn, Bool.and_eq_true, Bool.not_eq_true'] at hok
          obtain ⟨hfv, hfg⟩ := hok
          have hbook : ebook est e = { est with gqls := aset op g est.gqls, vars := aset op (gqlVarName sn) est.vars } := by
            unfold ebook; simp only [hs, hp, hon, hsn]
          have hstep : extractStep e.call est (.str g) = .ok (ebook est e, .str g) := by
            rw [hbook]
            simp [extractStep, hs, extract_opStr est e.call g op sn hon hsn, bind_ok, pure_eq_ok]
          have hm := emanager_of_step e.call hc2 a b ha hb est (ebook est e) (.str g) (.str g) hstep
          have e1 := stepEvent_of_manager P e (a ++ .extract (ebook est e) :: b) (.str g) (by rw [hin P, hp, h.plugins]; exact hm)
          rw [hp] at hQ
          rw [hin P, hp] at e1
          refine ⟨_, _, e1, hQ, ?_⟩
          rw [hrec, hrec]
          have hv : ∀ op' v, alookup op' est.vars = some v → alookup op' (ebook est e).vars = some v := by
            intro op' v hl
            rw [hbook]
            have : op ≠ op' := by intro hc; subst hc; simp [ahas, hl] at hfv
            simp only
            rw [alookup_aset_other op op' _ _ this]; exact hl
          have hg : ∀ op' g', alookup op' est.gqls = some g' → alookup op' (ebook est e).gqls = some g' := by
            intro op' g' hl
            rw [hbook]
            have : op ≠ op' := by intro hc; subst hc; simp [ahas, hl] at hfg
            simp only
            rw [alookup_aset_other op op' _ _ this]; exact hl
          exact ⟨rfl, rfl, h.imports, h.gql, h.init, PairRel.imp (fun _ _ hm => hm.mono hv hg) h.methods,
            ClassE.mono hv hg h.cls⟩
    · have hbook : ebook est e = est := by
        unfold ebook
        split
        · exfalso; apply hstr; exact ⟨_, by assumption⟩
        · rfl
      have hstep : extractStep e.call est e.payload = .ok (est, e.payload) := by
        unfold extractStep
        split
        · rename_i s0 _ hpay; exact absurd ⟨s0, hpay⟩ hstr
        all_goals first | rfl | (exfalso; simp_all)
      rw [hbook]
      exact step_unchanged a b ha hb est P Q e hc2 h e.payload (hin P) (hin Q) hstep (fun R => hrec R _)
  · rw [ebook_other est e hs]
    by_cases hmth : e.call.hook = "generate_client_method"
    · -- the method of an operation is handed over
      have hin : ∀ R : PipeState, inputFor R e = e.payload := fun R =>
        inputFor_other R e (by rw [hmth]; decide) hc1 hc2
      by_cases hmp : ∃ m, e.payload = .method m
      · obtain ⟨m, hp⟩ := hmp
        rw [hin Q] at hQ
        unfold evOKE at hok
        simp only [hmth, hp] at hok
        cases hon : e.call.opName with
        | none => simp [hon] at hok
        | some op =>
          simp only [hon] at hok
          cases hlv : alookup op est.vars with
          | none => simp [hlv] at hok
          | some v =>
            cases hlg : alookup op est.gqls with
            | none => simp [hlv, hlg] at hok
            | some g =>
              cases hsh : shapeOf m with
              | none => simp [hlv, hlg, hsh] at hok
              | some s =>
                simp only [hlv, hlg, hsh, Bool.and_eq_true, List.isEmpty_iff] at hok
                obtain ⟨⟨himps, hop⟩, hkind⟩ := hok
                cases hsop : s.op with
                | const cn => simp [hsop] at hop
                | inline q ls =>
                  simp only [hsop, beq_iff_eq] at hop
                  subst hop
                  have hbody := shapeOf_sound m s hsh
                  have hk : (match s.tail with
                      | .call aw _ _ => e.call.opKind ≠ some "subscription" ∧ est.asyncClient = aw
                      | .sub _ _ _ => e.call.opKind = some "subscription") := by
                    unfold kindE at hkind
                    cases ht : s.tail with
                    | call aw r d => simp only [ht, Bool.and_eq_true, bne_iff_ne, ne_eq, beq_iff_eq] at hkind ⊢; exact hkind
                    | sub d l o => simp only [ht, beq_iff_eq] at hkind ⊢; exact hkind
                  have hem := extract_method est e.call m s q (pyLines g) op v hbody himps hsop hon hlv hk
                  have hstep : extractStep e.call est (.method m) =
                      .ok (est, .method { m with body := bodyOf { s with op := .const v } }) := by
                    simp [extractStep, hmth, hem, bind_ok, pure_eq_ok]
                  have hm := emanager_of_step e.call hc2 a b ha hb est est _ _ hstep
                  have e1 := stepEvent_of_manager P e _ _ (by rw [hin P, hp, h.plugins]; exact hm)
                  rw [hp] at hQ
                  rw [hin P, hp] at e1
                  refine ⟨_, _, e1, hQ, ?_⟩
                  have hrP : ∀ (R : PipeState) (mm : Method), record R e.call (.method mm) = { R with methodsOut := R.methodsOut ++ [mm] } := by
                    intro R mm; unfold record; simp [hmth]
                  rw [hrP, hrP]
                  exact ⟨rfl, rfl, h.imports, h.gql, h.init,
                    PairRel.snoc h.methods ⟨op, v, g, s, q, hlv, hlg, hbody, himps, hsop, rfl⟩, h.cls⟩
      · have hstep : extractStep e.call est e.payload = .ok (est, e.payload) := by
          unfold extractStep
          split
          · exfalso; simp_all
          · rename_i m0 _ hpay; exact absurd ⟨m0, hpay⟩ hmp
          all_goals first | rfl | (exfalso; simp_all)
        have hr : ∀ R : PipeState, record R e.call e.payload = R := by
          intro R; unfold record
          split
          · rename_i m0 _ hpay; exact absurd ⟨m0, hpay⟩ hmp
          all_goals first | rfl | (exfalso; simp_all)
        exact step_unchanged a b ha hb est P Q e hc2 h e.payload (hin P) (hin Q) hstep hr
    · have hother : ∀ x : Payload, extractStep e.call est x = .ok (est, x) := fun x =>
        extractStep_other e.call est x hs hmth hc1 hc2
      by_cases hk : e.call.hook = "generate_client_class"
      · -- the class is assembled from the methods collected so far
        by_cases hkp : ∃ c, e.payload = .klass c
        · obtain ⟨c, hp⟩ := hkp
          have hinP : inputFor P e = .klass { c with body := replaceMethods c.body P.methodsOut } := by
            unfold inputFor; simp [hk, hp]
          have hinQ : inputFor Q e = .klass { c with body := replaceMethods c.body Q.methodsOut } := by
            unfold inputFor; simp [hk, hp]
          have hm := emanager_of_step e.call hc2 a b ha hb est est _ _ (hother (inputFor P e))
          have e1 := stepEvent_of_manager P e _ _ (by rw [h.plugins]; exact hm)
          refine ⟨_, _, e1, hQ, ?_⟩
          rw [hinP, hinQ]
          have hr : ∀ (R : PipeState) (k : ClassDef), record R e.call (.klass k) = { R with classOut := some k } := by
            intro R k; unfold record; simp [hk]
          rw [hr, hr]
          refine ⟨rfl, rfl, h.imports, h.gql, h.init, h.methods, ?_⟩
          exact ⟨rfl, rfl, rfl, replaceMethods_rel (fun _ _ hm => hm.name) c.body h.methods⟩
        · have hin : ∀ R : PipeState, inputFor R e = e.payload := by
            intro R; unfold inputFor
            split
            · rename_i c0 _ hpay; exact absurd ⟨c0, hpay⟩ hkp
            all_goals first | rfl | (exfalso; simp_all)
          have hr : ∀ R : PipeState, record R e.call e.payload = R := by
            intro R; unfold record
            split
            · exfalso; simp_all
            · exfalso; simp_all
            · exfalso; simp_all
            · rename_i c0 _ hpay; exact absurd ⟨c0, hpay⟩ hkp
            all_goals first | rfl | (exfalso; simp_all)
          exact step_unchanged a b ha hb est P Q e hc2 h e.payload (hin P) (hin Q) (hother _) hr
      · -- every other hook: the object goes through unchanged, the generator records the same thing
        have hin : ∀ R : PipeState, inputFor R e = e.payload := fun R => inputFor_other R e hk hc1 hc2
        have hm := emanager_of_step e.call hc2 a b ha hb est est _ _ (hother e.payload)
        have e1 := stepEvent_of_manager P e _ _ (by rw [hin P, h.plugins]; exact hm)
        rw [hin Q] at hQ
        rw [hin P] at e1
        refine ⟨_, _, e1, hQ, ?_⟩
        apply record_erel a b est _ _ e.call e.payload hmth hk
        exact ⟨rfl, rfl, h.imports, h.gql, h.init, h.methods, h.cls⟩

end Ariadne.C15

namespace Ariadne.C15
open Ariadne Ariadne.Py Ariadne.Plugins Ariadne.ClientSem

/-! ### the events before `generate_client_module` -/

theorem runPipeline_extract (a b : List PState) (ha : Inert a) (hb : Inert b) (evs : List Event)
    (hno : ∀ e ∈ evs, e.call.hook ≠ "generate_client_module" ∧ e.call.hook ≠ "generate_init_module") :
    ∀ (est : ExtractState) (P Q : PipeState), ERel a b est P Q → checkE est evs = true →
      (runPipeline P evs).2 = none ∧ (runPipeline Q evs).2 = none ∧
      ERel a b (evs.foldl ebook est) (runPipeline P evs).1 (runPipeline Q evs).1 := by
  induction evs with
  | nil => intro est P Q h _; exact ⟨rfl, rfl, h⟩
  | cons e rest ih =>
    intro est P Q h hck
    simp only [checkE, Bool.and_eq_true] at hck
    unfold runPipeline
    obtain ⟨P', Q', e1, e2, hrel⟩ := stepEvent_extract a b ha hb est P Q e (hno e (by simp)).1 (hno e (by simp)).2 h hck.1
    rw [e1, e2]
    exact ih (fun e' he' => hno e' (by simp [he'])) (ebook est e) P' Q' hrel hck.2

/-! ### every recorded operation string has its constant -/

def EInv (est : ExtractState) : Prop := ∀ op g, (op, g) ∈ est.gqls → ∃ v, alookup op est.vars = some v

theorem ebook_inv (est : ExtractState) (e : Event) (h : EInv est) : EInv (ebook est e) := by
  unfold ebook
  split
  · rename_i g op sn _ _ _ _
    intro op' g' hm
    simp only at hm ⊢
    by_cases ho : op = op'
    · subst ho; exact ⟨_, alookup_aset_self op _ _⟩
    · rcases mem_aset op g est.gqls (op', g') hm with heq | hold
      · cases heq; exact absurd rfl ho
      · obtain ⟨v, hv⟩ := h op' g' hold
        exact ⟨v, by rw [alookup_aset_other op op' _ _ ho]; exact hv⟩
  · exact h

theorem foldl_ebook_inv (evs : List Event) : ∀ est, EInv est → EInv (evs.foldl ebook est) := by
  induction evs with
  | nil => intro est h; exact h
  | cons e rest ih => intro est h; exact ih _ (ebook_inv est e h)

/-- one `NAME = [lines]` assignment of `_get_operations_module` -/
def opsAssign (est : ExtractState) (kv : String × String) : M (String × List String) :=
  match alookup kv.1 est.vars with
  | some v => pure (v, pyLines kv.2)
  | none => throw "KeyError"

theorem extractOpsFile_eq (est : ExtractState) :
    extractOpsFile est = (est.gqls.mapM (opsAssign est) >>= fun assigns =>
      pure { all := sortStrings (est.vars.map (·.2)), assigns := assigns }) := rfl

theorem mapM_opsAssign_ok (est : ExtractState) : ∀ (l : List (String × String)),
    (∀ kv ∈ l, ∃ v, alookup kv.1 est.vars = some v) → ∃ r, l.mapM (opsAssign est) = .ok r := by
  intro l
  induction l with
  | nil => intro _; exact ⟨[], rfl⟩
  | cons kv rest ih =>
    intro hl
    obtain ⟨v, hv⟩ := hl kv (by simp)
    obtain ⟨r, hr⟩ := ih (fun x hx => hl x (by simp [hx]))
    refine ⟨(v, pyLines kv.2) :: r, ?_⟩
    rw [List.mapM_cons]
    have : opsAssign est kv = .ok (v, pyLines kv.2) := by unfold opsAssign; rw [hv]; rfl
    rw [this, hr]
    rfl

theorem extractOpsFile_ok (est : ExtractState) (h : EInv est) : ∃ f, extractOpsFile est = .ok f := by
  obtain ⟨r, hr⟩ := mapM_opsAssign_ok est est.gqls (fun kv hkv => h kv.1 kv.2 hkv)
  rw [extractOpsFile_eq, hr]
  exact ⟨_, rfl⟩

/-! ### `generate_init_module` -/

theorem inert_manager_init (c : Call) (hc : c.hook = "generate_init_module") : ∀ (ps : List PState), Inert ps → ∀ (x : Payload),
    ∃ y, applyAll PState.step c ps x = .ok (ps, y) ∧ (y = x ∨ y = .module { body := [] }) := by
  intro ps
  induction ps with
  | nil => intro _ x; exact ⟨x, rfl, .inl rfl⟩
  | cons p rest ih =>
    intro hin x
    have hp := hin p (by simp)
    have hrest : Inert rest := fun q hq => hin q (by simp [hq])
    rw [applyAll_cons]
    rcases hp with rfl | rfl
    · obtain ⟨y, hy, hy2⟩ := ih hrest x
      refine ⟨y, ?_, hy2⟩
      show (Except.ok (PState.identity, x) >>= _) = _
      simp only [bind_ok, hy, pure_eq_ok]
    · obtain ⟨y, hy, hy2⟩ := ih hrest (noReimportsStep c x)
      refine ⟨y, ?_, ?_⟩
      · show (Except.ok (PState.noReimports, noReimportsStep c x) >>= _) = _
        simp only [bind_ok, hy, pure_eq_ok]
      · have hx : noReimportsStep c x = x ∨ noReimportsStep c x = .module { body := [] } := by
          unfold noReimportsStep
          split
          · exact .inr rfl
          · exact .inl rfl
        rcases hy2 with rfl | rfl
        · exact hx
        · exact .inr rfl

/-- the module `InitFileGenerator.generate` assembles: the imports and, if there are any, `__all__ = [...]` last -/
def InitShaped (x : Payload) : Prop :=
  ∀ M, x = .module M → M.body = [] ∨ ∃ pre t elts, M.body = pre ++ [.simple (.assignList t elts)]

theorem inputFor_init_shaped (R : PipeState) (e : Event) (hc : e.call.hook = "generate_init_module")
    (hp : ∀ M, e.payload = .module M → False ∨ True) : (∃ mp, e.payload = .module mp) → InitShaped (inputFor R e) := by
  rintro ⟨mp, hmp⟩ M hM
  unfold inputFor at hM
  simp only [hc, hmp] at hM
  simp only [Payload.module.injEq] at hM
  subst hM
  simp only
  cases hi : R.initImports with
  | nil => left; simp
  | cons i rest =>
    right
    simp only [List.map_cons, List.isEmpty_cons, Bool.false_eq_true, ↓reduceIte, List.cons_append]
    exact ⟨Top.simple (.importFrom i) :: rest.map (fun i => Top.simple (.importFrom i)), _, _, rfl⟩

theorem extractInitModule_ok (est : ExtractState) (M : Module) (hinv : EInv est)
    (hM : M.body = [] ∨ ∃ pre t elts, M.body = pre ++ [.simple (.assignList t elts)]) :
    ∃ f M', extractOpsFile est = .ok f ∧ extractInitModule est M = .ok ({ est with written := some f }, M') := by
  obtain ⟨f, hf⟩ := extractOpsFile_ok est hinv
  unfold extractInitModule
  rcases hM with hM | ⟨pre, t, elts, hM⟩
  · refine ⟨f, M, hf, ?_⟩
    have hemp : M.body.isEmpty = true := by rw [hM]; rfl
    simp only [hemp, ↓reduceIte, hf, bind_ok, pure_eq_ok]
  · have hne : M.body.isEmpty = false := by
      rw [hM]; cases pre <;> rfl
    have hlast : (extractImport est :: M.body).getLast? = some (.simple (.assignList t elts)) := by
      rw [hM, ← List.cons_append, List.getLast?_append]
      rfl
    refine ⟨f, { body := (extractImport est :: M.body).dropLast ++
      [.simple (.assignList t (sortStrings (elts ++ est.vars.map (·.2))))] }, hf, ?_⟩
    simp only [hne, Bool.false_eq_true, ↓reduceIte, hlast, bind_ok, pure_eq_ok, hf]

theorem stepEvent_extract_init (a b : List PState) (ha : Inert a) (hb : Inert b) (est : ExtractState) (P Q : PipeState) (e : Event)
    (hc : e.call.hook = "generate_init_module") (h : ERel a b est P Q) (hinv : EInv est) :
    ∃ P' Q' est', stepEvent P e = .ok P' ∧ stepEvent Q e = .ok Q' ∧ ERel a b est' P' Q' ∧
      est'.vars = est.vars ∧ est'.gqls = est.gqls ∧ est'.opsModuleName = est.opsModuleName ∧
      ((∃ mp, e.payload = .module mp) → ∃ f, extractOpsFile est = .ok f ∧ est'.written = some f) ∧
      (est' = est ∨ ∃ f, extractOpsFile est = .ok f ∧ est' = { est with written := some f }) := by
  have hQ := stepEvent_nil Q h.nil e
  have hinput : inputFor P e = inputFor Q e := by
    unfold inputFor
    rw [hc]
    cases e.payload <;> simp [h.init]
  obtain ⟨xa, hxa, hxa2⟩ := inert_manager_init e.call hc a ha (inputFor Q e)
  obtain ⟨_, hxa', _, hm⟩ := mid_manager e.call a b ha (.extract est) (inputFor Q e)
  rw [hxa] at hxa'
  have hxeq := (Prod.mk.inj (Except.ok.inj hxa')).2
  subst hxeq
  -- what ExtractOperations is handed
  by_cases hmod : ∃ mp, e.payload = .module mp
  · have hshape := inputFor_init_shaped Q e hc (fun _ _ => .inr trivial) hmod
    have hxm : ∃ Mx, xa = .module Mx ∧ (Mx.body = [] ∨ ∃ pre t elts, Mx.body = pre ++ [.simple (.assignList t elts)]) := by
      obtain ⟨mp, hmp⟩ := hmod
      have hisM : ∃ M0, inputFor Q e = .module M0 := by
        unfold inputFor; simp only [hc, hmp]; exact ⟨_, rfl⟩
      obtain ⟨M0, hM0⟩ := hisM
      rcases hxa2 with rfl | rfl
      · exact ⟨M0, hM0, hshape M0 hM0⟩
      · exact ⟨{ body := [] }, rfl, .inl rfl⟩
    obtain ⟨Mx, rfl, hMx⟩ := hxm
    obtain ⟨f, M', hf, hinit⟩ := extractInitModule_ok est Mx hinv hMx
    have hstep : extractStep e.call est (.module Mx) = .ok ({ est with written := some f }, .module M') := by
      simp [extractStep, hc, hinit, bind_ok, pure_eq_ok]
    rw [extract_step_eq, hstep] at hm
    simp only [bind_ok, pure_eq_ok] at hm
    obtain ⟨y, hy, _⟩ := inert_manager_init e.call hc b hb (.module M')
    rw [hy] at hm
    simp only [bind_ok, pure_eq_ok] at hm
    have e1 := stepEvent_of_manager P e (a ++ .extract { est with written := some f } :: b) y (by rw [hinput, h.plugins]; exact hm)
    refine ⟨_, _, { est with written := some f }, e1, hQ, ?_, rfl, rfl, rfl, fun _ => ⟨f, hf, rfl⟩, .inr ⟨f, hf, rfl⟩⟩
    rw [record_init _ e.call hc, record_init _ e.call hc]
    exact ⟨rfl, rfl, h.imports, h.gql, h.init, h.methods, h.cls⟩
  · have hin : inputFor Q e = e.payload := by
      unfold inputFor
      split
      · exfalso; simp_all
      · exfalso; simp_all
      · rename_i m0 _ hpay; exact absurd ⟨m0, hpay⟩ hmod
      · rfl
    have hxa3 : xa = e.payload := by
      rcases hxa2 with h1 | h1
      · rw [h1, hin]
      · exfalso
        -- an inert list turns a non-module object into itself only
        have : ∀ (ps : List PState), Inert ps → ∀ y, applyAll PState.step e.call ps e.payload = .ok (ps, y) → y = e.payload := by
          intro ps
          induction ps with
          | nil => intro _ y hy; simp [applyAll, List.foldlM, pure, Except.pure] at hy; exact hy.symm
          | cons p rest ih =>
            intro hin' y hy
            have hp := hin' p (by simp)
            have hrest : Inert rest := fun q hq => hin' q (by simp [hq])
            rw [applyAll_cons] at hy
            have hstep' : PState.step e.call p e.payload = .ok (p, e.payload) := by
              rcases hp with rfl | rfl
              · rfl
              · show Except.ok (PState.noReimports, noReimportsStep e.call e.payload) = _
                have : noReimportsStep e.call e.payload = e.payload := by
                  unfold noReimportsStep
                  split
                  · rename_i m0 _ hpay; exact absurd ⟨m0, hpay⟩ hmod
                  · rfl
                rw [this]
            rw [hstep'] at hy
            simp only [bind_ok] at hy
            cases hr : applyAll PState.step e.call rest e.payload with
            | error err => rw [hr] at hy; cases hy
            | ok r =>
              rw [hr] at hy
              simp only [bind_ok, pure_eq_ok, Except.ok.injEq, Prod.mk.injEq] at hy
              have := ih hrest r.2 (by
                have hr' := hr
                obtain ⟨y', hy', _⟩ := inert_manager e.call rest hrest e.payload
                rw [hy'] at hr'
                rw [← (Except.ok.inj hr')]
                exact hy')
              rw [← hy.2]; exact this
        have := this a ha xa (by rw [← hin]; exact hxa)
        rw [h1] at this
        exact hmod ⟨_, this.symm⟩
    subst hxa3
    have hstep : extractStep e.call est e.payload = .ok (est, e.payload) := by
      unfold extractStep
      split
      · exfalso; simp_all
      · exfalso; simp_all
      · exfalso; simp_all
      · rename_i m0 _ hpay; exact absurd ⟨m0, hpay⟩ hmod
      · rfl
    rw [extract_step_eq, hstep] at hm
    simp only [bind_ok, pure_eq_ok] at hm
    obtain ⟨y, hy, _⟩ := inert_manager_init e.call hc b hb e.payload
    rw [hy] at hm
    simp only [bind_ok, pure_eq_ok] at hm
    have e1 := stepEvent_of_manager P e (a ++ .extract est :: b) y (by rw [hinput, h.plugins]; exact hm)
    refine ⟨_, _, est, e1, hQ, ?_, rfl, rfl, rfl, fun hmp => absurd hmp hmod, .inl rfl⟩
    rw [record_init _ e.call hc, record_init _ e.call hc]
    exact ⟨rfl, rfl, h.imports, h.gql, h.init, h.methods, h.cls⟩

end Ariadne.C15

namespace Ariadne.C15
open Ariadne Ariadne.Py Ariadne.Plugins Ariadne.ClientSem

/-! ### the `generate_client_module` call -/

/-- the client module handed to the hook with ExtractOperations configured (`MP`) and without (`MQ`): the same module,
    except that the methods of the class are the rewritten ones -/
def ModE (est : ExtractState) (MQ MP : Module) : Prop :=
  MP = MQ ∨ ∃ imps g cQ cP, MQ.body = imps ++ [.funcDef g, .classDef cQ] ∧ MP.body = imps ++ [.funcDef g, .classDef cP] ∧
    ClassE est (some cQ) (some cP)

theorem stepEvent_extract_cm (a b : List PState) (ha : Inert a) (hb : Inert b) (est : ExtractState) (P Q : PipeState) (e : Event)
    (hc : e.call.hook = "generate_client_module") (h : ERel a b est P Q) (mp : Module) (hp : e.payload = .module mp) :
    ∃ MQ MP P' Q', inputFor Q e = .module MQ ∧ ModE est MQ MP ∧ stepEvent P e = .ok P' ∧ stepEvent Q e = .ok Q' ∧
      ERel a b est P' Q' ∧
      P'.finalOf "generate_client_module" = some (.module { body := extractImport est :: MP.body }) ∧
      Q'.finalOf "generate_client_module" = some (.module MQ) := by
  have hni : e.call.hook ≠ "generate_init_module" := by rw [hc]; decide
  have hbeq : (e.call.hook == "generate_client_module") = true := by rw [hc]; decide
  -- the two modules
  have hmods : ∃ MQ MP, inputFor Q e = .module MQ ∧ inputFor P e = .module MP ∧ ModE est MQ MP := by
    unfold inputFor
    simp only [hc, hp]
    rw [h.gql]
    have hcls := h.cls
    cases hg : Q.gqlOut with
    | none => exact ⟨mp, mp, rfl, rfl, .inl rfl⟩
    | some g =>
      cases hcq : Q.classOut with
      | none =>
        cases hcp : P.classOut with
        | none => exact ⟨mp, mp, rfl, rfl, .inl rfl⟩
        | some cP => rw [hcq, hcp] at hcls; simp [ClassE] at hcls
      | some cQ =>
        cases hcp : P.classOut with
        | none => rw [hcq, hcp] at hcls; simp [ClassE] at hcls
        | some cP =>
          rw [hcq, hcp] at hcls
          refine ⟨_, _, rfl, rfl, .inr ⟨_, g, cQ, cP, rfl, ?_, hcls⟩⟩
          rw [h.imports]
  obtain ⟨MQ, MP, hQin, hPin, hmod⟩ := hmods
  have hstep : extractStep e.call est (.module MP) = .ok (est, .module { body := extractImport est :: MP.body }) := by
    simp [extractStep, hc, pure_eq_ok]
  have hm := emanager_of_step e.call hni a b ha hb est est _ _ hstep
  have e1 := stepEvent_of_manager P e _ _ (by rw [hPin, h.plugins]; exact hm)
  have e2 := stepEvent_nil Q h.nil e
  refine ⟨MQ, MP, _, _, hQin, hmod, e1, e2, ?_, ?_, ?_⟩
  · rw [record_cm _ e.call hc, record_cm _ e.call hc]
    exact ⟨rfl, rfl, h.imports, h.gql, h.init, h.methods, h.cls⟩
  · rw [stepEvent_finalOf P _ e e1, record_cm _ e.call hc]
    simp [hbeq]
  · rw [stepEvent_finalOf Q _ e e2, record_cm _ e.call hc]
    simp [hbeq, hQin]

/-! ### the events after it: `generate_init_import`, `generate_init_module` -/

theorem extractOpsFile_written (est : ExtractState) (w : Option OpsFile) : extractOpsFile { est with written := w } = extractOpsFile est := rfl

theorem EInv_written (est : ExtractState) (w : Option OpsFile) (h : EInv est) : EInv { est with written := w } := h

def WOK (est : ExtractState) : Prop := est.written = none ∨ ∃ f, extractOpsFile est = .ok f ∧ est.written = some f

theorem evOKE_init_import (est : ExtractState) (e : Event) (h : e.call.hook = "generate_init_import") : evOKE est e = true := by
  unfold evOKE
  split
  · exfalso; simp_all
  · exfalso; simp_all
  · rfl

theorem ebook_init_import (est : ExtractState) (e : Event) (h : e.call.hook = "generate_init_import") : ebook est e = est :=
  ebook_other est e (by rw [h]; decide)

theorem runPipeline_extract_post (a b : List PState) (ha : Inert a) (hb : Inert b) (evs : List Event)
    (hpost : ∀ e ∈ evs, e.call.hook = "generate_init_import" ∨ e.call.hook = "generate_init_module") :
    ∀ (est : ExtractState) (P Q : PipeState), ERel a b est P Q → EInv est → WOK est →
      ∃ est', (runPipeline P evs).2 = none ∧ (runPipeline Q evs).2 = none ∧
        ERel a b est' (runPipeline P evs).1 (runPipeline Q evs).1 ∧
        est'.vars = est.vars ∧ est'.gqls = est.gqls ∧ est'.opsModuleName = est.opsModuleName ∧ WOK est' ∧
        ((∃ e ∈ evs, e.call.hook = "generate_init_module" ∧ ∃ mp, e.payload = .module mp) → est'.written.isSome = true) ∧
        extractOpsFile est' = extractOpsFile est := by
  induction evs with
  | nil =>
    intro est P Q h _ hw
    exact ⟨est, rfl, rfl, h, rfl, rfl, rfl, hw, (fun ⟨e, he, _⟩ => by cases he), rfl⟩
  | cons e rest ih =>
    intro est P Q h hinv hw
    unfold runPipeline
    rcases hpost e (by simp) with hi | hi
    · obtain ⟨P', Q', e1, e2, hrel⟩ := stepEvent_extract a b ha hb est P Q e (by rw [hi]; decide) (by rw [hi]; decide) h
        (evOKE_init_import est e hi)
      rw [ebook_init_import est e hi] at hrel
      rw [e1, e2]
      obtain ⟨est', r1, r2, r3, r4, r5, r6, r7, r8, r9⟩ := ih (fun e' he' => hpost e' (by simp [he'])) est P' Q' hrel hinv hw
      refine ⟨est', r1, r2, r3, r4, r5, r6, r7, ?_, r9⟩
      rintro ⟨e', he', hh, hmp⟩
      rcases List.mem_cons.mp he' with rfl | hin
      · rw [hi] at hh; exact absurd hh (by decide)
      · exact r8 ⟨e', hin, hh, hmp⟩
    · obtain ⟨P', Q', est1, e1, e2, hrel, hv, hg, ho, hwr, hcases⟩ := stepEvent_extract_init a b ha hb est P Q e hi h hinv
      rw [e1, e2]
      have hf1 : extractOpsFile est1 = extractOpsFile est := by
        rcases hcases with rfl | ⟨f, _, rfl⟩
        · rfl
        · rfl
      have hinv1 : EInv est1 := by
        rcases hcases with rfl | ⟨f, _, rfl⟩
        · exact hinv
        · exact hinv
      have hw1 : WOK est1 := by
        rcases hcases with rfl | ⟨f, hf, rfl⟩
        · exact hw
        · exact .inr ⟨f, hf, rfl⟩
      obtain ⟨est', r1, r2, r3, r4, r5, r6, r7, r8, r9⟩ := ih (fun e' he' => hpost e' (by simp [he'])) est1 P' Q' hrel hinv1 hw1
      refine ⟨est', r1, r2, r3, r4.trans hv, r5.trans hg, r6.trans ho, r7, ?_, r9.trans hf1⟩
      rintro ⟨e', he', hh, hmp⟩
      -- once written, the module stays written
      have hkeep : est1.written.isSome = true → est'.written.isSome = true := by
        intro h1
        rcases r7 with hnone | ⟨f, _, hsome⟩
        · -- `est'` can only have lost the file if no later event wrote … but `written` is never reset: use r9 and WOK
          exfalso
          -- est'.written = none while est1.written was some: impossible, every step keeps or sets `written`
          -- (proved through the relation of the plugin lists)
          have hp1 := hrel.plugins
          have hp' := r3.plugins
          -- fall back on the structure of the run
          exact absurd hnone (by
            have : ∀ (evs : List Event) (hp : ∀ e ∈ evs, e.call.hook = "generate_init_import" ∨ e.call.hook = "generate_init_module")
                (s0 : ExtractState) (P0 Q0 : PipeState), ERel a b s0 P0 Q0 → EInv s0 → s0.written.isSome = true →
                ∀ s1, ERel a b s1 (runPipeline P0 evs).1 (runPipeline Q0 evs).1 → s1.written ≠ none := by
              intro evs
              induction evs with
              | nil =>
                intro _ s0 P0 Q0 h0 _ hs0 s1 h1
                have := h0.plugins.symm.trans h1.plugins
                have hinj := List.append_cancel_left this
                simp only [List.cons.injEq, PState.extract.injEq] at hinj
                rw [← hinj.1]
                intro hc; rw [hc] at hs0; cases hs0
              | cons e0 rest0 ih0 =>
                intro hp s0 P0 Q0 h0 hinv0 hs0 s1 h1
                unfold runPipeline at h1
                rcases hp e0 (by simp) with hi0 | hi0
                · obtain ⟨P1, Q1, f1, f2, hrel1⟩ := stepEvent_extract a b ha hb s0 P0 Q0 e0 (by rw [hi0]; decide) (by rw [hi0]; decide) h0
                    (evOKE_init_import s0 e0 hi0)
                  rw [ebook_init_import s0 e0 hi0] at hrel1
                  rw [f1, f2] at h1
                  exact ih0 (fun e' he' => hp e' (by simp [he'])) s0 P1 Q1 hrel1 hinv0 hs0 s1 h1
                · obtain ⟨P1, Q1, s2, f1, f2, hrel1, _, _, _, _, hc2⟩ := stepEvent_extract_init a b ha hb s0 P0 Q0 e0 hi0 h0 hinv0
                  rw [f1, f2] at h1
                  have hs2 : s2.written.isSome = true := by
                    rcases hc2 with rfl | ⟨f, _, rfl⟩
                    · exact hs0
                    · rfl
                  have hinv2 : EInv s2 := by
                    rcases hc2 with rfl | ⟨f, _, rfl⟩
                    · exact hinv0
                    · exact hinv0
                  exact ih0 (fun e' he' => hp e' (by simp [he'])) s2 P1 Q1 hrel1 hinv2 hs2 s1 h1
            exact this rest (fun e' he' => hpost e' (by simp [he'])) est1 P' Q' hrel hinv1 h1 est' r3)
        · rw [hsome]; rfl
      rcases List.mem_cons.mp he' with rfl | hin
      · obtain ⟨f, _, hwf⟩ := hwr hmp
        exact hkeep (by rw [hwf]; rfl)
      · exact r8 ⟨e', hin, hh, hmp⟩

end Ariadne.C15
