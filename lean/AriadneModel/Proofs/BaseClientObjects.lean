/- Lemmas for the object-level model of the variables side (Model/BaseClientObjects.lean):

   A. `separate_files` under an arbitrary `==` of Upload objects (`sepG`): it is `sep` when `==` is identity;
      in general `files_list` is the left-to-right de-duplication under `==`, in which two objects that
      `==` equates are never both kept.
   B. the functions on a store of list/dict objects refine the value-level ones and write only objects
      they allocated themselves: every address that existed before holds what it held (any aliasing).
   C. `executeO` refines `execute` and returns the caller's objects as they were. -/
import AriadneModel.Model.BaseClientObjects
import AriadneModel.Proofs.BaseClientHeap

set_option linter.unusedSimpArgs false
set_option linter.unusedVariables false

namespace Ariadne.BaseClient
open Ariadne

/-! ## A. `sepG` -/

theorem addPathG_identity (u : Nat) (p : String) (st : List Entry) : addPathG uploadEq u p st = addPath u p st := by
  induction st with
  | nil => rfl
  | cons e es ih => simp [addPathG, addPath, uploadEq, ih]

mutual
theorem sepG_identity (p : String) (v : PV) (st : List Entry) : sepG uploadEq p v st = sep p v st := by
  cases v with
  | list xs => simp [sepG, sep, sepListG_identity p 0 xs st]
  | dict kvs => simp [sepG, sep, sepDictG_identity p kvs st]
  | upload i => simp [sepG, sep, addPathG_identity]
  | _ => simp [sepG, sep]
theorem sepListG_identity (p : String) (i : Nat) (xs : List PV) (st : List Entry) :
    sepListG uploadEq p i xs st = sepList p i xs st := by
  cases xs with
  | nil => simp [sepListG, sepList]
  | cons x xs => simp [sepListG, sepList, sepG_identity _ x st, sepListG_identity p (i+1) xs]
theorem sepDictG_identity (p : String) (kvs : List (String × PV)) (st : List Entry) :
    sepDictG uploadEq p kvs st = sepDict p kvs st := by
  cases kvs with
  | nil => simp [sepDictG, sepDict]
  | cons kv rest =>
    obtain ⟨k, x⟩ := kv
    simp [sepDictG, sepDict, sepG_identity _ x st, sepDictG_identity p rest]
end

theorem processVariablesG_identity (vars : Option (List (String × PV))) :
    processVariablesG uploadEq vars = processVariables vars := by
  cases vars with
  | none => rfl
  | some kvs =>
    cases kvs with
    | nil => rfl
    | cons kv rest => simp [processVariablesG, processVariables, sepDictG_identity]

mutual
theorem sepG_fst (eqv : Nat → Nat → Bool) (p : String) (v : PV) (st : List Entry) :
    (sepG eqv p v st).1 = nullUploads v := by
  cases v with
  | list xs => simp [sepG, nullUploads, sepListG_fst eqv p 0 xs st]
  | dict kvs => simp [sepG, nullUploads, sepDictG_fst eqv p kvs st]
  | _ => simp [sepG, nullUploads]
theorem sepListG_fst (eqv : Nat → Nat → Bool) (p : String) (i : Nat) (xs : List PV) (st : List Entry) :
    (sepListG eqv p i xs st).1 = nullUploadsList xs := by
  cases xs with
  | nil => simp [sepListG, nullUploadsList]
  | cons x xs => simp [sepListG, nullUploadsList, sepG_fst eqv _ x st, sepListG_fst eqv p (i+1) xs]
theorem sepDictG_fst (eqv : Nat → Nat → Bool) (p : String) (kvs : List (String × PV)) (st : List Entry) :
    (sepDictG eqv p kvs st).1 = nullUploadsKvs kvs := by
  cases kvs with
  | nil => simp [sepDictG, nullUploadsKvs]
  | cons kv rest =>
    obtain ⟨k, x⟩ := kv
    simp [sepDictG, nullUploadsKvs, sepG_fst eqv _ x st, sepDictG_fst eqv p rest]
end

/-- record the rendered path of every position, in order, under `==` = `eqv` -/
def collectG (eqv : Nat → Nat → Bool) (base : String) (ps : List (Path × Nat)) (st : List Entry) : List Entry :=
  ps.foldl (fun st pu => addPathG eqv pu.2 (render base pu.1) st) st

theorem collectG_append (eqv : Nat → Nat → Bool) (base : String) (l₁ l₂ : List (Path × Nat)) (st : List Entry) :
    collectG eqv base (l₁ ++ l₂) st = collectG eqv base l₂ (collectG eqv base l₁ st) := by
  simp [collectG, List.foldl_append]

theorem collectG_map_cons (eqv : Nat → Nat → Bool) (base : String) (s : Seg) (l : List (Path × Nat)) (st : List Entry) :
    collectG eqv base (l.map (fun pu => (s :: pu.1, pu.2))) st = collectG eqv (base ++ "." ++ s.str) l st := by
  simp [collectG, List.foldl_map, render]

mutual
theorem sepG_snd (eqv : Nat → Nat → Bool) (p : String) (v : PV) (st : List Entry) :
    (sepG eqv p v st).2 = collectG eqv p (upos v) st := by
  cases v with
  | list xs => simp [sepG, upos, sepListG_snd eqv p 0 xs st]
  | dict kvs => simp [sepG, upos, sepDictG_snd eqv p kvs st]
  | upload i => simp [sepG, upos, collectG, render]
  | _ => simp [sepG, upos, collectG]
theorem sepListG_snd (eqv : Nat → Nat → Bool) (p : String) (i : Nat) (xs : List PV) (st : List Entry) :
    (sepListG eqv p i xs st).2 = collectG eqv p (uposList i xs) st := by
  cases xs with
  | nil => simp [sepListG, uposList, collectG]
  | cons x xs =>
    simp only [sepListG, uposList, collectG_append]
    rw [sepListG_snd eqv p (i+1) xs, sepG_snd eqv _ x st]
    rw [collectG_map_cons]
    simp [Seg.str]
theorem sepDictG_snd (eqv : Nat → Nat → Bool) (p : String) (kvs : List (String × PV)) (st : List Entry) :
    (sepDictG eqv p kvs st).2 = collectG eqv p (uposKvs kvs) st := by
  cases kvs with
  | nil => simp [sepDictG, uposKvs, collectG]
  | cons kv rest =>
    obtain ⟨k, x⟩ := kv
    simp only [sepDictG, uposKvs, collectG_append]
    rw [sepDictG_snd eqv p rest, sepG_snd eqv _ x st]
    rw [collectG_map_cons]
    simp [Seg.str]
end

/-- `files_list` after `if obj in files_list: … else: files_list.append(obj)` -/
def keepG (eqv : Nat → Nat → Bool) (kept : List Nat) (x : Nat) : List Nat :=
  if kept.any (fun e => eqv e x) then kept else kept ++ [x]

/-- left-to-right de-duplication under `==` = `eqv` -/
def dedupG (eqv : Nat → Nat → Bool) (kept : List Nat) (xs : List Nat) : List Nat := xs.foldl (keepG eqv) kept

theorem ids_addPathG (eqv : Nat → Nat → Bool) (x : Nat) (p : String) (st : List Entry) :
    ids (addPathG eqv x p st) = keepG eqv (ids st) x := by
  induction st with
  | nil => simp [addPathG, ids, keepG]
  | cons e es ih =>
    by_cases h : eqv e.id x = true
    · simp [addPathG, ids, keepG, h]
    · have h' : eqv e.id x = false := by simpa using h
      simp only [ids] at ih
      by_cases ha : (es.map Entry.id).any (fun e => eqv e x) = true
      · simp [addPathG, ids, keepG, h', ih, ha]
      · have ha' : (es.map Entry.id).any (fun e => eqv e x) = false := by simpa using ha
        simp [addPathG, ids, keepG, h', ih, ha']

theorem ids_collectG (eqv : Nat → Nat → Bool) (base : String) (ps : List (Path × Nat)) (st : List Entry) :
    ids (collectG eqv base ps st) = dedupG eqv (ids st) (ps.map (·.2)) := by
  induction ps generalizing st with
  | nil => rfl
  | cons pu rest ih =>
    simp only [collectG, List.foldl_cons, List.map_cons, dedupG] at ih ⊢
    rw [ih, ids_addPathG]

/-- no earlier element `==` a later one -/
def NoEq (eqv : Nat → Nat → Bool) (l : List Nat) : Prop := l.Pairwise (fun e x => eqv e x = false)

theorem keepG_noEq (eqv : Nat → Nat → Bool) (kept : List Nat) (x : Nat) (h : NoEq eqv kept) : NoEq eqv (keepG eqv kept x) := by
  unfold keepG
  by_cases ha : kept.any (fun e => eqv e x) = true
  · simp [ha]; exact h
  · have ha' : kept.any (fun e => eqv e x) = false := by simpa using ha
    simp only [ha', Bool.false_eq_true, if_false]
    unfold NoEq
    rw [List.pairwise_append]
    refine ⟨h, by simp, ?_⟩
    intro a hm b hb
    simp only [List.mem_singleton] at hb
    subst hb
    simp only [List.any_eq_false] at ha'
    simpa using ha' a hm

theorem dedupG_noEq (eqv : Nat → Nat → Bool) (xs kept : List Nat) (h : NoEq eqv kept) : NoEq eqv (dedupG eqv kept xs) := by
  induction xs generalizing kept with
  | nil => exact h
  | cons x rest ih => exact ih _ (keepG_noEq eqv kept x h)

theorem noEq_not_both (eqv : Nat → Nat → Bool) (a b : Nat) (hab : eqv a b = true) (hba : eqv b a = true) (hne : a ≠ b)
    (l : List Nat) (h : NoEq eqv l) : ¬ (a ∈ l ∧ b ∈ l) := by
  induction l with
  | nil => simp
  | cons x t ih =>
    unfold NoEq at h
    rw [List.pairwise_cons] at h
    rintro ⟨ha, hb⟩
    simp only [List.mem_cons] at ha hb
    rcases ha with ha | ha <;> rcases hb with hb | hb
    · exact hne (ha.trans hb.symm)
    · subst ha; have := h.1 b hb; rw [hab] at this; cases this
    · subst hb; have := h.1 a ha; rw [hba] at this; cases this
    · exact ih h.2 ⟨ha, hb⟩

/-! ## B. the store -/

theorem derefList_mono {g g' : Val → Option PV} (h : ∀ x pv, g x = some pv → g' x = some pv) :
    ∀ (xs : List Val) (l : List PV), derefList g xs = some l → derefList g' xs = some l := by
  intro xs
  induction xs with
  | nil => intro l hl; simpa [derefList] using hl
  | cons x xs ih =>
    intro l hl
    simp only [derefList] at hl ⊢
    cases hx : g x with
    | none => simp [hx] at hl
    | some v =>
      cases hxs : derefList g xs with
      | none => simp [hx, hxs] at hl
      | some vs =>
        simp only [hx, hxs, Option.some.injEq] at hl
        simp [h x v hx, ih vs hxs, hl]

theorem derefKvs_mono {g g' : Val → Option PV} (h : ∀ x pv, g x = some pv → g' x = some pv) :
    ∀ (kvs : List (String × Val)) (l : List (String × PV)), derefKvs g kvs = some l → derefKvs g' kvs = some l := by
  intro kvs
  induction kvs with
  | nil => intro l hl; simpa [derefKvs] using hl
  | cons kv rest ih =>
    obtain ⟨k, x⟩ := kv
    intro l hl
    simp only [derefKvs] at hl ⊢
    cases hx : g x with
    | none => simp [hx] at hl
    | some v =>
      cases hxs : derefKvs g rest with
      | none => simp [hx, hxs] at hl
      | some vs =>
        simp only [hx, hxs, Option.some.injEq] at hl
        simp [h x v hx, ih vs hxs, hl]

theorem derefList_cons_some {g : Val → Option PV} {x : Val} {xs : List Val} {l : List PV}
    (h : derefList g (x :: xs) = some l) : ∃ v vs, g x = some v ∧ derefList g xs = some vs ∧ l = v :: vs := by
  simp only [derefList] at h
  cases hx : g x with
  | none => simp [hx] at h
  | some v =>
    cases hxs : derefList g xs with
    | none => simp [hx, hxs] at h
    | some vs =>
      simp only [hx, hxs, Option.some.injEq] at h
      exact ⟨v, vs, rfl, rfl, h.symm⟩

theorem derefKvs_cons_some {g : Val → Option PV} {k : String} {x : Val} {rest : List (String × Val)} {l : List (String × PV)}
    (h : derefKvs g ((k, x) :: rest) = some l) : ∃ v vs, g x = some v ∧ derefKvs g rest = some vs ∧ l = (k, v) :: vs := by
  simp only [derefKvs] at h
  cases hx : g x with
  | none => simp [hx] at h
  | some v =>
    cases hxs : derefKvs g rest with
    | none => simp [hx, hxs] at h
    | some vs =>
      simp only [hx, hxs, Option.some.injEq] at h
      exact ⟨v, vs, rfl, rfl, h.symm⟩

theorem derefList_append {g : Val → Option PV} {l₁ l₂ : List Val} {p₁ p₂ : List PV}
    (h₁ : derefList g l₁ = some p₁) (h₂ : derefList g l₂ = some p₂) : derefList g (l₁ ++ l₂) = some (p₁ ++ p₂) := by
  induction l₁ generalizing p₁ with
  | nil => simp only [derefList, Option.some.injEq] at h₁; subst h₁; simpa using h₂
  | cons x xs ih =>
    obtain ⟨v, vs, hx, hxs, rfl⟩ := derefList_cons_some h₁
    simp [derefList, hx, ih hxs]

theorem derefKvs_append {g : Val → Option PV} {l₁ l₂ : List (String × Val)} {p₁ p₂ : List (String × PV)}
    (h₁ : derefKvs g l₁ = some p₁) (h₂ : derefKvs g l₂ = some p₂) : derefKvs g (l₁ ++ l₂) = some (p₁ ++ p₂) := by
  induction l₁ generalizing p₁ with
  | nil => simp only [derefKvs, Option.some.injEq] at h₁; subst h₁; simpa using h₂
  | cons kv rest ih =>
    obtain ⟨k, x⟩ := kv
    obtain ⟨v, vs, hx, hxs, rfl⟩ := derefKvs_cons_some h₁
    simp [derefKvs, hx, ih hxs]

/-- Reading succeeds only through addresses that exist, so a store that holds at every address of `s`
    what `s` holds reads the same tree. -/
theorem derefV_keeps (s s' : OStore) (hk : ∀ a, a < s.length → s'[a]? = s[a]?) :
    ∀ (f : Nat) (v : Val) (pv : PV), derefV s f v = some pv → derefV s' f v = some pv := by
  intro f
  induction f with
  | zero =>
    intro v pv h
    cases v with
    | imm x => simpa [derefV] using h
    | ref a => simp [derefV] at h
  | succ f ih =>
    intro v pv h
    cases v with
    | imm x => simpa [derefV] using h
    | ref a =>
      simp only [derefV] at h ⊢
      cases ha : s[a]? with
      | none => simp [ha] at h
      | some o =>
        have hlt : a < s.length := (List.getElem?_eq_some_iff.mp ha).1
        rw [hk a hlt, ha]
        rw [ha] at h
        cases o with
        | list xs =>
          simp only [Option.map_eq_some_iff] at h ⊢
          obtain ⟨l, hl, rfl⟩ := h
          exact ⟨l, derefList_mono ih xs l hl, rfl⟩
        | dict kvs =>
          simp only [Option.map_eq_some_iff] at h ⊢
          obtain ⟨l, hl, rfl⟩ := h
          exact ⟨l, derefKvs_mono ih kvs l hl, rfl⟩

theorem keeps_append (s t : OStore) : ∀ a, a < s.length → (s ++ t)[a]? = s[a]? := by
  intro a ha; exact List.getElem?_append_left ha

/-! ### `_convert_value` -/

/-- what `_convert_value` does on objects, for trees of depth ≤ `f` -/
def ConvSpec (f : Nat) : Prop :=
  ∀ (v : Val) (s : OStore) (pv : PV), derefV s f v = some pv →
    ∃ r s', convertValueS f v s = some (r, s') ∧ s.length ≤ s'.length ∧ (∀ a, a < s.length → s'[a]? = s[a]?) ∧
      derefV s' f r = some (convertValue pv)

theorem convertItemsS_spec (f : Nat) (ih : ConvSpec f) :
    ∀ (xs : List Val) (s : OStore) (pvs : List PV), derefList (derefV s f) xs = some pvs →
      ∃ ys s', convertItemsS (convertValueS f) xs s = some (ys, s') ∧ s.length ≤ s'.length ∧
        (∀ a, a < s.length → s'[a]? = s[a]?) ∧ derefList (derefV s' f) ys = some (convertList pvs) := by
  intro xs
  induction xs with
  | nil =>
    intro s pvs h
    simp only [derefList, Option.some.injEq] at h; subst h
    exact ⟨[], s, rfl, Nat.le_refl _, fun _ _ => rfl, by simp [derefList, convertList]⟩
  | cons x xs ihx =>
    intro s pvs h
    obtain ⟨pv, pvs', hx, hxs, rfl⟩ := derefList_cons_some h
    obtain ⟨r, s1, hr, hl1, hk1, hd1⟩ := ih x s pv hx
    have hxs1 : derefList (derefV s1 f) xs = some pvs' := derefList_mono (derefV_keeps s s1 hk1 f) xs pvs' hxs
    obtain ⟨ys, s2, hys, hl2, hk2, hd2⟩ := ihx s1 pvs' hxs1
    refine ⟨r :: ys, s2, by simp [convertItemsS, hr, hys], Nat.le_trans hl1 hl2, ?_, ?_⟩
    · intro a ha; rw [hk2 a (Nat.lt_of_lt_of_le ha hl1), hk1 a ha]
    · simp [derefList, convertList, derefV_keeps s1 s2 hk2 f r _ hd1, hd2]

theorem convertValueS_spec : ∀ f, ConvSpec f := by
  intro f
  induction f with
  | zero =>
    intro v s pv h
    cases v with
    | imm x =>
      simp only [derefV, Option.some.injEq] at h; subst h
      exact ⟨.imm (convertValue x), s, rfl, Nat.le_refl _, fun _ _ => rfl, rfl⟩
    | ref a => simp [derefV] at h
  | succ f ih =>
    intro v s pv h
    cases v with
    | imm x =>
      simp only [derefV, Option.some.injEq] at h; subst h
      exact ⟨.imm (convertValue x), s, rfl, Nat.le_refl _, fun _ _ => rfl, rfl⟩
    | ref a =>
      simp only [derefV] at h
      cases ha : s[a]? with
      | none => simp [ha] at h
      | some o =>
        rw [ha] at h
        cases o with
        | list xs =>
          simp only [Option.map_eq_some_iff] at h
          obtain ⟨l, hl, rfl⟩ := h
          obtain ⟨ys, s1, hys, hl1, hk1, hd1⟩ := convertItemsS_spec f ih xs s l hl
          refine ⟨.ref s1.length, s1 ++ [.list ys], by simp [convertValueS, ha, hys], by simp; omega, ?_, ?_⟩
          · intro b hb; rw [keeps_append s1 _ b (Nat.lt_of_lt_of_le hb hl1), hk1 b hb]
          · simp only [derefV, List.getElem?_concat_length, convertValue]
            simp only [Option.map_eq_some_iff]
            exact ⟨_, derefList_mono (derefV_keeps s1 _ (keeps_append s1 _) f) ys _ hd1, rfl⟩
        | dict kvs =>
          simp only [Option.map_eq_some_iff] at h
          obtain ⟨l, hl, rfl⟩ := h
          refine ⟨.ref a, s, by simp [convertValueS, ha], Nat.le_refl _, fun _ _ => rfl, ?_⟩
          simp [derefV, ha, hl, convertValue]

theorem isUnset_of_deref {s : OStore} {f : Nat} {x : Val} {pv : PV} (h : derefV s f x = some pv) : x.isUnset = pv.isUnset := by
  cases x with
  | imm v =>
    have : pv = v := by cases f <;> simpa [derefV] using h.symm
    subst this
    cases pv <;> rfl
  | ref a =>
    cases f with
    | zero => simp [derefV] at h
    | succ f =>
      simp only [derefV] at h
      cases ha : s[a]? with
      | none => simp [ha] at h
      | some o =>
        rw [ha] at h
        cases o <;> simp only [Option.map_eq_some_iff] at h <;> obtain ⟨l, _, rfl⟩ := h <;> rfl

theorem convertDictItemsS_spec (f : Nat) :
    ∀ (kvs : List (String × Val)) (s : OStore) (pkvs : List (String × PV)), derefKvs (derefV s f) kvs = some pkvs →
      ∃ ys s', convertDictItemsS (convertValueS f) kvs s = some (ys, s') ∧ s.length ≤ s'.length ∧
        (∀ a, a < s.length → s'[a]? = s[a]?) ∧ derefKvs (derefV s' f) ys = some (convertDict pkvs) := by
  intro kvs
  induction kvs with
  | nil =>
    intro s pkvs h
    simp only [derefKvs, Option.some.injEq] at h; subst h
    exact ⟨[], s, rfl, Nat.le_refl _, fun _ _ => rfl, by simp [derefKvs, convertDict]⟩
  | cons kv rest ihx =>
    obtain ⟨k, x⟩ := kv
    intro s pkvs h
    obtain ⟨pv, pvs', hx, hxs, rfl⟩ := derefKvs_cons_some h
    have hu := isUnset_of_deref hx
    by_cases hun : x.isUnset = true
    · obtain ⟨ys, s2, hys, hl2, hk2, hd2⟩ := ihx s pvs' hxs
      have hpu : pv.isUnset = true := by rw [← hu]; exact hun
      exact ⟨ys, s2, by simp [convertDictItemsS, hun, hys], hl2, hk2, by simp [convertDict, hpu, hd2]⟩
    · have hun' : x.isUnset = false := by simpa using hun
      have hpu : pv.isUnset = false := by rw [← hu]; exact hun'
      obtain ⟨r, s1, hr, hl1, hk1, hd1⟩ := convertValueS_spec f x s pv hx
      have hxs1 : derefKvs (derefV s1 f) rest = some pvs' := derefKvs_mono (derefV_keeps s s1 hk1 f) rest pvs' hxs
      obtain ⟨ys, s2, hys, hl2, hk2, hd2⟩ := ihx s1 pvs' hxs1
      refine ⟨(k, r) :: ys, s2, by simp [convertDictItemsS, hun', hr, hys], Nat.le_trans hl1 hl2, ?_, ?_⟩
      · intro a ha; rw [hk2 a (Nat.lt_of_lt_of_le ha hl1), hk1 a ha]
      · simp [derefKvs, convertDict, hpu, derefV_keeps s1 s2 hk2 f r _ hd1, hd2]

/-! ### `separate_files` -/

/-- What `separate_files` does on objects, for trees of depth ≤ `f`: it computes what the value-level
    function computes on the tree read off the store, every object that existed holds what it held, and
    the returned tree is made of objects allocated by this call only (it reads the same in every store
    that agrees on those). -/
def SepSpec (eqv : Nat → Nat → Bool) (f : Nat) : Prop :=
  ∀ (path : String) (v : Val) (s : OStore) (es : List Entry) (pv : PV), derefV s f v = some pv →
    ∃ r s', sepS eqv f path v (s, es) = some (r, (s', (sepG eqv path pv es).2)) ∧
      s.length ≤ s'.length ∧ (∀ a, a < s.length → s'[a]? = s[a]?) ∧
      ∀ s'' : OStore, (∀ a, s.length ≤ a → a < s'.length → s''[a]? = s'[a]?) →
        derefV s'' f r = some (sepG eqv path pv es).1

theorem sepLoopList_spec (eqv : Nat → Nat → Bool) (f : Nat) (ih : SepSpec eqv f) (path : String) (b : OStore) (own : Nat)
    (hbo : b.length ≤ own) :
    ∀ (xs : List Val) (pvs : List PV) (i : Nat) (s : OStore) (es : List Entry) (acc : List Val) (accPv : List PV),
      derefList (derefV b f) xs = some pvs →
      own < s.length →
      (∀ a, a < b.length → s[a]? = b[a]?) →
      s[own]? = some (.list acc) →
      (∀ s'' : OStore, (∀ a, own < a → a < s.length → s''[a]? = s[a]?) → derefList (derefV s'' f) acc = some accPv) →
      ∃ s' rs, sepLoopList (sepS eqv f) path own i xs (s, es) = some (s', (sepListG eqv path i pvs es).2) ∧
        s.length ≤ s'.length ∧ (∀ a, a < s.length → a ≠ own → s'[a]? = s[a]?) ∧
        s'[own]? = some (.list rs) ∧
        (∀ s'' : OStore, (∀ a, own < a → a < s'.length → s''[a]? = s'[a]?) →
          derefList (derefV s'' f) rs = some (accPv ++ (sepListG eqv path i pvs es).1)) := by
  intro xs
  induction xs with
  | nil =>
    intro pvs i s es acc accPv h hos hkb hown hacc
    simp only [derefList, Option.some.injEq] at h; subst h
    exact ⟨s, acc, rfl, Nat.le_refl _, fun _ _ _ => rfl, hown, by simpa [sepListG] using hacc⟩
  | cons x xs ihx =>
    intro pvs i s es acc accPv h hos hkb hown hacc
    obtain ⟨pv, pvs', hx, hxs, rfl⟩ := derefList_cons_some h
    have hxs' : derefV s f x = some pv := derefV_keeps b s hkb f x pv hx
    obtain ⟨r, s1, hr, hl1, hk1, hfoot⟩ := ih (path ++ "." ++ toString i) x s es pv hxs'
    have hown1 : s1[own]? = some (.list acc) := by rw [hk1 own hos]; exact hown
    have hos1 : own < s1.length := Nat.lt_of_lt_of_le hos hl1
    have happ : appendAt own r s1 = some (s1.set own (.list (acc ++ [r]))) := by simp [appendAt, hown1]
    obtain ⟨s', rs, hloop, hl', hk', hown', hfoot'⟩ :=
      ihx pvs' (i + 1) (s1.set own (.list (acc ++ [r]))) (sepG eqv (path ++ "." ++ toString i) pv es).2 (acc ++ [r])
        (accPv ++ [(sepG eqv (path ++ "." ++ toString i) pv es).1]) hxs
        (by simpa using hos1)
        (by
          intro a ha
          have hne : own ≠ a := by omega
          rw [List.getElem?_set_ne hne, hk1 a (by omega), hkb a ha])
        (by simp [List.getElem?_set_self hos1])
        (by
          intro s'' hs''
          apply derefList_append
          · apply hacc
            intro a h1 h2
            have hne : own ≠ a := by omega
            rw [hs'' a h1 (by simp; omega), List.getElem?_set_ne hne, hk1 a h2]
          · have : derefV s'' f r = some (sepG eqv (path ++ "." ++ toString i) pv es).1 := by
              apply hfoot
              intro a h1 h2
              have hne : own ≠ a := by omega
              rw [hs'' a (by omega) (by simpa using h2), List.getElem?_set_ne hne]
            simp [derefList, this])
    refine ⟨s', rs, ?_, ?_, ?_, hown', ?_⟩
    · simp only [sepLoopList, hr, happ, sepListG]
      exact hloop
    · have : (s1.set own (.list (acc ++ [r]))).length = s1.length := by simp
      omega
    · intro a ha hne
      have hne' : own ≠ a := fun e => hne e.symm
      rw [hk' a (by simp; omega) hne, List.getElem?_set_ne hne', hk1 a ha]
    · intro s'' hs''
      have := hfoot' s'' hs''
      simpa [sepListG, List.append_assoc] using this

theorem sepLoopDict_spec (eqv : Nat → Nat → Bool) (f : Nat) (ih : SepSpec eqv f) (path : String) (b : OStore) (own : Nat)
    (hbo : b.length ≤ own) :
    ∀ (kvs : List (String × Val)) (pkvs : List (String × PV)) (s : OStore) (es : List Entry)
      (acc : List (String × Val)) (accPv : List (String × PV)),
      derefKvs (derefV b f) kvs = some pkvs →
      own < s.length →
      (∀ a, a < b.length → s[a]? = b[a]?) →
      s[own]? = some (.dict acc) →
      (∀ s'' : OStore, (∀ a, own < a → a < s.length → s''[a]? = s[a]?) → derefKvs (derefV s'' f) acc = some accPv) →
      ∃ s' rs, sepLoopDict (sepS eqv f) path own kvs (s, es) = some (s', (sepDictG eqv path pkvs es).2) ∧
        s.length ≤ s'.length ∧ (∀ a, a < s.length → a ≠ own → s'[a]? = s[a]?) ∧
        s'[own]? = some (.dict rs) ∧
        (∀ s'' : OStore, (∀ a, own < a → a < s'.length → s''[a]? = s'[a]?) →
          derefKvs (derefV s'' f) rs = some (accPv ++ (sepDictG eqv path pkvs es).1)) := by
  intro kvs
  induction kvs with
  | nil =>
    intro pkvs s es acc accPv h hos hkb hown hacc
    simp only [derefKvs, Option.some.injEq] at h; subst h
    exact ⟨s, acc, rfl, Nat.le_refl _, fun _ _ _ => rfl, hown, by simpa [sepDictG] using hacc⟩
  | cons kv rest ihx =>
    obtain ⟨k, x⟩ := kv
    intro pkvs s es acc accPv h hos hkb hown hacc
    obtain ⟨pv, pvs', hx, hxs, rfl⟩ := derefKvs_cons_some h
    have hxs' : derefV s f x = some pv := derefV_keeps b s hkb f x pv hx
    obtain ⟨r, s1, hr, hl1, hk1, hfoot⟩ := ih (path ++ "." ++ k) x s es pv hxs'
    have hown1 : s1[own]? = some (.dict acc) := by rw [hk1 own hos]; exact hown
    have hos1 : own < s1.length := Nat.lt_of_lt_of_le hos hl1
    have happ : insertAt own k r s1 = some (s1.set own (.dict (acc ++ [(k, r)]))) := by simp [insertAt, hown1]
    obtain ⟨s', rs, hloop, hl', hk', hown', hfoot'⟩ :=
      ihx pvs' (s1.set own (.dict (acc ++ [(k, r)]))) (sepG eqv (path ++ "." ++ k) pv es).2 (acc ++ [(k, r)])
        (accPv ++ [(k, (sepG eqv (path ++ "." ++ k) pv es).1)]) hxs
        (by simpa using hos1)
        (by
          intro a ha
          have hne : own ≠ a := by omega
          rw [List.getElem?_set_ne hne, hk1 a (by omega), hkb a ha])
        (by simp [List.getElem?_set_self hos1])
        (by
          intro s'' hs''
          apply derefKvs_append
          · apply hacc
            intro a h1 h2
            have hne : own ≠ a := by omega
            rw [hs'' a h1 (by simp; omega), List.getElem?_set_ne hne, hk1 a h2]
          · have : derefV s'' f r = some (sepG eqv (path ++ "." ++ k) pv es).1 := by
              apply hfoot
              intro a h1 h2
              have hne : own ≠ a := by omega
              rw [hs'' a (by omega) (by simpa using h2), List.getElem?_set_ne hne]
            simp [derefKvs, this])
    refine ⟨s', rs, ?_, ?_, ?_, hown', ?_⟩
    · simp only [sepLoopDict, hr, happ, sepDictG]
      exact hloop
    · have : (s1.set own (.dict (acc ++ [(k, r)]))).length = s1.length := by simp
      omega
    · intro a ha hne
      have hne' : own ≠ a := fun e => hne e.symm
      rw [hk' a (by simp; omega) hne, List.getElem?_set_ne hne', hk1 a ha]
    · intro s'' hs''
      have := hfoot' s'' hs''
      simpa [sepDictG, List.append_assoc] using this

theorem sepS_spec (eqv : Nat → Nat → Bool) : ∀ f, SepSpec eqv f := by
  intro f
  induction f with
  | zero =>
    intro path v s es pv h
    cases v with
    | imm x =>
      simp only [derefV, Option.some.injEq] at h; subst h
      exact ⟨.imm (sepG eqv path x es).1, s, rfl, Nat.le_refl _, fun _ _ => rfl, fun _ _ => rfl⟩
    | ref a => simp [derefV] at h
  | succ f ih =>
    intro path v s es pv h
    cases v with
    | imm x =>
      simp only [derefV, Option.some.injEq] at h; subst h
      exact ⟨.imm (sepG eqv path x es).1, s, rfl, Nat.le_refl _, fun _ _ => rfl, fun _ _ => rfl⟩
    | ref a =>
      simp only [derefV] at h
      cases ha : s[a]? with
      | none => simp [ha] at h
      | some o =>
        rw [ha] at h
        cases o with
        | list xs =>
          simp only [Option.map_eq_some_iff] at h
          obtain ⟨l, hl, rfl⟩ := h
          obtain ⟨s', rs, hloop, hl', hk', hown', hfoot'⟩ :=
            sepLoopList_spec eqv f ih path s s.length (Nat.le_refl _) xs l 0 (s ++ [.list []]) es [] [] hl
              (by simp) (keeps_append s _) (by simp) (fun _ _ => rfl)
          refine ⟨.ref s.length, s', ?_, ?_, ?_, ?_⟩
          · simp only [sepS, ha, hloop, Option.map_some, sepG]
          · simp at hl'; omega
          · intro b hb
            rw [hk' b (by simp; omega) (by omega), keeps_append s _ b hb]
          · intro s'' hs''
            have hlt : s.length < s'.length := by simp at hl'; omega
            simp only [derefV, hs'' s.length (Nat.le_refl _) hlt, hown', sepG, Option.map_eq_some_iff]
            refine ⟨_, ?_, rfl⟩
            simpa using hfoot' s'' (fun a h1 h2 => hs'' a (by omega) h2)
        | dict kvs =>
          simp only [Option.map_eq_some_iff] at h
          obtain ⟨l, hl, rfl⟩ := h
          obtain ⟨s', rs, hloop, hl', hk', hown', hfoot'⟩ :=
            sepLoopDict_spec eqv f ih path s s.length (Nat.le_refl _) kvs l (s ++ [.dict []]) es [] [] hl
              (by simp) (keeps_append s _) (by simp) (fun _ _ => rfl)
          refine ⟨.ref s.length, s', ?_, ?_, ?_, ?_⟩
          · simp only [sepS, ha, hloop, Option.map_some, sepG]
          · simp at hl'; omega
          · intro b hb
            rw [hk' b (by simp; omega) (by omega), keeps_append s _ b hb]
          · intro s'' hs''
            have hlt : s.length < s'.length := by simp at hl'; omega
            simp only [derefV, hs'' s.length (Nat.le_refl _) hlt, hown', sepG, Option.map_eq_some_iff]
            refine ⟨_, ?_, rfl⟩
            simpa using hfoot' s'' (fun a h1 h2 => hs'' a (by omega) h2)

/-! ## C. `_process_variables` and `execute` on objects -/

/-- `_process_variables` on objects computes what the value-level function computes on the tree the
    caller's `variables` denotes, and every object that existed holds what it held. -/
theorem processVariablesS_some (eqv : Nat → Nat → Bool) (fuel : Nat) (s : OStore) (a : Nat) (pkvs : List (String × PV))
    (h : derefV s (fuel + 1) (.ref a) = some (.dict pkvs)) :
    ∃ s', processVariablesS eqv fuel s (some a) =
        some ((processVariablesG eqv (some pkvs)).1, s', (processVariablesG eqv (some pkvs)).2) ∧
      s.length ≤ s'.length ∧ ∀ b, b < s.length → s'[b]? = s[b]? := by
  simp only [derefV] at h
  cases ha : s[a]? with
  | none => simp [ha] at h
  | some o =>
    rw [ha] at h
    cases o with
    | list xs => simp at h
    | dict kvs =>
      simp only [Option.map_eq_some_iff, PV.dict.injEq] at h
      obtain ⟨l, hl, rfl⟩ := h
      cases kvs with
      | nil =>
        simp only [derefKvs, Option.some.injEq] at hl; subst hl
        exact ⟨s, by simp [processVariablesS, ha, processVariablesG], Nat.le_refl _, fun _ _ => rfl⟩
      | cons kv rest =>
        obtain ⟨k, x⟩ := kv
        obtain ⟨pv, pvs', hx, hxs, hlc⟩ := derefKvs_cons_some hl
        obtain ⟨kvs1, s1, hconv, hl1, hk1, hd1⟩ := convertDictItemsS_spec fuel ((k, x) :: rest) s l hl
        have hroot : derefV (s1 ++ [Obj.dict kvs1]) (fuel + 1) (.ref s1.length) = some (.dict (convertDict l)) := by
          simp only [derefV, List.getElem?_concat_length, Option.map_eq_some_iff]
          exact ⟨_, derefKvs_mono (derefV_keeps s1 _ (keeps_append s1 _) fuel) kvs1 _ hd1, rfl⟩
        obtain ⟨r, s2, hsep, hl2, hk2, hfoot⟩ :=
          sepS_spec eqv (fuel + 1) "variables" (.ref s1.length) (s1 ++ [Obj.dict kvs1]) [] (.dict (convertDict l)) hroot
        have hr : derefV s2 (fuel + 1) r = some (.dict (sepDictG eqv "variables" (convertDict l) []).1) := by
          have := hfoot s2 (fun _ _ _ => rfl)
          simpa [sepG] using this
        refine ⟨s2, ?_, ?_, ?_⟩
        · subst hlc
          simp only [processVariablesS, ha, hconv, hsep, hr, processVariablesG, sepG]
        · simp at hl2; omega
        · intro b hb
          rw [hk2 b (by simp; omega), keeps_append s1 _ b (by omega), hk1 b hb]

theorem take_of_keeps {s s' : OStore} (hl : s.length ≤ s'.length) (hk : ∀ a, a < s.length → s'[a]? = s[a]?) :
    s'.take s.length = s := by
  apply List.ext_getElem?
  intro i
  rw [List.getElem?_take]
  by_cases hi : i < s.length
  · simp [hi, hk i hi]
  · simp only [hi, if_false]
    exact (List.getElem?_eq_none (by omega)).symm

theorem processVariablesS_of_variables? (eqv : Nat → Nat → Bool) (h : OHeap) (fuel : Nat) (c : HCall)
    (v : Option (List (String × PV))) (hv : h.variables? fuel c = some v) :
    ∃ s', processVariablesS eqv fuel h.objs c.variables =
        some ((processVariablesG eqv v).1, s', (processVariablesG eqv v).2) ∧ s'.take h.objs.length = h.objs := by
  unfold OHeap.variables? at hv
  cases hcv : c.variables with
  | none =>
    simp only [hcv, Option.some.injEq] at hv; subst hv
    exact ⟨h.objs, rfl, by simp⟩
  | some a =>
    simp only [hcv] at hv
    cases hd : derefV h.objs (fuel + 1) (.ref a) with
    | none => simp [hd] at hv
    | some pv =>
      rw [hd] at hv
      cases pv with
      | dict kvs =>
        simp only [Option.some.injEq] at hv; subst hv
        obtain ⟨s', hs', hl, hk⟩ := processVariablesS_some eqv fuel h.objs a kvs hd
        exact ⟨s', hs', take_of_keeps hl hk⟩
      | _ => simp at hv

theorem ocall?_parts {h : OHeap} {fuel : Nat} {c : HCall} {call : Call} (hc : h.call? fuel c = some call) :
    h.variables? fuel c = some call.variables ∧ h.headers? c = some call.headers ∧
      call.query = c.query ∧ call.opName = c.opName ∧ call.kwargs = c.kwargs := by
  unfold OHeap.call? at hc
  cases hv : h.variables? fuel c with
  | none => simp [hv] at hc
  | some v =>
    cases hh : h.headers? c with
    | none => simp [hv, hh] at hc
    | some hd =>
      simp only [hv, hh, Option.some.injEq] at hc
      subst hc
      exact ⟨rfl, rfl, rfl, rfl, rfl⟩

theorem executeJson_congr (cl : Client) (c₁ c₂ : Call) (vars : List (String × PV)) (hq : c₁.query = c₂.query)
    (ho : c₁.opName = c₂.opName) (hh : c₁.headers = c₂.headers) (hk : c₁.kwargs = c₂.kwargs) :
    executeJson cl c₁ vars = executeJson cl c₂ vars := by
  simp [executeJson, body, opJ, hq, ho, hh, hk]

theorem executeMultipart_congr (cl : Client) (c₁ c₂ : Call) (vars : List (String × PV)) (es : List Entry)
    (hq : c₁.query = c₂.query) (ho : c₁.opName = c₂.opName) (hh : c₁.headers = c₂.headers) (hk : c₁.kwargs = c₂.kwargs) :
    executeMultipart cl c₁ vars es = executeMultipart cl c₂ vars es := by
  simp [executeMultipart, body, opJ, hq, ho, hh, hk]

/-- the `files=` argument of the value-level call, with the attributes of the heap's Upload objects -/
def filesOfCall (ups : List UploadObj) (cl : Client) (call : Call) : List (String × Option (String × Nat × String)) :=
  filesFor ups (processVariables call.variables).2 (execute cl call).2

theorem filesFor_json (ups : List UploadObj) (es : List Entry) (cl : Client) (c : Call) (vars : List (String × PV)) :
    filesFor ups es (executeJson cl c vars) = [] := by
  unfold executeJson
  cases body c vars <;> rfl

/-- `executeO` refines `execute`: on well-formed references (any aliasing among the container objects,
    nesting no deeper than the fuel) it leaves the client and EVERY object of the heap as they were, and
    sends the request of the value-level model on the trees the objects denote at call time. -/
theorem executeO_eq (fuel : Nat) (cl : Client) (h : OHeap) (c : HCall) (call : Call) (hc : h.call? fuel c = some call) :
    executeO fuel cl h c = .ok cl h (execute cl call).2 (filesOfCall h.ups cl call) := by
  obtain ⟨hv, hh, hq, ho, hkw⟩ := ocall?_parts hc
  obtain ⟨s', hs', htake⟩ := processVariablesS_of_variables? uploadEq h fuel c call.variables hv
  rw [processVariablesG_identity] at hs'
  have hcd : callerDict h.hdrs c.headers = some call.headers := by
    unfold OHeap.headers? at hh
    unfold callerDict
    cases hch : c.headers <;> simpa [hch] using hh
  have hj := fun vars => executeJsonH_eq cl h.hdrs c.headers call.headers
    { query := c.query, opName := c.opName, variables := none, headers := call.headers, kwargs := c.kwargs } vars hcd rfl
  have hsame : ({ h with objs := h.objs } : OHeap) = h := rfl
  have hsame2 : ({ h with hdrs := h.hdrs, objs := h.objs } : OHeap) = h := rfl
  unfold filesOfCall
  rw [execute_snd]
  unfold executeO
  simp only [hc, hh, hs', finishO, htake]
  by_cases ht : (cl.kind.isOT && cl.tracer && (toJsonKvs (processVariables call.variables).1).isNone) = true
  · simp only [ht, if_true]
    have hn : toJsonKvs (processVariables call.variables).1 = none := by
      simp only [Bool.and_eq_true, Option.isNone_iff_eq_none] at ht; exact ht.2
    simp only [executePlain]
    by_cases he : (processVariables call.variables).2.isEmpty = true
    · simp [he, executeJson, body, hn, hsame, filesFor]
    · simp [he, executeMultipart, body, hn, hsame, filesFor]
  · simp only [ht, if_false, Bool.false_eq_true]
    unfold executePlain
    by_cases he : (processVariables call.variables).2.isEmpty = true
    · simp only [he, if_true, hj, hsame2]
      rw [executeJson_congr cl { query := c.query, opName := c.opName, variables := none, headers := call.headers, kwargs := c.kwargs } call _ hq.symm ho.symm rfl hkw.symm, filesFor_json]
    · simp only [he, if_false, Bool.false_eq_true, hsame]
      rw [executeMultipart_congr cl { query := c.query, opName := c.opName, variables := none, headers := call.headers, kwargs := c.kwargs } call _ _ hq.symm ho.symm rfl hkw.symm]

theorem executeO_illFormed (fuel : Nat) (cl : Client) (h : OHeap) (c : HCall) (hc : h.call? fuel c = none) :
    executeO fuel cl h c = .illFormed := by
  unfold executeO; simp [hc]

/-- the value-level calls of a list of steps -/
def derefStepsO (fuel : Nat) (h : OHeap) : List (Client × HCall) → List (Option Request)
  | [] => []
  | (cl, c) :: rest => ((h.call? fuel c).map fun call => (execute cl call).2) :: derefStepsO fuel h rest

theorem runSeqO_eq (fuel : Nat) (h : OHeap) (steps : List (Client × HCall)) :
    runSeqO fuel h steps = (h, derefStepsO fuel h steps) := by
  induction steps with
  | nil => rfl
  | cons st rest ih =>
    obtain ⟨cl, c⟩ := st
    cases hc : h.call? fuel c with
    | none => simp [runSeqO, derefStepsO, executeO_illFormed fuel cl h c hc, hc, ih]
    | some call => simp [runSeqO, derefStepsO, executeO_eq fuel cl h c call hc, hc, ih]

theorem filesDict_get (ups : List UploadObj) (i n : Nat) (st : List Entry) :
    (filesDict ups i st)[n]? =
      st[n]?.map (fun e => (toString (i + n), (ups[e.id]?).map fun u => (u.filename, u.stream, u.contentType))) := by
  induction st generalizing i n with
  | nil => simp [filesDict]
  | cons e es ih =>
    cases n with
    | zero => simp [filesDict]
    | succ m =>
      simp only [filesDict, List.getElem?_cons_succ, ih]
      have : i + 1 + m = i + (m + 1) := by omega
      rw [this]

theorem filesDict_length (ups : List UploadObj) (i : Nat) (st : List Entry) : (filesDict ups i st).length = st.length := by
  induction st generalizing i with
  | nil => simp [filesDict]
  | cons e es ih => simp [filesDict, ih]

end Ariadne.BaseClient
