/-
  Proofs/C04ModResult.lean — the modules `ResultTypesGenerator` produces (one per operation; `fragments.py`): the
  imports it emits resolve, and every name an annotation evaluates / every base class is a builtin, imported, or (in
  `fragments.py`) a class defined earlier.
-/
import AriadneModel.Proofs.C04ModClient
import AriadneModel.Proofs.C04Mixins
import AriadneModel.Proofs.C08Acyclic
import AriadneModel.Proofs.C08NoKeyError

set_option linter.unusedSimpArgs false
set_option linter.unusedVariables false

namespace Ariadne.C04Proofs
open Ariadne Ariadne.Gql Ariadne.Util Ariadne.Package Ariadne.PackageTriggers Ariadne.PackageValid Ariadne.Spec.PyScope
open Ariadne.ResultTypes (pascal ModuleOut GenSpec NameIn fixedNames MixOK GoodPair)

/-! ### the scalar configuration seen by the result-type generator -/

theorem rtEnv_scalar {cfg : Config} {inp : Input} {n : String} {sc : ResultTypes.ScalarCfg}
    (h : ResultTypes.scalarCfg? (rtEnv cfg inp) n = some sc) :
    ∃ d, Scalars.lookupScalar cfg.scalars n = some d ∧ sc.typeName = d.typeName ∧ sc.parseName = d.parseName := by
  unfold ResultTypes.scalarCfg? rtEnv at h
  unfold Scalars.lookupScalar
  simp only at h
  generalize cfg.scalars = l at h
  induction l with
  | nil => simp at h
  | cons a rest ih =>
    obtain ⟨k, d⟩ := a
    simp only [List.map_cons, List.find?_cons] at h ⊢
    by_cases hk : k == n
    · simp only [hk] at h ⊢
      simp only [Option.some.injEq] at h
      subst h
      exact ⟨d, rfl, rfl, rfl⟩
    · simp only [hk] at h ⊢
      exact ih h

/-! ### the import list of a generator -/

theorem generatorImports_false_sub (cfg : Config) (st : ResultTypes.St) :
    ∀ i ∈ generatorImports cfg false st, i ∈ generatorImports cfg true st := by
  intro i hi
  unfold generatorImports at hi ⊢
  simp only [Bool.false_and, Bool.false_eq_true, if_false, List.append_nil] at hi
  exact List.mem_append_left _ hi

def iTypingR : Import := ⟨0, "typing", ["Optional", "Union", "Any", "List", "Literal", "Annotated"]⟩
def iPydanticR : Import := ⟨0, "pydantic", ["Field", "BeforeValidator"]⟩
def iBaseModelR : Import := ⟨1, "base_model", ["BaseModel"]⟩

theorem base_mem_generatorImports (cfg : Config) (b : Bool) (st : ResultTypes.St) :
    iTypingR ∈ generatorImports cfg b st ∧ iPydanticR ∈ generatorImports cfg b st ∧ iBaseModelR ∈ generatorImports cfg b st := by
  unfold generatorImports resultBaseImports iTypingR iPydanticR iBaseModelR
  simp

section
variable {cfg : Config} {inp : Input} {p : PackageIR} {st : St} {io : InputsOut}
  {fx : Option (Fragments.FragmentsOut × List Fragments.DefGen)}

/-- the imports a generator emits — apart from `from .fragments import …` — resolve -/
theorem generatorImports_resolve (F : Facts cfg inp p st io fx) (hc : cfgOK cfg = true) {gst : ResultTypes.St}
    (hmix : MixOK (GoodPair cfg) gst)
    (henum : ∀ e ∈ gst.usedEnums, inp.schema.kindOf? e = some .enum ∧ e ∈ finalUsedEnums st io fx) :
    ∀ i ∈ generatorImports cfg false gst, Resolves p (normImport i) := by
  intro i hi
  unfold generatorImports at hi
  simp only [Bool.false_and, Bool.false_eq_true, if_false, List.append_nil, List.mem_append] at hi
  rcases hi with ((hi | hi) | hi) | hi
  · simp only [resultBaseImports, List.mem_cons, List.mem_nil_iff, or_false] at hi
    rcases hi with rfl | rfl | rfl
    · exact Or.inl (by decide)
    · exact Or.inl (by decide)
    · have e : normImport ⟨1, "base_model", ["BaseModel"]⟩ = ⟨1, "base_model", ["BaseModel"]⟩ := by decide
      rw [e]
      refine F.resolves (copied_mem_written (baseModel_mem_copied cfg)) rfl (show baseModelFile = pyFile "base_model" by decide) ?_
      intro ns hns
      rw [exported_copied, provides_baseModel] at hns
      simp only [Option.some.injEq] at hns
      subst hns
      intro n hn'
      simp only [List.mem_singleton] at hn'
      subst hn'
      simp
  · obtain ⟨pr, hpr, rfl⟩ := List.mem_map.mp hi
    exact resolves_userImport F (hmix pr hpr)
  · split at hi
    · cases hi
    · simp only [List.mem_singleton] at hi
      subst hi
      rw [normImport_noDot _ _ _ (cfgFacts hc).enumsDot]
      refine F.resolves enums_mem_written rfl (enumsModule_file _ _ _) ?_
      intro ns hns
      rw [exported_generated (enumsModule_generated _ _ _)] at hns
      simp only [Option.some.injEq] at hns
      subst hns
      intro e he
      exact className_mem_defines (enum_class_mem (henum e he).1 (Or.inr (henum e he).2))
  · unfold scalarImportsOf at hi
    obtain ⟨n, _, hi⟩ := List.mem_flatMap.mp hi
    cases hl : Scalars.lookupScalar cfg.scalars n with
    | none => rw [hl] at hi; cases hi
    | some d =>
      rw [hl] at hi
      simp only [List.mem_map] at hi
      obtain ⟨si, hsi, rfl⟩ := hi
      exact resolves_userImport F (scalarOK_imports (scalarOK_of_lookup hc hl) si hsi).2

end

/-- every name the annotations of a generated class evaluate is bound in a module that carries the generator's imports -/
theorem result_uses_bound {cfg : Config} {inp : Input} (hc : cfgOK cfg = true) {m : ModuleIR} {out : ModuleOut}
    (gs : GenSpec (rtEnv cfg inp) out) (himp : ∀ i ∈ generatorImports cfg false out.st, i ∈ m.imports)
    {cd : ResultTypes.ClassDecl} (hcd : cd ∈ out.classes) (hcm : resultClassIR cd ∈ m.classes) :
    ∀ u ∈ (resultClassIR cd).uses, BoundIn m u := by
  intro u hu
  have hused : u ∈ m.usedNames := mem_usedNames_class hcm (by simp [hu])
  simp only [resultClassIR, List.mem_flatMap] at hu
  obtain ⟨f, hf, hu⟩ := hu
  obtain ⟨b1, b2, b3⟩ := base_mem_generatorImports cfg false out.st
  rcases gs.uses cd hcd f hf u hu with hfix | henum | ⟨n, sc, hn, hsc, hcase⟩
  · simp only [fixedNames, List.mem_cons, List.mem_nil_iff, or_false] at hfix
    rcases hfix with rfl | rfl | rfl | rfl | rfl | rfl | rfl | rfl | rfl | rfl | rfl | rfl
    · exact boundIn_of_import (himp _ b1) (by simp [iTypingR]) hused
    · exact boundIn_of_import (himp _ b1) (by simp [iTypingR]) hused
    · exact boundIn_of_import (himp _ b1) (by simp [iTypingR]) hused
    · exact boundIn_of_import (himp _ b1) (by simp [iTypingR]) hused
    · exact boundIn_of_import (himp _ b1) (by simp [iTypingR]) hused
    · exact boundIn_of_import (himp _ b1) (by simp [iTypingR]) hused
    · exact boundIn_of_import (himp _ b2) (by simp [iPydanticR]) hused
    · exact boundIn_of_import (himp _ b2) (by simp [iPydanticR]) hused
    · exact boundIn_builtin (by decide)
    · exact boundIn_builtin (by decide)
    · exact boundIn_builtin (by decide)
    · exact boundIn_builtin (by decide)
  · have hne : out.st.usedEnums.isEmpty = false := by
      cases hl : out.st.usedEnums with
      | nil => rw [hl] at henum; cases henum
      | cons _ _ => rfl
    refine boundIn_of_import (i := ⟨1, cfg.enumsModule, out.st.usedEnums⟩) (himp _ ?_) henum hused
    unfold generatorImports
    simp [hne]
  · obtain ⟨d, hd, h1, h2⟩ := rtEnv_scalar hsc
    have hok := scalarOK_of_lookup hc hd
    have hcase' : u = d.typeName ∨ some u = d.parseName ∨ some u = d.serializeName := by
      rcases hcase with h | h
      · exact Or.inl (by rw [h, h1])
      · exact Or.inr (Or.inl (by rw [← h2, h]))
    rcases scalar_name_bound hok hcase' with hb | rfl | ⟨i, hi, hni⟩
    · exact boundIn_builtin hb
    · exact boundIn_of_import (himp _ b1) (by simp [iTypingR]) hused
    · refine boundIn_of_import (himp i ?_) hni hused
      unfold generatorImports
      refine List.mem_append_left _ (List.mem_append_right _ ?_)
      unfold scalarImportsOf
      exact List.mem_flatMap.mpr ⟨n, hn, by rw [hd]; exact hi⟩

/-- a base that is `BaseModel` or a class imported because of an `@mixin` directive is bound -/
theorem result_extbase_bound {cfg : Config} {m : ModuleIR} {gst : ResultTypes.St}
    (himp : ∀ i ∈ generatorImports cfg false gst, i ∈ m.imports) {b : String} (hused : b ∈ m.usedNames)
    (hb : b = "BaseModel" ∨ ∃ pr ∈ gst.mixinImports, b = pr.2) : BoundIn m b := by
  obtain ⟨_, _, b3⟩ := base_mem_generatorImports cfg false gst
  rcases hb with rfl | ⟨pr, hpr, rfl⟩
  · exact boundIn_of_import (himp _ b3) (by simp [iBaseModelR]) hused
  · refine boundIn_of_import (i := ⟨0, pr.1, [pr.2]⟩) (himp _ ?_) (by simp) hused
    unfold generatorImports
    refine List.mem_append_left _ (List.mem_append_left _ (List.mem_append_left _ (List.mem_append_right _ ?_)))
    exact List.mem_map.mpr ⟨pr, hpr, rfl⟩

end Ariadne.C04Proofs
