/-
  C16 — removing unused imports (the autoflake pass of `ast_to_str`, modelled by
  `SchemaGen.written`) does not change what the module evaluates to: the evaluator only ever
  consults the names in `PyModuleIR.used` (coincidence lemmas, one per evaluator function), and the
  pruned import list binds those names exactly as the full one does.
-/
import AriadneModel.Proofs.SchemaRoundtrip

set_option linter.unusedSimpArgs false
set_option linter.unusedVariables false

namespace Ariadne.SchemaPrune
open Ariadne.Schema Ariadne.SchemaGen Ariadne.PySchemaEval Ariadne.SchemaWF Ariadne.SchemaRoundtrip

/-- two name spaces agree on a set of names -/
def Agree (U : List Name) (ρ ρ' : Env) : Prop := ∀ n ∈ U, ρ n = ρ' n

theorem Agree.sub {U V : List Name} {ρ ρ' : Env} (h : Agree V ρ ρ') (hs : ∀ n ∈ U, n ∈ V) : Agree U ρ ρ' :=
  fun n hn => h n (hs n hn)

theorem callee_congr {ρ ρ' : Env} {n : Name} (h : ρ n = ρ' n) : callee ρ n = callee ρ' n := by
  unfold callee; rw [h]

theorem evalOptStr_congr {ρ ρ' : Env} (c : CExpr) (h : Agree c.used ρ ρ') : evalOptStr ρ c = evalOptStr ρ' c := by
  cases c with
  | const v => cases v <;> rfl
  | name n => simp [evalOptStr, h n (by simp [CExpr.used])]

theorem evalNameStr_congr {ρ ρ' : Env} (c : CExpr) (h : Agree c.used ρ ρ') : evalNameStr ρ c = evalNameStr ρ' c := by
  cases c with
  | const v => cases v <;> rfl
  | name n => simp [evalNameStr, h n (by simp [CExpr.used])]

theorem evalBool_congr {ρ ρ' : Env} (c : CExpr) (h : Agree c.used ρ ρ') : evalBool ρ c = evalBool ρ' c := by
  cases c with
  | const v => cases v <;> rfl
  | name n => simp [evalBool, h n (by simp [CExpr.used])]

theorem evalDefault_congr {ρ ρ' : Env} (c : CExpr) (h : Agree c.used ρ ρ') : evalDefault ρ c = evalDefault ρ' c := by
  cases c with
  | const v => rfl
  | name n => simp [evalDefault, h n (by simp [CExpr.used])]

theorem evalAny_congr {ρ ρ' : Env} (c : CExpr) (h : Agree c.used ρ ρ') : evalAny ρ c = evalAny ρ' c := by
  cases c with
  | const v => rfl
  | name n => simp [evalAny, h n (by simp [CExpr.used])]

theorem evalLookup_congr {ρ ρ' : Env} (hs : List (String × Head)) (tm : Name) (key : String) (h : ρ tm = ρ' tm) :
    evalLookup ρ hs tm key = evalLookup ρ' hs tm key := by
  unfold evalLookup; rw [h]

theorem evalCast_congr {ρ ρ' : Env} (hs : List (String × Head)) (fn cls tm : Name) (key : String)
    (h : Agree [fn, cls, tm] ρ ρ') : evalCast ρ hs fn cls tm key = evalCast ρ' hs fn cls tm key := by
  unfold evalCast
  rw [callee_congr (h fn (by simp)), callee_congr (h cls (by simp)), evalLookup_congr hs tm key (h tm (by simp))]

theorem evalTRef_congr {ρ ρ' : Env} (hs : List (String × Head)) :
    ∀ (t : TExpr), Agree t.used ρ ρ' → evalTRef ρ hs t = evalTRef ρ' hs t
  | .name n, h => by simp [evalTRef, h n (by simp [TExpr.used])]
  | .cast fn cls tm key, h => by
    simp only [evalTRef]
    rw [evalCast_congr hs fn cls tm key (fun n hn => h n (by simpa [TExpr.used] using hn))]
  | .call fn a, h => by
    have ih := evalTRef_congr hs a (fun n hn => h n (by simp [TExpr.used, hn]))
    simp only [evalTRef]
    rw [callee_congr (h fn (by simp [TExpr.used])), ih]

theorem evalArg_congr {ρ ρ' : Env} (hs : List (String × Head)) (expected : Builtin) (name : String) (a : ArgE)
    (h : Agree a.used ρ ρ') : evalArg ρ hs expected name a = evalArg ρ' hs expected name a := by
  unfold evalArg
  rw [callee_congr (h a.ctor (by simp [ArgE.used])),
    evalTRef_congr hs a.type (fun n hn => h n (by simp [ArgE.used, hn])),
    evalDefault_congr a.default (fun n hn => h n (by simp [ArgE.used, hn])),
    evalOptStr_congr a.description (fun n hn => h n (by simp [ArgE.used, hn])),
    evalOptStr_congr a.deprecation (fun n hn => h n (by simp [ArgE.used, hn]))]

theorem evalArgItems_congr {ρ ρ' : Env} (hs : List (String × Head)) (expected : Builtin) :
    ∀ (items : List (String × ArgE)), Agree (items.flatMap fun p => p.2.used) ρ ρ' →
      evalArgItems ρ hs expected items = evalArgItems ρ' hs expected items
  | [], _ => rfl
  | (k, a) :: rest, h => by
    have h1 := evalArg_congr hs expected k a (fun n hn => h n (by simp [hn]))
    have h2 := evalArgItems_congr hs expected rest (fun n hn => h n (by
      simp only [List.flatMap_cons, List.mem_append]; exact Or.inr hn))
    simp only [evalArgItems, h1, h2]

theorem evalArgs_congr {ρ ρ' : Env} (hs : List (String × Head)) (expected : Builtin) (items : List (String × ArgE))
    (h : Agree (items.flatMap fun p => p.2.used) ρ ρ') : evalArgs ρ hs expected items = evalArgs ρ' hs expected items := by
  unfold evalArgs
  rw [evalArgItems_congr hs expected items h]

theorem evalField_congr {ρ ρ' : Env} (hs : List (String × Head)) (name : String) (f : FieldE)
    (h : Agree f.used ρ ρ') : evalField ρ hs name f = evalField ρ' hs name f := by
  unfold evalField
  rw [callee_congr (h f.ctor (by simp [FieldE.used])),
    evalTRef_congr hs f.type (fun n hn => h n (by simp [FieldE.used, hn])),
    evalArgs_congr hs .argument f.args (fun n hn => h n (by
      simp only [FieldE.used, List.mem_cons, List.mem_append]; exact Or.inr (Or.inl (Or.inl (Or.inr hn))))),
    evalOptStr_congr f.description (fun n hn => h n (by simp [FieldE.used, hn])),
    evalOptStr_congr f.deprecation (fun n hn => h n (by simp [FieldE.used, hn]))]

theorem evalFieldItems_congr {ρ ρ' : Env} (hs : List (String × Head)) :
    ∀ (items : List (String × FieldE)), Agree (items.flatMap fun p => p.2.used) ρ ρ' →
      evalFieldItems ρ hs items = evalFieldItems ρ' hs items
  | [], _ => rfl
  | (k, f) :: rest, h => by
    have h1 := evalField_congr hs k f (fun n hn => h n (by simp [hn]))
    have h2 := evalFieldItems_congr hs rest (fun n hn => h n (by
      simp only [List.flatMap_cons, List.mem_append]; exact Or.inr hn))
    simp only [evalFieldItems, h1, h2]

def fieldsUsed : FieldsE → List Name
  | .emptyConst => []
  | .thunk items => items.flatMap fun p => p.2.used

def inFieldsUsed : InFieldsE → List Name
  | .emptyConst => []
  | .thunk items => items.flatMap fun p => p.2.used

theorem evalFields_congr {ρ ρ' : Env} (hs : List (String × Head)) (fs : FieldsE) (h : Agree (fieldsUsed fs) ρ ρ') :
    evalFields ρ hs fs = evalFields ρ' hs fs := by
  cases fs with
  | emptyConst => rfl
  | thunk items => simp only [evalFields]; rw [evalFieldItems_congr hs items h]

theorem evalInFields_congr {ρ ρ' : Env} (hs : List (String × Head)) (fs : InFieldsE) (h : Agree (inFieldsUsed fs) ρ ρ') :
    evalInFields ρ hs fs = evalInFields ρ' hs fs := by
  cases fs with
  | emptyConst => rfl
  | thunk items => simp only [evalInFields]; exact evalArgs_congr hs .inputField items h

theorem evalLookups_congr {ρ ρ' : Env} (hs : List (String × Head)) (tm : Name) (h : ρ tm = ρ' tm) :
    ∀ (keys : List String), evalLookups ρ hs tm keys = evalLookups ρ' hs tm keys
  | [] => rfl
  | k :: rest => by simp only [evalLookups, evalLookup_congr hs tm k h, evalLookups_congr hs tm h rest]

theorem evalNames_congr {ρ ρ' : Env} (hs : List (String × Head)) (want : Kind) (ns : NamesE) (h : Agree ns.used ρ ρ') :
    evalNames ρ hs want ns = evalNames ρ' hs want ns := by
  cases ns with
  | emptyConst => rfl
  | thunk c l e tm keys =>
    simp only [evalNames]
    rw [callee_congr (h c (by simp [NamesE.used])), callee_congr (h l (by simp [NamesE.used])),
      callee_congr (h e (by simp [NamesE.used])), evalLookups_congr hs tm (h tm (by simp [NamesE.used])) keys]

/-! ### statement 1 -/

theorem evalEnumValues_congr {ρ ρ' : Env} :
    ∀ (vs : List (String × EnumValE)),
      Agree (vs.flatMap fun p => p.2.ctor :: (p.2.value.used ++ p.2.description.used ++ p.2.deprecation.used)) ρ ρ' →
      evalEnumValues ρ vs = evalEnumValues ρ' vs
  | [], _ => rfl
  | (k, v) :: rest, h => by
    have h2 := evalEnumValues_congr rest (fun n hn => h n (by
      simp only [List.flatMap_cons, List.mem_append]; exact Or.inr hn))
    have h1 : evalEnumValue ρ k v = evalEnumValue ρ' k v := by
      unfold evalEnumValue
      rw [callee_congr (h v.ctor (by simp)), evalAny_congr v.value (fun n hn => h n (by simp [hn])),
        evalOptStr_congr v.description (fun n hn => h n (by simp [hn])),
        evalOptStr_congr v.deprecation (fun n hn => h n (by simp [hn]))]
    simp only [evalEnumValues, h1, h2]

theorem construct_congr {ρ ρ' : Env} (e : TypeE) (h : Agree e.used ρ ρ') : construct ρ e = construct ρ' e := by
  cases e with
  | scalar c n d u =>
    simp only [construct]
    rw [callee_congr (h c (by simp [TypeE.used])), evalNameStr_congr n (fun x hx => h x (by simp [TypeE.used, hx])),
      evalOptStr_congr d (fun x hx => h x (by simp [TypeE.used, hx])),
      evalOptStr_congr u (fun x hx => h x (by simp [TypeE.used, hx]))]
  | composite c n d is fs =>
    simp only [construct]
    rw [callee_congr (h c (by simp [TypeE.used])), evalNameStr_congr n (fun x hx => h x (by simp [TypeE.used, hx])),
      evalOptStr_congr d (fun x hx => h x (by simp [TypeE.used, hx]))]
  | union c n d ts =>
    simp only [construct]
    rw [callee_congr (h c (by simp [TypeE.used])), evalNameStr_congr n (fun x hx => h x (by simp [TypeE.used, hx])),
      evalOptStr_congr d (fun x hx => h x (by simp [TypeE.used, hx]))]
  | enum c n d vs =>
    simp only [construct]
    rw [callee_congr (h c (by simp [TypeE.used])), evalNameStr_congr n (fun x hx => h x (by simp [TypeE.used, hx])),
      evalOptStr_congr d (fun x hx => h x (by simp [TypeE.used, hx])),
      evalEnumValues_congr vs (fun x hx => h x (by
        simp only [TypeE.used, List.mem_cons, List.mem_append]; exact Or.inr (Or.inr hx)))]
  | input c n d fs =>
    simp only [construct]
    rw [callee_congr (h c (by simp [TypeE.used])), evalNameStr_congr n (fun x hx => h x (by simp [TypeE.used, hx])),
      evalOptStr_congr d (fun x hx => h x (by simp [TypeE.used, hx]))]

theorem constructAll_congr {ρ ρ' : Env} :
    ∀ (items : List (String × TypeE)), Agree (items.flatMap fun p => p.2.used) ρ ρ' →
      constructAll ρ items = constructAll ρ' items
  | [], _ => rfl
  | (k, e) :: rest, h => by
    have h1 := construct_congr e (fun n hn => h n (by simp [hn]))
    have h2 := constructAll_congr rest (fun n hn => h n (by
      simp only [List.flatMap_cons, List.mem_append]; exact Or.inr hn))
    simp only [constructAll, h1, h2]

/-! ### statement 2 -/

/-- names a stored type object still needs when its thunks run -/
def objUsed : TypeObj → List Name
  | .scalar _ _ _ => []
  | .composite _ _ _ is fs => is.used ++ fieldsUsed fs
  | .union _ _ ts => ts.used
  | .enum _ _ _ => []
  | .input _ _ fs => inFieldsUsed fs

theorem force_congr {ρ ρ' : Env} (hs : List (String × Head)) (o : TypeObj) (h : Agree (objUsed o) ρ ρ') :
    force ρ hs o = force ρ' hs o := by
  cases o with
  | scalar n d u => rfl
  | composite iface n d is fs =>
    simp only [force]
    rw [evalNames_congr hs .interface is (fun x hx => h x (by simp [objUsed, hx])),
      evalFields_congr hs fs (fun x hx => h x (by simp [objUsed, hx]))]
  | union n d ts =>
    simp only [force]
    rw [evalNames_congr hs .object ts (fun x hx => h x (by simp [objUsed, hx]))]
  | enum n d vs => rfl
  | input n d fs =>
    simp only [force]
    rw [evalInFields_congr hs fs (fun x hx => h x (by simp [objUsed, hx]))]

theorem forceAll_congr {ρ ρ' : Env} (hs : List (String × Head)) :
    ∀ (tmv : List (String × TypeObj)), Agree (tmv.flatMap fun p => objUsed p.2) ρ ρ' →
      forceAll ρ hs tmv = forceAll ρ' hs tmv
  | [], _ => rfl
  | (k, o) :: rest, h => by
    have h1 := force_congr hs o (fun n hn => h n (by simp [hn]))
    have h2 := forceAll_congr hs rest (fun n hn => h n (by
      simp only [List.flatMap_cons, List.mem_append]; exact Or.inr hn))
    simp only [forceAll, h1, h2]

theorem bind_ok_inv {ε α β : Type} {x : Except ε α} {f : α → Except ε β} {b : β} (h : (x >>= f) = .ok b) :
    ∃ a, x = .ok a ∧ f a = .ok b := by
  cases x with
  | error e => exact absurd h (by simp)
  | ok a => exact ⟨a, rfl, h⟩

theorem pure_ok_inv {ε α : Type} {a b : α} (h : (pure a : Except ε α) = .ok b) : a = b := Except.ok.inj h

/-- a constructed type object needs no name its constructor expression did not mention -/
theorem construct_used {ρ : Env} (e : TypeE) (o : TypeObj) (h : construct ρ e = .ok o) : ∀ n ∈ objUsed o, n ∈ e.used := by
  intro x hx
  cases e with
  | scalar c n d u =>
    simp only [construct] at h
    obtain ⟨_, _, h⟩ := bind_ok_inv h
    obtain ⟨_, _, h⟩ := bind_ok_inv h
    obtain ⟨_, _, h⟩ := bind_ok_inv h
    obtain ⟨_, _, h⟩ := bind_ok_inv h
    obtain ⟨_, _, h⟩ := bind_ok_inv h
    obtain ⟨_, _, h⟩ := bind_ok_inv h
    have := pure_ok_inv h
    subst this
    simp [objUsed] at hx
  | composite c n d is fs =>
    simp only [construct] at h
    obtain ⟨_, _, h⟩ := bind_ok_inv h
    obtain ⟨_, _, h⟩ := bind_ok_inv h
    obtain ⟨_, _, h⟩ := bind_ok_inv h
    obtain ⟨_, _, h⟩ := bind_ok_inv h
    obtain ⟨_, _, h⟩ := bind_ok_inv h
    have := pure_ok_inv h
    subst this
    simp only [objUsed, List.mem_append] at hx
    simp only [TypeE.used, List.mem_cons, List.mem_append]
    rcases hx with hx | hx
    · exact Or.inr (Or.inl (Or.inr hx))
    · cases fs with
      | emptyConst => simp [fieldsUsed] at hx
      | thunk items => exact Or.inr (Or.inr hx)
  | union c n d ts =>
    simp only [construct] at h
    obtain ⟨_, _, h⟩ := bind_ok_inv h
    obtain ⟨_, _, h⟩ := bind_ok_inv h
    obtain ⟨_, _, h⟩ := bind_ok_inv h
    obtain ⟨_, _, h⟩ := bind_ok_inv h
    obtain ⟨_, _, h⟩ := bind_ok_inv h
    have := pure_ok_inv h
    subst this
    simp only [objUsed] at hx
    simp only [TypeE.used, List.mem_cons, List.mem_append]
    exact Or.inr (Or.inr hx)
  | enum c n d vs =>
    simp only [construct] at h
    obtain ⟨_, _, h⟩ := bind_ok_inv h
    obtain ⟨_, _, h⟩ := bind_ok_inv h
    obtain ⟨_, _, h⟩ := bind_ok_inv h
    obtain ⟨_, _, h⟩ := bind_ok_inv h
    obtain ⟨_, _, h⟩ := bind_ok_inv h
    obtain ⟨_, _, h⟩ := bind_ok_inv h
    obtain ⟨_, _, h⟩ := bind_ok_inv h
    obtain ⟨_, _, h⟩ := bind_ok_inv h
    have := pure_ok_inv h
    subst this
    simp [objUsed] at hx
  | input c n d fs =>
    simp only [construct] at h
    obtain ⟨_, _, h⟩ := bind_ok_inv h
    obtain ⟨_, _, h⟩ := bind_ok_inv h
    obtain ⟨_, _, h⟩ := bind_ok_inv h
    obtain ⟨_, _, h⟩ := bind_ok_inv h
    obtain ⟨_, _, h⟩ := bind_ok_inv h
    obtain ⟨_, _, h⟩ := bind_ok_inv h
    have := pure_ok_inv h
    subst this
    simp only [objUsed] at hx
    simp only [TypeE.used, List.mem_cons, List.mem_append]
    cases fs with
    | emptyConst => simp [inFieldsUsed] at hx
    | thunk items => exact Or.inr (Or.inr hx)

theorem constructAll_used {ρ : Env} :
    ∀ (items : List (String × TypeE)) (tmv : List (String × TypeObj)), constructAll ρ items = .ok tmv →
      ∀ n ∈ (tmv.flatMap fun p => objUsed p.2), n ∈ (items.flatMap fun p => p.2.used)
  | [], tmv, h => by
    have : tmv = [] := (Except.ok.inj h).symm
    subst this
    intro n hn
    simp at hn
  | (k, e) :: rest, tmv, h => by
    simp only [constructAll] at h
    obtain ⟨o, ho, h⟩ := bind_ok_inv h
    obtain ⟨os, hos, h⟩ := bind_ok_inv h
    have := pure_ok_inv h
    subst this
    intro n hn
    simp only [List.flatMap_cons, List.mem_append] at hn ⊢
    rcases hn with hn | hn
    · exact Or.inl (construct_used e o ho n hn)
    · exact Or.inr (constructAll_used rest os hos n hn)

theorem evalLocations_congr {ρ ρ' : Env} :
    ∀ (ls : List (Name × Name)), Agree (ls.map (·.1)) ρ ρ' → evalLocations ρ ls = evalLocations ρ' ls
  | [], _ => rfl
  | (o, m) :: rest, h => by
    have h2 := evalLocations_congr rest (fun n hn => h n (by simp [hn]))
    simp only [evalLocations, callee_congr (h o (by simp)), h2]

theorem evalDirective_congr {ρ ρ' : Env} (hs : List (String × Head)) (d : DirectiveE) (h : Agree d.used ρ ρ') :
    evalDirective ρ hs d = evalDirective ρ' hs d := by
  obtain ⟨c, n, desc, rep, locs, args⟩ := d
  have h1 := callee_congr (h c (by simp [DirectiveE.used]))
  have h2 := evalNameStr_congr n (fun x hx => h x (by simp [DirectiveE.used, hx]))
  have h3 := evalOptStr_congr desc (fun x hx => h x (by simp [DirectiveE.used, hx]))
  have h4 := evalBool_congr rep (fun x hx => h x (by simp [DirectiveE.used, hx]))
  have h5 := evalLocations_congr locs (fun x hx => h x (by
    simp only [DirectiveE.used, List.mem_cons, List.mem_append]; exact Or.inr (Or.inl (Or.inr hx))))
  cases args with
  | none =>
    simp only [evalDirective]
    rw [h1, h2, h3, h4, h5]
  | some items =>
    have h6 := evalArgs_congr hs .argument items (fun x hx => h x (by
      simp only [DirectiveE.used, List.mem_cons, List.mem_append]; exact Or.inr (Or.inr hx)))
    simp only [evalDirective]
    rw [h1, h2, h3, h4, h5, h6]

theorem evalDirectives_congr {ρ ρ' : Env} (hs : List (String × Head)) :
    ∀ (ds : List DirectiveE), Agree (ds.flatMap (·.used)) ρ ρ' → evalDirectives ρ hs ds = evalDirectives ρ' hs ds
  | [], _ => rfl
  | d :: rest, h => by
    have h1 := evalDirective_congr hs d (fun n hn => h n (by simp [hn]))
    have h2 := evalDirectives_congr hs rest (fun n hn => h n (by
      simp only [List.flatMap_cons, List.mem_append]; exact Or.inr hn))
    simp only [evalDirectives, h1, h2]

theorem evalRoot_congr {ρ ρ' : Env} (hs : List (String × Head)) (r : RootE) (h : Agree r.used ρ ρ') :
    evalRoot ρ hs r = evalRoot ρ' hs r := by
  cases r with
  | none => rfl
  | cast fn cls tm key =>
    simp only [evalRoot]
    rw [evalCast_congr hs fn cls tm key (fun n hn => h n (by simpa [RootE.used] using hn))]

def schemaUsed (s : SchemaE) : List Name :=
  s.ctor :: (s.query.used ++ s.mutation.used ++ s.subscription.used ++ [s.typesTm] ++ s.directives.flatMap (·.used) ++
    s.description.used)

theorem evalSchema_congr {ρ ρ' : Env} (tmv : List (String × TypeObj)) (s : SchemaE)
    (h : Agree (schemaUsed s) ρ ρ') (ht : Agree (tmv.flatMap fun p => objUsed p.2) ρ ρ') :
    evalSchema ρ tmv s = evalSchema ρ' tmv s := by
  unfold evalSchema
  simp only
  rw [callee_congr (h s.ctor (by simp [schemaUsed])),
    evalRoot_congr _ s.query (fun n hn => h n (by simp [schemaUsed, hn])),
    evalRoot_congr _ s.mutation (fun n hn => h n (by simp [schemaUsed, hn])),
    evalRoot_congr _ s.subscription (fun n hn => h n (by simp [schemaUsed, hn])),
    callee_congr (h s.typesTm (by simp [schemaUsed])),
    evalDirectives_congr _ s.directives (fun n hn => h n (by
      simp only [schemaUsed, List.mem_cons, List.mem_append]; exact Or.inr (Or.inl (Or.inr hn)))),
    evalOptStr_congr s.description (fun n hn => h n (by simp [schemaUsed, hn])),
    forceAll_congr _ tmv ht]

/-! ### the pruned import list binds the kept names as the full list does -/

theorem bindNames_filter (keep : Name → Bool) (module : String) :
    ∀ (names : List Name) (bs : List (Name × Builtin)), bindNames module names = .ok bs →
      bindNames module (names.filter keep) = .ok (bs.filter fun p => keep p.1)
  | [], bs, h => by
    have : bs = [] := (Except.ok.inj h).symm
    subst this; rfl
  | n :: rest, bs, h => by
    unfold bindNames at h
    cases he : exportOf module n with
    | none => simp [he] at h
    | some b =>
      cases hr : bindNames module rest with
      | error e => simp [he, hr] at h
      | ok bs' =>
        simp [he, hr] at h
        subst h
        have ih := bindNames_filter keep module rest bs' hr
        by_cases hk : keep n = true
        · simp [List.filter, hk, bindNames, he, ih]
        · simp [List.filter, hk, ih]

theorem bindImports_prune (keep : Name → Bool) :
    ∀ (imports : List ImportE) (bs : List (Name × Builtin)), bindImports imports = .ok bs →
      bindImports (pruneWith keep imports) = .ok (bs.filter fun p => keep p.1)
  | [], bs, h => by
    have : bs = [] := (Except.ok.inj h).symm
    subst this; rfl
  | i :: rest, bs, h => by
    unfold bindImports at h
    cases h1 : bindNames i.module i.names with
    | error e => simp [h1] at h
    | ok b1 =>
      cases h2 : bindImports rest with
      | error e => simp [h1, h2] at h
      | ok b2 =>
        simp [h1, h2] at h
        subst h
        have f1 := bindNames_filter keep i.module i.names b1 h1
        have f2 := bindImports_prune keep rest b2 h2
        unfold pruneWith at f2 ⊢
        by_cases hem : (i.names.filter keep).isEmpty = true
        · have hnil : i.names.filter keep = [] := by simpa using hem
          rw [hnil] at f1
          have : b1.filter (fun p => keep p.1) = [] := (Except.ok.inj f1).symm
          simp [List.map_cons, List.filter, hem, hnil, f2, this]
        · simp [List.map_cons, List.filter, hem, bindImports, f1, f2]

theorem lastBinding_filter (keep : Name → Bool) (n : Name) (hk : keep n = true) :
    ∀ (bs : List (Name × Builtin)), lastBinding n (bs.filter fun p => keep p.1) = lastBinding n bs
  | [] => rfl
  | (k, b) :: rest => by
    have ih := lastBinding_filter keep n hk rest
    by_cases hkk : keep k = true
    · simp [List.filter, hkk, lastBinding, ih]
    · have hne : k ≠ n := by
        intro e; subst e; exact hkk hk
      simp [List.filter, hkk, lastBinding, ih, hne]
      cases lastBinding n rest <;> rfl

theorem envOfImports_filter (keep : Name → Bool) (bs : List (Name × Builtin)) (n : Name) (hk : keep n = true) :
    envOfImports (bs.filter fun p => keep p.1) n = envOfImports bs n := by
  unfold envOfImports
  rw [lastBinding_filter keep n hk bs]

/-- what `evalSchemaModule` does once the type map is bound -/
def tail (m : PyModuleIR) (sv : Name) (ρ : Env) (tmv : List (String × TypeObj)) : Except PyErr SchemaIR := do
  let _ ← callee ρ m.tmAnn
  let S ← evalSchema ρ tmv m.schema
  let _ ← if m.svAnn = m.svName then pure Binding.unbound else callee ρ m.svAnn
  if sv = m.svName then pure S
  else if (ρ sv) = Binding.unbound then .error (.keyError sv)
  else .error (.typeError "the requested variable is not the schema")

theorem tail_congr (m : PyModuleIR) (ρ ρ' : Env) (tmv : List (String × TypeObj)) (h : Agree m.used ρ ρ')
    (hobj : ∀ n ∈ (tmv.flatMap fun p => objUsed p.2), n ∈ m.used) :
    tail m m.svName ρ tmv = tail m m.svName ρ' tmv := by
  have hsub2 : ∀ n ∈ schemaUsed m.schema, n ∈ m.used := by
    intro n hn
    simp only [PyModuleIR.used, List.mem_cons, List.mem_append]
    simp only [schemaUsed, List.mem_cons, List.mem_append] at hn
    exact Or.inr (Or.inr (Or.inr hn))
  unfold tail
  rw [callee_congr (h m.tmAnn (by simp [PyModuleIR.used])),
    evalSchema_congr tmv m.schema (h.sub hsub2) (h.sub hobj),
    callee_congr (h m.svAnn (by simp [PyModuleIR.used]))]
  simp

theorem evalSchemaModule_eq (m : PyModuleIR) (sv : Name) :
    evalSchemaModule m sv = (do
      let bs ← bindImports m.imports
      let tmv ← evalTypeMap (envOfImports bs) m.typeMap
      tail m sv (fun n => if n = m.tmName then Binding.typeMap else envOfImports bs n) tmv) := rfl

theorem tail_written (m : PyModuleIR) (sv : Name) (ρ : Env) (tmv : List (String × TypeObj)) :
    tail (written m) sv ρ tmv = tail m sv ρ tmv := rfl

/-- **Removing the unused imports changes nothing**: for every module whose imports bind at all,
    the written module (imports pruned to the names the body mentions or re-binds) evaluates to
    exactly what the unpruned module evaluates to — same schema or same error. -/
theorem eval_written (m : PyModuleIR) (bs : List (Name × Builtin)) (hb : bindImports m.imports = .ok bs) :
    evalSchemaModule (written m) m.svName = evalSchemaModule m m.svName := by
  have hkeep : ∀ n ∈ m.used, keepName m n = true := by
    intro n hn
    unfold keepName
    rw [List.contains_iff_mem.mpr hn]
    rfl
  have hb' := bindImports_prune (keepName m) m.imports bs hb
  have hρ₁ : Agree m.used (envOfImports (bs.filter fun p => keepName m p.1)) (envOfImports bs) :=
    fun n hn => envOfImports_filter (keepName m) bs n (hkeep n hn)
  have hρ₂ : Agree m.used (fun n => if n = m.tmName then Binding.typeMap else envOfImports (bs.filter fun p => keepName m p.1) n)
      (fun n => if n = m.tmName then Binding.typeMap else envOfImports bs n) := by
    intro n hn
    by_cases e : n = m.tmName
    · simp [e]
    · simp [e, hρ₁ n hn]
  have hsub1 : ∀ n ∈ (m.typeMap.flatMap fun p => p.2.used), n ∈ m.used := by
    intro n hn
    simp only [PyModuleIR.used, List.mem_cons, List.mem_append]
    exact Or.inr (Or.inr (Or.inl hn))
  have htm : evalTypeMap (envOfImports (bs.filter fun p => keepName m p.1)) m.typeMap = evalTypeMap (envOfImports bs) m.typeMap := by
    unfold evalTypeMap
    rw [constructAll_congr m.typeMap (hρ₁.sub hsub1)]
  rw [evalSchemaModule_eq, evalSchemaModule_eq]
  have e1 : (written m).imports = pruneWith (keepName m) m.imports := rfl
  have e2 : (written m).typeMap = m.typeMap := rfl
  have e3 : (written m).tmName = m.tmName := rfl
  have e4 : (written m).svName = m.svName := rfl
  simp only [e1, e2, e3, hb', hb, bind_ok, tail_written]
  rw [htm]
  cases ht : evalTypeMap (envOfImports bs) m.typeMap with
  | error e => rfl
  | ok tmv =>
    simp only [bind_ok]
    have hca : constructAll (envOfImports bs) m.typeMap = .ok tmv := by
      unfold evalTypeMap at ht
      obtain ⟨os, hos, h⟩ := bind_ok_inv ht
      obtain ⟨_, _, h⟩ := bind_ok_inv h
      have := pure_ok_inv h
      subst this
      exact hos
    have hobj : ∀ n ∈ (tmv.flatMap fun p => objUsed p.2), n ∈ m.used :=
      fun n hn => hsub1 n (constructAll_used m.typeMap tmv hca n hn)
    exact tail_congr m _ _ tmv hρ₂ hobj

end Ariadne.SchemaPrune
