/-
  C16 — every constant position of the module emitted for a well-formed schema holds a finite
  constant or the name `Undefined` (`gen_consts_ok`), i.e. is in the domain of
  `C16.cexpr_text_roundtrip`.  Membership chase through `gen`; the only facts used of `wf` are the
  `finiteDefault` / `finitePV` conjuncts of `argOK` and of the enum case of `typeOK`.
-/
import AriadneModel.Model.SchemaWF
import AriadneModel.Spec.PyLiteral

set_option linter.unusedSimpArgs false
set_option linter.unusedVariables false

namespace Ariadne.SchemaConsts
open Ariadne.Schema Ariadne.SchemaGen Ariadne.SchemaWF Ariadne.PySchemaEval

/-- what may stand in a constant position of the emitted module: a finite constant, or the name
    `Undefined` -/
def cexprOK : CExpr → Bool
  | .const v => finitePV v
  | .name n => n == "Undefined"

theorem ok_optStr (o : Option String) : cexprOK (genOptStr o) = true := by cases o <;> rfl

theorem ok_default (d : Default) (h : finiteDefault d = true) : cexprOK (genDefault d) = true := by
  cases d with
  | undefined => rfl
  | value v => exact h

theorem ok_str (s : String) : cexprOK (.const (.str s)) = true := rfl
theorem ok_bool (b : Bool) : cexprOK (.const (.bool b)) = true := rfl

theorem arg_consts_ok (ctor tm : Name) (hs : List (String × Head)) (a : ArgDef) (h : argOK hs a = true) :
    ∀ c ∈ (genArgWith ctor tm a).consts, cexprOK c = true := by
  intro c hc
  simp only [argOK, Bool.and_eq_true] at h
  simp only [genArgWith, ArgE.consts, List.mem_cons, List.mem_nil_iff, or_false] at hc
  rcases hc with rfl | rfl | rfl
  · exact ok_default _ h.2
  · exact ok_optStr _
  · exact ok_optStr _

theorem args_consts_ok (ctor tm : Name) (hs : List (String × Head)) (as : List ArgDef) (h : argsOK hs as = true) :
    ∀ c ∈ (as.map fun a => (a.name, genArgWith ctor tm a)).flatMap (fun p => p.2.consts), cexprOK c = true := by
  intro c hc
  simp only [argsOK, Bool.and_eq_true, List.all_eq_true] at h
  simp only [List.mem_flatMap, List.mem_map] at hc
  obtain ⟨p, ⟨a, ha, rfl⟩, hc⟩ := hc
  exact arg_consts_ok ctor tm hs a (h.2 a ha) c hc

theorem field_consts_ok (tm : Name) (hs : List (String × Head)) (f : FieldDef) (h : fieldOK hs f = true) :
    ∀ c ∈ (genField tm f).consts, cexprOK c = true := by
  intro c hc
  simp only [fieldOK, Bool.and_eq_true] at h
  simp only [genField, FieldE.consts, List.mem_append, List.mem_cons, List.mem_nil_iff, or_false] at hc
  rcases hc with hc | rfl | rfl
  · exact args_consts_ok "GraphQLArgument" tm hs f.args h.2 c hc
  · exact ok_optStr _
  · exact ok_optStr _

theorem fieldMap_consts_ok (tm : Name) (hs : List (String × Head)) (fs : List FieldDef) (h : fieldsOK hs fs = true) :
    ∀ c ∈ (match genFieldMap tm fs with
           | .emptyConst => []
           | .thunk items => items.flatMap fun (p : String × FieldE) => p.2.consts), cexprOK c = true := by
  intro c hc
  simp only [fieldsOK, Bool.and_eq_true, List.all_eq_true] at h
  cases fs with
  | nil => simp [genFieldMap] at hc
  | cons f0 rest =>
    simp only [genFieldMap, List.mem_flatMap, List.mem_map] at hc
    obtain ⟨p, ⟨f, hf, rfl⟩, hc⟩ := hc
    exact field_consts_ok tm hs f (h.2 f hf) c hc

theorem inputFieldMap_consts_ok (tm : Name) (hs : List (String × Head)) (fs : List ArgDef) (h : argsOK hs fs = true) :
    ∀ c ∈ (match genInputFieldMap tm fs with
           | .emptyConst => []
           | .thunk items => items.flatMap fun (p : String × ArgE) => p.2.consts), cexprOK c = true := by
  intro c hc
  cases fs with
  | nil => simp [genInputFieldMap] at hc
  | cons f0 rest =>
    simp only [genInputFieldMap] at hc
    exact args_consts_ok "GraphQLInputField" tm hs (f0 :: rest) h c hc

theorem type_consts_ok (tm : Name) (hs : List (String × Head)) (t : TypeDef) (h : typeOK hs t = true) :
    ∀ c ∈ (genType tm t).consts, cexprOK c = true := by
  intro c hc
  cases t with
  | scalar n d u =>
    simp only [genType, TypeE.consts, List.mem_cons, List.mem_nil_iff, or_false] at hc
    rcases hc with rfl | rfl | rfl
    · rfl
    · exact ok_optStr _
    · exact ok_optStr _
  | object n d is fs =>
    simp only [typeOK, Bool.and_eq_true] at h
    simp only [genType, TypeE.consts, List.mem_cons] at hc
    rcases hc with rfl | rfl | hc
    · rfl
    · exact ok_optStr _
    · exact fieldMap_consts_ok tm hs fs h.2 c hc
  | interface n d is fs =>
    simp only [typeOK, Bool.and_eq_true] at h
    simp only [genType, TypeE.consts, List.mem_cons] at hc
    rcases hc with rfl | rfl | hc
    · rfl
    · exact ok_optStr _
    · exact fieldMap_consts_ok tm hs fs h.2 c hc
  | union n d ms =>
    simp only [genType, TypeE.consts, List.mem_cons, List.mem_nil_iff, or_false] at hc
    rcases hc with rfl | rfl
    · rfl
    · exact ok_optStr _
  | enum n d vs =>
    simp only [typeOK, Bool.and_eq_true, List.all_eq_true] at h
    simp only [genType, TypeE.consts, List.mem_cons, genEnumValues, List.mem_flatMap, List.mem_map] at hc
    rcases hc with rfl | rfl | ⟨p, ⟨v, hv, rfl⟩, hc⟩
    · rfl
    · exact ok_optStr _
    · simp only [genEnumValue, EnumValE.consts, List.mem_cons, List.mem_nil_iff, or_false] at hc
      rcases hc with rfl | rfl | rfl
      · have := h.2 v hv
        simpa [cexprOK] using this
      · exact ok_optStr _
      · exact ok_optStr _
  | input n d fs o =>
    simp only [typeOK] at h
    simp only [genType, TypeE.consts, List.mem_cons] at hc
    rcases hc with rfl | rfl | hc
    · rfl
    · exact ok_optStr _
    · exact inputFieldMap_consts_ok tm hs fs h c hc

theorem directive_consts_ok (tm : Name) (hs : List (String × Head)) (d : DirectiveDef) (h : directiveOK hs d = true) :
    ∀ c ∈ (genDirective tm d).consts, cexprOK c = true := by
  intro c hc
  simp only [directiveOK, Bool.and_eq_true] at h
  simp only [genDirective, DirectiveE.consts, List.mem_cons] at hc
  rcases hc with rfl | rfl | rfl | hc
  · rfl
  · exact ok_optStr _
  · rfl
  · cases hd : d.args with
    | nil => rw [hd] at hc; simp at hc
    | cons a0 rest =>
      rw [hd] at hc
      simp only [genArgs] at hc
      have h2 := h.2
      rw [hd] at h2
      exact args_consts_ok "GraphQLArgument" tm hs (a0 :: rest) h2 c hc

/-- every constant position of the module emitted for a well-formed schema is a finite constant
    or the name `Undefined` -/
theorem gen_consts_ok (S : SchemaIR) (tm sv : Name) (hwf : wf S = true) :
    ∀ c ∈ (gen S tm sv).consts, cexprOK c = true := by
  intro c hc
  unfold wf at hwf
  simp only [Bool.and_eq_true, List.all_eq_true] at hwf
  obtain ⟨⟨⟨⟨⟨⟨_, _⟩, htypes⟩, _⟩, _⟩, _⟩, hdirs⟩ := hwf
  simp only [gen, PyModuleIR.consts, genSchema, List.mem_append, List.mem_cons, List.mem_nil_iff, or_false] at hc
  rcases hc with (hc | hc) | rfl
  · simp only [genTypeMap, List.mem_flatMap, List.mem_map, List.mem_filter] at hc
    obtain ⟨p, ⟨t, ⟨ht, _⟩, rfl⟩, hc⟩ := hc
    exact type_consts_ok tm _ t (htypes t ht) c hc
  · simp only [List.mem_flatMap, List.mem_map] at hc
    obtain ⟨de, ⟨d, hd, rfl⟩, hc⟩ := hc
    exact directive_consts_ok tm _ d (hdirs d hd) c hc
  · exact ok_optStr _

end Ariadne.SchemaConsts
