/-
  Proofs/C01Mix.lean — property C01, "mixin" tier: the main theorems at class level.

  The plain tier (fields of leaf or object type, aliases, `@skip/@include`, any nesting) extended by NAMED FRAGMENTS USED
  AS MIXINS: a spread `...F` in a selection set evaluated on the object type `T`, with `F` defined on exactly `T` and free
  of inline fragments.  Such a fragment is not unpacked: the class of the selection set gets the class of `F` (generated
  in the fragments module) as a BASE and declares only its own fields.  Fragments may spread fragments and contain
  composite fields whose sub-selections spread fragments, to any depth.

    (1) `mix_generation`: `_parse_type_definition` returns exactly `mClass env cn tn sel` (bases = the spread fragments,
        sorted; own fields only), adds no marks and unpacks nothing; `mix_fragment_generation`: likewise for the classes
        of a fragment definition (`fragClassesOf`);
    (2) `mix_roundtrip`: every answer a conformant executor can give for the selection set — the executor resolves the
        spreads with the fragment definitions — is accepted by the class, whose fields pydantic collects along the
        inheritance chain (`Pyd.allFields`), and dumped back up to member order.

  Hypotheses (`MixOK` for the class tree, `FragsOK` for the fragment definitions; decidable, Proofs/C01MixDefs.lean):
    * as in the plain tier: fields exist, leaf ⇔ no sub-selection, leaf = scalar (not a configured custom scalar) or enum,
      composite = OBJECT type, no `__typename`, no `@mixin`;
    * a spread: no `@skip/@include` (finding C01-F3), the fragment exists and is defined on exactly the type of the
      selection set, which is an object type (else the fragment is unpacked — other tiers / findings C01-F5, F9);
      fragment definitions: on an object type, no inline fragment, no `@mixin`;
    * per class, over ALL its field nodes, own and inherited (`mflat`): response keys pairwise distinct, Python names
      pairwise distinct, the populate_by_name condition (`msetOK`) — so `{ ...F id }` with `id` also in `F` is OUTSIDE the tier
      (pydantic would let the own declaration override the inherited one; not needed for what this tier claims);
    * the fuel `K` bounds the nesting of spreads and sub-selections (`mfull`); the executor gets at least `K`, validation
      at least `mneed … + 1`; spreads nest at most `fragDepth env` = number of fragment definitions + 1 deep (`mfullS`,
      i.e. no spread cycle), which pydantic's inheritance fuel `clsFuel` covers.
-/
import AriadneModel.Proofs.C01MixVal
import AriadneModel.Proofs.C01Plain

set_option linter.unusedSimpArgs false
set_option linter.unusedVariables false

namespace Ariadne.C01Mix
open Ariadne Ariadne.Gql Ariadne.ResultTypes Ariadne.Util Ariadne.Pyd Ariadne.C01Plain

theorem MixOK_spec {env : ResultTypes.Env} {K : Nat} {cn tn : String} {sel : List Selection} (h : MixOK env K cn tn sel = true) :
    env.schema.kindOf? tn = some .object ∧ msetOK env K cn sel = true ∧ mLocal env K cn tn sel = true ∧
    mfull env K tn sel = true ∧ mfullS env (fragDepth env) sel = true := by
  simp only [MixOK, Bool.and_eq_true, beq_iff_eq] at h
  exact ⟨h.1.1.1.1, h.1.1.1.2, h.1.1.2, h.1.2, h.2⟩

/-- **(1) generation of the classes of a selection set with mixin spreads** -/
theorem mix_generation (env : ResultTypes.Env) (K : Nat) (hfr : FragsOK env K) (cn tn : String) (sid : Nat)
    (sel : List Selection) (st : St) (h : MixOK env K cn tn sel = true)
    (hmark : st.marks.contains sid = false) (hfree : sidFree st.marks sel = true)
    (hnd : ((mClass env cn tn sel).map (·.name)).Nodup) (hfresh : ∀ n ∈ (mClass env cn tn sel).map (·.name), n ∉ st.publicNames)
    (fuel : Nat) (hfuel : gfuel sel ≤ fuel) :
    ∃ st', parseTypeDefinition env fuel cn tn sid sel false [] [] st = .ok (mClass env cn tn sel, st') ∧
      st'.publicNames = st.publicNames ++ (mClass env cn tn sel).map (·.name) ∧ st'.marks = st.marks ∧
      st'.unpacked = st.unpacked := by
  obtain ⟨hk, _, hloc, _, _⟩ := MixOK_spec h
  exact gen_spec env K hfr fuel cn tn sid sel [] st hfuel hmark hfree hk hloc hnd hfresh

/-- **(2) every conformant response is accepted and dumped back** -/
theorem mix_roundtrip (env : ResultTypes.Env) (K : Nat) (hfr : FragsOK env K) (cn tn : String) (sel : List Selection)
    (h : MixOK env K cn tn sel = true)
    (penv : Pyd.Env) (ha : ResultLeaf.EnvAgrees env penv) (hbm : penv.class? "BaseModel" = none)
    (hcls : ∀ c ∈ mClass env cn tn sel, penv.class? c.name = some c) (Hfrags : FragsIn env penv)
    (hKf : fragDepth env ≤ penv.clsFuel)
    (efuel : Nat) (hef : K ≤ efuel) (j : J)
    (hresp : Exec.respOK env.schema env.frags efuel tn sel j = true) (hj : nodupKeys j = true)
    (vfuel : Nat) (hv : mneed env K tn sel + 1 ≤ vfuel) :
    ∃ v, Pyd.validate penv vfuel (.cls cn) j = .ok v ∧ J.eqv (Pyd.dump v) j = true := by
  obtain ⟨hk, hset, hloc, hfull, hfullS⟩ := MixOK_spec h
  exact val_spec env penv K hfr ha hbm Hfrags hKf efuel K cn tn sel j hef (Nat.le_refl K) hk hfull hfullS hloc hset hcls hresp hj vfuel hv

end Ariadne.C01Mix
