/-
  Proofs/C08Classes.lean — the class-producing part of the result-types model
  (`_parse_type_definition`, `_parse_field_selection_set_types`, `_get_extra_bases_from_mixin_directives`):
  named loop bodies (equal to the model by `rfl`), the exact bases of the class a call creates, and the
  invariants "every base is accounted for" / "only fragments with a class of their own are inherited".
  Core Lean only.
-/
import AriadneModel.Proofs.C08Resolve

set_option linter.unusedSimpArgs false
set_option linter.unusedVariables false

open Ariadne Ariadne.Gql Ariadne.Util

namespace Ariadne.ResultTypes

/-! ### `_get_extra_bases_from_mixin_directives` -/

def mixinGet (d : Directive) (k : String) : Option String := (d.args.reverse.find? (·.1 == k)).bind (·.2)

def mixinBody (d : Directive) (bases : List String) : M (ForInStep (List String)) :=
  if d.name == Tables.mixinName then
    if d.args.any (·.2.isNone) then err (.parsing "Arguments passed to mixin have to be strings.")
    else
      match mixinGet d Tables.mixinFromName, mixinGet d Tables.mixinImportName with
      | some fr, some im => do
        modify fun st => { st with mixinImports := st.mixinImports ++ [(fr, im)] }
        pure (.yield (bases ++ [im]))
      | _, _ => err (.parsing "Required arguments (from, import) not found.")
  else pure (.yield bases)

theorem mixinBases_eq (dirs : List Directive) : mixinBases dirs = (forIn dirs [] mixinBody >>= fun s => pure s) := by
  rfl

abbrev FAcc := List FieldDecl × List ClassDecl

def typenameRField : RField := ⟨none, typenameField, [], 0, []⟩

def classBases (frs eb : List String) : List String :=
  (if frs.isEmpty then ["BaseModel"] else (sortStr frs).map pascal) ++ eb

def fieldBody (env : Env) (fuel : Nat) (cn tn : String) (tv : List String) (f : RField) (acc : FAcc) : M (ForInStep FAcc) := do
  let t ← liftExcept (fieldTypeFromSchema env tn f.name)
  let x ← liftExcept (parseOperationField env (fuel + 1) f.name f.dirs f.sub t (cn ++ pascal (pyFieldName env f.key)) tv)
  let fieldBases ← mixinBases f.dirs
  let more ← parseFieldSelectionSetTypes env fuel f.sid f.sub x.2.2 fieldBases
  modify fun st => { st with usedEnums := st.usedEnums ++ x.2.2.enums, usedScalars := st.usedScalars ++ x.2.2.customScalars }
  pure (.yield (acc.1 ++ [{ py := pyFieldName env f.key, ann := x.1,
                            alias := if pyFieldName env f.key != f.key then some f.key else none,
                            discriminator := isUnionAnn x.1, defaultNone := x.2.1 }], acc.2 ++ more))

def classTail (env : Env) (fuel : Nat) (cn tn : String) (tv eb frs : List String) (resolved : List RField) : M (List ClassDecl) := do
  let s ← forIn resolved (([], []) : FAcc) (fieldBody env fuel cn tn tv)
  pure ({ name := cn, bases := classBases frs eb, fields := s.1 } :: s.2)

theorem parseTypeDefinition_succ (env : Env) (fuel : Nat) (cn tn : String) (sid : Nat) (sel : List Selection) (a : Bool)
    (eb tv : List String) :
    parseTypeDefinition env (fuel + 1) cn tn sid sel a eb tv = (do
      let st0 ← get
      if st0.publicNames.contains cn then pure []
      else do
        modify fun st => { st with publicNames := st.publicNames ++ [cn] }
        let x ← resolve env (fuel + 1) sel tn
        let st1 ← get
        let resolved0 := if st1.marks.contains sid then typenameRField :: x.1 else x.1
        if a && !(resolved0.any (·.name == typenameField)) then do
          modify fun st => { st with marks := if st.marks.contains sid then st.marks else st.marks ++ [sid] }
          classTail env fuel cn tn tv eb x.2 (typenameRField :: resolved0)
        else classTail env fuel cn tn tv eb x.2 resolved0) := by
  rfl

theorem parseTypeDefinition_zero (env : Env) (cn tn : String) (sid : Nat) (sel : List Selection) (a : Bool) (eb tv : List String) :
    parseTypeDefinition env 0 cn tn sid sel a eb tv = err .fuel := rfl

def relatedBody (env : Env) (fuel : Nat) (sid : Nat) (sel : List Selection) (ctx : Ctx) (eb : List String)
    (x : String × String) (acc : List ClassDecl) : M (ForInStep (List ClassDecl)) := do
  let cs ← parseTypeDefinition env fuel x.1 x.2 sid sel ctx.abstract eb
    (((typenameValues env ctx.related).find? (·.1 == x.2)).map (·.2) |>.getD [])
  pure (.yield (acc ++ cs))

theorem parseFieldSelectionSetTypes_succ (env : Env) (fuel : Nat) (sid : Nat) (sel : List Selection) (ctx : Ctx) (eb : List String) :
    parseFieldSelectionSetTypes env (fuel + 1) sid sel ctx eb =
      (if sel.isEmpty then pure []
       else forIn ctx.related [] (relatedBody env fuel sid sel ctx eb) >>= fun s => pure s) := by
  rfl

theorem parseFieldSelectionSetTypes_zero (env : Env) (sid : Nat) (sel : List Selection) (ctx : Ctx) (eb : List String) :
    parseFieldSelectionSetTypes env 0 sid sel ctx eb = err .fuel := rfl


/-! ### `@mixin` directives: pure specification -/

/-- the `(from, import)` pair a well-formed `@mixin` directive names -/
def mixinPair (d : Directive) : Option (String × String) :=
  if d.name == Tables.mixinName then
    match mixinGet d Tables.mixinFromName, mixinGet d Tables.mixinImportName with
    | some fr, some im => some (fr, im)
    | _, _ => none
  else none

def mixinPairs (dirs : List Directive) : List (String × String) := dirs.filterMap mixinPair

/-- `self._imports.append(generate_import_from([import], from_))` for each pair -/
def addImports (st : St) (ps : List (String × String)) : St := { st with mixinImports := st.mixinImports ++ ps }

theorem addImports_nil (st : St) : addImports st [] = st := by
  cases st; simp [addImports]

theorem addImports_append (st : St) (a b : List (String × String)) : addImports (addImports st a) b = addImports st (a ++ b) := by
  cases st; simp [addImports, List.append_assoc]

theorem mixinBody_ok (d : Directive) (b : List String) (s : St) (r : ForInStep (List String)) (s' : St)
    (h : mixinBody d b s = .ok (r, s')) :
    r = .yield (b ++ (mixinPair d).toList.map (·.2)) ∧ s' = addImports s (mixinPair d).toList := by
  unfold mixinBody at h
  unfold mixinPair
  by_cases hn : (d.name == Tables.mixinName) = true
  · simp only [hn, if_true] at h ⊢
    by_cases hany : (d.args.any fun x => x.2.isNone) = true
    · simp only [hany, if_true] at h
      exact ((ok_err _ _ _).mp h).elim
    · simp only [hany] at h
      cases h1 : mixinGet d Tables.mixinFromName <;> cases h2 : mixinGet d Tables.mixinImportName <;>
        simp only [h1, h2] at h ⊢
      · exact ((ok_err _ _ _).mp h).elim
      · exact ((ok_err _ _ _).mp h).elim
      · exact ((ok_err _ _ _).mp h).elim
      · obtain ⟨u, s1, h3, h4⟩ := (ok_bind _ _ _ _ _).mp h
        have hs1 := (ok_modify _ _ _ _).mp h3
        obtain ⟨rfl, rfl⟩ := (ok_pure _ _ _ _).mp h4
        subst hs1
        exact ⟨rfl, rfl⟩
  · simp only [hn] at h ⊢
    obtain ⟨rfl, rfl⟩ := (ok_pure _ _ _ _).mp h
    simp [addImports_nil]

theorem mixinLoop_ok : ∀ (dirs : List Directive) (b : List String) (s : St) (b' : List String) (s' : St),
    forIn dirs b mixinBody s = .ok (b', s') →
      b' = b ++ (mixinPairs dirs).map (·.2) ∧ s' = addImports s (mixinPairs dirs)
  | [], b, s, b', s', h => by
    rw [List.forIn_nil] at h
    obtain ⟨rfl, rfl⟩ := (ok_pure _ _ _ _).mp h
    simp [mixinPairs, addImports_nil]
  | d :: ds, b, s, b', s', h => by
    rw [List.forIn_cons] at h
    obtain ⟨r, s1, h1, h2⟩ := (ok_bind _ _ _ _ _).mp h
    obtain ⟨rfl, rfl⟩ := mixinBody_ok d b s r s1 h1
    obtain ⟨rfl, rfl⟩ := mixinLoop_ok ds _ _ b' s' h2
    have hp : mixinPairs (d :: ds) = (mixinPair d).toList ++ mixinPairs ds := by
      unfold mixinPairs
      cases hm : mixinPair d <;> simp [List.filterMap_cons, hm]
    rw [hp, addImports_append]
    simp [List.append_assoc]

/-- **`_get_extra_bases_from_mixin_directives`, exactly**: the extra bases are the `import` arguments of the
    node's `@mixin` directives, in order, and exactly their `(from, import)` pairs are appended to the imports -/
theorem mixinBases_spec (dirs : List Directive) (st : St) (bs : List String) (st' : St)
    (h : mixinBases dirs st = .ok (bs, st')) :
    bs = (mixinPairs dirs).map (·.2) ∧ st' = addImports st (mixinPairs dirs) := by
  rw [mixinBases_eq] at h
  obtain ⟨b1, s1, h1, h2⟩ := (ok_bind _ _ _ _ _).mp h
  obtain ⟨rfl, rfl⟩ := (ok_pure _ _ _ _).mp h2
  have := mixinLoop_ok dirs [] st b1 s1 h1
  simpa using this

/-! ### Python `sorted` keeps the elements -/

theorem mem_insertSorted (x a : String) : ∀ l : List String, a ∈ insertSorted x l ↔ a = x ∨ a ∈ l
  | [] => by simp [insertSorted]
  | y :: ys => by
    unfold insertSorted
    split
    · simp
    · simp only [List.mem_cons, mem_insertSorted x a ys]
      constructor
      · rintro (h | h | h)
        · exact Or.inr (Or.inl h)
        · exact Or.inl h
        · exact Or.inr (Or.inr h)
      · rintro (h | h | h)
        · exact Or.inr (Or.inl h)
        · exact Or.inl h
        · exact Or.inr (Or.inr h)

theorem mem_sortStr (a : String) : ∀ l : List String, a ∈ sortStr l ↔ a ∈ l
  | [] => by simp [sortStr]
  | x :: xs => by
    have : sortStr (x :: xs) = insertSorted x (sortStr xs) := rfl
    rw [this, mem_insertSorted, mem_sortStr a xs]
    simp

theorem pascal_mem_classBases {frs eb : List String} {n : String} (h : n ∈ frs) : pascal n ∈ classBases frs eb := by
  unfold classBases
  have hne : frs.isEmpty = false := by
    cases frs with
    | nil => cases h
    | cons _ _ => rfl
  simp only [hne]
  exact List.mem_append_left _ (List.mem_map.mpr ⟨n, (mem_sortStr n frs).mpr h, rfl⟩)

theorem mem_classBases {frs eb : List String} {b : String} (h : b ∈ classBases frs eb) :
    b = "BaseModel" ∨ (∃ n ∈ frs, b = pascal n) ∨ b ∈ eb := by
  unfold classBases at h
  rcases List.mem_append.mp h with h | h
  · split at h
    · exact Or.inl (by simpa using h)
    · obtain ⟨n, hn, rfl⟩ := List.mem_map.mp h
      exact Or.inr (Or.inl ⟨n, (mem_sortStr n frs).mp hn, rfl⟩)
  · exact Or.inr (Or.inr h)

/-- the extra bases are appended after the fragment bases, in the order given -/
theorem classBases_suffix (frs eb : List String) : ∃ fragPart, classBases frs eb = fragPart ++ eb ∧
    (fragPart = ["BaseModel"] ∨ fragPart = (sortStr frs).map pascal) := by
  unfold classBases
  split
  · exact ⟨_, rfl, Or.inl rfl⟩
  · exact ⟨_, rfl, Or.inr rfl⟩

/-! ### the class a `_parse_type_definition` call creates -/

theorem classTail_ok (env : Env) (fuel : Nat) (cn tn : String) (tv eb frs : List String) (resolved : List RField)
    (s : St) (cs : List ClassDecl) (s' : St) (h : classTail env fuel cn tn tv eb frs resolved s = .ok (cs, s')) :
    ∃ acc : FAcc, forIn resolved (([], []) : FAcc) (fieldBody env fuel cn tn tv) s = .ok (acc, s') ∧
      cs = { name := cn, bases := classBases frs eb, fields := acc.1 } :: acc.2 := by
  unfold classTail at h
  obtain ⟨acc, s1, h1, h2⟩ := (ok_bind _ _ _ _ _).mp h
  obtain ⟨rfl, rfl⟩ := (ok_pure _ _ _ _).mp h2
  exact ⟨acc, h1, rfl⟩

/-- the state in which the field loop of a `_parse_type_definition` call starts -/
def afterTypename (a : Bool) (sid : Nat) (resolved0 : List RField) (st : St) : St :=
  if a && !(resolved0.any (·.name == typenameField)) then
    { st with marks := if st.marks.contains sid then st.marks else st.marks ++ [sid] }
  else st

/-- a `_parse_type_definition` call for a class name not yet generated: what it runs and what it returns -/
theorem parseTypeDefinition_unfold (env : Env) (fuel : Nat) (cn tn : String) (sid : Nat) (sel : List Selection) (a : Bool)
    (eb tv : List String) (st : St) (cs : List ClassDecl) (st' : St)
    (h : parseTypeDefinition env fuel cn tn sid sel a eb tv st = .ok (cs, st'))
    (hfresh : st.publicNames.contains cn = false) :
    ∃ (x : Acc) (st1 : St) (resolved : List RField) (acc : FAcc) (fuel' : Nat), fuel = fuel' + 1 ∧
      resolve env fuel sel tn { st with publicNames := st.publicNames ++ [cn] } = .ok (x, st1) ∧
      forIn resolved (([], []) : FAcc) (fieldBody env fuel' cn tn tv)
        (afterTypename a sid (if st1.marks.contains sid then typenameRField :: x.1 else x.1) st1) = .ok (acc, st') ∧
      cs = { name := cn, bases := classBases x.2 eb, fields := acc.1 } :: acc.2 ∧
      (∀ f ∈ resolved, f = typenameRField ∨ f ∈ x.1) := by
  cases fuel with
  | zero =>
    rw [parseTypeDefinition_zero] at h
    exact ((ok_err _ _ _).mp h).elim
  | succ fuel =>
    rw [parseTypeDefinition_succ] at h
    obtain ⟨st0, s0, h0, hA⟩ := (ok_bind _ _ _ _ _).mp h
    obtain ⟨e1, e2⟩ := (ok_get _ _ _).mp h0
    subst e1 e2
    rw [if_neg (by rw [hfresh]; exact Bool.false_ne_true)] at hA
    obtain ⟨u, s1, h1, hB⟩ := (ok_bind _ _ _ _ _).mp hA
    have hs1 := (ok_modify _ _ _ _).mp h1
    subst hs1
    obtain ⟨x, s2, h2, hC⟩ := (ok_bind _ _ _ _ _).mp hB
    obtain ⟨st1, s3, h3, hD⟩ := (ok_bind _ _ _ _ _).mp hC
    obtain ⟨e3, e4⟩ := (ok_get _ _ _).mp h3
    subst e3 e4
    by_cases hc : (a && !((if s3.marks.contains sid then typenameRField :: x.1 else x.1).any (·.name == typenameField))) = true
    · simp only [hc, if_true] at hD
      obtain ⟨u2, s4, h4, hE⟩ := (ok_bind _ _ _ _ _).mp hD
      have hs4 := (ok_modify _ _ _ _).mp h4
      subst hs4
      obtain ⟨acc, hl, hcs⟩ := classTail_ok _ _ _ _ _ _ _ _ _ _ _ hE
      refine ⟨x, s3, typenameRField :: (if s3.marks.contains sid then typenameRField :: x.1 else x.1), acc, fuel, rfl, h2, ?_, hcs, ?_⟩
      · have hst : afterTypename a sid (if s3.marks.contains sid then typenameRField :: x.1 else x.1) s3 =
            { s3 with marks := if s3.marks.contains sid then s3.marks else s3.marks ++ [sid] } := by
          unfold afterTypename; rw [if_pos hc]
        rw [hst]; exact hl
      · intro f hf
        rcases List.mem_cons.mp hf with rfl | hf
        · exact Or.inl rfl
        · split at hf
          · rcases List.mem_cons.mp hf with rfl | hf
            · exact Or.inl rfl
            · exact Or.inr hf
          · exact Or.inr hf
    · simp only [hc] at hD
      obtain ⟨acc, hl, hcs⟩ := classTail_ok _ _ _ _ _ _ _ _ _ _ _ hD
      refine ⟨x, s3, (if s3.marks.contains sid then typenameRField :: x.1 else x.1), acc, fuel, rfl, h2, ?_, hcs, ?_⟩
      · have hst : afterTypename a sid (if s3.marks.contains sid then typenameRField :: x.1 else x.1) s3 = s3 := by
          unfold afterTypename; rw [if_neg hc]
        rw [hst]; exact hl
      · intro f hf
        split at hf
        · rcases List.mem_cons.mp hf with rfl | hf
          · exact Or.inl rfl
          · exact Or.inr hf
        · exact Or.inr hf

theorem parseTypeDefinition_seen (env : Env) (fuel : Nat) (cn tn : String) (sid : Nat) (sel : List Selection) (a : Bool)
    (eb tv : List String) (st : St) (cs : List ClassDecl) (st' : St)
    (h : parseTypeDefinition env fuel cn tn sid sel a eb tv st = .ok (cs, st'))
    (hseen : st.publicNames.contains cn = true) : cs = [] ∧ st' = st := by
  cases fuel with
  | zero =>
    rw [parseTypeDefinition_zero] at h
    exact ((ok_err _ _ _).mp h).elim
  | succ fuel =>
    rw [parseTypeDefinition_succ] at h
    obtain ⟨st0, s0, h0, hA⟩ := (ok_bind _ _ _ _ _).mp h
    obtain ⟨e1, e2⟩ := (ok_get _ _ _).mp h0
    subst e1 e2
    rw [if_pos hseen] at hA
    obtain ⟨e3, e4⟩ := (ok_pure _ _ _ _).mp hA
    exact ⟨e3.symm, e4.symm⟩

/-! ### every base of every generated class is accounted for; only fragments with a class of their own are inherited -/

/-- a name in a class's base list is `BaseModel`, the class of a fragment recorded in
    `_fragments_used_as_mixins`, or a class imported because of a `@mixin` directive -/
def Accounted (st : St) (b : String) : Prop :=
  b = "BaseModel" ∨ (∃ n ∈ st.mixins, b = pascal n) ∨ (∃ p ∈ st.mixinImports, b = p.2)

def BasesOK (st : St) (cs : List ClassDecl) : Prop := ∀ c ∈ cs, ∀ b ∈ c.bases, Accounted st b

/-- the extra bases handed to a call have been imported -/
def Imported (st : St) (eb : List String) : Prop := ∀ b ∈ eb, ∃ p ∈ st.mixinImports, b = p.2

/-- the two sets the property looks at only grow, and stay inside the fragments that get a class -/
structure Grow (env : Env) (st st' : St) : Prop where
  mixins : ∀ n ∈ st.mixins, n ∈ st'.mixins
  imports : ∀ p ∈ st.mixinImports, p ∈ st'.mixinImports
  good : (∀ n ∈ st.mixins, GoodMixin env n) → ∀ n ∈ st'.mixins, GoodMixin env n

theorem Grow.refl (env : Env) (st : St) : Grow env st st := ⟨fun _ h => h, fun _ h => h, fun h => h⟩

theorem Grow.trans {env : Env} {a b c : St} (h₁ : Grow env a b) (h₂ : Grow env b c) : Grow env a c :=
  ⟨fun n h => h₂.mixins n (h₁.mixins n h), fun p h => h₂.imports p (h₁.imports p h), fun h => h₂.good (h₁.good h)⟩

theorem Grow.of_eq {env : Env} {a b : St} (hm : b.mixins = a.mixins) (hi : b.mixinImports = a.mixinImports) : Grow env a b :=
  ⟨fun n h => hm ▸ h, fun p h => hi ▸ h, fun h n hn => h n (hm ▸ hn)⟩

theorem Accounted.mono {env : Env} {st st' : St} (g : Grow env st st') {b : String} (h : Accounted st b) : Accounted st' b := by
  rcases h with h | ⟨n, hn, rfl⟩ | ⟨p, hp, rfl⟩
  · exact Or.inl h
  · exact Or.inr (Or.inl ⟨n, g.mixins n hn, rfl⟩)
  · exact Or.inr (Or.inr ⟨p, g.imports p hp, rfl⟩)

theorem BasesOK.mono {env : Env} {st st' : St} (g : Grow env st st') {cs : List ClassDecl} (h : BasesOK st cs) : BasesOK st' cs :=
  fun c hc b hb => (h c hc b hb).mono g

theorem Imported.mono {env : Env} {st st' : St} (g : Grow env st st') {eb : List String} (h : Imported st eb) : Imported st' eb :=
  fun b hb => let ⟨p, hp, e⟩ := h b hb; ⟨p, g.imports p hp, e⟩

theorem BasesOK.append {st : St} {a b : List ClassDecl} (ha : BasesOK st a) (hb : BasesOK st b) : BasesOK st (a ++ b) := by
  intro c hc
  rcases List.mem_append.mp hc with h | h
  · exact ha c h
  · exact hb c h

theorem afterTypename_mixins (a : Bool) (sid : Nat) (r : List RField) (st : St) :
    (afterTypename a sid r st).mixins = st.mixins ∧ (afterTypename a sid r st).mixinImports = st.mixinImports ∧
    (afterTypename a sid r st).publicNames = st.publicNames := by
  unfold afterTypename
  split <;> exact ⟨rfl, rfl, rfl⟩

theorem Grow.of_resolve {env : Env} {st : St} {x : Acc} {st' : St} (sp : RSpec env st x st') : Grow env st st' :=
  ⟨fun n h => (sp.mixins n).mpr (Or.inl h), fun p h => sp.frame.mixinImports ▸ h,
   fun h n hn => by
    rcases (sp.mixins n).mp hn with h' | h'
    · exact h n h'
    · exact sp.good n h'⟩

theorem Grow.of_mixinBases {env : Env} (st : St) (ps : List (String × String)) : Grow env st (addImports st ps) :=
  ⟨fun _ h => h, fun p h => List.mem_append_left _ h, fun h => h⟩

/-- one iteration of the field loop of `_parse_type_definition` -/
theorem fieldBody_ok (env : Env) (fuel : Nat)
    (ihQ : ∀ sid sel ctx eb st cs st', Imported st eb → parseFieldSelectionSetTypes env fuel sid sel ctx eb st = .ok (cs, st') →
      Grow env st st' ∧ BasesOK st' cs)
    (cn tn : String) (tv : List String) (f : RField) (acc : FAcc) (s : St) (r : ForInStep FAcc) (s' : St)
    (h : fieldBody env fuel cn tn tv f acc s = .ok (r, s')) :
    ∃ (fd : FieldDecl) (more : List ClassDecl), r = .yield (acc.1 ++ [fd], acc.2 ++ more) ∧ Grow env s s' ∧ BasesOK s' more := by
  unfold fieldBody at h
  obtain ⟨t, s1, h1, hA⟩ := (ok_bind _ _ _ _ _).mp h
  obtain ⟨_, e1⟩ := (ok_liftExcept _ _ _ _).mp h1
  subst e1
  obtain ⟨x, s2, h2, hB⟩ := (ok_bind _ _ _ _ _).mp hA
  obtain ⟨_, e2⟩ := (ok_liftExcept _ _ _ _).mp h2
  subst e2
  obtain ⟨fb, s3, h3, hC⟩ := (ok_bind _ _ _ _ _).mp hB
  obtain ⟨hfb, hs3⟩ := mixinBases_spec _ _ _ _ h3
  obtain ⟨more, s4, h4, hD⟩ := (ok_bind _ _ _ _ _).mp hC
  obtain ⟨u, s5, h5, hE⟩ := (ok_bind _ _ _ _ _).mp hD
  have hs5 := (ok_modify _ _ _ _).mp h5
  obtain ⟨e3, e4⟩ := (ok_pure _ _ _ _).mp hE
  have himp : Imported s3 fb := by
    intro b hb
    rw [hfb] at hb
    obtain ⟨p, hp, rfl⟩ := List.mem_map.mp hb
    exact ⟨p, by rw [hs3]; exact List.mem_append_right _ hp, rfl⟩
  obtain ⟨g4, b4⟩ := ihQ _ _ _ _ _ _ _ himp h4
  have g3 : Grow env s2 s3 := hs3 ▸ Grow.of_mixinBases s2 _
  have g5 : Grow env s4 s5 := by rw [hs5]; exact Grow.of_eq rfl rfl
  refine ⟨_, more, e3.symm, ?_, ?_⟩
  · rw [← e4]; exact (g3.trans g4).trans g5
  · rw [← e4]; exact b4.mono g5

/-- **invariants of the class-producing recursion** (any fuel, any state): the mixin set and the import list
    only grow, inherited fragments all get a class of their own, every base of every produced class is
    accounted for -/
theorem parse_spec (env : Env) : ∀ fuel : Nat,
    (∀ cn tn sid sel a eb tv st cs st', Imported st eb →
      parseTypeDefinition env fuel cn tn sid sel a eb tv st = .ok (cs, st') → Grow env st st' ∧ BasesOK st' cs) ∧
    (∀ sid sel ctx eb st cs st', Imported st eb →
      parseFieldSelectionSetTypes env fuel sid sel ctx eb st = .ok (cs, st') → Grow env st st' ∧ BasesOK st' cs)
  | 0 => by
    constructor
    · intro cn tn sid sel a eb tv st cs st' _ h
      rw [parseTypeDefinition_zero] at h
      exact ((ok_err _ _ _).mp h).elim
    · intro sid sel ctx eb st cs st' _ h
      rw [parseFieldSelectionSetTypes_zero] at h
      exact ((ok_err _ _ _).mp h).elim
  | fuel + 1 => by
    obtain ⟨ihP, ihQ⟩ := parse_spec env fuel
    constructor
    · intro cn tn sid sel a eb tv st cs st' himp h
      cases hseen : st.publicNames.contains cn with
      | true =>
        obtain ⟨rfl, rfl⟩ := parseTypeDefinition_seen _ _ _ _ _ _ _ _ _ _ _ _ h hseen
        exact ⟨Grow.refl _ _, fun c hc => by cases hc⟩
      | false =>
        obtain ⟨x, st1, resolved, acc, fuel', hfu, hres, hloop, hcs, _⟩ := parseTypeDefinition_unfold _ _ _ _ _ _ _ _ _ _ _ _ h hseen
        have hfu' : fuel' = fuel := by omega
        subst hfu'
        have sp := resolve_spec env _ _ _ _ _ _ hres
        have g1 : Grow env st st1 := (Grow.of_eq (env := env) (a := st) (b := { st with publicNames := st.publicNames ++ [cn] }) rfl rfl).trans (Grow.of_resolve sp)
        have hat := afterTypename_mixins a sid (if st1.marks.contains sid then typenameRField :: x.1 else x.1) st1
        have g2 : Grow env st1 (afterTypename a sid (if st1.marks.contains sid then typenameRField :: x.1 else x.1) st1) :=
          Grow.of_eq hat.1 hat.2.1
        have inv := forIn_ok_inv
          (fun (b : FAcc) (s : St) => Grow env (afterTypename a sid (if st1.marks.contains sid then typenameRField :: x.1 else x.1) st1) s ∧ BasesOK s b.2)
          (fieldBody env fuel' cn tn tv) resolved ([], []) _ acc st'
          (by
            intro f _ b s r s' ⟨hg, hb⟩ hr
            obtain ⟨fd, more, rfl, g, bm⟩ := fieldBody_ok env fuel' ihQ cn tn tv f b s r s' hr
            exact ⟨hg.trans g, (hb.mono g).append bm⟩)
          ⟨Grow.refl _ _, fun c hc => by cases hc⟩ hloop
        obtain ⟨g3, b3⟩ := inv
        have gAll : Grow env st st' := (g1.trans g2).trans g3
        refine ⟨gAll, ?_⟩
        rw [hcs]
        intro c hc
        rcases List.mem_cons.mp hc with rfl | hc
        · intro b hb
          rcases mem_classBases hb with h1 | ⟨n, hn, rfl⟩ | h3
          · exact Or.inl h1
          · exact Or.inr (Or.inl ⟨n, (g2.trans g3).mixins n ((sp.mixins n).mpr (Or.inr hn)), rfl⟩)
          · obtain ⟨p, hp, e⟩ := himp b h3
            exact Or.inr (Or.inr ⟨p, gAll.imports p hp, e⟩)
        · exact b3 c hc
    · intro sid sel ctx eb st cs st' himp h
      rw [parseFieldSelectionSetTypes_succ] at h
      by_cases hemp : sel.isEmpty = true
      · rw [if_pos hemp] at h
        obtain ⟨e1, e2⟩ := (ok_pure _ _ _ _).mp h
        subst e1 e2
        exact ⟨Grow.refl _ _, fun c hc => by cases hc⟩
      · rw [if_neg hemp] at h
        obtain ⟨acc, s1, h1, h2⟩ := (ok_bind _ _ _ _ _).mp h
        obtain ⟨e1, e2⟩ := (ok_pure _ _ _ _).mp h2
        subst e1 e2
        exact forIn_ok_inv (fun (b : List ClassDecl) (s : St) => Grow env st s ∧ BasesOK s b)
          (relatedBody env fuel sid sel ctx eb) ctx.related [] st acc s1
          (by
            intro rc _ b s r s' ⟨hg, hb⟩ hr
            unfold relatedBody at hr
            obtain ⟨cs1, s2, h3, h4⟩ := (ok_bind _ _ _ _ _).mp hr
            obtain ⟨e3, e4⟩ := (ok_pure _ _ _ _).mp h4
            subst e3 e4
            obtain ⟨g, bm⟩ := ihP _ _ _ _ _ _ _ _ _ _ (himp.mono hg) h3
            exact ⟨hg.trans g, (hb.mono g).append bm⟩)
          ⟨Grow.refl _ _, fun c hc => by cases hc⟩ h1

end Ariadne.ResultTypes
