/-
  Proofs/C01BridgeAbs.lean — property C01: the abstract-positions tier (Proofs/C01Abs.lean) carried to the pipeline
  statement `claimB`:   ValidInput inp → AbsInput inp → nodupKeys j → claimB inp k j = true.

  `AbsInput inp` (decidable):
    * the document has no fragment definitions; `schemaOK`; `NoCondTypename` (named separately: it is the trigger of the new
      finding "conditional `__typename`"; `AbsOK` implies it for the operations);
    * the operations, IN ORDER, with the marks threaded as `PackageGenerator` does (`absOpsOK`): operation `i` has a name and
      a root type, no `@mixin`, satisfies `AbsOK` for its root class in the generator state whose marks are those left by
      operations `0..i-1` (`needSids` of each), `NoShadowedImport`, and the fuel bounds `agfuel sel ≤ Triggers01.fuel`
      (generator, 100000), `agfuel sel ≤ execFuel` (executor, 1000), `avneed … + 4 ≤ execFuel` (validation, 1000).
  The document of operation `k` is sent with the marks accumulated up to and including operation `k`.
-/
import AriadneModel.Proofs.C01Abs
import AriadneModel.Proofs.C01BridgePlain

set_option linter.unusedSimpArgs false
set_option linter.unusedVariables false

namespace Ariadne.C01
open Ariadne Ariadne.Gql Ariadne.ResultTypes Ariadne.Util Ariadne.Pyd Ariadne.Triggers01 Ariadne.C01Plain Ariadne.C01Abs

/-! ### `AbsOK` depends on the marks only as a set -/

theorem contains_congr {ms ms' : List Nat} (h : ∀ m, m ∈ ms ↔ m ∈ ms') : ms.contains = ms'.contains := by
  funext m
  cases hc : ms'.contains m with
  | true => simpa using (h m).mpr (by simpa using hc)
  | false =>
    have : m ∉ ms' := by simpa using hc
    simpa using fun hm => this ((h m).mp hm)

theorem AbsOK_congr (env : ResultTypes.Env) (cn tn : String) (sid : Nat) (sel : List Selection) (ms ms' : List Nat)
    (h : ∀ m, m ∈ ms ↔ m ∈ ms') :
    AbsOK env cn tn sid sel { marks := ms } = AbsOK env cn tn sid sel { marks := ms' } := by
  have : (ms ++ needSids env cn tn sel).contains = (ms' ++ needSids env cn tn sel).contains :=
    contains_congr (fun m => by simp [List.mem_append, h m])
  have e2 : (ms ++ needSids env cn tn sel).contains sid = (ms' ++ needSids env cn tn sel).contains sid := congrFun this sid
  simp only [AbsOK, this, e2]

theorem absOpOK_congr (env : ResultTypes.Env) (K F : Nat) (o : Operation) (ms ms' : List Nat) (h : ∀ m, m ∈ ms ↔ m ∈ ms') :
    absOpOK env K F o ms = absOpOK env K F o ms' := by
  unfold absOpOK
  cases o.name with
  | none => rfl
  | some n =>
    cases Validate.rootOf env.schema o with
    | none => rfl
    | some tn => simp only [AbsOK_congr env (pascal n) tn o.sid o.sel ms ms' h]

theorem opMarks_congr (env : ResultTypes.Env) (o : Operation) (ms ms' : List Nat) (h : ∀ m, m ∈ ms ↔ m ∈ ms') :
    ∀ m, m ∈ opMarks env o ms ↔ m ∈ opMarks env o ms' := by
  intro m
  unfold opMarks
  cases o.name with
  | none => exact h m
  | some n =>
    cases Validate.rootOf env.schema o with
    | none => exact h m
    | some tn => simp [List.mem_append, h m]

theorem absOpsOK_congr (env : ResultTypes.Env) (K F : Nat) : ∀ (ops : List Operation) (ms ms' : List Nat), (∀ m, m ∈ ms ↔ m ∈ ms') →
    absOpsOK env K F ops ms = absOpsOK env K F ops ms'
  | [], _, _, _ => rfl
  | o :: rest, ms, ms', h => by
    simp only [absOpsOK, absOpOK_congr env K F o ms ms' h,
      absOpsOK_congr env K F rest _ _ (opMarks_congr env o ms ms' h)]

/-! ### one operation -/

theorem absOpOK_spec {env : ResultTypes.Env} {K F : Nat} {o : Operation} {ms : List Nat} (h : absOpOK env K F o ms = true) :
    ∃ n tn, o.name = some n ∧ Validate.rootOf env.schema o = some tn ∧
      (o.dirs.any (·.name == Tables.mixinName)) = false ∧
      AbsOK env (pascal n) tn o.sid o.sel { marks := ms } = true ∧
      "BaseModel" ∉ (aClass env (pascal n) tn [] false o.sel).map (·.name) ∧
      agfuel o.sel ≤ Triggers01.fuel ∧ agfuel o.sel + K ≤ execFuel ∧ avneed env (pascal n) tn o.sel + 4 + F ≤ execFuel ∧
      opMarks env o ms = ms ++ needSids env (pascal n) tn o.sel := by
  unfold absOpOK at h
  cases hn : o.name with
  | none => simp [hn] at h
  | some n =>
    cases hr : Validate.rootOf env.schema o with
    | none => simp [hn, hr] at h
    | some tn =>
      simp only [hn, hr, Bool.and_eq_true, Bool.not_eq_true', decide_eq_true_eq] at h
      obtain ⟨⟨⟨⟨⟨h1, h2⟩, h3⟩, h4⟩, h5⟩, h6⟩ := h
      exact ⟨n, tn, rfl, rfl, h1, h2, NoShadowedImport_baseModel h3, h4, h5, h6, by simp [opMarks, hn, hr]⟩

theorem generate_abs (env : ResultTypes.Env) (K : Nat) (hfr : C01Mix.FragsOK env K) (o : Operation) (n tn : String) (ms : List Nat)
    (hn : o.name = some n) (hroot : Validate.rootOf env.schema o = some tn)
    (hmix : (o.dirs.any (·.name == Tables.mixinName)) = false)
    (hok : AbsOK env (pascal n) tn o.sid o.sel { marks := ms } = true) (fuel : Nat) (hf : agfuel o.sel ≤ fuel) :
    ∃ out, generate env fuel (.op o) ms = .ok out ∧
      (∀ m, m ∈ out.st.marks ↔ m ∈ ms ++ needSids env (pascal n) tn o.sel) ∧
      out.classes = aClass env (pascal n) tn [] false o.sel ∧ out.st.unpacked = [] := by
  obtain ⟨st', hgen, _, hmk, hup⟩ := abs_generation env K hfr (pascal n) tn o.sid o.sel { marks := ms } hok fuel hf
  refine ⟨{ classes := aClass env (pascal n) tn [] false o.sel,
            rebuild := ((aClass env (pascal n) tn [] false o.sel).filter classHasForwardRefs).map (·.name), st := st' }, ?_, hmk, rfl, hup⟩
  rw [generate_op env fuel o n ms hn]
  have hrun : ((ResultTypes.liftExcept (operationTypeName env (.op o)) >>= fun tn =>
              mixinBases o.dirs >>= fun bases =>
              parseTypeDefinition env fuel (pascal n) tn o.sid o.sel false bases []) : M (List ClassDecl))
            { marks := ms } = .ok (aClass env (pascal n) tn [] false o.sel, st') := by
    refine run_bind (a := tn) (s' := { marks := ms }) (by rw [operationTypeName_rootOf env o tn hroot]; rfl) ?_
    refine run_bind (mixinBases_none o.dirs _ hmix) ?_
    exact hgen
  rw [hrun]

/-! ### the operations in order -/

theorem runOps_abs (env : ResultTypes.Env) (K F : Nat) (hfr : C01Mix.FragsOK env K) : ∀ (ops : List Operation) (ms msS : List Nat),
    (∀ m, m ∈ ms ↔ m ∈ msS) → absOpsOK env K F ops msS = true →
    ∀ (k : Nat) (o : Operation), ops[k]? = some o →
      ∃ out mk, (runOps env ops ms)[k]? = some (.ok out) ∧ absOpOK env K F o mk = true ∧ out.st.unpacked = [] ∧
        (∀ m, m ∈ out.st.marks ↔ m ∈ opMarks env o mk) ∧
        (∀ n tn, o.name = some n → Validate.rootOf env.schema o = some tn →
          out.classes = aClass env (pascal n) tn [] false o.sel) ∧
        (∀ m ∈ ms, m ∈ out.st.marks) ∧
        (∀ r ∈ (runOps env ops ms).take (k + 1), ∀ out', r = .ok out' → ∀ m ∈ out'.st.marks, m ∈ out.st.marks)
  | [], _, _, _, _, k, o, hk => by simp at hk
  | o0 :: rest, ms, msS, hms, hok, k, o, hk => by
    simp only [absOpsOK, Bool.and_eq_true] at hok
    obtain ⟨hok0, hokr⟩ := hok
    have hok0' : absOpOK env K F o0 ms = true := by rw [absOpOK_congr env K F o0 ms msS hms]; exact hok0
    obtain ⟨n, tn, hn, hr, hmix, habs, _, hgf, _, _, hom⟩ := absOpOK_spec hok0'
    obtain ⟨out0, hgen, hmk0, hcl0, hup0⟩ := generate_abs env K hfr o0 n tn ms hn hr hmix habs _ hgf
    have hnext : ∀ m, m ∈ out0.st.marks ↔ m ∈ opMarks env o0 msS := by
      intro m
      rw [hmk0 m, ← hom]
      exact opMarks_congr env o0 ms msS hms m
    have hrun : runOps env (o0 :: rest) ms = .ok out0 :: runOps env rest out0.st.marks := by
      simp only [runOps, hgen]
    cases k with
    | zero =>
      have : o = o0 := by simpa using hk.symm
      subst this
      refine ⟨out0, ms, by rw [hrun]; rfl, hok0', hup0, by intro m; rw [hmk0 m, hom], ?_, ?_, ?_⟩
      · intro n' tn' hn' hr'
        rw [hn] at hn'; rw [hr] at hr'
        cases hn'; cases hr'
        exact hcl0
      · intro m hm; exact (hmk0 m).mpr (List.mem_append_left _ hm)
      · intro r hr' out' he m hm
        rw [hrun] at hr'
        simp only [List.take_succ_cons, List.take_zero, List.mem_singleton] at hr'
        rw [hr'] at he
        cases he
        exact hm
    | succ k =>
      have hk' : rest[k]? = some o := by simpa using hk
      obtain ⟨out, mk, h1, h2, hu, h3, hc, h4, h5⟩ := runOps_abs env K F hfr rest out0.st.marks (opMarks env o0 msS) hnext hokr k o hk'
      refine ⟨out, mk, by rw [hrun]; simpa using h1, h2, hu, h3, hc, ?_, ?_⟩
      · intro m hm
        exact h4 m ((hmk0 m).mpr (List.mem_append_left _ hm))
      · intro r hr' out' he m hm
        rw [hrun, List.take_succ_cons] at hr'
        rcases List.mem_cons.mp hr' with hr'' | hr''
        · rw [hr''] at he
          cases he
          exact h4 m hm
        · exact h5 r hr'' out' he m hm

theorem mem_marksAfter (rs : List (Except GenErr ModuleOut)) (m : Nat) :
    m ∈ marksAfter rs ↔ ∃ out, .ok out ∈ rs ∧ m ∈ out.st.marks := by
  unfold marksAfter
  suffices H : ∀ (rs : List (Except GenErr ModuleOut)) (acc : List Nat),
      m ∈ rs.foldl (fun acc r => match r with
        | .ok out => out.st.marks.foldl (fun a m => if a.contains m then a else a ++ [m]) acc
        | .error _ => acc) acc ↔ m ∈ acc ∨ ∃ out, .ok out ∈ rs ∧ m ∈ out.st.marks by
    have := H rs []
    simp only [List.not_mem_nil, false_or] at this
    exact this
  have hin : ∀ (l acc : List Nat), m ∈ l.foldl (fun a m => if a.contains m then a else a ++ [m]) acc ↔ m ∈ acc ∨ m ∈ l := by
    intro l
    induction l with
    | nil => intro acc; simp
    | cons x xs ih =>
      intro acc
      rw [List.foldl_cons, ih]
      by_cases hx : x ∈ acc
      · have hc : acc.contains x = true := by simpa using hx
        simp only [hc, if_true, List.mem_cons]
        constructor
        · rintro (h | h)
          · exact Or.inl h
          · exact Or.inr (Or.inr h)
        · rintro (h | h | h)
          · exact Or.inl h
          · exact Or.inl (h ▸ hx)
          · exact Or.inr h
      · have hc : acc.contains x = false := by simpa using hx
        simp only [hc, Bool.false_eq_true, if_false, List.mem_append, List.mem_cons, List.not_mem_nil, or_false]
        constructor
        · rintro ((h | h) | h)
          · exact Or.inl h
          · exact Or.inr (Or.inl h)
          · exact Or.inr (Or.inr h)
        · rintro (h | h | h)
          · exact Or.inl (Or.inl h)
          · exact Or.inl (Or.inr h)
          · exact Or.inr h
  intro rs
  induction rs with
  | nil => intro acc; simp
  | cons r rest ih =>
    intro acc
    rw [List.foldl_cons, ih]
    cases r with
    | error e =>
      simp only [List.mem_cons]
      constructor
      · rintro (h | ⟨out, ho, hm⟩)
        · exact Or.inl h
        · exact Or.inr ⟨out, Or.inr ho, hm⟩
      · rintro (h | ⟨out, ho | ho, hm⟩)
        · exact Or.inl h
        · cases ho
        · exact Or.inr ⟨out, ho, hm⟩
    | ok out0 =>
      simp only [hin, List.mem_cons]
      constructor
      · rintro ((h | h) | ⟨out, ho, hm⟩)
        · exact Or.inl h
        · exact Or.inr ⟨out0, Or.inl rfl, h⟩
        · exact Or.inr ⟨out, Or.inr ho, hm⟩
      · rintro (h | ⟨out, ho | ho, hm⟩)
        · exact Or.inl (Or.inl h)
        · cases ho
          exact Or.inl (Or.inr hm)
        · exact Or.inr ⟨out, ho, hm⟩

/-- **the abstract-positions tier on the pipeline** -/
theorem claimB_abs (inp : Input) (k : Nat) (j : J) (hp : AbsInput inp) (hj : nodupKeys j = true) :
    claimB inp k j = true := by
  simp only [AbsInput, Bool.and_eq_true, List.isEmpty_iff] at hp
  obtain ⟨⟨⟨hfr, hschema⟩, _⟩, hops⟩ := hp
  have hrunfrags : (run inp).frags = [] := by
    show (sortStr (inp.env.frags.map (·.name))).filterMap _ = []
    rw [hfr]; rfl
  have hrunops : (run inp).ops = runOps inp.env inp.ops [] := rfl
  unfold claimB
  simp only []
  cases hk : inp.ops[k]? with
  | none =>
    have hlen : (runOps inp.env inp.ops []).length = inp.ops.length := by
      suffices H : ∀ (ops : List Operation) (ms : List Nat), (runOps inp.env ops ms).length = ops.length from H _ _
      intro ops
      induction ops with
      | nil => intro ms; rfl
      | cons o rest ih => intro ms; simp [runOps, ih]
    have : (run inp).ops[k]? = none := by
      rw [hrunops, List.getElem?_eq_none_iff, hlen]
      exact List.getElem?_eq_none_iff.mp hk
    simp only [this]
  | some o =>
    have hfr0 : C01Mix.FragsOK inp.env 0 := by intro f hf; rw [hfr] at hf; cases hf
    obtain ⟨out, mk, hk', hok, _, hmarks, hclass, _, hmono⟩ := runOps_abs inp.env 0 0 hfr0 inp.ops [] [] (fun m => Iff.rfl) hops k o hk
    obtain ⟨n, tn, hn, hr, hmix, habs, hbm, hgf, hef, hvf, hom⟩ := absOpOK_spec hok
    -- `out` is what `generate` returned for operation `k`, hence its classes are `aClass`
    have hcls : out.classes = aClass inp.env (pascal n) tn [] false o.sel ∧
        (∀ m, m ∈ marksAfter ((run inp).ops.take (k + 1)) ↔ m ∈ sentMarks inp.env (pascal n) tn o.sel { marks := mk }) := by
      refine ⟨hclass n tn hn hr, fun m => ?_⟩
      rw [hrunops, mem_marksAfter]
      unfold sentMarks
      simp only []
      rw [← hom, ← hmarks m]
      constructor
      · rintro ⟨out', ho', hm'⟩
        exact hmono _ ho' out' rfl m hm'
      · intro hm'
        refine ⟨out, ?_, hm'⟩
        apply List.mem_of_getElem? (i := k)
        rw [List.getElem?_take]
        simp [hk']
    obtain ⟨hcl, hM⟩ := hcls
    rw [hrunops] at *
    simp only [hk', hcl, aClass, List.head?_cons, hr]
    cases hresp : Exec.respOK inp.env.schema (inp.env.frags.map (Marks.applyFrag (marksAfter ((runOps inp.env inp.ops []).take (k + 1)))))
        execFuel tn (Marks.applyOp (marksAfter ((runOps inp.env inp.ops []).take (k + 1))) o).sel j with
    | false => simp
    | true =>
      have hpenvcls : (pydEnvOf inp (run inp) out).classes = aClass inp.env (pascal n) tn [] false o.sel := by
        simp only [pydEnvOf, hrunfrags, List.foldl_nil, List.append_nil, hcl]
      have hnd := (AbsOK_spec habs).2.2.2.1
      have hpenv : PenvOK inp.env (pydEnvOf inp (run inp) out) (aClass inp.env (pascal n) tn [] false o.sel) := by
        refine PenvOK.of_nodup _ _ _ (envAgrees_of_schemaOK inp.env _ hschema rfl) ?_ ?_ ?_
        · apply class?_none_of_not_mem
          rw [hpenvcls]; exact hbm
        · intro c hc; rw [hpenvcls]; exact hc
        · rw [hpenvcls]; exact hnd
      have hfrs : inp.env.frags.map (Marks.applyFrag (marksAfter ((runOps inp.env inp.ops []).take (k + 1)))) = inp.env.frags := by
        rw [hfr]; rfl
      rw [hfrs] at hresp
      obtain ⟨v, hv, he⟩ := abs_roundtrip inp.env 0 0 (pascal n) tn o.sid o.sel { marks := mk } habs _
        (GH.of_nofrags inp.env _ hfr hpenv.agrees hpenv.noBaseModel (by rw [hpenvcls]; simp [aClass])) hpenv.has
        (marksAfter ((runOps inp.env inp.ops []).take (k + 1))) hM execFuel hef j hresp hj execFuel hvf
      simp only [Bool.not_true, Bool.false_or]
      have : Pyd.validate (pydEnvOf inp (run inp) out) execFuel (.cls (pascal n)) j = .ok v := hv
      rw [this]
      exact he

/-- non-vacuity: two operations, both with abstract positions (interface with inline fragments, list of union, interface below an
    object below an interface); the answer of the first is the one of Proofs/C01Abs.lean, conformant for the document as sent -/
def abInp : Input :=
  { env := C01Abs.axEnv,
    ops := [{ kind := .query, name := some "Q", sid := 1, sel := C01Abs.axSel },
            { kind := .query, name := some "Other", sid := 20,
              sel := [.field none "search" [] 21 [.inline (some "Post") [] 22 [.field none "author" [] 23 [.field none "pet" [] 24
                [.field none "id" [] 0 []]]]]] }] }
theorem abInp_nonvacuous : ValidInput abInp ∧ AbsInput abInp ∧ nodupKeys C01Abs.axResp = true
    ∧ marksAfter ((run abInp).ops.take 1) = [2, 7] ∧ marksAfter ((run abInp).ops.take 2) = [2, 7, 21, 24]
    ∧ Exec.respOK abInp.env.schema [] execFuel "Query" (Marks.applySels [2, 7] C01Abs.axSel) C01Abs.axResp = true
    ∧ claimB abInp 0 C01Abs.axResp = true := by decide +kernel



end Ariadne.C01
