/-
  Proofs/OrderClient.lean — the client strategy as one pipeline (Model/OrderClient.lean): its write log is
  independent of every unordered collection at once.  Core Lean only.
-/
import AriadneModel.Model.OrderClient
import AriadneModel.Proofs.OrderPlugins
import AriadneModel.Proofs.OrderResult

set_option linter.unusedSimpArgs false
set_option linter.unusedVariables false

namespace Ariadne.Order
open List Ariadne.Isort

theorem mapM_congr_mem {α β ε : Type} {f g : α → Except ε β} : ∀ (l : List α), (∀ a, a ∈ l → f a = g a) → l.mapM f = l.mapM g := by
  intro l
  induction l with
  | nil => intro _; rfl
  | cons x xs ih =>
    intro h
    simp only [List.mapM_cons, h x List.mem_cons_self, ih (fun a ha => h a (List.mem_cons_of_mem _ ha))]

def MixinsDefinedIn (mixins : List Name) (closure : Name → Option (List Name)) : Prop := ∀ f, f ∈ mixins → (closure f).isSome

theorem emitResult_eq (e₁ e₂ : EnumOracle) (he₁ : EnumOK e₁) (he₂ : EnumOK e₂) (pascal : Name → Name)
    (baseModel : Name) (closure : Name → Option (List Name)) (r : ResultIn) (hdef : MixinsDefinedIn r.mixins closure) :
    emitResult e₁ pascal baseModel closure r = emitResult e₂ pascal baseModel closure r := by
  unfold emitResult
  rw [operationFragments_eq e₁ e₂ he₁ he₂ r.mixins r.unpacked closure hdef]
  have hb : r.classes.map (fun c => (c.name, classBases e₁ pascal baseModel c.fragments c.extraBases))
      = r.classes.map (fun c => (c.name, classBases e₂ pascal baseModel c.fragments c.extraBases)) := by
    apply List.map_congr_left
    intro c _
    rw [classBases_eq_of_perm e₁ e₂ he₁ he₂ pascal baseModel (List.Perm.refl c.fragments) c.extraBases]
  have hl : r.typenames.map (fun t => typenameLiterals e₁ t.typesNames t.abstract t.possible)
      = r.typenames.map (fun t => typenameLiterals e₂ t.typesNames t.abstract t.possible) := by
    apply List.map_congr_left
    intro t _
    exact typenameLiterals_eq e₁ e₂ he₁ he₂ t.typesNames t.abstract t.possible
  rw [hb, hl]

/-- the front end's output lies in the theorem region: no isort key tie among set-fed imports (C10-F2) and
    every mixin fragment has a definition -/
def FrontSupported (f : FrontOut) : Prop :=
  trigIsortTie f.pkg = false ∧ ∀ r, r ∈ f.results → MixinsDefinedIn r.mixins f.closure

theorem clientRun_eq {IR : Type} (e₁ e₂ : EnumOracle) (he₁ : EnumOK e₁) (he₂ : EnumOK e₂)
    (dirS₁ dirS₂ dirQ₁ dirQ₂ : List Entry → List Entry) (schemaEntries queryEntries : List Entry)
    (hs₁ : (dirS₁ schemaEntries).Perm schemaEntries) (hs₂ : (dirS₂ schemaEntries).Perm schemaEntries) (hsd : PathsDistinct schemaEntries)
    (hq₁ : (dirQ₁ queryEntries).Perm queryEntries) (hq₂ : (dirQ₂ queryEntries).Perm queryEntries) (hqd : PathsDistinct queryEntries)
    {ns₁ ns₂ : List (Name × Cls) → List (Name × Cls)} (resolve : String → PluginTarget)
    (hn₁ : ∀ ms, (ns₁ ms).Perm ms) (hn₂ : ∀ ms, (ns₂ ms).Perm ms) (hattrs : ∀ s ms, resolve s = .module ms → AttrsDistinct ms)
    (pluginsStrs : List String) (front : List Cls → String → String → Except String FrontOut)
    (hfront : ∀ ps s q f, front ps s q = .ok f → FrontSupported f)
    (keep : Name → Bool) (assemble : List Cls → PkgIR → List ResultIR → List (Name × IR))
    (render : Bool → IR → String) (insens : ∀ ir, render true ir = render false ir)
    (flag₁ flag₂ : Nat → Bool) (dir₁ dir₂ : Dir) :
    clientRun e₁ dirS₁ dirQ₁ schemaEntries queryEntries ns₁ resolve pluginsStrs front keep assemble render flag₁ dir₁
      = clientRun e₂ dirS₂ dirQ₂ schemaEntries queryEntries ns₂ resolve pluginsStrs front keep assemble render flag₂ dir₂ := by
  unfold clientRun
  rw [loadGraphqlFiles_eq_of_perm schemaEntries hs₁ hs₂ hsd, loadGraphqlFiles_eq_of_perm queryEntries hq₁ hq₂ hqd,
    getPluginsTypes_eq_of_perm resolve hn₁ hn₂ hattrs pluginsStrs]
  cases loadGraphqlFiles dirS₂ schemaEntries with
  | error er => rfl
  | ok schemaText =>
    cases getPluginsTypes ns₂ resolve pluginsStrs with
    | error m => rfl
    | ok plugins =>
      cases loadGraphqlFiles dirQ₂ queryEntries with
      | error er => rfl
      | ok queriesText =>
        cases hf : front plugins schemaText queriesText with
        | error why => simp only [hf]
        | ok f =>
          obtain ⟨ht, hm⟩ := hfront plugins schemaText queriesText f hf
          simp only [hf]
          rw [mapM_congr_mem f.results (fun r hr => emitResult_eq e₁ e₂ he₁ he₂ f.pkg.pascal f.baseModel f.closure r (hm r hr)),
            emitPackage_independent keep e₁ e₂ he₁ he₂ f.pkg ht]
          cases f.results.mapM (emitResult e₂ f.pkg.pascal f.baseModel f.closure) with
          | error er => rfl
          | ok rs =>
            cases emitPackage keep e₂ f.pkg with
            | error er => rfl
            | ok pk =>
              simp only []
              congr 1
              unfold runWrites packageWrites
              have hmidx : (assemble plugins pk rs).mapIdx (fun i p => (p.1, render (flag₁ i) p.2))
                  = (assemble plugins pk rs).mapIdx (fun i p => (p.1, render (flag₂ i) p.2)) := by
                apply List.ext_getElem
                · simp
                · intro i h1 h2
                  simp only [List.getElem_mapIdx]
                  have : ∀ b₁ b₂ (ir : IR), render b₁ ir = render b₂ ir := by
                    intro b₁ b₂ ir
                    cases b₁ <;> cases b₂ <;> simp [insens ir]
                  rw [this (flag₁ i) (flag₂ i)]
              rw [hmidx]

end Ariadne.Order
