/-
  Proofs/C08Inherits.lean — WHICH fragments the class generated for a selection set inherits from, exactly.

  `_resolve_selection_set(selection_set, root_type)` returns a set of fragment names; `_parse_type_definition`
  turns it into the base classes.  The set is described here without fuel, state or accumulator as the inductive
  relation `Inherits env n sels root` ("the class generated for `sels` evaluated for `root` inherits from fragment `n`"):

    * `direct`           `sels` directly spreads `n` and `_unpack_fragment(n, root)` is false;
    * `throughFragment`  `sels` directly spreads a fragment that IS unpacked for `root` and applies to `root` (same type, or
                         an abstract type `root` belongs to): its selections are evaluated for `root` in its place;
    * `throughInline`    `sels` contains an inline fragment whose type condition `_get_inline_fragment_root_type` accepts
                         for `root` (the type itself -> `root`; an interface the OBJECT type `root` implements -> that
                         interface): its selections are evaluated for the accepted type.

  `resolve_inherits_iff`: for every fuel, state and input on which `resolve` succeeds, the returned set is exactly that
  relation.  Core Lean only.
-/
import AriadneModel.Proofs.C08Resolve

set_option linter.unusedSimpArgs false
set_option linter.unusedVariables false

namespace Ariadne.ResultTypes
open Ariadne Ariadne.Gql Ariadne.Util

/-- does an unpacked fragment on `on` contribute to a selection set evaluated for `root`?  (`_resolve_selection_set`:
    `fragment_def.type_condition.name.value == root_type or (is_abstract_type(…) and schema.is_sub_type(…, root_type_def))`;
    otherwise the spread is silently dropped) -/
def appliesTo (env : Env) (on root : String) : Bool :=
  on == root || (env.schema.isAbstract on && env.schema.isSubType on root)

inductive Inherits (env : Env) (n : String) : List Selection → String → Prop
  | direct {sels : List Selection} {root : String} {dirs : List Directive} {f : Fragment} :
      Selection.spread n dirs ∈ sels → findFragment? env.frags n = some f →
      unpackFragment env f (some root) = false → Inherits env n sels root
  | throughFragment {sels : List Selection} {root g : String} {dirs : List Directive} {gf : Fragment} :
      Selection.spread g dirs ∈ sels → findFragment? env.frags g = some gf →
      unpackFragment env gf (some root) = true → appliesTo env gf.on root = true →
      Inherits env n gf.sel root → Inherits env n sels root
  | throughInline {sels : List Selection} {root cond rt : String} {dirs : List Directive} {sid : Nat} {sub : List Selection} :
      Selection.inline (some cond) dirs sid sub ∈ sels → inlineFragmentRootType env cond root = some rt →
      Inherits env n sub rt → Inherits env n sels root

/-! ### soundness: everything `resolve` returns is inherited according to the relation -/

theorem resolveBody_sound (env : Env) (fuel : Nat)
    (ih : ∀ sels root st r st', resolve env fuel sels root st = .ok (r, st') → ∀ n ∈ r.2, Inherits env n sels root)
    (root : String) (sels : List Selection) (a : Selection) (ha : a ∈ sels) (b : Acc) (s : St) (r : ForInStep Acc) (s' : St)
    (h : resolveBody env fuel root a b s = .ok (r, s')) :
    ∃ b1, r = .yield b1 ∧ ∀ n ∈ b1.2, n ∈ b.2 ∨ Inherits env n sels root := by
  cases a with
  | field alias name dirs sid sub =>
    simp only [resolveBody] at h
    obtain ⟨rfl, rfl⟩ := (ok_pure _ _ _ _).mp h
    exact ⟨_, rfl, fun n hn => Or.inl hn⟩
  | spread g d =>
    cases hf : findFragment? env.frags g with
    | none =>
      simp only [resolveBody, hf] at h
      exact ((ok_err _ _ _).mp h).elim
    | some f =>
      simp only [resolveBody, hf] at h
      split at h
      · exact ((ok_err _ _ _).mp h).elim
      split at h
      · exact ((ok_err _ _ _).mp h).elim
      split at h
      · rename_i _ _ hun
        obtain ⟨rfl, rfl⟩ := (ok_pure _ _ _ _).mp h
        have hun' : unpackFragment env f (some root) = false := by simpa using hun
        refine ⟨_, rfl, ?_⟩
        intro m hm
        rcases (mem_setAdd _ _ _).mp hm with hm | rfl
        · exact Or.inl hm
        · exact Or.inr (Inherits.direct ha hf hun')
      rename_i _ _ hun
      have hun' : unpackFragment env f (some root) = true := by
        cases hu : unpackFragment env f (some root) with
        | true => rfl
        | false => rw [hu] at hun; exact absurd rfl hun
      split at h
      · rename_i happ
        obtain ⟨u, s1, h1, h2⟩ := (ok_bind _ _ _ _ _).mp h
        obtain ⟨x, s2, h3, h4⟩ := (ok_bind _ _ _ _ _).mp h2
        obtain ⟨rfl, rfl⟩ := (ok_pure _ _ _ _).mp h4
        refine ⟨_, rfl, ?_⟩
        intro m hm
        rcases (mem_setUnion _ _ _).mp hm with hm | hm
        · exact Or.inl hm
        · exact Or.inr (Inherits.throughFragment ha hf hun' happ (ih _ _ _ _ _ h3 m hm))
      · obtain ⟨u, s1, h1, h2⟩ := (ok_bind _ _ _ _ _).mp h
        obtain ⟨rfl, rfl⟩ := (ok_pure _ _ _ _).mp h2
        exact ⟨_, rfl, fun m hm => Or.inl hm⟩
  | inline on d sid sub =>
    cases on with
    | none =>
      simp only [resolveBody] at h
      exact ((ok_err _ _ _).mp h).elim
    | some cond =>
      cases hrt : inlineFragmentRootType env cond root with
      | some rt =>
        simp only [resolveBody, hrt] at h
        obtain ⟨x, s2, h3, h4⟩ := (ok_bind _ _ _ _ _).mp h
        obtain ⟨rfl, rfl⟩ := (ok_pure _ _ _ _).mp h4
        refine ⟨_, rfl, ?_⟩
        intro m hm
        rcases (mem_setUnion _ _ _).mp hm with hm | hm
        · exact Or.inl hm
        · exact Or.inr (Inherits.throughInline ha hrt (ih _ _ _ _ _ h3 m hm))
      | none =>
        simp only [resolveBody, hrt] at h
        obtain ⟨u, s1, h1, h2⟩ := (ok_bind _ _ _ _ _).mp h
        obtain ⟨rfl, rfl⟩ := (ok_pure _ _ _ _).mp h2
        exact ⟨_, rfl, fun m hm => Or.inl hm⟩

theorem resolve_sound (env : Env) : ∀ (fuel : Nat) (sels : List Selection) (root : String) (st : St) (r : Acc) (st' : St),
    resolve env fuel sels root st = .ok (r, st') → ∀ n ∈ r.2, Inherits env n sels root
  | 0, sels, root, st, r, st', h => by
    rw [resolve_zero] at h
    exact ((ok_err _ _ _).mp h).elim
  | fuel + 1, sels, root, st, r, st', h => by
    rw [resolve_succ] at h
    obtain ⟨acc, s1, h1, h2⟩ := (ok_bind _ _ _ _ _).mp h
    obtain ⟨u, s2, h3, h4⟩ := (ok_bind _ _ _ _ _).mp h2
    obtain ⟨rfl, rfl⟩ := (ok_pure _ _ _ _).mp h4
    exact forIn_ok_inv (fun (b : Acc) (_ : St) => ∀ n ∈ b.2, Inherits env n sels root)
      (resolveBody env fuel root) sels ([], []) st acc s1
      (by
        intro a ha b s r s' hb hr
        obtain ⟨b1, rfl, hb1⟩ := resolveBody_sound env fuel (resolve_sound env fuel) root sels a ha b s r s' hr
        intro n hn
        rcases hb1 n hn with h | h
        · exact hb n h
        · exact h)
      (fun n hn => absurd hn List.not_mem_nil) h1

/-! ### completeness: everything the relation names is returned (whenever `resolve` succeeds at all) -/

/-- a successful `resolve` whose selection list contains `a₀`: what the iteration for `a₀` adds stays to the end -/
theorem resolve_est (env : Env) (fuel : Nat) (sels : List Selection) (root : String) (st : St) (r : Acc) (st' : St)
    (n : String) (a₀ : Selection) (hmem : a₀ ∈ sels)
    (hest : ∀ b s r s', resolveBody env fuel root a₀ b s = .ok (r, s') → n ∈ (stepVal r).2)
    (h : resolve env (fuel + 1) sels root st = .ok (r, st')) : n ∈ r.2 := by
  rw [resolve_succ] at h
  obtain ⟨acc, s1, h1, h2⟩ := (ok_bind _ _ _ _ _).mp h
  obtain ⟨u, s2, h3, h4⟩ := (ok_bind _ _ _ _ _).mp h2
  obtain ⟨rfl, rfl⟩ := (ok_pure _ _ _ _).mp h4
  refine forIn_ok_est (fun (b : Acc) => n ∈ b.2) (resolveBody env fuel root) a₀ sels ([], []) st acc s1 hmem ?_ hest h1
  intro a _ b s r s' hr
  obtain ⟨b1, rfl, sp1⟩ := resolveBody_ok env fuel (resolve_spec env fuel) root a b s r s' hr
  exact ⟨b1, rfl, sp1.keep n⟩

theorem resolve_complete (env : Env) (n : String) (sels : List Selection) (root : String) (hi : Inherits env n sels root) :
    ∀ (fuel : Nat) (st : St) (r : Acc) (st' : St), resolve env fuel sels root st = .ok (r, st') → n ∈ r.2 := by
  induction hi with
  | @direct sels root dirs f hmem hf hun =>
    intro fuel st r st' h
    exact (resolve_spread_mem env fuel sels root st r st' n dirs f hmem hf hun h).1
  | @throughFragment sels root g dirs gf hmem hf hun happ _ ih =>
    intro fuel st r st' h
    cases fuel with
    | zero =>
      rw [resolve_zero] at h
      exact ((ok_err _ _ _).mp h).elim
    | succ fuel =>
      refine resolve_est env fuel sels root st r st' n _ hmem ?_ h
      intro b s r s' hr
      simp only [resolveBody, hf] at hr
      split at hr
      · exact ((ok_err _ _ _).mp hr).elim
      split at hr
      · exact ((ok_err _ _ _).mp hr).elim
      have happ' : (gf.on == root || (env.schema.isAbstract gf.on && env.schema.isSubType gf.on root)) = true := happ
      simp only [hun, Bool.not_true, Bool.false_eq_true, if_false, happ', if_true] at hr
      obtain ⟨u, s1, h1, h2⟩ := (ok_bind _ _ _ _ _).mp hr
      obtain ⟨x, s2, h3, h4⟩ := (ok_bind _ _ _ _ _).mp h2
      obtain ⟨rfl, rfl⟩ := (ok_pure _ _ _ _).mp h4
      exact (mem_setUnion _ _ _).mpr (Or.inr (ih fuel _ _ _ h3))
  | @throughInline sels root cond rt dirs sid sub hmem hrt _ ih =>
    intro fuel st r st' h
    cases fuel with
    | zero =>
      rw [resolve_zero] at h
      exact ((ok_err _ _ _).mp h).elim
    | succ fuel =>
      refine resolve_est env fuel sels root st r st' n _ hmem ?_ h
      intro b s r s' hr
      simp only [resolveBody, hrt] at hr
      obtain ⟨x, s2, h3, h4⟩ := (ok_bind _ _ _ _ _).mp hr
      obtain ⟨rfl, rfl⟩ := (ok_pure _ _ _ _).mp h4
      exact (mem_setUnion _ _ _).mpr (Or.inr (ih fuel _ _ _ h3))

/-- **`_resolve_selection_set` returns exactly the inherited fragments** — any fuel, any generator state -/
theorem resolve_inherits_iff (env : Env) (fuel : Nat) (sels : List Selection) (root : String) (st : St) (r : Acc) (st' : St)
    (h : resolve env fuel sels root st = .ok (r, st')) (n : String) : n ∈ r.2 ↔ Inherits env n sels root :=
  ⟨resolve_sound env fuel sels root st r st' h n, fun hi => resolve_complete env n sels root hi fuel st r st' h⟩

/-! ### the returned set has no duplicates (a duplicate base class would be a `TypeError` in CPython) -/

theorem nodup_setAdd {s : List String} (x : String) (h : s.Nodup) : (setAdd s x).Nodup := by
  unfold setAdd
  split
  · exact h
  · rename_i hc
    rw [List.nodup_append]
    refine ⟨h, by simp, ?_⟩
    intro a ha b hb
    rw [List.mem_singleton] at hb
    subst hb
    intro hab
    subst hab
    exact hc (by simpa using ha)

theorem nodup_setUnion (t : List String) : ∀ {s : List String}, s.Nodup → (setUnion s t).Nodup := by
  induction t with
  | nil => intro s h; exact h
  | cons x xs ih =>
    intro s h
    have : setUnion s (x :: xs) = setUnion (setAdd s x) xs := rfl
    rw [this]
    exact ih (nodup_setAdd x h)

theorem resolveBody_nodup (env : Env) (fuel : Nat) (root : String) (a : Selection) (b : Acc) (s : St) (r : ForInStep Acc) (s' : St)
    (hb : b.2.Nodup) (h : resolveBody env fuel root a b s = .ok (r, s')) : (stepVal r).2.Nodup := by
  cases a with
  | field alias name dirs sid sub =>
    simp only [resolveBody] at h
    obtain ⟨rfl, rfl⟩ := (ok_pure _ _ _ _).mp h
    exact hb
  | spread g d =>
    cases hf : findFragment? env.frags g with
    | none =>
      simp only [resolveBody, hf] at h
      exact ((ok_err _ _ _).mp h).elim
    | some f =>
      simp only [resolveBody, hf] at h
      split at h
      · exact ((ok_err _ _ _).mp h).elim
      split at h
      · exact ((ok_err _ _ _).mp h).elim
      split at h
      · obtain ⟨rfl, rfl⟩ := (ok_pure _ _ _ _).mp h
        exact nodup_setAdd _ hb
      split at h
      · obtain ⟨u, s1, h1, h2⟩ := (ok_bind _ _ _ _ _).mp h
        obtain ⟨x, s2, h3, h4⟩ := (ok_bind _ _ _ _ _).mp h2
        obtain ⟨rfl, rfl⟩ := (ok_pure _ _ _ _).mp h4
        exact nodup_setUnion _ hb
      · obtain ⟨u, s1, h1, h2⟩ := (ok_bind _ _ _ _ _).mp h
        obtain ⟨rfl, rfl⟩ := (ok_pure _ _ _ _).mp h2
        exact hb
  | inline on d sid sub =>
    cases on with
    | none =>
      simp only [resolveBody] at h
      exact ((ok_err _ _ _).mp h).elim
    | some cond =>
      cases hrt : inlineFragmentRootType env cond root with
      | some rt =>
        simp only [resolveBody, hrt] at h
        obtain ⟨x, s2, h3, h4⟩ := (ok_bind _ _ _ _ _).mp h
        obtain ⟨rfl, rfl⟩ := (ok_pure _ _ _ _).mp h4
        exact nodup_setUnion _ hb
      | none =>
        simp only [resolveBody, hrt] at h
        obtain ⟨u, s1, h1, h2⟩ := (ok_bind _ _ _ _ _).mp h
        obtain ⟨rfl, rfl⟩ := (ok_pure _ _ _ _).mp h2
        exact hb

theorem resolve_nodup (env : Env) (fuel : Nat) (sels : List Selection) (root : String) (st : St) (r : Acc) (st' : St)
    (h : resolve env fuel sels root st = .ok (r, st')) : r.2.Nodup := by
  cases fuel with
  | zero =>
    rw [resolve_zero] at h
    exact ((ok_err _ _ _).mp h).elim
  | succ fuel =>
    rw [resolve_succ] at h
    obtain ⟨acc, s1, h1, h2⟩ := (ok_bind _ _ _ _ _).mp h
    obtain ⟨u, s2, h3, h4⟩ := (ok_bind _ _ _ _ _).mp h2
    obtain ⟨rfl, rfl⟩ := (ok_pure _ _ _ _).mp h4
    exact forIn_ok_inv (fun (b : Acc) (_ : St) => b.2.Nodup) (resolveBody env fuel root) sels ([], []) st acc s1
      (fun a _ b s r s' hb hr => resolveBody_nodup env fuel root a b s r s' hb hr) List.nodup_nil h1

/-! ### `_get_inline_fragment_root_type`, case by case -/

/-- an inline fragment on the type the selection set is evaluated for: evaluated for that type -/
theorem inlineRoot_own (env : Env) (root : String) (t : TypeDef) (ht : env.schema.get? root = some t) :
    inlineFragmentRootType env root root = some root := by
  unfold inlineFragmentRootType
  rw [ht]
  simp only
  split
  · rfl
  · simp

/-- an inline fragment on an interface the OBJECT type implements: evaluated for the INTERFACE (so a fragment defined on
    that interface and spread inside is defined on exactly the type its selection set is evaluated for) -/
theorem inlineRoot_interface (env : Env) (cond root : String) (t : TypeDef) (ht : env.schema.get? root = some t)
    (hobj : t.kind = .object) (himpl : cond ∈ t.interfaces) : inlineFragmentRootType env cond root = some cond := by
  unfold inlineFragmentRootType
  rw [ht]
  have : t.interfaces.contains cond = true := by simpa using himpl
  simp [hobj, himpl]

/-- every other inline fragment is ignored by `_resolve_selection_set` (its selections reach no class through it) -/
theorem inlineRoot_none (env : Env) (cond root : String)
    (h : ∀ t, env.schema.get? root = some t → ¬ (t.kind = .object ∧ cond ∈ t.interfaces) ∧ cond ≠ root) :
    inlineFragmentRootType env cond root = none := by
  unfold inlineFragmentRootType
  cases ht : env.schema.get? root with
  | none => rfl
  | some t =>
    obtain ⟨h1, h2⟩ := h t ht
    simp only
    split
    · rename_i hc
      simp only [Bool.and_eq_true, beq_iff_eq] at hc
      exact absurd ⟨hc.1, by simpa using hc.2⟩ h1
    · split
      · rename_i hc
        exact absurd (by simpa using hc) h2
      · rfl

/-- the accepted type is never anything but the type condition itself -/
theorem inlineRoot_eq_cond (env : Env) (cond root rt : String) (h : inlineFragmentRootType env cond root = some rt) : rt = cond := by
  unfold inlineFragmentRootType at h
  cases ht : env.schema.get? root with
  | none => rw [ht] at h; cases h
  | some t =>
    rw [ht] at h
    simp only at h
    split at h
    · injection h with h; exact h.symm
    · split at h
      · rename_i hc
        injection h with h
        rw [← h]
        exact (by simpa using hc : cond = root).symm
      · cases h

end Ariadne.ResultTypes
