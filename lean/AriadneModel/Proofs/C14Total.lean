/-
  C14 helper lemmas, part 10: the builder does not raise.

  * `_format_variable_name` always finds a free name within `|used| + 1` candidates (pigeonhole; the
    candidates `base, base_1, base_2, …` are pairwise distinct), so the model's guard is unreachable;
  * `to_ast` over a pristine store succeeds whenever the fuel covers the height of the tree, and
    `opFuel` does;
  * an expression without mutators on class-level objects that `evalFresh` accepts evaluates.
-/
import Std.Data.String.ToNat
import AriadneModel.Proofs.C14Trig

set_option linter.unusedSimpArgs false
set_option linter.unusedVariables false

namespace Ariadne.C14
open Ariadne Ariadne.Builder Ariadne.CustomGen Ariadne.BuilderDoc

/-! ### the name loop terminates -/

theorem append_left_cancel_str {a b c : String} (h : a ++ b = a ++ c) : b = c := by
  have := congrArg String.toList h
  simp [String.toList_append] at this
  exact String.toList_inj.mp this

theorem candidate_succ_ne_base (base : String) (k : Nat) : candidate base (k + 1) ≠ base := by
  intro h
  have := congrArg (fun s => s.toList.length) h
  simp [candidate, String.toList_append] at this

theorem candidate_inj (base : String) : ∀ (i j : Nat), candidate base i = candidate base j → i = j
  | 0, 0, _ => rfl
  | 0, j + 1, h => absurd h.symm (candidate_succ_ne_base base j)
  | i + 1, 0, h => absurd h (candidate_succ_ne_base base i)
  | i + 1, j + 1, h => by
    simp only [candidate, String.append_assoc] at h
    have h1 := append_left_cancel_str h
    have h2 := append_left_cancel_str h1
    exact Nat.repr_injective h2

theorem firstFree_none (base : String) (used : List String) :
    ∀ (fuel k : Nat), firstFree base used fuel k = none → ∀ i, i < fuel → candidate base (k + i) ∈ used := by
  intro fuel
  induction fuel with
  | zero => intro k _ i hi; omega
  | succ f ih =>
    intro k h i hi
    unfold firstFree at h
    split at h
    · rename_i hm
      cases i with
      | zero => simpa using hm
      | succ i =>
        have := ih (k + 1) h i (by omega)
        have e : k + 1 + i = k + (i + 1) := by omega
        rw [e] at this
        exact this
    · simp at h

theorem pigeonhole : ∀ (l used : List String), l.Nodup → (∀ x ∈ l, x ∈ used) → l.length ≤ used.length
  | [], _, _, _ => by simp
  | x :: l, used, hn, hs => by
    simp only [List.nodup_cons] at hn
    have hx : x ∈ used := hs x (by simp)
    have := pigeonhole l (used.erase x) hn.2 (by
      intro y hy
      have hne : y ≠ x := fun he => hn.1 (he ▸ hy)
      exact (List.mem_erase_of_ne hne).mpr (hs y (by simp [hy])))
    rw [List.length_erase_of_mem hx] at this
    have hpos : 0 < used.length := List.length_pos_of_mem hx
    simp only [List.length_cons]
    omega

theorem nodup_map_of_inj {f : Nat → String} (hf : ∀ a b, f a = f b → a = b) :
    ∀ (l : List Nat), l.Nodup → (l.map f).Nodup
  | [], _ => by simp
  | x :: xs, h => by
    simp only [List.nodup_cons] at h
    simp only [List.map_cons, List.nodup_cons]
    refine ⟨?_, nodup_map_of_inj hf xs h.2⟩
    intro hm
    obtain ⟨y, hy, he⟩ := List.mem_map.mp hm
    have := hf _ _ he
    subst this
    exact h.1 hy

theorem formatVarName_ok (idx : Nat) (name : String) (used : List String) :
    ∃ u used', formatVarName idx name used = .ok (u, used') := by
  unfold formatVarName
  cases h : firstFree (name ++ "_" ++ toString idx) used (used.length + 1) 0 with
  | some u => exact ⟨u, _, rfl⟩
  | none =>
    exfalso
    have hall := firstFree_none _ _ _ _ h
    let base := name ++ "_" ++ toString idx
    let l := (List.range (used.length + 1)).map (candidate base)
    have hn : l.Nodup := nodup_map_of_inj (candidate_inj base) _ List.nodup_range
    have hs : ∀ x ∈ l, x ∈ used := by
      intro x hx
      obtain ⟨i, hi, rfl⟩ := List.mem_map.mp hx
      have := hall i (List.mem_range.mp hi)
      simp only [Nat.zero_add] at this
      exact this
    have := pigeonhole l used hn hs
    simp [l] at this
    omega

theorem collectVars_ok (idx : Nat) : ∀ (vs : List Var) (used : List String),
    ∃ fv used', collectVars idx vs used = .ok (fv, used') := by
  intro vs
  induction vs with
  | nil => intro used; exact ⟨[], used, rfl⟩
  | cons v vs ih =>
    intro used
    obtain ⟨u, u1, h1⟩ := formatVarName_ok idx v.key used
    obtain ⟨fs, u2, h2⟩ := ih u1
    simp only [collectVars, h1, h2]
    exact ⟨_, _, rfl⟩

/-! ### enough fuel -/

mutual
  def height : Node → Nat
    | .obj _ subs frags => 1 + max (heightList subs) (heightFrags frags)
    | .ref _ => 2
  def heightList : List Node → Nat
    | [] => 0
    | n :: ns => max (height n) (heightList ns)
  def heightFrags : List Frag → Nat
    | [] => 0
    | .mk _ ns :: fs => max (heightList ns) (heightFrags fs)
end

mutual
  /-- every reference points into the store -/
  def RefsOK (st : Store) : Node → Bool
    | .obj _ subs frags => RefsOKList st subs && RefsOKFrags st frags
    | .ref id => (st[id]?).isSome
  def RefsOKList (st : Store) : List Node → Bool
    | [] => true
    | n :: ns => RefsOK st n && RefsOKList st ns
  def RefsOKFrags (st : Store) : List Frag → Bool
    | [] => true
    | .mk _ ns :: fs => RefsOKList st ns && RefsOKFrags st fs
end

def Fits (st : Store) (fuel : Nat) (n : Node) : Prop := RefsOK st n = true ∧ height n ≤ fuel

/-- every visit of a fitting node succeeds and returns the store -/
def VisitOK (st : Store) (f : Visit) (fuel : Nat) : Prop :=
  ∀ used n, Fits st fuel n → ∃ s n' used', f st used n = .ok (s, n', st, used')

theorem mapAcc_ok {st : Store} {f : Visit} {fuel : Nat} (hf : VisitOK st f fuel) :
    ∀ (ns : List Node) (used : List String), RefsOKList st ns = true → heightList ns ≤ fuel →
      ∃ ss ns' used', mapAcc f st used ns = .ok (ss, ns', st, used') := by
  intro ns
  induction ns with
  | nil => intro used _ _; exact ⟨[], [], used, rfl⟩
  | cons n ns ih =>
    intro used hr hh
    simp only [RefsOKList, Bool.and_eq_true] at hr
    simp only [heightList] at hh
    obtain ⟨s, n', u1, h1⟩ := hf used n ⟨hr.1, by omega⟩
    obtain ⟨ss, ns', u2, h2⟩ := ih u1 hr.2 (by omega)
    simp only [mapAcc, h1, h2]
    exact ⟨_, _, _, rfl⟩

theorem mapFrags_ok {st : Store} {f : Visit} {fuel : Nat} (hf : VisitOK st f fuel) :
    ∀ (fs : List Frag) (used : List String), RefsOKFrags st fs = true → heightFrags fs ≤ fuel →
      ∃ ss fs' used', mapFrags f st used fs = .ok (ss, fs', st, used') := by
  intro fs
  induction fs with
  | nil => intro used _ _; exact ⟨[], [], used, rfl⟩
  | cons fr fs ih =>
    intro used hr hh
    cases fr with
    | mk ty ns =>
      simp only [RefsOKFrags, Bool.and_eq_true] at hr
      simp only [heightFrags] at hh
      obtain ⟨ss, ns', u1, h1⟩ := mapAcc_ok hf ns used hr.1 (by omega)
      obtain ⟨rest, fs', u2, h2⟩ := ih u1 hr.2 (by omega)
      simp only [mapFrags, h1, h2]
      exact ⟨_, _, _, rfl⟩

theorem toAst_ok {st : Store} (hp : Pristine st) (idx : Nat) : ∀ fuel, VisitOK st (toAst fuel idx) fuel := by
  intro fuel
  induction fuel with
  | zero =>
    intro used n hfit
    exfalso
    obtain ⟨-, hh⟩ := hfit
    cases n <;> simp [height] at hh
  | succ f ih =>
    intro used n hfit
    obtain ⟨hr, hh⟩ := hfit
    cases n with
    | obj r subs frags =>
      simp only [RefsOK, Bool.and_eq_true] at hr
      simp only [height] at hh
      obtain ⟨fv, u1, h1⟩ := collectVars_ok idx r.vars used
      obtain ⟨ss, subs', u2, h2⟩ := mapAcc_ok ih subs u1 hr.1 (by omega)
      obtain ⟨fs, frags', u3, h3⟩ := mapFrags_ok ih frags u2 hr.2 (by omega)
      simp only [toAst, h1, h2, h3]
      exact ⟨_, _, _, rfl⟩
    | ref id =>
      simp only [RefsOK] at hr
      simp only [height] at hh
      obtain ⟨n0, hn0⟩ := Option.isSome_iff_exists.mp hr
      obtain ⟨r, rfl, hv, hfm⟩ := hp id n0 hn0
      have hfit : Fits st f (.obj r [] []) := by
        refine ⟨by simp [RefsOK, RefsOKList, RefsOKFrags], ?_⟩
        simp [height, heightList, heightFrags]
        omega
      obtain ⟨s, n', u1, h1⟩ := ih used _ hfit
      have hk := (toAst_keeps hp idx f _ _ _ _ _ _ h1).1
      refine ⟨s, .ref id, u1, ?_⟩
      simp only [toAst, hn0, h1]
      -- the write-back of a pristine leaf is the identity
      have : st.set id n' = st := by
        obtain ⟨c0, fn0, g0, vars0, fm0, al0⟩ := r
        simp at hv hfm
        subst hv hfm
        cases f with
        | zero => simp [toAst] at h1
        | succ f' =>
          simp [toAst, collectVars_nil, mapAcc, mapFrags] at h1
          obtain ⟨-, rfl, -⟩ := h1
          exact set_self _ _ _ hn0
      rw [this]

mutual
  theorem height_le_size : ∀ (n : Node), height n ≤ Node.size n + 1
    | .obj r subs frags => by
      have := heightList_le_size subs
      have := heightFrags_le_size frags
      simp only [height, Node.size]
      omega
    | .ref _ => by simp [height, Node.size]
  theorem heightList_le_size : ∀ (ns : List Node), heightList ns ≤ Node.sizeList ns + 1
    | [] => by simp [heightList]
    | n :: ns => by
      have := height_le_size n
      have := heightList_le_size ns
      simp only [heightList, Node.sizeList]
      omega
  theorem heightFrags_le_size : ∀ (fs : List Frag), heightFrags fs ≤ Frag.sizeList fs + 1
    | [] => by simp [heightFrags]
    | .mk _ ns :: fs => by
      have := heightList_le_size ns
      have := heightFrags_le_size fs
      simp only [heightFrags, Frag.sizeList]
      omega
end

theorem fits_mono {st : Store} {a b : Nat} (h : a ≤ b) {n : Node} (hf : Fits st a n) : Fits st b n :=
  ⟨hf.1, Nat.le_trans hf.2 h⟩

theorem buildSelections_ok {st : Store} (hp : Pristine st) (fuel : Nat) :
    ∀ (ns : List Node) (idx : Nat), RefsOKList st ns = true → heightList ns ≤ fuel →
      ∃ sels ns', buildSelections fuel idx st ns = .ok (sels, ns', st) := by
  intro ns
  induction ns with
  | nil => intro idx _ _; exact ⟨[], [], rfl⟩
  | cons n ns ih =>
    intro idx hr hh
    simp only [RefsOKList, Bool.and_eq_true] at hr
    simp only [heightList] at hh
    obtain ⟨s, n', u1, h1⟩ := toAst_ok hp idx fuel [] n ⟨hr.1, by omega⟩
    obtain ⟨ss, ns', h2⟩ := ih (idx + 1) hr.2 (by omega)
    simp only [buildSelections, h1, h2]
    exact ⟨_, _, rfl⟩

/-- … and `_combine_variables` (whose `get_formatted_variables` recurses through the whole tree since
    dfbc7ef) gets by with the fuel `to_ast` got by with -/
theorem execOp_ok {st : Store} (hp : Pristine st) (ty nm : String) (nodes : List Node)
    (hr : RefsOKList st nodes = true) : ∃ d, execOp ty nm st nodes = .ok (d, st) := by
  have hh : heightList nodes ≤ opFuel st nodes := by
    have := heightList_le_size nodes
    unfold opFuel
    omega
  obtain ⟨sels, ns', h⟩ := buildSelections_ok hp (opFuel st nodes) nodes 0 hr hh
  obtain ⟨-, -, g, -⟩ := buildSelections_Q hp _ _ _ _ _ _ h
  simp only [execOp, h, combine_pure g]
  exact ⟨_, rfl⟩

/-! ### an accepted expression evaluates -/

theorem RefsOKList_append (st : Store) : ∀ (a b : List Node), RefsOKList st (a ++ b) = (RefsOKList st a && RefsOKList st b)
  | [], b => by simp [RefsOKList]
  | n :: a, b => by simp [RefsOKList, RefsOKList_append st a b, Bool.and_assoc]

theorem RefsOKFrags_set (st : Store) (ty : String) (cs : List Node) (hc : RefsOKList st cs = true) :
    ∀ (fs : List Frag), RefsOKFrags st fs = true → RefsOKFrags st (setFragList ty cs fs) = true
  | [], _ => by simp [setFragList, RefsOKFrags, hc]
  | .mk t ns :: fs, h => by
    simp only [RefsOKFrags, Bool.and_eq_true] at h
    simp only [setFragList]
    split
    · simp [RefsOKFrags, hc, h.2]
    · simp [RefsOKFrags, h.1, RefsOKFrags_set st ty cs hc fs h.2]

theorem sharedId_of_fresh {p : Package} {cls a : String} {n : Node} (h : freshOfShared p cls a = some n) :
    ∃ id, p.sharedId cls a = some id ∧ p.initStore[id]? = some n := by
  unfold freshOfShared at h
  split at h
  · rename_i id hid; exact ⟨id, hid, h⟩
  · simp at h

mutual
  theorem evalExpr_ok (p : Package) : ∀ (e : Expr) (nF : Node), mutatesShared e = false → evalFresh p e = .ok nF →
      ∃ n, evalExpr p e p.initStore = (.ok n, p.initStore) ∧ RefsOK p.initStore n = true
    | .attr cls a, nF, _, h => by
      simp only [evalFresh] at h
      simp only [evalExpr]
      split at h <;> try (simp at h)
      rename_i c hc
      split at h <;> try (simp at h)
      rename_i acc ha
      split at h <;> try (simp at h)
      rename_i hk
      split at h <;> try (simp at h)
      rename_i n0 hn0
      obtain ⟨id, hid, hget⟩ := sharedId_of_fresh hn0
      exact ⟨.ref id, by simp [hc, ha, hk, hid], by simp [RefsOK, hget]⟩
    | .call cls a kw, nF, _, h => by
      simp only [evalFresh] at h
      simp only [evalExpr]
      split at h <;> try (simp at h)
      rename_i c hc
      split at h <;> try (simp at h)
      rename_i acc ha
      split at h <;> try (simp at h)
      rename_i hk
      split at h <;> try (simp at h)
      rename_i vars hv
      exact ⟨mkNode acc vars, by simp [hc, ha, hk, hv], by simp [mkNode, RefsOK, RefsOKList, RefsOKFrags]⟩
    | .alias e al, nF, hm, h => by
      simp only [mutatesShared, Bool.or_eq_false_iff] at hm
      simp only [evalFresh] at h
      cases hf : evalFresh p e with
      | error x => rw [hf] at h; simp at h
      | ok nF0 =>
        rw [hf] at h
        obtain ⟨n0, he, hr⟩ := evalExpr_ok p e nF0 hm.2 hf
        obtain ⟨r0, s0, f0, rfl⟩ := (evalExpr_noMut p e _ hm.2).2 hm.1 n0 (by rw [he])
        have hd := evalExpr_fresh p e _ _ hm.2 he
        rw [hf] at hd
        simp at hd
        subst hd
        simp only [deref, ownCls] at h
        by_cases hc : classHas p (·.hasAlias) (some r0.cls) = true
        · refine ⟨setAlias al (.obj r0 s0 f0), ?_, ?_⟩
          · simp [evalExpr, he, nodeCls, hc, mutate_obj]
          · simpa [setAlias, RefsOK] using hr
        · simp [hc] at h
    | .fields e cs, nF, hm, h => by
      simp only [mutatesShared, Bool.or_eq_false_iff] at hm
      simp only [evalFresh] at h
      cases hf : evalFresh p e with
      | error x => rw [hf] at h; simp at h
      | ok nF0 =>
        rw [hf] at h
        obtain ⟨n0, he, hr⟩ := evalExpr_ok p e nF0 hm.1.2 hf
        obtain ⟨r0, s0, f0, rfl⟩ := (evalExpr_noMut p e _ hm.1.2).2 hm.1.1 n0 (by rw [he])
        have hd := evalExpr_fresh p e _ _ hm.1.2 he
        rw [hf] at hd
        simp at hd
        subst hd
        simp only [deref, ownCls] at h
        by_cases hc : classHas p (·.hasFields) (some r0.cls) = true
        · simp only [hc, if_true] at h
          cases hl : evalFreshList p cs with
          | error x => rw [hl] at h; simp at h
          | ok nsF =>
            obtain ⟨ns, hes, hrs⟩ := evalList_ok p cs nsF hm.2 hl
            refine ⟨extendSubs ns (.obj r0 s0 f0), ?_, ?_⟩
            · simp [evalExpr, he, nodeCls, hc, hes, mutate_obj]
            · simp only [RefsOK, Bool.and_eq_true] at hr
              simp [extendSubs, RefsOK, RefsOKList_append, hr.1, hr.2, hrs]
        · simp [hc] at h
    | .on e ty cs, nF, hm, h => by
      simp only [mutatesShared, Bool.or_eq_false_iff] at hm
      simp only [evalFresh] at h
      cases hf : evalFresh p e with
      | error x => rw [hf] at h; simp at h
      | ok nF0 =>
        rw [hf] at h
        obtain ⟨n0, he, hr⟩ := evalExpr_ok p e nF0 hm.1.2 hf
        obtain ⟨r0, s0, f0, rfl⟩ := (evalExpr_noMut p e _ hm.1.2).2 hm.1.1 n0 (by rw [he])
        have hd := evalExpr_fresh p e _ _ hm.1.2 he
        rw [hf] at hd
        simp at hd
        subst hd
        simp only [deref, ownCls] at h
        by_cases hc : classHas p (·.hasOn) (some r0.cls) = true
        · simp only [hc, if_true] at h
          cases hl : evalFreshList p cs with
          | error x => rw [hl] at h; simp at h
          | ok nsF =>
            obtain ⟨ns, hes, hrs⟩ := evalList_ok p cs nsF hm.2 hl
            refine ⟨setFrag ty ns (.obj r0 s0 f0), ?_, ?_⟩
            · simp [evalExpr, he, nodeCls, hc, hes, mutate_obj]
            · simp only [RefsOK, Bool.and_eq_true] at hr
              simp only [setFrag, RefsOK, Bool.and_eq_true]
              exact ⟨hr.1, RefsOKFrags_set _ ty ns hrs f0 hr.2⟩
        · simp [hc] at h
  theorem evalList_ok (p : Package) : ∀ (es : List Expr) (nsF : List Node), mutatesSharedList es = false →
      evalFreshList p es = .ok nsF →
      ∃ ns, evalList p es p.initStore = (.ok ns, p.initStore) ∧ RefsOKList p.initStore ns = true
    | [], nsF, _, _ => ⟨[], rfl, rfl⟩
    | e :: es, nsF, hm, h => by
      simp only [mutatesSharedList, Bool.or_eq_false_iff] at hm
      simp only [evalFreshList] at h
      cases hf : evalFresh p e with
      | error x => rw [hf] at h; simp at h
      | ok nF0 =>
        rw [hf] at h
        cases hl : evalFreshList p es with
        | error x => rw [hl] at h; simp at h
        | ok nsF0 =>
          obtain ⟨n0, he, hr⟩ := evalExpr_ok p e nF0 hm.1 hf
          obtain ⟨ns, hes, hrs⟩ := evalList_ok p es nsF0 hm.2 hl
          exact ⟨n0 :: ns, by simp [evalList, he, hes], by simp [RefsOKList, hr, hrs]⟩
end

/-- an operation `evalFresh` accepts, without mutators on class-level objects, over a pristine process:
    the builder sends a document -/
theorem runOp_sends (p : Package) (E : Op) (hE : opMutatesShared E = false)
    (hI : (Intended p E).isSome = true) : ∃ d, (runOp p E p.initStore).1 = .ok d := by
  unfold Intended at hI
  cases hl : evalFreshList p E.fields with
  | error x => rw [hl] at hI; simp at hI
  | ok nsF =>
    obtain ⟨ns, hes, hrs⟩ := evalList_ok p E.fields nsF hE hl
    obtain ⟨d, hd⟩ := execOp_ok (initStore_pristine p) E.opType E.name ns hrs
    exact ⟨d, by simp [runOp, hes, hd]⟩

end Ariadne.C14
