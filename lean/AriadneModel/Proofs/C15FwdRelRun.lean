/-
  C15: ClientForwardRefs inside a longer plugin list, hook call by hook call — the run with `a ++ [ClientForwardRefs] ++ b`
  compared with the run with `a ++ b`, for ANY list `a` and a list `b` made of ExtractOperations, NoReimports and the
  identity plugin (no ShorterResults after ClientForwardRefs).

  ClientForwardRefs overrides `generate_client_module` only: everywhere else both runs hand every plugin the same
  objects and record the same things; at `generate_client_module` the plugins of `a` run first, ClientForwardRefs
  rewrites what comes out, the plugins of `b` put their imports in front.
-/
import AriadneModel.Proofs.C15FwdRel

set_option linter.unusedSimpArgs false
set_option linter.unusedVariables false

namespace Ariadne.C15
open Ariadne Ariadne.Py Ariadne.Plugins Ariadne.ClientSem

structure FRel (k : Nat) (f : FwdState) (P Q : PipeState) : Prop where
  lists : ∃ a b, NoSF b ∧ b.countP PState.isExtract = k ∧ P.plugins = a ++ .fwd f :: b ∧ Q.plugins = a ++ b
  methods : P.methodsOut = Q.methodsOut
  imports : P.importsOut = Q.importsOut
  gql : P.gqlOut = Q.gqlOut
  cls : P.classOut = Q.classOut
  init : P.initImports = Q.initImports

theorem frel_input (k : Nat) (f : FwdState) (P Q : PipeState) (e : Event) (h : FRel k f P Q) : inputFor P e = inputFor Q e := by
  unfold inputFor; rw [h.methods, h.imports, h.gql, h.cls, h.init]

theorem fwd_step_eq (c : Call) (f : FwdState) (x : Payload) :
    PState.step c (.fwd f) x = (fwdStep c f x >>= fun r => pure (PState.fwd r.1, r.2)) := by
  simp only [PState.step]

theorem fwdStep_other (c : Call) (hc : c.hook ≠ "generate_client_module") (f : FwdState) (x : Payload) :
    fwdStep c f x = .ok (f, x) := by
  unfold fwdStep
  split
  · exfalso; simp_all
  · rfl

/-- the plugins after ClientForwardRefs that put an import in front: as many as there are ExtractOperations among them;
    before `generate_client_module` the plugin objects keep their kinds, so the count is that of the configured list -/
theorem applyAll_countE (c : Call) : ∀ (l l' : List PState) (x y : Payload), applyAll PState.step c l x = .ok (l', y) →
    l'.countP PState.isExtract = l.countP PState.isExtract := by
  intro l
  induction l with
  | nil => intro l' x y h; simp [applyAll, List.foldlM, pure, Except.pure] at h; rw [h.1]
  | cons p rest ih =>
    intro l' x y h
    rw [applyAll_cons] at h
    cases hs : PState.step c p x with
    | error err => rw [hs] at h; cases h
    | ok r =>
      rw [hs] at h
      simp only [bind_ok] at h
      cases hr : applyAll PState.step c rest r.2 with
      | error err => rw [hr] at h; cases h
      | ok r' =>
        rw [hr] at h
        simp only [bind_ok, pure_eq_ok, Except.ok.injEq, Prod.mk.injEq] at h
        rw [← h.1]
        simp only [List.countP_cons]
        rw [ih r'.1 r.2 r'.2 (by rw [hr])]
        have hk : PState.isExtract r.1 = PState.isExtract p := by
          cases p with
          | shorter s =>
            simp only [PState.step] at hs
            cases h1 : shorterStep c s x with
            | error e => simp [h1, bind, Except.bind] at hs
            | ok q => simp [h1, bind, Except.bind, pure, Except.pure] at hs; rw [← hs]; rfl
          | extract s =>
            rw [extract_step_eq] at hs
            cases h1 : extractStep c s x with
            | error e => rw [h1] at hs; cases hs
            | ok q => rw [h1] at hs; simp only [bind_ok, pure_eq_ok, Except.ok.injEq] at hs; rw [← hs]; rfl
          | fwd s =>
            rw [fwd_step_eq] at hs
            cases h1 : fwdStep c s x with
            | error e => rw [h1] at hs; cases hs
            | ok q => rw [h1] at hs; simp only [bind_ok, pure_eq_ok, Except.ok.injEq] at hs; rw [← hs]; rfl
          | noReimports => simp only [PState.step, pure_eq_ok, Except.ok.injEq] at hs; rw [← hs]
          | identity => simp only [PState.step, pure_eq_ok, Except.ok.injEq] at hs; rw [← hs]
        rw [hk]

theorem stepEvent_frel (k : Nat) (f : FwdState) (P Q : PipeState) (e : Event) (hc : e.call.hook ≠ "generate_client_module")
    (h : FRel k f P Q) (Q' : PipeState) (hQ : stepEvent Q e = .ok Q') :
    ∃ P', stepEvent P e = .ok P' ∧ FRel k f P' Q' := by
  obtain ⟨a, b, hnb, hk, hP, hQp⟩ := h.lists
  have hin := frel_input k f P Q e h
  cases hma : applyAll PState.step e.call a (inputFor Q e) with
  | error err =>
    exfalso
    have : manager e.call Q.plugins (inputFor Q e) = .error err := by
      unfold manager; rw [hQp, applyAll_append, hma]; rfl
    rw [stepEvent_of_manager_error Q e err this] at hQ
    cases hQ
  | ok ra =>
    cases hmb : applyAll PState.step e.call b ra.2 with
    | error err =>
      exfalso
      have : manager e.call Q.plugins (inputFor Q e) = .error err := by
        unfold manager; rw [hQp, applyAll_append, hma]; simp only [bind_ok]; rw [hmb]; rfl
      rw [stepEvent_of_manager_error Q e err this] at hQ
      cases hQ
    | ok rb =>
      have hnb' : NoSF rb.1 := applyAll_nosf e.call b rb.1 _ rb.2 hnb (by rw [hmb])
      have hmQ : manager e.call Q.plugins (inputFor Q e) = .ok (ra.1 ++ rb.1, rb.2) := by
        unfold manager; rw [hQp, applyAll_append, hma]; simp only [bind_ok]; rw [hmb]; rfl
      have hmP : manager e.call P.plugins (inputFor P e) = .ok (ra.1 ++ .fwd f :: rb.1, rb.2) := by
        unfold manager
        rw [hin, hP, applyAll_append, hma]
        simp only [bind_ok]
        rw [applyAll_cons, fwd_step_eq, fwdStep_other e.call hc]
        simp only [bind_ok, pure_eq_ok]
        rw [hmb]
        rfl
      rw [stepEvent_of_manager Q e _ _ hmQ] at hQ
      have hQ' := (Except.ok.inj hQ).symm
      refine ⟨_, stepEvent_of_manager P e _ _ hmP, ?_⟩
      rw [hQ', hin]
      obtain ⟨g1, g2, g3, g4, g5, g6, g7⟩ := record_fields
        { P with plugins := ra.1 ++ .fwd f :: rb.1, trace := P.trace ++ [(e.call, inputFor Q e, rb.2)] }
        { Q with plugins := ra.1 ++ rb.1, trace := Q.trace ++ [(e.call, inputFor Q e, rb.2)] }
        e.call rb.2 h.methods h.imports h.gql h.cls h.init
      exact ⟨⟨ra.1, rb.1, hnb', (applyAll_countE e.call b rb.1 _ rb.2 (by rw [hmb])).trans hk, g1, g2⟩, g3, g4, g5, g6, g7⟩

theorem runPipeline_frel (evs : List Event) (hno : ∀ e ∈ evs, e.call.hook ≠ "generate_client_module") :
    ∀ (k : Nat) (f : FwdState) (P Q : PipeState), FRel k f P Q → (runPipeline Q evs).2 = none →
      (runPipeline P evs).2 = none ∧ FRel k f (runPipeline P evs).1 (runPipeline Q evs).1 := by
  induction evs with
  | nil => intro k f P Q h _; exact ⟨rfl, h⟩
  | cons e rest ih =>
    intro k f P Q h hQ
    unfold runPipeline at hQ ⊢
    cases hs : stepEvent Q e with
    | error err => rw [hs] at hQ; cases hQ
    | ok Q' =>
      rw [hs] at hQ
      obtain ⟨P', hP', hrel⟩ := stepEvent_frel k f P Q e (hno e (by simp)) h Q' hs
      rw [hP']
      exact ih (fun e' he' => hno e' (by simp [he'])) k f P' Q' hrel hQ

theorem eFrame_length (l : List PState) : (eFrame l).length = l.countP PState.isExtract := by
  unfold eFrame
  rw [List.length_reverse]
  induction l with
  | nil => rfl
  | cons p rest ih =>
    cases p <;> simp [List.filterMap_cons, List.countP_cons, PState.isExtract, ih]

theorem stepEvent_frel_cm (k : Nat) (f : FwdState) (P Q : PipeState) (e : Event) (hc : e.call.hook = "generate_client_module")
    (h : FRel k f P Q) (M : Module) (hX : inputFor Q e = .module M) (Q' : PipeState) (hQ : stepEvent Q e = .ok Q') :
    ∃ b Min, NoSF b ∧ b.countP PState.isExtract = k ∧
      Q'.finalOf "generate_client_module" = some (.module { body := eFrame b ++ Min.body }) ∧
      (match fwdClientModule f Min with
       | .error err => stepEvent P e = .error err
       | .ok r => ∃ P', stepEvent P e = .ok P' ∧ FRel k r.1 P' Q' ∧
           P'.finalOf "generate_client_module" = some (.module { body := eFrame b ++ r.2.body })) := by
  obtain ⟨a, b, hnb, hk, hP, hQp⟩ := h.lists
  have hin := frel_input k f P Q e h
  have hbeq : (e.call.hook == "generate_client_module") = true := by rw [hc]; decide
  cases hma : applyAll PState.step e.call a (.module M) with
  | error err =>
    exfalso
    have : manager e.call Q.plugins (inputFor Q e) = .error err := by
      unfold manager; rw [hX, hQp, applyAll_append, hma]; rfl
    rw [stepEvent_of_manager_error Q e err this] at hQ
    cases hQ
  | ok ra =>
    obtain ⟨Min, hMin⟩ := applyAll_keeps_module e.call a ra.1 M ra.2 (by rw [hma])
    have hbQ := nosf_cm e.call hc b hnb Min
    have hmQ : manager e.call Q.plugins (inputFor Q e) = .ok (ra.1 ++ b, .module { body := eFrame b ++ Min.body }) := by
      unfold manager; rw [hX, hQp, applyAll_append, hma]; simp only [bind_ok]; rw [hMin, hbQ]; rfl
    rw [stepEvent_of_manager Q e _ _ hmQ] at hQ
    have hQ' := (Except.ok.inj hQ).symm
    refine ⟨b, Min, hnb, hk, ?_, ?_⟩
    · rw [hQ', record_cm _ e.call hc, finalOf_eq, finalOfTrace_snoc]
      simp [hbeq]
    · have hS : fwdStep e.call f (.module Min) = (fwdClientModule f Min >>= fun r => pure (r.1, .module r.2)) := by
        unfold fwdStep
        simp only [hc]
      cases hsc : fwdClientModule f Min with
      | error err =>
        simp only
        have : manager e.call P.plugins (inputFor P e) = .error err := by
          unfold manager
          rw [hin, hX, hP, applyAll_append, hma]
          simp only [bind_ok]
          rw [hMin, applyAll_cons, fwd_step_eq, hS, hsc]
          rfl
        exact stepEvent_of_manager_error P e err this
      | ok r =>
        simp only
        have hbP := nosf_cm e.call hc b hnb r.2
        have hmP : manager e.call P.plugins (inputFor P e) = .ok (ra.1 ++ .fwd r.1 :: b, .module { body := eFrame b ++ r.2.body }) := by
          unfold manager
          rw [hin, hX, hP, applyAll_append, hma]
          simp only [bind_ok]
          rw [hMin, applyAll_cons, fwd_step_eq, hS, hsc]
          simp only [bind_ok, pure_eq_ok]
          rw [hbP]
          rfl
        have e1 := stepEvent_of_manager P e _ _ hmP
        refine ⟨_, e1, ?_, ?_⟩
        · rw [hQ', record_cm _ e.call hc, record_cm _ e.call hc]
          exact ⟨⟨ra.1, b, hnb, hk, rfl, rfl⟩, h.methods, h.imports, h.gql, h.cls, h.init⟩
        · rw [stepEvent_finalOf P _ e e1, record_cm _ e.call hc]
          simp [hbeq]

theorem frel_opsFile (k : Nat) (f : FwdState) (P Q : PipeState) (h : FRel k f P Q) : P.opsFile? = Q.opsFile? := by
  obtain ⟨a, b, _, _, hP, hQ⟩ := h.lists
  unfold PipeState.opsFile?
  rw [hP, hQ]
  simp [List.reverse_append, List.findSome?_append, List.findSome?_cons]

/-! ### the whole run -/

theorem fwd_rel_pipeline (a b : List PState) (hnb : NoSF b) (f0 : FwdState) (pre post : List Event) (cm : Event)
    (hcm : cm.call.hook = "generate_client_module")
    (hpre : ∀ e ∈ pre, e.call.hook ≠ "generate_client_module")
    (hpost : ∀ e ∈ post, e.call.hook ≠ "generate_client_module")
    (M : Module) (hM : inputFor (runPipeline { plugins := a ++ b } pre).1 cm = .module M)
    (hQ : (runPipeline { plugins := a ++ b } (pre ++ cm :: post)).2 = none) :
    ∃ fr Min, ImportsOnly fr ∧ fr.length = b.countP PState.isExtract ∧
      (runPipeline { plugins := a ++ b } (pre ++ cm :: post)).1.clientModule? = some { body := fr ++ Min.body } ∧
      (match fwdClientModule f0 Min with
       | .error err => (runPipeline { plugins := a ++ .fwd f0 :: b } (pre ++ cm :: post)).2 = some err
       | .ok r => (runPipeline { plugins := a ++ .fwd f0 :: b } (pre ++ cm :: post)).2 = none ∧
           (runPipeline { plugins := a ++ .fwd f0 :: b } (pre ++ cm :: post)).1.clientModule? = some { body := fr ++ r.2.body } ∧
           (runPipeline { plugins := a ++ .fwd f0 :: b } (pre ++ cm :: post)).1.opsFile? =
             (runPipeline { plugins := a ++ b } (pre ++ cm :: post)).1.opsFile?) := by
  have h0 : FRel (b.countP PState.isExtract) f0 { plugins := a ++ .fwd f0 :: b } { plugins := a ++ b } :=
    ⟨⟨a, b, hnb, rfl, rfl, rfl⟩, rfl, rfl, rfl, rfl, rfl⟩
  have hQpre : (runPipeline { plugins := a ++ b } pre).2 = none := by
    rw [runPipeline_append] at hQ
    cases hp : (runPipeline { plugins := a ++ b } pre).2 with
    | none => rfl
    | some err => rw [hp] at hQ; simp at hQ
  obtain ⟨hp1, hrel⟩ := runPipeline_frel pre hpre _ f0 _ _ h0 hQpre
  -- the step of the run without ClientForwardRefs at `generate_client_module`
  have hQ2 := hQ
  rw [runPipeline_append, hQpre] at hQ2
  simp only at hQ2
  cases e2 : stepEvent (runPipeline { plugins := a ++ b } pre).1 cm with
  | error err =>
    exfalso
    unfold runPipeline at hQ2
    rw [e2] at hQ2
    cases hQ2
  | ok Q1 =>
    obtain ⟨b1, Min, hnb1, hk1, hfQ, hmatch⟩ := stepEvent_frel_cm _ f0 _ _ cm hcm hrel M hM Q1 e2
    have hrunQ : runPipeline { plugins := a ++ b } (pre ++ cm :: post) = runPipeline Q1 post := by
      rw [runPipeline_append, hQpre]; simp only; conv => lhs; unfold runPipeline
      rw [e2]
    have hQpost : (runPipeline Q1 post).2 = none := by rw [← hrunQ]; exact hQ
    refine ⟨eFrame b1, Min, eFrame_imports b1, by rw [eFrame_length, hk1], ?_, ?_⟩
    · rw [hrunQ]; unfold PipeState.clientModule?; rw [runPipeline_finalOf post _ hpost Q1, hfQ]
    · cases hsc : fwdClientModule f0 Min with
      | error err =>
        rw [hsc] at hmatch
        simp only at hmatch ⊢
        rw [runPipeline_append, hp1]
        simp only
        conv => lhs; unfold runPipeline
        rw [hmatch]
      | ok r =>
        rw [hsc] at hmatch
        simp only at hmatch ⊢
        obtain ⟨P1, e1, hrel1, hfP⟩ := hmatch
        have hrunP : runPipeline { plugins := a ++ .fwd f0 :: b } (pre ++ cm :: post) = runPipeline P1 post := by
          rw [runPipeline_append, hp1]; simp only; conv => lhs; unfold runPipeline
          rw [e1]
        obtain ⟨hr1, hrelpost⟩ := runPipeline_frel post hpost _ r.1 P1 Q1 hrel1 hQpost
        refine ⟨by rw [hrunP]; exact hr1, ?_, ?_⟩
        · rw [hrunP]; unfold PipeState.clientModule?; rw [runPipeline_finalOf post _ hpost P1, hfP]
        · rw [hrunP, hrunQ]; exact frel_opsFile _ _ _ _ hrelpost

end Ariadne.C15
