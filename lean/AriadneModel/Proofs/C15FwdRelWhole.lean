/-
  C15: `fwd_relative` — adding ClientForwardRefs to a plugin list, after ANY plugins and before plugins that only put
  imports in front (ExtractOperations, NoReimports, the identity plugin), preserves the whole-pipeline statement: if the
  list WITHOUT ClientForwardRefs satisfies it (package generated and loading, prescribed projection, same behaviour)
  and the module ClientForwardRefs is handed has the generator's form (`genShapedFR`), then the list WITH
  ClientForwardRefs satisfies it too — every method gets its validated class imported in the body, sends the same
  request and handles every response in the same way.
-/
import AriadneModel.Proofs.C15FwdRelRun

set_option linter.unusedSimpArgs false
set_option linter.unusedVariables false

namespace Ariadne.C15
open Ariadne Ariadne.Py Ariadne.Plugins Ariadne.ClientSem

theorem splitAtFwd_spec : ∀ (l a b : List PState), splitAtFwd l = some (a, b) → ∃ f, l = a ++ .fwd f :: b := by
  intro l
  induction l with
  | nil => intro a b h; simp [splitAtFwd] at h
  | cons p rest ih =>
    intro a b h
    cases p with
    | fwd f =>
      simp only [splitAtFwd, Option.some.injEq, Prod.mk.injEq] at h
      obtain ⟨rfl, rfl⟩ := h
      exact ⟨f, rfl⟩
    | shorter s =>
      simp only [splitAtFwd] at h
      cases hr : splitAtFwd rest with
      | none => rw [hr] at h; cases h
      | some ab =>
        obtain ⟨a', b'⟩ := ab
        rw [hr] at h
        simp only [Option.some.injEq, Prod.mk.injEq] at h
        obtain ⟨rfl, rfl⟩ := h
        obtain ⟨f, hf⟩ := ih a' b' hr
        exact ⟨f, by rw [hf]; rfl⟩
    | extract s =>
      simp only [splitAtFwd] at h
      cases hr : splitAtFwd rest with
      | none => rw [hr] at h; cases h
      | some ab =>
        obtain ⟨a', b'⟩ := ab
        rw [hr] at h
        simp only [Option.some.injEq, Prod.mk.injEq] at h
        obtain ⟨rfl, rfl⟩ := h
        obtain ⟨f, hf⟩ := ih a' b' hr
        exact ⟨f, by rw [hf]; rfl⟩
    | noReimports =>
      simp only [splitAtFwd] at h
      cases hr : splitAtFwd rest with
      | none => rw [hr] at h; cases h
      | some ab =>
        obtain ⟨a', b'⟩ := ab
        rw [hr] at h
        simp only [Option.some.injEq, Prod.mk.injEq] at h
        obtain ⟨rfl, rfl⟩ := h
        obtain ⟨f, hf⟩ := ih a' b' hr
        exact ⟨f, by rw [hf]; rfl⟩
    | identity =>
      simp only [splitAtFwd] at h
      cases hr : splitAtFwd rest with
      | none => rw [hr] at h; cases h
      | some ab =>
        obtain ⟨a', b'⟩ := ab
        rw [hr] at h
        simp only [Option.some.injEq, Prod.mk.injEq] at h
        obtain ⟨rfl, rfl⟩ := h
        obtain ⟨f, hf⟩ := ih a' b' hr
        exact ⟨f, by rw [hf]; rfl⟩

theorem fresh_fwd (f : FwdState) (h : PState.isFresh (.fwd f) = true) : f = {} := by
  cases f
  simp only [PState.isFresh, Bool.and_eq_true, List.isEmpty_iff] at h
  obtain ⟨⟨h1, h2⟩, h3⟩ := h
  subst h1; subst h2; subst h3
  rfl

theorem clash_insert_fwd (x : Input) (a b : List PState) (f : FwdState) :
    trigOpsModuleClash { x with plugins := a ++ .fwd f :: b } = trigOpsModuleClash { x with plugins := a ++ b } := by
  unfold trigOpsModuleClash
  simp [List.any_append, List.any_cons]

theorem any_shorter_insert_fwd (a b : List PState) (f : FwdState) :
    (a ++ .fwd f :: b).any PState.isShorter = (a ++ b).any PState.isShorter := by
  simp [List.any_append, List.any_cons, PState.isShorter]

theorem fragmentsModuleNameOf_insert_fwd (a b : List PState) (f : FwdState) :
    fragmentsModuleNameOf (a ++ .fwd f :: b) = fragmentsModuleNameOf (a ++ b) := by
  unfold fragmentsModuleNameOf
  simp [List.findSome?_append, List.findSome?_cons]

theorem expectedProj_insert_fwd (x : Input) (a b : List PState) (f : FwdState) (m : Method) :
    expectedProj (a ++ .fwd f :: b) x m = expectedProj (a ++ b) x m := by
  unfold expectedProj
  rw [any_shorter_insert_fwd, fragmentsModuleNameOf_insert_fwd]

theorem isImpB_eq (t : Top) : isImpB t = isImp t := by
  unfold isImpB isImp
  split
  · rfl
  · rfl
  · split
    · exfalso; simp_all
    · exfalso; simp_all
    · rfl

theorem noAsB_sound (pre : List Top) (h : noAsB pre = true) : NoAs pre := by
  intro t ht i hti nm hnm
  unfold noAsB at h
  rw [List.all_eq_true] at h
  have := h t ht
  rw [hti] at this
  simp only [List.all_eq_true] at this
  have := this nm hnm
  simpa using this

theorem fwdOutcome_name (IC : List (String × String)) (m m' : Method) (h : FwdOutcome IC m m') : m'.name = m.name := by
  obtain ⟨s, src, _, _, rfl⟩ := h
  rfl

theorem fwd_relative (x : Input) (a b : List PState) (hsp : splitAtFwd x.plugins = some (a, b))
    (hnb : NoSF b) (hfresh : x.plugins.all PState.isFresh = true)
    (hL : loadsB (a ++ b) x = true ∧ projOKB (a ++ b) x = true ∧ SameBehaviour (a ++ b) x)
    (hg : genShapedFR x = true) :
    loadsB x.plugins x = true ∧ projOKB x.plugins x = true ∧ SameBehaviour x.plugins x := by
  obtain ⟨f0, hps⟩ := splitAtFwd_spec _ _ _ hsp
  have hf0 : f0 = {} := by
    rw [List.all_eq_true] at hfresh
    exact fresh_fwd f0 (hfresh _ (by rw [hps]; simp))
  subst hf0
  obtain ⟨hLloads, hLproj, hLsame⟩ := hL
  unfold genShapedFR at hg
  rw [hsp] at hg
  simp only at hg
  split at hg
  rotate_left
  · cases hg
  rename_i pre cm post B0 hsplit hB0
  simp only [Bool.and_eq_true] at hg
  obtain ⟨⟨⟨hpayload, hpost⟩, hgql⟩, hrest⟩ := hg
  obtain ⟨hevs, hcm, hpre⟩ := splitAt_spec x.events pre cm post hsplit
  rw [List.all_eq_true] at hpost
  have hpostcm : ∀ e ∈ post, e.call.hook ≠ "generate_client_module" := by
    intro e he
    have := hpost e he
    simpa using this
  obtain ⟨mp, hmp⟩ : ∃ mp, cm.payload = .module mp := by
    split at hpayload
    · exact ⟨_, by assumption⟩
    · cases hpayload
  -- the run with the list WITHOUT ClientForwardRefs
  have hrunL : runWith (a ++ b) x = runPipeline { plugins := a ++ b } x.events := rfl
  have hLloads' := hLloads
  unfold loadsB at hLloads'
  simp only [Bool.and_eq_true] at hLloads'
  obtain ⟨⟨herrL, hmodL⟩, hclashL⟩ := hLloads'
  have herrL' : (runPipeline { plugins := a ++ b } x.events).2 = none := by
    rw [← hrunL]; simpa using herrL
  have hB0' : (runWith (a ++ b) x).1.clientModule? = some B0 := hB0
  rw [hB0'] at hmodL
  simp only [Bool.and_eq_true] at hmodL
  obtain ⟨⟨⟨hfmt0, hann0⟩, hwell0⟩, himp0⟩ := hmodL
  obtain ⟨M, hM⟩ := inputFor_cm_module (runPipeline { plugins := a ++ b } pre).1 cm hcm mp hmp
  obtain ⟨fr, Min, hfr, hlen, hcmL, hplug⟩ := fwd_rel_pipeline a b hnb {} pre post cm hcm hpre hpostcm M hM (by rw [← hevs]; exact herrL')
  rw [← hevs] at hcmL hplug
  have hBeq : B0 = { body := fr ++ Min.body } := by
    have : (runWith (a ++ b) x).1.clientModule? = some { body := fr ++ Min.body } := hcmL
    rw [hB0'] at this
    exact Option.some.inj this
  have hdrop : ({ body := B0.body.drop (b.countP PState.isExtract) } : Module) = Min := by
    rw [hBeq, ← hlen]
    simp only [List.drop_left]
  rw [hdrop] at hrest
  split at hrest
  rotate_left
  · cases hrest
  rename_i pre0 g C0 hsc
  obtain ⟨hbodyM, hnc0⟩ := splitClient_spec Min pre0 g C0 hsc
  simp only [Bool.and_eq_true] at hrest
  obtain ⟨⟨⟨⟨⟨⟨⟨⟨hA1, hA2⟩, hA3⟩, hA4⟩, hA5⟩, hA6⟩, hA7⟩, hA8⟩, hA9⟩ := hrest
  have hncB : NoClass (fr ++ pre0) := by
    intro t ht
    rcases List.mem_append.mp ht with h | h
    · exact importsOnly_noClass hfr t h
    · exact hnc0 t h
  have hbodyB : B0.body = (fr ++ pre0) ++ [.funcDef g, .classDef C0] := by
    rw [hBeq]; simp only [hbodyM, List.append_assoc]
  generalize hops : (runWith (a ++ b) x).1.opsFile? = ops at hwell0 himp0 hA9
  have hgql' : "gql" ∈ moduleNames B0 := by simpa using hgql
  -- hypotheses of the framed module-level theorem
  have H : FwdHypsR (knownModules x ops) fr ops Min pre0 g C0 := by
    rw [hBeq] at hfmt0 hann0 hwell0 himp0 hgql' hA9
    refine ⟨hfr, hbodyM, hnc0, ?_, ?_, noAsB_sound pre0 hA3, ?_, ?_, ?_, ?_, ?_, ?_, hgql', hfmt0, hann0, hwell0, ?_⟩
    · intro t ht
      rw [← isImpB_eq]
      exact (List.all_eq_true.mp hA1) t ht
    · intro h0; rw [h0] at hA2; simp at hA2
    · intro h0; rw [h0] at hA4; simp at hA4
    · intro md hmd
      have := (List.all_eq_true.mp hA5) md hmd
      cases hs : shapeOf md with
      | none => rw [hs] at this; cases this
      | some s =>
        rw [hs] at this
        simp only [Bool.and_eq_true, decide_eq_true_eq] at this
        obtain ⟨h1, h2⟩ := this
        unfold ahas at h2
        cases hl : alookup s.retClass (icOf Min) with
        | none => rw [hl] at h2; cases h2
        | some src => exact ⟨s, src, rfl, h1, hl⟩
    · rw [List.any_eq_true] at hA6
      obtain ⟨md, hmd, h⟩ := hA6
      rw [List.any_eq_true] at h
      obtain ⟨n, hn, h2⟩ := h
      exact ⟨md, hmd, n, hn, h2⟩
    · intro md hmd n hn
      have := (List.all_eq_true.mp ((List.all_eq_true.mp hA7) md hmd)) n hn
      simpa using this
    · intro md hmd s hs
      have := (List.all_eq_true.mp hA8) md hmd
      rw [hs] at this
      simp only [Bool.and_eq_true, List.all_eq_true] at this
      obtain ⟨h1, h2⟩ := this
      refine ⟨by simpa using h1, ?_⟩
      intro n hn
      simpa using h2 n hn
    · intro md hmd s src hs hsrc
      have := (List.all_eq_true.mp hA9) md hmd
      rw [hs] at this
      simp only [hsrc] at this
      simpa using this
    · intro i hi q hq
      unfold importsExistB at himp0
      rw [List.all_eq_true] at himp0
      have := himp0 i hi
      rw [hq] at this
      simpa using this
  -- ClientForwardRefs does not raise; what it returns
  obtain ⟨r, hr⟩ := fwd_no_crash_rel _ fr ops Min pre0 g C0 H
  rw [hr] at hplug
  simp only at hplug
  rw [← hps] at hplug
  obtain ⟨hp1, hp2, hp3⟩ := hplug
  have C := fwd_concl_rel _ fr ops Min r.2 r.1 pre0 g C0 H (by rw [hr])
  obtain ⟨C1, hfc1, hper⟩ := C.cls
  have hfc0 : B0.firstClass? = some C0 := firstClass_of_body B0 (fr ++ pre0) g C0 hbodyB hncB
  have hrun : runWith x.plugins x = runPipeline { plugins := x.plugins } x.events := rfl
  have hp3' : (runPipeline { plugins := x.plugins } x.events).1.opsFile? = ops := by rw [hp3, ← hrunL, hops]
  have hpkg1 : pkgOf x.plugins x = { client := { body := fr ++ r.2.body }, ops := ops } := by
    unfold pkgOf; rw [hrun, hp2, hp3']; rfl
  have hpkgL : pkgOf (a ++ b) x = { client := B0, ops := ops } := by
    unfold pkgOf; rw [hB0', hops]; rfl
  rw [← hBeq] at C
  -- looking a method up by name, without and with ClientForwardRefs
  have hfind : ∀ n : String, finalMethod (a ++ b) x n = none ∧ finalMethod x.plugins x n = none ∨
      ∃ md md', finalMethod (a ++ b) x n = some md ∧ finalMethod x.plugins x n = some md' ∧
        FwdOutcome (icOf Min) md md' ∧ md ∈ C0.methods := by
    intro n
    unfold finalMethod
    rw [hB0', hrun, hp2]
    simp only [hfc0, hfc1, Option.map_some, Option.getD_some]
    exact ItemsRel.find (fwdOutcome_name _) n hper
  have hexp : ∀ m, expectedProj x.plugins x m = expectedProj (a ++ b) x m := by
    intro m; rw [hps]; exact expectedProj_insert_fwd x a b {} m
  refine ⟨?_, ?_, ?_⟩
  · -- loadsB
    unfold loadsB
    simp only [hrun, hp1, hp2, hp3']
    have hclash : trigOpsModuleClash { x with plugins := x.plugins } = false := by
      have h1 : trigOpsModuleClash { x with plugins := a ++ b } = false := by simpa using hclashL
      have h2 := clash_insert_fwd x a b {}
      rw [h1, ← hps] at h2
      exact h2
    have himp : importsExistB x { body := fr ++ r.2.body } ops = true := by
      unfold importsExistB
      rw [List.all_eq_true]
      intro i hi
      cases hq : relModule i with
      | none => rfl
      | some q => simpa using C.imp i hi q hq
    simp [C.fmt, C.ann, C.well, himp, hclash]
  · -- projOKB
    unfold projOKB at hLproj ⊢
    rw [List.all_eq_true] at hLproj ⊢
    intro m hm
    have h0 := hLproj m hm
    unfold finalShape at h0 ⊢
    rcases hfind m.name with ⟨hn0, _⟩ | ⟨md, md', hf0, hf1, hpm, hmem⟩
    · rw [hn0] at h0; simp at h0
    · rw [hf0] at h0
      rw [hf1]
      simp only [Option.bind_some] at h0 ⊢
      obtain ⟨s, src, hs, hsrc, hmd'⟩ := hpm
      rw [hs] at h0
      have hs' : shapeOf md' = some (withImport s { module := some src, names := [(s.retClass, none)], level := 0 }) :=
        shapeOf_bodyOf md' _ (by rw [hmd'])
      rw [hs', hexp]
      exact h0
  · -- SameBehaviour
    intro m hm s0 hs0
    obtain ⟨sL, hsL, hreqL, hrespL⟩ := hLsame m hm s0 hs0
    unfold finalShape at hsL ⊢
    rcases hfind m.name with ⟨hn0, _⟩ | ⟨md, md', hf0, hf1, hpm, hmem⟩
    · rw [hn0] at hsL; simp at hsL
    · rw [hf0] at hsL
      simp only [Option.bind_some] at hsL
      rw [hf1, hpkg1, hexp]
      rw [hpkgL] at hreqL hrespL
      obtain ⟨s, src, hs, hsrc, hmd'⟩ := hpm
      have hss : s = sL := by rw [hs] at hsL; exact Option.some.inj hsL
      subst hss
      have hs' : shapeOf md' = some (withImport s (fwdImport src s.retClass)) :=
        shapeOf_bodyOf md' _ (by rw [hmd']; rfl)
      obtain ⟨hreq, hresp⟩ := C.sem md hmem s src hs hsrc
      refine ⟨_, by simpa using hs', ?_, ?_⟩
      · rw [hreq]; exact hreqL
      · intro PyV validate getattr d
        rw [hresp PyV validate getattr d, hrespL PyV validate getattr d]

end Ariadne.C15
