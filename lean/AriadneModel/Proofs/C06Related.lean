/-
  C06: `InputRel.related` (the hypothesis `Proved_06` of the acceptance theorem) is ESTABLISHED BY THE
  GENERATOR for every schema in the decidable class `wf06`: names are unique, every field type
  resolves, no definition is called like a specified scalar / a Python builtin the annotations use,
  enum members do not collide, no finding trigger fires, and every default literal is `plainLit`
  (no object literal; a list literal only at a list type).  So for those schemas `Proved_06` is a
  theorem, not a measured hypothesis; what is left unproved is the region of object-literal defaults
  (and structured literals on custom scalars).
-/
import AriadneModel.Proofs.C06Accept
import AriadneModel.Proofs.C06Readback
import AriadneModel.Proofs.C06Deps
import AriadneModel.Model.InputWf
import AriadneModel.Proofs.C06Source

set_option linter.unusedSimpArgs false
set_option linter.unusedVariables false
set_option linter.unusedSectionVars false

namespace Ariadne.C06Related
open Ariadne
open Ariadne.InputGen (TypeRef Lit PyExpr InputField TypeDef constValue constValues)
open Ariadne.InputField Ariadne.CoerceInput Ariadne.PydInput Ariadne.InputRel Ariadne.InputWf
open Ariadne.C06Readback (plainLit plainLits EnumOk)

/-! ### finding by a unique name -/

theorem find_filterMap {α β : Type} (g : α → Option β) (ka : α → String) (kb : β → String)
    (hk : ∀ a b, g a = some b → kb b = ka a) : ∀ (l : List α), strDistinct (l.map ka) = true →
    ∀ a ∈ l, ∀ b, g a = some b → (l.filterMap g).find? (fun y => kb y == ka a) = some b := by
  intro l
  induction l with
  | nil => intro _ a ha; cases ha
  | cons z l ih =>
    intro hd a ha b hg
    have hinj := C06Accept.strDistinct_inj ka (z :: l) hd
    have hd' : strDistinct (l.map ka) = true := by
      simp only [List.map, strDistinct, Bool.and_eq_true] at hd
      exact hd.2
    by_cases hza : z = a
    · subst hza
      simp [List.filterMap_cons, hg, hk z b hg]
    · have ha' : a ∈ l := by
        rcases List.mem_cons.mp ha with h | h
        · exact absurd h.symm hza
        · exact h
      cases hz : g z with
      | none => simpa [List.filterMap_cons, hz] using ih hd' a ha' b hg
      | some bz =>
        have hne : ¬ ka z = ka a := fun h => hza (hinj z (List.mem_cons_self ..) a ha h)
        have hb : (kb bz == ka a) = false := by rw [hk z bz hz]; simpa using hne
        simp only [List.filterMap_cons, hz, List.find?_cons, hb]
        exact ih hd' a ha' b hg

theorem find_filterMap_none {α β : Type} (g : α → Option β) (ka : α → String) (kb : β → String)
    (hk : ∀ a b, g a = some b → kb b = ka a) (n : String) : ∀ (l : List α), (∀ a ∈ l, ka a ≠ n) →
    (l.filterMap g).find? (fun y => kb y == n) = none := by
  intro l h
  rw [List.find?_eq_none]
  intro b hb
  obtain ⟨a, ha, hg⟩ := List.mem_filterMap.mp hb
  have := h a ha
  rw [← hk a b hg] at this
  simpa using this

/-! ### the definitions graphql-core accepts -/

def defNames (defs : List TypeDef) : List String := defs.map TypeDef.name

theorem findDef_of_mem (defs : List TypeDef) (hd : strDistinct (defNames defs) = true) (d : TypeDef) (h : d ∈ defs) :
    InputGen.findDef defs d.name = some d := by
  unfold InputGen.findDef
  exact C06Accept.find_of_distinct TypeDef.name defs hd d h

theorem findDef_none (defs : List TypeDef) (n : String) (h : ∀ d ∈ defs, d.name ≠ n) : InputGen.findDef defs n = none := by
  unfold InputGen.findDef
  rw [List.find?_eq_none]
  intro d hd
  simpa using h d hd

theorem kindOf_input (cfg : Cfg) (defs : List TypeDef) (hd : strDistinct (defNames defs) = true) (n : String)
    (fs : List InputField) (h : TypeDef.input n fs ∈ defs) : kindOf cfg defs n = .input := by
  have := findDef_of_mem defs hd _ h
  simp only [TypeDef.name] at this
  simp [kindOf, this]

theorem kindOf_enum (cfg : Cfg) (defs : List TypeDef) (hd : strDistinct (defNames defs) = true) (n : String)
    (vs : List String) (h : TypeDef.enum n vs ∈ defs) : kindOf cfg defs n = .enum := by
  have := findDef_of_mem defs hd _ h
  simp only [TypeDef.name] at this
  simp [kindOf, this]

theorem kindOf_scalar (cfg : Cfg) (defs : List TypeDef) (hd : strDistinct (defNames defs) = true) (n : String)
    (h : TypeDef.scalar n ∈ defs) : kindOf cfg defs n = scalarKind cfg n := by
  have := findDef_of_mem defs hd _ h
  simp only [TypeDef.name] at this
  simp [kindOf, this]

/-! ### the shape of the generated module and of the coercion schema -/

section
variable (cfg : Cfg) (defs : List TypeDef) (acc : String → J → Bool) (lax : Lax)

/-- the environment of the previous round, against which the last round's `default_factory`s run -/
def prevEnv : Env := iterEnv acc lax (classes cfg defs) (enumsOf defs) (defs.length + 1)
/-- the last round, before `broken` is computed -/
def lastEnv : Env := iterEnv acc lax (classes cfg defs) (enumsOf defs) (defs.length + 2)
def prevSchema : CSchema := iterSchema defs (defs.length + 1)

theorem mkEnv_classes : (mkEnv cfg defs acc lax).classes = (classes cfg defs).map (classSpecOf (prevEnv cfg defs acc lax)) := rfl
theorem lastEnv_classes : (lastEnv cfg defs acc lax).classes = (classes cfg defs).map (classSpecOf (prevEnv cfg defs acc lax)) := rfl
theorem mkEnv_enums : (mkEnv cfg defs acc lax).enums = enumsOf defs := rfl
theorem lastEnv_enums : (lastEnv cfg defs acc lax).enums = enumsOf defs := rfl
theorem prevEnv_enums : (prevEnv cfg defs acc lax).enums = enumsOf defs := rfl
theorem mkEnv_lax : (mkEnv cfg defs acc lax).lax = lax := rfl
theorem mkSchema_types : (mkSchema defs).types = defs.filterMap (stepType (prevSchema defs)) := rfl

theorem mkEnv_enum? (n : String) : (mkEnv cfg defs acc lax).enum? n = ((enumsOf defs).find? (·.1 == n)).map (·.2) := rfl
theorem lastEnv_enum? (n : String) : (lastEnv cfg defs acc lax).enum? n = ((enumsOf defs).find? (·.1 == n)).map (·.2) := rfl
theorem prevEnv_enum? (n : String) : (prevEnv cfg defs acc lax).enum? n = ((enumsOf defs).find? (·.1 == n)).map (·.2) := rfl

theorem classOf_name (K : String → Kind) (d : TypeDef) (c : ClassDecl) (h : classOf cfg K d = some c) : c.name = d.name := by
  cases d <;> simp [classOf, genClass] at h
  subst h; rfl

/-- the class of an input type of the schema -/
theorem mkEnv_class? (hd : strDistinct (defNames defs) = true) (n : String) (fs : List InputField)
    (h : TypeDef.input n fs ∈ defs) :
    (mkEnv cfg defs acc lax).class? n
      = some (classSpecOf (prevEnv cfg defs acc lax) (genClass cfg (kindOf cfg defs) n fs)) := by
  unfold Env.class?
  rw [mkEnv_classes]
  unfold classes
  rw [List.map_filterMap]
  exact find_filterMap (fun d => (classOf cfg (kindOf cfg defs) d).map (classSpecOf (prevEnv cfg defs acc lax)))
    TypeDef.name (·.name)
    (by
      intro a b hab
      cases hc : classOf cfg (kindOf cfg defs) a with
      | none => simp [hc] at hab
      | some c =>
        simp only [hc, Option.map_some, Option.some.injEq] at hab
        subst hab
        exact classOf_name cfg _ a c hc)
    defs hd (.input n fs) h _ rfl

theorem enumOf_name (d : TypeDef) (e : String × List (String × String))
    (h : (match d with | .enum n vs => some ((InputGen.genEnum n vs).name, (InputGen.genEnum n vs).members) | _ => none) = some e) :
    e.1 = d.name := by
  cases d <;> simp at h
  subst h; rfl

theorem enumsOf_eq : enumsOf defs = defs.filterMap (fun d => match d with
    | .enum n vs => some ((InputGen.genEnum n vs).name, (InputGen.genEnum n vs).members) | _ => none) := by
  unfold enumsOf InputGen.enumResults
  rw [List.map_filterMap]
  congr 1
  funext d
  cases d <;> rfl

theorem enums_find (hd : strDistinct (defNames defs) = true) (n : String) (vs : List String)
    (h : TypeDef.enum n vs ∈ defs) :
    ((enumsOf defs).find? (·.1 == n)).map (·.2) = some (InputGen.genEnum n vs).members := by
  rw [enumsOf_eq]
  have := find_filterMap (fun d => match d with
      | .enum n vs => some ((InputGen.genEnum n vs).name, (InputGen.genEnum n vs).members) | _ => none)
    TypeDef.name (fun (e : String × List (String × String)) => e.1) (fun a b hab => enumOf_name a b hab) defs hd (.enum n vs) h _ rfl
  simp only [TypeDef.name] at this
  rw [this]
  rfl

theorem enums_find_none (n : String) (h : ∀ d ∈ defs, d.name ≠ n) : ((enumsOf defs).find? (·.1 == n)).map (·.2) = none := by
  rw [enumsOf_eq]
  rw [find_filterMap_none _ TypeDef.name (fun (e : String × List (String × String)) => e.1) (fun a b hab => enumOf_name a b hab) n defs h]
  rfl

theorem stepType_name (prev : CSchema) (d : TypeDef) (ct : CType) (h : stepType prev d = some ct) : ct.name = d.name := by
  cases d <;> simp [stepType] at h <;> subst h <;> rfl

theorem mkSchema_find (hd : strDistinct (defNames defs) = true) (d : TypeDef) (h : d ∈ defs) (ct : CType)
    (hs : stepType (prevSchema defs) d = some ct) : (mkSchema defs).find? d.name = some ct := by
  unfold CSchema.find?
  rw [mkSchema_types]
  exact find_filterMap (stepType (prevSchema defs)) TypeDef.name CType.name (stepType_name _) defs hd d h ct hs

theorem mkSchema_find_none (n : String) (h : ∀ d ∈ defs, d.name ≠ n) : (mkSchema defs).find? n = none := by
  unfold CSchema.find?
  rw [mkSchema_types]
  exact find_filterMap_none (stepType (prevSchema defs)) TypeDef.name CType.name (stepType_name _) n defs h

end

/-! ### plain literals coerce the same in every round of `iterSchema` -/

/-- two schemas agree on what a name is (scalar / enum with its values / input object) -/
def simT : Option CType → Option CType → Prop
  | some (.scalar _), some (.scalar _) => True
  | some (.enum _ va), some (.enum _ vb) => va = vb
  | some (.input _ _), some (.input _ _) => True
  | none, none => True
  | _, _ => False

theorem stepSchema_sim (p1 p2 : CSchema) (n : String) : ∀ (defs : List TypeDef),
    simT ((stepSchema p1 defs).find? n) ((stepSchema p2 defs).find? n) := by
  intro defs
  unfold CSchema.find? stepSchema
  induction defs with
  | nil => simp [simT]
  | cons d ds ih =>
    cases d with
    | composite m => simpa [List.filterMap_cons, stepType] using ih
    | enum m vs =>
      simp only [List.filterMap_cons, stepType, List.find?_cons, CType.name]
      cases (m == n) with
      | true => simp [simT]
      | false => exact ih
    | scalar m =>
      simp only [List.filterMap_cons, stepType, List.find?_cons, CType.name]
      cases (m == n) with
      | true => simp [simT]
      | false => exact ih
    | input m fs =>
      simp only [List.filterMap_cons, stepType, List.find?_cons, CType.name]
      cases (m == n) with
      | true => simp [simT]
      | false => exact ih

theorem litLeaf_sim (s1 s2 : CSchema) (n : String) (l : Lit) (h : simT (s1.find? n) (s2.find? n)) :
    litLeaf s1 n l = litLeaf s2 n l := by
  unfold litLeaf
  cases litBuiltin n l with
  | some r => rfl
  | none =>
    simp only
    cases h1 : s1.find? n with
    | none =>
      cases h2 : s2.find? n with
      | none => rfl
      | some c2 => rw [h1, h2] at h; cases c2 <;> simp [simT] at h
    | some c1 =>
      cases h2 : s2.find? n with
      | none => rw [h1, h2] at h; cases c1 <;> simp [simT] at h
      | some c2 =>
        rw [h1, h2] at h
        cases c1 <;> cases c2 <;> simp [simT] at h <;> first | rfl | (subst h; rfl)

mutual
  theorem coerceLit_sim (s1 s2 s : CSchema) (ft : String) (hs : ∀ n, simT (s1.find? n) (s2.find? n)) :
      ∀ (l : Lit) (t : TypeRef), plainLit s ft t l = true → coerceLit s1 t l = coerceLit s2 t l
    | .null, t, _ => by simp [coerceLit]
    | .int v, t, _ => by simp only [coerceLit, litLeaf_sim s1 s2 _ _ (hs _)]
    | .float v, t, _ => by simp only [coerceLit, litLeaf_sim s1 s2 _ _ (hs _)]
    | .str v, t, _ => by simp only [coerceLit, litLeaf_sim s1 s2 _ _ (hs _)]
    | .bool v, t, _ => by simp only [coerceLit, litLeaf_sim s1 s2 _ _ (hs _)]
    | .enum v, t, _ => by simp only [coerceLit, litLeaf_sim s1 s2 _ _ (hs _)]
    | .obj kvs, t, hp => by simp [plainLit] at hp
    | .list xs, t, hp => by
      simp only [plainLit] at hp
      cases hu : CoerceInput.unNN t with
      | named n => rw [hu] at hp; simp at hp
      | nonNull t' => rw [hu] at hp; simp at hp
      | list it =>
        simp only [hu] at hp
        simp only [coerceLit, hu, coerceLits_sim s1 s2 s ft hs xs it hp]
  theorem coerceLits_sim (s1 s2 s : CSchema) (ft : String) (hs : ∀ n, simT (s1.find? n) (s2.find? n)) :
      ∀ (xs : List Lit) (t : TypeRef), plainLits s ft t xs = true → coerceLits s1 t xs = coerceLits s2 t xs
    | [], _, _ => by simp [coerceLits]
    | x :: xs, t, hp => by
      simp only [plainLits, Bool.and_eq_true] at hp
      simp only [coerceLits, coerceLit_sim s1 s2 s ft hs x t hp.1, coerceLits_sim s1 s2 s ft hs xs t hp.2]
end

/-- the last round's defaults are the final schema's -/
theorem coerceLit_prev (defs : List TypeDef) (s : CSchema) (ft : String) (l : Lit) (t : TypeRef) (hp : plainLit s ft t l = true) :
    coerceLit (prevSchema defs) t l = coerceLit (mkSchema defs) t l :=
  coerceLit_sim _ _ s ft (fun n => stepSchema_sim _ _ n defs) l t hp

/-! ### what `wf06` / `supported` / `validDefs` say about one field -/

section
variable (cfg : Cfg) (defs : List TypeDef) (acc : String → J → Bool) (lax : Lax)

/-- `Properties/C06.lean: validDefs` (restated here so that the proofs do not depend on the property file) -/
def validDefs' (defs : List TypeDef) : Bool :=
  strDistinct (defs.map TypeDef.name) &&
  defs.all fun
    | .input _ fs =>
      strDistinct (fs.map (·.name)) &&
        fs.all (fun f => match f.default with
          | some lit => isOk (coerceLit (mkSchema defs) f.type lit)
          | none => true)
    | _ => true

structure FieldFacts (f : InputField) : Prop where
  ann : ∃ a ft, annOf (kindOf cfg defs) f.type true = some (a, ft) ∧
    ∀ lit, f.default = some lit → plainLit (mkSchema defs) ft f.type lit = true ∧ ∃ d, coerceLit (mkSchema defs) f.type lit = .ok d
  f1 : trigNullableListItem f.type = false

theorem fieldFacts (hv : validDefs' defs = true) (hw : wf06 cfg defs = true) (hs : supported cfg defs = true)
    (n : String) (fs : List InputField) (h : TypeDef.input n fs ∈ defs) (f : InputField) (hf : f ∈ fs) :
    FieldFacts cfg defs f := by
  simp only [validDefs', Bool.and_eq_true, List.all_eq_true] at hv
  simp only [wf06, Bool.and_eq_true, List.all_eq_true] at hw
  simp only [supported, List.all_eq_true] at hs
  have hv1 := hv.2 _ h
  have hw1 := hw.2 _ h
  have hs1 := hs _ h
  simp only [Bool.and_eq_true, List.all_eq_true] at hv1 hw1 hs1
  have hvf := hv1.2 f hf
  have hwf := hw1 f hf
  have hsf := hs1.2 f hf
  constructor
  · unfold fieldPlain at hwf
    cases ha : annOf (kindOf cfg defs) f.type true with
    | none => simp [ha] at hwf
    | some p =>
      obtain ⟨a, ft⟩ := p
      refine ⟨a, ft, rfl, ?_⟩
      intro lit hl
      simp only [ha, hl] at hwf
      simp only [hl] at hvf
      refine ⟨hwf, ?_⟩
      cases hc : coerceLit (mkSchema defs) f.type lit with
      | ok d => exact ⟨d, rfl⟩
      | error e => simp [hc, isOk] at hvf
  · simp only [fieldSupported, fieldTriggers, List.all_cons, Bool.and_eq_true, Bool.not_eq_true'] at hsf
    exact hsf.1

/-- an enum the final schema knows is an enum definition -/
theorem enum_def_of_find (n : String) (vals : List String) (h : (mkSchema defs).find? n = some (.enum n vals)) :
    TypeDef.enum n vals ∈ defs := by
  unfold CSchema.find? at h
  rw [mkSchema_types] at h
  have hm := List.mem_of_find?_eq_some h
  obtain ⟨d, hd, hst⟩ := List.mem_filterMap.mp hm
  cases d <;> simp [stepType] at hst
  obtain ⟨rfl, rfl⟩ := hst
  exact hd

/-- the enum classes of the module behave: every non-keyword value is a member under its own name -/
theorem enumOk_of_wf (hd : strDistinct (defNames defs) = true) (hw : wf06 cfg defs = true) (env : Env)
    (henv : ∀ n, env.enum? n = ((enumsOf defs).find? (·.1 == n)).map (·.2))
    (ft : String) (vals : List String) (h : (mkSchema defs).find? ft = some (.enum ft vals)) : EnumOk env ft vals := by
  have hmem := enum_def_of_find defs ft vals h
  refine ⟨(InputGen.genEnum ft vals).members, by rw [henv, enums_find defs hd ft vals hmem], ?_⟩
  intro x hx hkw
  simp only [wf06, Bool.and_eq_true, List.all_eq_true] at hw
  have := hw.2 _ hmem
  simp only [enumMembersOk, List.all_eq_true] at this
  have := this x hx
  have hkw' : ¬ x ∈ Tables.kwlist := by simpa using hkw
  simpa [hkw, hkw'] using this

/-- one generated field and its schema field are `fieldRel` -/
theorem fieldRel_gen (hd : strDistinct (defNames defs) = true) (hw : wf06 cfg defs = true)
    (f : InputField) (hf : FieldFacts cfg defs f) :
    ∃ d, genField cfg (kindOf cfg defs) f = some d ∧
      fieldRel (kindOf cfg defs) (stepField (prevSchema defs) f) (specOf (prevEnv cfg defs acc lax) d) = true := by
  obtain ⟨⟨a, ft, ha, hlit⟩, hf1⟩ := hf
  have hgen : ∃ d, genField cfg (kindOf cfg defs) f = some d := by simp [genField, ha]
  obtain ⟨d, hd'⟩ := hgen
  refine ⟨d, hd', ?_⟩
  obtain ⟨a', ft', ha', hann, hpy, hdef, hal⟩ := genField_default cfg _ f d hd'
  rw [ha] at ha'
  simp only [Option.some.injEq, Prod.mk.injEq] at ha'
  obtain ⟨rfl, rfl⟩ := ha'
  have hname : (stepField (prevSchema defs) f).name = f.name := rfl
  have htype : (stepField (prevSchema defs) f).type = f.type := rfl
  have hkey : (specOf (prevEnv cfg defs acc lax) d).key = f.name := by
    simp only [FieldSpec.key, specOf, hal, hpy]
    by_cases hp : (pyName cfg.snake f.name != f.name) = true
    · simp [hp]
    · have : pyName cfg.snake f.name = f.name := by simpa using hp
      simp [this]
  unfold fieldRel
  rw [hname, htype, hkey, ha, hf1]
  simp only [beq_self_eq_true, Bool.true_and, Bool.not_false, Bool.and_true, Bool.and_eq_true]
  refine ⟨⟨by simp [specOf, hann], ?_⟩, ?_⟩
  · -- required iff non-null without default
    have hsp : (specOf (prevEnv cfg defs acc lax) d).default.isNone = (InputGen.fieldDefault .sdl ft f).isNone := by
      simp [specOf, hdef]
    cases hfd : f.default with
    | none =>
      have hcf : (stepField (prevSchema defs) f).default = none := by simp [stepField, hfd]
      rw [hsp, hcf]
      simp only [InputGen.fieldDefault, hfd]
      cases f.type.isNonNull <;> simp
    | some lit =>
      obtain ⟨hpl, dv, hco⟩ := hlit lit hfd
      have hcf : (stepField (prevSchema defs) f).default = some (.ok dv) := by
        simp only [stepField, hfd, coerceLit_prev defs _ _ lit f.type hpl, hco]
      rw [hsp, hcf]
      simp [InputGen.fieldDefault, hfd]
  · -- every default evaluates
    simp only [specOf, hdef]
    cases hfd : f.default with
    | none =>
      simp only [InputGen.fieldDefault, hfd]
      cases f.type.isNonNull <;> simp [evalDefault, evalExpr]
    | some lit =>
      obtain ⟨hpl, dv, hco⟩ := hlit lit hfd
      obtain ⟨pv, hev, _⟩ := C06Readback.default_readback (mkSchema defs) (prevEnv cfg defs acc lax) ft
        (fun vals hfind => enumOk_of_wf cfg defs hd hw _ (prevEnv_enum? cfg defs acc lax) _ vals hfind) lit f.type dv hpl hco
      simp [InputGen.fieldDefault, hfd, hev]

/-! ### the module imports: no default is a syntax error, every plain default evaluates -/

theorem nameSyntaxError_plain (ft x : String) (hne : ft ≠ "") (hkw : Tables.kwlist.contains x = false)
    (hdot : ∀ c ∈ x.toList, c ≠ '.') : nameSyntaxError (ft ++ "." ++ x) = false := by
  have hs := C06Readback.splitName_concat ft x hdot
  have hne' : (ft == "") = false := by simpa using hne
  have hkw' : ¬ x ∈ Tables.kwlist := by simpa using hkw
  simp [nameSyntaxError, hs, hne', hkw']

mutual
  theorem noSyntaxError_plain (s : CSchema) (ft : String) : ∀ (l : Lit) (t : TypeRef) (nl no : Bool),
      plainLit s ft t l = true → hasSyntaxError (constValue ft l nl no) = false
    | .null, _, _, _, _ => by simp [constValue, hasSyntaxError]
    | .int _, _, _, _, _ => by simp [constValue, hasSyntaxError]
    | .float _, _, _, _, _ => by simp [constValue, hasSyntaxError]
    | .str _, _, _, _, _ => by simp [constValue, hasSyntaxError]
    | .bool _, _, _, _, _ => by simp [constValue, hasSyntaxError]
    | .enum x, t, _, _, hp => by
      simp only [plainLit, Bool.and_eq_true, beq_iff_eq, bne_iff_ne, ne_eq, Bool.not_eq_true', List.all_eq_true] at hp
      obtain ⟨⟨⟨⟨⟨⟨_, _⟩, hne⟩, hkw⟩, hdot⟩, _⟩, _⟩ := hp
      simp only [constValue, hasSyntaxError]
      exact nameSyntaxError_plain ft x hne hkw (fun c hc => by simpa using hdot c hc)
    | .obj kvs, _, _, _, hp => by simp [plainLit] at hp
    | .list xs, t, nl, no, hp => by
      simp only [plainLit] at hp
      cases hu : CoerceInput.unNN t with
      | named n => rw [hu] at hp; simp at hp
      | nonNull t' => rw [hu] at hp; simp at hp
      | list it =>
        simp only [hu] at hp
        have := noSyntaxError_plains s ft xs it no hp
        cases nl <;> simp [constValue, hasSyntaxError, this]
  theorem noSyntaxError_plains (s : CSchema) (ft : String) : ∀ (xs : List Lit) (t : TypeRef) (no : Bool),
      plainLits s ft t xs = true → anySyntaxError (constValues ft xs no) = false
    | [], _, _, _ => by simp [constValues, anySyntaxError]
    | x :: xs, t, no, hp => by
      simp only [plainLits, Bool.and_eq_true] at hp
      simp [constValues, anySyntaxError, noSyntaxError_plain s ft x t true no hp.1, noSyntaxError_plains s ft xs t no hp.2]
end

theorem declBroken_gen (hd : strDistinct (defNames defs) = true) (hw : wf06 cfg defs = true)
    (f : InputField) (hf : FieldFacts cfg defs f) (d : FieldDecl) (hgen : genField cfg (kindOf cfg defs) f = some d) :
    declBroken (lastEnv cfg defs acc lax) d = false := by
  obtain ⟨⟨a, ft, ha, hlit⟩, _⟩ := hf
  obtain ⟨a', ft', ha', _, _, hdef, _⟩ := genField_default cfg _ f d hgen
  rw [ha] at ha'
  simp only [Option.some.injEq, Prod.mk.injEq] at ha'
  obtain ⟨rfl, rfl⟩ := ha'
  unfold declBroken plainDefault?
  rw [hdef]
  cases hfd : f.default with
  | none =>
    simp only [InputGen.fieldDefault, hfd]
    cases f.type.isNonNull <;> simp [hasSyntaxError, evalExpr]
  | some lit =>
    obtain ⟨hpl, dv, hco⟩ := hlit lit hfd
    have hsyn := noSyntaxError_plain (mkSchema defs) ft lit f.type false false hpl
    have henum : ∀ vals, (mkSchema defs).find? ft = some (.enum ft vals) → EnumOk (lastEnv cfg defs acc lax) ft vals :=
      fun vals hfind => enumOk_of_wf cfg defs hd hw _ (lastEnv_enum? cfg defs acc lax) _ vals hfind
    simp only [InputGen.fieldDefault, hfd, hsyn, Bool.false_or]
    cases lit with
    | list xs => simp [constValue]
    | obj kvs => simp [plainLit] at hpl
    | null =>
      obtain ⟨pv, hev, _⟩ := C06Readback.readback (mkSchema defs) _ ft henum .null f.type dv true false hpl hco
      simp only [constValue] at hev ⊢
      simp [hev]
    | int v =>
      obtain ⟨pv, hev, _⟩ := C06Readback.readback (mkSchema defs) _ ft henum (.int v) f.type dv true false hpl hco
      simp only [constValue] at hev ⊢
      simp [hev]
    | float v =>
      obtain ⟨pv, hev, _⟩ := C06Readback.readback (mkSchema defs) _ ft henum (.float v) f.type dv true false hpl hco
      simp only [constValue] at hev ⊢
      simp [hev]
    | str v =>
      obtain ⟨pv, hev, _⟩ := C06Readback.readback (mkSchema defs) _ ft henum (.str v) f.type dv true false hpl hco
      simp only [constValue] at hev ⊢
      simp [hev]
    | bool v =>
      obtain ⟨pv, hev, _⟩ := C06Readback.readback (mkSchema defs) _ ft henum (.bool v) f.type dv true false hpl hco
      simp only [constValue] at hev ⊢
      simp [hev]
    | enum v =>
      obtain ⟨pv, hev, _⟩ := C06Readback.readback (mkSchema defs) _ ft henum (.enum v) f.type dv true false hpl hco
      simp only [constValue] at hev ⊢
      simp [hev]

/-! ### one class -/

theorem namesDistinct_eq : ∀ (l : List String), namesDistinct l = strDistinct l
  | [] => rfl
  | x :: xs => by simp [namesDistinct, strDistinct, namesDistinct_eq xs]

/-- the fields of a generated class: all generate, they are `fieldRel` to the schema's, and keys /
    Python names are the images of the GraphQL names -/
theorem class_fields (hd : strDistinct (defNames defs) = true) (hw : wf06 cfg defs = true) :
    ∀ (fs : List InputField), (∀ f ∈ fs, FieldFacts cfg defs f) →
    ∃ ds, (fs.map (genField cfg (kindOf cfg defs))).filterMap id = ds
      ∧ (fs.map (genField cfg (kindOf cfg defs))).any Option.isNone = false
      ∧ all2 (fieldRel (kindOf cfg defs)) (fs.map (stepField (prevSchema defs))) (ds.map (specOf (prevEnv cfg defs acc lax))) = true
      ∧ (ds.map (specOf (prevEnv cfg defs acc lax))).map (·.key) = fs.map (·.name)
      ∧ (ds.map (specOf (prevEnv cfg defs acc lax))).map (·.py) = fs.map (fun f => pyName cfg.snake f.name)
      ∧ ds.any (declBroken (lastEnv cfg defs acc lax)) = false := by
  intro fs
  induction fs with
  | nil => intro _; exact ⟨[], rfl, rfl, rfl, rfl, rfl, rfl⟩
  | cons f fs ih =>
    intro hall
    obtain ⟨ds, hds, hany, hall2, hkeys, hpys, hbr⟩ := ih (fun g hg => hall g (List.mem_cons_of_mem _ hg))
    obtain ⟨d, hgen, hrel⟩ := fieldRel_gen cfg defs acc lax hd hw f (hall f (List.mem_cons_self ..))
    obtain ⟨_, _, _, _, hpy, _, _⟩ := genField_default cfg _ f d hgen
    have hbr0 := declBroken_gen cfg defs acc lax hd hw f (hall f (List.mem_cons_self ..)) d hgen
    refine ⟨d :: ds, by simp [List.filterMap_cons, hgen, hds], by simp [hgen, hany], ?_, ?_, ?_, by simp [hbr0, hbr]⟩
    · simp only [List.map_cons, all2, hrel, hall2, Bool.and_self]
    · simp only [List.map_cons, hkeys, C06Accept.fieldRel_key hrel]
      rfl
    · simp only [List.map_cons, hpys]
      simp [specOf, hpy]

theorem py_of_key (snake : Bool) : ∀ (specs : List FieldSpec) (fs : List InputField), specs.map (·.key) = fs.map (·.name) →
    specs.map (·.py) = fs.map (fun f => pyName snake f.name) → ∀ sp ∈ specs, sp.py = pyName snake sp.key := by
  intro specs
  induction specs with
  | nil => intro _ _ _ sp h; cases h
  | cons s0 ss ih =>
    intro fs hk hp sp hm
    cases fs with
    | nil => simp at hk
    | cons f0 fs0 =>
      simp only [List.map_cons, List.cons.injEq] at hk hp
      rcases List.mem_cons.mp hm with rfl | hm'
      · rw [hp.1, hk.1]
      · exact ih fs0 hk.2 hp.2 sp hm'

theorem namesOK_of_trig (snake : Bool) (fs : List InputField) (specs : List FieldSpec)
    (hkeys : specs.map (·.key) = fs.map (·.name)) (hpys : specs.map (·.py) = fs.map (fun f => pyName snake f.name))
    (hdist : strDistinct (fs.map (·.name)) = true) (htrig : trigNameDefect snake fs = false) : namesOK specs = true := by
  simp only [trigNameDefect, Bool.or_eq_false_iff, Bool.not_eq_false', List.any_eq_false, Bool.and_eq_true, bne_iff_ne,
    ne_eq, beq_iff_eq, not_and, List.map_map] at htrig
  obtain ⟨⟨hnd, _⟩, hcross⟩ := htrig
  rw [namesDistinct_eq] at hnd
  simp only [namesOK, Bool.and_eq_true, List.all_eq_true, Bool.or_eq_true, bne_iff_ne, ne_eq, beq_iff_eq]
  refine ⟨⟨by rw [hkeys]; exact hdist, by rw [hpys]; exact hnd⟩, ?_⟩
  intro sp hsp sp' hsp'
  have hpos := py_of_key snake specs fs hkeys hpys
  by_cases hk : sp'.key = sp.py
  · right
    have hpyf : sp.py ∈ fs.map (fun f => pyName snake f.name) := by rw [← hpys]; exact List.mem_map.mpr ⟨sp, hsp, rfl⟩
    obtain ⟨f, hf, hfpy⟩ := List.mem_map.mp hpyf
    have hkg : sp'.key ∈ fs.map (·.name) := by rw [← hkeys]; exact List.mem_map.mpr ⟨sp', hsp', rfl⟩
    obtain ⟨g, hg, hgk⟩ := List.mem_map.mp hkg
    have hgf : g.name = f.name := by
      by_cases hne : g.name = f.name
      · exact hne
      · exfalso
        apply hcross f hf
        simp only [List.any_eq_true, Bool.and_eq_true, bne_iff_ne, ne_eq, beq_iff_eq]
        exact ⟨g, hg, hne, by rw [hfpy, ← hk, hgk]⟩
    rw [hpos sp' hsp', ← hgk, hgf, hfpy]
  · left; exact hk

/-! ### the whole module -/

theorem lookup_mem {α : Type} : ∀ (l : List (String × α)) (k : String) (v : α), l.lookup k = some v → (k, v) ∈ l := by
  intro l
  induction l with
  | nil => intro k v h; simp [List.lookup] at h
  | cons p l ih =>
    intro k v h
    obtain ⟨k0, v0⟩ := p
    simp only [List.lookup] at h
    by_cases hk : k = k0
    · subst hk
      simp at h
      subst h
      exact List.mem_cons_self ..
    · have hb : (k == k0) = false := by simpa using hk
      simp only [hb] at h
      exact List.mem_cons_of_mem _ (ih k v h)

/-- table fact (re-checked against the regenerated tables): every name `INPUT_SCALARS_MAP` knows is a
    specified scalar, or is `Upload` -/
theorem inputScalars_table : Tables.inputScalarsMap.all (fun p => InputGen.specifiedScalars.contains p.1 || p.2 == "Upload") = true := by
  decide +kernel

theorem not_reserved (hw : wf06 cfg defs = true) (d : TypeDef) (h : d ∈ defs) : reservedNames.contains d.name = false := by
  simp only [wf06, Bool.and_eq_true, List.all_eq_true, Bool.not_eq_true'] at hw
  exact hw.1 d h

theorem name_ne_of_reserved (hw : wf06 cfg defs = true) (n : String) (hn : reservedNames.contains n = true) :
    ∀ d ∈ defs, d.name ≠ n := by
  intro d hd he
  have := not_reserved cfg defs hw d hd
  rw [he, hn] at this
  cases this

theorem kindOf_builtin (hw : wf06 cfg defs = true) (n py : String) (hn : reservedNames.contains n = true)
    (hs : InputGen.specifiedScalars.contains n = true) (hl : Tables.inputScalarsMap.lookup n = some py) :
    kindOf cfg defs n = .builtin py := by
  have hnone := findDef_none defs n (name_ne_of_reserved cfg defs hw n hn)
  have hs' : n ∈ InputGen.specifiedScalars := by simpa using hs
  simp [kindOf, hnone, hs', scalarKind, hl]

theorem typeRel_all (hv : validDefs' defs = true) (hw : wf06 cfg defs = true) (hs : supported cfg defs = true) :
    (mkSchema defs).types.all (typeRel (kindOf cfg defs) (mkEnv cfg defs acc lax)) = true := by
  have hv' := hv
  simp only [validDefs', Bool.and_eq_true, List.all_eq_true] at hv'
  have hd : strDistinct (defNames defs) = true := hv'.1
  rw [List.all_eq_true]
  intro ct hct
  rw [mkSchema_types] at hct
  obtain ⟨d, hdm, hst⟩ := List.mem_filterMap.mp hct
  cases d with
  | composite n => simp [stepType] at hst
  | enum n vs =>
    simp only [stepType, Option.some.injEq] at hst
    subst hst
    simp only [typeRel, kindOf_enum cfg defs hd n vs hdm, beq_self_eq_true, Bool.true_and, mkEnv_enum?,
      enums_find defs hd n vs hdm, List.all_eq_true, List.any_eq_true, beq_iff_eq]
    intro v hvv
    refine ⟨(if Tables.kwlist.contains v then v ++ "_" else v, v), ?_, rfl⟩
    simp only [InputGen.genEnum]
    exact List.mem_map.mpr ⟨v, hvv, rfl⟩
  | scalar n =>
    simp only [stepType, Option.some.injEq] at hst
    subst hst
    simp only [typeRel, kindOf_scalar cfg defs hd n hdm]
    unfold scalarKind
    cases hl : Tables.inputScalarsMap.lookup n with
    | none => cases cfg.scalar? n <;> rfl
    | some py =>
      simp only
      have hmem := lookup_mem _ n py hl
      have htab := inputScalars_table
      rw [List.all_eq_true] at htab
      have := htab _ hmem
      simp only [Bool.or_eq_true, beq_iff_eq] at this
      rcases this with hspec | hup
      · have hres : reservedNames.contains n = true := by
          simp only [reservedNames, List.contains_eq_mem, List.mem_append, decide_eq_true_eq] at hspec ⊢
          exact .inl hspec
        have := not_reserved cfg defs hw _ hdm
        simp only [TypeDef.name] at this
        rw [hres] at this
        cases this
      · simpa using hup
  | input n fs =>
    simp only [stepType, Option.some.injEq] at hst
    subst hst
    have hfacts : ∀ f ∈ fs, FieldFacts cfg defs f := fun f hf => fieldFacts cfg defs hv hw hs n fs hdm f hf
    obtain ⟨ds, hds, _, hall2, hkeys, hpys, _⟩ := class_fields cfg defs acc lax hd hw fs hfacts
    have hvf := hv'.2 _ hdm
    simp only [Bool.and_eq_true] at hvf
    have hsf : trigNameDefect cfg.snake fs = false := by
      simp only [supported, List.all_eq_true] at hs
      have := hs _ hdm
      simp only [Bool.and_eq_true, Bool.not_eq_true'] at this
      exact this.1
    have hnames := namesOK_of_trig cfg.snake fs _ hkeys hpys hvf.1 hsf
    simp only [typeRel, kindOf_input cfg defs hd n fs hdm, beq_self_eq_true, Bool.true_and,
      mkEnv_class? cfg defs acc lax hd n fs hdm, classSpecOf, genClass, hds, hall2, hnames, Bool.and_self]

theorem builtinsOK_gen (hw : wf06 cfg defs = true) :
    builtinsOK (kindOf cfg defs) (mkEnv cfg defs acc lax) (mkSchema defs) = true := by
  have hk : ∀ n py, reservedNames.contains n = true → InputGen.specifiedScalars.contains n = true →
      Tables.inputScalarsMap.lookup n = some py →
      (kindOf cfg defs n == .builtin py) = true ∧ ((mkSchema defs).find? n).isNone = true := by
    intro n py h1 h2 h3
    rw [kindOf_builtin cfg defs hw n py h1 h2 h3, mkSchema_find_none defs n (name_ne_of_reserved cfg defs hw n h1)]
    simp
  have he : ∀ n, reservedNames.contains n = true → ((mkEnv cfg defs acc lax).enum? n).isNone = true := by
    intro n h1
    rw [mkEnv_enum?, enums_find_none defs n (name_ne_of_reserved cfg defs hw n h1)]
    rfl
  simp only [builtinsOK, builtinNames, List.all_cons, List.all_nil, Bool.and_true, Bool.and_eq_true]
  refine ⟨⟨hk "Int" "int" (by decide) (by decide) (by decide), hk "Float" "float" (by decide) (by decide) (by decide),
    hk "String" "str" (by decide) (by decide) (by decide), hk "Boolean" "bool" (by decide) (by decide) (by decide),
    hk "ID" "str" (by decide) (by decide) (by decide)⟩,
    he "int" (by decide), he "float" (by decide), he "str" (by decide), he "bool" (by decide), he "Any" (by decide)⟩

theorem mkEnv_broken : (mkEnv cfg defs acc lax).broken
    = ((classes cfg defs).any (fun c => c.fields.any Option.isNone)
        || (classes cfg defs).any (fun c => (c.fields.filterMap id).any (declBroken (lastEnv cfg defs acc lax)))) := rfl

theorem not_broken (hv : validDefs' defs = true) (hw : wf06 cfg defs = true) (hs : supported cfg defs = true) :
    (mkEnv cfg defs acc lax).broken = false := by
  have hv' := hv
  simp only [validDefs', Bool.and_eq_true, List.all_eq_true] at hv'
  have hd : strDistinct (defNames defs) = true := hv'.1
  have hcls : ∀ c ∈ classes cfg defs, c.fields.any Option.isNone = false
      ∧ (c.fields.filterMap id).any (declBroken (lastEnv cfg defs acc lax)) = false := by
    intro c hc
    unfold classes at hc
    obtain ⟨d, hdm, hcd⟩ := List.mem_filterMap.mp hc
    cases d with
    | input n fs =>
      simp only [classOf, Option.some.injEq] at hcd
      subst hcd
      have hfacts : ∀ f ∈ fs, FieldFacts cfg defs f := fun f hf => fieldFacts cfg defs hv hw hs n fs hdm f hf
      obtain ⟨ds, hds, hany, _, _, _, hbr⟩ := class_fields cfg defs acc lax hd hw fs hfacts
      exact ⟨by simpa [genClass] using hany, by simpa [genClass, hds] using hbr⟩
    | enum n vs => simp [classOf] at hcd
    | scalar n => simp [classOf] at hcd
    | composite n => simp [classOf] at hcd
  rw [mkEnv_broken, Bool.or_eq_false_iff, List.any_eq_false, List.any_eq_false]
  exact ⟨fun c hc => by simp [(hcls c hc).1], fun c hc => by simp [(hcls c hc).2]⟩

/-- THE GENERATOR ESTABLISHES `related`: for every schema in the decidable class
    `validDefs ∧ wf06 ∧ supported`, whatever its size -/
theorem related_of_wf (hv : validDefs' defs = true) (hw : wf06 cfg defs = true) (hs : supported cfg defs = true) :
    related (kindOf cfg defs) (mkSchema defs) (mkEnv cfg defs acc lax) = true := by
  simp only [related, Bool.and_eq_true, Bool.not_eq_true']
  exact ⟨⟨typeRel_all cfg defs acc lax hv hw hs, builtinsOK_gen cfg defs acc lax hw⟩, not_broken cfg defs acc lax hv hw hs⟩

end

/-! ### the introspection source: schema with the defaults `build_client_schema` restores, module without them -/

section
open Ariadne.InputSource
open Ariadne.InputGen (Mode)
variable (cfg : Cfg) (defs : List TypeDef) (acc : String → J → Bool) (lax : Lax)

theorem all2_map_congr {α β γ : Type} (R : β → γ → Bool) (h1 h2 : α → β) : ∀ (fs : List α) (specs : List γ),
    (∀ f ∈ fs, ∀ sp, R (h1 f) sp = R (h2 f) sp) → all2 R (fs.map h1) specs = all2 R (fs.map h2) specs := by
  intro fs
  induction fs with
  | nil => intro specs _; rfl
  | cons f fs ih =>
    intro specs h
    cases specs with
    | nil => rfl
    | cons sp specs =>
      simp only [List.map_cons, all2, h f (List.mem_cons_self ..) sp,
        ih specs (fun g hg => h g (List.mem_cons_of_mem _ hg))]

/-- a field whose default the introspection path cannot lose: none, or `= null` on a nullable type -/
theorem no_effective_cases (f : InputField) (h : InputGen.effectiveDefault f = false) :
    f.default = none ∨ (f.default = some .null ∧ f.type.isNonNull = false) := by
  unfold InputGen.effectiveDefault at h
  cases hd : f.default with
  | none => exact .inl rfl
  | some l =>
    cases l <;> simp [hd] at h
    exact .inr ⟨rfl, h⟩

/-- the schema field with its restored default and the schema field the generator saw are
    indistinguishable for `fieldRel` when the default is not an effective one -/
theorem fieldRel_view (K : String → Kind) (p1 p2 : CSchema) (b : Bool) (f : InputField)
    (h : InputGen.effectiveDefault f = false) (sp : FieldSpec) :
    fieldRel K (stepField p1 f) sp = fieldRel K (stepField p2 (viewField (.intro b) f)) sp := by
  rcases no_effective_cases f h with hd | ⟨hd, hnn⟩
  · simp [fieldRel, stepField, viewField, hd]
  · have h1 : (stepField p1 f).default = some (.ok .null) := by simp [stepField, hd, coerceLit, hnn]
    simp [fieldRel, stepField, viewField, hd, coerceLit, hnn]

theorem typeRel_view (K : String → Kind) (env : Env) (p1 p2 : CSchema) (b : Bool) (d : TypeDef)
    (hne : ∀ n fs, d = .input n fs → ∀ f ∈ InputGen.visibleFields (.intro b) fs, InputGen.effectiveDefault f = false)
    (ct : CType) (h1 : stepType p1 (visibleDef (.intro b) d) = some ct) :
    ∃ ct', stepType p2 (viewDef (.intro b) d) = some ct' ∧ ct'.name = ct.name ∧ (typeRel K env ct' = true → typeRel K env ct = true) := by
  cases d with
  | composite n => simp [visibleDef, stepType] at h1
  | enum n vs =>
    simp only [visibleDef, stepType, Option.some.injEq] at h1
    subst h1
    exact ⟨_, rfl, rfl, id⟩
  | scalar n =>
    simp only [visibleDef, stepType, Option.some.injEq] at h1
    subst h1
    exact ⟨_, rfl, rfl, id⟩
  | input n fs =>
    simp only [visibleDef, stepType, Option.some.injEq] at h1
    subst h1
    refine ⟨_, rfl, rfl, ?_⟩
    simp only [viewFields, List.map_map, typeRel]
    intro h
    cases hc : env.class? n with
    | none => simp [hc] at h
    | some c =>
      simp only [hc] at h ⊢
      rw [all2_map_congr (fieldRel K) (stepField p1) (stepField p2 ∘ viewField (.intro b)) _ c.fields
        (fun f hf sp => fieldRel_view K p1 p2 b f (hne n fs rfl f hf) sp)]
      exact h

theorem find_isNone_view (p1 p2 : CSchema) (m : Mode) (n : String) : ∀ (defs : List TypeDef),
    (((defs.map (visibleDef m)).filterMap (stepType p1)).find? (fun c => c.name == n)).isNone
      = (((defs.map (viewDef m)).filterMap (stepType p2)).find? (fun c => c.name == n)).isNone := by
  intro defs
  induction defs with
  | nil => rfl
  | cons d ds ih =>
    cases d with
    | composite k =>
      simp only [List.map_cons, visibleDef, viewDef, List.filterMap_cons, stepType]
      exact ih
    | enum k vs =>
      simp only [List.map_cons, visibleDef, viewDef, List.filterMap_cons, stepType, List.find?_cons, CType.name]
      cases (k == n) with
      | true => rfl
      | false => exact ih
    | scalar k =>
      simp only [List.map_cons, visibleDef, viewDef, List.filterMap_cons, stepType, List.find?_cons, CType.name]
      cases (k == n) with
      | true => rfl
      | false => exact ih
    | input k fs =>
      simp only [List.map_cons, visibleDef, viewDef, List.filterMap_cons, stepType, List.find?_cons, CType.name]
      cases (k == n) with
      | true => rfl
      | false => exact ih

/-- the generator establishes `related` between the schema obtained by introspection (defaults
    restored) and the module generated from it, when no field has an effective default (C06-F8's
    trigger off) and what the generator sees is valid, supported and in `wf06` -/
theorem related_intro_of_wf (b : Bool)
    (hv : validDefs' (viewOf (.intro b) defs) = true) (hw : wf06 cfg (viewOf (.intro b) defs) = true)
    (hs : supported cfg (viewOf (.intro b) defs) = true)
    (hne : ∀ n fs, TypeDef.input n fs ∈ defs → ∀ f ∈ InputGen.visibleFields (.intro b) fs, InputGen.effectiveDefault f = false) :
    related (kindOf cfg defs) (mkSchema (visibleDefs (.intro b) defs)) (mkEnvSrc (.intro b) cfg defs acc lax) = true := by
  have hrel := related_of_wf cfg (viewOf (.intro b) defs) acc lax hv hw hs
  rw [C06Source.kindOf_view] at hrel
  simp only [related, Bool.and_eq_true, Bool.not_eq_true'] at hrel ⊢
  obtain ⟨⟨htypes, hbuiltin⟩, hbroken⟩ := hrel
  refine ⟨⟨?_, ?_⟩, hbroken⟩
  · rw [List.all_eq_true] at htypes ⊢
    intro ct hct
    rw [mkSchema_types] at hct
    obtain ⟨d', hd', hst⟩ := List.mem_filterMap.mp hct
    unfold visibleDefs at hd'
    obtain ⟨d, hd, rfl⟩ := List.mem_map.mp hd'
    obtain ⟨ct', hst', _, himp⟩ := typeRel_view (kindOf cfg defs) (mkEnvSrc (.intro b) cfg defs acc lax) _
      (prevSchema (viewOf (.intro b) defs)) b d (fun n fs he f hf => hne n fs (he ▸ hd) f hf) ct hst
    apply himp
    apply htypes
    rw [mkSchema_types]
    exact List.mem_filterMap.mpr ⟨viewDef (.intro b) d, List.mem_map.mpr ⟨d, hd, rfl⟩, hst'⟩
  · simp only [builtinsOK, Bool.and_eq_true, List.all_eq_true] at hbuiltin ⊢
    refine ⟨?_, hbuiltin.2⟩
    intro p hp
    have := hbuiltin.1 p hp
    refine ⟨this.1, ?_⟩
    have hcong := find_isNone_view (prevSchema (defs.map (visibleDef (.intro b)))) (prevSchema (viewOf (.intro b) defs)) (.intro b) p.1 defs
    unfold CSchema.find?
    rw [mkSchema_types]
    unfold visibleDefs
    rw [hcong]
    have h2 := this.2
    unfold CSchema.find? at h2
    rw [mkSchema_types] at h2
    exact h2

/-! ### from the hypotheses about the schema to the hypotheses about what the generator sees -/

theorem trigNameDefect_names (snake : Bool) (fs gs : List InputField) (h : fs.map (·.name) = gs.map (·.name)) :
    trigNameDefect snake fs = trigNameDefect snake gs := by
  have h3 : ∀ (l : List InputField), (l.any fun f => l.any fun g => g.name != f.name && pyName snake f.name == g.name)
      = ((l.map (·.name)).any fun a => (l.map (·.name)).any fun c => c != a && pyName snake a == c) := by
    intro l
    simp only [List.any_map]
    rfl
  simp only [trigNameDefect, h3, h]

theorem fieldSupported_no_default (X : List TypeDef) (f : InputField) (h : f.default = none) :
    fieldSupported cfg X f = !trigNullableListItem f.type := by
  simp [fieldSupported, fieldTriggers, trigEnumInObjectDefault, trigKeywordEnumDefault, trigObjectInListDefault,
    trigCoercingDefault, trigObjectDefaultOnScalar, h]

theorem strDistinct_filter {α : Type} (k : α → String) (p : α → Bool) : ∀ (l : List α),
    strDistinct (l.map k) = true → strDistinct ((l.filter p).map k) = true := by
  intro l
  induction l with
  | nil => intro _; rfl
  | cons a l ih =>
    intro h
    simp only [List.map_cons, strDistinct, Bool.and_eq_true, Bool.not_eq_true', List.contains_eq_mem,
      decide_eq_false_iff_not, List.mem_map, not_exists, not_and] at h
    by_cases hp : p a = true
    · simp only [List.filter_cons, hp, if_true, List.map_cons, strDistinct, Bool.and_eq_true, Bool.not_eq_true',
        List.contains_eq_mem, decide_eq_false_iff_not, List.mem_map, not_exists, not_and]
      exact ⟨fun x hx => h.1 x (List.mem_filter.mp hx).1, ih h.2⟩
    · simp only [List.filter_cons, hp]
      exact ih h.2

theorem viewFields_names (b : Bool) (fs : List InputField) :
    (viewFields (.intro b) fs).map (·.name) = (InputGen.visibleFields (.intro b) fs).map (·.name) := by
  simp [viewFields, List.map_map, Function.comp, viewField]

theorem visibleFields_distinct (b : Bool) (fs : List InputField) (h : strDistinct (fs.map (·.name)) = true) :
    strDistinct ((InputGen.visibleFields (.intro b) fs).map (·.name)) = true := by
  cases b with
  | true => exact h
  | false => exact strDistinct_filter (·.name) _ fs h

theorem viewField_default_intro (b : Bool) (f : InputField) : (viewField (.intro b) f).default = none := rfl

/-- a valid schema is valid as the generator sees it on the introspection path -/
theorem validDefs_view (b : Bool) (hv : validDefs' defs = true) : validDefs' (viewOf (.intro b) defs) = true := by
  simp only [validDefs', Bool.and_eq_true, List.all_eq_true] at hv ⊢
  refine ⟨?_, ?_⟩
  · have : (viewOf (.intro b) defs).map TypeDef.name = defs.map TypeDef.name := by
      simp [viewOf, List.map_map, Function.comp, C06Source.viewDef_name]
    rw [this]; exact hv.1
  · intro d' hd'
    obtain ⟨d, hd, rfl⟩ := List.mem_map.mp hd'
    cases d with
    | input n fs =>
      have := hv.2 _ hd
      simp only [Bool.and_eq_true] at this
      simp only [viewDef, Bool.and_eq_true, List.all_eq_true]
      refine ⟨by rw [viewFields_names]; exact visibleFields_distinct b fs this.1, ?_⟩
      intro f hf
      obtain ⟨g, _, rfl⟩ := List.mem_map.mp hf
      rfl
    | enum n vs => rfl
    | scalar n => rfl
    | composite n => rfl

/-- `Supported_06` for the introspection source says: what the generator sees is supported, and no
    field has a default the path would lose -/
theorem supported_view_of_src (b : Bool) (h : supportedSrc (.intro b) cfg defs = true) :
    supported cfg (viewOf (.intro b) defs) = true
    ∧ (∀ n fs, TypeDef.input n fs ∈ defs → ∀ f ∈ InputGen.visibleFields (.intro b) fs, InputGen.effectiveDefault f = false) := by
  simp only [supportedSrc, List.all_eq_true] at h
  refine ⟨?_, ?_⟩
  · simp only [supported, List.all_eq_true]
    intro d' hd'
    obtain ⟨d, hd, rfl⟩ := List.mem_map.mp hd'
    cases d with
    | input n fs =>
      have := h _ hd
      simp only [Bool.and_eq_true, Bool.not_eq_true', List.all_eq_true] at this
      simp only [viewDef, Bool.and_eq_true, Bool.not_eq_true', List.all_eq_true]
      refine ⟨by rw [trigNameDefect_names cfg.snake _ _ (viewFields_names b fs)]; exact this.1, ?_⟩
      intro f' hf'
      obtain ⟨f, hf, rfl⟩ := List.mem_map.mp hf'
      have hsf := this.2 f hf
      rw [fieldSupported_no_default cfg _ _ (viewField_default_intro b f)]
      simp only [fieldSupportedSrc, fieldTriggersSrc, List.all_append, Bool.and_eq_true] at hsf
      have h1 := hsf.1
      change fieldSupported cfg defs (viewField (.intro b) f) = true at h1
      rw [fieldSupported_no_default cfg _ _ (viewField_default_intro b f)] at h1
      exact h1
    | enum n vs => rfl
    | scalar n => rfl
    | composite n => rfl
  · intro n fs hd f hf
    have := h _ hd
    simp only [Bool.and_eq_true, Bool.not_eq_true', List.all_eq_true] at this
    have hsf := this.2 f hf
    simp only [fieldSupportedSrc, fieldTriggersSrc, List.all_append, Bool.and_eq_true, List.all_cons, List.all_nil,
      Bool.and_true, Bool.not_eq_true', trigDefaultLostIntro] at hsf
    exact hsf.2

theorem supportedSrc_sdl : supportedSrc .sdl cfg defs = supported cfg defs := by
  unfold supportedSrc supported
  congr 1

end

end Ariadne.C06Related

