/-
  Proofs/C04Errors.lean — where an exception that escapes `main.client` / `PackageGenerator.generate` is raised
  (the origin of every `.error` of `Package.runPackage`), which of those origins a valid input excludes, and what
  has been written when the exception escapes.
-/
import AriadneModel.Model.Package
import AriadneModel.Model.PackageValid
import AriadneModel.Proofs.C04Init
import AriadneModel.Proofs.Prune

set_option linter.unusedSimpArgs false
set_option linter.unusedVariables false

namespace Ariadne.C04Proofs
open Ariadne Ariadne.Gql Ariadne.Util Ariadne.Package Ariadne.PackageValid
open Ariadne.ResultTypes (GenErr pascal)

/-! ### `add_operation` -/

/-- where an exception raised while `main.client` feeds the operations to the package generator comes from -/
inductive OpsErr (cfg : Config) (inp : Input) (fl : Nat) : GenErr → Prop
  | anonymous (o : OpIn) : o ∈ inp.ops → o.op.name = none → OpsErr cfg inp fl (.parsing "Query without name.")
  | resultTypes (o : OpIn) (marks : List Nat) (err : GenErr) : o ∈ inp.ops →
      ResultTypes.generate (rtEnv cfg inp) fl (.op o.op) marks = .error err → OpsErr cfg inp fl err
  | method (o : OpIn) (n : String) (st : Arguments.St) (err : Arguments.GenErr) : o ∈ inp.ops → o.op.name = some n →
      ClientMethod.addMethod (argEnv cfg inp) (opType o.op.kind) o.op.name o.vars (methodName n) (pascal n) o.text cfg.async st = .error err →
      OpsErr cfg inp fl (ofArgErr err)

theorem addOperation_error {cfg : Config} {inp : Input} {fl : Nat} {st : St} {o : OpIn} {err : GenErr} (ho : o ∈ inp.ops)
    (h : addOperation cfg inp fl st o = .error err) : OpsErr cfg inp fl err := by
  unfold addOperation at h
  cases hn : o.op.name with
  | none =>
    rw [hn] at h
    simp only [Except.error.injEq] at h
    subst h
    exact .anonymous o ho hn
  | some n =>
    rw [hn] at h
    simp only at h
    cases hg : ResultTypes.generate (rtEnv cfg inp) fl (.op o.op) st.marks with
    | error e1 =>
      rw [hg] at h
      simp only [Except.error.injEq] at h
      subst h
      exact .resultTypes o st.marks e1 ho hg
    | ok out =>
      rw [hg] at h
      simp only at h
      cases hm : ClientMethod.addMethod (argEnv cfg inp) (opType o.op.kind) (some n) o.vars (methodName n) (pascal n) o.text cfg.async st.argSt with
      | error e2 =>
        rw [hm] at h
        simp only [Except.error.injEq] at h
        subst h
        exact .method o n st.argSt e2 ho hn (by rw [hn]; exact hm)
      | ok r =>
        rw [hm] at h
        obtain ⟨m, a⟩ := r
        simp at h

theorem addOperations_error {cfg : Config} {inp : Input} {fl : Nat} {err : GenErr} :
    ∀ (ops : List OpIn) (st : St), (∀ o ∈ ops, o ∈ inp.ops) → addOperations cfg inp fl st ops = .error err → OpsErr cfg inp fl err
  | [], st, _, h => by simp [addOperations] at h
  | o :: rest, st, hin, h => by
    simp only [addOperations] at h
    cases ha : addOperation cfg inp fl st o with
    | error e1 =>
      rw [ha] at h
      simp only [Except.error.injEq] at h
      subst h
      exact addOperation_error (hin o (by simp)) ha
    | ok st' =>
      rw [ha] at h
      exact addOperations_error rest st' (fun x hx => hin x (by simp [hx])) h

/-! ### `generate()` -/

/-- where an exception raised inside `PackageGenerator.generate` (after the unique-name check) comes from -/
inductive StepsErr (fmt : FmtOracle) (e : Order.EnumOracle) (cfg : Config) (inp : Input) (fl : Nat) (st : St) : GenErr → Prop
  | formatter (m : ModuleIR) : fmt m = false → StepsErr fmt e cfg inp fl st (.internal "InvalidInput")
  | inputs (err : GenErr) : inputsModule cfg inp.defs st.argSt.usedInputs = .error err → StepsErr fmt e cfg inp fl st err
  | fragments (names : List String) (err : Fragments.Err) :
      (Fragments.genFragments (rtEnv cfg inp) fl names st.marks = .error err ∨
       Fragments.generateFragments e (rtEnv cfg inp) fl names st.marks = .error err) → StepsErr fmt e cfg inp fl st (ofFragErr err)

section
variable {fmt : FmtOracle} {e : Order.EnumOracle} {cfg : Config} {inp : Input} {fl : Nat} {st : St}

theorem emit_stepsErr {m : ModuleIR} {g g' : GenSt} {err : GenErr} (h : emit fmt m g = .error (g', err)) :
    StepsErr fmt e cfg inp fl st err := by
  obtain ⟨hf, _, rfl⟩ := emit_error h
  exact .formatter m hf

theorem emitAll_stepsErr : ∀ (ms : List ModuleIR) (g g' : GenSt) (err : GenErr), emitAll fmt ms g = .error (g', err) →
    StepsErr fmt e cfg inp fl st err
  | [], g, g', err, h => by simp [emitAll] at h
  | m :: rest, g, g', err, h => by
    simp only [emitAll] at h
    rcases andThen_error h with h1 | ⟨g1, _, h2⟩
    · exact emit_stepsErr h1
    · exact emitAll_stepsErr rest g1 g' err h2

theorem emitThen_stepsErr {m : ModuleIR} {f : GenSt → GenSt} {g g' : GenSt} {err : GenErr} (h : emitThen fmt m f g = .error (g', err)) :
    StepsErr fmt e cfg inp fl st err := by
  obtain ⟨hf, _, rfl⟩ := emitThen_error h
  exact .formatter m hf

theorem stepInputs_stepsErr {g g' : GenSt} {err : GenErr} (h : stepInputs fmt cfg inp st g = .error (g', err)) :
    StepsErr fmt e cfg inp fl st err := by
  unfold stepInputs at h
  cases hio : inputsModule cfg inp.defs st.argSt.usedInputs with
  | error e1 =>
    rw [hio] at h
    simp only [Except.error.injEq, Prod.mk.injEq] at h
    obtain ⟨_, rfl⟩ := h
    exact .inputs e1 hio
  | ok io =>
    rw [hio] at h
    simp only at h
    exact emitThen_stepsErr h

theorem stepFragments_stepsErr {g g' : GenSt} {err : GenErr} (h : stepFragments fmt e cfg inp fl st g = .error (g', err)) :
    StepsErr fmt e cfg inp fl st err := by
  unfold stepFragments at h
  simp only at h
  split at h
  · simp at h
  · cases hg1 : Fragments.genFragments (rtEnv cfg inp) fl (e (Fragments.remaining (rtEnv cfg inp) st.unpacked)) st.marks with
    | error err1 =>
      rw [hg1] at h
      simp only [Except.error.injEq, Prod.mk.injEq] at h
      obtain ⟨_, rfl⟩ := h
      exact .fragments _ err1 (Or.inl hg1)
    | ok gens =>
      rw [hg1] at h
      cases hg2 : Fragments.generateFragments e (rtEnv cfg inp) fl (e (Fragments.remaining (rtEnv cfg inp) st.unpacked)) st.marks with
      | error err2 =>
        rw [hg2] at h
        simp only [Except.error.injEq, Prod.mk.injEq] at h
        obtain ⟨_, rfl⟩ := h
        exact .fragments _ err2 (Or.inr hg2)
      | ok fo =>
        rw [hg2] at h
        exact emitThen_stepsErr h

/-- every exception escaping `generate()` after the unique-name check is the formatter's, the input types
    generator's, or the fragments generator's -/
theorem generateSteps_error {g g' : GenSt} {err : GenErr} (h : generateSteps fmt e cfg inp fl st g = .error (g', err)) :
    StepsErr fmt e cfg inp fl st err := by
  unfold generateSteps at h
  rcases andThen_error h with h | ⟨g1, _, h⟩
  · exact stepInputs_stepsErr h
  rcases andThen_error h with h | ⟨g2, _, h⟩
  · exact emitAll_stepsErr _ _ _ _ h
  rcases andThen_error h with h | ⟨g3, _, h⟩
  · exact stepFragments_stepsErr h
  rcases andThen_error h with h | ⟨g4, _, h⟩
  · simp [stepCopy] at h
  rcases andThen_error h with h | ⟨g5, _, h⟩
  · simp [stepCustom] at h
  rcases andThen_error h with h | ⟨g6, _, h⟩
  · unfold stepClient at h
    exact emitThen_stepsErr h
  rcases andThen_error h with h | ⟨g7, _, h⟩
  · unfold stepEnums at h
    exact emitThen_stepsErr h
  · unfold stepInit at h
    exact emit_stepsErr h

end

/-! ### the whole run -/

theorem runPackage_cases (fmt : FmtOracle) (e : Order.EnumOracle) (cfg : Config) (inp : Input) (fl : Nat) :
    (∃ err, addOperations cfg inp fl {} inp.ops = .error err ∧
        runPackage fmt e cfg inp fl = { outcome := .error err }) ∨
    (∃ st, addOperations cfg inp fl {} inp.ops = .ok st ∧ hasDup (checkedFileNames cfg (st.files.map (·.1))) = true ∧
        runPackage fmt e cfg inp fl = { outcome := .error (.parsing "Duplicated file names") }) ∨
    (∃ st g err, addOperations cfg inp fl {} inp.ops = .ok st ∧ hasDup (checkedFileNames cfg (st.files.map (·.1))) = false ∧
        generateSteps fmt e cfg inp fl st (genSt0 cfg st) = .error (g, err) ∧
        runPackage fmt e cfg inp fl = { mkdir := true, written := g.log, outcome := .error err }) ∨
    (∃ st g, addOperations cfg inp fl {} inp.ops = .ok st ∧ hasDup (checkedFileNames cfg (st.files.map (·.1))) = false ∧
        generateSteps fmt e cfg inp fl st (genSt0 cfg st) = .ok g ∧
        runPackage fmt e cfg inp fl = { mkdir := true, written := g.log ++ extraWritesOf cfg, outcome := .ok (packageOf cfg g) }) := by
  cases ha : addOperations cfg inp fl {} inp.ops with
  | error err => exact Or.inl ⟨err, rfl, by simp [runPackage, ha]⟩
  | ok st =>
    cases hd : hasDup (checkedFileNames cfg (st.files.map (·.1))) with
    | true => exact Or.inr (Or.inl ⟨st, rfl, hd, by simp [runPackage, ha, hd]⟩)
    | false =>
      cases hg : generateSteps fmt e cfg inp fl st (genSt0 cfg st) with
      | error x =>
        obtain ⟨g, err⟩ := x
        exact Or.inr (Or.inr (Or.inl ⟨st, g, err, rfl, hd, hg, by simp [runPackage, ha, hd, hg]⟩))
      | ok g => exact Or.inr (Or.inr (Or.inr ⟨st, g, rfl, hd, hg, by simp [runPackage, ha, hd, hg]⟩))

/-- the origin of every exception that escapes a run -/
theorem run_error_origin {fmt : FmtOracle} {e : Order.EnumOracle} {cfg : Config} {inp : Input} {fl : Nat} {err : GenErr}
    (h : (runPackage fmt e cfg inp fl).outcome = .error err) :
    OpsErr cfg inp fl err ∨ err = .parsing "Duplicated file names" ∨
      ∃ st, addOperations cfg inp fl {} inp.ops = .ok st ∧ StepsErr fmt e cfg inp fl st err := by
  rcases runPackage_cases fmt e cfg inp fl with ⟨e1, ha, hr⟩ | ⟨st, ha, _, hr⟩ | ⟨st, g, e1, ha, _, hg, hr⟩ | ⟨st, g, ha, _, hg, hr⟩
  · rw [hr] at h
    simp only [Except.error.injEq] at h
    subst h
    exact Or.inl (addOperations_error inp.ops {} (fun _ ho => ho) ha)
  · rw [hr] at h
    simp only [Except.error.injEq] at h
    exact Or.inr (Or.inl h.symm)
  · rw [hr] at h
    simp only [Except.error.injEq] at h
    subst h
    exact Or.inr (Or.inr ⟨st, ha, generateSteps_error hg⟩)
  · rw [hr] at h
    simp at h

/-! ### what a valid input excludes -/

theorem parseTypeNode_ok (env : Arguments.Env) : ∀ (t : TypeRef) (nullable : Bool), isInputKind (env.kind t.base) = true →
    ∃ r, Arguments.parseTypeNode env t nullable = .ok r
  | .named n, nullable, h => by
    simp only [Arguments.parseTypeNode, Arguments.parseNamed]
    simp only [TypeRef.base] at h
    cases hk : env.kind n with
    | none => rw [hk] at h; simp [isInputKind] at h
    | some k =>
      rw [hk] at h
      cases k <;> simp [isInputKind] at h
      · cases Scalars.lookupScalar env.scalars n <;> exact ⟨_, rfl⟩
      · exact ⟨_, rfl⟩
      · exact ⟨_, rfl⟩
  | .list t, nullable, h => by
    obtain ⟨r, hr⟩ := parseTypeNode_ok env t nullable (by simpa [TypeRef.base] using h)
    obtain ⟨a, u⟩ := r
    exact ⟨(.list a nullable, u), by simp [Arguments.parseTypeNode, hr]⟩
  | .nonNull t, nullable, h => by
    simp only [Arguments.parseTypeNode]
    exact parseTypeNode_ok env t false (by simpa [TypeRef.base] using h)

theorem items_ok (env : Arguments.Env) : ∀ defs : List Arguments.VarDef, (∀ v ∈ defs, isInputKind (env.kind v.type.base) = true) →
    ∃ is, Arguments.items env defs = .ok is
  | [], _ => ⟨[], rfl⟩
  | v :: vs, h => by
    obtain ⟨r, hr⟩ := parseTypeNode_ok env v.type true (h v (by simp))
    obtain ⟨is, his⟩ := items_ok env vs (fun x hx => h x (by simp [hx]))
    obtain ⟨a, u⟩ := r
    exact ⟨⟨v.name, ⟨Arguments.pyVar env.snake v.name, a, a.opt⟩, Arguments.dictValue env (Arguments.pyVar env.snake v.name) u, u⟩ :: is,
      by simp [Arguments.items, Arguments.item, hr, his]⟩

/-- `ClientGenerator.add_method` raises only the documented "subscription with a synchronous client" refusal when the
    variables are declared with input types -/
theorem addMethod_error_documented {env : Arguments.Env} {ot : ClientMethod.OpType} {on : Option String} {defs : List Arguments.VarDef}
    {name rt text : String} {async : Bool} {st : Arguments.St} {err : Arguments.GenErr}
    (hv : ∀ v ∈ defs, isInputKind (env.kind v.type.base) = true)
    (h : ClientMethod.addMethod env ot on defs name rt text async st = .error err) :
    err = .notSupported "Subscriptions are only available when using async client." ∧ async = false ∧ ot = .subscription := by
  unfold ClientMethod.addMethod at h
  obtain ⟨is, his⟩ := items_ok env defs hv
  simp only [Arguments.generate, his] at h
  cases ot <;> simp at h
  cases async <;> simp at h
  exact ⟨h.symm, rfl, rfl⟩

theorem annOf_some (kinds : String → InputField.Kind) : ∀ (t : InputGen.TypeRef) (nullable : Bool), inputKindOK (kinds t.base) = true →
    (InputField.annOf kinds t nullable).isSome = true
  | .named n, nullable, h => by
    simp only [InputGen.TypeRef.base] at h
    simp only [InputField.annOf]
    cases hk : kinds n with
    | builtin py => rfl
    | custom ty ser => cases ser <;> rfl
    | any => rfl
    | enum => rfl
    | input => rfl
    | composite => rw [hk] at h; simp [inputKindOK] at h
    | unknown => rw [hk] at h; simp [inputKindOK] at h
  | .list t, nullable, h => by
    have := annOf_some kinds t nullable (by simpa [InputGen.TypeRef.base] using h)
    simp only [InputField.annOf]
    cases hh : InputField.annOf kinds t nullable with
    | none => rw [hh] at this; simp at this
    | some r => obtain ⟨a, ft⟩ := r; rfl
  | .nonNull t, nullable, h => by
    simp only [InputField.annOf]
    exact annOf_some kinds t false (by simpa [InputGen.TypeRef.base] using h)

/-- every input field of the schema is declared with an input type (what graphql-core's schema validation guarantees) -/
def InputFieldsTyped (cfg : Config) (inp : Input) : Prop :=
  ∀ d ∈ inp.defs, ∀ n fs, d = .input n fs → ∀ f ∈ fs, inputKindOK (InputField.kindOf (inputCfg cfg) inp.defs f.type.base) = true

theorem classes_fields_some {cfg : Config} {inp : Input} (hv : InputFieldsTyped cfg inp) :
    (InputField.classes (inputCfg cfg) inp.defs).any (fun c => c.fields.any Option.isNone) = false := by
  cases hc : (InputField.classes (inputCfg cfg) inp.defs).any (fun c => c.fields.any Option.isNone) with
  | false => rfl
  | true =>
    exfalso
    obtain ⟨c, hcm, hany⟩ := List.any_eq_true.mp hc
    obtain ⟨fd, hfd, hnone⟩ := List.any_eq_true.mp hany
    unfold InputField.classes at hcm
    obtain ⟨d, hd, hco⟩ := List.mem_filterMap.mp hcm
    cases d with
    | input n fs =>
      simp only [InputField.classOf, Option.some.injEq] at hco
      subst hco
      simp only [InputField.genClass] at hfd
      obtain ⟨f, hf, rfl⟩ := List.mem_map.mp hfd
      have hk := hv _ hd n fs rfl f hf
      have hs := annOf_some (InputField.kindOf (inputCfg cfg) inp.defs) f.type true hk
      simp only [InputField.genField] at hnone
      cases ha : InputField.annOf (InputField.kindOf (inputCfg cfg) inp.defs) f.type true with
      | none => rw [ha] at hs; simp at hs
      | some r => obtain ⟨a, ft⟩ := r; rw [ha] at hnone; simp at hnone
    | enum n vs => simp [InputField.classOf] at hco
    | scalar n => simp [InputField.classOf] at hco
    | composite n => simp [InputField.classOf] at hco

/-- `_generate_input_types` never raises for a schema whose input fields have input types (the dependency closure
    terminates for every graph: `Proofs/Prune.typesNames_spec`) -/
theorem inputsModule_ok {cfg : Config} {inp : Input} (hv : InputFieldsTyped cfg inp) (used : List String) :
    ∃ io, inputsModule cfg inp.defs used = .ok io := by
  unfold inputsModule
  simp only [classes_fields_some hv]
  cases ha : cfg.allInputs with
  | true => simp [Prune.filterInputDefs]
  | false =>
    obtain ⟨l, hl, _⟩ := Prune.typesNames_spec (pruneTable cfg inp.defs) used
    simp [Prune.filterInputDefs, hl]

/-! ### refused before anything is written -/

/-- an exception raised while the operations are added, or by the unique-name check, leaves no directory and no file -/
theorem refused_before_write {fmt : FmtOracle} {e : Order.EnumOracle} {cfg : Config} {inp : Input} {fl : Nat}
    (h : (∃ err, addOperations cfg inp fl {} inp.ops = .error err) ∨
         (∃ st, addOperations cfg inp fl {} inp.ops = .ok st ∧ hasDup (checkedFileNames cfg (st.files.map (·.1))) = true)) :
    (runPackage fmt e cfg inp fl).mkdir = false ∧ (runPackage fmt e cfg inp fl).written = [] ∧
      ∃ err, (runPackage fmt e cfg inp fl).outcome = .error err := by
  rcases runPackage_cases fmt e cfg inp fl with ⟨e1, ha, hr⟩ | ⟨st, ha, hd, hr⟩ | ⟨st, g, e1, ha, hd, hg, hr⟩ | ⟨st, g, ha, hd, hg, hr⟩
  · rw [hr]; exact ⟨rfl, rfl, e1, rfl⟩
  · rw [hr]; exact ⟨rfl, rfl, _, rfl⟩
  · rcases h with ⟨e2, h2⟩ | ⟨st2, h2, hd2⟩
    · rw [ha] at h2; simp at h2
    · rw [ha] at h2; simp only [Except.ok.injEq] at h2; subst h2; rw [hd] at hd2; simp at hd2
  · rcases h with ⟨e2, h2⟩ | ⟨st2, h2, hd2⟩
    · rw [ha] at h2; simp at h2
    · rw [ha] at h2; simp only [Except.ok.injEq] at h2; subst h2; rw [hd] at hd2; simp at hd2

theorem addOperations_anonymous {cfg : Config} {inp : Input} {fl : Nat} :
    ∀ (ops : List OpIn) (st : St), (∃ o ∈ ops, o.op.name = none) → ∃ err, addOperations cfg inp fl st ops = .error err
  | [], st, h => by obtain ⟨o, ho, _⟩ := h; cases ho
  | o :: rest, st, h => by
    simp only [addOperations]
    cases ha : addOperation cfg inp fl st o with
    | error e1 => exact ⟨e1, rfl⟩
    | ok st' =>
      obtain ⟨x, hx, hn⟩ := h
      rcases List.mem_cons.mp hx with rfl | hx
      · unfold addOperation at ha
        rw [hn] at ha
        simp at ha
      · exact addOperations_anonymous rest st' ⟨x, hx, hn⟩

theorem addOperations_sync_subscription {cfg : Config} {inp : Input} {fl : Nat} (hs : cfg.async = false) :
    ∀ (ops : List OpIn) (st : St), (∃ o ∈ ops, o.op.kind = .subscription) → ∃ err, addOperations cfg inp fl st ops = .error err
  | [], st, h => by obtain ⟨o, ho, _⟩ := h; cases ho
  | o :: rest, st, h => by
    simp only [addOperations]
    cases ha : addOperation cfg inp fl st o with
    | error e1 => exact ⟨e1, rfl⟩
    | ok st' =>
      obtain ⟨x, hx, hk⟩ := h
      rcases List.mem_cons.mp hx with rfl | hx
      · exfalso
        unfold addOperation at ha
        cases hn : x.op.name with
        | none => rw [hn] at ha; simp at ha
        | some n =>
          rw [hn] at ha
          simp only at ha
          cases hg : ResultTypes.generate (rtEnv cfg inp) fl (.op x.op) st.marks with
          | error e1 => rw [hg] at ha; simp at ha
          | ok out =>
            rw [hg] at ha
            simp only at ha
            cases hm : ClientMethod.addMethod (argEnv cfg inp) (opType x.op.kind) (some n) x.vars (methodName n) (pascal n) x.text cfg.async st.argSt with
            | error e2 => rw [hm] at ha; simp at ha
            | ok r =>
              unfold ClientMethod.addMethod at hm
              rw [hk, hs] at hm
              simp only [opType] at hm
              cases hgen : Arguments.generate (argEnv cfg inp) x.vars st.argSt with
              | error e3 => rw [hgen] at hm; simp at hm
              | ok r2 => rw [hgen] at hm; obtain ⟨a, b⟩ := r2; simp at hm
      · exact addOperations_sync_subscription hs rest st' ⟨x, hx, hk⟩

end Ariadne.C04Proofs
