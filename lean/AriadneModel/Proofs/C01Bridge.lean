/-
  Proofs/C01Bridge.lean — property C01: from the class-level tier theorems (about `parseTypeDefinition`) to the
  pipeline statement `claimB` (Model/Claim01.lean).  Generic part:

    * `runOps` / `marksAfter` when no operation changes the marks;
    * `Marks.applySels []` is the identity;
    * `ResultLeaf.EnvAgrees` for the pydantic environment `pydEnvOf` builds, from the decidable `schemaOK`;
    * `operationTypeName` = `Validate.rootOf`.
-/
import AriadneModel.Proofs.C01Plain
import AriadneModel.Model.Claim01
import AriadneModel.Proofs.C01Regions

set_option linter.unusedSimpArgs false
set_option linter.unusedVariables false

namespace Ariadne.C01
open Ariadne Ariadne.Gql Ariadne.ResultTypes Ariadne.Util Ariadne.Pyd Ariadne.Triggers01 Ariadne.C01Plain

/-! ### the marks-free document -/

mutual
  theorem applySel_nil : ∀ s : Selection, Marks.applySel [] s = s
    | .field alias name dirs sid sub => by
      simp only [Marks.applySel, applySels_nil sub]
      simp
    | .spread n dirs => by simp [Marks.applySel]
    | .inline on dirs sid sub => by simp only [Marks.applySel, applySels_nil sub]
  theorem applySels_nil : ∀ sels : List Selection, Marks.applySels [] sels = sels
    | [] => by simp [Marks.applySels]
    | s :: rest => by simp only [Marks.applySels, applySel_nil s, applySels_nil rest]
end

theorem applyOp_nil (o : Operation) : Marks.applyOp [] o = o := by
  simp [Marks.applyOp, applySels_nil]

/-! ### `runOps` when every operation leaves the marks empty -/

theorem runOps_nil (env : ResultTypes.Env) : ∀ (ops : List Operation),
    (∀ o ∈ ops, ∃ out, generate env Triggers01.fuel (.op o) [] = .ok out ∧ out.st.marks = []) →
    runOps env ops [] = ops.map fun o => generate env Triggers01.fuel (.op o) []
  | [], _ => rfl
  | o :: rest, h => by
    obtain ⟨out, hg, hm⟩ := h o List.mem_cons_self
    simp only [runOps, List.map_cons, hg, hm]
    rw [runOps_nil env rest (fun x hx => h x (List.mem_cons_of_mem _ hx))]

theorem marksAfter_nil : ∀ (rs : List (Except GenErr ModuleOut)),
    (∀ r ∈ rs, ∀ out, r = .ok out → out.st.marks = []) → marksAfter rs = [] := by
  intro rs h
  unfold marksAfter
  suffices H : ∀ (rs : List (Except GenErr ModuleOut)), (∀ r ∈ rs, ∀ out, r = .ok out → out.st.marks = []) →
      rs.foldl (fun acc r => match r with
        | .ok out => out.st.marks.foldl (fun a m => if a.contains m then a else a ++ [m]) acc
        | .error _ => acc) ([] : List Nat) = [] from H rs h
  intro rs
  induction rs with
  | nil => intro _; rfl
  | cons r rest ih =>
    intro h
    rw [List.foldl_cons]
    cases r with
    | error e => exact ih (fun x hx => h x (List.mem_cons_of_mem _ hx))
    | ok out =>
      have := h _ List.mem_cons_self out rfl
      simp only [this, List.foldl_nil]
      exact ih (fun x hx => h x (List.mem_cons_of_mem _ hx))

/-! ### root type -/

theorem operationTypeName_rootOf (env : ResultTypes.Env) (o : Operation) (rt : String)
    (h : Validate.rootOf env.schema o = some rt) : operationTypeName env (.op o) = .ok rt := by
  unfold Validate.rootOf at h
  unfold operationTypeName
  cases hk : o.kind <;> simp only [hk] at h ⊢ <;> simp [h, pure, Except.pure]

/-! ### the pydantic environment agrees with the schema on enums -/

def enumsOf (S : Schema) : List (String × List String) :=
  (S.types.filter (·.kind == .enum)).map fun t => (t.name, t.values)

theorem enumsOf_find_some : ∀ (ts : List TypeDef) (n : String) (t : TypeDef),
    ts.find? (·.name == n) = some t → t.kind = .enum →
    (((ts.filter (·.kind == .enum)).map fun t => (t.name, t.values)).find? (·.1 == n)).map (·.2) = some t.values
  | [], _, _, h, _ => by simp at h
  | x :: xs, n, t, h, hk => by
    rw [List.find?_cons] at h
    by_cases hx : (x.name == n) = true
    · simp only [hx] at h
      cases h
      simp [List.filter_cons, hk, hx]
    · simp only [hx] at h
      have ih := enumsOf_find_some xs n t h hk
      by_cases hkx : (x.kind == Kind.enum) = true
      · simp only [List.filter_cons, hkx, if_true, List.map_cons, List.find?_cons, hx]
        exact ih
      · simp only [List.filter_cons, hkx]
        exact ih

theorem enumsOf_find_none : ∀ (ts : List TypeDef) (n : String),
    (∀ t ∈ ts, t.name = n → t.kind ≠ .enum) →
    ((ts.filter (·.kind == .enum)).map fun t => (t.name, t.values)).find? (·.1 == n) = none := by
  intro ts n h
  rw [List.find?_eq_none]
  intro p hp
  obtain ⟨t, ht, rfl⟩ := List.mem_map.mp hp
  have ht' := List.mem_filter.mp ht
  intro e
  exact h t ht'.1 (by simpa using e) (by simpa using ht'.2)

theorem find_unique : ∀ (ts : List TypeDef) (n : String) (t u : TypeDef), (ts.map (·.name)).Nodup →
    ts.find? (·.name == n) = some t → u ∈ ts → u.name = n → u = t
  | [], _, _, _, _, h, _, _ => by simp at h
  | x :: xs, n, t, u, hnd, h, hu, hun => by
    simp only [List.map_cons, List.nodup_cons] at hnd
    rw [List.find?_cons] at h
    by_cases hx : (x.name == n) = true
    · simp only [hx] at h
      cases h
      rcases List.mem_cons.mp hu with rfl | hu
      · rfl
      · exfalso
        apply hnd.1
        have : x.name = u.name := by rw [hun]; simpa using hx
        rw [this]
        exact List.mem_map.mpr ⟨u, hu, rfl⟩
    · simp only [hx] at h
      rcases List.mem_cons.mp hu with rfl | hu
      · exfalso; apply hx; simpa using hun
      · exact find_unique xs n t u hnd.2 h hu hun

theorem envAgrees_of_schemaOK (env : ResultTypes.Env) (penv : Pyd.Env) (h : schemaOK env.schema = true)
    (he : penv.enums = enumsOf env.schema) : ResultLeaf.EnvAgrees env penv := by
  simp only [schemaOK, Bool.and_eq_true, nodupB_iff] at h
  obtain ⟨⟨hnd, hnb⟩, hbi⟩ := h
  constructor
  · intro n t hg hk
    unfold Pyd.Env.enum?
    rw [he]
    exact enumsOf_find_some env.schema.types n t hg hk
  · intro n hk
    obtain ⟨t, hg, hkt⟩ : ∃ t, env.schema.get? n = some t ∧ t.kind = .enum := by
      unfold Schema.kindOf? at hk
      cases hg : env.schema.get? n with
      | none => simp [hg] at hk
      | some t => exact ⟨t, rfl, by simpa [hg] using hk⟩
    have hmem : t ∈ env.schema.types := List.mem_of_find?_eq_some hg
    have hname : t.name = n := by simpa using List.find?_some hg
    have := List.all_eq_true.mp hnb t hmem
    simp only [hkt, beq_self_eq_true, Bool.not_true, Bool.false_or, Bool.not_eq_true', hname] at this
    simp only [List.contains_eq_mem, List.mem_cons, List.not_mem_nil, or_false, decide_eq_false_iff_not, not_or] at this
    exact ⟨this.1, this.2.1, this.2.2.1, this.2.2.2.1, this.2.2.2.2⟩
  · intro n hn
    have hall := List.all_eq_true.mp hbi n (by rcases hn with rfl | rfl | rfl | rfl | rfl <;> simp)
    cases hk : env.schema.kindOf? n with
    | none => exact Or.inl rfl
    | some k =>
      rw [hk] at hall
      cases k <;> simp at hall ⊢
  · intro n hk
    right
    unfold Pyd.Env.enum?
    rw [he]
    unfold enumsOf
    rw [enumsOf_find_none env.schema.types n]
    · rfl
    · intro t ht hname hkt
      apply hk
      cases hg : env.schema.get? n with
      | none =>
        have := List.find?_eq_none.mp hg t ht
        simp [hname] at this
      | some u =>
        have := find_unique env.schema.types n u t hnd hg ht hname
        subst this
        simp [Schema.kindOf?, hg, hkt]

/-! ### names the result module imports -/

theorem NoShadowedImport_baseModel {env : ResultTypes.Env} {classes : List ClassDecl}
    (h : NoShadowedImport env classes = true) : "BaseModel" ∉ classes.map (·.name) := by
  intro hm
  obtain ⟨c, hc, hn⟩ := List.mem_map.mp hm
  have := List.all_eq_true.mp h c hc
  simp [importedNames, hn] at this

end Ariadne.C01
