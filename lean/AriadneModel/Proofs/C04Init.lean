/-
  Proofs/C04Init.lean — symbolic execution of `PackageGenerator.generate` (Package.generateSteps): inversion of every
  step, and the closed form of what `__init__` imports when `generate()` returns.
-/
import AriadneModel.Model.Package
import AriadneModel.Proofs.C04Steps

set_option linter.unusedSimpArgs false
set_option linter.unusedVariables false

namespace Ariadne.C04Proofs
open Ariadne Ariadne.Util Ariadne.Package
open Ariadne.ResultTypes (GenErr)

/-! ### inversion -/

theorem andThen_ok {a b : Step} {g g' : GenSt} (h : (a.andThen b) g = .ok g') : ∃ g1, a g = .ok g1 ∧ b g1 = .ok g' := by
  unfold Step.andThen at h
  cases ha : a g with
  | error x => rw [ha] at h; simp at h
  | ok g1 => rw [ha] at h; exact ⟨g1, rfl, h⟩

theorem andThen_error {a b : Step} {g g' : GenSt} {err : GenErr} (h : (a.andThen b) g = .error (g', err)) :
    a g = .error (g', err) ∨ ∃ g1, a g = .ok g1 ∧ b g1 = .error (g', err) := by
  unfold Step.andThen at h
  cases ha : a g with
  | error x => rw [ha] at h; simp at h; exact Or.inl (by rw [h])
  | ok g1 => rw [ha] at h; exact Or.inr ⟨g1, rfl, h⟩

theorem emit_ok {fmt : FmtOracle} {m : ModuleIR} {g g' : GenSt} (h : emit fmt m g = .ok g') :
    fmt m = true ∧ g' = { g with modules := putModule g.modules m, log := g.log ++ [m.file] } := by
  unfold emit at h
  by_cases hf : fmt m = true
  · rw [if_pos hf] at h
    simp only [Except.ok.injEq] at h
    exact ⟨hf, h.symm⟩
  · rw [if_neg hf] at h
    simp at h

theorem emit_error {fmt : FmtOracle} {m : ModuleIR} {g g' : GenSt} {err : GenErr} (h : emit fmt m g = .error (g', err)) :
    fmt m = false ∧ g' = g ∧ err = .internal "InvalidInput" := by
  unfold emit at h
  by_cases hf : fmt m = true
  · rw [if_pos hf] at h
    simp at h
  · rw [if_neg hf] at h
    simp only [Except.error.injEq, Prod.mk.injEq] at h
    exact ⟨by simpa using hf, h.1.symm, h.2.symm⟩

theorem emitThen_ok {fmt : FmtOracle} {m : ModuleIR} {f : GenSt → GenSt} {g g' : GenSt} (h : emitThen fmt m f g = .ok g') :
    fmt m = true ∧ g' = f { g with modules := putModule g.modules m, log := g.log ++ [m.file] } := by
  unfold emitThen at h
  cases hem : emit fmt m g with
  | error x => rw [hem] at h; simp at h
  | ok g1 =>
    rw [hem] at h
    simp only [Except.ok.injEq] at h
    obtain ⟨hf, rfl⟩ := emit_ok hem
    exact ⟨hf, h.symm⟩

theorem emitThen_error {fmt : FmtOracle} {m : ModuleIR} {f : GenSt → GenSt} {g g' : GenSt} {err : GenErr}
    (h : emitThen fmt m f g = .error (g', err)) : fmt m = false ∧ g' = g ∧ err = .internal "InvalidInput" := by
  unfold emitThen at h
  cases hem : emit fmt m g with
  | error x =>
    rw [hem] at h
    obtain ⟨g1, e1⟩ := x
    simp only [Except.error.injEq, Prod.mk.injEq] at h
    obtain ⟨rfl, rfl⟩ := h
    exact emit_error hem
  | ok g1 => rw [hem] at h; simp at h

/-- a step that only writes: init imports and used enums are untouched -/
def MetaSame (g g' : GenSt) : Prop := g'.init = g.init ∧ g'.usedEnums = g.usedEnums

theorem emit_meta {fmt : FmtOracle} {m : ModuleIR} {g g' : GenSt} (h : emit fmt m g = .ok g') : MetaSame g g' := by
  obtain ⟨_, rfl⟩ := emit_ok h
  exact ⟨rfl, rfl⟩

theorem emitAll_meta (fmt : FmtOracle) : ∀ (ms : List ModuleIR) (g g' : GenSt), emitAll fmt ms g = .ok g' → MetaSame g g'
  | [], g, g', h => by simp [emitAll] at h; subst h; exact ⟨rfl, rfl⟩
  | m :: rest, g, g', h => by
    simp only [emitAll] at h
    obtain ⟨g1, h1, h2⟩ := andThen_ok h
    obtain ⟨a1, a2⟩ := emit_meta h1
    obtain ⟨b1, b2⟩ := emitAll_meta fmt rest g1 g' h2
    exact ⟨b1.trans a1, b2.trans a2⟩

theorem foldl_writeRaw_meta (mk : String → ModuleIR) : ∀ (files : List String) (g : GenSt),
    MetaSame g (files.foldl (fun g f => writeRaw (mk f) g) g)
  | [], g => ⟨rfl, rfl⟩
  | f :: rest, g => by
    simp only [List.foldl_cons]
    obtain ⟨a1, a2⟩ := foldl_writeRaw_meta mk rest (writeRaw (mk f) g)
    exact ⟨a1, a2⟩

theorem stepInputs_ok {fmt : FmtOracle} {cfg : Config} {inp : Input} {st : St} {g g' : GenSt}
    (h : stepInputs fmt cfg inp st g = .ok g') :
    ∃ io, inputsModule cfg inp.defs st.argSt.usedInputs = .ok io ∧ fmt io.module = true ∧
      g'.init = initAdd g.init io.publicNames cfg.inputsModule ∧ g'.usedEnums = g.usedEnums ++ io.usedEnums ∧
      io.module ∈ g'.modules := by
  unfold stepInputs at h
  cases hio : inputsModule cfg inp.defs st.argSt.usedInputs with
  | error err => rw [hio] at h; simp at h
  | ok io =>
    rw [hio] at h
    simp only at h
    obtain ⟨hf, rfl⟩ := emitThen_ok h
    exact ⟨io, rfl, hf, rfl, rfl, self_mem_putModule _ _⟩

theorem stepFragments_ok {fmt : FmtOracle} {e : Order.EnumOracle} {cfg : Config} {inp : Input} {fl : Nat} {st : St} {g g' : GenSt}
    (h : stepFragments fmt e cfg inp fl st g = .ok g') :
    ((Fragments.remaining (rtEnv cfg inp) st.unpacked).isEmpty = true ∧ g' = g) ∨
    ((Fragments.remaining (rtEnv cfg inp) st.unpacked).isEmpty = false ∧
      ∃ fo, Fragments.generateFragments e (rtEnv cfg inp) fl (e (Fragments.remaining (rtEnv cfg inp) st.unpacked)) st.marks = .ok fo ∧
        g'.init = initAdd g.init fo.publicNames cfg.fragmentsModule ∧ g'.usedEnums = g.usedEnums ++ fo.usedEnums) := by
  unfold stepFragments at h
  simp only at h
  split at h
  · rename_i hr
    simp only [Except.ok.injEq] at h
    exact Or.inl ⟨hr, h.symm⟩
  · rename_i hr
    split at h
    · rename_i gens fo hg hf
      obtain ⟨_, rfl⟩ := emitThen_ok h
      exact Or.inr ⟨by simpa using hr, fo, hf, rfl, rfl⟩
    · simp at h
    · simp at h

theorem stepCopy_ok {cfg : Config} {g g' : GenSt} (h : stepCopy cfg g = .ok g') :
    g'.init = initAdd (initAdd g.init [cfg.baseClientName] (stem cfg.baseClientFile)) ["BaseModel", Tables.uploadClassName] (stem baseModelFile)
    ∧ g'.usedEnums = g.usedEnums := by
  unfold stepCopy at h
  simp only [Except.ok.injEq] at h
  subst h
  obtain ⟨a1, a2⟩ := foldl_writeRaw_meta (copiedModule cfg) (filesToCopy cfg ++ [cfg.baseClientFile, baseModelFile]) g
  unfold copyAll
  exact ⟨by simp only [a1], a2⟩

theorem stepCustom_ok {cfg : Config} {inp : Input} {g g' : GenSt} (h : stepCustom cfg inp g = .ok g') : MetaSame g g' := by
  unfold stepCustom at h
  simp only [Except.ok.injEq] at h
  subst h
  split
  · exact foldl_writeRaw_meta customModule _ g
  · exact ⟨rfl, rfl⟩

theorem stepClient_ok {fmt : FmtOracle} {cfg : Config} {inp : Input} {st : St} {g g' : GenSt} (h : stepClient fmt cfg inp st g = .ok g') :
    g'.init = initAdd g.init [cfg.clientName] cfg.clientFile ∧ g'.usedEnums = g.usedEnums ++ st.argSt.usedEnums := by
  unfold stepClient at h
  obtain ⟨_, rfl⟩ := emitThen_ok h
  exact ⟨rfl, rfl⟩

theorem stepEnums_ok {fmt : FmtOracle} {cfg : Config} {inp : Input} {g g' : GenSt} (h : stepEnums fmt cfg inp g = .ok g') :
    g'.init = initAdd g.init ((enumsModule cfg inp.schema g.usedEnums).classes.map (·.name)) cfg.enumsModule := by
  unfold stepEnums at h
  obtain ⟨_, rfl⟩ := emitThen_ok h
  rfl

theorem stepInit_ok {fmt : FmtOracle} {g g' : GenSt} (h : stepInit fmt g = .ok g') :
    initModule g.init ∈ g'.modules ∧ g'.init = g.init := by
  unfold stepInit at h
  obtain ⟨_, rfl⟩ := emit_ok h
  exact ⟨self_mem_putModule _ _, rfl⟩

/-! ### what `__init__` imports -/

theorem importedNames_initAdd (is : List Import) (ns : List String) (m : String) :
    importedNames (initAdd is ns m) = importedNames is ++ ns := by
  unfold initAdd
  by_cases h : ns.isEmpty = true
  · have : ns = [] := by simpa using h
    subst this
    simp
  · simp [h, importedNames]

/-- what the fragments step contributed: nothing when every fragment was unpacked (no fragments module is written) -/
def fragmentNames (fo : Option Fragments.FragmentsOut) : List String :=
  match fo with
  | some f => f.publicNames
  | none => []

def fragmentEnums (fo : Option Fragments.FragmentsOut) : List String :=
  match fo with
  | some f => f.usedEnums
  | none => []

/-- the import list of `__init__` when `generate()` returns, as a function of what the steps produced -/
def finalInit (cfg : Config) (inp : Input) (st : St) (io : InputsOut) (fo : Option Fragments.FragmentsOut) : List Import :=
  let i1 := initAdd (init0 cfg st) io.publicNames cfg.inputsModule
  let i2 := initAdd i1 (fragmentNames fo) cfg.fragmentsModule
  let i3 := initAdd (initAdd i2 [cfg.baseClientName] (stem cfg.baseClientFile)) ["BaseModel", Tables.uploadClassName] (stem baseModelFile)
  let i4 := initAdd i3 [cfg.clientName] cfg.clientFile
  let ue := st.usedEnums ++ io.usedEnums ++ fragmentEnums fo ++ st.argSt.usedEnums
  initAdd i4 ((enumsModule cfg inp.schema ue).classes.map (·.name)) cfg.enumsModule

/-- which fragments output the run saw -/
def FragmentsRan (e : Order.EnumOracle) (cfg : Config) (inp : Input) (fl : Nat) (st : St) (fo : Option Fragments.FragmentsOut) : Prop :=
  let rem := Fragments.remaining (rtEnv cfg inp) st.unpacked
  (rem.isEmpty = true ∧ fo = none) ∨
  (rem.isEmpty = false ∧ ∃ f, fo = some f ∧ Fragments.generateFragments e (rtEnv cfg inp) fl (e rem) st.marks = .ok f)

theorem initAdd_nil (is : List Import) (m : String) : initAdd is [] m = is := by simp [initAdd]

/-- symbolic execution of `generate()`: the last module written is `__init__`, and it imports exactly `finalInit` -/
theorem generateSteps_init {fmt : FmtOracle} {e : Order.EnumOracle} {cfg : Config} {inp : Input} {fl : Nat} {st : St} {g : GenSt}
    (h : generateSteps fmt e cfg inp fl st (genSt0 cfg st) = .ok g) :
    ∃ io fo, inputsModule cfg inp.defs st.argSt.usedInputs = .ok io ∧ FragmentsRan e cfg inp fl st fo ∧
      g.init = finalInit cfg inp st io fo ∧ initModule (finalInit cfg inp st io fo) ∈ g.modules := by
  unfold generateSteps at h
  obtain ⟨g1, h1, h⟩ := andThen_ok h
  obtain ⟨g2, h2, h⟩ := andThen_ok h
  obtain ⟨g3, h3, h⟩ := andThen_ok h
  obtain ⟨g4, h4, h⟩ := andThen_ok h
  obtain ⟨g5, h5, h⟩ := andThen_ok h
  obtain ⟨g6, h6, h⟩ := andThen_ok h
  obtain ⟨g7, h7, h8⟩ := andThen_ok h
  obtain ⟨io, hio, _, i1, u1, _⟩ := stepInputs_ok h1
  obtain ⟨i2, u2⟩ := emitAll_meta fmt _ _ _ h2
  obtain ⟨i4, u4⟩ := stepCopy_ok h4
  obtain ⟨i5, u5⟩ := stepCustom_ok h5
  obtain ⟨i6, u6⟩ := stepClient_ok h6
  have i7 := stepEnums_ok h7
  obtain ⟨m8, i8⟩ := stepInit_ok h8
  have e0 : (genSt0 cfg st).init = init0 cfg st := rfl
  have eu0 : (genSt0 cfg st).usedEnums = st.usedEnums := rfl
  rcases stepFragments_ok h3 with ⟨hr, hg3⟩ | ⟨hr, fo, hfo, i3, u3⟩
  · subst hg3
    refine ⟨io, none, hio, Or.inl ⟨hr, rfl⟩, ?_, ?_⟩
    · have : g7.init = finalInit cfg inp st io none := by
        rw [i7, i6, i5, i4, i2, i1, u6, u5, u4, u2, u1, e0, eu0]
        simp [finalInit, fragmentNames, fragmentEnums, initAdd_nil]
      rw [i8, this]
    · have : g7.init = finalInit cfg inp st io none := by
        rw [i7, i6, i5, i4, i2, i1, u6, u5, u4, u2, u1, e0, eu0]
        simp [finalInit, fragmentNames, fragmentEnums, initAdd_nil]
      rw [← this]; exact m8
  · refine ⟨io, some fo, hio, Or.inr ⟨hr, fo, rfl, hfo⟩, ?_, ?_⟩
    · have : g7.init = finalInit cfg inp st io (some fo) := by
        rw [i7, i6, i5, i4, i3, i2, i1, u6, u5, u4, u3, u2, u1, e0, eu0]
        simp [finalInit, fragmentNames, fragmentEnums]
      rw [i8, this]
    · have : g7.init = finalInit cfg inp st io (some fo) := by
        rw [i7, i6, i5, i4, i3, i2, i1, u6, u5, u4, u3, u2, u1, e0, eu0]
        simp [finalInit, fragmentNames, fragmentEnums]
      rw [← this]; exact m8

/-- the names `__init__` imports, flat: exceptions (bundled base clients), the public names of every operation module,
    of the input types module, of the fragments module, the base client, `BaseModel`, `Upload`, the client class, every
    emitted enum -/
theorem importedNames_finalInit (cfg : Config) (inp : Input) (st : St) (io : InputsOut) (fo : Option Fragments.FragmentsOut) :
    importedNames (finalInit cfg inp st io fo) =
      importedNames (init0 cfg st) ++ io.publicNames ++ fragmentNames fo ++ [cfg.baseClientName] ++ ["BaseModel", Tables.uploadClassName]
        ++ [cfg.clientName]
        ++ (enumsModule cfg inp.schema (st.usedEnums ++ io.usedEnums ++ fragmentEnums fo ++ st.argSt.usedEnums)).classes.map (·.name) := by
  simp only [finalInit, importedNames_initAdd]

theorem importedNames_init0 (cfg : Config) (st : St) :
    importedNames (init0 cfg st) = importedNames st.init ++ (if cfg.defaultBaseClient then Tables.exceptionsNames else []) := by
  unfold init0
  split
  · simp [importedNames_initAdd]
  · simp

end Ariadne.C04Proofs
