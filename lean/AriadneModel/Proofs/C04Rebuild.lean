/-
  Proofs/C04Rebuild.lean — the rebuild placement of an operation module as Model/Package.lean computes it
  (`classHasFwd`, structural recursion, kernel-evaluable) IS the one of the result-type model
  (`ResultTypes.classHasForwardRefs`, `ModuleOut.rebuild`): `model_has_forward_refs` has one meaning.
-/
import AriadneModel.Model.Package

set_option linter.unusedSimpArgs false
set_option linter.unusedVariables false

namespace Ariadne.C04Proofs
open Ariadne Ariadne.Package
open Ariadne.ResultTypes (Ann annHasForwardRef classHasForwardRefs)

theorem any_attach_eq {α : Type} (l : List α) (f : α → Bool) : (l.attach.any fun x => f x.1) = l.any f := by
  have h : l.any f = (l.attach.map Subtype.val).any f := by rw [List.attach_map_subtype_val]
  rw [h, List.any_map]
  rfl

mutual
  theorem annHasForwardRef_eq : ∀ a : Ann, annHasForwardRef a = !(annFwd a).isEmpty
    | .name n => by simp [annHasForwardRef, annFwd]
    | .cls n => by simp [annHasForwardRef, annFwd]
    | .optional a => by
      have := annHasForwardRef_eq a
      simp [annHasForwardRef, annFwd, this]
    | .list a => by
      have := annHasForwardRef_eq a
      simp [annHasForwardRef, annFwd, this]
    | .union as => by
      have h := annsHasForwardRef_eq as
      have e : (as.attach.any fun x => match x with | ⟨a, _⟩ => annHasForwardRef a) = as.any annHasForwardRef := by
        rw [← any_attach_eq as annHasForwardRef]
      simp only [annHasForwardRef, annFwd]
      rw [e, h]
    | .disc a => by
      have := annHasForwardRef_eq a
      simp [annHasForwardRef, annFwd, this]
    | .literal vs => by simp [annHasForwardRef, annFwd]
    | .before t p => by simp [annHasForwardRef, annFwd]
  theorem annsHasForwardRef_eq : ∀ as : List Ann, as.any annHasForwardRef = !(annsFwd as).isEmpty
    | [] => by simp [annsFwd]
    | a :: as => by
      have h1 := annHasForwardRef_eq a
      have h2 := annsHasForwardRef_eq as
      simp only [List.any_cons, annsFwd, h1, h2]
      cases annFwd a <;> simp
end

theorem classHasFwd_eq (c : ResultTypes.ClassDecl) : classHasFwd c = classHasForwardRefs c := by
  unfold classHasFwd classHasForwardRefs
  congr 1
  funext f
  exact (annHasForwardRef_eq f.ann).symm

/-- the `model_rebuild()` calls of an operation module in the package model are those of the result-type model -/
theorem resultModule_rebuilds (cfg : Config) (file : String) (env : ResultTypes.Env) (fl : Nat) (d : ResultTypes.Definition)
    (marks : List Nat) (out : ResultTypes.ModuleOut) (h : ResultTypes.generate env fl d marks = .ok out) :
    (resultModule cfg file out).rebuilds = out.rebuild := by
  unfold ResultTypes.generate at h
  simp only at h
  split at h
  · simp only [Except.ok.injEq] at h
    subst h
    simp only [resultModule]
    congr 1
    apply List.filter_congr
    intro c _
    exact classHasFwd_eq c
  · simp at h

end Ariadne.C04Proofs
