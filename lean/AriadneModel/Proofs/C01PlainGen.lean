/-
  Proofs/C01PlainGen.lean — property C01, "plain selections" tier, part (1): on plain input the generator
  succeeds and returns exactly `plainClasses`.
-/
import AriadneModel.Proofs.C01PlainDefs

set_option linter.unusedSimpArgs false
set_option linter.unusedVariables false

namespace Ariadne.C01Plain
open Ariadne Ariadne.Gql Ariadne.ResultTypes Ariadne.Util

/-! ### running the state monad forwards -/

theorem run_bind {α β : Type} {x : M α} {g : α → M β} {s s' : St} {a : α} {r : Except GenErr (β × St)}
    (h1 : x s = .ok (a, s')) (h2 : g a s' = r) : (x >>= g) s = r := by
  show (StateT.bind x g) s = r
  unfold StateT.bind
  simp only [h1, bind, Except.bind]
  exact h2

theorem run_pure {α : Type} (a : α) (s : St) : (pure a : M α) s = .ok (a, s) := rfl
theorem run_get (s : St) : (get : M St) s = .ok (s, s) := rfl
theorem run_modify (f : St → St) (s : St) : (modify f : M PUnit) s = .ok (PUnit.unit, f s) := rfl
theorem run_lift {α : Type} (a : α) (s : St) : ResultTypes.liftExcept (.ok a) s = .ok (a, s) := rfl

/-! ### small list facts -/

theorem nodupB_iff (l : List String) : nodupB l = true ↔ l.Nodup := by
  induction l with
  | nil => simp [nodupB]
  | cons x xs ih => simp [nodupB, List.nodup_cons, ih]

theorem plainLocal_iff (env : Env) (marks : List Nat) (cn tn : String) (sel : List Selection) :
    plainLocal env marks cn tn sel = true ↔ ∀ s ∈ sel, plainLocal1 env marks cn tn s = true := by
  induction sel with
  | nil => simp [plainLocal]
  | cons s rest ih => simp [plainLocal, ih]

theorem gfuel_ge (sel : List Selection) : 2 ≤ gfuel sel := by
  induction sel with
  | nil => simp [gfuel]
  | cons s rest ih => simp only [gfuel]; omega

theorem gfuel_mem (sel : List Selection) (s : Selection) (h : s ∈ sel) : gfuel1 s ≤ gfuel sel := by
  induction sel with
  | nil => cases h
  | cons x rest ih =>
    simp only [gfuel]
    rcases List.mem_cons.mp h with rfl | h
    · omega
    · have := ih h; omega

/-! ### `_resolve_selection_set` on a list of field nodes -/

def toR : Selection → RField
  | .field alias name dirs sid sub => ⟨alias, name, dirs, sid, sub⟩
  | _ => ⟨none, "", [], 0, []⟩

theorem plainLocal1_isField {env : Env} {marks : List Nat} {cn tn : String} {s : Selection}
    (h : plainLocal1 env marks cn tn s = true) : isField s = true := by
  cases s <;> simp [plainLocal1, isField] at h ⊢

theorem resolveLoop_fields (env : Env) (fuel : Nat) (root : String) :
    ∀ (sels : List Selection) (acc : Acc) (s : St), (∀ x ∈ sels, isField x = true) →
      forIn sels acc (resolveBody env fuel root) s = .ok ((acc.1 ++ sels.map toR, acc.2), s) := by
  intro sels
  induction sels with
  | nil => intro acc s _; simp [List.forIn_nil]; rfl
  | cons x rest ih =>
    intro acc s h
    rw [List.forIn_cons]
    cases x with
    | field alias name dirs sid sub =>
      refine run_bind (a := .yield (acc.1 ++ [⟨alias, name, dirs, sid, sub⟩], acc.2)) (s' := s) rfl ?_
      simp only []
      rw [ih _ _ (fun y hy => h y (List.mem_cons_of_mem _ hy))]
      simp [toR, List.append_assoc]
    | spread n d => have := h _ List.mem_cons_self; simp [isField] at this
    | inline on d sid sub => have := h _ List.mem_cons_self; simp [isField] at this

theorem resolve_fields (env : Env) (fuel : Nat) (root : String) (sels : List Selection) (st : St)
    (h : ∀ x ∈ sels, isField x = true) :
    resolve env (fuel + 1) sels root st = .ok ((sels.map toR, []), st) := by
  rw [resolve_succ]
  refine run_bind (resolveLoop_fields env fuel root sels ([], []) st h) ?_
  refine run_bind (run_modify _ _) ?_
  simp [run_pure, setUnion]

/-! ### `_get_extra_bases_from_mixin_directives` without `@mixin` -/

theorem mixinLoop_none : ∀ (dirs : List Directive) (b : List String) (s : St),
    (dirs.any (·.name == Tables.mixinName)) = false → forIn dirs b mixinBody s = .ok (b, s) := by
  intro dirs
  induction dirs with
  | nil => intro b s _; rfl
  | cons d ds ih =>
    intro b s h
    simp only [List.any_cons, Bool.or_eq_false_iff] at h
    rw [List.forIn_cons]
    refine run_bind (a := .yield b) (s' := s) ?_ ?_
    · unfold mixinBody; simp [h.1]; rfl
    · simp only []; exact ih b s h.2

theorem mixinBases_none (dirs : List Directive) (s : St) (h : (dirs.any (·.name == Tables.mixinName)) = false) :
    mixinBases dirs s = .ok ([], s) := by
  rw [mixinBases_eq]
  exact run_bind (mixinLoop_none dirs [] s h) rfl

/-! ### annotations -/

theorem leafAnn_eq_wrapAnn (env : Env) (T : TypeRef) : ∀ nullable : Bool,
    ResultLeaf.leafAnn env nullable T = wrapAnn (ResultLeaf.leafBase env T.base) nullable T := by
  induction T with
  | named n => intro b; simp [ResultLeaf.leafAnn, wrapAnn, TypeRef.base]
  | list t ih => intro b; simp [ResultLeaf.leafAnn, wrapAnn, TypeRef.base, ih]
  | nonNull t ih => intro b; simp [ResultLeaf.leafAnn, wrapAnn, TypeRef.base, ih]

/-- a base annotation that `annotate_nested_unions` leaves alone -/
def SimpleBase (a : Ann) : Prop := (∃ n, a = .name n) ∨ (∃ n, a = .cls n)

theorem annotateNested_optionalIf (b : Bool) (a : Ann) :
    annotateNested (optionalIf b a) = optionalIf b (annotateNested a) := by
  cases b <;> simp [optionalIf, annotateNested]

theorem annotateNested_wrapAnn (base : Ann) (hb : SimpleBase base) (T : TypeRef) : ∀ nullable : Bool,
    annotateNested (wrapAnn base nullable T) = wrapAnn base nullable T := by
  induction T with
  | named n =>
    intro b; simp only [wrapAnn, annotateNested_optionalIf]
    rcases hb with ⟨x, rfl⟩ | ⟨x, rfl⟩ <;> simp [annotateNested]
  | list t ih => intro b; simp only [wrapAnn, annotateNested_optionalIf, annotateNested, ih]
  | nonNull t ih => intro b; simp only [wrapAnn, ih]

theorem annotateTop_wrapAnn (base : Ann) (hb : SimpleBase base) (T : TypeRef) : ∀ nullable : Bool,
    annotateTop (wrapAnn base nullable T) = wrapAnn base nullable T := by
  induction T with
  | named n =>
    intro b
    rcases hb with ⟨x, rfl⟩ | ⟨x, rfl⟩ <;> cases b <;> simp [wrapAnn, optionalIf, annotateTop, annotateNested]
  | list t ih =>
    intro b
    cases b <;> simp [wrapAnn, optionalIf, annotateTop, annotateNested, annotateNested_wrapAnn base hb]
  | nonNull t ih => intro b; simp only [wrapAnn, ih]

theorem isUnionAnn_wrapAnn (base : Ann) (hb : SimpleBase base) (T : TypeRef) : ∀ nullable : Bool,
    isUnionAnn (wrapAnn base nullable T) = false := by
  induction T with
  | named n =>
    intro b
    rcases hb with ⟨x, rfl⟩ | ⟨x, rfl⟩ <;> cases b <;> simp [wrapAnn, optionalIf, isUnionAnn]
  | list t ih => intro b; cases b <;> simp [wrapAnn, optionalIf, isUnionAnn]
  | nonNull t ih => intro b; simp only [wrapAnn, ih]

theorem isUnionAnn_condAnn (a : Ann) (dirs : List Directive) (h : isUnionAnn a = false) :
    isUnionAnn (condAnn a dirs) = false := by
  unfold condAnn
  split
  · split
    · exact h
    · rfl
  · exact h

theorem parseDirectives_eq (a : Ann) (dirs : List Directive) :
    parseDirectives a dirs = (condAnn a dirs, hasConditionalDirective dirs) := by
  unfold parseDirectives condAnn
  split <;> simp_all

/-- `parse_operation_field_type` on an object-based type -/
theorem parseType_obj (env : Env) (fuel : Nat) (sel : List Selection) (T : TypeRef)
    (hk : env.schema.kindOf? T.base = some .object) :
    ∀ (nullable : Bool) (cn : String) (ctx : Ctx),
      parseType env fuel sel T nullable cn false ctx =
        .ok (wrapAnn (.cls cn) nullable T, { ctx with related := ctx.related ++ [(cn, T.base)] }) := by
  induction T with
  | named n =>
    intro nullable cn ctx
    simp only [TypeRef.base] at hk
    unfold parseType
    simp [hk, wrapAnn, pure, Except.pure, TypeRef.base]
  | list t ih =>
    intro nullable cn ctx
    simp only [TypeRef.base] at hk
    unfold parseType
    simp [ih hk true cn ctx, bind, Except.bind, pure, Except.pure, wrapAnn, TypeRef.base]
  | nonNull t ih =>
    intro nullable cn ctx
    simp only [TypeRef.base] at hk
    unfold parseType
    simp only [wrapAnn, TypeRef.base]
    exact ih hk false cn ctx

theorem isLeafName_spec {env : Env} {n : String} (h : isLeafName env n = true) : ResultLeaf.LeafName env n := by
  unfold isLeafName at h
  simp only [Bool.and_eq_true, Option.isNone_iff_eq_none] at h
  refine ⟨?_, h.2⟩
  cases hk : env.schema.kindOf? n with
  | none => exact Or.inl rfl
  | some k => cases k <;> simp_all

/-- `parse_operation_field` for a field of leaf-based type (not `__typename`) -/
theorem parseOperationField_leaf (env : Env) (fuel : Nat) (name : String) (dirs : List Directive) (sub : List Selection)
    (T : TypeRef) (cn : String) (tv : List String) (hn : (name != typenameField) = true)
    (hl : isLeafName env T.base = true) :
    ∃ ctx, parseOperationField env fuel name dirs sub T cn tv =
      .ok (condAnn (wrapAnn (ResultLeaf.leafBase env T.base) true T) dirs, hasConditionalDirective dirs, ctx) := by
  obtain ⟨ctx, h⟩ := ResultLeaf.parseType_leaf env fuel sub T (isLeafName_spec hl) true cn false {}
  refine ⟨ctx, ?_⟩
  have hn' : (name == typenameField) = false := by simpa using hn
  unfold parseOperationField
  simp only [hn', Bool.false_and, Bool.false_eq_true, if_false, h, bind, Except.bind, parseDirectives_eq,
    leafAnn_eq_wrapAnn, pure, Except.pure]
  rw [annotateTop_wrapAnn _ (by rw [ResultLeaf.leafBase_eq]; exact Or.inl ⟨_, rfl⟩)]

/-- `parse_operation_field` for a field of object-based type -/
theorem parseOperationField_obj (env : Env) (fuel : Nat) (name : String) (dirs : List Directive) (sub : List Selection)
    (T : TypeRef) (cn : String) (tv : List String) (hn : (name != typenameField) = true)
    (hk : env.schema.kindOf? T.base = some .object) :
    parseOperationField env fuel name dirs sub T cn tv =
      .ok (condAnn (wrapAnn (.cls cn) true T) dirs, hasConditionalDirective dirs,
           { related := [(cn, T.base)] }) := by
  have hn' : (name == typenameField) = false := by simpa using hn
  unfold parseOperationField
  simp only [hn', Bool.false_and, Bool.false_eq_true, if_false, parseType_obj env fuel sub T hk, bind, Except.bind,
    parseDirectives_eq, pure, Except.pure]
  rw [annotateTop_wrapAnn _ (Or.inr ⟨_, rfl⟩)]
  rfl

/-! ### the field loop of `_parse_type_definition` -/

/-- what part (1) says about one call, for fuel `f` -/
def GenSpec (env : Env) (f : Nat) : Prop :=
  ∀ (cn tn : String) (sid : Nat) (sel : List Selection) (tv : List String) (st : St),
    gfuel sel ≤ f → st.marks.contains sid = false → plainLocal env st.marks cn tn sel = true →
    ((plainClasses env cn tn sel).map (·.name)).Nodup →
    (∀ n ∈ (plainClasses env cn tn sel).map (·.name), n ∉ st.publicNames) →
    ∃ st', parseTypeDefinition env f cn tn sid sel false [] tv st = .ok (plainClasses env cn tn sel, st') ∧
      st'.publicNames = st.publicNames ++ (plainClasses env cn tn sel).map (·.name) ∧ st'.marks = st.marks

theorem fieldTypeFromSchema_some (env : Env) (tn name : String) (h : (env.schema.fieldOf? tn name).isSome = true) :
    fieldTypeFromSchema env tn name = .ok (fieldT env tn name) := by
  unfold fieldTypeFromSchema fieldT
  cases hf : env.schema.fieldOf? tn name with
  | none => simp [hf] at h
  | some fd => rfl

theorem plainExtra1_sub (env : Env) (cn tn : String) (alias : Option String) (name : String) (dirs : List Directive)
    (sid : Nat) (sub : List Selection) (h : sub.isEmpty = false) :
    plainExtra1 env cn tn (.field alias name dirs sid sub) =
      plainClasses env (subClass env cn alias name) (subType env tn name) sub := by
  simp [plainExtra1, h, plainClasses]

theorem plainExtra1_leaf (env : Env) (cn tn : String) (alias : Option String) (name : String) (dirs : List Directive)
    (sid : Nat) (sub : List Selection) (h : sub.isEmpty = true) :
    plainExtra1 env cn tn (.field alias name dirs sid sub) = [] := by
  simp [plainExtra1, h]

def bump (s : St) (ctx : Ctx) : St :=
  { s with usedEnums := s.usedEnums ++ ctx.enums, usedScalars := s.usedScalars ++ ctx.customScalars }

theorem fieldBody_plain (env : Env) (f : Nat) (IH : GenSpec env f) (cn tn : String) (tv : List String)
    (alias : Option String) (name : String) (dirs : List Directive) (sid : Nat) (sub : List Selection)
    (acc : FAcc) (s : St)
    (hl : plainLocal1 env s.marks cn tn (.field alias name dirs sid sub) = true)
    (hfuel : gfuel1 (.field alias name dirs sid sub) ≤ f + 2)
    (hnd : ((plainExtra1 env cn tn (.field alias name dirs sid sub)).map (·.name)).Nodup)
    (hfresh : ∀ n ∈ (plainExtra1 env cn tn (.field alias name dirs sid sub)).map (·.name), n ∉ s.publicNames) :
    ∃ s', fieldBody env (f + 1) cn tn tv ⟨alias, name, dirs, sid, sub⟩ acc s =
        .ok (.yield (acc.1 ++ [fieldDecl env cn tn alias name dirs sub],
                     acc.2 ++ plainExtra1 env cn tn (.field alias name dirs sid sub)), s') ∧
      s'.publicNames = s.publicNames ++ (plainExtra1 env cn tn (.field alias name dirs sid sub)).map (·.name) ∧
      s'.marks = s.marks := by
  simp only [plainLocal1, Bool.and_eq_true] at hl
  obtain ⟨⟨⟨hname, hmix⟩, hfd⟩, hcase⟩ := hl
  have hmix' : (dirs.any (·.name == Tables.mixinName)) = false := by simpa using hmix
  have hT := fieldTypeFromSchema_some env tn name hfd
  by_cases hsub : sub.isEmpty = true
  · -- leaf
    rw [if_pos hsub] at hcase
    obtain ⟨ctx, hpo⟩ := parseOperationField_leaf env (f + 1 + 1) name dirs sub (fieldT env tn name)
      (subClass env cn alias name) tv hname hcase
    refine ⟨bump s ctx, ?_, ?_, ?_⟩
    · unfold fieldBody
      refine run_bind (a := fieldT env tn name) (s' := s) (by show ResultTypes.liftExcept (fieldTypeFromSchema env tn name) s = _; rw [hT]; rfl) ?_
      refine run_bind (s' := s) (by
        show ResultTypes.liftExcept (parseOperationField env (f + 1 + 1) name dirs sub (fieldT env tn name) (subClass env cn alias name) tv) s = _
        rw [hpo]; rfl) ?_
      refine run_bind (mixinBases_none dirs s hmix') ?_
      refine run_bind (a := []) (s' := s) (by
        show parseFieldSelectionSetTypes env (f + 1) sid sub ctx [] s = _
        rw [parseFieldSelectionSetTypes_succ, if_pos hsub]; rfl) ?_
      refine run_bind (run_modify _ _) ?_
      rw [run_pure, plainExtra1_leaf _ _ _ _ _ _ _ _ hsub]
      simp only [fieldDecl, hsub, if_true, RField.key, List.append_nil]
      rw [isUnionAnn_condAnn _ _ (isUnionAnn_wrapAnn _ (by rw [ResultLeaf.leafBase_eq]; exact Or.inl ⟨_, rfl⟩) _ _)]
      rfl
    · rw [plainExtra1_leaf _ _ _ _ _ _ _ _ hsub]; simp [bump]
    · rfl
  · -- object
    have hsub' : sub.isEmpty = false := by simpa using hsub
    rw [if_neg hsub] at hcase
    simp only [Bool.and_eq_true, beq_iff_eq] at hcase
    obtain ⟨⟨⟨hkind, hmark⟩, _⟩, hrec⟩ := hcase
    have hmark' : s.marks.contains sid = false := by simpa using hmark
    have hpo := parseOperationField_obj env (f + 1 + 1) name dirs sub (fieldT env tn name)
      (subClass env cn alias name) tv hname hkind
    rw [plainExtra1_sub _ _ _ _ _ _ _ _ hsub'] at hnd hfresh ⊢
    have hfu : gfuel sub ≤ f := by simp only [gfuel1] at hfuel; omega
    obtain ⟨s1, hrun, hpn, hmk⟩ := IH (subClass env cn alias name) (subType env tn name) sid sub
      (((typenameValues env [(subClass env cn alias name, subType env tn name)]).find?
        (·.1 == subType env tn name)).map (·.2) |>.getD []) s hfu hmark' hrec hnd hfresh
    refine ⟨bump s1 { related := [(subClass env cn alias name, subType env tn name)] }, ?_, ?_, ?_⟩
    · unfold fieldBody
      refine run_bind (a := fieldT env tn name) (s' := s) (by show ResultTypes.liftExcept (fieldTypeFromSchema env tn name) s = _; rw [hT]; rfl) ?_
      refine run_bind (s' := s) (by
        show ResultTypes.liftExcept (parseOperationField env (f + 1 + 1) name dirs sub (fieldT env tn name) (subClass env cn alias name) tv) s = _
        rw [hpo]; rfl) ?_
      refine run_bind (mixinBases_none dirs s hmix') ?_
      refine run_bind (a := plainClasses env (subClass env cn alias name) (subType env tn name) sub) (s' := s1) (by
        show parseFieldSelectionSetTypes env (f + 1) sid sub { related := [(subClass env cn alias name, subType env tn name)] } [] s = _
        rw [parseFieldSelectionSetTypes_succ, if_neg hsub]
        refine run_bind (a := plainClasses env (subClass env cn alias name) (subType env tn name) sub) (s' := s1) ?_ rfl
        rw [List.forIn_cons]
        refine run_bind (a := .yield ([] ++ plainClasses env (subClass env cn alias name) (subType env tn name) sub)) (s' := s1) ?_ (by simp; rfl)
        unfold relatedBody
        exact run_bind hrun rfl) ?_
      refine run_bind (run_modify _ _) ?_
      rw [run_pure]
      simp only [fieldDecl, hsub', RField.key]
      rw [isUnionAnn_condAnn _ _ (isUnionAnn_wrapAnn _ (Or.inr ⟨_, rfl⟩) _ _)]
      rfl
    · exact hpn
    · exact hmk

theorem plainDecls_cons_field (env : Env) (cn tn : String) (alias : Option String) (name : String) (dirs : List Directive)
    (sid : Nat) (sub rest : List Selection) :
    plainDecls env cn tn (.field alias name dirs sid sub :: rest) =
      fieldDecl env cn tn alias name dirs sub :: plainDecls env cn tn rest := by
  simp [plainDecls, List.flatMap_cons, plainDecl1]

theorem fieldLoop_plain (env : Env) (f : Nat) (IH : GenSpec env f) (cn tn : String) (tv : List String) :
    ∀ (sel : List Selection) (acc : FAcc) (s : St),
      (∀ x ∈ sel, plainLocal1 env s.marks cn tn x = true) →
      (∀ x ∈ sel, gfuel1 x ≤ f + 2) →
      ((plainExtra env cn tn sel).map (·.name)).Nodup →
      (∀ n ∈ (plainExtra env cn tn sel).map (·.name), n ∉ s.publicNames) →
      ∃ s', forIn (sel.map toR) acc (fieldBody env (f + 1) cn tn tv) s =
          .ok ((acc.1 ++ plainDecls env cn tn sel, acc.2 ++ plainExtra env cn tn sel), s') ∧
        s'.publicNames = s.publicNames ++ (plainExtra env cn tn sel).map (·.name) ∧ s'.marks = s.marks := by
  intro sel
  induction sel with
  | nil =>
    intro acc s _ _ _ _
    exact ⟨s, by simp [plainDecls, plainExtra]; rfl, by simp [plainExtra], rfl⟩
  | cons x rest ih =>
    intro acc s hloc hfu hnd hfresh
    have hx := hloc x List.mem_cons_self
    cases x with
    | spread n d => simp [plainLocal1] at hx
    | inline on d sid sub => simp [plainLocal1] at hx
    | field alias name dirs sid sub =>
      simp only [plainExtra, List.map_append] at hnd hfresh
      obtain ⟨hnd1, hnd2, hdisj⟩ := List.nodup_append.mp hnd
      obtain ⟨s1, hstep, hpn1, hmk1⟩ := fieldBody_plain env f IH cn tn tv alias name dirs sid sub acc s hx
        (hfu _ List.mem_cons_self) hnd1 (fun n hn => hfresh n (List.mem_append_left _ hn))
      obtain ⟨s2, hrest, hpn2, hmk2⟩ := ih
        (acc.1 ++ [fieldDecl env cn tn alias name dirs sub], acc.2 ++ plainExtra1 env cn tn (.field alias name dirs sid sub)) s1
        (fun y hy => by rw [hmk1]; exact hloc y (List.mem_cons_of_mem _ hy))
        (fun y hy => hfu y (List.mem_cons_of_mem _ hy)) hnd2
        (fun n hn => by
          rw [hpn1]
          intro hmem
          rcases List.mem_append.mp hmem with h | h
          · exact hfresh n (List.mem_append_right _ hn) h
          · exact hdisj _ h _ hn rfl)
      refine ⟨s2, ?_, ?_, ?_⟩
      · simp only [List.map_cons, toR]
        rw [List.forIn_cons]
        refine run_bind hstep ?_
        simp only []
        rw [hrest, plainDecls_cons_field]
        simp [plainExtra, List.append_assoc]
      · rw [hpn2, hpn1]; simp [plainExtra, List.append_assoc]
      · rw [hmk2, hmk1]

/-- **part (1), all fuels**: `_parse_type_definition` on plain input returns exactly `plainClasses` -/
theorem gen_spec (env : Env) : ∀ f : Nat, GenSpec env f
  | 0 => by
    intro cn tn sid sel tv st hfu; have := gfuel_ge sel; omega
  | 1 => by
    intro cn tn sid sel tv st hfu; have := gfuel_ge sel; omega
  | f + 2 => by
    intro cn tn sid sel tv st hfu hmark hloc hnd hfresh
    have IH := gen_spec env f
    have hlocs := (plainLocal_iff env st.marks cn tn sel).mp hloc
    simp only [plainClasses, List.map_cons, List.nodup_cons] at hnd
    have hcn : st.publicNames.contains cn = false := by
      have := hfresh cn (by simp [plainClasses])
      simpa using this
    obtain ⟨s', hloop, hpn, hmk⟩ := fieldLoop_plain env f IH cn tn tv sel ([], [])
      { st with publicNames := st.publicNames ++ [cn] } hlocs
      (fun x hx => Nat.le_trans (gfuel_mem sel x hx) hfu) hnd.2
      (fun n hn => by
        intro hmem
        rcases List.mem_append.mp hmem with h | h
        · exact hfresh n (by simp only [plainClasses, List.map_cons]; exact List.mem_cons_of_mem _ hn) h
        · have : n = cn := by simpa using h
          exact hnd.1 (this ▸ hn))
    refine ⟨s', ?_, ?_, hmk⟩
    · rw [parseTypeDefinition_succ]
      refine run_bind (run_get st) ?_
      simp only [hcn, Bool.false_eq_true, if_false]
      refine run_bind (run_modify _ _) ?_
      refine run_bind (resolve_fields env (f + 1) tn sel _ (fun x hx => plainLocal1_isField (hlocs x hx))) ?_
      refine run_bind (run_get _) ?_
      simp only [hmark, Bool.false_eq_true, if_false, Bool.false_and]
      unfold classTail
      refine run_bind hloop ?_
      simp [run_pure, plainClasses]
    · rw [hpn]; simp [plainClasses, List.append_assoc]

end Ariadne.C01Plain
