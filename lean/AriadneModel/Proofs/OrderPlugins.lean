/-
  Proofs/OrderPlugins.lean — the two bundled plugins that feed import statements from sets
  (ClientForwardRefsPlugin, ShorterResultsPlugin).  Core Lean only.
-/
import AriadneModel.Proofs.OrderPkg

set_option linter.unusedSimpArgs false
set_option linter.unusedVariables false

namespace Ariadne.Order
open List Ariadne.Isort

/-! ### ClientForwardRefsPlugin._add_forward_ref_imports -/

/-- spelling of an absolute module -/
def mod0 (m : String) : String := modStr ⟨0, m, []⟩

def Lvl0 (gs : List ImportFrom) : Prop := ∀ g, g ∈ gs → g.level = 0

/-- (module spelling, name) pairs of a block -/
def PairIn (gs : List ImportFrom) (m : String) (a : Name) : Prop := ∃ s, s ∈ gs ∧ modStr s = m ∧ a ∈ s.names
def ModIn (gs : List ImportFrom) (m : String) : Prop := ∃ s, s ∈ gs ∧ modStr s = m

theorem modStr_lvl0 (g : ImportFrom) (h : g.level = 0) : modStr g = mod0 g.module := by
  simp [modStr, mod0, h]

theorem addToGroup_spec (m : String) (c : Name) : ∀ gs : List ImportFrom, Lvl0 gs →
    Lvl0 (addToGroup m c gs) ∧ (∀ m' a, PairIn (addToGroup m c gs) m' a ↔ PairIn gs m' a ∨ (m' = mod0 m ∧ a = c))
      ∧ (∀ m', ModIn (addToGroup m c gs) m' ↔ ModIn gs m' ∨ m' = mod0 m) := by
  intro gs
  induction gs with
  | nil =>
    intro _
    refine ⟨?_, ?_, ?_⟩
    · intro g hg; simp [addToGroup] at hg; subst hg; rfl
    · intro m' a
      simp only [addToGroup, PairIn, List.mem_singleton]
      constructor
      · rintro ⟨s, rfl, h1, h2⟩
        right; simp at h2; exact ⟨h1.symm, h2⟩
      · rintro (⟨s, hs, _⟩ | ⟨h1, h2⟩)
        · cases hs
        · exact ⟨_, rfl, h1.symm, by simp [h2]⟩
    · intro m'
      simp only [addToGroup, ModIn, List.mem_singleton]
      constructor
      · rintro ⟨s, rfl, h1⟩; right; exact h1.symm
      · rintro (⟨s, hs, _⟩ | h1)
        · cases hs
        · exact ⟨_, rfl, h1.symm⟩
  | cons g gs ih =>
    intro hl
    have hg0 : g.level = 0 := hl g List.mem_cons_self
    have hl' : Lvl0 gs := fun x hx => hl x (List.mem_cons_of_mem _ hx)
    unfold addToGroup
    split
    · rename_i hgm
      refine ⟨?_, ?_, ?_⟩
      · intro x hx
        rcases List.mem_cons.mp hx with rfl | hx
        · exact hg0
        · exact hl' x hx
      · intro m' a
        simp only [PairIn, List.mem_cons]
        constructor
        · rintro ⟨s, rfl | hs, h1, h2⟩
          · simp only [List.mem_append, List.mem_singleton] at h2
            rcases h2 with h2 | h2
            · left; exact ⟨g, Or.inl rfl, h1, h2⟩
            · right
              refine ⟨?_, h2⟩
              rw [← h1, ← hgm]; exact modStr_lvl0 _ hg0
          · left; exact ⟨s, Or.inr hs, h1, h2⟩
        · rintro (⟨s, rfl | hs, h1, h2⟩ | ⟨h1, h2⟩)
          · exact ⟨_, Or.inl rfl, h1, by simp [h2]⟩
          · exact ⟨s, Or.inr hs, h1, h2⟩
          · refine ⟨_, Or.inl rfl, ?_, by simp [h2]⟩
            rw [h1, ← hgm]; exact modStr_lvl0 g hg0
      · intro m'
        simp only [ModIn, List.mem_cons]
        constructor
        · rintro ⟨s, rfl | hs, h1⟩
          · left; exact ⟨g, Or.inl rfl, h1⟩
          · left; exact ⟨s, Or.inr hs, h1⟩
        · rintro (⟨s, rfl | hs, h1⟩ | h1)
          · exact ⟨_, Or.inl rfl, h1⟩
          · exact ⟨s, Or.inr hs, h1⟩
          · refine ⟨_, Or.inl rfl, ?_⟩
            rw [h1, ← hgm]; exact modStr_lvl0 g hg0
    · obtain ⟨i1, i2, i3⟩ := ih hl'
      refine ⟨?_, ?_, ?_⟩
      · intro x hx
        rcases List.mem_cons.mp hx with rfl | hx
        · exact hg0
        · exact i1 x hx
      · intro m' a
        have := i2 m' a
        simp only [PairIn, List.mem_cons] at this ⊢
        constructor
        · rintro ⟨s, rfl | hs, h1, h2⟩
          · left; exact ⟨_, Or.inl rfl, h1, h2⟩
          · rcases this.mp ⟨s, hs, h1, h2⟩ with ⟨s', hs', r⟩ | r
            · left; exact ⟨s', Or.inr hs', r⟩
            · right; exact r
        · rintro (⟨s, rfl | hs, h1, h2⟩ | r)
          · exact ⟨_, Or.inl rfl, h1, h2⟩
          · obtain ⟨s', hs', r⟩ := this.mpr (Or.inl ⟨s, hs, h1, h2⟩)
            exact ⟨s', Or.inr hs', r⟩
          · obtain ⟨s', hs', r⟩ := this.mpr (Or.inr r)
            exact ⟨s', Or.inr hs', r⟩
      · intro m'
        have := i3 m'
        simp only [ModIn, List.mem_cons] at this ⊢
        constructor
        · rintro ⟨s, rfl | hs, h1⟩
          · left; exact ⟨_, Or.inl rfl, h1⟩
          · rcases this.mp ⟨s, hs, h1⟩ with ⟨s', hs', r⟩ | r
            · left; exact ⟨s', Or.inr hs', r⟩
            · right; exact r
        · rintro (⟨s, rfl | hs, h1⟩ | r)
          · exact ⟨_, Or.inl rfl, h1⟩
          · obtain ⟨s', hs', r⟩ := this.mpr (Or.inl ⟨s, hs, h1⟩)
            exact ⟨s', Or.inr hs', r⟩
          · obtain ⟨s', hs', r⟩ := this.mpr (Or.inr r)
            exact ⟨s', Or.inr hs', r⟩

theorem fwd_fold_spec (imp : List (Name × String)) : ∀ (ts : List Name) (acc : List ImportFrom), Lvl0 acc →
    (∀ c, c ∈ ts → ∃ m, lookup imp c = some m) →
    ∃ r, ts.foldlM (fwdStep imp) acc = .ok r ∧ Lvl0 r
      ∧ (∀ m' a, PairIn r m' a ↔ PairIn acc m' a ∨ ∃ c m, c ∈ ts ∧ lookup imp c = some m ∧ m' = mod0 m ∧ a = c)
      ∧ (∀ m', ModIn r m' ↔ ModIn acc m' ∨ ∃ c m, c ∈ ts ∧ lookup imp c = some m ∧ m' = mod0 m) := by
  intro ts
  induction ts with
  | nil =>
    intro acc hl _
    exact ⟨acc, rfl, hl, by simp, by simp⟩
  | cons t ts ih =>
    intro acc hl hall
    obtain ⟨m, hm⟩ := hall t List.mem_cons_self
    obtain ⟨s1, s2, s3⟩ := addToGroup_spec m t acc hl
    obtain ⟨r, hr, hl', p, q⟩ := ih (addToGroup m t acc) s1 (fun c hc => hall c (List.mem_cons_of_mem _ hc))
    refine ⟨r, ?_, hl', ?_, ?_⟩
    · simp only [List.foldlM_cons, fwdStep, hm, bind, Except.bind]
      exact hr
    · intro m' a
      rw [p m' a, s2 m' a]
      constructor
      · rintro ((h | ⟨h1, h2⟩) | ⟨c, mm, hc, r⟩)
        · exact Or.inl h
        · exact Or.inr ⟨t, m, List.mem_cons_self, hm, h1, h2⟩
        · exact Or.inr ⟨c, mm, List.mem_cons_of_mem _ hc, r⟩
      · rintro (h | ⟨c, mm, hc, h1, h2, h3⟩)
        · exact Or.inl (Or.inl h)
        · rcases List.mem_cons.mp hc with rfl | hc
          · rw [hm] at h1; cases h1
            exact Or.inl (Or.inr ⟨h2, h3⟩)
          · exact Or.inr ⟨c, mm, hc, h1, h2, h3⟩
    · intro m'
      rw [q m', s3 m']
      constructor
      · rintro ((h | h1) | ⟨c, mm, hc, r⟩)
        · exact Or.inl h
        · exact Or.inr ⟨t, m, List.mem_cons_self, hm, h1⟩
        · exact Or.inr ⟨c, mm, List.mem_cons_of_mem _ hc, r⟩
      · rintro (h | ⟨c, mm, hc, h1, h2⟩)
        · exact Or.inl (Or.inl h)
        · rcases List.mem_cons.mp hc with rfl | hc
          · rw [hm] at h1; cases h1
            exact Or.inl (Or.inr h2)
          · exact Or.inr ⟨c, mm, hc, h1, h2⟩

theorem blockEquiv_of_pairs {s₁ s₂ : List ImportFrom} (hm : ∀ m, ModIn s₁ m ↔ ModIn s₂ m) (hp : ∀ m a, PairIn s₁ m a ↔ PairIn s₂ m a) :
    BlockEquiv s₁ s₂ := by
  constructor
  · intro m
    simp only [List.mem_map]
    constructor
    · rintro ⟨s, hs, rfl⟩
      obtain ⟨s', hs', r⟩ := (hm _).mp ⟨s, hs, rfl⟩
      exact ⟨s', hs', r⟩
    · rintro ⟨s, hs, rfl⟩
      obtain ⟨s', hs', r⟩ := (hm _).mpr ⟨s, hs, rfl⟩
      exact ⟨s', hs', r⟩
  · intro m a
    rw [mem_namesOf, mem_namesOf]
    exact hp m a

/-- the TYPE_CHECKING block under two enumerations: both succeed, with equivalent import blocks -/
theorem forwardRefImports_equiv (e₁ e₂ : EnumOracle) (he₁ : EnumOK e₁) (he₂ : EnumOK e₂) (types : List Name)
    (imp : List (Name × String)) (hall : ∀ c, c ∈ types → ∃ m, lookup imp c = some m) :
    ∃ r₁ r₂, forwardRefImports e₁ types imp = .ok r₁ ∧ forwardRefImports e₂ types imp = .ok r₂ ∧ BlockEquiv r₁ r₂ := by
  have l0 : Lvl0 [] := fun g hg => by cases hg
  obtain ⟨r₁, h1, _, p1, q1⟩ := fwd_fold_spec imp (e₁ types) [] l0 (fun c hc => hall c ((he₁ _).mem_iff.mp hc))
  obtain ⟨r₂, h2, _, p2, q2⟩ := fwd_fold_spec imp (e₂ types) [] l0 (fun c hc => hall c ((he₂ _).mem_iff.mp hc))
  refine ⟨r₁, r₂, h1, h2, blockEquiv_of_pairs ?_ ?_⟩
  · intro m
    rw [q1 m, q2 m]
    simp only [(he₁ types).mem_iff, (he₂ types).mem_iff]
  · intro m a
    rw [p1 m a, p2 m a]
    simp only [(he₁ types).mem_iff, (he₂ types).mem_iff]

end Ariadne.Order

namespace Ariadne.Order
open List Ariadne.Isort

/-! ### ShorterResultsPlugin.generate_client_module -/

def StmtRel (a b : ImportFrom) : Prop := a.level = b.level ∧ a.module = b.module ∧ a.names.Perm b.names

/-- statement by statement: same module, names permuted -/
inductive StmtsRel : List ImportFrom → List ImportFrom → Prop
  | nil : StmtsRel [] []
  | cons {a b : ImportFrom} {l₁ l₂ : List ImportFrom} : StmtRel a b → StmtsRel l₁ l₂ → StmtsRel (a :: l₁) (b :: l₂)

theorem blockEquiv_of_forall₂ : ∀ {l₁ l₂ : List ImportFrom}, StmtsRel l₁ l₂ → BlockEquiv l₁ l₂
  | _, _, .nil => BlockEquiv.refl _
  | _, _, .cons (a := a) (b := b) (l₁ := l₁) (l₂ := l₂) hab hrest => by
    have ih := blockEquiv_of_forall₂ hrest
    have hmod : modStr a = modStr b := by simp [modStr, hab.1, hab.2.1]
    constructor
    · intro m
      simp only [List.map_cons, List.mem_cons, hmod]
      rw [ih.1 m]
    · intro m x
      have := ih.2 m x
      simp only [mem_namesOf, List.mem_cons] at this ⊢
      constructor
      · rintro ⟨s, rfl | hs, h1, h2⟩
        · exact ⟨b, Or.inl rfl, hmod ▸ h1, hab.2.2.mem_iff.mp h2⟩
        · obtain ⟨s', hs', r⟩ := this.mp ⟨s, hs, h1, h2⟩
          exact ⟨s', Or.inr hs', r⟩
      · rintro ⟨s, rfl | hs, h1, h2⟩
        · exact ⟨a, Or.inl rfl, hmod ▸ h1, hab.2.2.mem_iff.mpr h2⟩
        · obtain ⟨s', hs', r⟩ := this.mpr ⟨s, hs, h1, h2⟩
          exact ⟨s', Or.inr hs', r⟩

theorem extGo_rel (e₁ e₂ : EnumOracle) (he₁ : EnumOK e₁) (he₂ : EnumOK e₂) :
    ∀ (stmts : List ImportFrom) (ext : List (String × List Name)),
      (extGo e₁ stmts ext).2 = (extGo e₂ stmts ext).2 ∧ StmtsRel (extGo e₁ stmts ext).1 (extGo e₂ stmts ext).1 := by
  intro stmts
  induction stmts with
  | nil => intro ext; exact ⟨rfl, .nil⟩
  | cons s rest ih =>
    intro ext
    simp only [extGo]
    cases hl : lookup ext s.module with
    | none =>
      obtain ⟨i1, i2⟩ := ih ext
      exact ⟨i1, .cons ⟨rfl, rfl, Perm.refl _⟩ i2⟩
    | some add =>
      obtain ⟨i1, i2⟩ := ih (ext.filter (fun p => p.1 != s.module))
      exact ⟨i1, .cons ⟨rfl, rfl, Perm.append_left _ ((he₁ add).trans (he₂ add).symm)⟩ i2⟩

theorem forall₂_append : ∀ {a₁ a₂ b₁ b₂ : List ImportFrom},
    StmtsRel a₁ a₂ → StmtsRel b₁ b₂ → StmtsRel (a₁ ++ b₁) (a₂ ++ b₂)
  | _, _, _, _, .nil, h => h
  | _, _, _, _, .cons h t, h' => .cons h (forall₂_append t h')

/-- the client module's imports after ShorterResults under two enumerations are equivalent blocks -/
theorem extendImports_equiv (e₁ e₂ : EnumOracle) (he₁ : EnumOK e₁) (he₂ : EnumOK e₂)
    (stmts : List ImportFrom) (ext : List (String × List Name)) :
    BlockEquiv (extendImports e₁ stmts ext) (extendImports e₂ stmts ext) := by
  obtain ⟨h1, h2⟩ := extGo_rel e₁ e₂ he₁ he₂ stmts ext
  apply blockEquiv_of_forall₂
  unfold extendImports
  simp only
  rw [h1]
  apply forall₂_append _ h2
  generalize (extGo e₂ stmts ext).2.reverse = l
  induction l with
  | nil => exact .nil
  | cons p ps ih => exact .cons ⟨rfl, rfl, (he₁ p.2).trans (he₂ p.2).symm⟩ ih

end Ariadne.Order

namespace Ariadne.Order
open List

/-! ### the fuel of the DFS model is never exhausted on an acyclic dictionary -/

def NoFuel {α : Type} (r : Except Err α) : Prop := ∀ err, r = .error err → err ≠ .fuel

section
variable (ord : List Name → List Name) (d : Deps) (rk : Name → Nat)
  (hrk : ∀ n ds m, lookup d n = some ds → m ∈ ds → rk m < rk n) (hord : ∀ ds x, x ∈ ord ds ↔ x ∈ ds)

theorem fold_noFuel (fuel : Nat) (step : ∀ x st, rk x < fuel → NoFuel (visit ord d fuel x st)) :
    ∀ (l : List Name) (st : St), (∀ x, x ∈ l → rk x < fuel) → NoFuel (l.foldlM (fun s x => visit ord d fuel x s) st) := by
  intro l
  induction l with
  | nil => intro st _ err h; simp [List.foldlM_nil, pure, Except.pure] at h
  | cons x xs ih =>
    intro st hall err h
    simp only [List.foldlM_cons, bind, Except.bind] at h
    cases hx : visit ord d fuel x st with
    | error e =>
      rw [hx] at h
      simp at h; subst h
      exact step x st (hall x List.mem_cons_self) e hx
    | ok s₁ =>
      rw [hx] at h
      exact ih s₁ (fun y hy => hall y (List.mem_cons_of_mem _ hy)) err h

include hrk hord in
theorem visit_noFuel : ∀ (fuel : Nat) (n : Name) (st : St), rk n < fuel → NoFuel (visit ord d fuel n st) := by
  intro fuel
  induction fuel with
  | zero => intro n st h; omega
  | succ fuel ih =>
    intro n st hlt err h
    unfold visit at h
    split at h
    · cases h
    · split at h
      · cases h; simp
      · rename_i ds hds
        simp only [bind, Except.bind] at h
        split at h
        · rename_i e hfold
          cases h
          refine fold_noFuel ord d rk fuel ih (ord ds) _ ?_ _ hfold
          intro x hx
          have := hrk n ds x hds ((hord ds x).mp hx)
          omega
        · cases h

include hrk hord in
theorem dfs_noFuel (roots : List Name) (hb : ∀ n, rk n ≤ d.length) : NoFuel (dfs ord d roots) := by
  intro err h
  unfold dfs at h
  cases hf : roots.foldlM (fun s x => visit ord d (d.length + 1) x s) (⟨[], []⟩ : St) with
  | ok st => rw [hf] at h; simp [Except.map] at h
  | error e =>
    rw [hf] at h
    simp [Except.map] at h
    subst h
    refine fold_noFuel ord d rk _ (visit_noFuel ord d rk hrk hord _) roots _ ?_ _ hf
    intro x _
    have := hb x
    omega
end

end Ariadne.Order
