/-
  `indent_invariant` (C02, stretch tier): re-indenting the lines of an operation text, putting a newline in
  front and the indentation of the closing quotes behind — what the embedding does to a safe text — does not
  change its GraphQL tokens (reference lexer of Spec/GqlLex.lean: line-local, no block strings).
-/
import AriadneModel.Spec.GqlLex
import AriadneModel.Proofs.Embed

set_option linter.unusedSimpArgs false
set_option linter.unusedVariables false

namespace Ariadne.GqlLexProofs
open Ariadne.PyStr Ariadne.GqlLex Ariadne.Embed Ariadne.EmbedProofs

theorem lexLine_nil : lexLine [] = [] := by simp [lexLine, lexF]

theorem lexLine_space (l : List Char) : lexLine (' ' :: l) = lexLine l := by
  simp [lexLine, lexF, isIgnored]

theorem lexLine_spaces (k : Nat) (l : List Char) : lexLine (List.replicate k ' ' ++ l) = lexLine l := by
  induction k with
  | zero => simp
  | succ k ih => rw [List.replicate_succ, List.cons_append, lexLine_space, ih]

theorem splitlines_nl (cs : List Char) : splitlines ('\n' :: cs) = [] :: splitlines cs := by
  rw [splitlines.eq_def]
  simp [isLineSep]

theorem splitlines_nosep_nil (c : Char) (cs : List Char) (h : isLineSep c = false) (hcs : splitlines cs = []) :
    splitlines (c :: cs) = [[c]] := by
  have hr : c ≠ '\r' := by intro hc; subst hc; simp [isLineSep] at h
  rw [splitlines.eq_def]
  split
  all_goals first
    | (simp_all; done)
    | (rename_i heq
       simp only [List.cons.injEq] at heq
       exact absurd heq.1 hr)
    | (rename_i heq
       simp only [List.cons.injEq] at heq
       obtain ⟨rfl, rfl⟩ := heq
       simp [h, hcs])

theorem splitlines_nosep_cons (c : Char) (cs l : List Char) (ls : List (List Char)) (h : isLineSep c = false)
    (hcs : splitlines cs = l :: ls) : splitlines (c :: cs) = (c :: l) :: ls := by
  have hr : c ≠ '\r' := by intro hc; subst hc; simp [isLineSep] at h
  rw [splitlines.eq_def]
  split
  all_goals first
    | (simp_all; done)
    | (rename_i heq
       simp only [List.cons.injEq] at heq
       exact absurd heq.1 hr)
    | (rename_i heq
       simp only [List.cons.injEq] at heq
       obtain ⟨rfl, rfl⟩ := heq
       simp [h, hcs])

theorem splitlines_line (A B : List Char) (h : ∀ c ∈ A, isLineSep c = false) :
    splitlines (A ++ '\n' :: B) = A :: splitlines B := by
  induction A with
  | nil => simpa using splitlines_nl B
  | cons a A ih =>
    rw [List.cons_append]
    exact splitlines_nosep_cons a _ A _ (h a (by simp)) (ih (fun c hc => h c (by simp [hc])))

theorem splitlines_single (A : List Char) (hne : A ≠ []) (h : ∀ c ∈ A, isLineSep c = false) : splitlines A = [A] := by
  induction A with
  | nil => exact absurd rfl hne
  | cons a A ih =>
    cases A with
    | nil => exact splitlines_nosep_nil a [] (h a (by simp)) (by simp [splitlines])
    | cons b A' => exact splitlines_nosep_cons a _ _ _ (h a (by simp)) (ih (by simp) (fun c hc => h c (by simp [hc])))

theorem splitlines_join (ls : List (List Char)) (tail : List Char) (h : ∀ l ∈ ls, ∀ c ∈ l, isLineSep c = false) :
    splitlines (ls.flatMap (· ++ ['\n']) ++ tail) = ls ++ splitlines tail := by
  induction ls with
  | nil => simp
  | cons l ls ih =>
    have : (l :: ls).flatMap (· ++ ['\n']) ++ tail = l ++ '\n' :: (ls.flatMap (· ++ ['\n']) ++ tail) := by simp
    rw [this, splitlines_line l _ (h l (by simp)), ih (fun x hx => h x (by simp [hx]))]
    rfl

/-- the re-indented line -/
def reind (k : Nat) (l : List Char) : List Char := if l.all (· == ' ') then l else List.replicate k ' ' ++ l

theorem lexLine_reind (k : Nat) (l : List Char) : lexLine (reind k l) = lexLine l := by
  unfold reind
  split
  · rfl
  · exact lexLine_spaces k l

theorem indentLines_eq (k : Nat) (ls : List (List Char)) : indentLines k ls = (ls.map (reind k)).flatMap (· ++ ['\n']) := by
  induction ls with
  | nil => rfl
  | cons l ls ih =>
    simp only [indentLines, List.flatMap_cons, List.map_cons] at ih ⊢
    rw [ih]
    rfl

theorem lexLine_all_spaces (k : Nat) : (splitlines (List.replicate k ' ')).flatMap lexLine = [] := by
  cases k with
  | zero => simp [splitlines]
  | succ k =>
    rw [splitlines_single _ (by simp) (by intro c hc; rw [List.mem_replicate] at hc; rw [hc.2]; decide)]
    have := lexLine_spaces (k + 1) []
    simp only [List.append_nil] at this
    simp [this, lexLine_nil]

/-- **indent_invariant**: the text handed to the transport has the same tokens as the printed operation. -/
theorem indent_invariant (k : Nat) (q : List Char) : lexText (expectedSent k q) = lexText q := by
  unfold lexText expectedSent
  rw [splitlines_nl, indentLines_eq, splitlines_join]
  · simp only [List.flatMap_cons, lexLine_nil, List.nil_append, List.flatMap_append, lexLine_all_spaces, List.append_nil]
    induction splitlines q with
    | nil => rfl
    | cons l ls ih => simp only [List.map_cons, List.flatMap_cons, lexLine_reind, ih]
  · intro l hl c hc
    rw [List.mem_map] at hl
    obtain ⟨l0, hl0, rfl⟩ := hl
    have hsep := ((splitlines_spec q).1 l0 hl0).2
    unfold reind at hc
    split at hc
    · exact hsep c hc
    · rw [List.mem_append] at hc
      rcases hc with hc | hc
      · rw [List.mem_replicate] at hc
        rw [hc.2]
        decide
      · exact hsep c hc

end Ariadne.GqlLexProofs
