/-
  Proofs/C01Fold.lean — property C01: the three "later entry for the same name" folds, characterised.
    * `Exec.addCollected` (CollectFields merges selections of the same response key),
    * `Pyd.addDecl` / `mergeDup` (a Python class body that annotates a name twice),
    * `mstep` (pydantic collecting fields along the bases: a later class overrides by Python name).
  Pure list lemmas (core Lean only).
-/
import AriadneModel.Spec.Pyd
import AriadneModel.Spec.Exec

set_option linter.unusedSimpArgs false
set_option linter.unusedVariables false

namespace Ariadne.C01Fold
open Ariadne Ariadne.Gql Ariadne.ResultTypes Ariadne.Util Ariadne.Pyd

/-! ### `dedup` -/

theorem mem_dedup (a : String) : ∀ l : List String, a ∈ dedup l ↔ a ∈ l
  | [] => by simp [dedup]
  | x :: xs => by
    have ih := mem_dedup a xs
    simp only [dedup, List.mem_cons, List.mem_filter, ih]
    constructor
    · rintro (h | h)
      · exact Or.inl h
      · exact Or.inr h.1
    · rintro (h | h)
      · exact Or.inl h
      · by_cases e : a = x
        · exact Or.inl e
        · exact Or.inr ⟨h, by simpa using e⟩

theorem nodup_dedup : ∀ l : List String, (dedup l).Nodup
  | [] => by simp [dedup]
  | x :: xs => by
    simp only [dedup, List.nodup_cons, List.mem_filter]
    refine ⟨fun h => by simpa using h.2, (nodup_dedup xs).sublist List.filter_sublist⟩

/-! ### CollectFields: `addCollected` -/

/-- what the later selections of the same key do to a collected entry -/
def mergeC (a : Exec.Collected) (l : List Exec.Collected) : Exec.Collected :=
  l.foldl (fun x c => { x with subs := x.subs ++ c.subs, conditional := x.conditional && c.conditional }) a

theorem mergeC_key (a : Exec.Collected) : ∀ l, (mergeC a l).key = a.key ∧ (mergeC a l).name = a.name ∧
    (mergeC a l).subs = a.subs ++ l.flatMap (·.subs) ∧ (mergeC a l).conditional = (a.conditional && l.all (·.conditional)) := by
  intro l
  induction l generalizing a with
  | nil => simp [mergeC]
  | cons c rest ih =>
    have := ih { a with subs := a.subs ++ c.subs, conditional := a.conditional && c.conditional }
    simp only [mergeC, List.foldl_cons] at this ⊢
    refine ⟨this.1, this.2.1, ?_, ?_⟩
    · rw [this.2.2.1]; simp [List.append_assoc]
    · rw [this.2.2.2]; simp [Bool.and_assoc]

theorem addCollected_old (acc : List Exec.Collected) (c : Exec.Collected) (h : c.key ∈ acc.map (·.key)) :
    Exec.addCollected acc c = acc.map fun x => if x.key == c.key then
      { x with subs := x.subs ++ c.subs, conditional := x.conditional && c.conditional } else x := by
  unfold Exec.addCollected
  have : (acc.any fun x => x.key == c.key) = true := by
    obtain ⟨x, hx, he⟩ := List.mem_map.mp h
    exact List.any_eq_true.mpr ⟨x, hx, by simpa using he⟩
  simp [this]

theorem addCollected_new (acc : List Exec.Collected) (c : Exec.Collected) (h : c.key ∉ acc.map (·.key)) :
    Exec.addCollected acc c = acc ++ [c] := by
  unfold Exec.addCollected
  have : (acc.any fun x => x.key == c.key) = false := by
    rw [List.any_eq_false]
    intro x hx he
    exact h (List.mem_map.mpr ⟨x, hx, by simpa using he⟩)
  simp [this]

/-- **the fold of `addCollected`**: keys stay distinct; every entry is an old entry or the first selection of a new key, merged
    with the later selections of its key; every key is represented -/
theorem fold_spec : ∀ (cs acc : List Exec.Collected), (acc.map (·.key)).Nodup →
    ((cs.foldl Exec.addCollected acc).map (·.key)).Nodup ∧
    (∀ g ∈ cs.foldl Exec.addCollected acc,
      (∃ a ∈ acc, a.key = g.key ∧ g = mergeC a (cs.filter (·.key == a.key))) ∨
      (g.key ∉ acc.map (·.key) ∧ ∃ c rest, cs.filter (·.key == g.key) = c :: rest ∧ g = mergeC c rest)) ∧
    (∀ x ∈ acc ++ cs, ∃ g ∈ cs.foldl Exec.addCollected acc, g.key = x.key)
  | [], acc, h => by
    refine ⟨h, fun g hg => Or.inl ⟨g, hg, rfl, by simp [mergeC]⟩, fun x hx => ⟨x, by simpa using hx, rfl⟩⟩
  | c :: cs, acc, h => by
    rw [List.foldl_cons]
    by_cases hc : c.key ∈ acc.map (·.key)
    · -- the key is there already
      have hacc' := addCollected_old acc c hc
      have hkeys : (Exec.addCollected acc c).map (·.key) = acc.map (·.key) := by
        rw [hacc', List.map_map]
        apply List.map_congr_left
        intro x _
        simp only [Function.comp]
        split <;> rfl
      obtain ⟨h1, h2, h3⟩ := fold_spec cs (Exec.addCollected acc c) (by rw [hkeys]; exact h)
      refine ⟨h1, fun g hg => ?_, fun x hx => ?_⟩
      · rcases h2 g hg with ⟨a', ha', hk, he⟩ | ⟨hn, c', rest, hf, he⟩
        · left
          rw [hacc'] at ha'
          obtain ⟨a, ha, rfl⟩ := List.mem_map.mp ha'
          by_cases hac : (a.key == c.key) = true
          · simp only [hac, if_true] at hk he
            refine ⟨a, ha, hk, ?_⟩
            have e1 : a.key = c.key := by simpa using hac
            have hca : (c.key == a.key) = true := by simp [e1]
            simp only [List.filter_cons, hca, if_true]
            rw [he]
            simp [mergeC]
          · simp only [hac] at hk he
            refine ⟨a, ha, hk, ?_⟩
            have hca : (c.key == a.key) = false := by
              cases h' : c.key == a.key with
              | false => rfl
              | true =>
                have e1 : c.key = a.key := by simpa using h'
                exact absurd (by simp [e1]) hac
            simp only [List.filter_cons, hca]
            exact he
        · right
          rw [hkeys] at hn
          refine ⟨hn, c', rest, ?_, he⟩
          have : (c.key == g.key) = false := by
            cases h' : c.key == g.key with
            | false => rfl
            | true => exact absurd ((by simpa using h' : c.key = g.key) ▸ hc) hn
          simp only [List.filter_cons, this]
          exact hf
      · rcases List.mem_append.mp hx with hx | hx
        · obtain ⟨a', ha', hk⟩ : ∃ a' ∈ Exec.addCollected acc c, a'.key = x.key := by
            have : x.key ∈ (Exec.addCollected acc c).map (·.key) := by rw [hkeys]; exact List.mem_map.mpr ⟨x, hx, rfl⟩
            obtain ⟨a', ha', hk⟩ := List.mem_map.mp this
            exact ⟨a', ha', hk⟩
          obtain ⟨g, hg, hgk⟩ := h3 a' (List.mem_append_left _ ha')
          exact ⟨g, hg, by rw [hgk, hk]⟩
        · rcases List.mem_cons.mp hx with rfl | hx
          · obtain ⟨a', ha', hk⟩ : ∃ a' ∈ Exec.addCollected acc x, a'.key = x.key := by
              have : x.key ∈ (Exec.addCollected acc x).map (·.key) := by rw [hkeys]; exact hc
              obtain ⟨a', ha', hk⟩ := List.mem_map.mp this
              exact ⟨a', ha', hk⟩
            obtain ⟨g, hg, hgk⟩ := h3 a' (List.mem_append_left _ ha')
            exact ⟨g, hg, by rw [hgk, hk]⟩
          · exact h3 x (List.mem_append_right _ hx)
    · -- a new key
      have hacc' := addCollected_new acc c hc
      obtain ⟨h1, h2, h3⟩ := fold_spec cs (Exec.addCollected acc c) (by
        rw [hacc', List.map_append, List.nodup_append]
        refine ⟨h, by simp, ?_⟩
        intro a ha b hb e
        have : b = c.key := by simpa using hb
        exact hc (this ▸ e ▸ ha))
      refine ⟨h1, fun g hg => ?_, fun x hx => ?_⟩
      · rcases h2 g hg with ⟨a', ha', hk, he⟩ | ⟨hn, c', rest, hf, he⟩
        · rw [hacc'] at ha'
          rcases List.mem_append.mp ha' with ha | ha
          · left
            refine ⟨a', ha, hk, ?_⟩
            have hca : (c.key == a'.key) = false := by
              cases h' : c.key == a'.key with
              | false => rfl
              | true => exact absurd ((by simpa using h' : c.key = a'.key) ▸ List.mem_map.mpr ⟨a', ha, rfl⟩) hc
            simp only [List.filter_cons, hca]
            exact he
          · have : a' = c := by simpa using ha
            subst this
            right
            refine ⟨by rw [← hk]; exact hc, a', cs.filter (·.key == a'.key), ?_, he⟩
            rw [← hk]
            simp [List.filter_cons]
        · right
          rw [hacc', List.map_append, List.mem_append, not_or] at hn
          refine ⟨hn.1, c', rest, ?_, he⟩
          have : (c.key == g.key) = false := by
            cases h' : c.key == g.key with
            | false => rfl
            | true => exact absurd (by simpa using (by simpa using h' : c.key = g.key).symm) hn.2
          simp only [List.filter_cons, this]
          exact hf
      · apply h3
        rw [hacc']
        rcases List.mem_append.mp hx with hx | hx
        · exact List.mem_append_left _ (List.mem_append_left _ hx)
        · rcases List.mem_cons.mp hx with rfl | hx
          · exact List.mem_append_left _ (List.mem_append_right _ List.mem_cons_self)
          · exact List.mem_append_right _ hx

/-! ### a Python class body annotating a name twice: `addDecl` / `mergeDup` -/

/-- what the later annotations of the same name do to a declaration -/
def mergeD (f : FieldDecl) (l : List FieldDecl) : FieldDecl :=
  l.foldl (fun f g => if hasValue g then { g with py := f.py } else { f with ann := g.ann }) f

theorem mergeD_py (f : FieldDecl) : ∀ l, (mergeD f l).py = f.py := by
  intro l
  induction l generalizing f with
  | nil => rfl
  | cons g rest ih =>
    simp only [mergeD, List.foldl_cons]
    have := ih (if hasValue g then { g with py := f.py } else { f with ann := g.ann })
    simp only [mergeD] at this
    rw [this]
    split <;> rfl

/-- merging declarations that agree on alias and are not discriminators: alias and flag survive, the annotation is one of
    theirs, and the result is required only if one of them is -/
theorem mergeD_props (al : Option String) : ∀ (l : List FieldDecl) (c : FieldDecl),
    c.alias = al → c.discriminator = false → (∀ g ∈ l, g.alias = al ∧ g.discriminator = false) →
    (mergeD c l).alias = al ∧ (mergeD c l).discriminator = false ∧
    (∃ g ∈ c :: l, (mergeD c l).ann = g.ann) ∧
    ((mergeD c l).defaultNone = false → ∃ g ∈ c :: l, g.defaultNone = false)
  | [], c, h1, h2, _ => ⟨h1, h2, ⟨c, List.mem_cons_self, rfl⟩, fun h => ⟨c, List.mem_cons_self, h⟩⟩
  | g :: rest, c, h1, h2, hl => by
    obtain ⟨hg1, hg2⟩ := hl g List.mem_cons_self
    have hrest := fun x hx => hl x (List.mem_cons_of_mem _ hx)
    have hstep : mergeD c (g :: rest) = mergeD (if hasValue g then { g with py := c.py } else { c with ann := g.ann }) rest := rfl
    rw [hstep]
    by_cases hv : hasValue g = true
    · simp only [hv, if_true]
      obtain ⟨i1, i2, ⟨x, hx, i3⟩, i4⟩ := mergeD_props al rest { g with py := c.py } hg1 hg2 hrest
      refine ⟨i1, i2, ?_, ?_⟩
      · rcases List.mem_cons.mp hx with rfl | hx
        · exact ⟨g, by simp, i3⟩
        · exact ⟨x, by simp [hx], i3⟩
      · intro hd
        obtain ⟨y, hy, hyd⟩ := i4 hd
        rcases List.mem_cons.mp hy with rfl | hy
        · exact ⟨g, by simp, hyd⟩
        · exact ⟨y, by simp [hy], hyd⟩
    · simp only [hv, Bool.false_eq_true, if_false]
      obtain ⟨i1, i2, ⟨x, hx, i3⟩, i4⟩ := mergeD_props al rest { c with ann := g.ann } h1 h2 hrest
      refine ⟨i1, i2, ?_, ?_⟩
      · rcases List.mem_cons.mp hx with rfl | hx
        · exact ⟨g, by simp, i3⟩
        · exact ⟨x, by simp [hx], i3⟩
      · intro hd
        obtain ⟨y, hy, hyd⟩ := i4 hd
        rcases List.mem_cons.mp hy with rfl | hy
        · exact ⟨c, by simp, hyd⟩
        · exact ⟨y, by simp [hy], hyd⟩

theorem addDecl_old (acc : List FieldDecl) (g : FieldDecl) (h : g.py ∈ acc.map (·.py)) :
    addDecl acc g = acc.map fun f =>
      if f.py == g.py then (if hasValue g then { g with py := f.py } else { f with ann := g.ann }) else f := by
  unfold addDecl
  have : (acc.any fun f => f.py == g.py) = true := by
    obtain ⟨x, hx, he⟩ := List.mem_map.mp h
    exact List.any_eq_true.mpr ⟨x, hx, by simpa using he⟩
  simp [this]

theorem addDecl_new (acc : List FieldDecl) (g : FieldDecl) (h : g.py ∉ acc.map (·.py)) : addDecl acc g = acc ++ [g] := by
  unfold addDecl
  have : (acc.any fun f => f.py == g.py) = false := by
    rw [List.any_eq_false]
    intro x hx he
    exact h (List.mem_map.mpr ⟨x, hx, by simpa using he⟩)
  simp [this]

/-- **the fold of `addDecl`** (as `fold_spec`) -/
theorem addDecl_spec : ∀ (ds acc : List FieldDecl), (acc.map (·.py)).Nodup →
    ((ds.foldl addDecl acc).map (·.py)).Nodup ∧
    (∀ d ∈ ds.foldl addDecl acc,
      (∃ a ∈ acc, a.py = d.py ∧ d = mergeD a (ds.filter (·.py == a.py))) ∨
      (d.py ∉ acc.map (·.py) ∧ ∃ c rest, ds.filter (·.py == d.py) = c :: rest ∧ d = mergeD c rest)) ∧
    (∀ x ∈ acc ++ ds, ∃ d ∈ ds.foldl addDecl acc, d.py = x.py)
  | [], acc, h => by
    refine ⟨h, fun g hg => Or.inl ⟨g, hg, rfl, by simp [mergeD]⟩, fun x hx => ⟨x, by simpa using hx, rfl⟩⟩
  | c :: cs, acc, h => by
    rw [List.foldl_cons]
    by_cases hc : c.py ∈ acc.map (·.py)
    · have hacc' := addDecl_old acc c hc
      have hkeys : (addDecl acc c).map (·.py) = acc.map (·.py) := by
        rw [hacc', List.map_map]
        apply List.map_congr_left
        intro x _
        simp only [Function.comp]
        split
        · split <;> rfl
        · rfl
      obtain ⟨h1, h2, h3⟩ := addDecl_spec cs (addDecl acc c) (by rw [hkeys]; exact h)
      refine ⟨h1, fun g hg => ?_, fun x hx => ?_⟩
      · rcases h2 g hg with ⟨a', ha', hk, he⟩ | ⟨hn, c', rest, hf, he⟩
        · left
          rw [hacc'] at ha'
          obtain ⟨a, ha, rfl⟩ := List.mem_map.mp ha'
          by_cases hac : (a.py == c.py) = true
          · have e1 : a.py = c.py := by simpa using hac
            have hpy : (if hasValue c then { c with py := a.py } else { a with ann := c.ann } : FieldDecl).py = a.py := by
              split <;> rfl
            simp only [hac, if_true, hpy] at hk he
            refine ⟨a, ha, hk, ?_⟩
            have hca : (c.py == a.py) = true := by simp [e1]
            simp only [List.filter_cons, hca, if_true]
            rw [he]
            simp [mergeD]
          · simp only [hac] at hk he
            refine ⟨a, ha, hk, ?_⟩
            have hca : (c.py == a.py) = false := by
              cases h' : c.py == a.py with
              | false => rfl
              | true =>
                have e1 : c.py = a.py := by simpa using h'
                exact absurd (by simp [e1]) hac
            simp only [List.filter_cons, hca]
            exact he
        · right
          rw [hkeys] at hn
          refine ⟨hn, c', rest, ?_, he⟩
          have : (c.py == g.py) = false := by
            cases h' : c.py == g.py with
            | false => rfl
            | true => exact absurd ((by simpa using h' : c.py = g.py) ▸ hc) hn
          simp only [List.filter_cons, this]
          exact hf
      · rcases List.mem_append.mp hx with hx | hx
        · obtain ⟨a', ha', hk⟩ : ∃ a' ∈ addDecl acc c, a'.py = x.py := by
            have : x.py ∈ (addDecl acc c).map (·.py) := by rw [hkeys]; exact List.mem_map.mpr ⟨x, hx, rfl⟩
            obtain ⟨a', ha', hk⟩ := List.mem_map.mp this
            exact ⟨a', ha', hk⟩
          obtain ⟨g, hg, hgk⟩ := h3 a' (List.mem_append_left _ ha')
          exact ⟨g, hg, by rw [hgk, hk]⟩
        · rcases List.mem_cons.mp hx with rfl | hx
          · obtain ⟨a', ha', hk⟩ : ∃ a' ∈ addDecl acc x, a'.py = x.py := by
              have : x.py ∈ (addDecl acc x).map (·.py) := by rw [hkeys]; exact hc
              obtain ⟨a', ha', hk⟩ := List.mem_map.mp this
              exact ⟨a', ha', hk⟩
            obtain ⟨g, hg, hgk⟩ := h3 a' (List.mem_append_left _ ha')
            exact ⟨g, hg, by rw [hgk, hk]⟩
          · exact h3 x (List.mem_append_right _ hx)
    · have hacc' := addDecl_new acc c hc
      obtain ⟨h1, h2, h3⟩ := addDecl_spec cs (addDecl acc c) (by
        rw [hacc', List.map_append, List.nodup_append]
        refine ⟨h, by simp, ?_⟩
        intro a ha b hb e
        have : b = c.py := by simpa using hb
        exact hc (this ▸ e ▸ ha))
      refine ⟨h1, fun g hg => ?_, fun x hx => ?_⟩
      · rcases h2 g hg with ⟨a', ha', hk, he⟩ | ⟨hn, c', rest, hf, he⟩
        · rw [hacc'] at ha'
          rcases List.mem_append.mp ha' with ha | ha
          · left
            refine ⟨a', ha, hk, ?_⟩
            have hca : (c.py == a'.py) = false := by
              cases h' : c.py == a'.py with
              | false => rfl
              | true => exact absurd ((by simpa using h' : c.py = a'.py) ▸ List.mem_map.mpr ⟨a', ha, rfl⟩) hc
            simp only [List.filter_cons, hca]
            exact he
          · have : a' = c := by simpa using ha
            subst this
            right
            refine ⟨by rw [← hk]; exact hc, a', cs.filter (·.py == a'.py), ?_, he⟩
            rw [← hk]
            simp [List.filter_cons]
        · right
          rw [hacc', List.map_append, List.mem_append, not_or] at hn
          refine ⟨hn.1, c', rest, ?_, he⟩
          have : (c.py == g.py) = false := by
            cases h' : c.py == g.py with
            | false => rfl
            | true => exact absurd (by simpa using (by simpa using h' : c.py = g.py).symm) hn.2
          simp only [List.filter_cons, this]
          exact hf
      · apply h3
        rw [hacc']
        rcases List.mem_append.mp hx with hx | hx
        · exact List.mem_append_left _ (List.mem_append_left _ hx)
        · rcases List.mem_cons.mp hx with rfl | hx
          · exact List.mem_append_left _ (List.mem_append_right _ List.mem_cons_self)
          · exact List.mem_append_right _ hx

/-- `mergeDup`: Python names distinct; every declaration is the first one of its name merged with the later ones; every name is
    represented -/
theorem mergeDup_spec (ds : List FieldDecl) :
    ((mergeDup ds).map (·.py)).Nodup ∧
    (∀ d ∈ mergeDup ds, ∃ c rest, ds.filter (·.py == d.py) = c :: rest ∧ d = mergeD c rest) ∧
    (∀ x ∈ ds, ∃ d ∈ mergeDup ds, d.py = x.py) := by
  obtain ⟨h1, h2, h3⟩ := addDecl_spec ds [] (by simp)
  refine ⟨h1, fun d hd => ?_, fun x hx => h3 x (by simpa using hx)⟩
  rcases h2 d hd with ⟨a, ha, _⟩ | ⟨_, c, rest, hf, he⟩
  · cases ha
  · exact ⟨c, rest, hf, he⟩

end Ariadne.C01Fold
