/-
  C14 helper lemmas, part 8: assembly at the level of one `execute_custom_operation` call and of a
  whole history.
-/
import AriadneModel.Proofs.C14Valid

set_option linter.unusedSimpArgs false
set_option linter.unusedVariables false

namespace Ariadne.C14
open Ariadne Ariadne.Builder Ariadne.CustomGen Ariadne.BuilderDoc

theorem buildSelections_Q {st : Store} (hp : Pristine st) (fuel : Nat) :
    ∀ (ns : List Node) (idx : Nat) sels ns' st', buildSelections fuel idx st ns = .ok (sels, ns', st') →
      st' = st ∧ All3 (Q st) ns sels ns' ∧ All3 (Qg fuel st) ns sels ns' ∧ ∀ s ∈ sels, (selVars s).Nodup := by
  intro ns
  induction ns with
  | nil =>
    intro idx sels ns' st' h
    simp [buildSelections] at h
    obtain ⟨rfl, rfl, rfl⟩ := h
    exact ⟨rfl, .nil, .nil, by simp⟩
  | cons n ns ih =>
    intro idx sels ns' st' h
    unfold buildSelections at h
    split at h
    · simp at h
    · rename_i s n1 st1 u1 h1
      obtain ⟨rfl, q1⟩ := toAst_Q hp idx fuel _ _ _ _ _ _ h1
      have g1 := (toAst_gf hp idx fuel _ _ _ _ _ _ h1).2
      have e1 := toAst_ext idx fuel _ _ _ _ _ _ _ h1
      split at h
      · simp at h
      · rename_i ss ns2 st2 h2
        simp at h
        obtain ⟨rfl, rfl, rfl⟩ := h
        obtain ⟨rfl, q2, g2, n2⟩ := ih _ _ _ _ h2
        refine ⟨rfl, .cons q1 q2, .cons g1 g2, ?_⟩
        intro t ht
        rcases List.mem_cons.mp ht with rfl | ht
        · exact e1.2.1
        · exact n2 t ht

theorem lookupS_of_mem_nodup {α : Type} : ∀ (l : List (String × α)) (k : String) (v : α),
    (l.map (·.1)).Nodup → (k, v) ∈ l → lookupS k l = some v
  | [], _, _, _, h => by simp at h
  | (k', v') :: rest, k, v, hn, h => by
    simp only [List.map_cons, List.nodup_cons] at hn
    rcases List.mem_cons.mp h with he | hm
    · simp at he
      obtain ⟨rfl, rfl⟩ := he
      simp [lookupS]
    · have : k' ≠ k := by
        intro hk
        subst hk
        exact hn.1 (List.mem_map_of_mem (f := (·.1)) hm)
      simp only [lookupS, this, if_false]
      exact lookupS_of_mem_nodup rest k v hn.2 hm

/-- `declared_once_and_bound` at the level of one client call over a pristine process:
    with no name shared between two top-level fields, the document with its variables substituted IS the
    tree of field objects - whatever its depth; every variable is used once, and the definitions are
    exactly the used variables, in order. -/
theorem execOp_bound {st : Store} (hp : Pristine st) (ty nm : String) (nodes : List Node) (d : Doc) (st' : Store)
    (h : execOp ty nm st nodes = .ok (d, st'))
    (hclash : crossClash d.sels = false) :
    st' = st ∧ resolveDoc d = some (intendedList st nodes) ∧ (docVars d).Nodup ∧
      d.varDefs.map (·.1) = docVars d ∧ d.opType = ty ∧ d.name = nm := by
  unfold execOp at h
  split at h
  · simp at h
  · rename_i sels nodes' st2 hb
    obtain ⟨rfl, q, g, hn⟩ := buildSelections_Q hp _ _ _ _ _ _ hb
    split at h
    · simp at h
    · rename_i fv hfv
      simp at h
      obtain ⟨rfl, rfl⟩ := h
      simp only [] at hclash
      have hU : (selVarsList sels).Nodup := nodup_of_crossClash sels hclash hn
      have hun : unames (fmtAllList nodes') = selVarsList sels := all3_unames q
      have hD : fv = fmtAllList nodes' := by
        rw [combine_eq g (by rw [hun]; exact hU)] at hfv
        simpa using hfv.symm
      subst hD
      have hlook := lookup_of_nodup (fmtAllList nodes') (by rw [hun]; exact hU)
      refine ⟨rfl, ?_, hU, ?_, rfl, rfl⟩
      · simp only [resolveDoc]
        exact all3_resolve q hlook
      · simp only [docVars, List.map_map, Function.comp_def]
        exact hun

theorem getLast_runOps (p : Package) (H : List Op) (E : Op)
    (hH : ∀ op ∈ H, opMutatesShared op = false) :
    (runOps p (H ++ [E])).getLast? = some (runOp p E p.initStore).1 ∧
    (runOps p [E]).getLast? = some (runOp p E p.initStore).1 := by
  constructor
  · unfold runOps
    rw [runOpsFrom_append, fold_keeps p H _ (initStore_pristine p) hH]
    simp [runOpsFrom]
  · simp [runOps, runOpsFrom]

theorem storeExact_init (p : Package) (h : ∀ ca ∈ p.sharedList, ca.2.fieldName = ca.2.gqlName) :
    StoreExact p.initStore := by
  intro id r s f hn
  unfold Package.initStore at hn
  rw [List.getElem?_map] at hn
  cases hx : p.sharedList[id]? with
  | none => simp [hx] at hn
  | some ca =>
    simp [hx] at hn
    have := h ca (List.mem_of_getElem? hx)
    rw [← hn.1]
    exact this

/-- everything the operation `E` guarantees when neither it nor the history mutates a class-level object
    and it lies outside the F1, F3, F5 triggers (F2 - arguments below level 2 - is fixed: no depth condition) -/
theorem op_good (p : Package) (H : List Op) (E : Op) (d : Doc)
    (hshared : ∀ ca ∈ p.sharedList, ca.2.fieldName = ca.2.gqlName)
    (hH : ∀ op ∈ H, opMutatesShared op = false) (hE : opMutatesShared E = false)
    (h1 : trigListArgList p E.fields = false) (h3 : trigPyNameList p E.fields = false)
    (hrun : (runOps p (H ++ [E])).getLast? = some (.ok d))
    (h5 : crossClash d.sels = false) :
    resolveDoc d = Intended p E ∧ (Intended p E).isSome ∧ (docVars d).Nodup ∧ d.varDefs.map (·.1) = docVars d ∧
      d.opType = E.opType ∧ d.name = E.name ∧ (runOps p [E]).getLast? = some (.ok d) := by
  obtain ⟨g1, g2⟩ := getLast_runOps p H E hH
  rw [g1] at hrun
  simp at hrun
  rw [g2, hrun]
  have hp := initStore_pristine p
  unfold runOp at hrun
  have hst := evalList_noMut p E.fields p.initStore hE
  rcases hl : evalList p E.fields p.initStore with ⟨rl, st1⟩
  rw [hl] at hrun hst
  simp at hst
  subst hst
  cases rl with
  | error x => simp at hrun
  | ok nodes =>
    simp only [] at hrun
    cases he : execOp E.opType E.name p.initStore nodes with
    | error x => rw [he] at hrun; simp at hrun
    | ok ds =>
      obtain ⟨d', st2⟩ := ds
      rw [he] at hrun
      simp at hrun
      subst hrun
      have n2 := evalList_nodesOK p E.fields _ _ nodes hE h1 h3 hl
      obtain ⟨-, b1, b2, b3, b4, b5⟩ := execOp_bound hp _ _ nodes d' st2 he h5
      have hf := evalList_fresh p E.fields _ nodes hE hl
      have hI : Intended p E = some (intendedList p.initStore nodes) := by
        simp only [Intended, hf]
        rw [intendedList_eq_exact (storeExact_init p hshared) nodes n2, intendedExactList_deref hp nodes]
      exact ⟨by rw [b1, hI], by simp [hI], b2, b3, b4, b5, rfl⟩

/-- "valid against the schema" from the validity of what the expression says -/
theorem valid_of_resolved (s : Schema) (d : Doc) (rs : List RSel) (root : String)
    (hroot : rootType s d.opType = some root) (hres : resolveDoc d = some rs)
    (hne : rs.isEmpty = false) (hv : validRSels s root rs = true)
    (hnd : (docVars d).Nodup) (hdefs : d.varDefs.map (·.1) = docVars d) : validDoc s d = true := by
  unfold resolveDoc at hres
  obtain ⟨v1, v2⟩ := validSels_of s d.varDefs d.values d.sels root rs hres hv
  unfold validDoc
  simp only [hroot, Bool.and_eq_true]
  refine ⟨⟨⟨⟨?_, ?_⟩, ?_⟩, ?_⟩, v1⟩
  · rw [allDistinct_iff, hdefs]; exact hnd
  · rw [List.all_eq_true]
    intro nt hnt
    have hu : nt.1 ∈ docVars d := by rw [← hdefs]; exact List.mem_map_of_mem hnt
    obtain ⟨t, ht, hok⟩ := v2 nt.1 hu
    have := lookupS_of_mem_nodup d.varDefs nt.1 nt.2 (by rw [hdefs]; exact hnd) hnt
    rw [this] at ht
    simp at ht
    subst ht
    exact hok
  · rw [List.all_eq_true]
    intro n hn
    rw [hdefs] at hn
    simpa using hn
  · cases hs : d.sels with
    | nil => rw [hs] at hres; simp [resolveSels] at hres; subst hres; simp at hne
    | cons _ _ => rfl

end Ariadne.C14
