/-
  C14 helper lemmas, part 8: builder PROGRAMS with python variables (Model/BuilderLet.lean).

    * evaluation of an expression commutes with forgetting `formatted` (`evalP_erase`): no accessor, no
      `alias`/`fields`/`on` ever reads `formatted_variables`;
    * an expression that applies no mutator to an object that outlives it (class-level object, variable) leaves the
      store untouched (`evalP_noMut`);
    * hence `runPOp_sim` (one operation from two processes that agree up to `formatted`), `runPOp_letsOnly` (an
      operation whose CALL ARGUMENTS mutate nothing leaves the process where its assignments alone leave it, up to
      `formatted`) and `runProgFrom_last` (history-freedom for programs);
    * `evalP_toP`: on variable-free expressions `evalP` is `evalExpr` (`runProgFrom_toP`: the model with variables
      is conservative over the tree model).
-/
import AriadneModel.Proofs.C14Owned

set_option linter.unusedSimpArgs false
set_option linter.unusedVariables false

namespace Ariadne.C14
open Ariadne Ariadne.Builder Ariadne.CustomGen Ariadne.BuilderDoc

/-! ### mutators commute with forgetting `formatted` -/

theorem eraseN_setAlias (al : String) (n : Node) : eraseN (setAlias al n) = setAlias al (eraseN n) := by
  cases n <;> rfl

theorem eraseN_extendSubs (cs : List Node) (n : Node) :
    eraseN (extendSubs cs n) = extendSubs (eraseL cs) (eraseN n) := by
  cases n with
  | obj r s f => simp [extendSubs, eraseN, eraseL_append]
  | ref id => rfl

theorem eraseF_setFragList (ty : String) (cs : List Node) :
    ∀ fs : List Frag, eraseF (setFragList ty cs fs) = setFragList ty (eraseL cs) (eraseF fs)
  | [] => rfl
  | .mk t ns :: fs => by
    simp only [setFragList, eraseF]
    split
    · simp [eraseF]
    · simp [eraseF, eraseF_setFragList ty cs fs]

theorem eraseN_setFrag (ty : String) (cs : List Node) (n : Node) :
    eraseN (setFrag ty cs n) = setFrag ty (eraseL cs) (eraseN n) := by
  cases n with
  | obj r s f => simp [setFrag, eraseN, eraseF_setFragList]
  | ref id => rfl

theorem nodeCls_erase (st : Store) (n : Node) : nodeCls (eraseL st) (eraseN n) = nodeCls st n := by
  cases n with
  | obj r s f => rfl
  | ref id =>
    simp only [eraseN, nodeCls, eraseL_getElem?]
    cases st[id]? with
    | none => rfl
    | some m => cases m <;> rfl

theorem mutate_erase {f g : Node → Node} (hfg : ∀ m, eraseN (f m) = g (eraseN m)) (n : Node) (st : Store) :
    mutate g (eraseN n) (eraseL st) = (eraseN (mutate f n st).1, eraseL (mutate f n st).2) := by
  cases n with
  | obj r s fr =>
    have h1 : mutate g (eraseN (.obj r s fr)) (eraseL st) = (g (eraseN (.obj r s fr)), eraseL st) := rfl
    rw [h1, ← hfg]
    rfl
  | ref id =>
    simp only [eraseN, mutate, eraseL_getElem?]
    cases st[id]? with
    | none => rfl
    | some o => simp [eraseL_set, hfg, eraseN]

/-! ### evaluation commutes with forgetting `formatted` -/

def eraseR (r : Except Err Node × Store) : Except Err Node × Store :=
  (match r.1 with
   | .ok n => .ok (eraseN n)
   | .error e => .error e, eraseL r.2)

def eraseRL (r : Except Err (List Node) × Store) : Except Err (List Node) × Store :=
  (match r.1 with
   | .ok ns => .ok (eraseL ns)
   | .error e => .error e, eraseL r.2)

theorem evalExpr_attr_erase (p : Package) (cls a : String) (st : Store) :
    evalExpr p (.attr cls a) (eraseL st) = eraseR (evalExpr p (.attr cls a) st) := by
  simp only [evalExpr]
  split <;> try rfl
  split <;> try rfl
  split <;> try rfl
  split <;> rfl

theorem evalExpr_call_erase (p : Package) (cls a : String) (kw : List (String × J)) (st : Store) :
    evalExpr p (.call cls a kw) (eraseL st) = eraseR (evalExpr p (.call cls a kw) st) := by
  simp only [evalExpr]
  split <;> try rfl
  split <;> try rfl
  split <;> try rfl
  split <;> rfl

mutual
  theorem evalP_erase (p : Package) (env : Env) : ∀ (e : PExpr) (st : Store),
      evalP p env e (eraseL st) = eraseR (evalP p env e st)
    | .var x, st => by
      simp only [evalP]
      split <;> rfl
    | .attr cls a, st => by
      simp only [evalP]
      exact evalExpr_attr_erase p cls a st
    | .call cls a kw, st => by
      simp only [evalP]
      exact evalExpr_call_erase p cls a kw st
    | .alias e al, st => by
      have ih := evalP_erase p env e st
      simp only [evalP]
      rw [ih]
      rcases hh : evalP p env e st with ⟨r, st1⟩
      cases r with
      | error x => rfl
      | ok n =>
        simp only [eraseR]
        rw [nodeCls_erase]
        split
        · rw [mutate_erase (eraseN_setAlias al)]
        · rfl
    | .fields e cs, st => by
      have ih := evalP_erase p env e st
      simp only [evalP]
      rw [ih]
      rcases hh : evalP p env e st with ⟨r, st1⟩
      cases r with
      | error x => rfl
      | ok n =>
        simp only [eraseR]
        rw [nodeCls_erase]
        split
        · rw [evalPList_erase p env cs st1]
          rcases hl : evalPList p env cs st1 with ⟨rl, st2⟩
          cases rl with
          | error x => rfl
          | ok ns =>
            simp only [eraseRL]
            rw [mutate_erase (eraseN_extendSubs ns)]
        · rfl
    | .on e ty cs, st => by
      have ih := evalP_erase p env e st
      simp only [evalP]
      rw [ih]
      rcases hh : evalP p env e st with ⟨r, st1⟩
      cases r with
      | error x => rfl
      | ok n =>
        simp only [eraseR]
        rw [nodeCls_erase]
        split
        · rw [evalPList_erase p env cs st1]
          rcases hl : evalPList p env cs st1 with ⟨rl, st2⟩
          cases rl with
          | error x => rfl
          | ok ns =>
            simp only [eraseRL]
            rw [mutate_erase (eraseN_setFrag ty ns)]
        · rfl
  theorem evalPList_erase (p : Package) (env : Env) : ∀ (es : List PExpr) (st : Store),
      evalPList p env es (eraseL st) = eraseRL (evalPList p env es st)
    | [], st => rfl
    | e :: es, st => by
      simp only [evalPList]
      rw [evalP_erase p env e st]
      rcases hh : evalP p env e st with ⟨r, st1⟩
      cases r with
      | error x => rfl
      | ok n =>
        simp only [eraseR]
        rw [evalPList_erase p env es st1]
        rcases hl : evalPList p env es st1 with ⟨rl, st2⟩
        cases rl with
        | error x => rfl
        | ok ns => rfl
end

/-! ### expressions that mutate nothing that outlives them -/

mutual
  /-- no mutator on a class-level object / a variable ⇒ the store is returned unchanged; and an expression
      that starts from a classmethod call evaluates to an owned object -/
  theorem evalP_noMut (p : Package) (env : Env) : ∀ (e : PExpr) (st : Store), pMutates e = false →
      (evalP p env e st).2 = st ∧
      (pexprIsRef (pexprBase e) = false → ∀ n, (evalP p env e st).1 = .ok n → IsObj n)
    | .var x, st, _ => by
      refine ⟨?_, fun h => by simp [pexprBase, pexprIsRef] at h⟩
      simp only [evalP]
      split <;> rfl
    | .attr cls a, st, _ => by
      refine ⟨?_, fun h => by simp [pexprBase, pexprIsRef] at h⟩
      simp only [evalP]
      exact (evalExpr_noMut p (.attr cls a) st rfl).1
    | .call cls a kw, st, _ => by
      simp only [evalP]
      exact ⟨(evalExpr_noMut p (.call cls a kw) st rfl).1, fun _ => (evalExpr_noMut p (.call cls a kw) st rfl).2 rfl⟩
    | .alias e al, st, h => by
      simp only [pMutates, Bool.or_eq_false_iff] at h
      obtain ⟨hb, hm⟩ := h
      obtain ⟨ih1, ih2⟩ := evalP_noMut p env e st hm
      have key : ∀ r st1, evalP p env e st = (r, st1) → st1 = st := by
        intro r st1 hh; rw [hh] at ih1; exact ih1
      refine ⟨?_, ?_⟩
      · simp only [evalP]
        rcases hh : evalP p env e st with ⟨r, st1⟩
        have := key r st1 hh
        subst this
        cases r with
        | error x => rfl
        | ok n =>
          obtain ⟨r0, s0, f0, rfl⟩ := ih2 hb n (by rw [hh])
          simp only [mutate_obj]
          split <;> rfl
      · intro _ n hn
        simp only [evalP] at hn
        rcases hh : evalP p env e st with ⟨r, st1⟩
        rw [hh] at hn
        cases r with
        | error x => simp at hn
        | ok n0 =>
          obtain ⟨r0, s0, f0, rfl⟩ := ih2 hb n0 (by rw [hh])
          simp only [mutate_obj] at hn
          split at hn
          · simp at hn; subst hn; exact ⟨_, _, _, rfl⟩
          · simp at hn
    | .fields e cs, st, h => by
      simp only [pMutates, Bool.or_eq_false_iff] at h
      obtain ⟨⟨hb, hm⟩, hcs⟩ := h
      obtain ⟨ih1, ih2⟩ := evalP_noMut p env e st hm
      have key : ∀ r st1, evalP p env e st = (r, st1) → st1 = st := by
        intro r st1 hh; rw [hh] at ih1; exact ih1
      refine ⟨?_, ?_⟩
      · simp only [evalP]
        rcases hh : evalP p env e st with ⟨r, st1⟩
        have := key r st1 hh
        subst this
        cases r with
        | error x => rfl
        | ok n =>
          obtain ⟨r0, s0, f0, rfl⟩ := ih2 hb n (by rw [hh])
          simp only []
          split
          · have il := evalPList_noMut p env cs st1 hcs
            rcases hl : evalPList p env cs st1 with ⟨rl, st2⟩
            rw [hl] at il
            simp at il
            subst il
            cases rl with
            | error x => rfl
            | ok ns => simp [mutate_obj]
          · rfl
      · intro _ n hn
        simp only [evalP] at hn
        rcases hh : evalP p env e st with ⟨r, st1⟩
        rw [hh] at hn
        cases r with
        | error x => simp at hn
        | ok n0 =>
          obtain ⟨r0, s0, f0, rfl⟩ := ih2 hb n0 (by rw [hh])
          simp only [] at hn
          split at hn
          · rcases hl : evalPList p env cs st1 with ⟨rl, st2⟩
            rw [hl] at hn
            cases rl with
            | error x => simp at hn
            | ok ns => simp [mutate_obj] at hn; subst hn; exact ⟨_, _, _, rfl⟩
          · simp at hn
    | .on e ty cs, st, h => by
      simp only [pMutates, Bool.or_eq_false_iff] at h
      obtain ⟨⟨hb, hm⟩, hcs⟩ := h
      obtain ⟨ih1, ih2⟩ := evalP_noMut p env e st hm
      have key : ∀ r st1, evalP p env e st = (r, st1) → st1 = st := by
        intro r st1 hh; rw [hh] at ih1; exact ih1
      refine ⟨?_, ?_⟩
      · simp only [evalP]
        rcases hh : evalP p env e st with ⟨r, st1⟩
        have := key r st1 hh
        subst this
        cases r with
        | error x => rfl
        | ok n =>
          obtain ⟨r0, s0, f0, rfl⟩ := ih2 hb n (by rw [hh])
          simp only []
          split
          · have il := evalPList_noMut p env cs st1 hcs
            rcases hl : evalPList p env cs st1 with ⟨rl, st2⟩
            rw [hl] at il
            simp at il
            subst il
            cases rl with
            | error x => rfl
            | ok ns => simp [mutate_obj]
          · rfl
      · intro _ n hn
        simp only [evalP] at hn
        rcases hh : evalP p env e st with ⟨r, st1⟩
        rw [hh] at hn
        cases r with
        | error x => simp at hn
        | ok n0 =>
          obtain ⟨r0, s0, f0, rfl⟩ := ih2 hb n0 (by rw [hh])
          simp only [] at hn
          split at hn
          · rcases hl : evalPList p env cs st1 with ⟨rl, st2⟩
            rw [hl] at hn
            cases rl with
            | error x => simp at hn
            | ok ns => simp [mutate_obj] at hn; subst hn; exact ⟨_, _, _, rfl⟩
          · simp at hn
  theorem evalPList_noMut (p : Package) (env : Env) : ∀ (es : List PExpr) (st : Store), pMutatesList es = false →
      (evalPList p env es st).2 = st
    | [], st, _ => rfl
    | e :: es, st, h => by
      simp only [pMutatesList, Bool.or_eq_false_iff] at h
      obtain ⟨h1, h2⟩ := h
      have i1 := (evalP_noMut p env e st h1).1
      simp only [evalPList]
      rcases hh : evalP p env e st with ⟨r, st1⟩
      rw [hh] at i1
      simp at i1
      subst i1
      cases r with
      | error x => rfl
      | ok n =>
        have i2 := evalPList_noMut p env es st1 h2
        rcases hl : evalPList p env es st1 with ⟨rl, st2⟩
        rw [hl] at i2
        simp at i2
        subst i2
        cases rl <;> simp [hl]
end

/-! ### assignments -/

def eraseT (r : Option Err × Env × Store) : Option Err × Env × Store := (r.1, r.2.1, eraseL r.2.2)

theorem bindVar_erase (p : Package) (x : String) (e : PExpr) (env : Env) (st : Store) :
    bindVar p x e env (eraseL st) = eraseT (bindVar p x e env st) := by
  simp only [bindVar]
  rw [evalP_erase]
  rcases hh : evalP p env e st with ⟨r, st1⟩
  cases r with
  | error err => rfl
  | ok n =>
    cases n with
    | ref id => rfl
    | obj r subs frags => simp [eraseR, eraseT, eraseN, eraseL_length, eraseL_append, eraseL]

theorem runLets_erase (p : Package) : ∀ (lets : List (String × PExpr)) (env : Env) (st : Store),
    runLets p lets env (eraseL st) = eraseT (runLets p lets env st)
  | [], env, st => rfl
  | (x, e) :: rest, env, st => by
    simp only [runLets]
    rw [bindVar_erase]
    rcases hb : bindVar p x e env st with ⟨o, env1, st1⟩
    cases o with
    | some err => rfl
    | none =>
      simp only [eraseT]
      exact runLets_erase p rest env1 st1

theorem runLets_sim (p : Package) (lets : List (String × PExpr)) (env : Env) {st1 st2 : Store}
    (hs : eraseL st1 = eraseL st2) :
    (runLets p lets env st1).1 = (runLets p lets env st2).1 ∧ (runLets p lets env st1).2.1 = (runLets p lets env st2).2.1 ∧
    eraseL (runLets p lets env st1).2.2 = eraseL (runLets p lets env st2).2.2 := by
  have h : eraseT (runLets p lets env st1) = eraseT (runLets p lets env st2) := by
    rw [← runLets_erase, ← runLets_erase, hs]
  simp only [eraseT, Prod.mk.injEq] at h
  exact h

/-! ### one operation of a program -/

/-- one operation (assignments + client call) from two processes that agree up to `formatted`: the same result
    (document or exception), the same environment, and processes that agree again up to `formatted` -/
theorem runPOp_sim (p : Package) (op : POp) (env : Env) {st1 st2 : Store} (hs : eraseL st1 = eraseL st2) :
    (runPOp p op env st1).1 = (runPOp p op env st2).1 ∧ (runPOp p op env st1).2.1 = (runPOp p op env st2).2.1 ∧
    eraseL (runPOp p op env st1).2.2 = eraseL (runPOp p op env st2).2.2 := by
  obtain ⟨l1, l2, l3⟩ := runLets_sim p op.lets env hs
  unfold runPOp
  rcases h1 : runLets p op.lets env st1 with ⟨o1, env1, t1⟩
  rcases h2 : runLets p op.lets env st2 with ⟨o2, env2, t2⟩
  rw [h1, h2] at l1 l2 l3
  simp only at l1 l2 l3
  subst l1 l2
  cases o1 with
  | some err => exact ⟨rfl, rfl, l3⟩
  | none =>
    simp only []
    have hf : eraseRL (evalPList p env1 op.fields t1) = eraseRL (evalPList p env1 op.fields t2) := by
      rw [← evalPList_erase, ← evalPList_erase, l3]
    rcases h3 : evalPList p env1 op.fields t1 with ⟨r1, u1⟩
    rcases h4 : evalPList p env1 op.fields t2 with ⟨r2, u2⟩
    rw [h3, h4] at hf
    simp only [eraseRL, Prod.mk.injEq] at hf
    obtain ⟨hr, hu⟩ := hf
    cases r1 with
    | error x1 =>
      cases r2 with
      | error x2 => simp at hr; subst hr; exact ⟨rfl, rfl, hu⟩
      | ok ns2 => simp at hr
    | ok ns1 =>
      cases r2 with
      | error x2 => simp at hr
      | ok ns2 =>
        simp at hr
        simp only []
        rcases execOp_formatted_irrelevant op.opType op.name hu hr with ⟨e, e1, e2⟩ | ⟨d, w1, w2, e1, e2, hw⟩
        · rw [e1, e2]; exact ⟨rfl, rfl, hu⟩
        · rw [e1, e2]; exact ⟨rfl, rfl, hw⟩

theorem runLetsOnly_sim (p : Package) (op : POp) (env : Env) {st1 st2 : Store} (hs : eraseL st1 = eraseL st2) :
    (runLetsOnly p op env st1).1 = (runLetsOnly p op env st2).1 ∧
    eraseL (runLetsOnly p op env st1).2 = eraseL (runLetsOnly p op env st2).2 := by
  obtain ⟨-, l2, l3⟩ := runLets_sim p op.lets env hs
  exact ⟨l2, l3⟩

/-- an operation whose call arguments apply no mutator to a class-level object or a variable leaves the process
    where its ASSIGNMENTS alone leave it, up to `formatted` -/
theorem runPOp_letsOnly (p : Package) (op : POp) (env : Env) (st : Store) (h : pMutatesList op.fields = false) :
    (runPOp p op env st).2.1 = (runLetsOnly p op env st).1 ∧
    eraseL (runPOp p op env st).2.2 = eraseL (runLetsOnly p op env st).2 := by
  unfold runPOp runLetsOnly
  rcases h1 : runLets p op.lets env st with ⟨o, env1, t1⟩
  cases o with
  | some err => exact ⟨rfl, rfl⟩
  | none =>
    simp only []
    have i := evalPList_noMut p env1 op.fields t1 h
    rcases h3 : evalPList p env1 op.fields t1 with ⟨r, u⟩
    rw [h3] at i
    simp at i
    subst i
    cases r with
    | error x => exact ⟨rfl, rfl⟩
    | ok nodes =>
      simp only []
      cases he : execOp op.opType op.name u nodes with
      | error x => exact ⟨rfl, rfl⟩
      | ok ds =>
        obtain ⟨d, st3⟩ := ds
        exact ⟨rfl, execOp_erase he⟩

/-! ### whole programs -/

theorem getLast?_cons_of_ne_nil {α : Type} (a : α) : ∀ (l : List α), l ≠ [] → (a :: l).getLast? = l.getLast?
  | [], h => absurd rfl h
  | b :: l, _ => by simp [List.getLast?]

theorem runProgFrom_append_ne_nil (p : Package) (E : POp) : ∀ (H : List POp) (env : Env) (st : Store),
    runProgFrom p (H ++ [E]) env st ≠ []
  | [], env, st => by simp [runProgFrom]
  | op :: H, env, st => by simp [runProgFrom]

/-- HISTORY-FREEDOM for programs: whatever the earlier operations rendered, the last operation gives what it gives
    after the ASSIGNMENTS of the history alone -/
theorem runProgFrom_last (p : Package) (E : POp) : ∀ (H : List POp) (env : Env) (st1 st2 : Store),
    eraseL st1 = eraseL st2 → (∀ op ∈ H, pMutatesList op.fields = false) →
    (runProgFrom p (H ++ [E]) env st1).getLast? =
      some (runPOp p E (letsOnlyFrom p H env st2).1 (letsOnlyFrom p H env st2).2).1
  | [], env, st1, st2, hs, _ => by
    simp only [List.nil_append, runProgFrom, letsOnlyFrom]
    rw [(runPOp_sim p E env hs).1]
    rfl
  | op :: H, env, st1, st2, hs, hH => by
    have hop := hH op (by simp)
    obtain ⟨a1, a2⟩ := runPOp_letsOnly p op env st1 hop
    obtain ⟨b1, b2⟩ := runLetsOnly_sim p op env hs
    simp only [List.cons_append, runProgFrom, letsOnlyFrom]
    rw [getLast?_cons_of_ne_nil _ _ (runProgFrom_append_ne_nil p E H _ _)]
    rw [runProgFrom_last p E H (runPOp p op env st1).2.1 (runPOp p op env st1).2.2 (runLetsOnly p op env st2).2
          (a2.trans b2) (fun o ho => hH o (by simp [ho]))]
    rw [a1, b1]

theorem letsOnlyFrom_congr (p : Package) : ∀ (H1 H2 : List POp) {env : Env} {st : Store},
    H1.map (·.lets) = H2.map (·.lets) → letsOnlyFrom p H1 env st = letsOnlyFrom p H2 env st
  | [], [], _, _, _ => rfl
  | [], _ :: _, _, _, h => by simp at h
  | _ :: _, [], _, _, h => by simp at h
  | a :: H1, b :: H2, env, st, h => by
    simp only [List.map_cons, List.cons.injEq] at h
    simp only [letsOnlyFrom, runLetsOnly]
    rw [h.1]
    exact letsOnlyFrom_congr p H1 H2 h.2

/-! ### the model with variables is conservative over the tree model -/

mutual
  theorem evalP_toP (p : Package) (env : Env) : ∀ (e : Expr) (st : Store), evalP p env (Expr.toP e) st = evalExpr p e st
    | .attr c a, st => by simp only [Expr.toP, evalP]
    | .call c a kw, st => by simp only [Expr.toP, evalP]
    | .alias e al, st => by
      simp only [Expr.toP, evalP, evalExpr]
      rw [evalP_toP p env e st]
      rcases evalExpr p e st with ⟨r, st1⟩
      cases r <;> rfl
    | .fields e cs, st => by
      simp only [Expr.toP, evalP, evalExpr]
      rw [evalP_toP p env e st]
      rcases evalExpr p e st with ⟨r, st1⟩
      cases r with
      | error x => rfl
      | ok n =>
        simp only []
        rw [evalPList_toP p env cs st1]
        split
        · rcases evalList p cs st1 with ⟨rl, st2⟩
          cases rl <;> rfl
        · rfl
    | .on e ty cs, st => by
      simp only [Expr.toP, evalP, evalExpr]
      rw [evalP_toP p env e st]
      rcases evalExpr p e st with ⟨r, st1⟩
      cases r with
      | error x => rfl
      | ok n =>
        simp only []
        rw [evalPList_toP p env cs st1]
        split
        · rcases evalList p cs st1 with ⟨rl, st2⟩
          cases rl <;> rfl
        · rfl
  theorem evalPList_toP (p : Package) (env : Env) : ∀ (es : List Expr) (st : Store),
      evalPList p env (Expr.toPList es) st = evalList p es st
    | [], st => rfl
    | e :: es, st => by
      simp only [Expr.toPList, evalPList, evalList]
      rw [evalP_toP p env e st]
      rcases evalExpr p e st with ⟨r, st1⟩
      cases r with
      | error x => rfl
      | ok n =>
        simp only []
        rw [evalPList_toP p env es st1]
        rcases evalList p es st1 with ⟨rl, st2⟩
        cases rl <;> rfl
end

theorem runPOp_toP (p : Package) (op : Op) (env : Env) (st : Store) :
    runPOp p (Op.toP op) env st = ((runOp p op st).1, env, (runOp p op st).2) := by
  simp only [runPOp, Op.toP, runLets, runOp]
  rw [evalPList_toP]
  rcases evalList p op.fields st with ⟨rl, st1⟩
  cases rl with
  | error x => rfl
  | ok nodes =>
    simp only []
    cases execOp op.opType op.name st1 nodes with
    | error x => rfl
    | ok ds => rfl

theorem runProgFrom_toP (p : Package) : ∀ (ops : List Op) (env : Env) (st : Store),
    runProgFrom p (ops.map Op.toP) env st = runOpsFrom p ops st
  | [], env, st => rfl
  | op :: ops, env, st => by
    simp only [List.map_cons, runProgFrom, runOpsFrom]
    rw [runPOp_toP]
    simp only []
    rw [runProgFrom_toP p ops env]

end Ariadne.C14
