/-
  Proofs/OrderEmit.lean — the emission points of C10: isort's name ordering, import-block summaries,
  rebuild calls, `FragmentsGenerator.generate`, directory loading.  Core Lean only.
-/
import AriadneModel.Proofs.Order
import AriadneModel.Model.OrderEmit

set_option linter.unusedSimpArgs false
set_option linter.unusedVariables false

namespace Ariadne.Order
open List Ariadne.Isort

/-! ### orders obtained through a key -/

theorem TotalPreorder.comap {α β : Type} {le : β → β → Bool} (h : TotalPreorder le) (f : α → β) :
    TotalPreorder (fun a b => le (f a) (f b)) :=
  { total := fun a b => h.total (f a) (f b), trans := fun a b c => h.trans (f a) (f b) (f c) }

theorem nameLe_preorder : TotalPreorder nameLe :=
  (lexLe_order natBle_order).toTotalPreorder.comap nameKey

theorem pathLe_preorder : TotalPreorder pathLe :=
  (lexLe_order strLe_order).toTotalPreorder.comap Entry.path

/-! ### dedupFirst / isortNames -/

theorem mem_dedupFirst (l : List Name) (a : Name) : a ∈ dedupFirst l ↔ a ∈ l := by
  induction l with
  | nil => simp [dedupFirst]
  | cons x xs ih =>
    simp only [dedupFirst, List.mem_cons, List.mem_filter, ih]
    constructor
    · rintro (h | ⟨h, _⟩)
      · exact Or.inl h
      · exact Or.inr h
    · rintro (h | h)
      · exact Or.inl h
      · by_cases hax : a = x
        · exact Or.inl hax
        · exact Or.inr ⟨h, by simpa using hax⟩

theorem nodup_dedupFirst (l : List Name) : (dedupFirst l).Nodup := by
  induction l with
  | nil => simp [dedupFirst]
  | cons x xs ih =>
    simp only [dedupFirst]
    refine List.nodup_cons.mpr ⟨?_, ih.filter _⟩
    simp [List.mem_filter]

theorem dedupFirst_perm_of_mem {l₁ l₂ : List Name} (h : ∀ a, a ∈ l₁ ↔ a ∈ l₂) : (dedupFirst l₁).Perm (dedupFirst l₂) :=
  (List.perm_ext_iff_of_nodup (nodup_dedupFirst l₁) (nodup_dedupFirst l₂)).mpr
    (fun a => by rw [mem_dedupFirst, mem_dedupFirst]; exact h a)

/-- no two distinct members share isort's key -/
def NoTie (l : List Name) : Prop := ∀ a b, a ∈ l → b ∈ l → nameKey a = nameKey b → a = b

theorem noTie_of_nameTie_false {l : List Name} (h : nameTie l = false) : NoTie l := by
  intro a b ha hb hk
  simp only [nameTie, List.any_eq_false] at h
  have h1 := h a ha
  rw [Bool.not_eq_true, List.any_eq_false] at h1
  have h2 := h1 b hb
  by_cases hab : a = b
  · exact hab
  · have e1 : (a != b) = true := by simpa using hab
    have e2 : (nameKey a == nameKey b) = true := by simpa using hk
    simp [e1, e2] at h2

theorem NoTie.subset {l₁ l₂ : List Name} (h : NoTie l₂) (hs : ∀ a, a ∈ l₁ → a ∈ l₂) : NoTie l₁ :=
  fun a b ha hb => h a b (hs a ha) (hs b hb)

/-- isort's order of the names of one from-import depends only on the SET of names, unless two tie -/
theorem isortNames_eq_of_mem {l₁ l₂ : List Name} (nt : NoTie l₁) (h : ∀ a, a ∈ l₁ ↔ a ∈ l₂) :
    isortNames l₁ = isortNames l₂ := by
  unfold isortNames
  apply sortBy_eq_of_perm nameLe_preorder _ (dedupFirst_perm_of_mem h)
  intro a b ha hb hab hba
  have hk : nameKey a = nameKey b := lexLe_antisymm natBle_order _ _ hab hba
  exact nt a b ((mem_dedupFirst _ _).mp ha) ((mem_dedupFirst _ _).mp hb) hk

theorem isortNames_eq_of_perm {l₁ l₂ : List Name} (nt : NoTie l₁) (p : l₁.Perm l₂) : isortNames l₁ = isortNames l₂ :=
  isortNames_eq_of_mem nt (fun _ => p.mem_iff)

/-! ### import blocks -/

theorem mem_namesOf (m : String) (stmts : List ImportFrom) (a : Name) :
    a ∈ namesOf m stmts ↔ ∃ s, s ∈ stmts ∧ modStr s = m ∧ a ∈ s.names := by
  simp only [namesOf, List.mem_flatMap, List.mem_filter, beq_iff_eq]
  constructor
  · rintro ⟨s, ⟨hs, hm⟩, ha⟩; exact ⟨s, hs, hm, ha⟩
  · rintro ⟨s, hs, hm, ha⟩; exact ⟨s, ⟨hs, hm⟩, ha⟩

/-- two import blocks mention the same modules and import the same names from each -/
def BlockEquiv (s₁ s₂ : List ImportFrom) : Prop :=
  (∀ m, m ∈ s₁.map modStr ↔ m ∈ s₂.map modStr) ∧ ∀ m a, a ∈ namesOf m s₁ ↔ a ∈ namesOf m s₂

theorem BlockEquiv.of_mem {s₁ s₂ : List ImportFrom} (h : ∀ x, x ∈ s₁ ↔ x ∈ s₂) : BlockEquiv s₁ s₂ := by
  constructor
  · intro m; simp only [List.mem_map]
    constructor
    · rintro ⟨x, hx, rfl⟩; exact ⟨x, (h x).mp hx, rfl⟩
    · rintro ⟨x, hx, rfl⟩; exact ⟨x, (h x).mpr hx, rfl⟩
  · intro m a; simp only [mem_namesOf]
    constructor
    · rintro ⟨x, hx, r⟩; exact ⟨x, (h x).mp hx, r⟩
    · rintro ⟨x, hx, r⟩; exact ⟨x, (h x).mpr hx, r⟩

theorem BlockEquiv.of_perm {s₁ s₂ : List ImportFrom} (p : s₁.Perm s₂) : BlockEquiv s₁ s₂ :=
  BlockEquiv.of_mem (fun _ => p.mem_iff)

/-- the block has no tie inside any module group -/
def BlockNoTie (s : List ImportFrom) : Prop := ∀ m, NoTie (namesOf m s)

theorem blockNoTie_of_summaryTie_false {s : List ImportFrom} (h : summaryTie s = false) : BlockNoTie s := by
  intro m
  by_cases hm : m ∈ s.map modStr
  · simp only [summaryTie, List.any_eq_false] at h
    have := h m ((mem_dedupFirst _ _).mpr hm)
    exact noTie_of_nameTie_false (by simpa using this)
  · intro a b ha _ _
    obtain ⟨x, hx, hxm, _⟩ := (mem_namesOf m s a).mp ha
    exact absurd (List.mem_map.mpr ⟨x, hx, hxm⟩) hm

/-- what the formatter sees of an import block is the same for equivalent blocks without ties -/
theorem summary_eq_of_equiv (keep : Name → Bool) {s₁ s₂ : List ImportFrom} (eq : BlockEquiv s₁ s₂) (nt : BlockNoTie s₁) :
    summary keep s₁ = summary keep s₂ := by
  unfold summary
  have hm : pySorted (dedupFirst (s₁.map modStr)) = pySorted (dedupFirst (s₂.map modStr)) :=
    pySorted_eq_of_perm (dedupFirst_perm_of_mem eq.1)
  simp only [hm]
  apply List.map_congr_left
  intro m _
  congr 1
  apply isortNames_eq_of_mem
  · exact (nt m).subset (fun a ha => (List.mem_filter.mp ha).1)
  · intro a
    simp only [List.mem_filter]
    rw [eq.2 m a]

/-! ### rebuild calls -/

theorem idxOf_inj {l : List Name} {a b : Name} (ha : a ∈ l) (h : l.idxOf a = l.idxOf b) : a = b := by
  induction l with
  | nil => cases ha
  | cons x xs ih =>
    simp only [List.idxOf_cons] at h
    by_cases hxa : x = a
    · by_cases hxb : x = b
      · exact hxa.symm.trans hxb
      · have h1 : (x == a) = true := by simpa using hxa
        have h2 : (x == b) = false := by simpa using hxb
        simp [h1, h2] at h
    · by_cases hxb : x = b
      · have h1 : (x == a) = false := by simpa using hxa
        have h2 : (x == b) = true := by simpa using hxb
        simp [h1, h2] at h
      · have h1 : (x == a) = false := by simpa using hxa
        have h2 : (x == b) = false := by simpa using hxb
        simp [h1, h2] at h
        rcases List.mem_cons.mp ha with e | ha'
        · exact absurd e.symm hxa
        · exact ih ha' h

theorem idxLe_preorder (cn : List Name) : TotalPreorder (fun a b : Name => decide (cn.idxOf a ≤ cn.idxOf b)) :=
  { total := by intro a b; simp; omega
    trans := by intro a b c; simp; omega }

/-- `sorted(top_level, key=class_names.index)` does not depend on the order of `top_level` -/
theorem rebuildCalls_eq_of_perm {t₁ t₂ cn : List Name} (p : t₁.Perm t₂) (hall : ∀ t, t ∈ t₁ → t ∈ cn) :
    rebuildCalls t₁ cn = rebuildCalls t₂ cn := by
  have n1 : t₁.find? (fun t => !cn.contains t) = none := by
    rw [List.find?_eq_none]; intro t ht; simp [hall t ht]
  have n2 : t₂.find? (fun t => !cn.contains t) = none := by
    rw [List.find?_eq_none]; intro t ht; simp [hall t (p.mem_iff.mpr ht)]
  simp only [rebuildCalls, n1, n2]
  congr 1
  apply sortBy_eq_of_perm (idxLe_preorder cn) _ p
  intro a b ha hb hab hba
  simp at hab hba
  exact idxOf_inj (hall a ha) (by omega)

/-! ### directory loading -/

def PathsDistinct (entries : List Entry) : Prop := ∀ a b, a ∈ entries → b ∈ entries → a.path = b.path → a = b

theorem loadGraphqlFiles_eq_of_perm {dl₁ dl₂ : List Entry → List Entry} (entries : List Entry)
    (h₁ : (dl₁ entries).Perm entries) (h₂ : (dl₂ entries).Perm entries) (hd : PathsDistinct entries) :
    loadGraphqlFiles dl₁ entries = loadGraphqlFiles dl₂ entries := by
  have hs : sortBy pathLe ((dl₁ entries).filter isGraphqlFile) = sortBy pathLe ((dl₂ entries).filter isGraphqlFile) := by
    apply sortBy_eq_of_perm pathLe_preorder _ ((h₁.trans h₂.symm).filter _)
    intro a b ha hb hab hba
    have hp : a.path = b.path := lexLe_antisymm strLe_order _ _ hab hba
    exact hd a b (h₁.mem_iff.mp (List.mem_filter.mp ha).1) (h₁.mem_iff.mp (List.mem_filter.mp hb).1) hp
  simp only [loadGraphqlFiles, hs]

end Ariadne.Order

namespace Ariadne.Order
open List Ariadne.Isort

/-! ### completeness and order of the DFS at top level -/

theorem dfs_ok {ord : List Name → List Name} {d : Deps} {roots out : List Name} (h : dfs ord d roots = .ok out) :
    ∃ st', roots.foldlM (fun s x => visit ord d (d.length + 1) x s) ⟨[], []⟩ = .ok st' ∧ st'.out = out := by
  unfold dfs at h
  cases hf : roots.foldlM (fun s x => visit ord d (d.length + 1) x s) (⟨[], []⟩ : St) with
  | error e => rw [hf] at h; cases h
  | ok st' =>
    rw [hf] at h
    simp [Except.map] at h
    exact ⟨st', rfl, h⟩

theorem inv_init : Inv ⟨[], []⟩ := by intro a ha; cases ha

/-- every root ends up in the output -/
theorem dfs_complete {ord : List Name → List Name} {d : Deps} {roots out : List Name} (h : dfs ord d roots = .ok out) :
    ∀ r, r ∈ roots → r ∈ out := by
  obtain ⟨st', hf, rfl⟩ := dfs_ok h
  obtain ⟨p, hall⟩ := fold_spec ord d _ (visit_spec ord d _) roots _ st' inv_init hf
  intro r hr
  by_cases hro : r ∈ st'.out
  · exact hro
  · have : Grey ⟨[], []⟩ r := (p.grey r).mp ⟨hall r hr, hro⟩
    cases this.1

/-- for an acyclic dictionary every fragment comes after its dependencies, whatever the iteration order -/
theorem dfs_topo {ord : List Name → List Name} {d : Deps} {roots out : List Name}
    (hord : ∀ ds x, x ∈ ord ds ↔ x ∈ ds) (rk : Name → Nat)
    (hrk : ∀ n ds m, lookup d n = some ds → m ∈ ds → rk m < rk n)
    (h : dfs ord d roots = .ok out) : TopoOK d out := by
  obtain ⟨st', hf, rfl⟩ := dfs_ok h
  refine (fold_topo ord d rk _ (visit_topo ord d rk hrk hord _) roots _ st' inv_init (topoOK_nil d) ?_ hf).1
  intro x _ a ha
  cases ha.1

/-! ### FragmentsGenerator.generate -/

theorem lookup_map_mk {β : Type} (f : Name → β) (names : List Name) (n : Name) :
    lookup (names.map (fun x => (x, f x))) n = if n ∈ names then some (f n) else none := by
  induction names with
  | nil => simp [lookup]
  | cons x xs ih =>
    simp only [List.map_cons, lookup, ih, List.mem_cons]
    by_cases hx : x = n
    · subst hx; simp
    · have : ¬ n = x := fun e => hx e.symm
      simp [hx, this]

theorem lookup_isSome_of_mem {β : Type} (d : List (Name × β)) (n : Name) (h : n ∈ d.map (·.1)) : ∃ v, lookup d n = some v := by
  induction d with
  | nil => cases h
  | cons p ps ih =>
    obtain ⟨k, v⟩ := p
    simp only [lookup]
    by_cases hk : k = n
    · exact ⟨v, by simp [hk]⟩
    · simp only [hk, if_false]
      apply ih
      simp only [List.map_cons, List.mem_cons] at h
      rcases h with e | h
      · exact absurd e.symm hk
      · exact h

/-- the generator `FragmentsGenerator.generate` builds for fragment `n` -/
def genOf (defs : List (Name × DefGen)) (n : Name) : DefGen := (lookup defs n).getD default

theorem fragGens_eq (defs : List (Name × DefGen)) (names : List Name) (h : ∀ n, n ∈ names → n ∈ defs.map (·.1)) :
    fragGens defs names = .ok (names.map (fun n => (n, genOf defs n))) := by
  unfold fragGens
  induction names with
  | nil => rfl
  | cons x xs ih =>
    obtain ⟨v, hv⟩ := lookup_isSome_of_mem defs x (h x List.mem_cons_self)
    have ih' := ih (fun n hn => h n (List.mem_cons_of_mem _ hn))
    simp only [List.mapM_cons, hv, ih', bind, Except.bind, pure, Except.pure, List.map_cons, genOf, Option.getD_some]

theorem mapM_ok_mem {α β ε : Type} (f : α → Except ε β) : ∀ (l : List α) (r : List β), l.mapM f = .ok r →
    ∀ x, x ∈ l → ∃ y, y ∈ r ∧ f x = .ok y := by
  intro l
  induction l with
  | nil => intro r _ x hx; cases hx
  | cons a as ih =>
    intro r h x hx
    simp only [List.mapM_cons, bind, Except.bind] at h
    cases ha : f a with
    | error e => rw [ha] at h; cases h
    | ok b =>
      rw [ha] at h
      cases has : as.mapM f with
      | error e => rw [has] at h; cases h
      | ok bs =>
        rw [has] at h
        simp [pure, Except.pure] at h
        subst h
        rcases List.mem_cons.mp hx with rfl | hx
        · exact ⟨b, List.mem_cons_self, ha⟩
        · obtain ⟨y, hy, hf⟩ := ih bs has x hx
          exact ⟨y, List.mem_cons_of_mem _ hy, hf⟩

theorem filterEnums_eq_of_mem (schemaEnums : List Name) {u₁ u₂ : List Name} (h : ∀ a, a ∈ u₁ ↔ a ∈ u₂) :
    filterEnums schemaEnums (some u₁) = filterEnums schemaEnums (some u₂) := by
  simp only [filterEnums]
  apply List.filter_congr
  intro x _
  have := h x
  by_cases h1 : x ∈ u₁
  · simp [h1, this.mp h1]
  · have h2 : x ∉ u₂ := fun h' => h1 (this.mpr h')
    simp [h1, h2]

/-- two outcomes of `FragmentsGenerator.generate` that differ only by the order in which the loop met the fragments -/
def FragOutEquiv (o₁ o₂ : FragOut) : Prop :=
  o₁.module.imports.Perm o₂.module.imports ∧ o₁.module.classes = o₂.module.classes ∧ o₁.module.rebuilds = o₂.module.rebuilds
  ∧ o₁.publicNames.Perm o₂.publicNames ∧ o₁.usedEnums.Perm o₂.usedEnums

/-- same exception, or two related values -/
def ExceptRel {α : Type} (R : α → α → Prop) : Except Err α → Except Err α → Prop
  | .ok a, .ok b => R a b
  | .error e₁, .error e₂ => e₁ = e₂
  | _, _ => False

theorem generateFromGens_rel (e₁ e₂ : EnumOracle) (he₁ : EnumOK e₁) (he₂ : EnumOK e₂)
    (G : Name → DefGen) {names₁ names₂ : List Name} (p : names₁.Perm names₂) :
    ExceptRel FragOutEquiv (generateFromGens e₁ names₁ (names₁.map (fun n => (n, G n))))
      (generateFromGens e₂ names₂ (names₂.map (fun n => (n, G n)))) := by
  have pg : (names₁.map (fun n => (n, G n))).Perm (names₂.map (fun n => (n, G n))) := p.map _
  -- the dependency dictionary and class_defs_dict answer alike
  have hdeps : ∀ n, lookup ((names₁.map (fun n => (n, G n))).map (fun p => (p.1, p.2.mixins))) n
      = lookup ((names₂.map (fun n => (n, G n))).map (fun p => (p.1, p.2.mixins))) n := by
    intro n
    simp only [List.map_map, Function.comp_def]
    rw [lookup_map_mk (fun x => (G x).mixins), lookup_map_mk (fun x => (G x).mixins)]
    simp [p.mem_iff]
  have hgens : ∀ n, lookup (names₁.map (fun n => (n, G n))) n = lookup (names₂.map (fun n => (n, G n))) n := by
    intro n
    rw [lookup_map_mk G, lookup_map_mk G]
    simp [p.mem_iff]
  have hord : (fun s => pySorted (e₁ s)) = (fun s => pySorted (e₂ s)) := by
    funext s; exact pySorted_eq_of_perm ((he₁ s).trans (he₂ s).symm)
  have hroots : pySorted (e₁ names₁) = pySorted (e₂ names₂) :=
    pySorted_eq_of_perm ((he₁ _).trans (p.trans (he₂ _).symm))
  have hsn : sortedFragmentsNames e₁ names₁ ((names₁.map (fun n => (n, G n))).map (fun p => (p.1, p.2.mixins)))
      = sortedFragmentsNames e₂ names₂ ((names₂.map (fun n => (n, G n))).map (fun p => (p.1, p.2.mixins))) := by
    unfold sortedFragmentsNames
    rw [hord, hroots]
    exact dfs_congr_deps _ hdeps (by simp [p.length_eq]) _
  have hcls : classesOf (names₁.map (fun n => (n, G n))) = classesOf (names₂.map (fun n => (n, G n))) := by
    funext n; simp only [classesOf, hgens n]
  unfold generateFromGens
  simp only [bind, Except.bind]
  rw [← hsn]
  cases hs : sortedFragmentsNames e₁ names₁ ((names₁.map (fun n => (n, G n))).map (fun p => (p.1, p.2.mixins))) with
  | error err => simp [ExceptRel]
  | ok sn =>
    simp only
    rw [← hcls]
    cases hc : sn.mapM (classesOf (names₁.map (fun n => (n, G n)))) with
    | error err => simp [ExceptRel]
    | ok cls =>
      simp only
      -- every top-level class is among the sorted classes
      have hall : ∀ t, t ∈ (names₁.map (fun n => (n, G n))).filterMap (fun p => p.2.classes.head?) → t ∈ cls.flatten := by
        intro t ht
        obtain ⟨q, hq, hhead⟩ := List.mem_filterMap.mp ht
        obtain ⟨n, hn, rfl⟩ := List.mem_map.mp hq
        have hnsn : n ∈ sn := by
          apply dfs_complete hs
          exact (mem_pySorted _ _).mpr ((he₁ _).mem_iff.mpr hn)
        obtain ⟨y, hy, hfy⟩ := mapM_ok_mem _ sn cls hc n hnsn
        simp only [classesOf] at hfy
        rw [lookup_map_mk G] at hfy
        simp [hn] at hfy
        subst hfy
        exact List.mem_flatten.mpr ⟨_, hy, List.mem_of_mem_head? hhead⟩
      rw [← rebuildCalls_eq_of_perm (pg.filterMap _) hall]
      cases hr : rebuildCalls ((names₁.map (fun n => (n, G n))).filterMap (fun p => p.2.classes.head?)) cls.flatten with
      | error err => simp [ExceptRel]
      | ok rb =>
        simp only [ExceptRel, pure, Except.pure, FragOutEquiv]
        exact ⟨pg.flatMap_right _, trivial, trivial, pg.flatMap_right _, pg.flatMap_right _⟩

theorem fmtFrag_eq_of_equiv (keep : Name → Bool) (schemaEnums : List Name) {o₁ o₂ : FragOut} (h : FragOutEquiv o₁ o₂)
    (nt₁ : BlockNoTie o₁.module.imports) (nt₂ : NoTie o₁.publicNames) :
    fmtFrag keep schemaEnums o₁ = fmtFrag keep schemaEnums o₂ := by
  obtain ⟨hi, hc, hr, hp, hu⟩ := h
  simp only [fmtFrag, hc, hr]
  rw [summary_eq_of_equiv keep (BlockEquiv.of_perm hi) nt₁, isortNames_eq_of_perm nt₂ hp,
    filterEnums_eq_of_mem schemaEnums (fun _ => hu.mem_iff)]

theorem filter_contains_congr {ex₁ ex₂ : List Name} (h : ∀ a, a ∈ ex₁ ↔ a ∈ ex₂) (l : List Name) :
    l.filter (fun n => !ex₁.contains n) = l.filter (fun n => !ex₂.contains n) := by
  apply List.filter_congr
  intro x _
  by_cases h1 : x ∈ ex₁
  · simp [h1, (h x).mp h1]
  · have h2 : x ∉ ex₂ := fun h' => h1 ((h x).mpr h')
    simp [h1, h2]

theorem filter_subset_keys (defs : List (Name × DefGen)) (ex : List Name) (e : EnumOracle) (he : EnumOK e) :
    ∀ n, n ∈ e ((defs.map (·.1)).filter (fun n => !ex.contains n)) → n ∈ defs.map (·.1) :=
  fun n hn => (List.mem_filter.mp ((he _).mem_iff.mp hn)).1

/-- `generate` under two enumeration oracles and two listings of the excluded set -/
theorem generateFragments_rel (e₁ e₂ : EnumOracle) (he₁ : EnumOK e₁) (he₂ : EnumOK e₂)
    (defs : List (Name × DefGen)) {ex₁ ex₂ : List Name} (hex : ∀ a, a ∈ ex₁ ↔ a ∈ ex₂) :
    ExceptRel FragOutEquiv (generateFragments e₁ defs ex₁) (generateFragments e₂ defs ex₂) := by
  unfold generateFragments
  simp only [bind, Except.bind]
  rw [fragGens_eq defs _ (filter_subset_keys defs ex₁ e₁ he₁), fragGens_eq defs _ (filter_subset_keys defs ex₂ e₂ he₂)]
  simp only
  apply generateFromGens_rel e₁ e₂ he₁ he₂ (genOf defs)
  rw [filter_contains_congr hex]
  exact (he₁ _).trans (he₂ _).symm

/-- the generators in loop order are a permutation of `liveGens` -/
theorem loopGens_perm_live (e : EnumOracle) (he : EnumOK e) (defs : List (Name × DefGen)) (ex : List Name) :
    ((e ((defs.map (·.1)).filter (fun n => !ex.contains n))).map (fun n => (n, genOf defs n))).Perm (liveGens defs ex) :=
  (he _).map _

end Ariadne.Order
