/-
  Helper lemmas for C17 (settings model): `firstError` over an ordered check list, header
  resolution, the substring vs declaration class test, association-list facts used by
  `unknown_keys_ignored`.
-/
import AriadneModel.Model.Settings

set_option linter.unusedSimpArgs false
set_option linter.unusedVariables false

namespace Ariadne.Settings

/-! ### firstError -/

theorem firstError_none_iff {κ : Type} (eval : κ → Option ConfigError) (ks : List κ) :
    firstError eval ks = none ↔ ∀ k ∈ ks, eval k = none := by
  induction ks with
  | nil => simp [firstError]
  | cons k ks ih =>
    cases h : eval k with
    | none => simp [firstError, h, ih]
    | some e => simp [firstError, h]

/-- the first check that raises decides the result: everything before it passed -/
theorem firstError_append_some {κ : Type} (eval : κ → Option ConfigError) (pre post : List κ) (k : κ)
    (e : ConfigError) (hk : eval k = some e) (hpre : ∀ k' ∈ pre, eval k' = none) :
    firstError eval (pre ++ k :: post) = some e := by
  induction pre with
  | nil => simp [firstError, hk]
  | cons p pre ih =>
    have hp : eval p = none := hpre p (by simp)
    simp [firstError, hp]
    exact ih (fun k' hk' => hpre k' (by simp [hk']))

/-- conversely, a reported error comes from some check all of whose predecessors passed -/
theorem firstError_some_split {κ : Type} (eval : κ → Option ConfigError) (ks : List κ) (e : ConfigError)
    (h : firstError eval ks = some e) :
    ∃ pre k post, ks = pre ++ k :: post ∧ eval k = some e ∧ ∀ k' ∈ pre, eval k' = none := by
  induction ks with
  | nil => simp [firstError] at h
  | cons k ks ih =>
    cases hk : eval k with
    | some e' =>
      simp [firstError, hk] at h
      exact ⟨[], k, ks, by simp, by simp [hk, h], by simp⟩
    | none =>
      simp [firstError, hk] at h
      obtain ⟨pre, k2, post, hs, hk2, hpre⟩ := ih h
      refine ⟨k :: pre, k2, post, by simp [hs], hk2, ?_⟩
      intro k' hk'
      rcases List.mem_cons.mp hk' with rfl | hm
      · exact hk
      · exact hpre k' hm

/-! ### headers -/

/-- a header value can be resolved: it is literal, or names a non-empty environment variable -/
def HeaderResolvable (env : Env) (v : String) : Prop :=
  v.toList.head? ≠ some '$' ∨ ∃ val, env.environ (lstripDollar v) = some val ∧ val ≠ ""

theorem headerValue_ok_iff (env : Env) (v : String) :
    (∃ r, headerValue env v = .ok r) ↔ HeaderResolvable env v := by
  unfold headerValue HeaderResolvable
  by_cases h : v.toList.head? = some '$'
  · simp [h]
    cases he : env.environ (lstripDollar v) with
    | none => simp
    | some val =>
      by_cases hv : val = ""
      · simp [hv]
      · simp [hv]
  · simp [h]

theorem headerValue_error (env : Env) (v : String) (e : ConfigError) (h : headerValue env v = .error e) :
    e = .envVarMissing (lstripDollar v) := by
  unfold headerValue at h
  by_cases hd : (v.toList.head? == some '$') = true
  · simp only [hd, if_true] at h
    cases he : env.environ (lstripDollar v) with
    | none => simp [he] at h; exact h.symm
    | some val =>
      by_cases hv : val = ""
      · simp [he, hv] at h; exact h.symm
      · simp [he, hv] at h
  · simp [hd] at h

theorem resolveHeaders_ok_iff (env : Env) (hs : List (String × String)) :
    (∃ r, resolveHeaders env hs = .ok r) ↔ ∀ kv ∈ hs, HeaderResolvable env kv.2 := by
  induction hs with
  | nil => simp [resolveHeaders]
  | cons kv rest ih =>
    obtain ⟨k, v⟩ := kv
    simp only [resolveHeaders, List.mem_cons, forall_eq_or_imp]
    cases hv : headerValue env v with
    | error e =>
      have hn : ¬ HeaderResolvable env v := by
        intro hr
        obtain ⟨r, hr'⟩ := (headerValue_ok_iff env v).mpr hr
        simp [hv] at hr'
      constructor
      · rintro ⟨r, hr'⟩; simp at hr'
      · rintro ⟨h1, _⟩; exact absurd h1 hn
    | ok v' =>
      have hres : HeaderResolvable env v := (headerValue_ok_iff env v).mp ⟨v', hv⟩
      cases hr : resolveHeaders env rest with
      | error e =>
        have hn : ¬ ∀ kv ∈ rest, HeaderResolvable env kv.2 := by
          intro hall
          obtain ⟨r, hr'⟩ := ih.mpr hall
          simp [hr] at hr'
        constructor
        · rintro ⟨r, hr'⟩; simp at hr'
        · rintro ⟨_, hall⟩; exact absurd hall hn
      | ok rest' =>
        have hall : ∀ kv ∈ rest, HeaderResolvable env kv.2 := ih.mp ⟨rest', hr⟩
        constructor
        · intro _; exact ⟨hres, hall⟩
        · intro _; exact ⟨_, rfl⟩

theorem firstBadHeader_none_iff (env : Env) (hs : List (String × String)) :
    firstBadHeader env hs = none ↔ ∀ kv ∈ hs, HeaderResolvable env kv.2 := by
  rw [← resolveHeaders_ok_iff]
  unfold firstBadHeader
  cases resolveHeaders env hs <;> simp

theorem resolveHeaders_error (env : Env) (hs : List (String × String)) (e : ConfigError)
    (h : resolveHeaders env hs = .error e) : ∃ kv ∈ hs, e = .envVarMissing (lstripDollar kv.2) := by
  induction hs with
  | nil => simp [resolveHeaders] at h
  | cons kv rest ih =>
    obtain ⟨k, v⟩ := kv
    simp only [resolveHeaders] at h
    cases hv : headerValue env v with
    | error e' =>
      simp [hv] at h
      exact ⟨(k, v), by simp, by rw [← h]; exact headerValue_error env v e' hv⟩
    | ok v' =>
      simp [hv] at h
      cases hr : resolveHeaders env rest with
      | error e' =>
        simp [hr] at h
        obtain ⟨kv, hm, he⟩ := ih (by rw [hr, h])
        exact ⟨kv, by simp [hm], he⟩
      | ok r => simp [hr] at h

theorem firstBadHeader_some (env : Env) (hs : List (String × String)) (e : ConfigError)
    (h : firstBadHeader env hs = some e) : ∃ kv ∈ hs, e = .envVarMissing (lstripDollar kv.2) := by
  unfold firstBadHeader at h
  cases hr : resolveHeaders env hs with
  | error e' =>
    simp [hr] at h
    exact h ▸ resolveHeaders_error env hs e' hr
  | ok r => simp [hr] at h

/-! ### files_to_include -/

theorem firstNonFile_none_iff (env : Env) (fs : List String) :
    firstNonFile env fs = none ↔ ∀ f ∈ fs, env.isFile f = true := by
  induction fs with
  | nil => simp [firstNonFile]
  | cons f fs ih =>
    by_cases h : env.isFile f = true
    · simp [firstNonFile, h, ih]
    · simp [firstNonFile, h]

theorem firstNonFile_some (env : Env) (fs : List String) (e : ConfigError) (h : firstNonFile env fs = some e) :
    ∃ f ∈ fs, env.isFile f = false ∧ e = .notFile f := by
  induction fs with
  | nil => simp [firstNonFile] at h
  | cons f fs ih =>
    by_cases hf : env.isFile f = true
    · simp [firstNonFile, hf] at h
      obtain ⟨g, hg, hh⟩ := ih h
      exact ⟨g, by simp [hg], hh⟩
    · simp [firstNonFile, hf] at h
      exact ⟨f, by simp, by simpa using hf, h.symm⟩

/-! ### class test: the specification implies what the code tests, not conversely -/

theorem declaredChars_imp_infix (pat text : List Char) (h : declaredChars pat text = true) :
    isInfixOf pat text = true := by
  induction text with
  | nil => simp [declaredChars] at h
  | cons c cs ih =>
    simp only [declaredChars, Bool.or_eq_true, Bool.and_eq_true] at h
    simp only [isInfixOf, Bool.or_eq_true]
    rcases h with h | h
    · exact Or.inl h.1
    · exact Or.inr (ih h)

theorem classDeclared_imp_definedIn (env : Env) (p c : String) (h : classDeclared env p c = true) :
    classDefinedIn env p c = true :=
  declaredChars_imp_infix _ _ h

/-! ### association lists -/

theorem lookup_filter_key (p : String → Bool) (k : String) (hk : p k = true) (l : List (String × J)) :
    J.lookup k (l.filter (fun kv => p kv.1)) = J.lookup k l := by
  induction l with
  | nil => simp [J.lookup]
  | cons kv rest ih =>
    obtain ⟨k', v⟩ := kv
    by_cases hp : p k' = true
    · simp [List.filter, hp, J.lookup, ih]
    · have hne : k' ≠ k := by
        intro heq; rw [heq] at hp; exact hp hk
      simp [List.filter, hp, J.lookup, hne, ih]

theorem filter_dictSet (p : String → Bool) (k : String) (v : J) (hk : p k = true) (l : Dict) :
    (dictSet k v l).filter (fun kv => p kv.1) = dictSet k v (l.filter (fun kv => p kv.1)) := by
  induction l with
  | nil => simp [dictSet, hk]
  | cons kv rest ih =>
    obtain ⟨k', v'⟩ := kv
    by_cases he : (k' == k) = true
    · have hkk : k' = k := by simpa using he
      subst hkk
      simp [dictSet, List.filter, hk]
    · have hne : k' ≠ k := by simpa using he
      by_cases hp : p k' = true
      · simp [dictSet, he, List.filter, hp, ih, hne]
      · simp [dictSet, he, List.filter, hp, ih, hne]

end Ariadne.Settings
