/-
  Helper lemmas for C17 (settings model): `firstError` over an ordered check list, header
  resolution, the substring vs declaration class test, association-list facts used by
  `unknown_keys_ignored`.
-/
import AriadneModel.Model.Settings

set_option linter.unusedSimpArgs false
set_option linter.unusedVariables false

namespace Ariadne.Settings

/-! ### firstError -/

theorem firstError_none_iff {κ : Type} (eval : κ → Option ConfigError) (ks : List κ) :
    firstError eval ks = none ↔ ∀ k ∈ ks, eval k = none := by
  induction ks with
  | nil => simp [firstError]
  | cons k ks ih =>
    cases h : eval k with
    | none => simp [firstError, h, ih]
    | some e => simp [firstError, h]

/-- the first check that raises decides the result: everything before it passed -/
theorem firstError_append_some {κ : Type} (eval : κ → Option ConfigError) (pre post : List κ) (k : κ)
    (e : ConfigError) (hk : eval k = some e) (hpre : ∀ k' ∈ pre, eval k' = none) :
    firstError eval (pre ++ k :: post) = some e := by
  induction pre with
  | nil => simp [firstError, hk]
  | cons p pre ih =>
    have hp : eval p = none := hpre p (by simp)
    simp [firstError, hp]
    exact ih (fun k' hk' => hpre k' (by simp [hk']))

/-- conversely, a reported error comes from some check all of whose predecessors passed -/
theorem firstError_some_split {κ : Type} (eval : κ → Option ConfigError) (ks : List κ) (e : ConfigError)
    (h : firstError eval ks = some e) :
    ∃ pre k post, ks = pre ++ k :: post ∧ eval k = some e ∧ ∀ k' ∈ pre, eval k' = none := by
  induction ks with
  | nil => simp [firstError] at h
  | cons k ks ih =>
    cases hk : eval k with
    | some e' =>
      simp [firstError, hk] at h
      exact ⟨[], k, ks, by simp, by simp [hk, h], by simp⟩
    | none =>
      simp [firstError, hk] at h
      obtain ⟨pre, k2, post, hs, hk2, hpre⟩ := ih h
      refine ⟨k :: pre, k2, post, by simp [hs], hk2, ?_⟩
      intro k' hk'
      rcases List.mem_cons.mp hk' with rfl | hm
      · exact hk
      · exact hpre k' hm

/-! ### headers -/

/-- a header value can be resolved: it is literal, or names a non-empty environment variable -/
def HeaderResolvable (env : Env) (v : String) : Prop :=
  v.toList.head? ≠ some '$' ∨ ∃ val, env.environ (lstripDollar v) = some val ∧ val ≠ ""

theorem headerValue_ok_iff (env : Env) (v : String) :
    (∃ r, headerValue env v = .ok r) ↔ HeaderResolvable env v := by
  unfold headerValue HeaderResolvable
  by_cases h : v.toList.head? = some '$'
  · simp [h]
    cases he : env.environ (lstripDollar v) with
    | none => simp
    | some val =>
      by_cases hv : val = ""
      · simp [hv]
      · simp [hv]
  · simp [h]

theorem headerValue_error (env : Env) (v : String) (e : ConfigError) (h : headerValue env v = .error e) :
    e = .envVarMissing (lstripDollar v) := by
  unfold headerValue at h
  by_cases hd : (v.toList.head? == some '$') = true
  · simp only [hd, if_true] at h
    cases he : env.environ (lstripDollar v) with
    | none => simp [he] at h; exact h.symm
    | some val =>
      by_cases hv : val = ""
      · simp [he, hv] at h; exact h.symm
      · simp [he, hv] at h
  · simp [hd] at h

theorem resolveHeaders_ok_iff (env : Env) (hs : List (String × String)) :
    (∃ r, resolveHeaders env hs = .ok r) ↔ ∀ kv ∈ hs, HeaderResolvable env kv.2 := by
  induction hs with
  | nil => simp [resolveHeaders]
  | cons kv rest ih =>
    obtain ⟨k, v⟩ := kv
    simp only [resolveHeaders, List.mem_cons, forall_eq_or_imp]
    cases hv : headerValue env v with
    | error e =>
      have hn : ¬ HeaderResolvable env v := by
        intro hr
        obtain ⟨r, hr'⟩ := (headerValue_ok_iff env v).mpr hr
        simp [hv] at hr'
      constructor
      · rintro ⟨r, hr'⟩; simp at hr'
      · rintro ⟨h1, _⟩; exact absurd h1 hn
    | ok v' =>
      have hres : HeaderResolvable env v := (headerValue_ok_iff env v).mp ⟨v', hv⟩
      cases hr : resolveHeaders env rest with
      | error e =>
        have hn : ¬ ∀ kv ∈ rest, HeaderResolvable env kv.2 := by
          intro hall
          obtain ⟨r, hr'⟩ := ih.mpr hall
          simp [hr] at hr'
        constructor
        · rintro ⟨r, hr'⟩; simp at hr'
        · rintro ⟨_, hall⟩; exact absurd hall hn
      | ok rest' =>
        have hall : ∀ kv ∈ rest, HeaderResolvable env kv.2 := ih.mp ⟨rest', hr⟩
        constructor
        · intro _; exact ⟨hres, hall⟩
        · intro _; exact ⟨_, rfl⟩

theorem firstBadHeader_none_iff (env : Env) (hs : List (String × String)) :
    firstBadHeader env hs = none ↔ ∀ kv ∈ hs, HeaderResolvable env kv.2 := by
  rw [← resolveHeaders_ok_iff]
  unfold firstBadHeader
  cases resolveHeaders env hs <;> simp

theorem resolveHeaders_error (env : Env) (hs : List (String × String)) (e : ConfigError)
    (h : resolveHeaders env hs = .error e) : ∃ kv ∈ hs, e = .envVarMissing (lstripDollar kv.2) := by
  induction hs with
  | nil => simp [resolveHeaders] at h
  | cons kv rest ih =>
    obtain ⟨k, v⟩ := kv
    simp only [resolveHeaders] at h
    cases hv : headerValue env v with
    | error e' =>
      simp [hv] at h
      exact ⟨(k, v), by simp, by rw [← h]; exact headerValue_error env v e' hv⟩
    | ok v' =>
      simp [hv] at h
      cases hr : resolveHeaders env rest with
      | error e' =>
        simp [hr] at h
        obtain ⟨kv, hm, he⟩ := ih (by rw [hr, h])
        exact ⟨kv, by simp [hm], he⟩
      | ok r => simp [hr] at h

theorem firstBadHeader_some (env : Env) (hs : List (String × String)) (e : ConfigError)
    (h : firstBadHeader env hs = some e) : ∃ kv ∈ hs, e = .envVarMissing (lstripDollar kv.2) := by
  unfold firstBadHeader at h
  cases hr : resolveHeaders env hs with
  | error e' =>
    simp [hr] at h
    exact h ▸ resolveHeaders_error env hs e' hr
  | ok r => simp [hr] at h

/-! ### files_to_include -/

theorem firstNonFile_none_iff (env : Env) (fs : List String) :
    firstNonFile env fs = none ↔ ∀ f ∈ fs, env.isFile f = true := by
  induction fs with
  | nil => simp [firstNonFile]
  | cons f fs ih =>
    by_cases h : env.isFile f = true
    · simp [firstNonFile, h, ih]
    · simp [firstNonFile, h]

theorem firstNonFile_some (env : Env) (fs : List String) (e : ConfigError) (h : firstNonFile env fs = some e) :
    ∃ f ∈ fs, env.isFile f = false ∧ e = .notFile f := by
  induction fs with
  | nil => simp [firstNonFile] at h
  | cons f fs ih =>
    by_cases hf : env.isFile f = true
    · simp [firstNonFile, hf] at h
      obtain ⟨g, hg, hh⟩ := ih h
      exact ⟨g, by simp [hg], hh⟩
    · simp [firstNonFile, hf] at h
      exact ⟨f, by simp, by simpa using hf, h.symm⟩

/-! ### class test: the specification implies what the code tests, not conversely -/

theorem declaredChars_imp_infix (pat text : List Char) (h : declaredChars pat text = true) :
    isInfixOf pat text = true := by
  induction text with
  | nil => simp [declaredChars] at h
  | cons c cs ih =>
    simp only [declaredChars, Bool.or_eq_true, Bool.and_eq_true] at h
    simp only [isInfixOf, Bool.or_eq_true]
    rcases h with h | h
    · exact Or.inl h.1
    · exact Or.inr (ih h)

theorem classDeclared_imp_definedIn (env : Env) (p c : String) (h : classDeclared env p c = true) :
    classDefinedIn env p c = true :=
  declaredChars_imp_infix _ _ h

/-! ### association lists -/

theorem lookup_filter_key (p : String → Bool) (k : String) (hk : p k = true) (l : List (String × TV)) :
    TV.lookup k (l.filter (fun kv => p kv.1)) = TV.lookup k l := by
  induction l with
  | nil => simp [TV.lookup]
  | cons kv rest ih =>
    obtain ⟨k', v⟩ := kv
    by_cases hp : p k' = true
    · simp [List.filter, hp, TV.lookup, ih]
    · have hne : k' ≠ k := by
        intro heq; rw [heq] at hp; exact hp hk
      simp [List.filter, hp, TV.lookup, hne, ih]

theorem lookup_filter_some (p : String → Bool) (k : String) (v : TV) (l : List (String × TV))
    (h : TV.lookup k (l.filter (fun kv => p kv.1)) = some v) : TV.lookup k l = some v := by
  induction l with
  | nil => simp [TV.lookup] at h
  | cons kv rest ih =>
    obtain ⟨k', v'⟩ := kv
    by_cases hp : p k' = true
    · simp only [List.filter, hp, TV.lookup] at h ⊢
      by_cases hk : k' = k
      · simp [hk] at h ⊢; exact h
      · simp [hk] at h ⊢; exact ih h
    · simp only [List.filter, hp] at h
      have := ih h
      by_cases hk : k' = k
      · subst hk
        -- the key was filtered out, so it cannot be found in the filtered list
        exfalso
        have hnone : TV.lookup k' (rest.filter (fun kv => p kv.1)) = none := by
          clear ih h this
          induction rest with
          | nil => simp [TV.lookup]
          | cons kv2 r2 ih2 =>
            obtain ⟨k2, v2⟩ := kv2
            by_cases hp2 : p k2 = true
            · have hne : k2 ≠ k' := by intro he; rw [he] at hp2; exact hp hp2
              simp [List.filter, hp2, TV.lookup, hne, ih2]
            · simp [List.filter, hp2, ih2]
        rw [hnone] at h
        cases h
      · simp [TV.lookup, hk, this]

theorem filter_dictSet (p : String → Bool) (k : String) (v : TV) (hk : p k = true) (l : Dict) :
    (dictSet k v l).filter (fun kv => p kv.1) = dictSet k v (l.filter (fun kv => p kv.1)) := by
  induction l with
  | nil => simp [dictSet, hk]
  | cons kv rest ih =>
    obtain ⟨k', v'⟩ := kv
    by_cases he : (k' == k) = true
    · have hkk : k' = k := by simpa using he
      subst hkk
      simp [dictSet, List.filter, hk]
    · have hne : k' ≠ k := by simpa using he
      by_cases hp : p k' = true
      · simp [dictSet, he, List.filter, hp, ih, hne]
      · simp [dictSet, he, List.filter, hp, ih, hne]

theorem lookup_dictSet_ne (k k' : String) (v : TV) (l : Dict) (h : k ≠ k') :
    TV.lookup k (dictSet k' v l) = TV.lookup k l := by
  induction l with
  | nil => simp [dictSet, TV.lookup, h.symm]
  | cons kv rest ih =>
    obtain ⟨k2, v2⟩ := kv
    by_cases he : (k2 == k') = true
    · have : k2 = k' := by simpa using he
      subst this
      simp [dictSet, TV.lookup, h.symm]
    · have hne : k2 ≠ k' := by simpa using he
      by_cases hk : k2 = k
      · subst hk
        simp [dictSet, TV.lookup, h]
      · simp [dictSet, he, TV.lookup, hk, ih, hne]

theorem lookup_dictSet_eq (k : String) (v : TV) (l : Dict) : TV.lookup k (dictSet k v l) = some v := by
  induction l with
  | nil => simp [dictSet, TV.lookup]
  | cons kv rest ih =>
    obtain ⟨k2, v2⟩ := kv
    by_cases he : (k2 == k) = true
    · simp [dictSet, he, TV.lookup]
    · have hne : k2 ≠ k := by simpa using he
      simp [dictSet, he, TV.lookup, hne, ih]

/-! ### the checks on values of unknown kind -/

/-- `v` is a `str` naming a path with the property `test` -/
def IsPath (test : String → Bool) (v : TV) : Prop := ∃ p, v = .str p ∧ test p = true

/-- `v` is a `str` that can be used as a Python identifier / module name -/
def IsName (env : Env) (v : TV) : Prop := ∃ n, v = .str n ∧ validName env n = true

/-- `v` is a table of `str` values each of which can be resolved -/
def HeadersOk (env : Env) (v : TV) : Prop :=
  ∃ kvs, v = .table kvs ∧ ∀ kv ∈ kvs, ∃ h, kv.2 = .str h ∧ HeaderResolvable env h

/-- everything Python iterates over in `v` is a `str` naming a file -/
def FilesOk (env : Env) (v : TV) : Prop := ∃ items, v.pyIter = some items ∧ ∀ f ∈ items, IsPath env.isFile f

theorem pathCheck_some_iff (missing : List String) (test : String → Bool) (err : String → ConfigError) (v : TV) :
    (∃ e, pathCheck missing test err v = some e) ↔ ¬ IsPath test v := by
  unfold IsPath
  cases v <;> simp [pathCheck]

theorem pathCheck_eq (missing : List String) (test : String → Bool) (err : String → ConfigError) (v : TV) (e : ConfigError)
    (h : pathCheck missing test err v = some e) :
    (∃ p, v = .str p ∧ test p = false ∧ e = err p) ∨ (v.isStr = false ∧ e = .typeErrorAsMissing missing) := by
  cases v <;> simp [pathCheck, TV.isStr] at h ⊢ <;> try exact h.symm
  case str p =>
    cases ht : test p <;> simp [ht] at h
    exact ⟨rfl, h.symm⟩

theorem identCheckV_some_iff (env : Env) (v : TV) : (∃ e, identCheckV env v = some e) ↔ ¬ IsName env v := by
  unfold IsName
  cases v <;> simp [identCheckV]
  case str n => unfold identCheck; cases validName env n <;> simp

theorem identCheckV_eq (env : Env) (v : TV) (e : ConfigError) (h : identCheckV env v = some e) :
    (∃ n, v = .str n ∧ e = .badIdentifier n) ∨ (v.isStr = false ∧ e = .internal "AttributeError") := by
  cases v <;> simp [identCheckV, TV.isStr] at h ⊢ <;> try exact h.symm
  case str n =>
    unfold identCheck at h
    split at h <;> simp_all

theorem headerValueV_ok_iff (env : Env) (v : TV) :
    (∃ r, headerValueV env v = .ok r) ↔ ∃ h, v = .str h ∧ HeaderResolvable env h := by
  cases v <;> simp [headerValueV]
  case str s =>
    rw [← headerValue_ok_iff]
    cases headerValue env s <;> simp

theorem resolveHeadersKvs_ok_iff (env : Env) (kvs : List (String × TV)) :
    (∃ r, resolveHeadersKvs env kvs = .ok r) ↔ ∀ kv ∈ kvs, ∃ h, kv.2 = .str h ∧ HeaderResolvable env h := by
  induction kvs with
  | nil => simp [resolveHeadersKvs]
  | cons kv rest ih =>
    obtain ⟨k, v⟩ := kv
    simp only [resolveHeadersKvs, List.mem_cons, forall_eq_or_imp]
    cases hv : headerValueV env v with
    | error e =>
      have hn : ¬ ∃ h, v = .str h ∧ HeaderResolvable env h := by
        intro hr
        obtain ⟨r, hr'⟩ := (headerValueV_ok_iff env v).mpr hr
        rw [hv] at hr'; cases hr'
      constructor
      · rintro ⟨r, hr'⟩; cases hr'
      · rintro ⟨h1, _⟩; exact absurd h1 hn
    | ok v' =>
      have hres := (headerValueV_ok_iff env v).mp ⟨v', hv⟩
      cases hr : resolveHeadersKvs env rest with
      | error e =>
        have hn : ¬ ∀ kv ∈ rest, ∃ h, kv.2 = .str h ∧ HeaderResolvable env h := by
          intro hall
          obtain ⟨r, hr'⟩ := ih.mpr hall
          rw [hr] at hr'; cases hr'
        constructor
        · rintro ⟨r, hr'⟩; cases hr'
        · rintro ⟨_, hall⟩; exact absurd hall hn
      | ok rest' =>
        have hall := ih.mp ⟨rest', hr⟩
        constructor
        · intro _; exact ⟨hres, hall⟩
        · intro _; exact ⟨_, rfl⟩

theorem firstBadHeaderV_none_iff (env : Env) (v : TV) : firstBadHeaderV env v = none ↔ HeadersOk env v := by
  unfold firstBadHeaderV HeadersOk
  cases v <;> simp only [resolveHeadersV] <;> try (simp; done)
  case table kvs =>
    have key := resolveHeadersKvs_ok_iff env kvs
    cases hr : resolveHeadersKvs env kvs with
    | ok r =>
      have hall := key.mp ⟨r, hr⟩
      simp only [true_iff]
      exact ⟨kvs, rfl, hall⟩
    | error e =>
      simp only [reduceCtorEq, false_iff]
      rintro ⟨kvs', hk, hall⟩
      injection hk with hk
      subst hk
      obtain ⟨r, hr'⟩ := key.mpr hall
      rw [hr] at hr'
      cases hr'

theorem headerValueV_error (env : Env) (v : TV) (e : ConfigError) (h : headerValueV env v = .error e) :
    (∃ s, v = .str s ∧ e = .envVarMissing (lstripDollar s)) ∨ (v.isStr = false ∧ e = .internal "AttributeError") := by
  cases v <;> simp [headerValueV, TV.isStr] at h ⊢ <;> try exact h.symm
  case str s =>
    cases hs : headerValue env s with
    | ok r => simp [hs] at h
    | error e' =>
      simp [hs] at h
      rw [← h]
      exact headerValue_error env s e' hs

/-- what a failing header resolution raises: the missing variable of some `str` value, or
    `AttributeError` for a value that is not a `str` -/
def HeaderErrorOf (kvs : List (String × TV)) (e : ConfigError) : Prop :=
  ∃ kv ∈ kvs, (∃ s, kv.2 = .str s ∧ e = .envVarMissing (lstripDollar s)) ∨ (kv.2.isStr = false ∧ e = .internal "AttributeError")

theorem resolveHeadersKvs_error (env : Env) (kvs : List (String × TV)) (e : ConfigError)
    (h : resolveHeadersKvs env kvs = .error e) : HeaderErrorOf kvs e := by
  induction kvs with
  | nil => simp [resolveHeadersKvs] at h
  | cons kv rest ih =>
    obtain ⟨k, v⟩ := kv
    simp only [resolveHeadersKvs] at h
    cases hv : headerValueV env v with
    | error e' =>
      simp only [hv] at h
      injection h with h
      subst h
      exact ⟨(k, v), by simp, headerValueV_error env v e' hv⟩
    | ok v' =>
      simp only [hv] at h
      cases hr : resolveHeadersKvs env rest with
      | error e' =>
        simp only [hr] at h
        injection h with h
        subst h
        obtain ⟨kv, hm, he⟩ := ih hr
        exact ⟨kv, by simp [hm], he⟩
      | ok r => simp [hr] at h

theorem firstBadHeaderV_some (env : Env) (v : TV) (e : ConfigError) (h : firstBadHeaderV env v = some e) :
    (∃ kvs, v = .table kvs ∧ HeaderErrorOf kvs e) ∨ (v.isTable = false ∧ e = .internal "AttributeError") := by
  unfold firstBadHeaderV at h
  cases v <;> simp [resolveHeadersV, TV.isTable] at h ⊢ <;> try exact h.symm
  case table kvs =>
    cases hr : resolveHeadersKvs env kvs with
    | ok r => simp [hr] at h
    | error e' =>
      simp [hr] at h
      subst h
      exact resolveHeadersKvs_error env kvs e' hr

theorem firstNonFileV_none_iff (env : Env) (missing : List String) (fs : List TV) :
    firstNonFileV env missing fs = none ↔ ∀ f ∈ fs, IsPath env.isFile f := by
  induction fs with
  | nil => simp [firstNonFileV]
  | cons f fs ih =>
    cases f <;> simp [firstNonFileV, IsPath]
    case str p =>
      by_cases h : env.isFile p = true
      · simp [h, ih, IsPath]
      · simp [h]

/-- what the loop over `files_to_include` raises -/
def FileErrorOf (env : Env) (missing : List String) (items : List TV) (e : ConfigError) : Prop :=
  ∃ f ∈ items, (∃ p, f = .str p ∧ env.isFile p = false ∧ e = .notFile p) ∨ (f.isStr = false ∧ e = .typeErrorAsMissing missing)

theorem firstNonFileV_some (env : Env) (missing : List String) (fs : List TV) (e : ConfigError)
    (h : firstNonFileV env missing fs = some e) : FileErrorOf env missing fs e := by
  induction fs with
  | nil => simp [firstNonFileV] at h
  | cons f fs ih =>
    cases f
    case str p =>
      by_cases hf : env.isFile p = true
      · simp only [firstNonFileV, hf, if_true] at h
        obtain ⟨g, hg, hh⟩ := ih h
        exact ⟨g, by simp [hg], hh⟩
      · simp only [firstNonFileV, hf] at h
        simp at h
        exact ⟨.str p, by simp, Or.inl ⟨p, rfl, by simpa using hf, h.symm⟩⟩
    all_goals
      simp only [firstNonFileV, Option.some.injEq] at h
      exact ⟨_, List.mem_cons_self, Or.inr ⟨by simp [TV.isStr], h.symm⟩⟩

end Ariadne.Settings
