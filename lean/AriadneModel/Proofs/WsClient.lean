/-
  Helper lemmas for C13: what `_handle_ws_message` (model `handle`, over the protocol's message
  types) does with each letter of the alphabet, and how the streaming loop decomposes.
-/
import AriadneModel.Model.WsClient
import AriadneModel.Model.WsClientOT
import AriadneModel.Spec.GraphqlTransportWs

set_option linter.unusedSimpArgs false
set_option linter.unusedVariables false

namespace Ariadne.WsProofs
open Ariadne Ariadne.WsClient Ariadne.GqlWs

/-- what `GraphQLClientGraphQLError.from_dict` builds from a spec-shaped error object -/
def errOfJ : J → GetData.GqlErr
  | .obj kvs =>
    { message := J.getD "message" kvs, locations := J.getD "locations" kvs, path := J.getD "path" kvs,
      extensions := J.getD "extensions" kvs, original := .obj kvs }
  | j => { message := .null, locations := .null, path := .null, extensions := .null, original := j }

/-- the decoded message (`message_dict`) of a frame -/
def msgOf : Frame → J
  | .json j => j
  | _ => .null

theorem fromDicts_shaped (es : List J) (h : es.all errShaped = true) :
    GetData.fromDicts es = .ok (es.map errOfJ) := by
  induction es with
  | nil => rfl
  | cons e es ih =>
    simp only [List.all_cons, Bool.and_eq_true] at h
    obtain ⟨he, hes⟩ := h
    cases e with
    | obj kvs =>
      simp only [errShaped] at he
      obtain ⟨m, hm⟩ := Option.isSome_iff_exists.mp he
      simp [GetData.fromDicts, GetData.fromDict, hm, ih hes, errOfJ, J.getD]
    | null => simp [errShaped] at he
    | bool _ => simp [errShaped] at he
    | num _ _ => simp [errShaped] at he
    | str _ => simp [errShaped] at he
    | arr _ => simp [errShaped] at he

theorem fromDicts_unshaped (es : List J) (h : es.all errShaped = false) :
    ∃ x, GetData.fromDicts es = .error x := by
  induction es with
  | nil => simp at h
  | cons e es ih =>
    by_cases he : errShaped e = true
    · have hes : es.all errShaped = false := by simpa [List.all_cons, he] using h
      obtain ⟨x, hx⟩ := ih hes
      cases e with
      | obj kvs =>
        simp only [errShaped] at he
        obtain ⟨m, hm⟩ := Option.isSome_iff_exists.mp he
        exact ⟨x, by simp [GetData.fromDicts, GetData.fromDict, hm, hx]⟩
      | null => simp [errShaped] at he
      | bool _ => simp [errShaped] at he
      | num _ _ => simp [errShaped] at he
      | str _ => simp [errShaped] at he
      | arr _ => simp [errShaped] at he
    · cases e with
      | obj kvs =>
        simp only [errShaped, Bool.not_eq_true, Option.isSome_eq_false_iff, Option.isNone_iff_eq_none] at he
        exact ⟨"KeyError", by simp [GetData.fromDicts, GetData.fromDict, he]⟩
      | null => exact ⟨"TypeError", by simp [GetData.fromDicts, GetData.fromDict]⟩
      | bool _ => exact ⟨"TypeError", by simp [GetData.fromDicts, GetData.fromDict]⟩
      | num _ _ => exact ⟨"TypeError", by simp [GetData.fromDicts, GetData.fromDict]⟩
      | str _ => exact ⟨"TypeError", by simp [GetData.fromDicts, GetData.fromDict]⟩
      | arr _ => exact ⟨"TypeError", by simp [GetData.fromDicts, GetData.fromDict]⟩

/-- What the streaming loop's call `_handle_ws_message(message, websocket)` does, letter by letter. -/
def HandleSpec (f : Frame) : Prop :=
  match letter f with
  | .ack => handle proto none f = .ret none
  | .pong => handle proto none f = .ret none
  | .clientMsg => handle proto none f = .ret none
  | .next d => handle proto none f = .ret (some d)
  | .ping => handle proto none f = .retPong
  | .complete => handle proto none f = .retClose
  | .error es => handle proto none f = .raise (.multiError (es.map errOfJ) (msgOf f))
  | .nonJson =>
    handle proto none f =
      .raise (if isBadBytes f then .internal "UnicodeDecodeError" else .invalidMessage .message)
  | .unknownType => handle proto none f = .raise (.invalidMessage .message)
  | .missingType => handle proto none f = .raise (.invalidMessage .message)
  | .nextNoData => handle proto none f = .raise (.invalidMessage .message)
  | .outside => ∃ o, handle proto none f = .raise o


theorem contains_proto_iff (s : String) :
    proto.values.contains s = true ↔
      (s = "connection_init" ∨ s = "connection_ack" ∨ s = "ping" ∨ s = "pong" ∨ s = "subscribe" ∨
        s = "next" ∨ s = "error" ∨ s = "complete") := by
  simp [proto]

theorem handle_of_letter (f : Frame) : HandleSpec f := by
  cases f with
  | text s => simp [HandleSpec, letter, handle, isBadBytes]
  | badBytes => simp [HandleSpec, letter, handle, isBadBytes]
  | json j =>
    cases j with
    | null => exact ⟨_, rfl⟩
    | bool _ => exact ⟨_, rfl⟩
    | num _ _ => exact ⟨_, rfl⟩
    | str _ => exact ⟨_, rfl⟩
    | arr _ => exact ⟨_, rfl⟩
    | obj kvs =>
      rcases ht : J.lookup "type" kvs with _ | ty
      · simp [HandleSpec, letter, handle, typeCheck, ht]
      · cases ty with
        | null => simp [HandleSpec, letter, handle, typeCheck, ht]
        | bool _ => simp [HandleSpec, letter, handle, typeCheck, ht]
        | num _ _ => simp [HandleSpec, letter, handle, typeCheck, ht]
        | arr xs => cases xs <;> simp [HandleSpec, letter, handle, typeCheck, ht]
        | obj xs => cases xs <;> simp [HandleSpec, letter, handle, typeCheck, ht]
        | str s =>
          by_cases h1 : s = "connection_ack"
          · subst h1
            simp [HandleSpec, letter, handle, handle.dispatch, typeCheck, ht, proto]
          by_cases h2 : s = "next"
          · subst h2
            rcases hp : J.lookup "payload" kvs with _ | p
            · simp [HandleSpec, letter, handle, handle.dispatch, typeCheck, ht, proto, hp, nextOf, J.lookup]
            · cases p with
              | obj pk =>
                rcases hd : J.lookup "data" pk with _ | d <;>
                  simp [HandleSpec, letter, handle, handle.dispatch, typeCheck, ht, proto, hp, hd, nextOf]
              | str t =>
                simp only [HandleSpec, letter, handle, handle.dispatch, typeCheck, ht, proto, hp, nextOf]
                simp
                split <;> exact ⟨_, rfl⟩
              | arr xs =>
                simp only [HandleSpec, letter, handle, handle.dispatch, typeCheck, ht, proto, hp, nextOf]
                simp
                split <;> exact ⟨_, rfl⟩
              | null => simp [HandleSpec, letter, handle, handle.dispatch, typeCheck, ht, proto, hp, nextOf]
              | bool _ => simp [HandleSpec, letter, handle, handle.dispatch, typeCheck, ht, proto, hp, nextOf]
              | num _ _ => simp [HandleSpec, letter, handle, handle.dispatch, typeCheck, ht, proto, hp, nextOf]
          by_cases h3 : s = "ping"
          · subst h3
            simp [HandleSpec, letter, handle, handle.dispatch, typeCheck, ht, proto]
          by_cases h4 : s = "pong"
          · subst h4
            simp [HandleSpec, letter, handle, handle.dispatch, typeCheck, ht, proto]
          by_cases h5 : s = "complete"
          · subst h5
            simp [HandleSpec, letter, handle, handle.dispatch, typeCheck, ht, proto]
          by_cases h6 : s = "error"
          · subst h6
            rcases hp : J.lookup "payload" kvs with _ | p
            · simp [HandleSpec, letter, handle, handle.dispatch, typeCheck, ht, proto, hp, errorOf, msgOf]
            · cases p with
              | arr es =>
                by_cases hs : es.all errShaped = true
                · simp [HandleSpec, letter, handle, handle.dispatch, typeCheck, ht, proto, hp, hs, errorOf,
                    fromDicts_shaped es hs, msgOf]
                · have hs' : es.all errShaped = false := by simpa using hs
                  obtain ⟨x, hx⟩ := fromDicts_unshaped es hs'
                  simp only [HandleSpec, letter, ht, hp, hs']
                  simp [handle, handle.dispatch, typeCheck, ht, proto, hp, errorOf, hx]
              | obj pk =>
                cases pk <;>
                  simp [HandleSpec, letter, handle, handle.dispatch, typeCheck, ht, proto, hp, errorOf]
              | str t =>
                simp only [HandleSpec, letter, handle, handle.dispatch, typeCheck, ht, proto, hp, errorOf]
                simp
                split <;> exact ⟨_, rfl⟩
              | null => simp [HandleSpec, letter, handle, handle.dispatch, typeCheck, ht, proto, hp, errorOf]
              | bool _ => simp [HandleSpec, letter, handle, handle.dispatch, typeCheck, ht, proto, hp, errorOf]
              | num _ _ => simp [HandleSpec, letter, handle, handle.dispatch, typeCheck, ht, proto, hp, errorOf]
          by_cases h7 : s = "connection_init"
          · subst h7
            simp [HandleSpec, letter, handle, handle.dispatch, typeCheck, ht, proto]
          by_cases h8 : s = "subscribe"
          · subst h8
            simp [HandleSpec, letter, handle, handle.dispatch, typeCheck, ht, proto]
          · have hc : proto.values.contains s = false := by
              rw [Bool.eq_false_iff]
              intro hcon
              rcases (contains_proto_iff s).mp hcon with h | h | h | h | h | h | h | h <;> simp_all
            have hm : s ∉ proto.values := by simpa using hc
            by_cases he : s = "" <;>
              simp [HandleSpec, letter, handle, typeCheck, ht, h1, h2, h3, h4, h5, h6, h7, h8, hm, he]

/-- What the first call `_handle_ws_message(await websocket.recv(), websocket,
    expected_type=CONNECTION_ACK)` does, letter by letter. -/
def FirstSpec (f : Frame) : Prop :=
  match letter f with
  | .ack => handle proto (some "connection_ack") f = .ret none
  | .pong => handle proto (some "connection_ack") f = .raise (.invalidMessage (.expected "connection_ack"))
  | .clientMsg => handle proto (some "connection_ack") f = .raise (.invalidMessage (.expected "connection_ack"))
  | .next _ => handle proto (some "connection_ack") f = .raise (.invalidMessage (.expected "connection_ack"))
  | .ping => handle proto (some "connection_ack") f = .raise (.invalidMessage (.expected "connection_ack"))
  | .complete => handle proto (some "connection_ack") f = .raise (.invalidMessage (.expected "connection_ack"))
  | .error _ => handle proto (some "connection_ack") f = .raise (.invalidMessage (.expected "connection_ack"))
  | .nextNoData => handle proto (some "connection_ack") f = .raise (.invalidMessage (.expected "connection_ack"))
  | .nonJson =>
    handle proto (some "connection_ack") f =
      .raise (if isBadBytes f then .internal "UnicodeDecodeError" else .invalidMessage .message)
  | .unknownType => handle proto (some "connection_ack") f = .raise (.invalidMessage .message)
  | .missingType => handle proto (some "connection_ack") f = .raise (.invalidMessage .message)
  | .outside => ∃ o, handle proto (some "connection_ack") f = .raise o

theorem handle_first_of_letter (f : Frame) : FirstSpec f := by
  cases f with
  | text s => simp [FirstSpec, letter, handle, isBadBytes]
  | badBytes => simp [FirstSpec, letter, handle, isBadBytes]
  | json j =>
    cases j with
    | null => exact ⟨_, rfl⟩
    | bool _ => exact ⟨_, rfl⟩
    | num _ _ => exact ⟨_, rfl⟩
    | str _ => exact ⟨_, rfl⟩
    | arr _ => exact ⟨_, rfl⟩
    | obj kvs =>
      rcases ht : J.lookup "type" kvs with _ | ty
      · simp [FirstSpec, letter, handle, typeCheck, ht]
      · cases ty with
        | null => simp [FirstSpec, letter, handle, typeCheck, ht]
        | bool _ => simp [FirstSpec, letter, handle, typeCheck, ht]
        | num _ _ => simp [FirstSpec, letter, handle, typeCheck, ht]
        | arr xs => cases xs <;> simp [FirstSpec, letter, handle, typeCheck, ht]
        | obj xs => cases xs <;> simp [FirstSpec, letter, handle, typeCheck, ht]
        | str s =>
          by_cases h1 : s = "connection_ack"
          · subst h1
            simp [FirstSpec, letter, handle, handle.dispatch, typeCheck, ht, proto]
          by_cases h2 : s = "next"
          · subst h2
            rcases hp : J.lookup "payload" kvs with _ | p
            · simp [FirstSpec, letter, handle, typeCheck, ht, proto, hp]
            · cases p with
              | obj pk =>
                rcases hd : J.lookup "data" pk with _ | d <;>
                  simp [FirstSpec, letter, handle, typeCheck, ht, proto, hp, hd]
              | str t => simp [FirstSpec, letter, handle, typeCheck, ht, proto, hp]
              | arr xs => simp [FirstSpec, letter, handle, typeCheck, ht, proto, hp]
              | null => simp [FirstSpec, letter, handle, typeCheck, ht, proto, hp]
              | bool _ => simp [FirstSpec, letter, handle, typeCheck, ht, proto, hp]
              | num _ _ => simp [FirstSpec, letter, handle, typeCheck, ht, proto, hp]
          by_cases h3 : s = "ping"
          · subst h3
            simp [FirstSpec, letter, handle, typeCheck, ht, proto]
          by_cases h4 : s = "pong"
          · subst h4
            simp [FirstSpec, letter, handle, typeCheck, ht, proto]
          by_cases h5 : s = "complete"
          · subst h5
            simp [FirstSpec, letter, handle, typeCheck, ht, proto]
          by_cases h6 : s = "error"
          · subst h6
            rcases hp : J.lookup "payload" kvs with _ | p
            · simp [FirstSpec, letter, handle, typeCheck, ht, proto, hp]
            · cases p with
              | arr es =>
                by_cases hs : es.all errShaped = true
                · simp [FirstSpec, letter, handle, typeCheck, ht, proto, hp, hs]
                · have hs' : es.all errShaped = false := by simpa using hs
                  simp only [FirstSpec, letter, ht, hp, hs']
                  simp [handle, typeCheck, ht, proto]
              | obj pk => simp [FirstSpec, letter, handle, typeCheck, ht, proto, hp]
              | str t => simp [FirstSpec, letter, handle, typeCheck, ht, proto, hp]
              | null => simp [FirstSpec, letter, handle, typeCheck, ht, proto, hp]
              | bool _ => simp [FirstSpec, letter, handle, typeCheck, ht, proto, hp]
              | num _ _ => simp [FirstSpec, letter, handle, typeCheck, ht, proto, hp]
          by_cases h7 : s = "connection_init"
          · subst h7
            simp [FirstSpec, letter, handle, typeCheck, ht, proto]
          by_cases h8 : s = "subscribe"
          · subst h8
            simp [FirstSpec, letter, handle, typeCheck, ht, proto]
          · have hc : proto.values.contains s = false := by
              rw [Bool.eq_false_iff]
              intro hcon
              rcases (contains_proto_iff s).mp hcon with h | h | h | h | h | h | h | h <;> simp_all
            have hm : s ∉ proto.values := by simpa using hc
            by_cases he : s = "" <;>
              simp [FirstSpec, letter, handle, typeCheck, ht, h1, h2, h3, h4, h5, h6, h7, h8, hm, he]

/-! ### The streaming loop, frame by frame -/

/-- the loop's events for a frame that leaves the subscription running -/
def contEvents (f : Frame) : List Ev :=
  match letter f with
  | .next d => if d.truthy then [.recv f, .yield d] else [.recv f]
  | .ping => [.recv f, .send .pong]
  | _ => [.recv f]

theorem stream_cont (f : Frame) (fs : List Frame) (h : continuesF f = true) :
    stream proto (f :: fs) = (contEvents f ++ (stream proto fs).1, (stream proto fs).2) := by
  have hs := handle_of_letter f
  unfold HandleSpec at hs
  cases hl : letter f <;> simp only [hl] at hs <;>
    first
      | (simp [continuesF, hl, Letter.continues] at h; done)
      | (simp only [stream, hs, contEvents, hl]; try split) <;> simp

theorem stream_term (f : Frame) (fs : List Frame) (h : continuesF f = false) :
    stream proto (f :: fs) = stream proto [f] := by
  have hs := handle_of_letter f
  unfold HandleSpec at hs
  cases hl : letter f <;> simp only [hl] at hs
  case outside => obtain ⟨o, ho⟩ := hs; simp only [stream, ho]
  all_goals first
    | (simp [continuesF, hl, Letter.continues] at h; done)
    | (simp only [stream, hs])

theorem terminal_complete (f : Frame) (h : letter f = .complete) :
    stream proto [f] = ([.recv f, .close], .completed) := by
  have hs := handle_of_letter f
  simp only [HandleSpec, h] at hs
  simp [stream, hs]

theorem terminal_error (f : Frame) (es : List J) (h : letter f = .error es) :
    stream proto [f] = ([.recv f], .multiError (es.map errOfJ) (msgOf f)) := by
  have hs := handle_of_letter f
  simp only [HandleSpec, h] at hs
  simp [stream, hs]

/-- the four invalid letters of the alphabet (a non-JSON frame that is not a bad binary frame) -/
def InvalidLetter (f : Frame) : Prop :=
  (letter f = .nonJson ∧ isBadBytes f = false) ∨ letter f = .unknownType ∨ letter f = .missingType ∨
    letter f = .nextNoData

theorem terminal_invalid (f : Frame) (h : InvalidLetter f) :
    stream proto [f] = ([.recv f], .invalidMessage .message) := by
  have hs := handle_of_letter f
  rcases h with ⟨h, hb⟩ | h | h | h <;> simp only [HandleSpec, h] at hs
  · simp [stream, hs, hb]
  all_goals simp [stream, hs]

theorem terminal_badBytes :
    stream proto [Frame.badBytes] = ([.recv .badBytes], .internal "UnicodeDecodeError") := by
  simp [stream, handle]

theorem terminal_outside (f : Frame) (h : letter f = .outside) :
    ∃ o, stream proto [f] = ([.recv f], o) := by
  have hs := handle_of_letter f
  simp only [HandleSpec, h] at hs
  obtain ⟨o, ho⟩ := hs
  exact ⟨o, by simp [stream, ho]⟩

/-- a terminal frame is the last thing delivered: its events are `[recv]` or `[recv, close]` -/
theorem terminal_events (f : Frame) (h : continuesF f = false) :
    (stream proto [f]).1 = [.recv f] ∨ ((stream proto [f]).1 = [.recv f, .close] ∧ letter f = .complete) := by
  have hs := handle_of_letter f
  unfold HandleSpec at hs
  cases hl : letter f <;> simp only [hl] at hs
  case outside => obtain ⟨o, ho⟩ := hs; simp [stream, ho]
  all_goals first
    | (simp [continuesF, hl, Letter.continues] at h; done)
    | (simp [stream, hs])

theorem stream_prefix (pre rest : List Frame) (h : ∀ f ∈ pre, continuesF f = true) :
    stream proto (pre ++ rest) = (pre.flatMap contEvents ++ (stream proto rest).1, (stream proto rest).2) := by
  induction pre with
  | nil => simp
  | cons f pre ih =>
    have hf := h f (by simp)
    have ih' := ih (fun g hg => h g (by simp [hg]))
    simp only [List.cons_append, stream_cont f (pre ++ rest) hf, ih', List.flatMap_cons, List.append_assoc]

/-- The whole loop: the continuing prefix, then the first terminal frame (if any), nothing after. -/
theorem stream_split (fs : List Frame) :
    stream proto fs =
      match firstTerminal fs with
      | some x => ((prefixUntilTerminal fs).flatMap contEvents ++ (stream proto [x]).1, (stream proto [x]).2)
      | none => ((prefixUntilTerminal fs).flatMap contEvents, .exhausted) := by
  induction fs with
  | nil => simp [firstTerminal, prefixUntilTerminal, stream]
  | cons f fs ih =>
    by_cases hf : continuesF f = true
    · rw [stream_cont f fs hf, ih]
      simp only [firstTerminal, prefixUntilTerminal, List.dropWhile_cons, List.takeWhile_cons, hf, if_true]
      cases hft : (List.dropWhile continuesF fs).head? <;> simp [List.flatMap_cons]
    · have hf' : continuesF f = false := by simpa using hf
      rw [stream_term f fs hf']
      simp [firstTerminal, prefixUntilTerminal, List.dropWhile_cons, List.takeWhile_cons, hf']

/-! ### Lemmas used by Properties/C13.lean -/

abbrev Vars := Option (List (String × PV))

theorem first_ack (f : Frame) (h : (letter f).isAck = true) :
    handle proto (some proto.ack) f = .ret none := by
  have hs := handle_first_of_letter f
  unfold FirstSpec at hs
  cases hl : letter f <;> simp [hl, Letter.isAck] at h
  simpa [hl, proto] using hs

theorem first_not_ack (f : Frame) (h : (letter f).isAck = false) :
    ∃ o, handle proto (some proto.ack) f = .raise o ∧
      (¬ letter f = .outside → isBadBytes f = false → ∃ a, o = .invalidMessage a) := by
  have hs := handle_first_of_letter f
  unfold FirstSpec at hs
  cases hl : letter f <;> simp only [hl] at hs
  case ack => simp [hl, Letter.isAck] at h
  case outside =>
    obtain ⟨o, ho⟩ := hs
    exact ⟨o, by simpa [proto] using ho, fun hne => absurd rfl hne⟩
  case nonJson =>
    refine ⟨_, by simpa [proto] using hs, ?_⟩
    intro _ hb; exact ⟨.message, by simp [hb]⟩
  all_goals exact ⟨_, by simpa [proto] using hs, fun _ _ => ⟨_, rfl⟩⟩

theorem sent_contEvents (f : Frame) :
    (contEvents f).filterMap Ev.sent? = if pingF f then [Msg.pong] else [] := by
  unfold contEvents pingF
  cases hl : letter f <;> simp only [hl] <;>
    first | rfl | (rename_i d; cases hd : d.truthy <;> simp [hd] <;> rfl)

theorem yielded_contEvents (f : Frame) :
    (contEvents f).filterMap Ev.yielded? = ((letter f).truthyNextData).toList := by
  unfold contEvents
  cases hl : letter f <;> simp only [hl, Letter.truthyNextData] <;>
    first | rfl | (rename_i d; cases hd : d.truthy <;> simp [hd] <;> rfl)

theorem recv_contEvents (f : Frame) : (contEvents f).filterMap Ev.recv? = [f] := by
  unfold contEvents
  cases hl : letter f <;> simp only [hl] <;>
    first | rfl | (rename_i d; cases hd : d.truthy <;> simp [hd] <;> rfl)

theorem io_contEvents (f : Frame) : (contEvents f).filter Ev.isIO = ioOf f := by
  unfold contEvents ioOf pingF
  cases hl : letter f <;> simp only [hl] <;>
    first | rfl | (rename_i d; cases hd : d.truthy <;> simp [hd] <;> rfl)

theorem sent_prefix (pre : List Frame) :
    (pre.flatMap contEvents).filterMap Ev.sent? = List.replicate (pre.countP pingF) Msg.pong := by
  induction pre with
  | nil => simp
  | cons f pre ih =>
    simp only [List.flatMap_cons, List.filterMap_append, sent_contEvents, ih, List.countP_cons]
    by_cases hp : pingF f = true <;> simp [hp, List.replicate_succ]

theorem yielded_prefix (pre : List Frame) :
    (pre.flatMap contEvents).filterMap Ev.yielded? =
      pre.filterMap (fun f => (letter f).truthyNextData) := by
  induction pre with
  | nil => simp
  | cons f pre ih =>
    simp only [List.flatMap_cons, List.filterMap_append, yielded_contEvents, ih, List.filterMap_cons]
    cases (letter f).truthyNextData <;> simp

theorem recv_prefix (pre : List Frame) : (pre.flatMap contEvents).filterMap Ev.recv? = pre := by
  induction pre with
  | nil => simp
  | cons f pre ih => simp [List.flatMap_cons, List.filterMap_append, recv_contEvents, ih]

theorem io_prefix (pre : List Frame) :
    (pre.flatMap contEvents).filter Ev.isIO = pre.flatMap ioOf := by
  induction pre with
  | nil => simp
  | cons f pre ih => simp [List.flatMap_cons, List.filter_append, io_contEvents, ih]

theorem firstTerminal_not_continues (fs : List Frame) (x : Frame) (h : firstTerminal fs = some x) :
    continuesF x = false := by
  induction fs with
  | nil => simp [firstTerminal] at h
  | cons f fs ih =>
    by_cases hf : continuesF f = true
    · simp only [firstTerminal, List.dropWhile_cons, hf, if_true] at h
      exact ih (by simpa [firstTerminal] using h)
    · have hf' : continuesF f = false := by simpa using hf
      simp [firstTerminal, List.dropWhile_cons, hf'] at h
      subst h; exact hf'

/-- the terminal frame's events carry no send and no yield, deliver exactly that frame -/
theorem terminal_projections (x : Frame) (hx : continuesF x = false) :
    (stream proto [x]).1.filterMap Ev.sent? = [] ∧ (stream proto [x]).1.filterMap Ev.yielded? = [] ∧
    (stream proto [x]).1.filterMap Ev.recv? = [x] ∧ (stream proto [x]).1.filter Ev.isIO = [.recv x] := by
  rcases terminal_events x hx with he | ⟨he, -⟩ <;> rw [he] <;> exact ⟨rfl, rfl, rfl, rfl⟩

/-- every projection of the streaming loop at once -/
theorem stream_projections (fs : List Frame) :
    (stream proto fs).1.filterMap Ev.sent? = List.replicate (pingCount fs) Msg.pong ∧
    (stream proto fs).1.filterMap Ev.yielded? =
      (prefixUntilTerminal fs).filterMap (fun f => (letter f).truthyNextData) ∧
    (stream proto fs).1.filterMap Ev.recv? = consumed fs ∧
    (stream proto fs).1.filter Ev.isIO = (consumed fs).flatMap ioOf := by
  rw [stream_split fs]
  cases hft : firstTerminal fs with
  | none =>
    simp [sent_prefix, yielded_prefix, recv_prefix, io_prefix, pingCount, consumed, hft]
  | some x =>
    have hx := firstTerminal_not_continues fs x hft
    have hnp : pingF x = false := by
      unfold continuesF at hx
      unfold pingF
      cases hl : letter x <;> simp [hl, Letter.continues, Letter.isPing] at hx ⊢
    obtain ⟨t1, t2, t3, t4⟩ := terminal_projections x hx
    have hio : ioOf x = [.recv x] := by simp [ioOf, hnp]
    simp [t1, t2, t3, t4, hio, sent_prefix, yielded_prefix, recv_prefix, io_prefix, pingCount, consumed, hft,
      List.filterMap_append, List.filter_append]

/-- the outcome of the loop is decided by the first terminal frame alone -/
theorem stream_outcome (fs : List Frame) :
    (stream proto fs).2 =
      match firstTerminal fs with
      | none => .exhausted
      | some x => (stream proto [x]).2 := by
  rw [stream_split fs]
  cases firstTerminal fs <;> rfl

theorem truthy_eq_all_of_no_falsy (pre : List Frame) (h : pre.any (fun f => (letter f).falsyNext) = false) :
    pre.filterMap (fun f => (letter f).truthyNextData) = pre.filterMap (fun f => (letter f).nextData) := by
  induction pre with
  | nil => rfl
  | cons f pre ih =>
    simp only [List.any_cons, Bool.or_eq_false_iff] at h
    have hf : (letter f).truthyNextData = (letter f).nextData := by
      cases hl : letter f <;> simp [hl, Letter.truthyNextData, Letter.nextData, Letter.falsyNext] at h ⊢
      exact h.1
    simp [List.filterMap_cons, hf, ih h.2]

/-- the frames a run consumes when `fs = pre ++ x :: rest`, `pre` continuing, `x` terminal -/
theorem split_at_terminal (pre rest : List Frame) (x : Frame) (hpre : ∀ f ∈ pre, continuesF f = true)
    (hx : continuesF x = false) :
    prefixUntilTerminal (pre ++ x :: rest) = pre ∧ firstTerminal (pre ++ x :: rest) = some x := by
  induction pre with
  | nil => simp [prefixUntilTerminal, firstTerminal, List.takeWhile_cons, List.dropWhile_cons, hx]
  | cons f pre ih =>
    have hf := hpre f (by simp)
    have ih' := ih (fun g hg => hpre g (by simp [hg]))
    simp only [prefixUntilTerminal, firstTerminal] at ih' ⊢
    simp [List.takeWhile_cons, List.dropWhile_cons, hf, ih'.1, ih'.2]

theorem handleTel_eq (t : Types) (e : Option String) (f : Frame) :
    WsClientOT.handleTel t e f = handle t e f := by
  cases f with
  | text s => rfl
  | badBytes => rfl
  | json j =>
    cases j with
    | obj kvs =>
      simp only [WsClientOT.handleTel, WsClientOT.withSpan, handle, handle.dispatch]
      cases typeCheck t (J.lookup "type" kvs) <;> cases e <;> rfl
    | null => rfl
    | bool _ => rfl
    | num _ _ => rfl
    | str _ => rfl
    | arr _ => rfl

theorem streamTel_eq (t : Types) (fs : List Frame) : WsClientOT.streamTel t fs = stream t fs := by
  induction fs with
  | nil => rfl
  | cons f fs ih =>
    simp only [WsClientOT.streamTel, stream, handleTel_eq, ih]
    cases handle t none f with
    | ret d => cases d <;> rfl
    | retClose => rfl
    | retPong => rfl
    | raise o => rfl

theorem afterAckTel_eq (t : Types) (cfg : Cfg) (vars : Vars) (c : Bool) (fs : List Frame) :
    WsClientOT.afterAckTel t cfg vars c fs = afterAck t cfg vars c fs := by
  simp only [WsClientOT.afterAckTel, WsClientOT.withSpan, afterAck, streamTel_eq]
  cases serialise vars <;> rfl

theorem runTel_eq (t : Types) (sp : String) (cfg : Cfg) (vars : Vars) (fs : List Frame) :
    WsClientOT.runTel t sp cfg vars fs = runT t sp cfg vars fs := by
  simp only [WsClientOT.runTel, WsClientOT.withSpan, runT]
  split
  · rfl
  · cases fs with
    | nil => rfl
    | cons f fs =>
      simp only [handleTel_eq, afterAckTel_eq]
      cases handle t (some t.ack) f <;> rfl

theorem received_of_shape (c i s : Ev) (a : Frame) (mid tail : List Ev)
    (hc : Ev.recv? c = none) (hi : Ev.recv? i = none) (hs : Ev.recv? s = none) :
    List.filterMap Ev.recv? ([c, i, .recv a, s] ++ mid ++ tail) =
      a :: (mid.filterMap Ev.recv? ++ tail.filterMap Ev.recv?) := by
  have ha : Ev.recv? (Ev.recv a) = some a := rfl
  simp [List.filterMap_append, List.filterMap_cons, hc, hi, hs, ha]


/-! ### `dict.update` on association lists (the header merge of `execute_ws`) -/

theorem dictSet_lookup (k' : String) (v' : J) (a : List (String × J)) (k : String) :
    J.lookup k (dictSet k' v' a) = if k' = k then some v' else J.lookup k a := by
  induction a with
  | nil => simp [dictSet, J.lookup]
  | cons p a ih =>
    obtain ⟨k'', v''⟩ := p
    by_cases h1 : k'' = k'
    · subst h1
      by_cases h2 : k'' = k <;> simp [dictSet, J.lookup, h2]
    · by_cases h2 : k' = k
      · subst h2
        simp [dictSet, J.lookup, h1, ih]
      · by_cases h3 : k'' = k
        · subst h3
          simp [dictSet, J.lookup, h1, h2, ih]
        · simp [dictSet, J.lookup, h1, h2, h3, ih]

theorem dictUpdate_lookup_none (a b : List (String × J)) (k : String) (h : J.lookup k b = none) :
    J.lookup k (dictUpdate a b) = J.lookup k a := by
  induction b generalizing a with
  | nil => rfl
  | cons p b ih =>
    obtain ⟨k', v'⟩ := p
    by_cases hk : k' = k
    · simp [J.lookup, hk] at h
    · simp only [J.lookup, hk, if_false] at h
      simp only [dictUpdate]
      rw [ih _ h, dictSet_lookup]
      simp [hk]

theorem lookup_none_of_not_mem (b : List (String × J)) (k : String) (h : k ∉ b.map (·.1)) :
    J.lookup k b = none := by
  induction b with
  | nil => rfl
  | cons p b ih =>
    obtain ⟨k', v'⟩ := p
    simp only [List.map_cons, List.mem_cons, not_or] at h
    simp [J.lookup, Ne.symm h.1, ih h.2]

theorem dictUpdate_lookup_some (a b : List (String × J)) (k : String) (v : J)
    (hn : (b.map (·.1)).Nodup) (h : J.lookup k b = some v) :
    J.lookup k (dictUpdate a b) = some v := by
  induction b generalizing a with
  | nil => simp [J.lookup] at h
  | cons p b ih =>
    obtain ⟨k', v'⟩ := p
    simp only [List.map_cons, List.nodup_cons] at hn
    by_cases hk : k' = k
    · subst hk
      simp [J.lookup] at h
      subst h
      simp only [dictUpdate]
      rw [dictUpdate_lookup_none _ _ _ (lookup_none_of_not_mem b k' hn.1), dictSet_lookup]
      simp
    · simp only [J.lookup, hk, if_false] at h
      simp only [dictUpdate]
      exact ih _ hn.2 h

/-! ### `execute_ws` = connect, then the session -/

theorem runT_session (t : Types) (sp : String) (cfg : Cfg) (vars : Vars) (fs : List Frame) :
    runT t sp cfg vars fs =
      if J.hasKey "subprotocols" cfg.kwargs then ⟨[], .internal "TypeError"⟩
      else ⟨.connect (connectArgs sp cfg) :: (session t cfg vars fs).1, (session t cfg vars fs).2⟩ := by
  unfold runT session
  split
  · rfl
  · cases fs with
    | nil => rfl
    | cons f fs => cases hh : handle t (some t.ack) f <;> simp [hh]

/-! ### `dict.update`, exactly: the later dict wins, the earlier one fills in, nothing else appears -/

theorem dictUpdate_lookup (a b : List (String × J)) (k : String) (hn : (b.map (·.1)).Nodup) :
    J.lookup k (dictUpdate a b) = match J.lookup k b with
      | some v => some v
      | none => J.lookup k a := by
  cases hb : J.lookup k b with
  | none => exact dictUpdate_lookup_none a b k hb
  | some v => exact dictUpdate_lookup_some a b k v hn hb

/-! ### Which variables `json.dumps` (no `default=`) can serialise -/

theorem map_isSome {α β : Type} (f : α → β) (o : Option α) : (o.map f).isSome = o.isSome := by
  cases o <;> rfl

mutual
  theorem rawJson_plain : ∀ (v : PV), plainPF v = true → hasForeign v = false → (rawJson v).isSome = true
    | .null, _, _ => rfl
    | .bool _, _, _ => rfl
    | .num _ _, _, _ => rfl
    | .str _, _, _ => rfl
    | .foreign _, _, hf => by simp [hasForeign] at hf
    | .unset, hp, _ => by simp [plainPF] at hp
    | .model _, hp, _ => by simp [plainPF] at hp
    | .modelPy _, hp, _ => by simp [plainPF] at hp
    | .list xs, hp, hf => by
      have := rawJsonList_plain xs (by simpa [plainPF] using hp) (by simpa [hasForeign] using hf)
      simpa [rawJson, map_isSome] using this
    | .dict kvs, hp, hf => by
      have := rawJsonKvs_plain kvs (by simpa [plainPF] using hp) (by simpa [hasForeign] using hf)
      simpa [rawJson, map_isSome] using this
  theorem rawJsonList_plain : ∀ (xs : List PV), plainPFList xs = true → hasForeignList xs = false →
      (rawJsonList xs).isSome = true
    | [], _, _ => rfl
    | x :: xs, hp, hf => by
      simp only [plainPFList, Bool.and_eq_true] at hp
      simp only [hasForeignList, Bool.or_eq_false_iff] at hf
      obtain ⟨j, hj⟩ := Option.isSome_iff_exists.mp (rawJson_plain x hp.1 hf.1)
      obtain ⟨js, hjs⟩ := Option.isSome_iff_exists.mp (rawJsonList_plain xs hp.2 hf.2)
      simp [rawJsonList, hj, hjs]
  theorem rawJsonKvs_plain : ∀ (kvs : List (String × PV)), plainPFKvs kvs = true → hasForeignKvs kvs = false →
      (rawJsonKvs kvs).isSome = true
    | [], _, _ => rfl
    | (k, x) :: xs, hp, hf => by
      simp only [plainPFKvs, Bool.and_eq_true] at hp
      simp only [hasForeignKvs, Bool.or_eq_false_iff] at hf
      obtain ⟨j, hj⟩ := Option.isSome_iff_exists.mp (rawJson_plain x hp.1 hf.1)
      obtain ⟨js, hjs⟩ := Option.isSome_iff_exists.mp (rawJsonKvs_plain xs hp.2 hf.2)
      simp [rawJsonKvs, hj, hjs]
end

mutual
  theorem convJson_readable : ∀ (v : PV), readable v = true → hasForeign v = false → (convJson v).isSome = true
    | .null, _, _ => rfl
    | .bool _, _, _ => rfl
    | .num _ _, _, _ => rfl
    | .str _, _, _ => rfl
    | .model _, _, _ => rfl
    | .foreign _, _, hf => by simp [hasForeign] at hf
    | .unset, hp, _ => by simp [readable] at hp
    | .modelPy kvs, hp, hf => by
      have := rawJsonKvs_plain kvs (by simpa [readable] using hp) (by simpa [hasForeign] using hf)
      simpa [convJson, map_isSome] using this
    | .dict kvs, hp, hf => by
      have := rawJsonKvs_plain kvs (by simpa [readable] using hp) (by simpa [hasForeign] using hf)
      simpa [convJson, map_isSome] using this
    | .list xs, hp, hf => by
      have := convJsonList_readable xs (by simpa [readable] using hp) (by simpa [hasForeign] using hf)
      simpa [convJson, map_isSome] using this
  theorem convJsonList_readable : ∀ (xs : List PV), readableList xs = true → hasForeignList xs = false →
      (convJsonList xs).isSome = true
    | [], _, _ => rfl
    | x :: xs, hp, hf => by
      simp only [readableList, Bool.and_eq_true] at hp
      simp only [hasForeignList, Bool.or_eq_false_iff] at hf
      obtain ⟨j, hj⟩ := Option.isSome_iff_exists.mp (convJson_readable x hp.1 hf.1)
      obtain ⟨js, hjs⟩ := Option.isSome_iff_exists.mp (convJsonList_readable xs hp.2 hf.2)
      simp [convJsonList, hj, hjs]
end

theorem convDict_readable (kvs : List (String × PV)) (hp : readableTop kvs = true) (hf : hasForeignKvs kvs = false) :
    (convDict kvs).isSome = true := by
  induction kvs with
  | nil => rfl
  | cons kv rest ih =>
    obtain ⟨k, v⟩ := kv
    simp only [hasForeignKvs, Bool.or_eq_false_iff] at hf
    by_cases hu : v = .unset
    · subst hu
      simp only [readableTop] at hp
      simpa [convDict] using ih hp hf.2
    · have hp' : readable v = true ∧ readableTop rest = true := by
        cases v <;> first | exact absurd rfl hu | simpa [readableTop] using hp
      obtain ⟨j, hj⟩ := Option.isSome_iff_exists.mp (convJson_readable v hp'.1 hf.1)
      obtain ⟨r, hr⟩ := Option.isSome_iff_exists.mp (ih hp'.2 hf.2)
      cases v <;> first | exact absurd rfl hu | simp [convDict, hj, hr]

mutual
  theorem rawJson_foreign : ∀ (v : PV), hasForeign v = true → rawJson v = none
    | .foreign _, _ => rfl
    | .modelPy _, _ => rfl
    | .null, h => by simp [hasForeign] at h
    | .bool _, h => by simp [hasForeign] at h
    | .num _ _, h => by simp [hasForeign] at h
    | .str _, h => by simp [hasForeign] at h
    | .unset, h => by simp [hasForeign] at h
    | .model _, h => by simp [hasForeign] at h
    | .list xs, h => by simp [rawJson, rawJsonList_foreign xs (by simpa [hasForeign] using h)]
    | .dict kvs, h => by simp [rawJson, rawJsonKvs_foreign kvs (by simpa [hasForeign] using h)]
  theorem rawJsonList_foreign : ∀ (xs : List PV), hasForeignList xs = true → rawJsonList xs = none
    | [], h => by simp [hasForeignList] at h
    | x :: xs, h => by
      simp only [hasForeignList, Bool.or_eq_true] at h
      rcases h with h | h
      · simp [rawJsonList, rawJson_foreign x h]
      · have := rawJsonList_foreign xs h
        cases hx : rawJson x <;> simp [rawJsonList, hx, this]
  theorem rawJsonKvs_foreign : ∀ (kvs : List (String × PV)), hasForeignKvs kvs = true → rawJsonKvs kvs = none
    | [], h => by simp [hasForeignKvs] at h
    | (k, x) :: xs, h => by
      simp only [hasForeignKvs, Bool.or_eq_true] at h
      rcases h with h | h
      · simp [rawJsonKvs, rawJson_foreign x h]
      · have := rawJsonKvs_foreign xs h
        cases hx : rawJson x <;> simp [rawJsonKvs, hx, this]
end

mutual
  theorem convJson_foreign : ∀ (v : PV), hasForeign v = true → convJson v = none
    | .foreign _, _ => rfl
    | .modelPy kvs, h => by simp [convJson, rawJsonKvs_foreign kvs (by simpa [hasForeign] using h)]
    | .dict kvs, h => by simp [convJson, rawJsonKvs_foreign kvs (by simpa [hasForeign] using h)]
    | .list xs, h => by simp [convJson, convJsonList_foreign xs (by simpa [hasForeign] using h)]
    | .null, h => by simp [hasForeign] at h
    | .bool _, h => by simp [hasForeign] at h
    | .num _ _, h => by simp [hasForeign] at h
    | .str _, h => by simp [hasForeign] at h
    | .unset, h => by simp [hasForeign] at h
    | .model _, h => by simp [hasForeign] at h
  theorem convJsonList_foreign : ∀ (xs : List PV), hasForeignList xs = true → convJsonList xs = none
    | [], h => by simp [hasForeignList] at h
    | x :: xs, h => by
      simp only [hasForeignList, Bool.or_eq_true] at h
      rcases h with h | h
      · simp [convJsonList, convJson_foreign x h]
      · have := convJsonList_foreign xs h
        cases hx : convJson x <;> simp [convJsonList, hx, this]
end

theorem convDict_foreign (kvs : List (String × PV)) (h : hasForeignKvs kvs = true) : convDict kvs = none := by
  induction kvs with
  | nil => simp [hasForeignKvs] at h
  | cons kv rest ih =>
    obtain ⟨k, v⟩ := kv
    simp only [hasForeignKvs, Bool.or_eq_true] at h
    rcases h with h | h
    · have hc := convJson_foreign v h
      cases v <;> first | (simp [hasForeign] at h; done) | simp [convDict, hc]
    · have := ih h
      cases v <;> first | simpa [convDict] using this | (simp only [convDict, this]; split <;> simp_all)

end Ariadne.WsProofs
