/-
  Helper lemmas for C13: what `_handle_ws_message` (model `handle`, over the protocol's message
  types) does with each letter of the alphabet, and how the streaming loop decomposes.
-/
import AriadneModel.Model.WsClient
import AriadneModel.Model.WsClientOT
import AriadneModel.Spec.GraphqlTransportWs

set_option linter.unusedSimpArgs false
set_option linter.unusedVariables false

namespace Ariadne.WsProofs
open Ariadne Ariadne.WsClient Ariadne.GqlWs

/-- what `GraphQLClientGraphQLError.from_dict` builds from a spec-shaped error object -/
def errOfJ : J → GetData.GqlErr
  | .obj kvs =>
    { message := J.getD "message" kvs, locations := J.getD "locations" kvs, path := J.getD "path" kvs,
      extensions := J.getD "extensions" kvs, original := .obj kvs }
  | j => { message := .null, locations := .null, path := .null, extensions := .null, original := j }

/-- the decoded message (`message_dict`) of a frame -/
def msgOf : Frame → J
  | .json j => j
  | _ => .null

theorem fromDicts_shaped (es : List J) (h : es.all errShaped = true) :
    GetData.fromDicts es = .ok (es.map errOfJ) := by
  induction es with
  | nil => rfl
  | cons e es ih =>
    simp only [List.all_cons, Bool.and_eq_true] at h
    obtain ⟨he, hes⟩ := h
    cases e with
    | obj kvs =>
      simp only [errShaped] at he
      obtain ⟨m, hm⟩ := Option.isSome_iff_exists.mp he
      simp [GetData.fromDicts, GetData.fromDict, hm, ih hes, errOfJ, J.getD]
    | null => simp [errShaped] at he
    | bool _ => simp [errShaped] at he
    | num _ _ => simp [errShaped] at he
    | str _ => simp [errShaped] at he
    | arr _ => simp [errShaped] at he

theorem fromDicts_unshaped (es : List J) (h : es.all errShaped = false) :
    ∃ x, GetData.fromDicts es = .error x := by
  induction es with
  | nil => simp at h
  | cons e es ih =>
    by_cases he : errShaped e = true
    · have hes : es.all errShaped = false := by simpa [List.all_cons, he] using h
      obtain ⟨x, hx⟩ := ih hes
      cases e with
      | obj kvs =>
        simp only [errShaped] at he
        obtain ⟨m, hm⟩ := Option.isSome_iff_exists.mp he
        exact ⟨x, by simp [GetData.fromDicts, GetData.fromDict, hm, hx]⟩
      | null => simp [errShaped] at he
      | bool _ => simp [errShaped] at he
      | num _ _ => simp [errShaped] at he
      | str _ => simp [errShaped] at he
      | arr _ => simp [errShaped] at he
    · cases e with
      | obj kvs =>
        simp only [errShaped, Bool.not_eq_true, Option.isSome_eq_false_iff, Option.isNone_iff_eq_none] at he
        exact ⟨"KeyError", by simp [GetData.fromDicts, GetData.fromDict, he]⟩
      | null => exact ⟨"TypeError", by simp [GetData.fromDicts, GetData.fromDict]⟩
      | bool _ => exact ⟨"TypeError", by simp [GetData.fromDicts, GetData.fromDict]⟩
      | num _ _ => exact ⟨"TypeError", by simp [GetData.fromDicts, GetData.fromDict]⟩
      | str _ => exact ⟨"TypeError", by simp [GetData.fromDicts, GetData.fromDict]⟩
      | arr _ => exact ⟨"TypeError", by simp [GetData.fromDicts, GetData.fromDict]⟩

/-- What the streaming loop's call `_handle_ws_message(message, websocket)` does, letter by letter. -/
def HandleSpec (f : Frame) : Prop :=
  match letter f with
  | .ack => handle proto none f = .ret none
  | .pong => handle proto none f = .ret none
  | .clientMsg => handle proto none f = .ret none
  | .next d => handle proto none f = .ret (some d)
  | .ping => handle proto none f = .retPong
  | .complete => handle proto none f = .retClose
  | .error es => handle proto none f = .raise (.multiError (es.map errOfJ) (msgOf f))
  | .nonJson =>
    handle proto none f =
      .raise (if isBadBytes f then .internal "UnicodeDecodeError" else .invalidMessage .message)
  | .unknownType => handle proto none f = .raise (.invalidMessage .message)
  | .missingType => handle proto none f = .raise (.invalidMessage .message)
  | .nextNoData => handle proto none f = .raise (.invalidMessage .message)
  | .outside => ∃ o, handle proto none f = .raise o


theorem contains_proto_iff (s : String) :
    proto.values.contains s = true ↔
      (s = "connection_init" ∨ s = "connection_ack" ∨ s = "ping" ∨ s = "pong" ∨ s = "subscribe" ∨
        s = "next" ∨ s = "error" ∨ s = "complete") := by
  simp [proto]

theorem handle_of_letter (f : Frame) : HandleSpec f := by
  cases f with
  | text s => simp [HandleSpec, letter, handle, isBadBytes]
  | badBytes => simp [HandleSpec, letter, handle, isBadBytes]
  | json j =>
    cases j with
    | null => exact ⟨_, rfl⟩
    | bool _ => exact ⟨_, rfl⟩
    | num _ _ => exact ⟨_, rfl⟩
    | str _ => exact ⟨_, rfl⟩
    | arr _ => exact ⟨_, rfl⟩
    | obj kvs =>
      rcases ht : J.lookup "type" kvs with _ | ty
      · simp [HandleSpec, letter, handle, typeCheck, ht]
      · cases ty with
        | null => simp [HandleSpec, letter, handle, typeCheck, ht]
        | bool _ => simp [HandleSpec, letter, handle, typeCheck, ht]
        | num _ _ => simp [HandleSpec, letter, handle, typeCheck, ht]
        | arr xs => cases xs <;> simp [HandleSpec, letter, handle, typeCheck, ht]
        | obj xs => cases xs <;> simp [HandleSpec, letter, handle, typeCheck, ht]
        | str s =>
          by_cases h1 : s = "connection_ack"
          · subst h1
            simp [HandleSpec, letter, handle, handle.dispatch, typeCheck, ht, proto]
          by_cases h2 : s = "next"
          · subst h2
            rcases hp : J.lookup "payload" kvs with _ | p
            · simp [HandleSpec, letter, handle, handle.dispatch, typeCheck, ht, proto, hp, nextOf, J.lookup]
            · cases p with
              | obj pk =>
                rcases hd : J.lookup "data" pk with _ | d <;>
                  simp [HandleSpec, letter, handle, handle.dispatch, typeCheck, ht, proto, hp, hd, nextOf]
              | str t =>
                simp only [HandleSpec, letter, handle, handle.dispatch, typeCheck, ht, proto, hp, nextOf]
                simp
                split <;> exact ⟨_, rfl⟩
              | arr xs =>
                simp only [HandleSpec, letter, handle, handle.dispatch, typeCheck, ht, proto, hp, nextOf]
                simp
                split <;> exact ⟨_, rfl⟩
              | null => simp [HandleSpec, letter, handle, handle.dispatch, typeCheck, ht, proto, hp, nextOf]
              | bool _ => simp [HandleSpec, letter, handle, handle.dispatch, typeCheck, ht, proto, hp, nextOf]
              | num _ _ => simp [HandleSpec, letter, handle, handle.dispatch, typeCheck, ht, proto, hp, nextOf]
          by_cases h3 : s = "ping"
          · subst h3
            simp [HandleSpec, letter, handle, handle.dispatch, typeCheck, ht, proto]
          by_cases h4 : s = "pong"
          · subst h4
            simp [HandleSpec, letter, handle, handle.dispatch, typeCheck, ht, proto]
          by_cases h5 : s = "complete"
          · subst h5
            simp [HandleSpec, letter, handle, handle.dispatch, typeCheck, ht, proto]
          by_cases h6 : s = "error"
          · subst h6
            rcases hp : J.lookup "payload" kvs with _ | p
            · simp [HandleSpec, letter, handle, handle.dispatch, typeCheck, ht, proto, hp, errorOf]
            · cases p with
              | arr es =>
                by_cases hs : es.all errShaped = true
                · simp [HandleSpec, letter, handle, handle.dispatch, typeCheck, ht, proto, hp, hs, errorOf,
                    fromDicts_shaped es hs, msgOf]
                · have hs' : es.all errShaped = false := by simpa using hs
                  obtain ⟨x, hx⟩ := fromDicts_unshaped es hs'
                  simp only [HandleSpec, letter, ht, hp, hs']
                  simp [handle, handle.dispatch, typeCheck, ht, proto, hp, errorOf, hx]
              | obj pk =>
                cases pk <;>
                  simp [HandleSpec, letter, handle, handle.dispatch, typeCheck, ht, proto, hp, errorOf]
              | str t =>
                simp only [HandleSpec, letter, handle, handle.dispatch, typeCheck, ht, proto, hp, errorOf]
                simp
                split <;> exact ⟨_, rfl⟩
              | null => simp [HandleSpec, letter, handle, handle.dispatch, typeCheck, ht, proto, hp, errorOf]
              | bool _ => simp [HandleSpec, letter, handle, handle.dispatch, typeCheck, ht, proto, hp, errorOf]
              | num _ _ => simp [HandleSpec, letter, handle, handle.dispatch, typeCheck, ht, proto, hp, errorOf]
          by_cases h7 : s = "connection_init"
          · subst h7
            simp [HandleSpec, letter, handle, handle.dispatch, typeCheck, ht, proto]
          by_cases h8 : s = "subscribe"
          · subst h8
            simp [HandleSpec, letter, handle, handle.dispatch, typeCheck, ht, proto]
          · have hc : proto.values.contains s = false := by
              rw [Bool.eq_false_iff]
              intro hcon
              rcases (contains_proto_iff s).mp hcon with h | h | h | h | h | h | h | h <;> simp_all
            have hm : s ∉ proto.values := by simpa using hc
            by_cases he : s = "" <;>
              simp [HandleSpec, letter, handle, typeCheck, ht, h1, h2, h3, h4, h5, h6, h7, h8, hm, he]

/-- What the first call `_handle_ws_message(await websocket.recv(), websocket,
    expected_type=CONNECTION_ACK)` does, letter by letter. -/
def FirstSpec (f : Frame) : Prop :=
  match letter f with
  | .ack => handle proto (some "connection_ack") f = .ret none
  | .pong => handle proto (some "connection_ack") f = .raise (.invalidMessage (.expected "connection_ack"))
  | .clientMsg => handle proto (some "connection_ack") f = .raise (.invalidMessage (.expected "connection_ack"))
  | .next _ => handle proto (some "connection_ack") f = .raise (.invalidMessage (.expected "connection_ack"))
  | .ping => handle proto (some "connection_ack") f = .raise (.invalidMessage (.expected "connection_ack"))
  | .complete => handle proto (some "connection_ack") f = .raise (.invalidMessage (.expected "connection_ack"))
  | .error _ => handle proto (some "connection_ack") f = .raise (.invalidMessage (.expected "connection_ack"))
  | .nextNoData => handle proto (some "connection_ack") f = .raise (.invalidMessage (.expected "connection_ack"))
  | .nonJson =>
    handle proto (some "connection_ack") f =
      .raise (if isBadBytes f then .internal "UnicodeDecodeError" else .invalidMessage .message)
  | .unknownType => handle proto (some "connection_ack") f = .raise (.invalidMessage .message)
  | .missingType => handle proto (some "connection_ack") f = .raise (.invalidMessage .message)
  | .outside => ∃ o, handle proto (some "connection_ack") f = .raise o

theorem handle_first_of_letter (f : Frame) : FirstSpec f := by
  cases f with
  | text s => simp [FirstSpec, letter, handle, isBadBytes]
  | badBytes => simp [FirstSpec, letter, handle, isBadBytes]
  | json j =>
    cases j with
    | null => exact ⟨_, rfl⟩
    | bool _ => exact ⟨_, rfl⟩
    | num _ _ => exact ⟨_, rfl⟩
    | str _ => exact ⟨_, rfl⟩
    | arr _ => exact ⟨_, rfl⟩
    | obj kvs =>
      rcases ht : J.lookup "type" kvs with _ | ty
      · simp [FirstSpec, letter, handle, typeCheck, ht]
      · cases ty with
        | null => simp [FirstSpec, letter, handle, typeCheck, ht]
        | bool _ => simp [FirstSpec, letter, handle, typeCheck, ht]
        | num _ _ => simp [FirstSpec, letter, handle, typeCheck, ht]
        | arr xs => cases xs <;> simp [FirstSpec, letter, handle, typeCheck, ht]
        | obj xs => cases xs <;> simp [FirstSpec, letter, handle, typeCheck, ht]
        | str s =>
          by_cases h1 : s = "connection_ack"
          · subst h1
            simp [FirstSpec, letter, handle, handle.dispatch, typeCheck, ht, proto]
          by_cases h2 : s = "next"
          · subst h2
            rcases hp : J.lookup "payload" kvs with _ | p
            · simp [FirstSpec, letter, handle, typeCheck, ht, proto, hp]
            · cases p with
              | obj pk =>
                rcases hd : J.lookup "data" pk with _ | d <;>
                  simp [FirstSpec, letter, handle, typeCheck, ht, proto, hp, hd]
              | str t => simp [FirstSpec, letter, handle, typeCheck, ht, proto, hp]
              | arr xs => simp [FirstSpec, letter, handle, typeCheck, ht, proto, hp]
              | null => simp [FirstSpec, letter, handle, typeCheck, ht, proto, hp]
              | bool _ => simp [FirstSpec, letter, handle, typeCheck, ht, proto, hp]
              | num _ _ => simp [FirstSpec, letter, handle, typeCheck, ht, proto, hp]
          by_cases h3 : s = "ping"
          · subst h3
            simp [FirstSpec, letter, handle, typeCheck, ht, proto]
          by_cases h4 : s = "pong"
          · subst h4
            simp [FirstSpec, letter, handle, typeCheck, ht, proto]
          by_cases h5 : s = "complete"
          · subst h5
            simp [FirstSpec, letter, handle, typeCheck, ht, proto]
          by_cases h6 : s = "error"
          · subst h6
            rcases hp : J.lookup "payload" kvs with _ | p
            · simp [FirstSpec, letter, handle, typeCheck, ht, proto, hp]
            · cases p with
              | arr es =>
                by_cases hs : es.all errShaped = true
                · simp [FirstSpec, letter, handle, typeCheck, ht, proto, hp, hs]
                · have hs' : es.all errShaped = false := by simpa using hs
                  simp only [FirstSpec, letter, ht, hp, hs']
                  simp [handle, typeCheck, ht, proto]
              | obj pk => simp [FirstSpec, letter, handle, typeCheck, ht, proto, hp]
              | str t => simp [FirstSpec, letter, handle, typeCheck, ht, proto, hp]
              | null => simp [FirstSpec, letter, handle, typeCheck, ht, proto, hp]
              | bool _ => simp [FirstSpec, letter, handle, typeCheck, ht, proto, hp]
              | num _ _ => simp [FirstSpec, letter, handle, typeCheck, ht, proto, hp]
          by_cases h7 : s = "connection_init"
          · subst h7
            simp [FirstSpec, letter, handle, typeCheck, ht, proto]
          by_cases h8 : s = "subscribe"
          · subst h8
            simp [FirstSpec, letter, handle, typeCheck, ht, proto]
          · have hc : proto.values.contains s = false := by
              rw [Bool.eq_false_iff]
              intro hcon
              rcases (contains_proto_iff s).mp hcon with h | h | h | h | h | h | h | h <;> simp_all
            have hm : s ∉ proto.values := by simpa using hc
            by_cases he : s = "" <;>
              simp [FirstSpec, letter, handle, typeCheck, ht, h1, h2, h3, h4, h5, h6, h7, h8, hm, he]

/-! ### The streaming loop, frame by frame -/

/-- the loop's events for a frame that leaves the subscription running -/
def contEvents (f : Frame) : List Ev :=
  match letter f with
  | .next d => if d.truthy then [.recv f, .yield d] else [.recv f]
  | .ping => [.recv f, .send .pong]
  | _ => [.recv f]

theorem stream_cont (f : Frame) (fs : List Frame) (h : continuesF f = true) :
    stream proto (f :: fs) = (contEvents f ++ (stream proto fs).1, (stream proto fs).2) := by
  have hs := handle_of_letter f
  unfold HandleSpec at hs
  cases hl : letter f <;> simp only [hl] at hs <;>
    first
      | (simp [continuesF, hl, Letter.continues] at h; done)
      | (simp only [stream, hs, contEvents, hl]; try split) <;> simp

theorem stream_term (f : Frame) (fs : List Frame) (h : continuesF f = false) :
    stream proto (f :: fs) = stream proto [f] := by
  have hs := handle_of_letter f
  unfold HandleSpec at hs
  cases hl : letter f <;> simp only [hl] at hs
  case outside => obtain ⟨o, ho⟩ := hs; simp only [stream, ho]
  all_goals first
    | (simp [continuesF, hl, Letter.continues] at h; done)
    | (simp only [stream, hs])

theorem terminal_complete (f : Frame) (h : letter f = .complete) :
    stream proto [f] = ([.recv f, .close], .completed) := by
  have hs := handle_of_letter f
  simp only [HandleSpec, h] at hs
  simp [stream, hs]

theorem terminal_error (f : Frame) (es : List J) (h : letter f = .error es) :
    stream proto [f] = ([.recv f], .multiError (es.map errOfJ) (msgOf f)) := by
  have hs := handle_of_letter f
  simp only [HandleSpec, h] at hs
  simp [stream, hs]

/-- the four invalid letters of the alphabet (a non-JSON frame that is not a bad binary frame) -/
def InvalidLetter (f : Frame) : Prop :=
  (letter f = .nonJson ∧ isBadBytes f = false) ∨ letter f = .unknownType ∨ letter f = .missingType ∨
    letter f = .nextNoData

theorem terminal_invalid (f : Frame) (h : InvalidLetter f) :
    stream proto [f] = ([.recv f], .invalidMessage .message) := by
  have hs := handle_of_letter f
  rcases h with ⟨h, hb⟩ | h | h | h <;> simp only [HandleSpec, h] at hs
  · simp [stream, hs, hb]
  all_goals simp [stream, hs]

theorem terminal_badBytes :
    stream proto [Frame.badBytes] = ([.recv .badBytes], .internal "UnicodeDecodeError") := by
  simp [stream, handle]

theorem terminal_outside (f : Frame) (h : letter f = .outside) :
    ∃ o, stream proto [f] = ([.recv f], o) := by
  have hs := handle_of_letter f
  simp only [HandleSpec, h] at hs
  obtain ⟨o, ho⟩ := hs
  exact ⟨o, by simp [stream, ho]⟩

/-- a terminal frame is the last thing delivered: its events are `[recv]` or `[recv, close]` -/
theorem terminal_events (f : Frame) (h : continuesF f = false) :
    (stream proto [f]).1 = [.recv f] ∨ ((stream proto [f]).1 = [.recv f, .close] ∧ letter f = .complete) := by
  have hs := handle_of_letter f
  unfold HandleSpec at hs
  cases hl : letter f <;> simp only [hl] at hs
  case outside => obtain ⟨o, ho⟩ := hs; simp [stream, ho]
  all_goals first
    | (simp [continuesF, hl, Letter.continues] at h; done)
    | (simp [stream, hs])

theorem stream_prefix (pre rest : List Frame) (h : ∀ f ∈ pre, continuesF f = true) :
    stream proto (pre ++ rest) = (pre.flatMap contEvents ++ (stream proto rest).1, (stream proto rest).2) := by
  induction pre with
  | nil => simp
  | cons f pre ih =>
    have hf := h f (by simp)
    have ih' := ih (fun g hg => h g (by simp [hg]))
    simp only [List.cons_append, stream_cont f (pre ++ rest) hf, ih', List.flatMap_cons, List.append_assoc]

/-- The whole loop: the continuing prefix, then the first terminal frame (if any), nothing after. -/
theorem stream_split (fs : List Frame) :
    stream proto fs =
      match firstTerminal fs with
      | some x => ((prefixUntilTerminal fs).flatMap contEvents ++ (stream proto [x]).1, (stream proto [x]).2)
      | none => ((prefixUntilTerminal fs).flatMap contEvents, .exhausted) := by
  induction fs with
  | nil => simp [firstTerminal, prefixUntilTerminal, stream]
  | cons f fs ih =>
    by_cases hf : continuesF f = true
    · rw [stream_cont f fs hf, ih]
      simp only [firstTerminal, prefixUntilTerminal, List.dropWhile_cons, List.takeWhile_cons, hf, if_true]
      cases hft : (List.dropWhile continuesF fs).head? <;> simp [List.flatMap_cons]
    · have hf' : continuesF f = false := by simpa using hf
      rw [stream_term f fs hf']
      simp [firstTerminal, prefixUntilTerminal, List.dropWhile_cons, List.takeWhile_cons, hf']

end Ariadne.WsProofs
