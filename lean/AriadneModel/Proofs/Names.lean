/-
  Helper lemmas for C18 (names).  Core Lean only.
  Part 1: character classes.  Part 2: the tokenizer.  Part 3: tables.  Part 4: process_name by cases.
-/
import AriadneModel.Model.Names

set_option linter.unusedSimpArgs false
set_option linter.unusedVariables false

namespace Ariadne.Names

/-! ## Part 1: character classes -/

theorem cls_spec (c : Char) :
    (c ∈ uppers ∧ cls c = .U) ∨ (c ∉ uppers ∧ c ∈ lowers ∧ cls c = .L) ∨
    (c ∉ uppers ∧ c ∉ lowers ∧ c ∈ digits ∧ cls c = .D) ∨
    (c ∉ uppers ∧ c ∉ lowers ∧ c ∉ digits ∧ cls c = .O) := by
  unfold cls
  by_cases h1 : c ∈ uppers
  · simp [h1]
  · by_cases h2 : c ∈ lowers
    · simp [h1, h2]
    · by_cases h3 : c ∈ digits
      · simp [h1, h2, h3]
      · simp [h1, h2, h3]

theorem cls_U_iff (c : Char) : cls c = .U ↔ c ∈ uppers := by
  rcases cls_spec c with ⟨h, e⟩ | ⟨h, _, e⟩ | ⟨h, _, _, e⟩ | ⟨h, _, _, e⟩ <;> simp [h, e]

theorem uppers_facts : ∀ c ∈ uppers, cls (lowerChar c) = .L ∧ cls c = .U := by decide
theorem lowers_facts : ∀ c ∈ lowers, cls c = .L ∧ cls (upperChar c) = .U := by decide
theorem cls_underscore : cls '_' = .O := by decide

theorem lowerChar_of_not_U {c : Char} (h : cls c ≠ .U) : lowerChar c = c := by
  have : c ∉ uppers := fun hm => h ((cls_U_iff c).mpr hm)
  simp [lowerChar, this]

theorem cls_lowerChar (c : Char) :
    cls (lowerChar c) = (match cls c with | .U => .L | k => k) := by
  by_cases h : cls c = .U
  · have hm := (cls_U_iff c).mp h
    rw [h, (uppers_facts c hm).1]
  · rw [lowerChar_of_not_U h]
    cases hc : cls c <;> simp_all

theorem cls_lowerChar_ne_O {c : Char} (h : cls c ≠ .O) : cls (lowerChar c) ≠ .O := by
  rw [cls_lowerChar]; cases hc : cls c <;> simp_all

theorem lowerChar_idem (c : Char) : lowerChar (lowerChar c) = lowerChar c := by
  apply lowerChar_of_not_U
  rw [cls_lowerChar]; cases hc : cls c <;> simp

theorem ne_underscore_of_cls {c : Char} (h : cls c ≠ .O) : c ≠ '_' := by
  intro e; subst e; exact h cls_underscore


/-! ## Part 2: the tokenizer -/

theorem tokens_nil : tokens [] = [] := rfl

theorem tokens_cons_O {c : Char} (cs : Name) (h : cls c = .O) : tokens (c :: cs) = tokens cs := by
  simp [tokens, h]

theorem tokens_cons_join {c : Char} (cs : Name) (h : cls c ≠ .O)
    (hj : joins (cls c) (cls1 cs) (cls1 cs.tail) = true) : tokens (c :: cs) = consTok c (tokens cs) := by
  simp [tokens, h, hj]

theorem tokens_cons_new {c : Char} (cs : Name) (h : cls c ≠ .O)
    (hj : joins (cls c) (cls1 cs) (cls1 cs.tail) = false) : tokens (c :: cs) = [c] :: tokens cs := by
  simp [tokens, h, hj]

theorem joins_O_right (k n2 : Cls) : joins k .O n2 = false := by cases k <;> rfl
theorem joins_O_left (n1 n2 : Cls) : joins .O n1 n2 = false := by cases n1 <;> rfl

theorem flatten_consTok (c : Char) (ts : List Name) : (consTok c ts).flatten = c :: ts.flatten := by
  cases ts <;> simp [consTok]

/-- the tokens, concatenated, are the letters and digits of the name in order -/
theorem tokens_flatten (s : Name) : (tokens s).flatten = alnum s := by
  induction s with
  | nil => rfl
  | cons c cs ih =>
    by_cases h : cls c = .O
    · rw [tokens_cons_O cs h]; simp [alnum, h] at *; exact ih
    · have ha : alnum (c :: cs) = c :: alnum cs := by simp [alnum, h]
      cases hj : joins (cls c) (cls1 cs) (cls1 cs.tail)
      · rw [tokens_cons_new cs h hj, ha, ← ih]; simp
      · rw [tokens_cons_join cs h hj, ha, ← ih, flatten_consTok]

/-- the first token starts with the first character when that is a letter or digit -/
theorem tokens_head {c : Char} (cs : Name) (h : cls c ≠ .O) : ∃ t r, tokens (c :: cs) = (c :: t) :: r := by
  cases hj : joins (cls c) (cls1 cs) (cls1 cs.tail)
  · exact ⟨[], tokens cs, tokens_cons_new cs h hj⟩
  · rw [tokens_cons_join cs h hj]
    cases tokens cs with
    | nil => exact ⟨[], [], rfl⟩
    | cons t r => exact ⟨t, r, rfl⟩

def Alpha (t : Name) : Prop := ∀ c ∈ t, cls c = .U ∨ cls c = .L
def Dig (t : Name) : Prop := ∀ c ∈ t, cls c = .D
/-- a token is a non-empty run of letters or a non-empty run of digits -/
def Homog (t : Name) : Prop := t ≠ [] ∧ (Alpha t ∨ Dig t)

theorem tokens_homog (s : Name) : ∀ t ∈ tokens s, Homog t := by
  induction s with
  | nil => intro t ht; simp [tokens] at ht
  | cons c cs ih =>
    by_cases h : cls c = .O
    · rw [tokens_cons_O cs h]; exact ih
    · cases hj : joins (cls c) (cls1 cs) (cls1 cs.tail)
      · rw [tokens_cons_new cs h hj]
        intro t ht
        rcases List.mem_cons.mp ht with rfl | ht
        · refine ⟨by simp, ?_⟩
          cases hc : cls c
          · left; intro x hx; simp at hx; subst hx; exact Or.inl hc
          · left; intro x hx; simp at hx; subst hx; exact Or.inr hc
          · right; intro x hx; simp at hx; subst hx; exact hc
          · exact absurd hc h
        · exact ih t ht
      · rw [tokens_cons_join cs h hj]
        -- joins = true forces a next character of a compatible class
        cases cs with
        | nil => simp [cls1, joins_O_right] at hj
        | cons d ds =>
          have hd : cls d ≠ .O := by
            intro hd; simp [cls1, hd, joins_O_right] at hj
          obtain ⟨t0, r, htok⟩ := tokens_head ds hd
          rw [htok]
          intro t ht
          simp only [consTok, List.mem_cons] at ht
          rcases ht with rfl | ht
          · have h0 : Homog (d :: t0) := ih (d :: t0) (by rw [htok]; simp)
            refine ⟨by simp, ?_⟩
            rcases h0.2 with ha | hdg
            · have hdA := ha d (by simp)
              left
              intro x hx
              rcases List.mem_cons.mp hx with rfl | hx
              · cases hc : cls x
                · exact Or.inl rfl
                · exact Or.inr rfl
                · rcases hdA with e | e <;> simp [cls1, hc, e, joins] at hj
                · exact absurd hc h
              · exact ha x hx
            · have hdD := hdg d (by simp)
              right
              intro x hx
              rcases List.mem_cons.mp hx with rfl | hx
              · cases hc : cls x
                · simp [cls1, hc, hdD, joins] at hj
                · simp [cls1, hc, hdD, joins] at hj
                · rfl
                · exact absurd hc h
              · exact hdg x hx
          · exact ih t (by rw [htok]; simp [ht])

/-- a canonical word: non-empty, all small letters or all digits -/
def CanonWord (w : Name) : Prop := w ≠ [] ∧ ((∀ c ∈ w, cls c = .L) ∨ (∀ c ∈ w, cls c = .D))

theorem lower_canon {t : Name} (h : Homog t) : CanonWord (lower t) := by
  refine ⟨by simpa [lower] using h.1, ?_⟩
  rcases h.2 with ha | hd
  · left; intro c hc
    simp only [lower, List.mem_map] at hc
    obtain ⟨x, hx, rfl⟩ := hc
    rw [cls_lowerChar]; rcases ha x hx with e | e <;> simp [e]
  · right; intro c hc
    simp only [lower, List.mem_map] at hc
    obtain ⟨x, hx, rfl⟩ := hc
    rw [cls_lowerChar]; simp [hd x hx]

theorem lower_of_canon {w : Name} (h : CanonWord w) : lower w = w := by
  unfold lower
  conv => rhs; rw [← List.map_id w]
  apply List.map_congr_left
  intro c hc
  apply lowerChar_of_not_U
  rcases h.2 with e | e <;> simp [e c hc]

/-- the lower-cased tokens of any name are canonical words -/
theorem snakeWords_canon (s : Name) : ∀ w ∈ (tokens s).map lower, CanonWord w := by
  intro w hw
  obtain ⟨t, ht, rfl⟩ := List.mem_map.mp hw
  exact lower_canon (tokens_homog s t ht)

theorem tokens_run_L (w rest : Name) (hne : w ≠ []) (hw : ∀ c ∈ w, cls c = .L) (hr : cls1 rest = .O) :
    tokens (w ++ rest) = w :: tokens rest := by
  induction w with
  | nil => exact absurd rfl hne
  | cons c w ih =>
    have hc : cls c = .L := hw c (by simp)
    cases w with
    | nil =>
      simp only [List.cons_append, List.nil_append]
      exact tokens_cons_new rest (by simp [hc]) (by rw [hr, joins_O_right])
    | cons d w' =>
      have hd : cls d = .L := hw d (by simp)
      have := ih (by simp) (fun x hx => hw x (by simp [hx]))
      simp only [List.cons_append] at this ⊢
      rw [tokens_cons_join _ (by simp [hc]) (by simp [cls1, hc, hd, joins]), this]; rfl

theorem tokens_run_D (w rest : Name) (hne : w ≠ []) (hw : ∀ c ∈ w, cls c = .D) (hr : cls1 rest = .O) :
    tokens (w ++ rest) = w :: tokens rest := by
  induction w with
  | nil => exact absurd rfl hne
  | cons c w ih =>
    have hc : cls c = .D := hw c (by simp)
    cases w with
    | nil =>
      simp only [List.cons_append, List.nil_append]
      exact tokens_cons_new rest (by simp [hc]) (by rw [hr, joins_O_right])
    | cons d w' =>
      have hd : cls d = .D := hw d (by simp)
      have := ih (by simp) (fun x hx => hw x (by simp [hx]))
      simp only [List.cons_append] at this ⊢
      rw [tokens_cons_join _ (by simp [hc]) (by simp [cls1, hc, hd, joins]), this]; rfl

theorem tokens_canon_append (w rest : Name) (hw : CanonWord w) (hr : cls1 rest = .O) :
    tokens (w ++ rest) = w :: tokens rest := by
  rcases hw.2 with h | h
  · exact tokens_run_L w rest hw.1 h hr
  · exact tokens_run_D w rest hw.1 h hr

/-- tokenizing `"_".join(ws)` gives back `ws` when the words are canonical -/
theorem tokens_joinU (ws : List Name) (h : ∀ w ∈ ws, CanonWord w) : tokens (joinU ws) = ws := by
  induction ws with
  | nil => rfl
  | cons w ws ih =>
    cases ws with
    | nil =>
      have := tokens_canon_append w [] (h w (by simp)) rfl
      simpa [joinU, tokens] using this
    | cons w2 ws' =>
      have h1 := tokens_canon_append w ('_' :: joinU (w2 :: ws')) (h w (by simp)) (by simp [cls1, cls_underscore])
      have h2 := ih (fun x hx => h x (by simp [hx]))
      simp only [joinU] at h1 ⊢
      rw [h1, tokens_cons_O _ cls_underscore, h2]

theorem map_lower_canon (ws : List Name) (h : ∀ w ∈ ws, CanonWord w) : ws.map lower = ws := by
  conv => rhs; rw [← List.map_id ws]
  apply List.map_congr_left
  intro w hw; simpa using lower_of_canon (h w hw)

theorem snake_idem (s : Name) : snake (snake s) = snake s := by
  have hc := snakeWords_canon s
  unfold snake
  rw [tokens_joinU _ hc, map_lower_canon _ hc]


/-! ### letters and digits of the snake-cased name -/

theorem alnum_append (a b : Name) : alnum (a ++ b) = alnum a ++ alnum b := by simp [alnum]

theorem alnum_of_noO {w : Name} (h : ∀ c ∈ w, cls c ≠ .O) : alnum w = w := by
  unfold alnum
  apply List.filter_eq_self.mpr
  intro c hc; simp [h c hc]

theorem canon_noO {w : Name} (h : CanonWord w) : ∀ c ∈ w, cls c ≠ .O := by
  intro c hc; rcases h.2 with e | e <;> simp [e c hc]

theorem alnum_joinU (ws : List Name) (h : ∀ w ∈ ws, ∀ c ∈ w, cls c ≠ .O) : alnum (joinU ws) = ws.flatten := by
  induction ws with
  | nil => rfl
  | cons w ws ih =>
    cases ws with
    | nil => simpa [joinU] using alnum_of_noO (h w (by simp))
    | cons w2 ws' =>
      have h2 := ih (fun x hx => h x (by simp [hx]))
      simp only [joinU] at h2 ⊢
      rw [alnum_append, alnum_of_noO (h w (by simp))]
      have : alnum ('_' :: joinU (w2 :: ws')) = alnum (joinU (w2 :: ws')) := by
        simp [alnum, cls_underscore]
      rw [this, h2]; simp

theorem flatten_map_lower (ts : List Name) : (ts.map lower).flatten = lower ts.flatten := by
  induction ts with
  | nil => rfl
  | cons t ts ih => simp [lower, List.map_append] at ih ⊢; exact ih

/-- `alnum_preserved` for `str_to_snake_case`: every letter and digit is kept, in order, lower-cased -/
theorem alnum_snake (s : Name) : alnum (snake s) = lower (alnum s) := by
  unfold snake
  rw [alnum_joinU _ (fun w hw => canon_noO (snakeWords_canon s w hw)), flatten_map_lower, tokens_flatten]

theorem lower_alnum (s : Name) : lower (alnum s) = alnum (lower s) := by
  induction s with
  | nil => rfl
  | cons c cs ih =>
    by_cases h : cls c = .O
    · have h' : cls (lowerChar c) = .O := by rw [cls_lowerChar, h]
      simp [alnum, lower, h, h'] at ih ⊢; exact ih
    · have h' : cls (lowerChar c) ≠ .O := cls_lowerChar_ne_O h
      simp [alnum, lower, h, h'] at ih ⊢; exact ih

/-! ### shape of the snake-cased name -/

theorem isWordChar_of_cls {c : Char} (h : cls c ≠ .O) : isWordChar c = true := by simp [isWordChar, h]
theorem isWordChar_underscore : isWordChar '_' = true := by decide

theorem word_joinU (ws : List Name) (h : ∀ w ∈ ws, ∀ c ∈ w, cls c ≠ .O) : Word (joinU ws) := by
  induction ws with
  | nil => intro c hc; simp [joinU] at hc
  | cons w ws ih =>
    cases ws with
    | nil => intro c hc; exact isWordChar_of_cls (h w (by simp) c (by simpa [joinU] using hc))
    | cons w2 ws' =>
      intro c hc
      simp only [joinU, List.mem_append, List.mem_cons] at hc
      rcases hc with hc | rfl | hc
      · exact isWordChar_of_cls (h w (by simp) c hc)
      · exact isWordChar_underscore
      · exact ih (fun x hx => h x (by simp [hx])) c (by simpa [joinU] using hc)

theorem word_snake (s : Name) : Word (snake s) :=
  word_joinU _ (fun w hw => canon_noO (snakeWords_canon s w hw))

theorem joinU_cons_head (c : Char) (t : Name) (ws : List Name) : ∃ r, joinU ((c :: t) :: ws) = c :: r := by
  cases ws with
  | nil => exact ⟨t, rfl⟩
  | cons w ws => exact ⟨t ++ '_' :: joinU (w :: ws), rfl⟩

/-- the snake-cased name is empty iff the name has no letter or digit; otherwise it starts with the
    lower-cased first letter-or-digit -/
theorem snake_head (s : Name) :
    (alnum s = [] ∧ snake s = []) ∨ (∃ a as r, alnum s = a :: as ∧ snake s = lowerChar a :: r) := by
  have hf := tokens_flatten s
  have hh := tokens_homog s
  unfold snake
  cases ht : tokens s with
  | nil => left; rw [ht] at hf; exact ⟨by simpa using hf.symm, rfl⟩
  | cons t ts =>
    right
    have h0 := (hh t (by rw [ht]; simp)).1
    cases t with
    | nil => exact absurd rfl h0
    | cons a t' =>
      rw [ht] at hf
      obtain ⟨r, hr⟩ := joinU_cons_head (lowerChar a) (lower t') (ts.map lower)
      refine ⟨a, t' ++ ts.flatten, r, by simpa using hf.symm, ?_⟩
      simpa [lower] using hr

theorem snake_eq_nil_iff (s : Name) : snake s = [] ↔ alnum s = [] := by
  rcases snake_head s with ⟨h1, h2⟩ | ⟨a, as, r, h1, h2⟩
  · simp [h1, h2]
  · simp [h1, h2]

/-! ### a trailing underscore does not change the tokens -/

theorem cls1_append_underscore (p : Name) : cls1 (p ++ ['_']) = cls1 p := by
  cases p <;> simp [cls1, cls_underscore]

theorem tokens_append_underscore (p : Name) : tokens (p ++ ['_']) = tokens p := by
  induction p with
  | nil => simp [tokens, cls_underscore]
  | cons c cs ih =>
    by_cases h : cls c = .O
    · simp only [List.cons_append]; rw [tokens_cons_O _ h, tokens_cons_O _ h, ih]
    · have e1 : cls1 (cs ++ ['_']) = cls1 cs := cls1_append_underscore cs
      have e2 : cls1 (cs ++ ['_']).tail = cls1 cs.tail := by
        cases cs with
        | nil => simp [cls1]
        | cons d ds => simpa using cls1_append_underscore ds
      simp only [List.cons_append]
      cases hj : joins (cls c) (cls1 cs) (cls1 cs.tail)
      · rw [tokens_cons_new _ h (by rw [e1, e2]; exact hj), tokens_cons_new _ h hj, ih]
      · rw [tokens_cons_join _ h (by rw [e1, e2]; exact hj), tokens_cons_join _ h hj, ih]

theorem snake_append_underscore (p : Name) : snake (p ++ ['_']) = snake p := by
  simp [snake, tokens_append_underscore]


/-! ## Part 3: facts about the regenerated tables (`decide +kernel` over the whole tables) -/

theorem kw_suffix_clean : ∀ k ∈ kwlistC, k ++ ['_'] ∉ kwlistC ∧ k ++ ['_'] ∉ reservedC := by decide +kernel
theorem res_suffix_clean : ∀ r ∈ reservedC, r ++ ['_'] ∉ kwlistC ∧ r ++ ['_'] ∉ reservedC := by decide +kernel
theorem tables_no_lead_underscore : ∀ k ∈ kwlistC ++ reservedC, k.head? ≠ some '_' := by decide +kernel
theorem tables_no_trail_underscore : ∀ k ∈ kwlistC ++ reservedC, k.getLast? ≠ some '_' := by decide +kernel
theorem nil_not_in_tables : [] ∉ kwlistC ++ reservedC := by decide +kernel
theorem fallback_not_in_tables : fallbackName ∉ kwlistC ++ reservedC := by decide +kernel
theorem fallback_pyident : PyIdent fallbackName := by decide +kernel
theorem fallback_ne_nil : fallbackName ≠ [] := by decide +kernel
theorem fallback_head : fallbackName.head? ≠ some '_' := by decide +kernel
theorem fallback_alnum_ne_nil : alnum fallbackName ≠ [] := by decide +kernel

/-! ## Part 4: `process_name`, case by case -/

theorem suspect_iff (cfg : Cfg) (p : Name) :
    suspect cfg p = true ↔ (p ∈ kwlistC ∨ (cfg.reserved = true ∧ p ∈ reservedC)) := by
  simp [suspect]

/-- both suffix steps -/
def suffix (cfg : Cfg) (p : Name) : Name := suffixRes cfg.reserved (suffixKw p)

theorem suffix_cases (cfg : Cfg) (p : Name) :
    (suspect cfg p = false ∧ suffix cfg p = p) ∨ (suspect cfg p = true ∧ suffix cfg p = p ++ ['_']) := by
  unfold suffix suffixKw suffixRes
  by_cases hk : p ∈ kwlistC
  · right
    have h2 := (kw_suffix_clean p hk).2
    exact ⟨(suspect_iff cfg p).mpr (Or.inl hk), by simp [hk, h2]⟩
  · by_cases hr : cfg.reserved = true ∧ p ∈ reservedC
    · right; exact ⟨(suspect_iff cfg p).mpr (Or.inr hr), by simp [hk, hr]⟩
    · left
      refine ⟨?_, by simp [hk, hr]⟩
      cases hs : suspect cfg p
      · rfl
      · rcases (suspect_iff cfg p).mp hs with h | h
        · exact absurd h hk
        · exact absurd h hr

theorem suspect_append_underscore (cfg : Cfg) (p : Name) (h : suspect cfg p = true) :
    suspect cfg (p ++ ['_']) = false := by
  cases hs : suspect cfg (p ++ ['_'])
  · rfl
  · exfalso
    rcases (suspect_iff cfg p).mp h with hk | ⟨_, hr⟩
    · rcases (suspect_iff cfg _).mp hs with h2 | ⟨_, h2⟩
      · exact (kw_suffix_clean p hk).1 h2
      · exact (kw_suffix_clean p hk).2 h2
    · rcases (suspect_iff cfg _).mp hs with h2 | ⟨_, h2⟩
      · exact (res_suffix_clean p hr).1 h2
      · exact (res_suffix_clean p hr).2 h2

/-- what comes out of the suffix steps is never a keyword / reserved name -/
theorem suspect_suffix (cfg : Cfg) (p : Name) : suspect cfg (suffix cfg p) = false := by
  rcases suffix_cases cfg p with ⟨h, e⟩ | ⟨h, e⟩
  · rw [e]; exact h
  · rw [e]; exact suspect_append_underscore cfg p h

theorem suffix_idem (cfg : Cfg) (p : Name) : suffix cfg (suffix cfg p) = suffix cfg p := by
  rcases suffix_cases cfg (suffix cfg p) with ⟨_, e⟩ | ⟨h, _⟩
  · exact e
  · rw [suspect_suffix] at h; exact absurd h (by simp)

theorem suspect_nil (cfg : Cfg) : suspect cfg [] = false := by
  cases hs : suspect cfg []
  · rfl
  · exfalso; apply nil_not_in_tables
    rcases (suspect_iff cfg _).mp hs with h | ⟨_, h⟩ <;> simp [h]

theorem suspect_lead_underscore (cfg : Cfg) (r : Name) : suspect cfg ('_' :: r) = false := by
  cases hs : suspect cfg ('_' :: r)
  · rfl
  · exfalso
    have := tables_no_lead_underscore ('_' :: r) (by
      rcases (suspect_iff cfg _).mp hs with h | ⟨_, h⟩ <;> simp [h])
    simp at this

theorem suspect_fallback (cfg : Cfg) : suspect cfg fallbackName = false := by
  cases hs : suspect cfg fallbackName
  · rfl
  · exfalso; apply fallback_not_in_tables
    rcases (suspect_iff cfg _).mp hs with h | ⟨_, h⟩ <;> simp [h]

theorem suffix_nil (cfg : Cfg) : suffix cfg [] = [] := by
  rcases suffix_cases cfg [] with ⟨_, e⟩ | ⟨h, _⟩
  · exact e
  · rw [suspect_nil] at h; exact absurd h (by simp)

theorem suffix_ne_nil (cfg : Cfg) {p : Name} (h : p ≠ []) : suffix cfg p ≠ [] := by
  rcases suffix_cases cfg p with ⟨_, e⟩ | ⟨_, e⟩ <;> rw [e] <;> simp [h]

theorem suffix_head (cfg : Cfg) (c : Char) (r : Name) : ∃ r', suffix cfg (c :: r) = c :: r' := by
  rcases suffix_cases cfg (c :: r) with ⟨_, e⟩ | ⟨_, e⟩
  · exact ⟨r, e⟩
  · exact ⟨r ++ ['_'], by rw [e]; rfl⟩

/-! ### lstrip -/

theorem lstripU_nil : lstripU [] = [] := rfl
theorem lstripU_underscore (r : Name) : lstripU ('_' :: r) = lstripU r := by simp [lstripU, List.dropWhile_cons]
theorem lstripU_of_ne {c : Char} (r : Name) (h : c ≠ '_') : lstripU (c :: r) = c :: r := by
  simp [lstripU, List.dropWhile_cons, h]

/-- after `lstrip("_")` the name is empty or starts with something else -/
theorem lstripU_shape (n : Name) : lstripU n = [] ∨ ∃ c r, lstripU n = c :: r ∧ c ≠ '_' := by
  induction n with
  | nil => left; rfl
  | cons c cs ih =>
    by_cases h : c = '_'
    · subst h; rw [lstripU_underscore]; exact ih
    · right; exact ⟨c, cs, lstripU_of_ne cs h, h⟩

theorem lstripU_idem (n : Name) : lstripU (lstripU n) = lstripU n := by
  rcases lstripU_shape n with h | ⟨c, r, h, hc⟩
  · rw [h]; rfl
  · rw [h, lstripU_of_ne r hc]

theorem lstripU_mem {n : Name} {c : Char} (h : c ∈ lstripU n) : c ∈ n :=
  (List.dropWhile_sublist _).subset h

theorem allUnderscore_iff (n : Name) : allUnderscore n = true ↔ n ≠ [] ∧ ∀ c ∈ n, c = '_' := by
  cases n <;> simp [allUnderscore]

theorem lstripU_eq_nil_iff (n : Name) : lstripU n = [] ↔ ∀ c ∈ n, c = '_' := by
  induction n with
  | nil => simp [lstripU]
  | cons c cs ih =>
    by_cases h : c = '_'
    · subst h; rw [lstripU_underscore, ih]; simp
    · rw [lstripU_of_ne cs h]; simp [h]

theorem allUnderscore_alnum {n : Name} (h : allUnderscore n = true) : alnum n = [] := by
  have := ((allUnderscore_iff n).mp h).2
  unfold alnum
  apply List.filter_eq_nil_iff.mpr
  intro c hc; rw [this c hc]; simp [cls_underscore]

theorem allUnderscore_cons_false {c : Char} (r : Name) (h : c ≠ '_') : allUnderscore (c :: r) = false := by
  cases hs : allUnderscore (c :: r)
  · rfl
  · exact absurd (((allUnderscore_iff _).mp hs).2 c (by simp)) h

/-! ### the definition, folded once -/

theorem processName_eq (cfg : Cfg) (n : Name) :
    processName cfg n =
      (if allUnderscore n && (if cfg.trim then lstripU (suffix cfg (if cfg.snake then snake n else n))
                               else suffix cfg (if cfg.snake then snake n else n)).isEmpty
       then fallbackName
       else (if cfg.trim then lstripU (suffix cfg (if cfg.snake then snake n else n))
             else suffix cfg (if cfg.snake then snake n else n))) := rfl

/-- snake-casing on, an all-underscore name: the fallback literal -/
theorem processName_snake_allU (cfg : Cfg) (n : Name) (hs : cfg.snake = true) (hu : allUnderscore n = true) :
    processName cfg n = fallbackName := by
  have h0 : snake n = [] := (snake_eq_nil_iff n).mpr (allUnderscore_alnum hu)
  rw [processName_eq]; simp [hs, hu, h0, suffix_nil, lstripU_nil]

/-- snake-casing on, any other name: the suffixed snake-cased name (trimming has nothing to trim) -/
theorem processName_snake (cfg : Cfg) (n : Name) (hs : cfg.snake = true) (hu : allUnderscore n = false) :
    processName cfg n = suffix cfg (snake n) := by
  rw [processName_eq]; simp only [hs, hu, Bool.false_and, if_true, Bool.false_eq_true, if_false]
  cases ht : cfg.trim
  · simp
  · simp only [if_true]
    rcases snake_head n with ⟨_, h2⟩ | ⟨a, as, r, h1, h2⟩
    · rw [h2, suffix_nil]; rfl
    · rw [h2]
      obtain ⟨r', hr'⟩ := suffix_head cfg (lowerChar a) r
      rw [hr']
      apply lstripU_of_ne
      apply ne_underscore_of_cls
      apply cls_lowerChar_ne_O
      have : a ∈ alnum n := by rw [h1]; simp
      simpa [alnum] using (List.mem_filter.mp this).2

/-- snake-casing off, trimming off -/
theorem processName_plain (cfg : Cfg) (n : Name) (hs : cfg.snake = false) (ht : cfg.trim = false) (hn : n ≠ []) :
    processName cfg n = suffix cfg n := by
  rw [processName_eq]
  have : (suffix cfg n).isEmpty = false := by
    cases h : suffix cfg n with
    | nil => exact absurd h (suffix_ne_nil cfg hn)
    | cons _ _ => rfl
  simp [hs, ht, this]

/-- snake-casing off, trimming on, leading underscore(s) -/
theorem processName_trim_lead (cfg : Cfg) (r : Name) (hs : cfg.snake = false) (ht : cfg.trim = true) :
    processName cfg ('_' :: r) = if lstripU r = [] then fallbackName else lstripU r := by
  have hsuf : suffix cfg ('_' :: r) = '_' :: r := by
    rcases suffix_cases cfg ('_' :: r) with ⟨_, e⟩ | ⟨h, _⟩
    · exact e
    · rw [suspect_lead_underscore] at h; exact absurd h (by simp)
  rw [processName_eq]
  simp only [hs, ht, if_true, Bool.false_eq_true, if_false, hsuf, lstripU_underscore]
  by_cases h : lstripU r = []
  · have hu : allUnderscore ('_' :: r) = true := by
      apply (allUnderscore_iff _).mpr
      refine ⟨by simp, ?_⟩
      intro c hc
      rcases List.mem_cons.mp hc with rfl | hc
      · rfl
      · exact (lstripU_eq_nil_iff r).mp h c hc
    simp [h, hu]
  · have : (lstripU r).isEmpty = false := by
      cases h' : lstripU r with
      | nil => exact absurd h' h
      | cons _ _ => rfl
    simp [h, this]

/-- snake-casing off, trimming on, no leading underscore -/
theorem processName_trim_nolead (cfg : Cfg) (c : Char) (r : Name) (hs : cfg.snake = false) (hc : c ≠ '_') :
    processName cfg (c :: r) = suffix cfg (c :: r) := by
  rw [processName_eq]
  obtain ⟨r', hr'⟩ := suffix_head cfg c r
  have hu := allUnderscore_cons_false r hc
  cases ht : cfg.trim
  · simp [hs, hu]
  · simp [hs, hu, hr', lstripU_of_ne r' hc]


/-! ## Part 5: letters kept, identifiers, fixed points -/

theorem alnum_append_underscore (p : Name) : alnum (p ++ ['_']) = alnum p := by
  simp [alnum, cls_underscore]

theorem alnum_suffix (cfg : Cfg) (p : Name) : alnum (suffix cfg p) = alnum p := by
  rcases suffix_cases cfg p with ⟨_, e⟩ | ⟨_, e⟩ <;> rw [e]
  exact alnum_append_underscore p

theorem alnum_lstripU (n : Name) : alnum (lstripU n) = alnum n := by
  induction n with
  | nil => rfl
  | cons c cs ih =>
    by_cases h : c = '_'
    · subst h; rw [lstripU_underscore, ih]; simp [alnum, cls_underscore]
    · rw [lstripU_of_ne cs h]

theorem fallbackFires_iff (cfg : Cfg) (n : Name) :
    fallbackFires cfg n = true ↔ allUnderscore n = true ∧ (cfg.snake = true ∨ cfg.trim = true) := by
  simp [fallbackFires]

/-- every letter and digit is kept in order (lower-cased when snake-casing is on), unless the
    all-underscore fallback fires -/
theorem alnum_processName (cfg : Cfg) (n : Name) (h : fallbackFires cfg n = false) :
    alnum (processName cfg n) = if cfg.snake then lower (alnum n) else alnum n := by
  have hff : ¬ (allUnderscore n = true ∧ (cfg.snake = true ∨ cfg.trim = true)) := by
    intro hh; rw [(fallbackFires_iff cfg n).mpr hh] at h; exact absurd h (by simp)
  cases hs : cfg.snake
  · simp only [Bool.false_eq_true, if_false]
    cases n with
    | nil => rw [processName_eq]; simp [hs, suffix_nil, lstripU_nil, allUnderscore]
    | cons c r =>
      by_cases hc : c = '_'
      · subst hc
        cases ht : cfg.trim
        · rw [processName_plain cfg _ hs ht (by simp), alnum_suffix]
        · rw [processName_trim_lead cfg r hs ht]
          by_cases hl : lstripU r = []
          · exfalso; apply hff
            refine ⟨(allUnderscore_iff _).mpr ⟨by simp, ?_⟩, Or.inr ht⟩
            intro x hx
            rcases List.mem_cons.mp hx with rfl | hx
            · rfl
            · exact (lstripU_eq_nil_iff r).mp hl x hx
          · simp only [hl, if_false]
            rw [alnum_lstripU]; simp [alnum, cls_underscore]
      · rw [processName_trim_nolead cfg c r hs hc, alnum_suffix]
  · simp only [if_true]
    have hu : allUnderscore n = false := by
      cases hu : allUnderscore n
      · rfl
      · exact absurd ⟨hu, Or.inl hs⟩ hff
    rw [processName_snake cfg n hs hu, alnum_suffix, alnum_snake]

/-- when the fallback fires there was no letter or digit to keep -/
theorem fallback_processName (cfg : Cfg) (n : Name) (h : fallbackFires cfg n = true) :
    alnum n = [] ∧ processName cfg n = fallbackName := by
  obtain ⟨hu, hst⟩ := (fallbackFires_iff cfg n).mp h
  refine ⟨allUnderscore_alnum hu, ?_⟩
  cases hs : cfg.snake
  · have ht : cfg.trim = true := by rcases hst with h | h; rw [hs] at h; exact absurd h (by simp); exact h
    obtain ⟨hne, hall⟩ := (allUnderscore_iff n).mp hu
    cases n with
    | nil => exact absurd rfl hne
    | cons c r =>
      have hc : c = '_' := hall c (by simp)
      subst hc
      rw [processName_trim_lead cfg r hs ht]
      have : lstripU r = [] := (lstripU_eq_nil_iff r).mpr (fun x hx => hall x (by simp [hx]))
      simp [this]
  · exact processName_snake_allU cfg n hs hu

/-! ### identifiers -/

theorem word_cons (c : Char) (r : Name) : Word (c :: r) ↔ isWordChar c = true ∧ Word r := by
  simp [Word]

theorem word_append_underscore (p : Name) : Word (p ++ ['_']) ↔ Word p := by
  simp only [Word, List.mem_append, List.mem_singleton]
  constructor
  · intro h c hc; exact h c (Or.inl hc)
  · intro h c hc
    rcases hc with hc | rfl
    · exact h c hc
    · exact isWordChar_underscore

theorem pyIdent_cons (c : Char) (r : Name) :
    PyIdent (c :: r) ↔ (cls c = .U ∨ cls c = .L ∨ c = '_') ∧ Word r := Iff.rfl

theorem pyIdent_append_underscore (p : Name) (h : p ≠ []) : PyIdent (p ++ ['_']) ↔ PyIdent p := by
  cases p with
  | nil => exact absurd rfl h
  | cons c r => simp only [List.cons_append, pyIdent_cons, word_append_underscore]

theorem pyIdent_suffix (cfg : Cfg) (p : Name) (h : p ≠ []) : PyIdent (suffix cfg p) ↔ PyIdent p := by
  rcases suffix_cases cfg p with ⟨_, e⟩ | ⟨_, e⟩ <;> rw [e]
  exact pyIdent_append_underscore p h

theorem outOK_iff (cfg : Cfg) (o : Name) : OutOK cfg o ↔ PyIdent o ∧ suspect cfg o = false := by
  unfold OutOK
  constructor
  · rintro ⟨h1, h2, h3⟩
    refine ⟨h1, ?_⟩
    cases hs : suspect cfg o
    · rfl
    · rcases (suspect_iff cfg o).mp hs with h | ⟨hr, h⟩
      · exact absurd h h2
      · exact absurd h (h3 hr)
  · rintro ⟨h1, h2⟩
    refine ⟨h1, ?_, ?_⟩
    · intro hk; rw [(suspect_iff cfg o).mpr (Or.inl hk)] at h2; exact absurd h2 (by simp)
    · intro hr hk; rw [(suspect_iff cfg o).mpr (Or.inr ⟨hr, hk⟩)] at h2; exact absurd h2 (by simp)

theorem outOK_fallback (cfg : Cfg) : OutOK cfg fallbackName :=
  (outOK_iff cfg _).mpr ⟨fallback_pyident, suspect_fallback cfg⟩

theorem gname_word {n : Name} (h : GName n) : Word n := by
  cases n with
  | nil => exact absurd h (by simp [GName])
  | cons c r =>
    obtain ⟨hc, hr⟩ := h
    refine (word_cons c r).mpr ⟨?_, hr⟩
    rcases hc with e | e | e
    · exact isWordChar_of_cls (by simp [e])
    · exact isWordChar_of_cls (by simp [e])
    · subst e; exact isWordChar_underscore

theorem wordChar_cases {c : Char} (h : isWordChar c = true) : cls c ≠ .O ∨ c = '_' := by
  simp only [isWordChar, Bool.or_eq_true, bne_iff_ne, ne_eq, beq_iff_eq] at h
  exact h

/-- a word string that is not made of underscores only has a letter or digit -/
theorem alnum_ne_nil_of_word {n : Name} (hw : Word n) (hu : ¬ ∀ c ∈ n, c = '_') : alnum n ≠ [] := by
  intro ha
  apply hu
  intro c hc
  rcases wordChar_cases (hw c hc) with h | h
  · exfalso
    have : c ∈ alnum n := List.mem_filter.mpr ⟨hc, by simp [h]⟩
    rw [ha] at this; simp at this
  · exact h

theorem word_lstripU {n : Name} (h : Word n) : Word (lstripU n) := fun c hc => h c (lstripU_mem hc)

/-- a word-string tail that starts with a non-underscore is an identifier iff it does not start with a digit -/
theorem pyIdent_of_word_ne {c : Char} {r : Name} (hw : Word (c :: r)) (hc : c ≠ '_') :
    PyIdent (c :: r) ↔ cls c ≠ .D := by
  obtain ⟨h1, h2⟩ := (word_cons c r).mp hw
  have hO : cls c ≠ .O := by
    rcases wordChar_cases h1 with h | h
    · exact h
    · exact absurd h hc
  rw [pyIdent_cons]
  constructor
  · rintro ⟨h | h | h, _⟩
    · simp [h]
    · simp [h]
    · exact absurd h hc
  · intro hD
    refine ⟨?_, h2⟩
    cases hcl : cls c
    · exact Or.inl rfl
    · exact Or.inr (Or.inl rfl)
    · exact absurd hcl hD
    · exact absurd hcl hO


/-! ### fixed points -/

theorem fallback_allU : allUnderscore fallbackName = false := by decide +kernel
theorem fallback_snake_facts :
    snake fallbackName ∉ kwlistC ++ reservedC ∧ snake fallbackName ≠ fallbackName := by decide +kernel

theorem fallback_cons : ∃ c r, fallbackName = c :: r ∧ c ≠ '_' := by
  cases h : fallbackName with
  | nil => exact absurd h fallback_ne_nil
  | cons c r =>
    refine ⟨c, r, rfl, ?_⟩
    intro e; subst e
    have := fallback_head; rw [h] at this; simp at this

theorem suffix_eq_self_iff (cfg : Cfg) (p : Name) : suffix cfg p = p ↔ suspect cfg p = false := by
  rcases suffix_cases cfg p with ⟨h, e⟩ | ⟨h, e⟩
  · simp [h, e]
  · rw [e, h]; simp

theorem suffix_of_not_suspect (cfg : Cfg) {p : Name} (h : suspect cfg p = false) : suffix cfg p = p :=
  (suffix_eq_self_iff cfg p).mpr h

/-- with snake-casing on, the fallback literal is not a fixed point -/
theorem processName_fallback_snake (cfg : Cfg) (hs : cfg.snake = true) :
    processName cfg fallbackName ≠ fallbackName := by
  rw [processName_snake cfg _ hs fallback_allU]
  have hns : suspect cfg (snake fallbackName) = false := by
    cases h : suspect cfg (snake fallbackName)
    · rfl
    · exfalso; apply fallback_snake_facts.1
      rcases (suspect_iff cfg _).mp h with h | ⟨_, h⟩ <;> simp [h]
  rw [suffix_of_not_suspect cfg hns]
  exact fallback_snake_facts.2

/-- with snake-casing off, the fallback literal is a fixed point -/
theorem processName_fallback_plain (cfg : Cfg) (hs : cfg.snake = false) :
    processName cfg fallbackName = fallbackName := by
  obtain ⟨c, r, e, hc⟩ := fallback_cons
  have h := processName_trim_nolead cfg c r hs hc
  rw [← e] at h
  rw [h, suffix_of_not_suspect cfg (suspect_fallback cfg)]

/-- with snake-casing on, every output other than the fallback is a fixed point -/
theorem processName_snake_fixed (cfg : Cfg) (n : Name) (hs : cfg.snake = true) (hu : allUnderscore n = false)
    (ha : alnum n ≠ []) : processName cfg (processName cfg n) = processName cfg n := by
  rw [processName_snake cfg n hs hu]
  rcases snake_head n with ⟨h1, _⟩ | ⟨a, as, r, h1, h2⟩
  · exact absurd h1 ha
  · have haO : cls a ≠ .O := by
      have : a ∈ alnum n := by rw [h1]; simp
      simpa [alnum] using (List.mem_filter.mp this).2
    have hne : lowerChar a ≠ '_' := ne_underscore_of_cls (cls_lowerChar_ne_O haO)
    obtain ⟨r', hr'⟩ := suffix_head cfg (lowerChar a) r
    have hq : suffix cfg (snake n) = lowerChar a :: r' := by rw [h2, hr']
    have hu2 : allUnderscore (suffix cfg (snake n)) = false := by
      rw [hq]; exact allUnderscore_cons_false r' hne
    rw [processName_snake cfg _ hs hu2]
    have : snake (suffix cfg (snake n)) = snake n := by
      rcases suffix_cases cfg (snake n) with ⟨_, e⟩ | ⟨_, e⟩
      · rw [e, snake_idem]
      · rw [e, snake_append_underscore, snake_idem]
    rw [this]


/-! ## Part 6: when do two names get the same Python name? -/

theorem tables_not_fallback_stem : ∀ k ∈ kwlistC ++ reservedC, k ++ ['_'] ≠ fallbackName := by decide +kernel

theorem suspect_fallback_stem (cfg : Cfg) (p : Name) (h : p ++ ['_'] = fallbackName) : suspect cfg p = false := by
  cases hs : suspect cfg p
  · rfl
  · exfalso
    refine tables_not_fallback_stem p ?_ h
    rcases (suspect_iff cfg _).mp hs with h | ⟨_, h⟩ <;> simp [h]

theorem suffix_eq_cases (cfg : Cfg) (p q : Name) (h : suffix cfg p = suffix cfg q) :
    p = q ∨ (suspect cfg q = true ∧ p = q ++ ['_']) ∨ (suspect cfg p = true ∧ q = p ++ ['_']) := by
  rcases suffix_cases cfg p with ⟨hp, ep⟩ | ⟨hp, ep⟩ <;> rcases suffix_cases cfg q with ⟨hq, eq⟩ | ⟨hq, eq⟩
  · left; rw [ep, eq] at h; exact h
  · right; left; rw [ep, eq] at h; exact ⟨hq, h⟩
  · right; right; rw [ep, eq] at h; exact ⟨hp, h.symm⟩
  · left; rw [ep, eq] at h; exact List.append_cancel_right h

theorem suffix_of_suspect (cfg : Cfg) {p : Name} (h : suspect cfg p = true) : suffix cfg p = p ++ ['_'] := by
  rcases suffix_cases cfg p with ⟨hp, _⟩ | ⟨_, e⟩
  · rw [h] at hp; exact absurd hp (by simp)
  · exact e

theorem append_eq_snoc_underscore (a b x : Name) (hb : b ≠ []) (e : a ++ b = x ++ ['_']) : ∃ y, b = y ++ ['_'] := by
  induction a generalizing x with
  | nil => exact ⟨x, by simpa using e⟩
  | cons c a ih =>
    cases x with
    | nil =>
      simp only [List.cons_append, List.nil_append, List.cons.injEq] at e
      have : b = [] := (List.append_eq_nil_iff.mp e.2).2
      exact absurd this hb
    | cons c' x' =>
      simp only [List.cons_append, List.cons.injEq] at e
      exact ih x' e.2

/-- `"_".join` of canonical words does not end with an underscore -/
theorem joinU_not_trailing (ws : List Name) (h : ∀ w ∈ ws, CanonWord w) (x : Name) : joinU ws ≠ x ++ ['_'] := by
  induction ws generalizing x with
  | nil => simp [joinU]
  | cons w ws ih =>
    have hw := h w (by simp)
    cases ws with
    | nil =>
      simp only [joinU]
      intro e
      have hm : '_' ∈ w := by rw [e]; simp
      exact canon_noO hw '_' hm cls_underscore
    | cons w2 ws' =>
      simp only [joinU]
      intro e
      have h2 := ih (fun y hy => h y (by simp [hy]))
      -- the last character of the right part is the last character of the whole
      have hne : joinU (w2 :: ws') ≠ [] := by
        have h2w := h w2 (by simp)
        cases w2 with
        | nil => exact absurd rfl h2w.1
        | cons c t => obtain ⟨r, hr⟩ := joinU_cons_head c t ws'; rw [hr]; simp
      have e' : w ++ '_' :: joinU (w2 :: ws') = (w ++ ['_']) ++ joinU (w2 :: ws') := by simp
      rw [e'] at e
      obtain ⟨y, hy⟩ := append_eq_snoc_underscore _ _ _ hne e
      exact h2 y hy

theorem snake_not_trailing (s x : Name) : snake s ≠ x ++ ['_'] :=
  joinU_not_trailing _ (snakeWords_canon s) x


theorem gname_ne_nil {n : Name} (h : GName n) : n ≠ [] := by
  intro e; subst e; simp [GName] at h

theorem allUnderscore_iff_snake_nil {n : Name} (h : GName n) : allUnderscore n = true ↔ snake n = [] := by
  constructor
  · intro hu; exact (snake_eq_nil_iff n).mpr (allUnderscore_alnum hu)
  · intro hs
    have ha := (snake_eq_nil_iff n).mp hs
    apply (allUnderscore_iff n).mpr
    refine ⟨gname_ne_nil h, ?_⟩
    intro c hc
    cases hall : decide (∀ c ∈ n, c = '_')
    · exact absurd ha (alnum_ne_nil_of_word (gname_word h) (by simpa using hall))
    · exact (of_decide_eq_true hall) c hc

theorem fallback_ne_suffix_snake (cfg : Cfg) (s : Name) : suffix cfg (snake s) ≠ fallbackName := by
  intro e
  rcases suffix_cases cfg (snake s) with ⟨_, e1⟩ | ⟨h1, e1⟩
  · rw [e1] at e
    have := snake_idem s
    rw [e] at this
    exact fallback_snake_facts.2 this
  · rw [e1] at e
    rw [suspect_fallback_stem cfg _ e] at h1; exact absurd h1 (by simp)

/-- snake-casing on: two GraphQL names get the same Python name iff they have the same lower-cased words -/
theorem collide_snake (cfg : Cfg) (hs : cfg.snake = true) (a b : Name) (ha : GName a) (hb : GName b) :
    processName cfg a = processName cfg b ↔ snake a = snake b := by
  cases hua : allUnderscore a <;> cases hub : allUnderscore b
  · rw [processName_snake cfg a hs hua, processName_snake cfg b hs hub]
    constructor
    · intro h
      rcases suffix_eq_cases cfg _ _ h with e | ⟨_, e⟩ | ⟨_, e⟩
      · exact e
      · exact absurd e (snake_not_trailing a _)
      · exact absurd e (snake_not_trailing b _)
    · intro h; rw [h]
  · rw [processName_snake cfg a hs hua, processName_snake_allU cfg b hs hub]
    have hb0 := (allUnderscore_iff_snake_nil hb).mp hub
    have ha0 : snake a ≠ [] := fun e => by
      have := (allUnderscore_iff_snake_nil ha).mpr e; rw [hua] at this; exact absurd this (by simp)
    constructor
    · intro h; exact absurd h (fallback_ne_suffix_snake cfg a)
    · intro h; rw [hb0] at h; exact absurd h ha0
  · rw [processName_snake_allU cfg a hs hua, processName_snake cfg b hs hub]
    have ha0 := (allUnderscore_iff_snake_nil ha).mp hua
    have hb0 : snake b ≠ [] := fun e => by
      have := (allUnderscore_iff_snake_nil hb).mpr e; rw [hub] at this; exact absurd this (by simp)
    constructor
    · intro h; exact absurd h.symm (fallback_ne_suffix_snake cfg b)
    · intro h; rw [ha0] at h; exact absurd h.symm hb0
  · rw [processName_snake_allU cfg a hs hua, processName_snake_allU cfg b hs hub,
      (allUnderscore_iff_snake_nil ha).mp hua, (allUnderscore_iff_snake_nil hb).mp hub]
    simp

/-- snake-casing off, no trimming: only a keyword/reserved name and its suffixed form meet -/
theorem collide_plain (cfg : Cfg) (hs : cfg.snake = false) (ht : cfg.trim = false) (a b : Name)
    (ha : a ≠ []) (hb : b ≠ []) :
    processName cfg a = processName cfg b ↔
      (a = b ∨ (suspect cfg b = true ∧ a = b ++ ['_']) ∨ (suspect cfg a = true ∧ b = a ++ ['_'])) := by
  rw [processName_plain cfg a hs ht ha, processName_plain cfg b hs ht hb]
  constructor
  · exact suffix_eq_cases cfg a b
  · rintro (e | ⟨h, e⟩ | ⟨h, e⟩)
    · rw [e]
    · rw [e, suffix_of_suspect cfg h, suffix_of_not_suspect cfg (suspect_append_underscore cfg b h)]
    · rw [e, suffix_of_suspect cfg h, suffix_of_not_suspect cfg (suspect_append_underscore cfg a h)]


/-! ### snake-casing off, trimming on -/

/-- the three kinds of non-empty names under trimming -/
theorem kind_cases (x : Name) (hx : x ≠ []) :
    (allUnderscore x = true ∧ lstripU x = [] ∧ x ≠ lstripU x ∧ (∀ cfg, suspect cfg x = false)) ∨
    (allUnderscore x = false ∧ lstripU x ≠ [] ∧ x ≠ lstripU x ∧ (∀ cfg, suspect cfg x = false)) ∨
    (allUnderscore x = false ∧ x = lstripU x) := by
  cases x with
  | nil => exact absurd rfl hx
  | cons c r =>
    by_cases hc : c = '_'
    · subst hc
      have hne : ('_' :: r) ≠ lstripU ('_' :: r) := by
        rw [lstripU_underscore]
        intro e
        have hm : ('_' : Char) ∈ lstripU r := by rw [← e]; simp
        rcases lstripU_shape r with h | ⟨d, r', h, hd⟩
        · rw [h] at hm; simp at hm
        · have e' := e; rw [h] at e'; injection e' with e1 _; exact hd e1.symm
      by_cases hl : lstripU r = []
      · left
        refine ⟨?_, by rw [lstripU_underscore]; exact hl, hne, fun cfg => suspect_lead_underscore cfg r⟩
        apply (allUnderscore_iff _).mpr
        refine ⟨by simp, ?_⟩
        intro x hx'
        rcases List.mem_cons.mp hx' with rfl | hx'
        · rfl
        · exact (lstripU_eq_nil_iff r).mp hl x hx'
      · right; left
        refine ⟨?_, by rw [lstripU_underscore]; exact hl, hne, fun cfg => suspect_lead_underscore cfg r⟩
        cases hu : allUnderscore ('_' :: r)
        · rfl
        · exfalso; apply hl
          apply (lstripU_eq_nil_iff r).mpr
          intro x hx'; exact ((allUnderscore_iff _).mp hu).2 x (by simp [hx'])
    · right; right
      exact ⟨allUnderscore_cons_false r hc, (lstripU_of_ne r hc).symm⟩

theorem processName_trim (cfg : Cfg) (hs : cfg.snake = false) (ht : cfg.trim = true) (x : Name) (hx : x ≠ []) :
    processName cfg x =
      if allUnderscore x = true then fallbackName else if x = lstripU x then suffix cfg x else lstripU x := by
  cases x with
  | nil => exact absurd rfl hx
  | cons c r =>
    by_cases hc : c = '_'
    · subst hc
      rw [processName_trim_lead cfg r hs ht]
      rcases kind_cases ('_' :: r) (by simp) with ⟨h1, h2, h3, _⟩ | ⟨h1, h2, h3, _⟩ | ⟨_, h2⟩
      · rw [lstripU_underscore] at h2; simp [h1, h2]
      · have h2' := h2; rw [lstripU_underscore] at h2'
        simp only [h1, h2', if_false, Bool.false_eq_true]
        rw [if_neg h3, lstripU_underscore]
      · exfalso
        rw [lstripU_underscore] at h2
        have hm : ('_' : Char) ∈ lstripU r := by rw [← h2]; simp
        rcases lstripU_shape r with h | ⟨d, r', h, hd⟩
        · rw [h] at hm; simp at hm
        · have e' := h2; rw [h] at e'; injection e' with e1 _; exact hd e1.symm
    · rw [processName_trim_nolead cfg c r hs hc]
      simp [allUnderscore_cons_false r hc, lstripU_of_ne r hc]

theorem suffix_eq_fallback_iff (cfg : Cfg) (b : Name) : suffix cfg b = fallbackName ↔ b = fallbackName := by
  constructor
  · intro h
    rcases suffix_cases cfg b with ⟨_, e⟩ | ⟨hsb, e⟩
    · rw [e] at h; exact h
    · rw [e] at h; rw [suspect_fallback_stem cfg b h] at hsb; exact absurd hsb (by simp)
  · intro h; rw [h]; exact suffix_of_not_suspect cfg (suspect_fallback cfg)

/-- the right-hand side of the characterisation under (snake off, trim on), as a proposition -/
def TrimRHS (cfg : Cfg) (a b : Name) : Prop :=
  a = b ∨
  (lstripU a = lstripU b ∧ ((a ≠ lstripU a ∧ b ≠ lstripU b) ∨ suspect cfg (lstripU a) = false)) ∨
  ((suspect cfg b = true ∧ lstripU a = b ++ ['_']) ∨ (suspect cfg a = true ∧ lstripU b = a ++ ['_'])) ∨
  ((allUnderscore a = true ∧ allUnderscore b = false ∧ lstripU b = fallbackName) ∨
   (allUnderscore b = true ∧ allUnderscore a = false ∧ lstripU a = fallbackName))

theorem TrimRHS_symm (cfg : Cfg) (a b : Name) : TrimRHS cfg a b → TrimRHS cfg b a := by
  rintro (h | ⟨h1, h2⟩ | (h | h) | (h | h))
  · exact Or.inl h.symm
  · refine Or.inr (Or.inl ⟨h1.symm, ?_⟩)
    rcases h2 with ⟨x, y⟩ | x
    · exact Or.inl ⟨y, x⟩
    · exact Or.inr (by rw [← h1]; exact x)
  · exact Or.inr (Or.inr (Or.inl (Or.inr h)))
  · exact Or.inr (Or.inr (Or.inl (Or.inl h)))
  · exact Or.inr (Or.inr (Or.inr (Or.inr h)))
  · exact Or.inr (Or.inr (Or.inr (Or.inl h)))

theorem collide_trim_aux (cfg : Cfg) (hs : cfg.snake = false) (ht : cfg.trim = true) (a b : Name)
    (ha : a ≠ []) (hb : b ≠ [])
    (horder : allUnderscore a = true ∨ (a ≠ lstripU a ∧ allUnderscore b = false) ∨ (a = lstripU a ∧ b = lstripU b)) :
    processName cfg a = processName cfg b ↔ TrimRHS cfg a b := by
  rw [processName_trim cfg hs ht a ha, processName_trim cfg hs ht b hb]
  rcases kind_cases a ha with ⟨a1, a2, a3, a4⟩ | ⟨a1, a2, a3, a4⟩ | ⟨a1, a2⟩ <;>
    rcases kind_cases b hb with ⟨b1, b2, b3, b4⟩ | ⟨b1, b2, b3, b4⟩ | ⟨b1, b2⟩
  · -- K1 K1
    simp only [a1, b1, if_true, true_iff]
    exact Or.inr (Or.inl ⟨by rw [a2, b2], Or.inl ⟨a3, b3⟩⟩)
  · -- K1 K2
    simp only [a1, b1, if_true, if_false, Bool.false_eq_true, if_neg b3]
    constructor
    · intro h; exact Or.inr (Or.inr (Or.inr (Or.inl ⟨a1, b1, h.symm⟩)))
    · rintro (h | ⟨h1, _⟩ | (⟨h, _⟩ | ⟨h, _⟩) | (⟨_, _, h⟩ | ⟨h, _⟩))
      · subst h; rw [a1] at b1; exact absurd b1 (by simp)
      · rw [a2] at h1; exact absurd h1.symm b2
      · rw [b4 cfg] at h; exact absurd h (by simp)
      · rw [a4 cfg] at h; exact absurd h (by simp)
      · exact h.symm
      · rw [b1] at h; exact absurd h (by simp)
  · -- K1 K3
    simp only [a1, b1, if_true, if_false, Bool.false_eq_true, if_pos b2]
    constructor
    · intro h
      have := (suffix_eq_fallback_iff cfg b).mp h.symm
      exact Or.inr (Or.inr (Or.inr (Or.inl ⟨a1, b1, by rw [← b2]; exact this⟩)))
    · rintro (h | ⟨h1, _⟩ | (⟨_, h⟩ | ⟨h, _⟩) | (⟨_, _, h⟩ | ⟨h, _⟩))
      · subst h; rw [a1] at b1; exact absurd b1 (by simp)
      · rw [a2, ← b2] at h1; exact absurd h1.symm hb
      · rw [a2] at h; exact absurd h (by simp)
      · rw [a4 cfg] at h; exact absurd h (by simp)
      · rw [← b2] at h; exact ((suffix_eq_fallback_iff cfg b).mpr h).symm
      · rw [b1] at h; exact absurd h (by simp)
  · -- K2 K1 (excluded by the ordering hypothesis)
    rcases horder with h | ⟨_, h⟩ | ⟨h, _⟩
    · rw [a1] at h; exact absurd h (by simp)
    · rw [b1] at h; exact absurd h (by simp)
    · exact absurd h a3
  · -- K2 K2
    simp only [a1, b1, if_false, Bool.false_eq_true, if_neg a3, if_neg b3]
    constructor
    · intro h; exact Or.inr (Or.inl ⟨h, Or.inl ⟨a3, b3⟩⟩)
    · rintro (h | ⟨h1, _⟩ | (⟨h, _⟩ | ⟨h, _⟩) | (⟨h, _⟩ | ⟨h, _⟩))
      · rw [h]
      · exact h1
      · rw [b4 cfg] at h; exact absurd h (by simp)
      · rw [a4 cfg] at h; exact absurd h (by simp)
      · rw [a1] at h; exact absurd h (by simp)
      · rw [b1] at h; exact absurd h (by simp)
  · -- K2 K3
    simp only [a1, b1, if_false, Bool.false_eq_true, if_neg a3, if_pos b2]
    constructor
    · intro h
      rcases suffix_cases cfg b with ⟨hsb, e⟩ | ⟨hsb, e⟩
      · rw [e] at h
        refine Or.inr (Or.inl ⟨by rw [← b2]; exact h, Or.inr (by rw [h]; exact hsb)⟩)
      · rw [e] at h
        exact Or.inr (Or.inr (Or.inl (Or.inl ⟨hsb, h⟩)))
    · rintro (h | ⟨h1, h2⟩ | (⟨h, e⟩ | ⟨h, _⟩) | (⟨h, _⟩ | ⟨h, _⟩))
      · subst h; exact absurd b2 a3
      · rw [← b2] at h1
        rcases h2 with ⟨_, h2⟩ | h2
        · exact absurd b2 h2
        · rw [h1] at h2; rw [suffix_of_not_suspect cfg h2]; exact h1
      · rw [suffix_of_suspect cfg h]; exact e
      · rw [a4 cfg] at h; exact absurd h (by simp)
      · rw [a1] at h; exact absurd h (by simp)
      · rw [b1] at h; exact absurd h (by simp)
  · -- K3 K1 (excluded)
    rcases horder with h | ⟨h, _⟩ | ⟨_, h⟩
    · rw [a1] at h; exact absurd h (by simp)
    · exact absurd a2 h
    · exact absurd h b3
  · -- K3 K2 (excluded)
    rcases horder with h | ⟨h, _⟩ | ⟨_, h⟩
    · rw [a1] at h; exact absurd h (by simp)
    · exact absurd a2 h
    · exact absurd h b3
  · -- K3 K3
    simp only [a1, b1, if_false, Bool.false_eq_true, if_pos a2, if_pos b2]
    constructor
    · intro h
      rcases suffix_eq_cases cfg a b h with e | ⟨h1, e⟩ | ⟨h1, e⟩
      · exact Or.inl e
      · exact Or.inr (Or.inr (Or.inl (Or.inl ⟨h1, by rw [← a2]; exact e⟩)))
      · exact Or.inr (Or.inr (Or.inl (Or.inr ⟨h1, by rw [← b2]; exact e⟩)))
    · rintro (h | ⟨h1, _⟩ | (⟨h, e⟩ | ⟨h, e⟩) | (⟨h, _⟩ | ⟨h, _⟩))
      · rw [h]
      · rw [← a2, ← b2] at h1; rw [h1]
      · rw [← a2] at e
        rw [e, suffix_of_suspect cfg h, suffix_of_not_suspect cfg (suspect_append_underscore cfg b h)]
      · rw [← b2] at e
        rw [e, suffix_of_suspect cfg h, suffix_of_not_suspect cfg (suspect_append_underscore cfg a h)]
      · rw [a1] at h; exact absurd h (by simp)
      · rw [b1] at h; exact absurd h (by simp)

/-- snake-casing off, trimming on: the complete characterisation -/
theorem collide_trim (cfg : Cfg) (hs : cfg.snake = false) (ht : cfg.trim = true) (a b : Name)
    (ha : a ≠ []) (hb : b ≠ []) :
    processName cfg a = processName cfg b ↔ TrimRHS cfg a b := by
  by_cases h : allUnderscore a = true ∨ (a ≠ lstripU a ∧ allUnderscore b = false) ∨ (a = lstripU a ∧ b = lstripU b)
  · exact collide_trim_aux cfg hs ht a b ha hb h
  · -- then the mirrored pair is ordered
    have h' : allUnderscore b = true ∨ (b ≠ lstripU b ∧ allUnderscore a = false) ∨ (b = lstripU b ∧ a = lstripU a) := by
      rcases kind_cases a ha with ⟨a1, _⟩ | ⟨a1, a2, a3, _⟩ | ⟨a1, a2⟩
      · exact absurd (Or.inl a1) h
      · cases hub : allUnderscore b
        · exact absurd (Or.inr (Or.inl ⟨a3, hub⟩)) h
        · exact Or.inl rfl
      · rcases kind_cases b hb with ⟨b1, _⟩ | ⟨b1, b2, b3, _⟩ | ⟨b1, b2⟩
        · exact Or.inl b1
        · exact Or.inr (Or.inl ⟨b3, a1⟩)
        · exact absurd (Or.inr (Or.inr ⟨a2, b2⟩)) h
    have := collide_trim_aux cfg hs ht b a hb ha h'
    constructor
    · intro e; exact TrimRHS_symm cfg b a (this.mp e.symm)
    · intro e; exact (this.mpr (TrimRHS_symm cfg a b e)).symm


/-! ## Part 7: scopes -/

theorem typename_tables :
    typenameAlias ∉ kwlistC ++ reservedC ∧ (∀ k ∈ kwlistC ++ reservedC, k ++ ['_'] ≠ typenameAlias) ∧
    typenameAlias ≠ fallbackName ∧ PyIdent typenameAlias ∧ GName typenameField ∧
    typenameAlias.dropLast.dropLast ++ ['_', '_'] = typenameAlias ∧ typenameAlias.head? ≠ some '_' ∧
    typenameAlias ≠ [] ∧ lstripU typenameField ≠ typenameAlias := by decide +kernel

theorem suspect_typenameAlias (cfg : Cfg) : suspect cfg typenameAlias = false := by
  cases hs : suspect cfg typenameAlias
  · rfl
  · exfalso; apply typename_tables.1
    rcases (suspect_iff cfg _).mp hs with h | ⟨_, h⟩ <;> simp [h]

theorem suffix_eq_typenameAlias_iff (cfg : Cfg) (x : Name) : suffix cfg x = typenameAlias ↔ x = typenameAlias := by
  constructor
  · intro h
    rcases suffix_cases cfg x with ⟨_, e⟩ | ⟨hsx, e⟩
    · rw [e] at h; exact h
    · rw [e] at h
      exfalso
      refine typename_tables.2.1 x ?_ h
      rcases (suspect_iff cfg _).mp hsx with h | ⟨_, h⟩ <;> simp [h]
  · intro h; rw [h]; exact suffix_of_not_suspect cfg (suspect_typenameAlias cfg)

/-- with snake-casing on nothing is mapped to `typename__` (snake-cased names do not end in `_`) -/
theorem processName_snake_ne_typenameAlias (cfg : Cfg) (hs : cfg.snake = true) (x : Name) :
    processName cfg x ≠ typenameAlias := by
  have hform := typename_tables.2.2.2.2.2.1
  cases hu : allUnderscore x
  · rw [processName_snake cfg x hs hu]
    intro h
    rcases suffix_cases cfg (snake x) with ⟨_, e⟩ | ⟨_, e⟩
    · rw [e, ← hform] at h
      exact snake_not_trailing x (typenameAlias.dropLast.dropLast ++ ['_']) (by rw [h]; simp)
    · rw [e, ← hform] at h
      have : snake x = typenameAlias.dropLast.dropLast ++ ['_'] := by
        have h' : snake x ++ ['_'] = (typenameAlias.dropLast.dropLast ++ ['_']) ++ ['_'] := by rw [h]; simp
        exact List.append_cancel_right h'
      exact snake_not_trailing x _ this
  · rw [processName_snake_allU cfg x hs hu]
    exact fun h => typename_tables.2.2.1 h.symm

/-- with snake-casing off and trimming on, exactly the names that strip to `typename__` are mapped to it -/
theorem processName_trim_eq_typenameAlias_iff (cfg : Cfg) (hs : cfg.snake = false) (ht : cfg.trim = true)
    (x : Name) (hx : x ≠ []) : processName cfg x = typenameAlias ↔ lstripU x = typenameAlias := by
  rw [processName_trim cfg hs ht x hx]
  rcases kind_cases x hx with ⟨a1, a2, a3, _⟩ | ⟨a1, a2, a3, _⟩ | ⟨a1, a2⟩
  · simp only [a1, if_true, a2]
    constructor
    · intro h; exact absurd h.symm typename_tables.2.2.1
    · intro h; exact absurd h.symm typename_tables.2.2.2.2.2.2.2.1
  · simp only [a1, if_false, Bool.false_eq_true, if_neg a3]
  · simp only [a1, if_false, Bool.false_eq_true, if_pos a2]
    rw [suffix_eq_typenameAlias_iff, ← a2]

theorem suffixKw_eq_processName (n : Name) (hn : n ≠ []) : suffixKw n = processName ⟨false, false, false⟩ n := by
  rw [processName_plain ⟨false, false, false⟩ n rfl rfl hn]
  simp [suffix, suffixRes]

theorem pyName_eq (sn : Bool) (s : Scope) (n : Name) (hn : n ≠ []) (h : ¬ (s = .resultField ∧ n = typenameField)) :
    pyName sn s n = processName (scopeCfg sn s) n := by
  cases s
  · have : n ≠ typenameField := fun e => h ⟨rfl, e⟩
    simp [pyName, scopeCfg, this]
  · rfl
  · rfl
  · rfl
  · exact suffixKw_eq_processName n hn

theorem pyName_typename (sn : Bool) : pyName sn .resultField typenameField = typenameAlias := by
  simp [pyName]

theorem nodup_map_of_inj {α β : Type} (f : α → β) (l : List α) (hl : l.Nodup)
    (h : ∀ a ∈ l, ∀ b ∈ l, f a = f b → a = b) : (l.map f).Nodup := by
  unfold List.Nodup at *
  rw [List.pairwise_map]
  exact hl.imp_of_mem (fun ha hb hne e => hne (h _ ha _ hb e))

theorem inj_of_nodup_map {α β : Type} (f : α → β) (l : List α) (h : (l.map f).Nodup) :
    ∀ a ∈ l, ∀ b ∈ l, f a = f b → a = b := by
  induction l with
  | nil => intro a ha; simp at ha
  | cons x xs ih =>
    simp only [List.map_cons, List.nodup_cons, List.mem_map, not_exists, not_and] at h
    intro a ha b hb e
    rcases List.mem_cons.mp ha with ea | ha' <;> rcases List.mem_cons.mp hb with eb | hb'
    · rw [ea, eb]
    · rw [ea] at e; exact absurd e.symm (h.1 b hb')
    · rw [eb] at e; exact absurd e (h.1 a ha')
    · exact ih h.2 a ha' b hb' e


/-! ## Part 8: `str_to_pascal_case` -/

theorem lowers_upper_facts : ∀ c ∈ lowers, cls (upperChar c) = .U ∧ lowerChar (upperChar c) = c ∧ upperChar c ≠ '_' ∧
    upperChar (upperChar c) = upperChar c := by decide

theorem cls_L_iff (c : Char) : cls c = .L ↔ c ∈ lowers ∧ c ∉ uppers := by
  rcases cls_spec c with ⟨h, e⟩ | ⟨h, h2, e⟩ | ⟨h, h2, _, e⟩ | ⟨h, h2, _, e⟩ <;> simp [h, e, *]

theorem lowers_not_uppers : ∀ c ∈ lowers, c ∉ uppers := by decide

theorem upperChar_of_not_lower {c : Char} (h : c ∉ lowers) : upperChar c = c := by
  simp [upperChar, h]

theorem upperChar_ne_underscore {c : Char} (h : c ≠ '_') : upperChar c ≠ '_' := by
  by_cases hl : c ∈ lowers
  · exact (lowers_upper_facts c hl).2.2.1
  · rw [upperChar_of_not_lower hl]; exact h

theorem upperChar_idem (c : Char) : upperChar (upperChar c) = upperChar c := by
  by_cases hl : c ∈ lowers
  · exact (lowers_upper_facts c hl).2.2.2
  · rw [upperChar_of_not_lower hl, upperChar_of_not_lower hl]

theorem lowerChar_upperChar (c : Char) : lowerChar (upperChar c) = lowerChar c := by
  by_cases hl : c ∈ lowers
  · rw [(lowers_upper_facts c hl).2.1]
    have : cls c ≠ .U := by
      intro h; exact lowers_not_uppers c hl ((cls_U_iff c).mp h)
    exact (lowerChar_of_not_U this).symm
  · rw [upperChar_of_not_lower hl]

theorem cls_upperChar (c : Char) : cls (upperChar c) = (match cls c with | .L => .U | k => k) := by
  by_cases hl : c ∈ lowers
  · have hL : cls c = .L := (cls_L_iff c).mpr ⟨hl, lowers_not_uppers c hl⟩
    rw [hL, (lowers_upper_facts c hl).1]
  · rw [upperChar_of_not_lower hl]
    have : cls c ≠ .L := fun h => hl ((cls_L_iff c).mp h).1
    cases hc : cls c <;> simp_all

theorem splitU_ne_nil (s : Name) : splitU s ≠ [] := by
  cases s with
  | nil => simp [splitU]
  | cons c cs =>
    unfold splitU
    by_cases h : c = '_'
    · simp [h]
    · simp only [h, if_false]; split <;> simp

theorem pascal_underscore (cs : Name) : pascal ('_' :: cs) = pascal cs := by
  simp [pascal, splitU, capitalize]

theorem pascal_cons {c : Char} (cs : Name) (h : c ≠ '_') :
    ∃ p ps, splitU cs = p :: ps ∧ pascal (c :: cs) = upperChar c :: (p ++ (ps.map capitalize).flatten) := by
  cases hs : splitU cs with
  | nil => exact absurd hs (splitU_ne_nil cs)
  | cons p ps =>
    refine ⟨p, ps, rfl, ?_⟩
    simp [pascal, splitU, h, hs, capitalize]

theorem pascal_lstripU (n : Name) : pascal (lstripU n) = pascal n := by
  induction n with
  | nil => rfl
  | cons c cs ih =>
    by_cases h : c = '_'
    · subst h; rw [lstripU_underscore, pascal_underscore, ih]
    · rw [lstripU_of_ne cs h]

/-- no piece of `split("_")` contains an underscore -/
theorem splitU_no_underscore (s : Name) : ∀ p ∈ splitU s, '_' ∉ p := by
  induction s with
  | nil => intro p hp; simp [splitU] at hp; subst hp; simp
  | cons c cs ih =>
    unfold splitU
    by_cases h : c = '_'
    · simp only [h, if_true]
      intro p hp
      rcases List.mem_cons.mp hp with rfl | hp
      · simp
      · exact ih p hp
    · simp only [h, if_false]
      cases hs : splitU cs with
      | nil => exact absurd hs (splitU_ne_nil cs)
      | cons p ps =>
        intro q hq
        rcases List.mem_cons.mp hq with rfl | hq
        · intro hm
          rcases List.mem_cons.mp hm with e | hm
          · exact h e.symm
          · exact ih p (by rw [hs]; simp) hm
        · exact ih q (by rw [hs]; simp [hq])

/-- the pieces, concatenated, are the name without its underscores -/
theorem splitU_flatten (s : Name) : (splitU s).flatten = s.filter (· != '_') := by
  induction s with
  | nil => rfl
  | cons c cs ih =>
    unfold splitU
    by_cases h : c = '_'
    · simp [h, ih]
    · simp only [h, if_false]
      cases hs : splitU cs with
      | nil => exact absurd hs (splitU_ne_nil cs)
      | cons p ps =>
        rw [hs] at ih
        simp [h, ← ih]

theorem capitalize_no_underscore {p : Name} (h : '_' ∉ p) : '_' ∉ capitalize p := by
  cases p with
  | nil => simp [capitalize]
  | cons c cs =>
    simp only [capitalize, List.mem_cons, not_or] at h ⊢
    exact ⟨fun e => upperChar_ne_underscore (fun e' => h.1 e'.symm) e.symm, h.2⟩

theorem pascal_no_underscore (s : Name) : '_' ∉ pascal s := by
  unfold pascal
  intro hm
  obtain ⟨q, hq, hm⟩ := List.mem_flatten.mp hm
  obtain ⟨p, hp, rfl⟩ := List.mem_map.mp hq
  exact capitalize_no_underscore (splitU_no_underscore s p hp) hm

theorem splitU_of_no_underscore {s : Name} (h : '_' ∉ s) : splitU s = [s] := by
  induction s with
  | nil => rfl
  | cons c cs ih =>
    simp only [List.mem_cons, not_or] at h
    have hc : c ≠ '_' := fun e => h.1 e.symm
    unfold splitU
    simp [hc, ih h.2]

theorem capitalize_idem (p : Name) : capitalize (capitalize p) = capitalize p := by
  cases p <;> simp [capitalize, upperChar_idem]

theorem capitalize_flatten_head (ps : List Name) :
    capitalize ((ps.map capitalize).flatten) = (ps.map capitalize).flatten := by
  induction ps with
  | nil => rfl
  | cons p ps ih =>
    cases p with
    | nil => simpa [capitalize] using ih
    | cons c cs => simp [capitalize, upperChar_idem]

/-- `str_to_pascal_case` is idempotent (every name) -/
theorem pascal_idem (s : Name) : pascal (pascal s) = pascal s := by
  have h := splitU_of_no_underscore (pascal_no_underscore s)
  have e : pascal (pascal s) = ((splitU (pascal s)).map capitalize).flatten := rfl
  rw [e, h]
  simp only [List.map_cons, List.map_nil, List.flatten_cons, List.flatten_nil, List.append_nil]
  exact capitalize_flatten_head _

theorem lower_alnum_capitalize (p : Name) : lower (alnum (capitalize p)) = lower (alnum p) := by
  cases p with
  | nil => rfl
  | cons c cs =>
    have hcls : (cls (upperChar c) = .O) ↔ (cls c = .O) := by
      rw [cls_upperChar]; cases cls c <;> simp
    by_cases h : cls c = .O
    · have h' := hcls.mpr h
      simp [capitalize, alnum, h, h']
    · have h' : cls (upperChar c) ≠ .O := fun e => h (hcls.mp e)
      simp [capitalize, alnum, h, h', lower, lowerChar_upperChar]

theorem lower_append (a b : Name) : lower (a ++ b) = lower a ++ lower b := by simp [lower]

theorem lower_alnum_flatten_capitalize (ps : List Name) :
    lower (alnum ((ps.map capitalize).flatten)) = lower (alnum ps.flatten) := by
  induction ps with
  | nil => rfl
  | cons p ps ih =>
    simp only [List.map_cons, List.flatten_cons, alnum_append, lower_append, ih, lower_alnum_capitalize]

theorem alnum_filter_underscore (s : Name) : alnum (s.filter (· != '_')) = alnum s := by
  induction s with
  | nil => rfl
  | cons c cs ih =>
    by_cases h : c = '_'
    · subst h; simp [alnum, cls_underscore] at ih ⊢; exact ih
    · simp only [List.filter_cons, bne_iff_ne, ne_eq, h, not_false_eq_true, decide_true, if_true]
      simp only [alnum, List.filter_cons] at ih ⊢
      rw [ih]

/-- `alnum_preserved` for `str_to_pascal_case`: letters and digits kept in order, up to case -/
theorem lower_alnum_pascal (s : Name) : lower (alnum (pascal s)) = lower (alnum s) := by
  unfold pascal
  rw [lower_alnum_flatten_capitalize, splitU_flatten, alnum_filter_underscore]

theorem word_pascal {s : Name} (h : Word s) : Word (pascal s) := by
  intro c hc
  unfold pascal at hc
  obtain ⟨q, hq, hm⟩ := List.mem_flatten.mp hc
  obtain ⟨p, hp, rfl⟩ := List.mem_map.mp hq
  have hsub : ∀ x ∈ p, x ∈ s := by
    intro x hx
    have : x ∈ (splitU s).flatten := List.mem_flatten.mpr ⟨p, hp, hx⟩
    rw [splitU_flatten] at this
    exact (List.mem_filter.mp this).1
  cases p with
  | nil => simp [capitalize] at hm
  | cons d ds =>
    simp only [capitalize, List.mem_cons] at hm
    rcases hm with rfl | hm
    · rcases wordChar_cases (h d (hsub d (by simp))) with hd | hd
      · apply isWordChar_of_cls; rw [cls_upperChar]; cases hcd : cls d <;> simp_all
      · subst hd; exact absurd (by simp) (splitU_no_underscore s _ hp)
    · exact h c (hsub c (by simp [hm]))

/-- for a GraphQL name: the class name is an identifier iff there is a letter or digit and the first one is not a digit -/
theorem pyIdent_pascal_iff {n : Name} (hg : GName n) :
    PyIdent (pascal n) ↔ (allUnderscore n = false ∧ cls1 (lstripU n) ≠ .D) := by
  have hw := gname_word hg
  rw [← pascal_lstripU]
  rcases lstripU_shape n with hl | ⟨c, r, hl, hc⟩
  · have hu : allUnderscore n = true :=
      (allUnderscore_iff n).mpr ⟨gname_ne_nil hg, (lstripU_eq_nil_iff n).mp hl⟩
    rw [hl]; simp [hu, pascal, splitU, capitalize, PyIdent, GName]
  · have hu : allUnderscore n = false := by
      cases h : allUnderscore n
      · rfl
      · have := (lstripU_eq_nil_iff n).mpr ((allUnderscore_iff n).mp h).2
        rw [hl] at this; exact absurd this (by simp)
    rw [hl]
    obtain ⟨p, ps, _, hp⟩ := pascal_cons r hc
    have hwl : Word (c :: r) := by rw [← hl]; exact word_lstripU hw
    have hwp : Word (pascal (c :: r)) := word_pascal hwl
    rw [hp] at hwp ⊢
    rw [pyIdent_of_word_ne hwp (upperChar_ne_underscore hc), cls_upperChar]
    simp only [hu, cls1, true_and]
    cases hcc : cls c <;> simp

end Ariadne.Names
