/-
  C14 — the behaviour of `get_formatted_variables` BEFORE the repair dfbc7ef (finding C14-F2, fixed),
  kept as a small separate model so that the regression has a machine-checked description:

      get_formatted_variables():                       # until dfbc7ef~1
          d = self.formatted_variables.copy()
          for s in _subfields:            s.get_formatted_variables(); d.update(s.formatted_variables)
          for subs in _inline_fragments.values():
              for s in subs:              s.get_formatted_variables(); d.update(s.formatted_variables)
          return d                         # the recursive result is DISCARDED: only depth <= 2 survives

  Nothing in the current model or in the theorems about it depends on this file; `Properties/C14.lean`
  uses it for one statement: on the F2 witness the old code sends a document that uses an undeclared
  variable (so a re-introduction of the defect cannot satisfy the property).
-/
import AriadneModel.Spec.BuilderDoc

namespace Ariadne.C14.Old
open Ariadne Ariadne.Builder Ariadne.CustomGen Ariadne.BuilderDoc

/-- `node.formatted_variables` of a (possibly shared) object -/
def nodeFormatted (st : Store) : Node → List FVar
  | .obj r _ _ => r.formatted
  | .ref id =>
    match st[id]? with
    | some (.obj r _ _) => r.formatted
    | _ => []

def fragNodes : Frag → List Node
  | .mk _ ns => ns

def getFormattedOf (st : Store) (r : Rec) (subs : List Node) (frags : List Frag) : List FVar :=
  let d1 := subs.foldl (fun d c => dictUpdateAll d (nodeFormatted st c)) r.formatted
  frags.foldl (fun d f => (fragNodes f).foldl (fun d c => dictUpdateAll d (nodeFormatted st c)) d) d1

def getFormatted (st : Store) : Node → List FVar
  | .obj r subs frags => getFormattedOf st r subs frags
  | .ref id =>
    match st[id]? with
    | some (.obj r subs frags) => getFormattedOf st r subs frags
    | _ => []

def combine (st : Store) (nodes : List Node) : List FVar :=
  nodes.foldl (fun d n => dictUpdateAll d (getFormatted st n)) []

def execOp (opType name : String) (st : Store) (nodes : List Node) : Except Err (Doc × Store) :=
  match buildSelections (opFuel st nodes) 0 st nodes with
  | .error e => .error e
  | .ok (sels, nodes', st') =>
    let fv := combine st' nodes'
    .ok ({ opType := opType, name := name, varDefs := fv.map fun v => (v.uname, v.ty), sels := sels,
           values := fv.map fun v => (v.uname, v.value) }, st')

def runOp (p : Package) (op : Op) (st : Store) : Except Err Doc × Store :=
  match evalList p op.fields st with
  | (.error x, st1) => (.error x, st1)
  | (.ok nodes, st1) =>
    match execOp op.opType op.name st1 nodes with
    | .error x => (.error x, st1)
    | .ok (d, st2) => (.ok d, st2)

/-- the document the old code sends for one operation in a fresh process -/
def freshDoc (p : Package) (op : Op) : Option Doc :=
  match (runOp p op p.initStore).1 with
  | .ok d => some d
  | .error _ => none

end Ariadne.C14.Old
