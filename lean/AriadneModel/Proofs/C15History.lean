/-
  C15, ShorterResults over a whole generation run: the rewrite of ONE client method depends on the
  recorded result classes (`class_dict`) only — not on the methods rewritten before it, not on the
  imports collected so far.  Lemmas for Properties/C15.lean §3b.

  `ShorterResultsPlugin.generate_client_module` walks the methods of the client class in order and
  threads the plugin object (`self.class_dict`, `self.imported_types`, `self.extended_imports`)
  through `_modify_method_def`.  The only thing `_modify_method_def` writes is `extended_imports`
  (`_update_imports`); the decision "exactly one field, inherited fragment fields included"
  (`_return_or_yield_node_and_class` / `_get_all_fields`) reads `class_dict` only.  Hence, for every list
  of methods, method k is rewritten exactly as it would be if it were the only method.
-/
import AriadneModel.Proofs.C15

set_option linter.unusedSimpArgs false
set_option linter.unusedVariables false

namespace Ariadne.C15
open Ariadne Ariadne.Py Ariadne.Plugins Ariadne.ClientSem

/-! ### `_update_imports` writes `extended_imports` only -/

theorem foldl_keeps {α β γ : Type} (f : β → α → β) (g : β → γ) (h : ∀ b a, g (f b a) = g b) :
    ∀ (l : List α) (b : β), g (l.foldl f b) = g b := by
  intro l
  induction l with
  | nil => intro b; rfl
  | cons a rest ih => intro b; simp only [List.foldl_cons]; rw [ih, h]

/-- the part of the plugin object that `_modify_method_def` never writes -/
def _root_.Ariadne.Plugins.ShorterState.readOnly (st : ShorterState) : String × List (String × ClassDef) × List (String × String) :=
  (st.fragmentsModuleName, st.classDict, st.importedTypes)

theorem shorterUpdateImports_readOnly (st : ShorterState) (n : String) (classes : List String) :
    (shorterUpdateImports st n classes).readOnly = st.readOnly := by
  unfold shorterUpdateImports
  apply foldl_keeps (g := ShorterState.readOnly)
  intro b a
  simp only
  split <;> rfl

/-! ### one method: the state that comes out, and the method that comes out -/

/-- `_modify_method_def` leaves `class_dict`, `imported_types` and the configuration alone -/
theorem shorterModifyMethod_readOnly (st st' : ShorterState) (m m' : Method)
    (h : shorterModifyMethod st m = .ok (st', m')) : st'.readOnly = st.readOnly := by
  have same : ∀ {x : Method}, (pure (st, x) : M (ShorterState × Method)) = .ok (st', m') → st'.readOnly = st.readOnly := by
    intro x hh; simp [pure, Except.pure] at hh; rw [← hh.1]
  unfold shorterModifyMethod at h
  split at h
  · unfold shorterQueryMutation at h
    split at h
    · rename_i value id _ _
      cases hn : nodeAndClass st.classDict id with
      | error e => rw [hn] at h; cases h
      | ok x =>
        rw [hn] at h
        cases x with
        | none => exact same h
        | some t =>
          obtain ⟨node, classes, f⟩ := t
          simp only [bind_ok, pure_eq_ok, Except.ok.injEq, Prod.mk.injEq] at h
          rw [← h.1]
          exact shorterUpdateImports_readOnly st m.name classes
    · exact same h
  · unfold shorterSubscription at h
    split at h
    · rename_i id _
      cases hn : nodeAndClass st.classDict id with
      | error e => rw [hn] at h; cases h
      | ok x =>
        rw [hn] at h
        cases x with
        | none => exact same h
        | some t =>
          obtain ⟨node, classes, f⟩ := t
          simp only [bind_ok] at h
          split at h
          · cases h
          · split at h
            · simp only [pure_eq_ok, Except.ok.injEq, Prod.mk.injEq] at h
              rw [← h.1]
              exact shorterUpdateImports_readOnly st m.name classes
            · exact same h
    · exact same h
  · exact same h

/-- the method `_modify_method_def` leaves behind (or the exception it dies with) is a function of the
    method and of `class_dict` alone: two plugin objects that recorded the same classes — whatever
    they have done to other methods before — rewrite a method in the same way -/
theorem shorterModifyMethod_state_free (st1 st2 : ShorterState) (m : Method) (hd : st1.classDict = st2.classDict) :
    (shorterModifyMethod st1 m).map (·.2) = (shorterModifyMethod st2 m).map (·.2) := by
  unfold shorterModifyMethod
  split
  · unfold shorterQueryMutation
    split
    · rename_i value id _ _
      rw [hd]
      cases hn : nodeAndClass st2.classDict id with
      | error e => rfl
      | ok x =>
        cases x with
        | none => rfl
        | some t => obtain ⟨node, classes, f⟩ := t; rfl
    · rfl
  · unfold shorterSubscription
    split
    · rename_i id _
      rw [hd]
      cases hn : nodeAndClass st2.classDict id with
      | error e => rfl
      | ok x =>
        cases x with
        | none => rfl
        | some t =>
          obtain ⟨node, classes, f⟩ := t
          simp only [bind_ok]
          split
          · rfl
          · split <;> rfl
    · rfl
  · rfl

/-! ### all methods of the client class, in order -/

theorem ItemsRel.imp {R R' : Method → Method → Prop} (h : ∀ m m', R m m' → R' m m') :
    ∀ {x y : List ClassItem}, ItemsRel R x y → ItemsRel R' x y := by
  intro x y hxy
  induction hxy with
  | nil => exact .nil
  | method hm _ ih => exact .method (h _ _ hm) ih
  | other _ ih => exact .other ih

/-- what ShorterResults alone (any state `st0` that recorded the classes `dict`) makes of method `m` -/
def AloneGives (dict : List (String × ClassDef)) (m m' : Method) : Prop :=
  ∀ st0 : ShorterState, st0.classDict = dict → (shorterModifyMethod st0 m).map (·.2) = .ok m'

theorem shorter_methods_history_free : ∀ (items : List ClassItem) (st st' : ShorterState) (items' : List ClassItem),
    mapMethodsM shorterModifyMethod st items = .ok (st', items') →
    st'.readOnly = st.readOnly ∧ ItemsRel (AloneGives st.classDict) items items' := by
  intro items
  induction items with
  | nil =>
    intro st st' items' h
    simp [mapMethodsM, pure, Except.pure] at h
    obtain ⟨h1, h2⟩ := h
    subst h1; subst h2
    exact ⟨rfl, .nil⟩
  | cons it rest ih =>
    intro st st' items' h
    cases it with
    | method m =>
      simp only [mapMethodsM] at h
      cases hfm : shorterModifyMethod st m with
      | error e => rw [hfm] at h; cases h
      | ok r =>
        rw [hfm] at h
        simp only [bind_ok] at h
        cases hrest : mapMethodsM shorterModifyMethod r.1 rest with
        | error e => rw [hrest] at h; cases h
        | ok r2 =>
          rw [hrest] at h
          simp only [bind_ok, pure_eq_ok, Except.ok.injEq, Prod.mk.injEq] at h
          have hro : r.1.readOnly = st.readOnly := shorterModifyMethod_readOnly st r.1 m r.2 (by rw [hfm])
          have hdict : r.1.classDict = st.classDict := congrArg (fun t => t.2.1) hro
          obtain ⟨ih1, ih2⟩ := ih r.1 r2.1 r2.2 (by rw [hrest])
          rw [← h.1, ← h.2]
          refine ⟨ih1.trans hro, .method ?_ ?_⟩
          · intro st0 h0
            rw [shorterModifyMethod_state_free st0 st m h0, hfm]
            rfl
          · rw [hdict] at ih2; exact ih2
    | stmt s =>
      simp only [mapMethodsM] at h
      cases hrest : mapMethodsM shorterModifyMethod st rest with
      | error e => rw [hrest] at h; cases h
      | ok r2 =>
        rw [hrest] at h
        simp only [bind_ok, pure_eq_ok, Except.ok.injEq, Prod.mk.injEq] at h
        obtain ⟨ih1, ih2⟩ := ih st r2.1 r2.2 (by rw [hrest])
        rw [← h.1, ← h.2]
        exact ⟨ih1, .other ih2⟩

/-! ### "exactly one field, inherited fragment fields included" -/

/-- the result class `cls` has exactly one field, `f: ann`, counting the fields of the recorded base
    classes (`_get_all_fields`: fragments the class inherits from, transitively) -/
def SingleField (dict : List (String × ClassDef)) (cls f : String) (ann : Ex) : Prop :=
  ∃ cd, alookup cls dict = some cd ∧ getAllFields dict (dict.length + 1) cd = .ok [(.name f, ann)]

theorem nodeAndClass_of_single (dict : List (String × ClassDef)) (cls f : String) (ann : Ex)
    (h : SingleField dict cls f ann) :
    nodeAndClass dict cls = (updateNode (ann.size + 1) ann >>= fun r => pure (some (r.1, r.2, f))) := by
  obtain ⟨cd, h1, h2⟩ := h
  unfold nodeAndClass
  rw [h1]
  simp only [h2, bind_ok]

theorem single_of_nodeAndClass (dict : List (String × ClassDef)) (cls f : String) (node : Ex) (classes : List String)
    (h : nodeAndClass dict cls = .ok (some (node, classes, f))) : ∃ ann, SingleField dict cls f ann := by
  obtain ⟨cd, ann, h1, h2, _⟩ := (nodeAndClass_some dict cls node classes f).mp h
  exact ⟨ann, cd, h1, h2⟩

theorem not_single_of_nodeAndClass_none (dict : List (String × ClassDef)) (cls : String)
    (h : nodeAndClass dict cls = .ok none) (f : String) (ann : Ex) : ¬ SingleField dict cls f ann := by
  intro hs
  rw [nodeAndClass_of_single dict cls f ann hs] at h
  cases hu : updateNode (ann.size + 1) ann with
  | error e => rw [hu] at h; cases h
  | ok r => rw [hu] at h; simp [bind_ok, pure_eq_ok] at h

theorem single_unique (dict : List (String × ClassDef)) (cls f f' : String) (ann ann' : Ex)
    (h : SingleField dict cls f ann) (h' : SingleField dict cls f' ann') : f = f' ∧ ann = ann' := by
  obtain ⟨cd, h1, h2⟩ := h
  obtain ⟨cd', h1', h2'⟩ := h'
  rw [h1] at h1'
  cases h1'
  rw [h2] at h2'
  simp at h2'
  exact h2'

/-! ### the projected body differs from the original one, and names its field -/

theorem attr_ne_self (e : Ex) (f : String) : Ex.attr e f ≠ e := by
  intro h
  have := congrArg Ex.size h
  simp [Ex.size] at this

theorem bodyOf_shorterShape_ne (s : Shape) (f : String) : bodyOf (shorterShape s f) ≠ bodyOf s := by
  intro h
  cases ht : s.tail with
  | call aw r d =>
    rw [shorterShape_body_call s f aw r d ht, bodyOf_eq] at h
    have h2 := List.append_cancel_left h
    simp [lastStmt, ht] at h2
    exact attr_ne_self _ _ h2
  | sub d l o =>
    rw [shorterShape_body_sub s f d l o ht, bodyOf_eq] at h
    have h2 := List.append_cancel_left h
    simp [lastStmt, ht] at h2
    exact attr_ne_self _ _ h2.1

theorem bodyOf_shorterShape_inj (s : Shape) (f f' : String)
    (h : bodyOf (shorterShape s f) = bodyOf (shorterShape s f')) : f = f' := by
  cases ht : s.tail with
  | call aw r d =>
    rw [shorterShape_body_call s f aw r d ht, shorterShape_body_call s f' aw r d ht] at h
    have h2 := List.append_cancel_left h
    simpa using h2
  | sub d l o =>
    rw [shorterShape_body_sub s f d l o ht, shorterShape_body_sub s f' d l o ht] at h
    have h2 := List.append_cancel_left h
    simpa using h2

/-- query / mutation method of the generated shape, any plugin state: the rewritten method returns the
    attribute `f` of the validated result iff the result class has exactly one field, `f`, inherited
    fragment fields included; it is returned untouched iff the class has no single field -/
theorem shorter_call_iff (st st' : ShorterState) (m m' : Method) (s : Shape) (aw : Bool) (r d cls : String)
    (hb : m.body = bodyOf s) (ht : s.tail = .call aw r d) (hr : m.returns = some (.name cls))
    (h : shorterModifyMethod st m = .ok (st', m')) :
    (∀ f, m'.body = bodyOf (shorterShape s f) ↔ ∃ ann, SingleField st.classDict cls f ann) ∧
    (m' = m ↔ ∀ f ann, ¬ SingleField st.classDict cls f ann) := by
  rw [shorter_call st m s aw r d cls hb ht hr] at h
  cases hn : nodeAndClass st.classDict cls with
  | error e => rw [hn] at h; cases h
  | ok x =>
    rw [hn] at h
    cases x with
    | none =>
      simp only [bind_ok, pure_eq_ok, Except.ok.injEq, Prod.mk.injEq] at h
      obtain ⟨_, rfl⟩ := h
      have hno := not_single_of_nodeAndClass_none st.classDict cls hn
      refine ⟨fun f => ⟨fun hbody => ?_, fun ⟨ann, hs⟩ => absurd hs (hno f ann)⟩, ⟨fun _ => hno, fun _ => rfl⟩⟩
      rw [hb] at hbody
      exact absurd hbody.symm (bodyOf_shorterShape_ne s f)
    | some t =>
      obtain ⟨node, classes, f0⟩ := t
      simp only [bind_ok, pure_eq_ok, Except.ok.injEq, Prod.mk.injEq] at h
      obtain ⟨_, rfl⟩ := h
      obtain ⟨ann0, hs0⟩ := single_of_nodeAndClass st.classDict cls f0 node classes hn
      refine ⟨fun f => ⟨fun hbody => ?_, fun ⟨ann, hs⟩ => ?_⟩, ⟨fun heq => ?_, fun hall => absurd hs0 (hall f0 ann0)⟩⟩
      · have := bodyOf_shorterShape_inj s f0 f hbody
        subst this
        exact ⟨ann0, hs0⟩
      · have := (single_unique st.classDict cls f f0 ann ann0 hs hs0).1
        subst this
        rfl
      · have hbody := congrArg Method.body heq
        simp only at hbody
        rw [hb] at hbody
        exact absurd hbody (bodyOf_shorterShape_ne s f0)

/-- the same for a subscription method as client.py builds it (`async for` with a list body) -/
theorem shorter_sub_iff (st st' : ShorterState) (m m' : Method) (s : Shape) (d cls : String) (o : Nat) (a : Ex)
    (hb : m.body = bodyOf s) (ht : s.tail = .sub d true o) (hr : m.returns = some (.sub a (.name cls)))
    (h : shorterModifyMethod st m = .ok (st', m')) :
    (∀ f, m'.body = bodyOf (shorterShape s f) ↔ ∃ ann, SingleField st.classDict cls f ann) ∧
    (m' = m ↔ ∀ f ann, ¬ SingleField st.classDict cls f ann) := by
  rw [shorter_sub st m s d cls o a hb ht hr] at h
  cases hn : nodeAndClass st.classDict cls with
  | error e => rw [hn] at h; cases h
  | ok x =>
    rw [hn] at h
    cases x with
    | none =>
      simp only [bind_ok, pure_eq_ok, Except.ok.injEq, Prod.mk.injEq] at h
      obtain ⟨_, rfl⟩ := h
      have hno := not_single_of_nodeAndClass_none st.classDict cls hn
      refine ⟨fun f => ⟨fun hbody => ?_, fun ⟨ann, hs⟩ => absurd hs (hno f ann)⟩, ⟨fun _ => hno, fun _ => rfl⟩⟩
      rw [hb] at hbody
      exact absurd hbody.symm (bodyOf_shorterShape_ne s f)
    | some t =>
      obtain ⟨node, classes, f0⟩ := t
      simp only [bind_ok, pure_eq_ok, Except.ok.injEq, Prod.mk.injEq] at h
      obtain ⟨_, rfl⟩ := h
      obtain ⟨ann0, hs0⟩ := single_of_nodeAndClass st.classDict cls f0 node classes hn
      refine ⟨fun f => ⟨fun hbody => ?_, fun ⟨ann, hs⟩ => ?_⟩, ⟨fun heq => ?_, fun hall => absurd hs0 (hall f0 ann0)⟩⟩
      · have := bodyOf_shorterShape_inj s f0 f hbody
        subst this
        exact ⟨ann0, hs0⟩
      · have := (single_unique st.classDict cls f f0 ann ann0 hs hs0).1
        subst this
        rfl
      · have hbody := congrArg Method.body heq
        simp only at hbody
        rw [hb] at hbody
        exact absurd hbody (bodyOf_shorterShape_ne s f0)

end Ariadne.C15
