/-
  Lemmas about the input-class model (Model/InputField.lean): the annotation is the faithful one
  exactly when finding C06-F1's trigger is off; shape of the annotation; `required` of a generated
  field; agreement with the C19 model (`InputGen.annOf`) when no custom scalar is configured.
-/
import AriadneModel.Model.InputField

set_option linter.unusedSimpArgs false
set_option linter.unusedVariables false

namespace Ariadne.InputField
open Ariadne
open Ariadne.InputGen (TypeRef Lit PyExpr InputField TypeDef)

/-- what a named type contributes to an annotation, and the `field_type` -/
def namedAnn (kinds : String → Kind) (n : String) : Option (Ann × String) :=
  match kinds n with
  | .builtin py => some (.name py, "")
  | .custom ty (some ser) => some (.annotated ty ser, n)
  | .custom ty none => some (.name ty, n)
  | .any => some (.name "Any", "")
  | .input => some (.fwd n, n)
  | .enum => some (.name n, n)
  | .composite => none
  | .unknown => none

theorem annOf_named (kinds : String → Kind) (n : String) (nl : Bool) :
    annOf kinds (.named n) nl = (namedAnn kinds n).map (fun p => (wrapNullable nl p.1, p.2)) := by
  unfold annOf namedAnn
  cases h : kinds n with
  | custom ty ser => cases ser <;> rfl
  | _ => rfl

/-- the FAITHFUL annotation: `Optional[...]` exactly at the nullable positions of the type -/
def annIdeal (kinds : String → Kind) : TypeRef → Bool → Option (Ann × String)
  | .named n, nullable => (namedAnn kinds n).map (fun p => (wrapNullable nullable p.1, p.2))
  | .list t, nullable =>
    match annIdeal kinds t true with         -- an item is nullable unless it is wrapped in NonNull
    | some (a, ft) => some (wrapNullable nullable (.list a), ft)
    | none => none
  | .nonNull t, _ => annIdeal kinds t false

theorem annIdeal_nonNull_flag (kinds : String → Kind) (t : TypeRef) (h : t.isNonNull = true) (a b : Bool) :
    annIdeal kinds t a = annIdeal kinds t b := by
  cases t <;> simp [InputGen.TypeRef.isNonNull] at h
  simp [annIdeal]

/-- outside C06-F1's trigger the emitted annotation is the faithful one -/
theorem annOf_faithful (kinds : String → Kind) (t : TypeRef) :
    ∀ nl, nullableItemUnderNonNull (!nl) t = false → annOf kinds t nl = annIdeal kinds t nl := by
  induction t with
  | named n => intro nl _; rw [annOf_named]; rfl
  | list t ih =>
    intro nl h
    simp only [nullableItemUnderNonNull, Bool.or_eq_false_iff, Bool.and_eq_false_iff] at h
    obtain ⟨h1, h2⟩ := h
    have e1 := ih nl h2
    have e2 : annIdeal kinds t nl = annIdeal kinds t true := by
      cases nl with
      | true => rfl
      | false =>
        have : t.isNonNull = true := by
          rcases h1 with h1 | h1
          · simp at h1
          · simpa using h1
        exact annIdeal_nonNull_flag kinds t this _ _
    simp only [annOf, annIdeal, e1, e2]
    rfl
  | nonNull t ih =>
    intro nl h
    simp only [nullableItemUnderNonNull] at h
    simp only [annOf, annIdeal]
    exact ih false (by simpa using h)

theorem annOf_faithful_top (kinds : String → Kind) (t : TypeRef) (h : trigNullableListItem t = false) :
    annOf kinds t true = annIdeal kinds t true :=
  annOf_faithful kinds t true (by simpa [trigNullableListItem] using h)

/-- `[Int]!`: the emitted annotation is `List[int]`, the faithful one `List[Optional[int]]` -/
example : (annOf (fun _ => .builtin "int") (.nonNull (.list (.named "Int"))) true).map (·.1.render) = some "List[int]" := by decide
example : (annIdeal (fun _ => .builtin "int") (.nonNull (.list (.named "Int"))) true).map (·.1.render) = some "List[Optional[int]]" := by decide

/-! ### required -/

theorem processFieldValue_default (alias : String) (v : Option PyExpr) :
    (processFieldValue alias v).default = v := by
  cases v with
  | none => rfl
  | some e => cases e <;> rfl

theorem processFieldValue_alias (alias : String) (v : Option PyExpr) :
    (processFieldValue alias v).alias = some alias := by
  cases v with
  | none => rfl
  | some e => cases e <;> rfl

/-- the default pydantic sees is what `parse_input_field_default_value` returned, alias or not -/
theorem genField_default (cfg : Cfg) (kinds : String → Kind) (f : InputField) (d : FieldDecl)
    (h : genField cfg kinds f = some d) :
    ∃ a ft, annOf kinds f.type true = some (a, ft) ∧ d.ann = a ∧ d.py = pyName cfg.snake f.name ∧
      d.value.default = InputGen.fieldDefault .sdl ft f ∧
      d.value.alias = (if pyName cfg.snake f.name != f.name then some f.name else none) := by
  unfold genField at h
  cases ha : annOf kinds f.type true with
  | none => simp [ha] at h
  | some p =>
    obtain ⟨a, ft⟩ := p
    simp only [ha, Option.some.injEq] at h
    subst h
    refine ⟨a, ft, rfl, rfl, rfl, ?_, ?_⟩
    · by_cases hp : (pyName cfg.snake f.name != f.name) = true
      · simp only [hp, if_true]; exact processFieldValue_default _ _
      · simp only [hp]
        cases InputGen.fieldDefault .sdl ft f <;> rfl
    · by_cases hp : (pyName cfg.snake f.name != f.name) = true
      · simp only [hp, if_true]; exact processFieldValue_alias _ _
      · simp only [hp]
        cases InputGen.fieldDefault .sdl ft f <;> rfl

/-- `parse_input_field_default_value` returns nothing iff the type is NonNull and there is no default -/
theorem fieldDefault_none_iff (ft : String) (f : InputField) :
    InputGen.fieldDefault .sdl ft f = none ↔ (f.type.isNonNull = true ∧ f.default = none) := by
  unfold InputGen.fieldDefault
  cases hd : f.default with
  | some lit => simp
  | none => cases f.type.isNonNull <;> simp

/-! ### the C19 model is this model without configured scalars -/

def embedAnn : InputGen.Ann → Ann
  | .name s => .name s
  | .fwd s => .fwd s
  | .optional a => .optional (embedAnn a)
  | .list a => .list (embedAnn a)

def embedKind : InputGen.Kind → Kind
  | .scalar py => if py == "Any" then .any else .builtin py
  | .enum => .enum
  | .input => .input
  | .composite => .composite
  | .unknown => .unknown

theorem annOf_eq_inputGen (k : String → InputGen.Kind) (t : TypeRef) :
    ∀ nl, annOf (fun n => embedKind (k n)) t nl = (InputGen.annOf k t nl).map (fun p => (embedAnn p.1, p.2)) := by
  induction t with
  | named n =>
    intro nl
    simp only [annOf, InputGen.annOf]
    cases h : k n with
    | scalar py =>
      by_cases hp : (py == "Any") = true
      · have : py = "Any" := by simpa using hp
        subst this
        cases nl <;> simp [embedKind, wrapNullable, InputGen.wrapNullable, embedAnn]
      · cases nl <;> simp [embedKind, hp, wrapNullable, InputGen.wrapNullable, embedAnn]
    | _ => cases nl <;> simp [embedKind, wrapNullable, InputGen.wrapNullable, embedAnn]
  | list t ih =>
    intro nl
    simp only [annOf, InputGen.annOf, ih nl]
    cases h : InputGen.annOf k t nl with
    | none => rfl
    | some p => cases nl <;> simp [wrapNullable, InputGen.wrapNullable, embedAnn]
  | nonNull t ih =>
    intro nl
    simp only [annOf, InputGen.annOf, ih false]

end Ariadne.InputField
